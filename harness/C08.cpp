// C08: PolygonAreaT bookkeeping for every edit history (all public members, five solver configurations),
//      AreaReduce on the accumulator, AddEdge-built vs AddPoint-built polygons, tools/Planimeter in-process
#include "common.hpp"
#include <iostream>
#include <string>
#include <sstream>
#include <fstream>
#include <algorithm>
#include <GeographicLib/PolygonArea.hpp>
#include <GeographicLib/Geodesic.hpp>
#include <GeographicLib/GeodesicExact.hpp>
#include <GeographicLib/Rhumb.hpp>
#include <GeographicLib/Math.hpp>
#include <GeographicLib/DMS.hpp>
#include <GeographicLib/Utility.hpp>
#include <GeographicLib/GeoCoords.hpp>
#include <GeographicLib/AuxLatitude.hpp>

// tools/Planimeter.cpp of the *current* tree is compiled into this harness (same library build, same sanitizers);
// its `main` and `usage` live in a namespace.  All headers it includes are included above.
namespace tool_planimeter {
#include "../tools/Planimeter.cpp"
}

using namespace GeographicLib; using namespace gv;

static std::vector<std::string> splitc(const std::string& s, char c = ':') { std::vector<std::string> r; std::string t; std::istringstream is(s); while (std::getline(is, t, c)) r.push_back(t); return r; }
static std::string opt(bool written, double v) { return written ? hx(v) : std::string("-"); }
static const double SENT = 7.25e77;
static void badx(const std::string& rel, std::string det) {
  for (size_t i = 0; i + 1 < det.size(); ++i) if (det[i] == ':' && det[i + 1] == ':') det[i + 1] = '.';
  for (auto& c : det) if ((unsigned char)c < 32 || (unsigned char)c > 126) c = '?';
  gv::bad(rel, det);
}
static std::string g17(double x) { char b[40]; std::snprintf(b, sizeof b, "%.17g", x); return b; }
static double ulpof(double x) { return gv::ulp(x == 0 ? 1e-300 : x); }
static double moddiff(double a, double b, double A) { return std::fabs(std::remainder(a - b, A)); }

// ---- the algebra of the four (reverse, sign) outputs: r[reverse][sign] ------------------------------------
// signed outputs are exact negatives of each other (the documented "negated"), the unsigned output is the signed one
// when that is >= 0 and the signed one + A (one rounding) otherwise, complements add up to A, ranges as documented.
static void flag_algebra(const char* what, const double r[2][2], double A) {
  double u = ulpof(A);
  for (int rv = 0; rv < 2; ++rv) {
    double s = r[rv][1], n = r[rv][0];
    if (!(s > -A / 2 - 0 && s <= A / 2)) badx("flag-algebra", std::string(what) + ": signed area " + g17(s) + " outside (-A/2, A/2], A=" + g17(A));
    if (!(n >= 0 && n <= A)) badx("flag-algebra", std::string(what) + ": unsigned area " + g17(n) + " outside [0, A], A=" + g17(A));
    if (s >= 0 ? !(n == s) : !(std::fabs(n - (s + A)) <= 2 * u))
      badx("flag-algebra", std::string(what) + ": unsigned area " + g17(n) + " is not the signed area " + g17(s) + (s >= 0 ? "" : " + A") + " (reverse=" + std::to_string(rv) + ")");
  }
  double a = r[1][1], b = r[0][1];
  if (std::fabs(a) == A / 2 || std::fabs(b) == A / 2) { if (!(a == A / 2 && b == A / 2)) badx("flag-algebra", std::string(what) + ": at the end of the range both signed areas must be +A/2: " + g17(a) + ", " + g17(b)); }
  else if (!(a == -b)) badx("flag-algebra", std::string(what) + ": reverse does not negate the signed area exactly: " + g17(a) + " vs " + g17(b));
  double c = r[1][0], d = r[0][0];
  if ((c == 0 || d == 0) ? !((c == 0 || std::fabs(c - A) <= 2 * u) && (d == 0 || std::fabs(d - A) <= 2 * u)) : !(std::fabs(c + d - A) <= 4 * u))
    badx("flag-algebra", std::string(what) + ": unsigned areas for the two values of reverse do not add up to A: " + g17(c) + " + " + g17(d));
}

// ---- the whole object, bit for bit --------------------------------------------------------------------------
template<class Earth> static std::vector<uint64_t> snap(const PolygonAreaT<Earth>& p) {
  return {uint64_t(p._num), uint64_t(int64_t(p._crossings)), bits(p._areasum._s), bits(p._areasum._t), bits(p._perimetersum._s), bits(p._perimetersum._t),
          bits(p._lat0), bits(p._lon0), bits(p._lat1), bits(p._lon1), bits(p._area0), uint64_t(p._mask), uint64_t(p._polyline),
          bits(p._earth.EquatorialRadius()), bits(p._earth.Flattening())};
}
static const char* snapname[] = {"_num", "_crossings", "_areasum._s", "_areasum._t", "_perimetersum._s", "_perimetersum._t", "_lat0", "_lon0", "_lat1", "_lon1", "_area0", "_mask", "_polyline", "_earth.a", "_earth.f"};

template<class Earth> struct Hist {
  typedef PolygonAreaT<Earth> Poly;
  static std::string inv(const Earth& earth, unsigned mask, double lat1, double lon1, double lat2, double lon2, double& s12, double& S12) {
    double x; s12 = 0; S12 = 0;
    earth.GenInverse(lat1, lon1, lat2, lon2, mask, s12, x, x, x, x, x, S12);
    return " k:" + hx(lat1) + ":" + hx(lon1) + ":" + hx(lat2) + ":" + hx(lon2) + ":" + hx(s12) + ":" + hx(S12);
  }
  static std::string dir(const Earth& earth, unsigned mask, double lat1, double lon1, double azi, double s, double& lat2, double& lon2, double& S12) {
    double x; lat2 = 0; lon2 = 0; S12 = 0;
    earth.GenDirect(lat1, lon1, azi, false, s, mask, lat2, lon2, x, x, x, x, x, S12);
    return " d:" + hx(lat1) + ":" + hx(lon1) + ":" + hx(azi) + ":" + hx(s) + ":" + hx(lat2) + ":" + hx(lon2) + ":" + hx(S12);
  }
  static void unchanged(const std::vector<uint64_t>& a, const Poly& p, const char* what) {
    auto b = snap(p);
    for (size_t i = 0; i < a.size(); ++i) if (a[i] != b[i]) { badx("query-modifies-polygon", std::string(what) + " changed " + snapname[i]); return; }
  }
  // CurrentPoint reports the vertex last added: same latitude, same longitude modulo 360 (the header promises
  // [-180, 180], the code returns the longitude as stored: either is the same point)
  static void current_point(const Poly& p, const char* what) {
    double la, lo; p.CurrentPoint(la, lo);
    bool ok = std::isnan(p._lat1) ? (std::isnan(la) && std::isnan(lo)) :
      (bits(la) == bits(p._lat1) && (bits(lo) == bits(p._lon1) || (!std::isfinite(p._lon1) ? !std::isfinite(lo) : Math::AngNormalize(lo) == Math::AngNormalize(p._lon1))));
    if (!ok) badx("current-point", std::string("CurrentPoint after ") + what + " reports (" + g17(la) + ", " + g17(lo) + "), the vertex is (" + g17(p._lat1) + ", " + g17(p._lon1) + ")");
  }
  static std::string state(const Poly& p) {
    unsigned n = p.NumberPoints();
    return " s:" + std::to_string(n) + ":" + hx(p._lat1) + ":" + hx(p._lon1) + ":" + hx(p._lat0) + ":" + hx(p._lon0) + ":" + std::to_string(p._crossings) + ":" +
      hx(p._areasum._s) + ":" + hx(p._areasum._t) + ":" + hx(p._perimetersum._s) + ":" + hx(p._perimetersum._t);
  }
  // a query against "do it on a copy": count equal, perimeter and area to within round-off of the accumulated sums
  static void against_copy(const char* what, unsigned n, double per, double area, unsigned n2, double per2, double area2, bool polyline, double scaleP, double scaleS, double A) {
    double e = std::ldexp(1.0, -50);
    if (n != n2) badx("test-vs-add-compute", std::string(what) + " returns " + std::to_string(n) + " points, Add+Compute on a copy " + std::to_string(n2));
    if (!(std::fabs(per - per2) <= e * (scaleP + 1))) badx("test-vs-add-compute", std::string(what) + " perimeter " + g17(per) + " vs Add+Compute on a copy " + g17(per2));
    if (polyline) { if (area != SENT || area2 != SENT) badx("polyline-touches-area", std::string(what) + ": area written in polyline mode"); }
    else if (!(moddiff(area, area2, A) <= e * (scaleS + A))) badx("test-vs-add-compute", std::string(what) + " area " + g17(area) + " vs Add+Compute on a copy " + g17(area2));
  }
  static void run(const Earth& earth, bool polyline, double ea, double ef, const Args& a, size_t first) {
    Poly p(earth, polyline);
    const double A = p._area0;
    std::string out = "A0:" + hx(A);
    if (p.Polyline() != polyline || bits(p.EquatorialRadius()) != bits(ea) || bits(p.Flattening()) != bits(ef) || bits(A) != bits(earth.EllipsoidArea()))
      badx("inspector-mismatch", "Polyline/EquatorialRadius/Flattening/_area0 differ from the constructor arguments");
    if (polyline && (p._mask & Earth::AREA)) badx("polyline-touches-area", "the mask of a polyline requests the area");
    out += state(p);
    for (size_t i = first; i < a.size(); ++i) {
      auto t = splitc(a[i]);
      double s12 = 0, S12 = 0;
      if (t[0] == "X") { p.Clear(); out += " x";
        double la, lo; p.CurrentPoint(la, lo);
        if (p.NumberPoints() != 0 || !std::isnan(la) || !std::isnan(lo)) badx("clear-not-empty", "after Clear: NumberPoints=" + std::to_string(p.NumberPoints()) + " CurrentPoint=" + g17(la) + "," + g17(lo));
      }
      else if (t[0] == "P") {
        double lat = unhx(t[1]), lon = unhx(t[2]);
        if (p._num) out += inv(earth, p._mask, p._lat1, p._lon1, lat, lon, s12, S12);
        p.AddPoint(lat, lon);
        if (bits(p._lat1) != bits(lat) || bits(p._lon1) != bits(lon)) badx("current-point", "the current vertex after AddPoint is not the point added");
      } else if (t[0] == "E") {
        double azi = unhx(t[1]), s = unhx(t[2]), lat2 = 0, lon2 = 0;
        unsigned n0 = p.NumberPoints(); auto before = snap(p);
        if (p._num) out += dir(earth, p._mask, p._lat1, p._lon1, azi, s, lat2, lon2, S12);
        p.AddEdge(azi, s);
        if (n0 == 0) unchanged(before, p, "AddEdge before the first point");
        else if (bits(p._lat1) != bits(lat2) || bits(p._lon1) != bits(lon2)) badx("current-point", "the current vertex after AddEdge is not the end of the edge");
      } else if (t[0] == "C") {
        bool rev = t[1] == "1", sign = t[2] == "1";
        if (p._num >= 2 && !polyline) out += inv(earth, p._mask, p._lat1, p._lon1, p._lat0, p._lon0, s12, S12);
        auto before = snap(p);
        double per = SENT, area = SENT; unsigned n = p.Compute(rev, sign, per, area);
        out += " r:" + std::to_string(n) + ":" + opt(per != SENT, per) + ":" + opt(area != SENT, area);
        unchanged(before, p, "Compute");
        if (n != p.NumberPoints()) badx("number-points", "Compute returns " + std::to_string(n) + ", NumberPoints() " + std::to_string(p.NumberPoints()));
        if (!polyline) { double r[2][2]; bool ok = true;
          for (int rv = 0; rv < 2; ++rv) for (int sg = 0; sg < 2; ++sg) { double pp; r[rv][sg] = SENT; p.Compute(rv, sg, pp, r[rv][sg]); if (bits(pp) != bits(per)) badx("flag-algebra", "Compute: the perimeter depends on reverse/sign"); if (!std::isfinite(r[rv][sg])) ok = false; }
          if (bits(r[rev][sign]) != bits(area)) badx("flag-algebra", "Compute is not repeatable");
          if (ok) flag_algebra("Compute", r, A);
        }
      } else if (t[0] == "TP") {
        double lat = unhx(t[1]), lon = unhx(t[2]); bool rev = t[3] == "1", sign = t[4] == "1";
        double s1 = 0, S1 = 0, s2 = 0, S2 = 0;
        if (p._num) { out += inv(earth, p._mask, p._lat1, p._lon1, lat, lon, s1, S1); if (!polyline) out += inv(earth, p._mask, lat, lon, p._lat0, p._lon0, s2, S2); }
        auto before = snap(p);
        double per = SENT, area = SENT; unsigned n = p.TestPoint(lat, lon, rev, sign, per, area);
        out += " r:" + std::to_string(n) + ":" + opt(per != SENT, per) + ":" + opt(area != SENT, area);
        unchanged(before, p, "TestPoint");
        { Poly q(p); q.AddPoint(lat, lon); double per2 = SENT, area2 = SENT; unsigned n2 = q.Compute(rev, sign, per2, area2);
          if (std::isfinite(per) && (polyline || std::isfinite(area)))
            against_copy("TestPoint", n, per, area, n2, per2, area2, polyline, std::fabs(p._perimetersum._s) + std::fabs(s1) + std::fabs(s2), std::fabs(p._areasum._s) + std::fabs(S1) + std::fabs(S2), A); }
        if (!polyline && p._num) { double r[2][2]; bool ok = true;
          for (int rv = 0; rv < 2; ++rv) for (int sg = 0; sg < 2; ++sg) { double pp; r[rv][sg] = SENT; p.TestPoint(lat, lon, rv, sg, pp, r[rv][sg]); if (!std::isfinite(r[rv][sg])) ok = false; }
          if (ok) flag_algebra("TestPoint", r, A); }
      } else if (t[0] == "TE") {
        double azi = unhx(t[1]), s = unhx(t[2]); bool rev = t[3] == "1", sign = t[4] == "1";
        double lat2 = 0, lon2 = 0, s2 = 0, S2 = 0;
        if (p._num) { out += dir(earth, p._mask, p._lat1, p._lon1, azi, s, lat2, lon2, S12); if (!polyline) out += inv(earth, p._mask, lat2, lon2, p._lat0, p._lon0, s2, S2); }
        auto before = snap(p);
        double per = SENT, area = SENT; unsigned n = p.TestEdge(azi, s, rev, sign, per, area);
        out += " r:" + std::to_string(n) + ":" + opt(per != SENT, per) + ":" + opt(area != SENT, area);
        unchanged(before, p, "TestEdge");
        if (p._num) { Poly q(p); q.AddEdge(azi, s); double per2 = SENT, area2 = SENT; unsigned n2 = q.Compute(rev, sign, per2, area2);
          if (std::isfinite(per) && (polyline || std::isfinite(area)))
            against_copy("TestEdge", n, per, area, n2, per2, area2, polyline, std::fabs(p._perimetersum._s) + std::fabs(s) + std::fabs(s2), std::fabs(p._areasum._s) + std::fabs(S12) + std::fabs(S2), A); }
        if (!polyline && p._num) { double r[2][2]; bool ok = true;
          for (int rv = 0; rv < 2; ++rv) for (int sg = 0; sg < 2; ++sg) { double pp; r[rv][sg] = SENT; p.TestEdge(azi, s, rv, sg, pp, r[rv][sg]); if (!std::isfinite(r[rv][sg])) ok = false; }
          if (ok) flag_algebra("TestEdge", r, A); }
      }
      out += state(p); current_point(p, t[0].c_str());
      if (polyline && (p._crossings != 0 || bits(p._areasum._s) != 0 || bits(p._areasum._t) != 0)) badx("polyline-touches-area", "a polyline changed _areasum/_crossings");
    }
    if (p.Polyline() != polyline || bits(p.EquatorialRadius()) != bits(ea) || bits(p.Flattening()) != bits(ef) || bits(p._area0) != bits(A))
      badx("inspector-mismatch", "Polyline/EquatorialRadius/Flattening/_area0 changed during the history");
    emit(out);
  }
};

// the five solver configurations: G Geodesic (series), E GeodesicExact, R Rhumb (series), X Geodesic(exact = true), Y Rhumb(exact = true)
template<class F> static void with_earth(char bk, double a, double f, F fn) {
  switch (bk) {
  case 'G': fn(Geodesic(a, f)); break;
  case 'E': fn(GeodesicExact(a, f)); break;
  case 'R': fn(Rhumb(a, f)); break;
  case 'X': fn(Geodesic(a, f, true)); break;
  default:  fn(Rhumb(a, f, true)); break;
  }
}
struct HistFn { bool polyline; double a, f; const Args& args;
  template<class Earth> void operator()(const Earth& e) const { Hist<Earth>::run(e, polyline, a, f, args, 4); } };

static Reg r_poly("poly", [](const Args& a) {
  double ea = unhx(a[1]), ef = unhx(a[2]); bool polyline = a[3] == "1";
  with_earth(a[0][0], ea, ef, HistFn{polyline, ea, ef, a});
});
static Reg r_transit("transit", [](const Args& a) {
  double l1 = unhx(a[0]), l2 = unhx(a[1]);
  int t = PolygonArea::transit(l1, l2), td = PolygonArea::transitdirect(l1, l2);
  emit(std::to_string(t) + " " + std::to_string(td));
  if (t != PolygonAreaRhumb::transit(l1, l2) || t != PolygonAreaExact::transit(l1, l2) || td != PolygonAreaRhumb::transitdirect(l1, l2) || td != PolygonAreaExact::transitdirect(l1, l2))
    badx("transit-instantiations", "transit/transitdirect differ between the three instantiations");
  // an unrolled end longitude within half a turn: the two counters have the same parity (AddEdge ~ AddPoint)
  double d = l2 - l1;
  if (std::isfinite(d) && std::fabs(d) < 180 && l1 + d == l2 && (t - td) % 2 != 0)
    badx("transit-vs-transitdirect", "lon1=" + g17(l1) + " lon2=" + g17(l2) + ": transit=" + std::to_string(t) + " transitdirect=" + std::to_string(td));
});

// ---- AreaReduce on an accumulator (through Compute) and on a plain real (through TestPoint), all four flag combinations ----
// The sums and the crossing count are planted in an object whose two vertices coincide at (0, 0): the closing edge adds
// nothing, so Compute returns 0 + AreaReduce(Accumulator(s, t) + S12) and TestPoint(0, 0) returns 0 + AreaReduce(real(s) + S12 + S12).
// areduce <a> <f> <s> <t> <crossings> | A0 S12 then for (rv, sg) in 00 01 10 11: Compute area : TestPoint area
static Reg r_areduce("areduce", [](const Args& a) {
  Geodesic g(unhx(a[0]), unhx(a[1])); PolygonArea p(g);
  double s = unhx(a[2]), t = unhx(a[3]); int cr = std::atoi(a[4].c_str());
  p.AddPoint(0, 0); p.AddPoint(0, 0); p._areasum._s = s; p._areasum._t = t; p._crossings = cr;
  double s12, S12, x; g.GenInverse(0, 0, 0, 0, p._mask, s12, x, x, x, x, x, S12);
  std::string out = "A0:" + hx(p._area0) + " " + hx(S12); double ra[2][2], rr[2][2];
  for (int rv = 0; rv < 2; ++rv) for (int sg = 0; sg < 2; ++sg) {
    double per; p.Compute(rv, sg, per, ra[rv][sg]); p.TestPoint(0, 0, rv, sg, per, rr[rv][sg]);
    out += " " + hx(ra[rv][sg]) + ":" + hx(rr[rv][sg]);
  }
  emit(out);
  if (S12 != 0 || s12 != 0) badx("harness", "the degenerate closing edge is not empty");
  if (std::isfinite(s) && std::isfinite(t)) { flag_algebra("AreaReduce(Accumulator)", ra, p._area0); flag_algebra("AreaReduce(real)", rr, p._area0); }
});

// ---- metamorphic laws of the statement, on the implementation ----
struct V { double lat, lon; };
template<class Earth> static bool areaof(const Earth& e, const std::vector<V>& v, bool rev, bool sign, double& per, double& area) {
  PolygonAreaT<Earth> p(e, false); for (auto& q : v) p.AddPoint(q.lat, q.lon); p.Compute(rev, sign, per, area); return true;
}
static bool ambiguous(const V& a, const V& b) { double d = std::fabs(Math::AngDiff(a.lon, b.lon)); double sl = std::fabs(a.lat + b.lat); return d == 180 || (sl < 1e-9 && (d > 179 || std::fabs(a.lat) == 90)); }
template<class Earth> static void meta(const Earth& e, const std::vector<V>& v, double A) {
  double p0, a0, p1, a1; areaof(e, v, false, true, p0, a0);
  double tol = 1e-15 * 64 * (A + std::fabs(a0)) , ptol = 1e-13 * (p0 + 1);
  // ambiguous edges (exactly 180 degrees apart / antipodal) are excluded by the statement ("taken to be unique")
  size_t n = v.size();
  for (size_t i = 0; i < n; ++i) if (ambiguous(v[i], v[(i + 1) % n])) return;
  if (std::isnan(a0)) return; // rhumb lines ending at a pole have no defined area
  // (1) start vertex
  { std::vector<V> w(v.begin() + 1, v.end()); w.push_back(v[0]); areaof(e, w, false, true, p1, a1);
    if (!(moddiff(a1, a0, A) <= tol && std::fabs(p1 - p0) <= ptol)) bad("start-vertex", "area/perimeter depend on which vertex comes first: " + std::to_string(a0) + " vs " + std::to_string(a1)); }
  // (2) one longitude +/- 360k
  { std::vector<V> w = v; size_t k = n / 2; w[k].lon += 360.0 * ((n % 3) - 1 == 0 ? 2 : (int(n % 3) - 1)); if (w[k].lon - v[k].lon != 0 && std::remainder(w[k].lon, 360.0) == std::remainder(v[k].lon, 360.0)) { areaof(e, w, false, true, p1, a1);
    if (!(std::fabs(a1 - a0) <= tol && std::fabs(p1 - p0) <= ptol)) bad("longitude-plus-360k", "area changes when a longitude is changed by a multiple of 360: " + std::to_string(a0) + " vs " + std::to_string(a1)); } }
  // (3) constant shift of all longitudes (exact shift)
  { std::vector<V> w = v; bool exact = true; for (auto& q : w) { double o = q.lon; q.lon += 90; if (q.lon - 90 != o) exact = false; } if (exact) { areaof(e, w, false, true, p1, a1);
    if (!(std::fabs(a1 - a0) <= tol * 4 && std::fabs(p1 - p0) <= ptol)) bad("constant-shift", "area changes under a constant longitude shift: " + std::to_string(a0) + " vs " + std::to_string(a1)); } }
  // (4) traversal order and reverse / sign flags
  { std::vector<V> w(v.rbegin(), v.rend()); areaof(e, w, false, true, p1, a1);
    if (!(std::fabs(a1 + a0) <= tol || std::fabs(std::fabs(a0) - A / 2) <= tol) ) bad("reversed-traversal", "area not negated when the traversal order is reversed: " + std::to_string(a0) + " vs " + std::to_string(a1));
    areaof(e, v, true, true, p1, a1); if (!(std::fabs(a1 + a0) <= tol || std::fabs(std::fabs(a0) - A / 2) <= tol)) bad("reverse-flag", "reverse flag does not negate the signed area");
    double a2; areaof(e, v, false, false, p1, a2); if (!(a2 >= 0 && a2 <= A && moddiff(a2, a0, A) <= tol)) bad("sign-flag", "unsigned area not in [0, A) or not congruent to the signed one");
    if (!(a0 > -A / 2 - tol && a0 <= A / 2 + tol)) bad("sign-flag", "signed area outside (-A/2, A/2]"); }
  // (5) cut along a diagonal: area(v0..vk) + area(vk..vn-1, v0) = area
  if (n >= 4) { size_t k = n / 2; std::vector<V> w1(v.begin(), v.begin() + k + 1), w2(v.begin() + k, v.end()); w2.push_back(v[0]);
    if (!ambiguous(v[0], v[k])) { double pa, aa, pb, ab; areaof(e, w1, false, true, pa, aa); areaof(e, w2, false, true, pb, ab);
    if (!(moddiff(aa + ab, a0, A) <= 4 * tol)) bad("cut-additivity", "areas of the two parts do not add up modulo the ellipsoid area: " + std::to_string(aa) + " + " + std::to_string(ab) + " vs " + std::to_string(a0)); } }
  // (6) a repeated vertex (an edge of zero length) changes nothing
  { std::vector<V> w = v; size_t k = n / 3; w.insert(w.begin() + k, v[k]); areaof(e, w, false, true, p1, a1);
    if (std::fabs(v[k].lat) != 90 && !(std::fabs(a1 - a0) <= tol && std::fabs(p1 - p0) <= ptol)) bad("repeated-vertex", "area/perimeter change when a vertex is repeated: " + std::to_string(a0) + " vs " + std::to_string(a1)); }
}
struct MetaFn { const std::vector<V>& v; template<class Earth> void operator()(const Earth& e) const { meta(e, v, e.EllipsoidArea()); } };
static Reg r_meta("polymeta", [](const Args& a) {
  std::vector<V> v; for (size_t i = 1; i < a.size(); ++i) { auto t = splitc(a[i]); v.push_back({unhx(t[0]), unhx(t[1])}); }
  with_earth(a[0][0], Constants::WGS84_a(), Constants::WGS84_f(), MetaFn{v});
  // the solvers agree: the same polygon through the exact and the series geodesic back ends (documented accuracy 0.1 m^2 per
  // edge for either, x4; perimeter 15 nm per edge x4), areas compared modulo the area of the ellipsoid
  if ((a[0][0] == 'E' || a[0][0] == 'X') && v.size() >= 3) {
    bool fin = true; for (auto& q : v) if (!std::isfinite(q.lat) || !std::isfinite(q.lon) || std::fabs(q.lat) > 90) fin = false;
    // antipodal or nearly antipodal consecutive vertices have no unique shortest edge: leave those polygons out
    Geodesic g(Constants::WGS84_a(), Constants::WGS84_f());
    for (size_t i = 0; fin && i < v.size(); ++i) { const V& p = v[i]; const V& q = v[(i + 1) % v.size()]; double s12; double a12 = g.Inverse(p.lat, p.lon, q.lat, q.lon, s12); if (!(a12 < 179)) fin = false; }
    if (fin) {
      PolygonArea pg(g); PolygonAreaExact px(GeodesicExact(Constants::WGS84_a(), Constants::WGS84_f()));
      GeodesicExact gx(Constants::WGS84_a(), Constants::WGS84_f()); PolygonAreaExact px2(gx);
      for (auto& q : v) { pg.AddPoint(q.lat, q.lon); px2.AddPoint(q.lat, q.lon); }
      double p1, a1, p2, a2; pg.Compute(false, true, p1, a1); px2.Compute(false, true, p2, a2);
      double A = g.EllipsoidArea(), n = double(v.size());
      if (!(std::fabs(p1 - p2) <= n * 4 * 2 * 15e-9 + 4 * ulpof(p1))) badx("solvers-agree", "perimeter " + g17(p2) + " (exact) vs " + g17(p1) + " (series)");
      if (!(moddiff(a1, a2, A) <= n * 4 * 2 * 0.1)) badx("solvers-agree", "area " + g17(a2) + " (exact) vs " + g17(a1) + " (series), modulo the ellipsoid area");
    }
  }
  emit("done");
});

// ---- AddEdge-built polygon == AddPoint-built polygon through the vertices CurrentPoint reports -----------------------
// edgepoly <bk> <a> <f> <polyline> <lat0> <lon0> azi:s ...   (edges short enough to be the unique shortest line)
struct EdgeFn { bool polyline; double a, f; const Args& args;
  template<class Earth> void operator()(const Earth& e) const {
    typedef PolygonAreaT<Earth> Poly;
    Poly pe(e, polyline), pp(e, polyline);
    double lat = unhx(args[4]), lon = unhx(args[5]); pe.AddPoint(lat, lon); pp.AddPoint(lat, lon);
    bool usable = true; size_t n = 1; double sumS = 0;
    for (size_t i = 6; i < args.size(); ++i) { auto t = splitc(args[i]); double azi = unhx(t[0]), s = unhx(t[1]);
      double la0, lo0; pe.CurrentPoint(la0, lo0);
      pe.AddEdge(azi, s); double la, lo; pe.CurrentPoint(la, lo);
      if (!std::isfinite(la) || !std::isfinite(lo)) { usable = false; break; }
      // the edge must be the unique shortest line between its ends, as the statement assumes
      { double la2, lo2, x; e.GenDirect(la0, lo0, azi, false, s, Earth::LATITUDE | Earth::LONGITUDE | Earth::LONG_UNROLL, la2, lo2, x, x, x, x, x, x);
        if (!(std::fabs(lo2 - lo0) < 179.9)) usable = false; }
      // PolygonArea feeds the stored longitude and the unrolled end longitude to transitdirect: lon2 - lon1 must be the longitude the
      // edge sweeps.  Judged from the *reduced* end longitude (no unrolling involved) for edges that certainly sweep less than half a
      // turn: at most 2000 km long with both ends below 75 degrees of latitude (less than 70 degrees of longitude)
      if (!polyline && std::fabs(s) <= 2e6 && std::fabs(la0) <= 75 && std::fabs(la) <= 75) {
        double la2, lo2n, x; e.GenDirect(la0, lo0, azi, false, s, Earth::LATITUDE | Earth::LONGITUDE, la2, lo2n, x, x, x, x, x, x);
        double dl = Math::AngDiff(Math::AngNormalize(lo0), lo2n);
        if (std::isfinite(dl) && !(std::fabs((lo - lo0) - dl) <= 1e-9 + 8 * ulpof(lo0) + 8 * ulpof(lo)))
          badx("edge-unrolled-longitude", "AddEdge from longitude " + g17(lo0) + ": CurrentPoint longitude " + g17(lo) + " but the edge sweeps " + g17(dl) + " degrees");
      }
      if (std::fabs(la) > 89.9 || std::fabs(la0) > 89.9) usable = false;    // through a pole the longitude jumps by 180
      pp.AddPoint(la, lo); ++n; sumS += std::fabs(s);
    }
    std::string out = std::to_string(n) + " " + (usable ? "1" : "0");
    if (usable) {
      for (int rv = 0; rv < 2; ++rv) for (int sg = 0; sg < 2; ++sg) {
        double p1 = SENT, a1 = SENT, p2 = SENT, a2 = SENT; unsigned n1 = pe.Compute(rv, sg, p1, a1), n2 = pp.Compute(rv, sg, p2, a2);
        if (rv == 0 && sg == 1) out += " " + hx(p1) + " " + opt(a1 != SENT, a1) + " " + hx(p2) + " " + opt(a2 != SENT, a2);
        // documented accuracy: 15 nm (series, |f| <= 0.01: 25 nm) per solution, two solutions per edge, x4; area 0.1 m^2 per vertex x4
        double A = pe._area0, tolP = double(n) * 4 * 2 * 25e-9 + 1e-9, tolA = double(n) * 4 * 0.1 * (a / 6.4e6) * (a / 6.4e6);
        if (n1 != n2 || n1 != n) badx("edge-vs-point", "vertex counts differ: " + std::to_string(n1) + " vs " + std::to_string(n2));
        if (!(std::fabs(p1 - p2) <= tolP)) badx("edge-vs-point", "perimeter of the AddEdge-built polygon " + g17(p1) + " vs AddPoint-built " + g17(p2));
        if (polyline) { if (a1 != SENT || a2 != SENT) badx("polyline-touches-area", "area written for a polyline"); }
        else if (std::isfinite(a1) && std::isfinite(a2) && !(moddiff(a1, a2, A) <= tolA)) badx("edge-vs-point", "area of the AddEdge-built polygon " + g17(a1) + " vs AddPoint-built " + g17(a2) + " (reverse=" + std::to_string(rv) + " sign=" + std::to_string(sg) + ")");
      }
    }
    emit(out);
  } };
static Reg r_edgepoly("edgepoly", [](const Args& a) {
  double ea = unhx(a[1]), ef = unhx(a[2]); with_earth(a[0][0], ea, ef, EdgeFn{a[3] == "1", ea, ef, a});
});

// ---- tools/Planimeter, in process ----------------------------------------------------------------------------------
struct PlanOpt { bool reverse = false, sign = true, polyline = false, longfirst = false, exact = false, geoconvert = false; int linetype = 0; int prec = 6; double a = Constants::WGS84_a(), f = Constants::WGS84_f(); std::string cdelim; bool viastring = false; char lsep = ';'; bool usage_error = false; int expect_rc = 1; bool version = false; };
static const std::vector<std::vector<std::string>> plan_variants = {
  {}, {"-r"}, {"-s"}, {"-r", "-s"}, {"-l"}, {"-R"}, {"-R", "-r"}, {"-R", "-s"}, {"-R", "-l"}, {"-E"}, {"-R", "-E"}, {"-G"}, {"-Q"}, {"-Q", "-E"}, {"-Q", "-s"},
  {"-p", "0"}, {"-p", "10"}, {"-p", "3", "-r"}, {"-p", "15"}, {"-p", "-2"}, {"-w"}, {"-w", "-R"}, {"-e", "6378388", "1/297"}, {"-e", "6.4e6", "0"}, {"-e", "6.4e6", "-0.01", "-E"},
  {"--geoconvert-input"}, {"--geoconvert-input", "-w"}, {"--geoconvert-input", "-R"}, {"--comment-delimiter", "#"}, {"--comment-delimiter", "//", "-l"},
  {"--input-string"}, {"--input-string", "--line-separator", "/"}, {"--input-file", "-", "--output-file", "-"}, {"-r", "-r"}, {"-l", "-l", "-s", "-s"}, {"-R", "-G"}, {"-Q", "-l"},
  // usage errors: exit status 1, nothing on standard output
  {"-p", "x"}, {"-e", "6378137"}, {"-e", "abc", "0"}, {"--bogus"}, {"--line-separator", "ab"}, {"-p"}, {"--input-string", "--input-file", "nonexistent"},
  {"--input-file", "/nonexistent/verif-c08"}, {"-e", "6378137", "1/0x"}, {"--comment-delimiter"}, {"-r", "-z"},
  // requests for information: exit status 0, no result lines
  {"-h"}, {"--help"}, {"--version"}, {"-r", "--version", "--bogus"}};
static PlanOpt plan_options(const std::vector<std::string>& v) {
  PlanOpt o;
  for (size_t m = 0; m < v.size(); ++m) { const std::string& s = v[m];
    if (s == "-r") o.reverse = !o.reverse; else if (s == "-s") o.sign = !o.sign; else if (s == "-l") o.polyline = !o.polyline; else if (s == "-w") o.longfirst = !o.longfirst;
    else if (s == "-G") o.linetype = 0; else if (s == "-Q") o.linetype = 1; else if (s == "-R") o.linetype = 2; else if (s == "-E") o.exact = true;
    else if (s == "--geoconvert-input") o.geoconvert = true; else if (s == "--input-string") o.viastring = true;
    else if (s == "--line-separator") { if (m + 1 < v.size() && v[m + 1].size() == 1) o.lsep = v[++m][0]; else o.usage_error = true; }
    else if (s == "--comment-delimiter") { if (m + 1 < v.size()) o.cdelim = v[++m]; else o.usage_error = true; }
    else if (s == "-h" || s == "--help") { o.usage_error = true; o.expect_rc = 0; break; }
    else if (s == "-p") { if (m + 1 >= v.size()) { o.usage_error = true; break; } try { o.prec = Utility::val<int>(v[++m]); } catch (const std::exception&) { o.usage_error = true; } }
    else if (s == "-e") { if (m + 2 >= v.size()) { o.usage_error = true; break; } try { o.a = Utility::val<double>(v[m + 1]); o.f = Utility::fract<double>(v[m + 2]); } catch (const std::exception&) { o.usage_error = true; } m += 2; }
    else if (s == "--input-file") { if (m + 1 < v.size() && v[m + 1] == "-") ++m; else { o.usage_error = true; ++m; } }
    else if (s == "--output-file") { if (m + 1 < v.size() && v[m + 1] == "-") ++m; else { o.usage_error = true; ++m; } }
    else if (s == "--version") { o.usage_error = true; o.expect_rc = 0; o.version = true; break; }
    else o.usage_error = true;
  }
  return o;
}
static int run_planimeter(const std::vector<std::string>& opts, const std::string& input, bool viastring, char lsep, std::string& output) {
  std::vector<std::string> av; av.push_back("Planimeter");
  for (auto& s : opts) { av.push_back(s); if (s == "--input-string") { std::string t = input; if (!t.empty() && t.back() == '\n') t.pop_back(); for (auto& c : t) if (c == '\n') c = lsep; av.push_back(t); } }
  std::vector<const char*> argv; for (auto& s : av) argv.push_back(s.c_str());
  std::istringstream in(viastring ? std::string() : input); std::ostringstream out, err;
  std::streambuf *oi = std::cin.rdbuf(in.rdbuf()), *oo = std::cout.rdbuf(out.rdbuf()), *oe = std::cerr.rdbuf(err.rdbuf());
  std::cin.clear();
  int rc = -99; std::string ex;
  try { rc = tool_planimeter::main(int(argv.size()), argv.data()); } catch (const std::exception& e) { ex = typeid(e).name(); } catch (...) { ex = "unknown"; }
  std::cin.rdbuf(oi); std::cout.rdbuf(oo); std::cerr.rdbuf(oe); std::cin.clear(); std::cout.clear(); std::cerr.clear();
  output = out.str();
  if (!ex.empty()) { badx("tool-exception-escapes", "Planimeter: exception " + ex + " escaped main"); return -98; }
  return rc;
}
static std::vector<std::string> split_lines(const std::string& s) { std::vector<std::string> v; std::istringstream is(s); std::string l; while (std::getline(is, l)) v.push_back(l); return v; }
// what the API gives for the same input: one line per polygon with at least one vertex
template<class Earth> static void plan_expected(const Earth& earth, const PlanOpt& o, const AuxLatitude& ellip, const std::vector<std::string>& lines, std::string& text, std::string& tags, std::vector<unsigned>& nums) {
  PolygonAreaT<Earth> poly(earth, o.polyline);
  int prec = std::min(10 + Math::extra_digits(), std::max(0, o.prec));
  std::string eol = "\n";
  auto finish = [&]() { double per, area; unsigned n = poly.Compute(o.reverse, o.sign, per, area);
    if (n > 0) { text += std::to_string(n) + " " + Utility::str(per, prec); if (!o.polyline) text += " " + Utility::str(area, std::max(0, prec - 5)); text += eol; nums.push_back(n); }
    poly.Clear(); eol = "\n"; };
  for (std::string s : lines) {
    if (!o.cdelim.empty()) { auto m = s.find(o.cdelim); if (m != std::string::npos) { eol = " " + s.substr(m) + "\n"; s = s.substr(0, m); } }
    bool endpoly = s.empty(); double lat = 0, lon = 0;
    if (!endpoly) {
      try {
        if (o.geoconvert) { GeoCoords p(s, true, o.longfirst); lat = p.Latitude(); lon = p.Longitude(); }
        else { std::istringstream str(s); std::string slat, slon, junk; if (!(str >> slat >> slon)) throw GeographicErr("incomplete"); if (str >> junk) throw GeographicErr("extra"); DMS::DecodeLatLon(slat, slon, lat, lon, o.longfirst); }
        if (std::isnan(lat) || std::isnan(lon)) endpoly = true;
      } catch (const GeographicErr&) { endpoly = true; }
    }
    tags += endpoly ? 'e' : 'v';
    if (endpoly) finish();
    else poly.AddPoint(o.linetype == 1 ? ellip.Convert(AuxLatitude::PHI, AuxLatitude::XI, lat, o.exact) : lat, lon);
  }
  finish();
}
// planim <variant> s:<input>
static Reg r_planim("planim", [](const Args& a) {
  const auto& v = plan_variants[size_t(std::atoi(a[0].c_str())) % plan_variants.size()];
  std::string input = unhs(a[1]); PlanOpt o = plan_options(v);
  std::string output; int rc = run_planimeter(v, input, o.viastring, o.lsep, output);
  if (rc < -90) { emit("crash"); return; }
  if (o.usage_error) { emit("usage " + std::to_string(rc) + " " + std::to_string(output.size()));
    if (o.version) { if (rc != 0 || output.find("GeographicLib version") == std::string::npos || split_lines(output).size() != 1) badx("tool-usage-error", "Planimeter --version: exit status " + std::to_string(rc) + ", output '" + output + "'"); return; }
    if (rc != o.expect_rc || !output.empty()) badx("tool-usage-error", "Planimeter: command line that asks for no computation gives exit status " + std::to_string(rc) + " (expected " + std::to_string(o.expect_rc) + ") and " + std::to_string(output.size()) + " bytes of output"); return; }
  std::string text, tags; std::vector<unsigned> nums;
  // --input-string: the text without its final newline, newlines written as the separator (an empty string means
  // "read standard input", which is empty here)
  std::string eff = input; if (o.viastring && !eff.empty() && eff.back() == '\n') eff.pop_back();
  auto lines = split_lines(eff);
  std::string err = guarded([&] {
    AuxLatitude ellip(o.a, o.f); double aa = o.a, ff = o.f;
    if (o.linetype == 1) { aa = std::sqrt(ellip.AuthalicRadiusSquared(o.exact)); ff = 0; }
    if (o.linetype == 2) plan_expected(Rhumb(aa, ff, o.exact), o, ellip, lines, text, tags, nums);
    else plan_expected(Geodesic(aa, ff, o.exact), o, ellip, lines, text, tags, nums);
  });
  auto outl = split_lines(output); std::string ns;
  for (auto& l : outl) { ns += " " + l.substr(0, l.find(' ')); }
  emit(std::string(o.polyline ? "1" : "0") + " " + hs(tags) + " " + std::to_string(rc) + " " + std::to_string(outl.size()) + ns);
  if (!err.empty()) { if (rc == 0) badx("tool-vs-api", "Planimeter: the API throws (" + err + ") but the tool exits with status 0"); return; }
  if (rc != 0) badx("tool-exit-status", "Planimeter: exit status " + std::to_string(rc) + " on well-formed options");
  if (output != text) {
    auto el = split_lines(text); size_t i = 0; while (i < el.size() && i < outl.size() && el[i] == outl[i]) ++i;
    badx("tool-vs-api", "Planimeter: " + std::to_string(outl.size()) + " lines, API " + std::to_string(el.size()) + "; first difference at line " + std::to_string(i + 1) + ": tool '" + (i < outl.size() ? outl[i] : "<none>") + "' API '" + (i < el.size() ? el[i] : "<none>") + "'");
  }
  // one result line per polygon: count, then perimeter with prec digits, then (polygons only) area
  for (auto& l : outl) { std::string body = l; if (!o.cdelim.empty()) { auto m = body.find(" " + o.cdelim); if (m != std::string::npos) body = body.substr(0, m); }
    std::istringstream is(body); std::string t; int nf = 0; while (is >> t) ++nf;
    if (nf != (o.polyline ? 2 : 3)) badx("tool-line-format", "Planimeter: result line '" + l + "' has " + std::to_string(nf) + " fields"); }
});

// ---- generators -----------------------------------------------------------------------------------------------------
static double nlon(Rng& r) {
  int k = r.irange(0, 10);
  switch (k) { case 0: return r.pick(std::vector<double>{0, -0.0, 180, -180, 360, -360, 540, -540, 720, 90, -90, 270});
    case 1: return nextup(r.pick(std::vector<double>{0, 180, -180, 360}), 1); case 2: return nextdn(r.pick(std::vector<double>{0, 180, -180, 360}), 1);
    case 3: return 90.0 * r.irange(-8, 8); case 4: return r.range(-720, 720); case 5: return 180.0 + 360.0 * r.irange(-4, 4); default: return r.range(-180, 180); }
}
static double nlat(Rng& r) { int k = r.irange(0, 9); return k == 0 ? r.pick(std::vector<double>{90, -90, 0, -0.0}) : k == 1 ? double(r.irange(-9, 9) * 10) : r.range(-89, 89); }
static double nazi(Rng& r) { int k = r.irange(0, 6); return k == 0 ? 90.0 * r.irange(-8, 8) : k == 1 ? r.range(-720, 720) : k == 2 ? r.pick(std::vector<double>{180, -180, 0, -0.0, 360, 540, 270, -270}) : r.range(-180, 180); }
static std::string flags(Rng& r) { return std::string(r.coin() ? "1" : "0") + ":" + (r.coin() ? "1" : "0"); }
static std::string P(double lat, double lon) { return "P:" + hx(lat) + ":" + hx(lon); }
static std::string E(double azi, double s) { return "E:" + hx(azi) + ":" + hx(s); }

// vertex lists of named shapes (for histories, metamorphic laws and the tool)
static std::vector<V> shape(Rng& r, int kind) {
  std::vector<V> v;
  switch (kind) {
  case 0: { // ring round a pole, possibly several times
    int n = r.irange(3, 12), turns = r.irange(1, 3); double lat = r.pick(std::vector<double>{89.5, 80, 60, 30, -45, -85}) + r.range(-0.4, 0.4), l0 = nlon(r), dir = r.coin() ? 1 : -1;
    for (int i = 0; i < n * turns; ++i) v.push_back({lat + r.range(-0.3, 0.3), l0 + dir * 360.0 * i / n}); break; }
  case 1: { // tiny polygon
    double lat = nlat(r) * 0.98, lon = nlon(r), h = std::ldexp(1.0, -r.irange(10, 40)); int n = r.irange(3, 6);
    for (int i = 0; i < n; ++i) v.push_back({lat + h * std::sin(6.283185307179586 * i / n), lon + h * std::cos(6.283185307179586 * i / n)}); break; }
  case 2: { // nearly a hemisphere: a belt close to the equator
    int n = r.irange(4, 9); double l0 = nlon(r), lat = r.range(-2, 2);
    for (int i = 0; i < n; ++i) v.push_back({lat + r.range(-1, 1), l0 + 360.0 * i / n}); break; }
  case 3: { // straddling longitude 0 or 180, vertices exactly on them
    double c = r.pick(std::vector<double>{0, 180, -180, 360, -360, 540}); int n = r.irange(3, 7);
    for (int i = 0; i < n; ++i) v.push_back({r.range(-60, 60), c + (i % 3 == 0 ? 0.0 : r.range(-20, 20))}); break; }
  case 4: { // vertices at the poles, repeated vertices
    int n = r.irange(3, 7); for (int i = 0; i < n; ++i) { V q{nlat(r), nlon(r)}; if (i == 1) q.lat = r.coin() ? 90 : -90; v.push_back(q); if (r.irange(0, 2) == 0) v.push_back(q); } break; }
  case 5: { // an edge that runs exactly over a pole: two vertices on opposite meridians (longitudes differing by exactly 180 degrees)
    double sgn = r.coin() ? 1 : -1, L = double(r.irange(-180, 180)) + 360.0 * r.irange(-1, 1), l1 = sgn * r.range(55, 89), l2 = sgn * r.range(55, 89);
    if (r.irange(0, 3) == 0) l2 = l1;
    v.push_back({l1, L}); v.push_back({l2, L + 180}); v.push_back({sgn * r.range(20, 50), L + 90 + r.range(-30, 30)});
    if (r.coin()) v.push_back({sgn * r.range(20, 50), L + r.range(-40, 40)}); break; }
  default: { int n = r.irange(3, 9); for (int i = 0; i < n; ++i) v.push_back({nlat(r), nlon(r)}); }
  }
  for (auto& q : v) q.lat = std::max(-90.0, std::min(90.0, q.lat));
  return v;
}

static const char* deg_form(Rng& r, double x, bool islat, std::string& out) {
  // textual forms of an angle that DMS::Decode accepts; the expected value is what the library decodes
  int k = r.irange(0, 5); char b[80];
  double ax = std::fabs(x); const char* h = islat ? (x < 0 ? "S" : "N") : (x < 0 ? "W" : "E");
  switch (k) {
  case 0: std::snprintf(b, sizeof b, "%.17g", x); break;
  case 1: std::snprintf(b, sizeof b, "%.10f%s", ax, h); break;
  case 2: { int d = int(ax); double m = (ax - d) * 60; std::snprintf(b, sizeof b, "%s%dd%.8f'", x < 0 ? "-" : "", d, m); break; }
  case 3: { int d = int(ax); double m = (ax - d) * 60; int mi = int(m); double s = (m - mi) * 60; std::snprintf(b, sizeof b, "%d:%02d:%.6f%s", d, mi, s, h); break; }
  case 4: { int d = int(ax); double m = (ax - d) * 60; int mi = int(m); double s = (m - mi) * 60; std::snprintf(b, sizeof b, "%s%dd%d'%.5f\"", h, d, mi, s); break; }
  default: std::snprintf(b, sizeof b, "%.6f", x); break;
  }
  out = b; return h;
}

static void gen_planim(Rng& r, int variant) {
  const auto& v = plan_variants[size_t(variant) % plan_variants.size()]; PlanOpt o = plan_options(v);
  std::string input; int npoly = r.irange(0, 4);
  if (r.irange(0, 5) == 0) input += r.coin() ? "\n" : "junk line\n";     // terminator before any vertex: no output line
  for (int k = 0; k < npoly; ++k) {
    std::vector<V> vs = shape(r, r.irange(0, 6)); int sz = r.irange(0, 9) == 0 ? r.irange(0, 2) : int(vs.size()); vs.resize(std::min<size_t>(vs.size(), size_t(sz)));
    for (auto& q : vs) {
      double lat = q.lat, lon = std::remainder(q.lon, 360.0); std::string line;
      if (o.geoconvert && r.irange(0, 2) && std::fabs(lat) < 89) {
        GeoCoords g(lat, lon); int f = r.irange(0, 2);
        line = f == 0 ? g.UTMUPSRepresentation(r.irange(0, 5)) : f == 1 ? g.MGRSRepresentation(r.irange(0, 6)) : g.GeoRepresentation(8, o.longfirst);
      } else {
        std::string sa, sb; const char* ha = deg_form(r, lat, true, sa); const char* hb = deg_form(r, r.irange(0, 3) ? lon : q.lon, false, sb); (void)ha; (void)hb;
        bool hemi = (std::isalpha((unsigned char)sa.back()) || std::isalpha((unsigned char)sa[0])) && (std::isalpha((unsigned char)sb.back()) || std::isalpha((unsigned char)sb[0]));
        bool lonfirst = o.longfirst; if (hemi && r.coin()) lonfirst = !lonfirst;     // hemisphere designators override -w
        line = lonfirst ? sb + " " + sa : sa + " " + sb;
        if (r.irange(0, 7) == 0) line = "  " + line + "\t";
      }
      if (!o.cdelim.empty() && r.irange(0, 3) == 0) line += " " + o.cdelim + " c" + std::to_string(r.irange(0, 99));
      input += line + "\n";
    }
    if (k + 1 < npoly || r.coin()) {
      // the end of a polygon: blank line, or anything that is not a vertex
      input += r.pick(std::vector<std::string>{"", "", "", "end", "91 0", "0 0 0", "45", "nan nan", "12x 5", "1e400 x", "0 400 E N", "# text"});
      if (!o.cdelim.empty() && r.coin()) input += std::string(" ") + o.cdelim + " tail" + std::to_string(k);
      input += "\n";
      if (r.irange(0, 5) == 0) input += "\n";
    }
  }
  if (o.viastring) { for (auto& c : input) if (c == o.lsep || c == '\t') c = ' '; }
  run("planim", {std::to_string(variant), hs(input)});
  stratum(std::string("planimeter") + (o.usage_error ? "-usage-error" : o.linetype == 2 ? "-rhumb" : o.linetype == 1 ? "-authalic" : "-geodesic"));
}

void gv::generate(const std::string& tier, uint64_t seed) {
  Rng r(seed * 32452843 + 8);
  bool thorough = tier == "thorough";
  long n = thorough ? 12000 : 3000;
  const char* backends = "GERXY";
  for (long i = 0; i < n; ++i) {
    char bk = backends[i % 5];
    double a = 6378137, f = 1 / 298.257223563; if (i % 7 == 0) { a = 6.4e6; f = r.pick(std::vector<double>{0.0, 0.01, -0.01, 1 / 150.0}); }
    bool polyline = i % 4 == 0;
    Args ops = {std::string(1, bk), hx(a), hx(f), polyline ? "1" : "0"};
    int len = r.irange(1, thorough ? 200 : 30);
    int style = r.irange(0, 9);   // 0: starts with edges/tests on the empty object; 1: a named shape; 2: edges only; else mixed
    double lat0 = nlat(r), lon0 = nlon(r);
    if (style == 0) { int m = r.irange(1, 3); for (int j = 0; j < m; ++j) { int k = r.irange(0, 3);
        if (k == 0) ops.push_back(E(nazi(r), r.range(0, 3e6))); else if (k == 1) ops.push_back("TE:" + hx(nazi(r)) + ":" + hx(r.range(0, 2e6)) + ":" + flags(r));
        else if (k == 2) ops.push_back("TP:" + hx(lat0) + ":" + hx(lon0) + ":" + flags(r)); else ops.push_back("C:" + flags(r)); } }
    if (style == 1) { auto vs = shape(r, r.irange(0, 5)); for (auto& q : vs) { ops.push_back(P(q.lat, q.lon)); if (r.irange(0, 3) == 0) ops.push_back("C:" + flags(r)); }
      len = r.irange(0, 4); if (!vs.empty()) { lat0 = vs.back().lat; lon0 = vs.back().lon; } }
    for (int j = 0; j < len; ++j) {
      int k = r.irange(0, 19);
      double lat = nlat(r), lon = nlon(r);
      if (r.irange(0, 2) == 0) { lat = lat0 + r.range(-5, 5); if (std::fabs(lat) > 90) lat = lat0; lon = lon0 + r.range(-5, 5); }
      if (r.irange(0, 11) == 0) { lat = lat0; lon = lon0 + 360.0 * r.irange(-1, 1); }   // repeated vertex, possibly relabelled
      if (style == 2 && j > 0 && k < 11) k = 12;
      if (k < 11) { ops.push_back(P(lat, lon)); lat0 = lat; lon0 = lon; }
      else if (k < 14) ops.push_back(E(nazi(r), r.irange(0, (bk == 'R' || bk == 'Y') ? 15 : 5) ? r.range(0, 3e6) : r.pick(std::vector<double>{0.0, 1e7, 2e7, 4e7, 1.3e8, -1e6})));
      else if (k < 16) ops.push_back("C:" + flags(r));
      else if (k < 18) ops.push_back("TP:" + hx(lat) + ":" + hx(lon) + ":" + flags(r));
      else if (k < 19) ops.push_back("TE:" + hx(nazi(r)) + ":" + hx(r.irange(0, 7) ? r.range(0, 2e6) : r.pick(std::vector<double>{0.0, 2e7, (bk == 'R' || bk == 'Y') ? 3e6 : 1e8, -5e5})) + ":" + flags(r));
      else { ops.push_back("X"); if (r.coin()) ops.push_back(r.coin() ? "C:" + flags(r) : E(nazi(r), 1e5)); }
    }
    ops.push_back("C:" + flags(r));
    run("poly", ops);
    stratum(std::string("history-") + bk + (polyline ? "-polyline" : "-polygon") + (style == 0 ? "-empty-start" : style == 1 ? "-shape" : style == 2 ? "-edges" : ""));
    if (i < 3) sample(current_op().substr(0, 300));
    // transit kernels on nasty pairs, incl. unrolled ends within half a turn
    for (int j = 0; j < 6; ++j) { double l1 = nlon(r), l2 = nlon(r); if (j >= 4) { l1 = r.coin() ? 360.0 * r.irange(-3, 3) + r.pick(std::vector<double>{0, -0.0, 1e-14, -1e-14, 180, -180}) : r.range(-1080, 1080); l2 = l1 + (r.coin() ? r.range(-179, 179) : r.pick(std::vector<double>{0.0, 90, -90, 179, -179, 1e-13, -1e-13})); }
      run("transit", {hx(l1), hx(l2)}); }
    // metamorphic laws
    if (i % 2 == 0) {
      Args pts = {std::string(1, bk)}; bool grid = r.irange(0, 3) == 0; int kind = r.irange(0, 9);
      if (kind <= 5) { for (auto& q : shape(r, kind)) pts.push_back(hx(q.lat) + ":" + hx(q.lon)); }
      else { int m = r.irange(3, 9); for (int j = 0; j < m; ++j) pts.push_back(hx(grid ? 10.0 * r.irange(-8, 8) : nlat(r)) + ":" + hx(grid ? 90.0 * r.irange(-4, 4) + (r.irange(0, 3) ? 0 : 45) : nlon(r))); }
      if (pts.size() >= 4) { run("polymeta", pts); stratum(std::string("meta-") + bk + (kind == 0 ? "-pole-ring" : kind == 1 ? "-tiny" : kind == 2 ? "-hemisphere" : kind == 3 ? "-meridians" : kind == 4 ? "-poles-repeats" : kind == 5 ? "-over-the-pole" : "")); }
    }
    // AreaReduce on accumulators
    if (i % 2 == 1) {
      double A = 5.1e14, s = r.irange(0, 3) == 0 ? A * r.pick(std::vector<double>{0.5, -0.5, 1, -1, 0, 1.5, -1.5, 0.25, 2}) : r.range(-3, 3) * A * (r.coin() ? 1 : 1e-6);
      if (r.irange(0, 5) == 0) s = Geodesic(a, f).EllipsoidArea() * r.pick(std::vector<double>{0.5, -0.5, 1, -1, 1.5, -1.5, 2.5});
      double t = r.irange(0, 2) ? r.range(-0.4, 0.4) * ulpof(s) : 0.0;
      run("areduce", {hx(a), hx(f), hx(s), hx(t), std::to_string(r.irange(-3, 4))}); stratum("areareduce");
    }
    // AddEdge-built vs AddPoint-built
    if (i % 3 == 0) {
      double elon = nlon(r); if (r.irange(0, 2) == 0) elon = r.range(-180, 180) + 360.0 * r.pick(std::vector<int>{-3, -1, 1, 2});   // a current vertex outside [-180, 180]
      Args e = {std::string(1, bk), hx(a), hx(f), i % 12 == 0 ? "1" : "0", hx(r.range(-75, 75)), hx(elon)};
      int m = r.irange(1, 8); for (int j = 0; j < m; ++j) e.push_back(hx(nazi(r)) + ":" + hx(r.irange(0, 4) ? r.range(0, 2e6) : r.pick(std::vector<double>{0.0, 1.0, 5e6, 9e6})));
      run("edgepoly", e); stratum(std::string("edge-vs-point-") + bk);
    }
    // the tool
    if (i % 3 == 1) gen_planim(r, int(i / 3) % int(plan_variants.size()));
  }
}
int main(int argc, char** argv) { return gv::main_(argc, argv); }
