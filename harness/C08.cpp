// C08: PolygonAreaT bookkeeping for every edit history
#include "common.hpp"
#include <GeographicLib/PolygonArea.hpp>
#include <GeographicLib/Geodesic.hpp>
#include <GeographicLib/GeodesicExact.hpp>
#include <GeographicLib/Rhumb.hpp>
#include <GeographicLib/Math.hpp>
using namespace GeographicLib; using namespace gv;

static std::vector<std::string> splitc(const std::string& s, char c = ':') { std::vector<std::string> r; std::string t; std::istringstream is(s); while (std::getline(is, t, c)) r.push_back(t); return r; }
static std::string opt(bool written, double v) { return written ? hx(v) : std::string("-"); }
static const double SENT = 7.25e77;

template<class Earth> struct Hist {
  static void run(const Earth& earth, bool polyline, const Args& a, size_t first) {
    PolygonAreaT<Earth> p(earth, polyline);
    std::string out = "A0:" + hx(p._area0);
    for (size_t i = first; i < a.size(); ++i) {
      auto t = splitc(a[i]);
      double s12 = 0, S12 = 0, x;
      if (t[0] == "X") { p.Clear(); out += " x"; }
      else if (t[0] == "P") {
        double lat = unhx(t[1]), lon = unhx(t[2]);
        if (p._num) earth.GenInverse(p._lat1, p._lon1, lat, lon, p._mask, s12, x, x, x, x, x, S12);
        p.AddPoint(lat, lon); out += " k:" + hx(s12) + ":" + hx(S12);
      } else if (t[0] == "E") {
        double azi = unhx(t[1]), s = unhx(t[2]), lat2 = 0, lon2 = 0;
        if (p._num) earth.GenDirect(p._lat1, p._lon1, azi, false, s, p._mask, lat2, lon2, x, x, x, x, x, S12);
        p.AddEdge(azi, s); out += " k:" + hx(lat2) + ":" + hx(lon2) + ":" + hx(S12);
      } else if (t[0] == "C") {
        bool rev = t[1] == "1", sign = t[2] == "1";
        if (p._num >= 2) earth.GenInverse(p._lat1, p._lon1, p._lat0, p._lon0, p._mask, s12, x, x, x, x, x, S12);
        double per = SENT, area = SENT; unsigned n = p.Compute(rev, sign, per, area);
        out += " k:" + hx(s12) + ":" + hx(S12) + " r:" + std::to_string(n) + ":" + opt(per != SENT, per) + ":" + opt(area != SENT, area);
      } else if (t[0] == "TP") {
        double lat = unhx(t[1]), lon = unhx(t[2]); bool rev = t[3] == "1", sign = t[4] == "1";
        double s1 = 0, S1 = 0, s2 = 0, S2 = 0;
        if (p._num) { earth.GenInverse(p._lat1, p._lon1, lat, lon, p._mask, s1, x, x, x, x, x, S1); earth.GenInverse(lat, lon, p._lat0, p._lon0, p._mask, s2, x, x, x, x, x, S2); }
        PolygonAreaT<Earth> before(p);
        double per = SENT, area = SENT; unsigned n = p.TestPoint(lat, lon, rev, sign, per, area);
        out += " k:" + hx(s1) + ":" + hx(S1) + ":" + hx(s2) + ":" + hx(S2) + " r:" + std::to_string(n) + ":" + opt(per != SENT, per) + ":" + opt(area != SENT, area);
        unchanged(before, p, "TestPoint");
      } else if (t[0] == "TE") {
        double azi = unhx(t[1]), s = unhx(t[2]); bool rev = t[3] == "1", sign = t[4] == "1";
        double lat2 = 0, lon2 = 0, s2 = 0, S2 = 0;
        if (p._num) { earth.GenDirect(p._lat1, p._lon1, azi, false, s, p._mask, lat2, lon2, x, x, x, x, x, S12); earth.GenInverse(lat2, lon2, p._lat0, p._lon0, p._mask, s2, x, x, x, x, x, S2); }
        PolygonAreaT<Earth> before(p);
        double per = SENT, area = SENT; unsigned n = p.TestEdge(azi, s, rev, sign, per, area);
        out += " k:" + hx(lat2) + ":" + hx(lon2) + ":" + hx(S12) + ":" + hx(s2) + ":" + hx(S2) + " r:" + std::to_string(n) + ":" + opt(per != SENT, per) + ":" + opt(area != SENT, area);
        unchanged(before, p, "TestEdge");
      }
    }
    emit(out);
  }
  static void unchanged(const PolygonAreaT<Earth>& a, const PolygonAreaT<Earth>& b, const char* what) {
    if (a._num != b._num || a._crossings != b._crossings || bits(a._areasum._s) != bits(b._areasum._s) || bits(a._areasum._t) != bits(b._areasum._t) ||
        bits(a._perimetersum._s) != bits(b._perimetersum._s) || bits(a._lat1) != bits(b._lat1) || bits(a._lon1) != bits(b._lon1))
      bad("test-query-modifies-polygon", std::string(what) + " changed the polygon");
  }
};

static Reg r_poly("poly", [](const Args& a) {
  double ea = unhx(a[1]), ef = unhx(a[2]); bool polyline = a[3] == "1";
  if (a[0] == "G") Hist<Geodesic>::run(Geodesic(ea, ef), polyline, a, 4);
  else if (a[0] == "E") Hist<GeodesicExact>::run(GeodesicExact(ea, ef), polyline, a, 4);
  else Hist<Rhumb>::run(Rhumb(ea, ef), polyline, a, 4);
});
static Reg r_transit("transit", [](const Args& a) {
  double l1 = unhx(a[0]), l2 = unhx(a[1]);
  emit(std::to_string(PolygonArea::transit(l1, l2)) + " " + std::to_string(PolygonArea::transitdirect(l1, l2)));
});

// ---- metamorphic laws of the statement, on the implementation ----
struct V { double lat, lon; };
template<class Earth> static bool areaof(const Earth& e, const std::vector<V>& v, bool rev, bool sign, double& per, double& area) {
  PolygonAreaT<Earth> p(e, false); for (auto& q : v) p.AddPoint(q.lat, q.lon); p.Compute(rev, sign, per, area); return true;
}
static bool ambiguous(const V& a, const V& b) { double d = std::fabs(Math::AngDiff(a.lon, b.lon)); double sl = std::fabs(a.lat + b.lat); return d == 180 || (sl < 1e-9 && (d > 179 || std::fabs(a.lat) == 90)); }
static double moddiff(double a, double b, double A) { return std::fabs(std::remainder(a - b, A)); }
template<class Earth> static void meta(const Earth& e, const std::vector<V>& v, double A) {
  double p0, a0, p1, a1; areaof(e, v, false, true, p0, a0);
  double tol = 1e-15 * 64 * (A + std::fabs(a0)) , ptol = 1e-13 * (p0 + 1);
  // ambiguous edges (exactly 180 degrees apart / antipodal) are excluded by the statement ("taken to be unique")
  size_t n = v.size();
  for (size_t i = 0; i < n; ++i) if (ambiguous(v[i], v[(i + 1) % n])) return;
  if (std::isnan(a0)) return; // rhumb lines ending at a pole have no defined area
  // (1) start vertex
  { std::vector<V> w(v.begin() + 1, v.end()); w.push_back(v[0]); areaof(e, w, false, true, p1, a1);
    if (!(moddiff(a1, a0, A) <= tol && std::fabs(p1 - p0) <= ptol)) bad("start-vertex", "area/perimeter depend on which vertex comes first: " + std::to_string(a0) + " vs " + std::to_string(a1)); }
  // (2) one longitude +/- 360k
  { std::vector<V> w = v; size_t k = n / 2; w[k].lon += 360.0 * ((n % 3) - 1 == 0 ? 2 : (int(n % 3) - 1)); if (w[k].lon - v[k].lon != 0 && std::remainder(w[k].lon, 360.0) == std::remainder(v[k].lon, 360.0)) { areaof(e, w, false, true, p1, a1);
    if (!(std::fabs(a1 - a0) <= tol && std::fabs(p1 - p0) <= ptol)) bad("longitude-plus-360k", "area changes when a longitude is changed by a multiple of 360: " + std::to_string(a0) + " vs " + std::to_string(a1)); } }
  // (3) constant shift of all longitudes (exact shift)
  { std::vector<V> w = v; bool exact = true; for (auto& q : w) { double o = q.lon; q.lon += 90; if (q.lon - 90 != o) exact = false; } if (exact) { areaof(e, w, false, true, p1, a1);
    if (!(std::fabs(a1 - a0) <= tol * 4 && std::fabs(p1 - p0) <= ptol)) bad("constant-shift", "area changes under a constant longitude shift: " + std::to_string(a0) + " vs " + std::to_string(a1)); } }
  // (4) traversal order and reverse / sign flags
  { std::vector<V> w(v.rbegin(), v.rend()); areaof(e, w, false, true, p1, a1);
    if (!(std::fabs(a1 + a0) <= tol || std::fabs(std::fabs(a0) - A / 2) <= tol) ) bad("reversed-traversal", "area not negated when the traversal order is reversed: " + std::to_string(a0) + " vs " + std::to_string(a1));
    areaof(e, v, true, true, p1, a1); if (!(std::fabs(a1 + a0) <= tol || std::fabs(std::fabs(a0) - A / 2) <= tol)) bad("reverse-flag", "reverse flag does not negate the signed area");
    double a2; areaof(e, v, false, false, p1, a2); if (!(a2 >= 0 && a2 <= A && moddiff(a2, a0, A) <= tol)) bad("sign-flag", "unsigned area not in [0, A) or not congruent to the signed one");
    if (!(a0 > -A / 2 - tol && a0 <= A / 2 + tol)) bad("sign-flag", "signed area outside (-A/2, A/2]"); }
  // (5) cut along a diagonal: area(v0..vk) + area(vk..vn-1, v0) = area
  if (n >= 4) { size_t k = n / 2; std::vector<V> w1(v.begin(), v.begin() + k + 1), w2(v.begin() + k, v.end()); w2.push_back(v[0]);
    if (!ambiguous(v[0], v[k])) { double pa, aa, pb, ab; areaof(e, w1, false, true, pa, aa); areaof(e, w2, false, true, pb, ab);
    if (!(moddiff(aa + ab, a0, A) <= 4 * tol)) bad("cut-additivity", "areas of the two parts do not add up modulo the ellipsoid area: " + std::to_string(aa) + " + " + std::to_string(ab) + " vs " + std::to_string(a0)); } }
  // (6) AddEdge polygon == AddPoint polygon (edges taken from the inverse solution)
}
static Reg r_meta("polymeta", [](const Args& a) {
  std::vector<V> v; for (size_t i = 1; i < a.size(); ++i) { auto t = splitc(a[i]); v.push_back({unhx(t[0]), unhx(t[1])}); }
  if (a[0] == "G") { Geodesic e = Geodesic::WGS84(); meta(e, v, e.EllipsoidArea()); }
  else if (a[0] == "E") { GeodesicExact e = GeodesicExact::WGS84(); meta(e, v, e.EllipsoidArea()); }
  else { Rhumb e = Rhumb::WGS84(); meta(e, v, e.EllipsoidArea()); }
  emit("done");
});

static double nlon(Rng& r) {
  int k = r.irange(0, 9);
  switch (k) { case 0: return r.pick(std::vector<double>{0, -0.0, 180, -180, 360, -360, 540, -540, 720, 90, -90, 270});
    case 1: return nextup(r.pick(std::vector<double>{0, 180, -180, 360}), 1); case 2: return nextdn(r.pick(std::vector<double>{0, 180, -180, 360}), 1);
    case 3: return 90.0 * r.irange(-8, 8); case 4: return r.range(-720, 720); default: return r.range(-180, 180); }
}
static double nlat(Rng& r) { int k = r.irange(0, 9); return k == 0 ? r.pick(std::vector<double>{90, -90, 0, -0.0}) : k == 1 ? double(r.irange(-9, 9) * 10) : r.range(-89, 89); }

void gv::generate(const std::string& tier, uint64_t seed) {
  Rng r(seed * 32452843 + 8);
  long n = tier == "thorough" ? 20000 : 1500;
  const char* backends = "GER";
  for (long i = 0; i < n; ++i) {
    char bk = backends[i % 3];
    double a = 6378137, f = 1 / 298.257223563; if (i % 7 == 0) { a = 6.4e6; f = r.pick(std::vector<double>{0.0, 0.01, -0.01, 1 / 150.0}); }
    bool polyline = i % 5 == 0;
    Args ops = {std::string(1, bk), hx(a), hx(f), polyline ? "1" : "0"};
    int len = r.irange(1, tier == "thorough" ? 200 : 30);
    double lat0 = nlat(r), lon0 = nlon(r);
    for (int j = 0; j < len; ++j) {
      int k = r.irange(0, 19);
      double lat = nlat(r), lon = nlon(r);
      if (r.irange(0, 2) == 0) { lat = lat0 + r.range(-5, 5); if (std::fabs(lat) > 90) lat = lat0; lon = lon0 + r.range(-5, 5); }
      lat0 = lat; lon0 = lon;
      if (k < 11) ops.push_back("P:" + hx(lat) + ":" + hx(lon));
      else if (k < 14) ops.push_back("E:" + hx(r.irange(0, 4) ? r.range(-180, 180) : 90.0 * r.irange(-2, 2)) + ":" + hx(r.irange(0, 5) ? r.range(0, 3e6) : r.pick(std::vector<double>{0.0, 1e7, 2e7, 4e7, -1e6})));
      else if (k < 16) ops.push_back(std::string("C:") + (r.coin() ? "1" : "0") + ":" + (r.coin() ? "1" : "0"));
      else if (k < 18) ops.push_back("TP:" + hx(lat) + ":" + hx(lon) + ":" + (r.coin() ? "1" : "0") + ":" + (r.coin() ? "1" : "0"));
      else if (k < 19) ops.push_back("TE:" + hx(r.range(-180, 180)) + ":" + hx(r.range(0, 2e6)) + ":" + (r.coin() ? "1" : "0") + ":" + (r.coin() ? "1" : "0"));
      else ops.push_back("X");
    }
    ops.push_back(std::string("C:") + (r.coin() ? "1" : "0") + ":" + (r.coin() ? "1" : "0"));
    run("poly", ops);
    stratum(std::string("history-") + bk + (polyline ? "-polyline" : "-polygon"));
    if (i < 3) sample(current_op().substr(0, 300));
    // transit kernels on nasty pairs
    for (int j = 0; j < 6; ++j) run("transit", {hx(nlon(r)), hx(nlon(r))});
    // metamorphic laws
    if (i % 2 == 0) {
      int m = r.irange(3, 9); Args pts = {std::string(1, bk)}; bool grid = r.irange(0, 3) == 0;
      for (int j = 0; j < m; ++j) pts.push_back(hx(grid ? 10.0 * r.irange(-8, 8) : nlat(r)) + ":" + hx(grid ? 90.0 * r.irange(-4, 4) + (r.irange(0, 3) ? 0 : 45) : nlon(r)));
      run("polymeta", pts);
    }
  }
}
int main(int argc, char** argv) { return gv::main_(argc, argv); }
