// Specification oracle for the transverse Mercator (Gauss-Krueger) projection, 80-bit long double, independent of
// the library (no Krueger series, no elliptic functions).
//
// Definition used: with psi = isometric latitude, w = psi + i*lam, the projection is  y + i x = k0 * M(w)  where M is the
// analytic function that equals the meridian distance on lam = 0.  Since dM/dphi = a(1-e^2)/(1-e^2 sin^2 phi)^(3/2) and
// dpsi/dphi = (1-e^2)/((1-e^2 sin^2 phi) cos phi),   M'(w) = a cos(phi) / sqrt(1 - e^2 sin^2 phi),  phi = phi(w) the analytic
// continuation of the inverse of psi(phi) = 2 atanh(tan(phi/2)) - e atanh(e sin phi).  M(w) is obtained by Gauss-Legendre
// quadrature of M' along a path from the equator: real axis 0 -> phi* (meridian arc, integrated over phi), vertical segment
// psi* -> psi* + i lam, and (when the point is closer to the equator than phi* = 0.3 rad) back along lam = const to psi.  phi(w) is
// followed along the path by complex Newton iteration (continuation from the previous node).  The region psi > 0, 0 < lam < pi
// is free of singularities (the branch points lie on psi = 0), so the result does not depend on phi*.
// Convergence and scale: gamma = -arg M'(w), k = k0 |M'(w)| / (a cos(phi0)/sqrt(1-e^2 sin^2 phi0)).
#pragma once
#include <cmath>
#include <complex>
#include <vector>
namespace tmo {
typedef long double LD;
typedef std::complex<LD> CX;
static const LD PI = 3.14159265358979323846264338327950288L;
static const LD DEG = PI / 180;

struct GL { std::vector<LD> x, w; GL(int n = 16) { x.resize(n); w.resize(n);
  for (int i = 0; i < n; ++i) { LD z = cosl(PI * (i + 0.75L) / (n + 0.5L)), pp = 0;
    for (int it = 0; it < 100; ++it) { LD p1 = 1, p2 = 0; for (int j = 0; j < n; ++j) { LD p3 = p2; p2 = p1; p1 = ((2 * j + 1) * z * p2 - j * p3) / (j + 1); }
      pp = n * (z * p1 - p2) / (z * z - 1); LD z1 = z; z = z1 - p1 / pp; if (fabsl(z - z1) < 1e-21L) break; }
    x[n - 1 - i] = z; w[n - 1 - i] = 2 / ((1 - z * z) * pp * pp); } } };   // ascending nodes
inline const GL& gl() { static GL g; return g; }

struct Ell {
  LD a, f, e2, ep;   // ep = sqrt(|e2|)
  Ell(LD a_, LD f_) : a(a_), f(f_) { e2 = f * (2 - f); ep = sqrtl(fabsl(e2)); }
  // meridian distance from the equator (real quadrature over phi)
  LD merid(LD phi) const {
    int np = 8; LD s = 0, h = phi / np;
    for (int k = 0; k < np; ++k) { LD mid = (k + 0.5L) * h; for (size_t i = 0; i < gl().x.size(); ++i) { LD t = mid + gl().x[i] * h / 2, sn = sinl(t), d = 1 - e2 * sn * sn; s += gl().w[i] * h / 2 / (d * sqrtl(d)); } }
    return a * (1 - e2) * s;
  }
  LD psiR(LD phi) const { LD s = sinl(phi); return asinhl(tanl(phi)) - (e2 >= 0 ? ep * atanhl(ep * s) : -ep * atanl(ep * s)); }
  CX psi(CX phi) const { CX s = std::sin(phi); CX t = std::tan(phi / LD(2)); return LD(2) * std::atanh(t) - (e2 >= 0 ? ep * std::atanh(ep * s) : -ep * std::atan(ep * s)); }
  CX dpsi(CX phi) const { CX s = std::sin(phi); return (1 - e2) / ((LD(1) - e2 * s * s) * std::cos(phi)); }
  CX Mp(CX phi) const { CX s = std::sin(phi); return a * std::cos(phi) / std::sqrt(LD(1) - e2 * s * s); }
  // d ln M'/dw
  CX dlnMp(CX phi) const { CX s = std::sin(phi), c = std::cos(phi), d = LD(1) - e2 * s * s; return (-s / c + e2 * s * c / d) * (d * c / (1 - e2)); }
  LD radius(LD phi) const { LD s = sinl(phi); return a * cosl(phi) / sqrtl(1 - e2 * s * s); }
  LD rho(LD phi) const { LD s = sinl(phi), d = 1 - e2 * s * s; return a * (1 - e2) / (d * sqrtl(d)); }
};

struct Res { bool ok; LD x, y, gamma, k, sens; };   // sens = |d ln M'/dw| / |M'| (per metre of grid displacement, for k0 = 1)

struct Path {
  const Ell& E; CX phi; bool fail;
  Path(const Ell& e, CX phi0) : E(e), phi(phi0), fail(false) {}
  // move to w by Newton continuation
  void to(CX w) {
    for (int it = 0; it < 40; ++it) {
      CX d = (E.psi(phi) - w) / E.dpsi(phi);
      phi -= d;
      if (!(std::abs(d) == std::abs(d))) { fail = true; return; }
      if (std::abs(d) < 4e-19L * (1 + std::abs(phi))) return;
    }
    // not converged to the last bit: accept if the residual is tiny
    if (!(std::abs(E.psi(phi) - w) < 1e-16L)) fail = true;
  }
  // integral of M' along the straight segment w0 -> w1 with the given panel boundaries (fractions in [0,1], ascending)
  CX seg(CX w0, CX w1, const std::vector<LD>& cuts) {
    CX s = 0;
    for (size_t p = 0; p + 1 < cuts.size(); ++p) {
      LD lo = cuts[p], hi = cuts[p + 1], mid = (lo + hi) / 2, hw = (hi - lo) / 2; CX acc = 0;
      for (size_t i = 0; i < gl().x.size(); ++i) { LD t = mid + gl().x[i] * hw; to(w0 + (w1 - w0) * t); if (fail) return 0; acc += gl().w[i] * E.Mp(phi); }
      s += acc * hw * (w1 - w0);
    }
    to(w1);
    return s;
  }
};

inline std::vector<LD> uniform(int n) { std::vector<LD> c; for (int i = 0; i <= n; ++i) c.push_back(LD(i) / n); return c; }
// panels shrinking geometrically towards t = 1 (end point possibly a branch point)
inline std::vector<LD> graded(int n, int levels) { std::vector<LD> c; for (int i = 0; i < n; ++i) c.push_back(LD(i) / n * 0.5L);
  LD t = 0.5L; for (int l = 0; l < levels; ++l) { c.push_back(t); t = 1 - (1 - t) / 2; } c.push_back(1); return c; }

// first quadrant: phi0 in [0, pi/2), lam in [0, pi)
inline Res first(const Ell& E, LD phi0, LD lam, int refine) {
  Res r; r.ok = false;
  LD phis = phi0 > 0.3L ? phi0 : 0.3L;
  LD psis = E.psiR(phis), psi0 = E.psiR(phi0);
  CX Z(E.merid(phis), 0);
  Path P(E, CX(phis, 0));
  int nv = int(ceill(lam / 0.08L)) * refine; if (nv < refine) nv = refine;
  Z += P.seg(CX(psis, 0), CX(psis, lam), uniform(nv));
  if (P.fail) return r;
  if (phis != phi0) { Z += P.seg(CX(psis, lam), CX(psi0, lam), graded(4 * refine, 40)); if (P.fail) return r; }
  CX mp = E.Mp(P.phi);
  r.y = Z.real(); r.x = Z.imag();
  r.gamma = -std::arg(mp) / DEG;
  r.k = std::abs(mp) / E.radius(phi0);
  r.sens = std::abs(E.dlnMp(P.phi)) / std::abs(mp);
  r.ok = std::isfinite((double)r.x) && std::isfinite((double)r.y);
  return r;
}

// full evaluation with a convergence check (two resolutions); lat, dlon in degrees, |lat| < 90, |dlon| < 180
inline Res eval(const Ell& E, LD lat, LD dlon, LD postol) {
  LD phi0 = fabsl(lat) * DEG, lam = fabsl(dlon) * DEG;
  Res a = first(E, phi0, lam, 1); if (!a.ok) return a;
  Res b = first(E, phi0, lam, 2); if (!b.ok) return b;
  if (!(hypotl(a.x - b.x, a.y - b.y) <= postol && fabsl(a.gamma - b.gamma) <= 1e-13L + 1e-16L * b.sens * E.a && fabsl(a.k - b.k) <= 1e-15L * b.k)) { b.ok = false; return b; }
  if (lat < 0 || (lat == 0 && std::signbit((double)lat))) { b.y = -b.y; b.gamma = -b.gamma; }
  if (dlon < 0) { b.x = -b.x; b.gamma = -b.gamma; }
  return b;
}
}  // namespace tmo
