// C13: the vector-size domain of the SphericalEngine::coeff / SphericalHarmonic / SphericalHarmonic1 / SphericalHarmonic2
// constructors ("GeographicErr if C or S is not big enough to hold the coefficients", "N >= nmx >= mmx >= -1", "N >= N1" ...).
//   c13_shctor <form> <N nmx mmx csize ssize> [<N1 nmx1 mmx1 csize1 ssize1> [<N2 ...>]]      -> 1 (accepted) | 0 (GeographicErr) | !...
// form: coeff3 coeff5 sh3 sh5 sh1_3 sh1_5 sh2_3 sh2_5  (3 = the "full" constructor (C, S, N), 5 = the general one (C, S, N, nmx, mmx)).
// The vectors are allocated with exactly the stated sizes (heap blocks of their own), so that a constructor accepting a vector
// that is too short makes the first evaluation of the object read out of bounds -- which ASan reports.  An accepted object is always
// evaluated (value, gradient, circle); ops whose vectors are shorter than the documented layout needs run in a forked child, so
// that such a report becomes a failing input of this op and the run goes on.
#pragma once
#include "C13_entries.hpp"
#include "C13_iso.hpp"
#include <climits>
namespace c13 {
using namespace gv;

struct ShSet { int N, nmx, mmx; long cs, ss; };
inline long sh_index(long N, long n, long m) { return m * N - m * (m - 1) / 2 + n; }
// documented needs of one coefficient set (0 when the sum is empty)
inline long sh_need_c(const ShSet& s, bool full) { long n = full ? s.N : s.nmx, m = full ? s.N : s.mmx; return n < 0 ? 0 : sh_index(s.N, n, m) + 1; }
inline long sh_need_s(const ShSet& s, bool full) { long n = full ? s.N : s.nmx, m = full ? s.N : s.mmx; return n < 0 ? 0 : std::max(0L, sh_index(s.N, n, m) - s.N); }

static Reg r_shctor("c13_shctor", [](const Args& a) {
  const std::string& form = a[0];
  int nsets = form.compare(0, 4, "sh2_") == 0 ? 3 : form.compare(0, 4, "sh1_") == 0 ? 2 : 1;
  bool full = form.back() == '3';
  if (int(a.size()) != 1 + 5 * nsets) { emit("!args"); bad("harness", "c13_shctor: wrong number of arguments"); return; }
  ShSet s[3]; std::vector<double> C[3], S[3];
  for (int k = 0; k < nsets; ++k) {
    s[k] = ShSet{std::atoi(a[1 + 5 * k].c_str()), std::atoi(a[2 + 5 * k].c_str()), std::atoi(a[3 + 5 * k].c_str()), std::atol(a[4 + 5 * k].c_str()), std::atol(a[5 + 5 * k].c_str())};
    if (s[k].cs < 0 || s[k].ss < 0 || s[k].cs > 1000000 || s[k].ss > 1000000) { emit("!args"); bad("harness", "c13_shctor: vector size out of the harness range"); return; }
    C[k].resize(size_t(s[k].cs)); S[k].resize(size_t(s[k].ss));
    C[k].shrink_to_fit(); S[k].shrink_to_fit();
    for (size_t i = 0; i < C[k].size(); ++i) C[k][i] = 1.0 / (3 + i + 7 * k);
    for (size_t i = 0; i < S[k].size(); ++i) S[k][i] = 0.5 / (2 + i + 5 * k);
  }
  const double rad = 6371e3;
  std::string ev;
  bool accepted = false;
  arm(60);
  std::string e = guarded([&] {
    double v = 0, gx, gy, gz;
    if (form == "coeff3" || form == "coeff5") {
      SphericalEngine::coeff c[1] = {full ? SphericalEngine::coeff(C[0], S[0], s[0].N) : SphericalEngine::coeff(C[0], S[0], s[0].N, s[0].nmx, s[0].mmx)};
      accepted = true;
      ev = guarded([&] { double f[1] = {1}; v += SphericalEngine::Value<true, SphericalEngine::FULL, 1>(c, f, 4e6, 1e6, 4.5e6, rad, gx, gy, gz);
                         v += SphericalEngine::Value<false, SphericalEngine::SCHMIDT, 1>(c, f, 4e6, 1e6, 4.5e6, rad, gx, gy, gz);
                         CircularEngine ce = SphericalEngine::Circle<true, SphericalEngine::FULL, 1>(c, f, 4.2e6, 4.5e6, rad); v += ce(10.0, gx, gy, gz);
                         if (c[0].nmx() >= 0) { int k = c[0].index(c[0].nmx(), c[0].mmx()); v += c[0].Cv(k) + c[0].Cv(k, c[0].nmx(), c[0].mmx(), 2.0); if (c[0].mmx() > 0) v += c[0].Sv(k) + c[0].Sv(k, c[0].nmx(), c[0].mmx(), 2.0); } });
    } else if (form == "sh3" || form == "sh5") {
      SphericalHarmonic h = full ? SphericalHarmonic(C[0], S[0], s[0].N, rad) : SphericalHarmonic(C[0], S[0], s[0].N, s[0].nmx, s[0].mmx, rad);
      accepted = true;
      ev = guarded([&] { v += h(4e6, 1e6, 4.5e6) + h(4e6, 1e6, 4.5e6, gx, gy, gz); CircularEngine ce = h.Circle(4.2e6, 4.5e6, true); v += ce(10.0, gx, gy, gz) + ce(10.0); });
    } else if (form == "sh1_3" || form == "sh1_5") {
      SphericalHarmonic1 h = full ? SphericalHarmonic1(C[0], S[0], s[0].N, C[1], S[1], s[1].N, rad)
                                  : SphericalHarmonic1(C[0], S[0], s[0].N, s[0].nmx, s[0].mmx, C[1], S[1], s[1].N, s[1].nmx, s[1].mmx, rad);
      accepted = true;
      ev = guarded([&] { v += h(0.5, 4e6, 1e6, 4.5e6) + h(0.5, 4e6, 1e6, 4.5e6, gx, gy, gz); CircularEngine ce = h.Circle(0.5, 4.2e6, 4.5e6, true); v += ce(10.0, gx, gy, gz); });
    } else if (form == "sh2_3" || form == "sh2_5") {
      SphericalHarmonic2 h = full ? SphericalHarmonic2(C[0], S[0], s[0].N, C[1], S[1], s[1].N, C[2], S[2], s[2].N, rad)
                                  : SphericalHarmonic2(C[0], S[0], s[0].N, s[0].nmx, s[0].mmx, C[1], S[1], s[1].N, s[1].nmx, s[1].mmx, C[2], S[2], s[2].N, s[2].nmx, s[2].mmx, rad);
      accepted = true;
      ev = guarded([&] { v += h(0.5, 0.25, 4e6, 1e6, 4.5e6) + h(0.5, 0.25, 4e6, 1e6, 4.5e6, gx, gy, gz); CircularEngine ce = h.Circle(0.5, 0.25, 4.2e6, 4.5e6, true); v += ce(10.0, gx, gy, gz); });
    } else throw std::logic_error("form");
    if (accepted && ev.empty() && !std::isfinite(v)) ev = "!nonfinite";
  });
  arm(0);
  emit(accepted ? "1" : e.empty() ? "?" : e == "!E" ? "0" : e);
  if (!accepted && e != "!E" && e != "!A") bad("foreign-exception", form + " constructor threw " + e);
  if (accepted && !ev.empty())
    bad(ev == "!nonfinite" ? "accepted-object-not-finite" : ev == "!E" ? "first-use-throws" : "foreign-exception",
        form + ": evaluating an object accepted by the constructor " + (ev == "!nonfinite" ? "gave a non-finite sum (finite coefficients, generic position)" : "threw " + ev));
});

inline void sh_emit(const std::string& form, const std::vector<ShSet>& sets) {
  bool full = form.back() == '3';
  Args a{form}; bool shortv = false, huge = false;
  for (const ShSet& s : sets) {
    a.push_back(std::to_string(s.N)); a.push_back(std::to_string(full ? s.N : s.nmx)); a.push_back(std::to_string(full ? s.N : s.mmx)); a.push_back(std::to_string(s.cs)); a.push_back(std::to_string(s.ss));
    if (s.cs < sh_need_c(s, full) || s.ss < sh_need_s(s, full)) shortv = true;
    if (s.N > 46340 || s.N < -1) huge = true;
  }
  // too-short vectors (an accepting constructor would read out of bounds) and degrees beyond the bound 46339 (whose index arithmetic would
  // leave `int` if the constructor did not refuse them first, F79): in a child
  if (shortv || huge) run_isolated("c13_shctor", a, 60); else runx("c13_shctor", a);
}

inline void gen_sh(Rng& r, bool thorough) {
  int Nmax = thorough ? 7 : 4;
  auto exact = [](int N, int nmx, int mmx, bool full) { ShSet s{N, nmx, mmx, 0, 0}; s.cs = sh_need_c(s, full); s.ss = sh_need_s(s, full); return s; };
  // 1. every layout (N, nmx, mmx) up to Nmax x sizes {exact, one short in C, one short in S, one long, empty C, empty S, two short}
  for (int N = -1; N <= Nmax; ++N)
    for (int nmx = -1; nmx <= N; ++nmx)
      for (int mmx = -1; mmx <= nmx; ++mmx) {
        if ((mmx == -1) != (nmx == -1)) continue;      // handled in the limits block
        for (const char* form : {"coeff5", "sh5", "coeff3", "sh3"}) {
          bool full = std::string(form).back() == '3';
          if (full && !(nmx == N && mmx == N)) continue;
          ShSet e = exact(N, nmx, mmx, full);
          struct D { const char* st; long dc, ds; };
          for (const D& d : {D{"sh-size-exact", 0, 0}, D{"sh-size-C-one-short", -1, 0}, D{"sh-size-S-one-short", 0, -1}, D{"sh-size-one-long", 1, 1}, D{"sh-size-C-empty", -e.cs, 0},
                             D{"sh-size-S-empty", 0, -e.ss}, D{"sh-size-two-short", -2, -2}, D{"sh-size-long-C-short-S", 40, -1}, D{"sh-size-short-C-long-S", -1, 40}}) {
            ShSet s = e; s.cs += d.dc; s.ss += d.ds;
            if (s.cs < 0 || s.ss < 0) continue;
            if ((d.dc < 0 && e.cs == 0) || (d.ds < 0 && e.ss == 0)) continue;
            stratum(d.st); sh_emit(form, {s});
          }
        }
      }
  // 2. N, nmx, mmx at and beyond their limits (vectors sized generously for the degree actually used, so only the index tests decide)
  struct T { int N, nmx, mmx; };
  for (const T& t : {T{3, 4, 2}, T{3, 3, 4}, T{3, 2, 3}, T{3, 2, -1}, T{3, -1, 0}, T{3, -1, -1}, T{-1, -1, -1}, T{-2, -1, -1}, T{-2, -2, -2}, T{0, 0, 0}, T{0, 1, 0}, T{3, 3, 3}, T{3, 0, 0}, T{3, 3, 0},
                     T{INT_MAX, 2, 2}, T{INT_MAX, INT_MAX, 0}, T{46340, 3, 3}, T{46341, 3, 3}, T{65536, 2, 2}, T{INT_MIN, -1, -1}, T{3, 3, -2}, T{3, -2, -2}})
    for (const char* form : {"coeff5", "sh5"}) { stratum("sh-index-limits"); sh_emit(form, {ShSet{t.N, t.nmx, t.mmx, 64, 64}}); }
  for (int N : {-3, -2, -1, 0, 1, 7, 8, 46340, 46341, 65536, INT_MAX, INT_MIN}) for (const char* form : {"coeff3", "sh3"}) { stratum("sh-index-limits"); sh_emit(form, {ShSet{N, N, N, 36, 28}}); }
  // 3. the two- and three-set classes: each set one short in turn; N1 > N, nmx1 > nmx, mmx1 > mmx
  for (int it = 0; it < (thorough ? 600 : 120); ++it) {
    int nsets = r.irange(2, 3); bool full = r.coin();
    std::string form = std::string(nsets == 2 ? "sh1_" : "sh2_") + (full ? "3" : "5");
    int N = r.irange(0, 4), nmx = full ? N : r.irange(0, N), mmx = full ? N : r.irange(0, nmx);
    std::vector<ShSet> sets{exact(N, nmx, mmx, full)};
    for (int k = 1; k < nsets; ++k) { int N1 = r.irange(-1, N), n1 = full ? N1 : r.irange(-1, std::min(N1, nmx)), m1 = full ? N1 : (n1 < 0 ? -1 : r.irange(0, std::min(n1, mmx))); sets.push_back(exact(N1, n1, m1, full)); }
    int what = r.irange(0, 6), k = r.irange(0, nsets - 1);
    const char* st = "sh-multi-exact";
    if (what == 1 && sets[k].cs > 0) { --sets[k].cs; st = "sh-multi-C-one-short"; }
    else if (what == 2 && sets[k].ss > 0) { --sets[k].ss; st = "sh-multi-S-one-short"; }
    else if (what == 3 && k > 0) { ShSet b = exact(N + 1, full ? N + 1 : sets[k].nmx, full ? N + 1 : sets[k].mmx, full); sets[k] = b; st = "sh-multi-N1-above-N"; }
    else if (what == 4 && k > 0 && !full) { ShSet b = exact(std::max(N, nmx + 1), nmx + 1, std::min(mmx, nmx + 1), false); b.N = std::min(b.N, N); if (b.N < b.nmx) { b.N = b.nmx; } sets[k] = exact(b.N, b.nmx, b.mmx, false); st = "sh-multi-nmx1-above-nmx"; }
    else if (what == 5 && k > 0 && !full && mmx < nmx) { sets[k] = exact(N, nmx, mmx + 1, false); st = "sh-multi-mmx1-above-mmx"; }
    else if (what == 6) { ++sets[k].cs; ++sets[k].ss; st = "sh-multi-one-long"; }
    stratum(st); sh_emit(form, sets);
  }
}
} // namespace c13
