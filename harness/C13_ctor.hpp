// C13: constructors / parameter validators -- accept or reject, compared in Lean with the validation predicates of
// Model/ErrContract.lean on the same binary64 parameters.  An accepted object is then used once (smoke call) so that
// an object built from extreme but legal parameters cannot crash or hang later.
#pragma once
#include "C13_entries.hpp"
#include "C13_iso.hpp"
namespace c13 {
using namespace gv;

struct Ctor { std::string name; int np; std::function<void(const double*)> make; };
inline bool& built() { static bool b = false; return b; }
inline std::vector<Ctor>& ctors() { static std::vector<Ctor> c; return c; }
inline void reg_ctors() {
  if (!ctors().empty()) return;
  auto C = [](const char* n, int np, std::function<void(const double*)> f) { ctors().push_back(Ctor{n, np, f}); };
  double t[12];
  (void)t;
  C("Geodesic", 2, [](const double* p) { Geodesic g(p[0], p[1]); built() = true; double a, b, c; g.Direct(40, 10, 30, 1e6 * p[0] / Wa, a, b, c); g.Inverse(40, 10, 20, 50, a, b, c); });
  C("GeodesicX", 2, [](const double* p) { Geodesic g(p[0], p[1], true); built() = true; double a, b, c; g.Direct(40, 10, 30, 1e6 * p[0] / Wa, a, b, c); });
  C("GeodesicExact", 2, [](const double* p) { GeodesicExact g(p[0], p[1]); built() = true; double a, b, c; g.Direct(40, 10, 30, 1e6 * p[0] / Wa, a, b, c); g.Inverse(40, 10, 20, 50, a, b, c); });
  C("Rhumb", 2, [](const double* p) { Rhumb g(p[0], p[1]); built() = true; double a, b, c; g.Direct(40, 10, 30, 1e6 * p[0] / Wa, a, b, c); g.Inverse(40, 10, 20, 50, a, b, c); });
  C("Ellipsoid", 2, [](const double* p) { Ellipsoid e(p[0], p[1]); built() = true; (void)e.MeridianDistance(40); (void)e.AuthalicLatitude(40); (void)e.Area(); });
  C("AuxLatitude", 2, [](const double* p) { AuxLatitude e(p[0], p[1]); built() = true; (void)e.Convert(AuxLatitude::PHI, AuxLatitude::XI, 40.0, false); (void)e.Convert(AuxLatitude::MU, AuxLatitude::CHI, 40.0, true); });
  C("AuxLatitudeAxes", 2, [](const double* p) { AuxLatitude e(AuxLatitude::axes(p[0], p[1])); built() = true; (void)e.Convert(AuxLatitude::PHI, AuxLatitude::XI, 40.0, false); });
  C("Geocentric", 2, [](const double* p) { Geocentric g(p[0], p[1]); built() = true; double a, b, c; g.Forward(40, 10, 100, a, b, c); g.Reverse(0.6 * p[0], 0.1 * p[0], 0.7 * p[0], a, b, c); });
  C("TransverseMercator", 3, [](const double* p) { TransverseMercator g(p[0], p[1], p[2]); built() = true; double a, b, c, d; g.Forward(3, 40, 5, a, b, c, d); g.Reverse(3, 0.01 * p[0], 0.3 * p[0], a, b, c, d); });
  C("TransverseMercatorX", 3, [](const double* p) { TransverseMercator g(p[0], p[1], p[2], true); built() = true; double a, b, c, d; g.Forward(3, 40, 5, a, b, c, d); g.Reverse(3, 0.01 * p[0], 0.3 * p[0], a, b, c, d); });
  C("TransverseMercatorExact", 3, [](const double* p) { TransverseMercatorExact g(p[0], p[1], p[2]); built() = true; double a, b, c, d; g.Forward(3, 40, 5, a, b, c, d); g.Reverse(3, 0.01 * p[0], 0.3 * p[0], a, b, c, d); });
  C("PolarStereographic", 3, [](const double* p) { PolarStereographic g(p[0], p[1], p[2]); built() = true; double a, b, c, d; g.Forward(true, 80, 5, a, b, c, d); g.Reverse(true, 0.01 * p[0], 0.02 * p[0], a, b, c, d); });
  C("PolarStereographic.SetScale", 2, [](const double* p) { PolarStereographic g(Wa, Wf, 1.0); g.SetScale(p[0], p[1]);  built() = true; });
  C("LambertConformalConic1", 4, [](const double* p) { LambertConformalConic g(p[0], p[1], p[2], p[3]); built() = true; double a, b, c, d; g.Forward(3, 40, 5, a, b, c, d); g.Reverse(3, 0.01 * p[0], 0.02 * p[0], a, b, c, d); });
  C("LambertConformalConic2", 5, [](const double* p) { LambertConformalConic g(p[0], p[1], p[2], p[3], p[4]); built() = true; double a, b, c, d; g.Forward(3, 40, 5, a, b, c, d); g.Reverse(3, 0.01 * p[0], 0.02 * p[0], a, b, c, d); });
  C("LambertConformalConic4", 7, [](const double* p) { LambertConformalConic g(p[0], p[1], p[2], p[3], p[4], p[5], p[6]); built() = true; double a, b, c, d; g.Forward(3, 40, 5, a, b, c, d); g.Reverse(3, 0.01 * p[0], 0.02 * p[0], a, b, c, d); });
  C("LambertConformalConic.SetScale", 2, [](const double* p) { LambertConformalConic g(Wa, Wf, 30.0, 50.0, 1.0); g.SetScale(p[0], p[1]);  built() = true; });
  C("AlbersEqualArea1", 4, [](const double* p) { AlbersEqualArea g(p[0], p[1], p[2], p[3]); built() = true; double a, b, c, d; g.Forward(3, 40, 5, a, b, c, d); g.Reverse(3, 0.01 * p[0], 0.02 * p[0], a, b, c, d); });
  C("AlbersEqualArea2", 5, [](const double* p) { AlbersEqualArea g(p[0], p[1], p[2], p[3], p[4]); built() = true; double a, b, c, d; g.Forward(3, 40, 5, a, b, c, d); g.Reverse(3, 0.01 * p[0], 0.02 * p[0], a, b, c, d); });
  C("AlbersEqualArea4", 7, [](const double* p) { AlbersEqualArea g(p[0], p[1], p[2], p[3], p[4], p[5], p[6]); built() = true; double a, b, c, d; g.Forward(3, 40, 5, a, b, c, d); g.Reverse(3, 0.01 * p[0], 0.02 * p[0], a, b, c, d); });
  C("AlbersEqualArea.SetScale", 2, [](const double* p) { AlbersEqualArea g(Wa, Wf, 30.0, 50.0, 1.0); g.SetScale(p[0], p[1]);  built() = true; });
  C("NormalGravity", 4, [](const double* p) { NormalGravity g(p[0], p[1], p[2], p[3], true); built() = true; double a, b; (void)g.Gravity(40, 100, a, b); (void)g.SurfaceGravity(40); });
  // ---- constructors added when the list was checked against the API inventory (obligation ctor_all_have_domain) ----
  C("RhumbX", 2, [](const double* p) { Rhumb g(p[0], p[1], true); built() = true; double a, b, c; g.Direct(40, 10, 30, 1e6 * p[0] / Wa, a, b, c); g.Inverse(40, 10, 20, 50, a, b, c); });
  C("DAuxLatitude", 2, [](const double* p) { DAuxLatitude e(p[0], p[1]); built() = true; (void)e.DRectifying(AuxAngle(0.5), AuxAngle(0.7)); (void)e.DConvert(AuxLatitude::PHI, AuxLatitude::CHI, AuxAngle(0.5), AuxAngle(0.7)); });
  C("NormalGravityJ2", 4, [](const double* p) { NormalGravity g(p[0], p[1], p[2], p[3], false); built() = true; double a, b; (void)g.Gravity(40, 100, a, b); (void)g.SurfaceGravity(40); });
  C("Intersect", 2, [](const double* p) { Geodesic g(p[0], p[1]); Intersect i(g); built() = true; (void)i.Closest(0, 0, 45, 1, 2, 135); });
  // Intersect::All validates maxdist (F78): reject = GeographicErr; accepted calls return the list
  C("Intersect.All", 1, [](const double* p) { auto v = IX().All(0, 0, 45, 1, 2, 135, p[0]); built() = true; std::vector<int> c; auto w = IX().All(GS().Line(0, 0, 45, Intersect::LineCaps), GS().Line(1, 2, 135, Intersect::LineCaps), p[0], c); if (v.size() != w.size()) throw std::logic_error("All overloads disagree"); });
  C("GeoCoordsLatLon", 2, [](const double* p) { GeoCoords c(p[0], p[1]); built() = true; (void)c.GeoRepresentation(); (void)c.UTMUPSRepresentation(); });
  C("GeoCoordsUTM32N", 2, [](const double* p) { GeoCoords c(32, true, p[0], p[1]); built() = true; (void)c.GeoRepresentation(); (void)c.UTMUPSRepresentation(); });
  C("GeoCoordsUTM32S", 2, [](const double* p) { GeoCoords c(32, false, p[0], p[1]); built() = true; (void)c.GeoRepresentation(); (void)c.UTMUPSRepresentation(); });
  C("GeoCoordsUPSN", 2, [](const double* p) { GeoCoords c(0, true, p[0], p[1]); built() = true; (void)c.GeoRepresentation(); (void)c.UTMUPSRepresentation(); });
  C("GeoCoordsUPSS", 2, [](const double* p) { GeoCoords c(0, false, p[0], p[1]); built() = true; (void)c.GeoRepresentation(); (void)c.UTMUPSRepresentation(); });
  // constructors that accept every argument (the geodesic line is the documented exception to "constructors reject"; origins of local
  // systems, angles and accumulators have no invalid values): the predicate is constantly true, the object must be usable
  C("GeodesicLine", 3, [](const double* p) { GeodesicLine l(GS(), p[0], p[1], p[2]); built() = true; double a, b, c; l.Position(1e6, a, b, c); l.ArcPosition(9, a, b); });
  C("GeodesicLineExact", 3, [](const double* p) { GeodesicLineExact l(GE(), p[0], p[1], p[2]); built() = true; double a, b, c; l.Position(1e6, a, b, c); l.ArcPosition(9, a, b); });
  C("LocalCartesian", 3, [](const double* p) { LocalCartesian l(p[0], p[1], p[2]); built() = true; double a, b, c; l.Forward(41, 11, 200, a, b, c); l.Reverse(1e4, 2e4, 300, a, b, c); });
  C("CassiniSoldner", 2, [](const double* p) { CassiniSoldner l(p[0], p[1], GS()); built() = true; double a, b; l.Forward(41, 11, a, b); l.Reverse(1e4, 2e4, a, b); });
  C("AuxAngle", 2, [](const double* p) { AuxAngle a(p[0], p[1]); built() = true; (void)a.degrees(); (void)a.normalized(); (void)a.lam(); });
  C("Accumulator", 1, [](const double* p) { Accumulator<> a(p[0]); built() = true; a += 1; (void)a(); });
  C("SphericalHarmonicRadius", 1, [](const double* p) { SphericalHarmonic h(HARM().C, HARM().S, 4, p[0]); built() = true; double a, b, c; (void)h(4e6, 1e6, 4.5e6, a, b, c); });
  C("EllipticFunction2", 2, [](const double* p) { EllipticFunction e(p[0], p[1]); built() = true; (void)e.F(0.7); (void)e.E(0.7); (void)e.Pi(0.7); });
  C("EllipticFunction4", 4, [](const double* p) { EllipticFunction e(p[0], p[1], p[2], p[3]); built() = true; (void)e.F(0.7); (void)e.E(0.7); });
}

static Reg r_ctorclass("c13_ctorclass", [](const Args&) { emit("-"); });
static Reg r_ctorcount("c13_ctorcount", [](const Args&) { emit("-"); });
inline std::map<std::string, int>& ctor_hangs() { static std::map<std::string, int> h; return h; }
static Reg r_ctor("c13_ctor", [](const Args& a) {
  reg_ctors();
  const Ctor* c = nullptr; for (auto& k : ctors()) if (k.name == a[0]) c = &k;
  if (!c || int(a.size()) != c->np + 1) { emit("!noctor"); bad("harness", "unknown constructor " + a[0]); return; }
  std::vector<double> p; for (int i = 0; i < c->np; ++i) p.push_back(unhx(a[1 + i]));
  arm(120);
  std::string e;
  built() = false;
  bool done = with_timeout(3.0, [&] { e = guarded([&] { c->make(p.data()); }); });
  arm(0);
  bool ext = false; for (double v : p) if (!std::isnan(v) && !(std::fabs(v) <= 1e100)) ext = true;
  bool far = false; for (double v : p) if (std::isfinite(v) && v != 0 && (std::fabs(v) > 1e12 || std::fabs(v) < 1e-12)) far = true;
  if (!done) {
    emit("!hang");
    std::string ps; for (double v : p) { char b[40]; std::snprintf(b, sizeof b, " %.17g", v); ps += b; }
    bad("hang", a[0] + " constructor (or the first use of the object) did not return within 3 s of CPU time; parameters" + ps + (ext ? " [extreme]" : ""));
    ++ctor_hangs()[a[0]];
    return;
  }
  // accept / reject is decided by the constructor (or validator) alone; an exception of the *first use* of an accepted object is
  // judged separately: the library's exception from an object with parameters of ordinary magnitude is a failing input, at
  // absurd magnitudes (|p| > 1e12 or < 1e-12, e.g. b/a = 1e16) it is only counted
  if (built() && !e.empty()) {
    emit("1");
    if (e != "!E" && e != "!A") bad("foreign-exception", a[0] + ": first use of an accepted object threw " + e);
    else if (e == "!E" && !far) bad("first-use-throws", a[0] + ": an object accepted by the constructor threw GeographicErr on its first ordinary call");
    else stat("first_use_throws_at_absurd_parameters");
    return;
  }
  emit(e.empty() ? "1" : e == "!E" ? "0" : e);
  if (!e.empty() && e != "!E" && e != "!A") bad("foreign-exception", a[0] + " constructor threw " + e);
});

inline double ctor_value(Rng& r, int kind) {
  // kind 0: radius-like, 1: flattening-like, 2: scale, 3: latitude (degrees), 4: sine/cosine, 5: generic
  static const std::vector<double> bad = {std::nan(""), INFINITY, -INFINITY, 0.0, -0.0, -1, 5e-324, -5e-324, 1e308, -1e308, 1.7976931348623157e308, 1e-300};
  int k = r.irange(0, 9);
  if (k == 0) return r.pick(bad);
  switch (kind) {
  case 0: { static const std::vector<double> v = {Wa, 1, 6.4e6, 1e-10, 1e10, 1e300, 2.2250738585072014e-308, 1e-320}; return k < 6 ? r.pick(v) : k < 8 ? std::ldexp(r.range(1, 2), r.irange(-1074, 1023)) : -r.pick(v); }
  case 1: { static const std::vector<double> v = {Wf, 0, -0.0, 0.1, -0.1, 0.5, 0.99, 1, gv::nextdn(1.0), gv::nextup(1.0), 2, -1, -10, 1e-300, -1e-300, 1 / 150.0, -1 / 150.0, 1e-10, 0.9999999}; return k < 7 ? r.pick(v) : k < 9 ? r.range(-1.5, 1.5) : std::ldexp(r.range(-2, 2), r.irange(-1074, 1023)); }
  case 2: { static const std::vector<double> v = {1, 0.9996, 0.994, 1e-10, 1e10, 2.2250738585072014e-308}; return k < 7 ? r.pick(v) : k < 9 ? r.range(-0.5, 2) : std::ldexp(r.range(1, 2), r.irange(-1074, 1023)); }
  case 3: { static const std::vector<double> v = {0, -0.0, 30, 50, -40, -20, 90, -90, gv::nextup(90.0), gv::nextdn(-90.0), gv::nextdn(90.0), gv::nextup(-90.0), 91, -91, 180, 45, -45, 1e-300, 89.99999}; return k < 7 ? r.pick(v) : r.range(-100, 100); }
  case 4: { static const std::vector<double> v = {0, -0.0, 1, -1, 0.5, -0.5, 0.6, 0.8, -0.8, gv::nextup(1.0), gv::nextdn(1.0), 2, 1e-300, -1e-300, 0.7071067811865476}; return k < 7 ? r.pick(v) : r.range(-1.2, 1.2); }
  case 7: { static const std::vector<double> v = {0, 1e4, 3e7, 1e8, 1e13, 1e15, -5, 2e7}; return r.pick(v); }
  case 6: { static const std::vector<double> v = {5e5, 4.4e6, 0, 1e5, 9e5, 1e6, 2e6, 2.1e6, 9.6e6, 1e7, -9.1e6, 8e5, 3.2e6, 1.3e6, 5.6e6}; return k < 7 ? r.pick(v) : r.range(-1e7, 1e7); }
  default: { static const std::vector<double> v = {0, 1, -1, 0.3, 0.2, 2, gv::nextup(1.0), gv::nextdn(1.0), 1e300, -1e300, 3.986004418e14, 7.292115e-5, 1e-160, 1e160}; return k < 7 ? r.pick(v) : std::ldexp(r.range(-2, 2), r.irange(-1074, 1023)); }
  }
}

// the degenerate / limit values of each kind of parameter: every one of them is tried at every parameter position of every constructor
inline const std::vector<double>& ctor_limits(int kind) {
  const double NaN = std::nan(""), Inf = INFINITY, dmin = 2.2250738585072014e-308, dmax = 1.7976931348623157e308, den = 5e-324;
  static const std::vector<double> k0 = {0.0, -0.0, den, -den, dmin, 1e-300, 1e300, 1e308, dmax, -1, -Wa, NaN, Inf, -Inf};
  static const std::vector<double> k1 = {0.0, -0.0, den, -den, 1e-300, 1, gv::nextdn(1.0), gv::nextup(1.0), 2, 1e308, -1e308, -1, -10, 0.99, NaN, Inf, -Inf};
  static const std::vector<double> k2 = {0.0, -0.0, den, -den, dmin, 1e308, dmax, -1, NaN, Inf, -Inf};
  static const std::vector<double> k3 = {0.0, -0.0, 90, -90, gv::nextup(90.0), gv::nextdn(-90.0), 91, -91, 180, den, 1e308, NaN, Inf, -Inf};
  static const std::vector<double> k4 = {0.0, -0.0, 1, -1, gv::nextup(1.0), 2, den, -den, 1e308, NaN, Inf, -Inf};
  static const std::vector<double> k5 = {0.0, -0.0, den, -den, 1, -1, 1e100, -1e100, 1e300, -1e300, 1e308, -1e308, dmax, NaN, Inf, -Inf};
  // 7: Intersect::All maxdist (metres): nothing between 2e8 and 1e13 (legal but quadratic cost / the exact limit depends on d3)
  static const std::vector<double> k7 = {0.0, -0.0, den, -den, -1, -1e308, 1, 1e4, 3e7, 1e8, 1e13, 1e17, 9007199254740992.0, 1e300, 1e308, dmax, NaN, Inf, -Inf};
  // 6: UTM / UPS coordinate (metres)
  static const std::vector<double> k6 = {0.0, -0.0, den, -den, 1e5, 9e5, 1e6, gv::nextup(1e6), 9.6e6, -9.1e6, 1e7, 4e6, -1, 1e308, NaN, Inf, -Inf};
  switch (kind) { case 0: return k0; case 1: return k1; case 2: return k2; case 3: return k3; case 4: return k4; case 6: return k6; case 7: return k7; default: return k5; }
}

inline void gen_ctor(Rng& r, bool thorough) {
  reg_ctors();
  struct K { const char* n; std::vector<int> kinds; std::vector<double> good; };
  static const std::vector<K> ks = {
    {"Geodesic", {0, 1}, {Wa, Wf}}, {"GeodesicX", {0, 1}, {Wa, Wf}}, {"GeodesicExact", {0, 1}, {Wa, Wf}}, {"Rhumb", {0, 1}, {Wa, Wf}}, {"Ellipsoid", {0, 1}, {Wa, Wf}},
    {"AuxLatitude", {0, 1}, {Wa, Wf}}, {"AuxLatitudeAxes", {0, 0}, {Wa, Wa * (1 - Wf)}}, {"Geocentric", {0, 1}, {Wa, Wf}},
    {"TransverseMercator", {0, 1, 2}, {Wa, Wf, 0.9996}}, {"TransverseMercatorX", {0, 1, 2}, {Wa, Wf, 0.9996}}, {"TransverseMercatorExact", {0, 1, 2}, {Wa, Wf, 0.9996}},
    {"PolarStereographic", {0, 1, 2}, {Wa, Wf, 0.994}}, {"PolarStereographic.SetScale", {3, 2}, {70, 0.99}},
    {"LambertConformalConic1", {0, 1, 3, 2}, {Wa, Wf, 40, 1}}, {"LambertConformalConic2", {0, 1, 3, 3, 2}, {Wa, Wf, 30, 50, 1}},
    {"LambertConformalConic4", {0, 1, 4, 4, 4, 4, 2}, {Wa, Wf, 0.5, 0.8660254037844386, 0.766, 0.6428, 1}}, {"LambertConformalConic.SetScale", {3, 2}, {40, 0.99}},
    {"AlbersEqualArea1", {0, 1, 3, 2}, {Wa, Wf, 40, 1}}, {"AlbersEqualArea2", {0, 1, 3, 3, 2}, {Wa, Wf, 30, 50, 1}},
    {"AlbersEqualArea4", {0, 1, 4, 4, 4, 4, 2}, {Wa, Wf, 0.5, 0.8660254037844386, 0.766, 0.6428, 1}}, {"AlbersEqualArea.SetScale", {3, 2}, {40, 0.99}},
    {"NormalGravity", {0, 5, 5, 1}, {Wa, 3.986004418e14, 7.292115e-5, Wf}}, {"EllipticFunction2", {5, 5}, {0.3, 0.2}}, {"EllipticFunction4", {5, 5, 5, 5}, {0.3, 0.2, 0.7, 0.8}},
    {"RhumbX", {0, 1}, {Wa, Wf}}, {"DAuxLatitude", {0, 1}, {Wa, Wf}}, {"NormalGravityJ2", {0, 5, 5, 5}, {Wa, 3.986004418e14, 7.292115e-5, 1.08263e-3}}, {"Intersect", {0, 1}, {Wa, Wf}}, {"Intersect.All", {7}, {3e7}},
    {"GeoCoordsLatLon", {3, 3}, {40, 10}}, {"GeoCoordsUTM32N", {6, 6}, {5e5, 4.4e6}}, {"GeoCoordsUTM32S", {6, 6}, {4e5, 5.6e6}}, {"GeoCoordsUPSN", {6, 6}, {2.1e6, 2.2e6}}, {"GeoCoordsUPSS", {6, 6}, {1.9e6, 2.2e6}},
    {"GeodesicLine", {3, 3, 3}, {40, 10, 30}}, {"GeodesicLineExact", {3, 3, 3}, {40, 10, 30}}, {"LocalCartesian", {3, 3, 5}, {40, 10, 100}}, {"CassiniSoldner", {3, 3}, {40, 10}},
    {"AuxAngle", {4, 4}, {0.6, 0.8}}, {"Accumulator", {5}, {1.5}}, {"SphericalHarmonicRadius", {0}, {6371e3}},
  };
  // every constructor class the harness drives must be a class of the Lean list `ErrContract.ctorTable` with the same number of
  // parameters, and there must be no further class there (verdicts in Corr/C13.lean)
  stratum("table-crosscheck");
  for (auto& k : ks) run("c13_ctorclass", {k.n, std::to_string(k.kinds.size())});
  run("c13_ctorcount", {std::to_string(ks.size())});
  int n = thorough ? 60 : 14;
  for (auto& k : ks) {
    auto emitc = [&](const std::vector<double>& p) {
      // each hang costs 3 s of CPU: after two hangs of one class skip its further extreme-but-finite parameter tuples
      bool extreme = false; for (double v : p) if (!std::isnan(v) && !(std::fabs(v) <= 1e100)) extreme = true;
      if (extreme && ctor_hangs()[k.n] >= 2) { stat("skipped_after_two_hangs"); return; }
      Args a{k.n}; for (double v : p) a.push_back(hx(v)); runx("c13_ctor", a); };
    stratum("ctor-valid"); emitc(k.good);
    // every degenerate / limit value at every parameter position (0, -0, denormals, huge, f = 1, f > 1, NaN, +-inf, poles ...)
    for (size_t i = 0; i < k.kinds.size(); ++i)
      for (double v : ctor_limits(k.kinds[i])) { stratum(std::isnan(v) ? "ctor-limit-nan" : std::isinf(v) ? "ctor-limit-inf" : "ctor-limit"); auto p = k.good; p[i] = v; emitc(p); }
    // one parameter replaced by each kind of bad value, the others valid (the documented domain is a product of ranges)
    for (size_t i = 0; i < k.kinds.size(); ++i)
      for (int j = 0; j < (thorough ? 16 : 6); ++j) { stratum("ctor-one-bad"); auto p = k.good; p[i] = ctor_value(r, k.kinds[i]); emitc(p); }
    for (int j = 0; j < n; ++j) { stratum("ctor-random"); std::vector<double> p; for (int kind : k.kinds) p.push_back(r.irange(0, 3) ? ctor_value(r, kind) : k.good[p.size()]); emitc(p); }
  }
  // poles and coincident / opposite standard parallels of the conics (F10), in all three constructor forms
  for (const char* cls : {"LambertConformalConic", "AlbersEqualArea"})
    for (double l1 : {90.0, -90.0, 30.0, 0.0, -0.0, gv::nextdn(90.0)}) for (double l2 : {90.0, -90.0, 30.0, -30.0, gv::nextup(-90.0)}) {
      stratum("ctor-conic-poles");
      runx("c13_ctor", {std::string(cls) + "2", hx(Wa), hx(Wf), hx(l1), hx(l2), hx(1)});
      double s1, c1, s2, c2; Math::sincosd(l1, s1, c1); Math::sincosd(l2, s2, c2);
      runx("c13_ctor", {std::string(cls) + "4", hx(Wa), hx(Wf), hx(s1), hx(c1), hx(s2), hx(c2), hx(1)});
      if (bits(l1) == bits(l2)) runx("c13_ctor", {std::string(cls) + "1", hx(Wa), hx(Wf), hx(l1), hx(1)});
    }
}
} // namespace c13
