// C15 oracles: defining integrals by Gauss–Legendre quadrature in 80-bit long double on graded panels, closed forms in
// __float128.  Independent of the library (no Carlson forms, no Newton on the library's functions).
#pragma once
#include <quadmath.h>
#include <cmath>
#include <vector>
#include <algorithm>
#include <functional>

namespace c15 {
typedef long double LD;
typedef __float128 Q;

static const Q PIq = strtoflt128("3.141592653589793238462643383279502884197169399375105820974944592", nullptr);
static const LD PIl = 3.141592653589793238462643383279502884L;

struct GLrule {
  std::vector<LD> x, w;
  explicit GLrule(int n) : x(n), w(n) {
    for (int i = 0; i < n; ++i) {
      LD z = cosl(PIl * (i + 0.75L) / (n + 0.5L)), pp = 1;
      for (int it = 0; it < 100; ++it) {
        LD p1 = 1, p2 = 0;
        for (int j = 1; j <= n; ++j) { LD p3 = p2; p2 = p1; p1 = ((2 * j - 1) * z * p2 - (j - 1) * p3) / j; }
        pp = n * (z * p1 - p2) / (z * z - 1);
        LD dz = p1 / pp; z -= dz;
        if (fabsl(dz) < 1e-20L) break;
      }
      // one more evaluation for the weight
      LD p1 = 1, p2 = 0;
      for (int j = 1; j <= n; ++j) { LD p3 = p2; p2 = p1; p1 = ((2 * j - 1) * z * p2 - (j - 1) * p3) / j; }
      pp = n * (z * p1 - p2) / (z * z - 1);
      x[i] = z; w[i] = 2 / ((1 - z * z) * pp * pp);
    }
  }
};
inline const GLrule& rule() { static GLrule r(32); return r; }

const int MAXD = 8;
typedef std::function<void(LD, LD*)> VFun;      // integrand: t -> dim values

// add the integral over [a, b] (split into `depth` equal parts) to acc
inline void panel(const VFun& f, int dim, LD a, LD b, int depth, LD* acc) {
  const GLrule& g = rule(); LD v[MAXD];
  for (int d = 0; d < depth; ++d) {
    LD lo = a + (b - a) * d / depth, hi = a + (b - a) * (d + 1) / depth, h = (hi - lo) / 2, m = (hi + lo) / 2;
    if (d == 0) lo = a; if (d == depth - 1) hi = b;
    for (size_t i = 0; i < g.x.size(); ++i) {
      // evaluate at lo + h (1 + x) so that points next to lo keep their relative accuracy when lo = 0
      LD t = g.x[i] < 0 ? lo + h * (1 + g.x[i]) : m + h * g.x[i];
      f(t, v);
      for (int k = 0; k < dim; ++k) acc[k] += h * g.w[i] * v[k];
    }
  }
}

// integral over [a, b], 0 <= a < b, with panel boundaries at w 2^j (features of width >= w located at 0)
inline void graded(const VFun& f, int dim, LD a, LD b, LD w, int depth, LD* acc) {
  if (!(b > a)) return;
  std::vector<LD> br; br.push_back(a);
  if (w > 0) for (LD t = w; t < b; t *= 2) if (t > a) br.push_back(t);
  br.push_back(b);
  for (size_t i = 0; i + 1 < br.size(); ++i) panel(f, dim, br[i], br[i + 1], depth, acc);
}

// ∫_0^r g(sin t, cos t) dt for 0 <= r <= pi/2, given also gr = pi/2 - r accurately.  Features of width >= w0 at t = 0 and of
// width >= w1 at t = pi/2.  The part beyond pi/4 is integrated in the complementary variable so that cos t keeps its relative accuracy.
typedef std::function<void(LD s, LD c, LD*)> SCFun;
inline void trigint(const SCFun& g, int dim, LD r, LD gr, LD w0, LD w1, int depth, LD* out) {
  for (int k = 0; k < dim; ++k) out[k] = 0;
  LD q4 = PIl / 4;
  VFun f0 = [&](LD t, LD* v) { g(sinl(t), cosl(t), v); };
  VFun f1 = [&](LD t, LD* v) { g(cosl(t), sinl(t), v); };
  if (r <= q4) graded(f0, dim, 0, r, w0, depth, out);
  else { graded(f0, dim, 0, q4, w0, depth, out); graded(f1, dim, gr, q4, w1, depth, out); }
}

// ---------------------------------------------------------------------------------------------------------
// auxiliary latitudes: tangent of each latitude as a function of the tangent T >= 0 of the geographic latitude
// ---------------------------------------------------------------------------------------------------------
struct Ell {
  Q f, fm1, e2, e2m1; LD e2l, e2m1l, w;
  explicit Ell(double f_) : f(f_) { fm1 = 1 - f; e2 = f * (2 - f); e2m1 = fm1 * fm1; e2l = (LD)e2; e2m1l = (LD)e2m1;
    LD r = (LD)fm1; w = (r < 1 ? r : 1 / r) / 4; }
  // arc element sqrt(1 - e2 cos^2 beta) as a function of (s, c) = (sin beta, cos beta), no cancellation
  LD arcel(LD s, LD c) const { return sqrtl(e2l > 0 ? e2m1l + e2l * s * s : 1 - e2l * c * c); }
  // 1 - e2 sin^2 phi
  LD vv(LD s, LD c) const { return e2l > 0 ? e2m1l + e2l * c * c : 1 - e2l * s * s; }
};

// meridian arcs from the equator (sa) and to the pole (sb) for parametric latitude with tangent tb (unit equatorial radius)
inline void arcs(const Ell& E, LD tb, int depth, LD& sa, LD& sb) {
  LD be = atanl(tb), ga = tb == 0 ? PIl / 2 : atanl(1 / tb);
  SCFun g = [&](LD s, LD c, LD* v) { v[0] = E.arcel(s, c); };
  SCFun gs = [&](LD s, LD c, LD* v) { v[0] = E.arcel(c, s); };
  trigint(g, 1, be, ga, E.w, E.w, depth, &sa);
  trigint(gs, 1, ga, be, E.w, E.w, depth, &sb);
}
// authalic: qa = ∫_0^phi 2(1-e2) cos/(1 - e2 sin^2)^2, qb = ∫_phi^{pi/2} (same)
inline void qints(const Ell& E, LD tp, int depth, LD& qa, LD& qb) {
  LD ph = atanl(tp), ga = tp == 0 ? PIl / 2 : atanl(1 / tp);
  SCFun g = [&](LD s, LD c, LD* v) { LD d = E.vv(s, c); v[0] = 2 * E.e2m1l * c / (d * d); };
  SCFun gs = [&](LD s, LD c, LD* v) { LD d = E.vv(c, s); v[0] = 2 * E.e2m1l * s / (d * d); };
  trigint(g, 1, ph, ga, E.w, E.w, depth, &qa);
  trigint(gs, 1, ga, ph, E.w, E.w, depth, &qb);
}

// tangent of latitude `k` (0 phi, 1 beta, 2 theta, 3 mu, 4 chi, 5 xi) for tan(phi) = T >= 0 (T may be inf)
inline Q auxtan(const Ell& E, int k, Q T, int depth = 2) {
  if (T == 0 || isinfq(T) || isnanq(T)) return T;
  switch (k) {
  case 0: return T;
  case 1: return E.fm1 * T;
  case 2: return E.e2m1 * T;
  case 3: {
    LD sa, sb; arcs(E, (LD)(E.fm1 * T), depth, sa, sb);
    LD tot = sa + sb;
    return sa <= sb ? (Q)tanl(PIl / 2 * (sa / tot)) : 1 / (Q)tanl(PIl / 2 * (sb / tot));
  }
  case 4: {
    Q s = T / sqrtq(1 + T * T), psi;
    if (T > (Q)1e30) s = 1 - 1 / (2 * T * T);
    if (E.e2 > 0) { Q e = sqrtq(E.e2); psi = asinhq(T) - e * atanhq(e * s); }
    else if (E.e2 < 0) { Q e = sqrtq(-E.e2); psi = asinhq(T) + e * atanq(e * s); }
    else psi = asinhq(T);
    return sinhq(psi);
  }
  default: {
    LD qa, qb; qints(E, (LD)T, depth, qa, qb);
    return (Q)(qa / sqrtl(qb * (2 * qa + qb)));
  }
  }
}
// d log auxtan / d log T by central difference
inline Q auxdlog(const Ell& E, int k, Q T) {
  if (k <= 2) return 1;
  Q h = k == 4 ? (Q)1e-12 : (Q)1e-6;
  Q a = auxtan(E, k, T * (1 + h), 1), b = auxtan(E, k, T * (1 - h), 1);
  return (logq(a) - logq(b)) / (log1pq(h) - log1pq(-h));
}
// solve auxtan(k, T) = target (> 0) starting from T0; returns false if it does not converge
inline bool auxinv(const Ell& E, int k, Q target, Q T0, Q& T) {
  T = T0;
  if (k == 0) { T = target; return true; }
  if (k == 1) { T = target / E.fm1; return true; }
  if (k == 2) { T = target / E.e2m1; return true; }
  for (int it = 0; it < 40; ++it) {
    Q v = auxtan(E, k, T), d = logq(v) - logq(target), s = auxdlog(E, k, T);
    if (!(s > 0) || isnanq(d)) return false;
    T = T * expq(-d / s);
    if (fabsq(d) < (k == 4 ? (Q)1e-28 : (Q)3e-19)) return true;
  }
  return false;
}

// ---------------------------------------------------------------------------------------------------------
// Legendre integrals: F, E, D, Pi, G, H of (phi | k2, alpha2) with complements given
// ---------------------------------------------------------------------------------------------------------
struct EllPar {
  LD k2, kp2, a2, ap2, w0, w1;
  EllPar(double k2_, double a2_, double kp2_, double ap2_) {
    if (k2_ > 0.5) { kp2 = kp2_; k2 = 1 - kp2; } else { k2 = k2_; kp2 = 1 - k2; }
    if (a2_ > 0.5) { ap2 = ap2_; a2 = 1 - ap2; } else { a2 = a2_; ap2 = 1 - a2; }
    w0 = 1; w1 = 1;
    if (k2 < 0) w0 = std::min(w0, 1 / sqrtl(1 - k2)); if (a2 < 0) w0 = std::min(w0, 1 / sqrtl(1 - a2));
    if (k2 > 0) w1 = std::min(w1, sqrtl(kp2)); if (a2 > 0) w1 = std::min(w1, sqrtl(ap2));
    w0 /= 4; w1 /= 4; if (!(w1 > 1e-30L)) w1 = 1e-30L;
  }
  LD delta2(LD s, LD c) const { return k2 > 0 ? kp2 + k2 * c * c : 1 - k2 * s * s; }
  LD den(LD s, LD c) const { return a2 > 0 ? ap2 + a2 * c * c : 1 - a2 * s * s; }
  void integrand(LD s, LD c, LD* v) const {
    LD d = sqrtl(delta2(s, c)), a = den(s, c);
    v[0] = 1 / d; v[1] = d; v[2] = s * s / d; v[3] = 1 / (a * d); v[4] = d / a; v[5] = c * c / (a * d);
  }
};
// the six integrals from 0 to r in [0, pi/2] (gr = pi/2 - r)
inline void legendre(const EllPar& P, LD r, LD gr, int depth, LD* out) {
  SCFun g = [&](LD s, LD c, LD* v) { P.integrand(s, c, v); };
  trigint(g, 6, r, gr, P.w0, P.w1, depth, out);
}
// reduce phi = m pi + sg r, r in [0, pi/2], gr = pi/2 - r
inline void reduce(double phi, long& m, int& sg, LD& r, LD& gr) {
  Q p = phi, mm = nearbyintq(p / PIq), rr = p - mm * PIq;
  m = (long)mm; sg = rr < 0 ? -1 : 1; rr = fabsq(rr);
  if (rr > PIq / 2) rr = PIq / 2;
  r = (LD)rr; gr = (LD)(PIq / 2 - rr);
}

// ---------------------------------------------------------------------------------------------------------
// Carlson's symmetric integrals by quadrature of their defining integrals (t = v^2, doubling panels, analytic tail)
// ---------------------------------------------------------------------------------------------------------
inline LD carlson_quad(const std::function<LD(LD)>& integrand_v, LD vmin, LD vmax, int depth) {
  // integrand_v(v) already includes dt = 2 v dv
  LD acc = 0; VFun f = [&](LD v, LD* o) { o[0] = integrand_v(v); };
  LD a = 0, b = vmin;
  while (a < vmax) { panel(f, 1, a, b, depth, &acc); a = b; b *= 2; }
  return acc;   // caller adds the tail beyond `a` (>= vmax): returned through lastV
}
struct Carl {
  static LD run(const std::function<LD(LD)>& g, LD smin, LD smax, int depth, LD& V) {
    LD acc = 0; VFun f = [&](LD v, LD* o) { o[0] = g(v); };
    LD a = 0, b = smin / 64;
    LD vmax = smax * 1e13L;
    while (a < vmax) { panel(f, 1, a, b, depth, &acc); a = b; b *= 2; }
    V = a; return acc;
  }
  static void scales(std::initializer_list<LD> args, LD& smin, LD& smax) {
    smin = 0; smax = 0;
    for (LD x : args) if (x > 0) { LD s = sqrtl(x); if (smin == 0 || s < smin) smin = s; if (s > smax) smax = s; }
  }
  static LD RF(LD x, LD y, LD z, int depth) {
    LD smin, smax, V; scales({x, y, z}, smin, smax);
    LD r = run([&](LD v) { LD t = v * v; return v / sqrtl((t + x) * (t + y) * (t + z)); }, smin, smax, depth, V);
    return r + 1 / V;
  }
  static LD RC(LD x, LD y, int depth) { return RF(x, y, y, depth); }
  static LD RD(LD x, LD y, LD z, int depth) {
    LD smin, smax, V; scales({x, y, z}, smin, smax);
    LD r = run([&](LD v) { LD t = v * v; return 3 * v / (sqrtl((t + x) * (t + y) * (t + z)) * (t + z)); }, smin, smax, depth, V);
    return r + 1 / (V * V * V);
  }
  static LD RJ(LD x, LD y, LD z, LD p, int depth) {
    LD smin, smax, V; scales({x, y, z, p}, smin, smax);
    LD r = run([&](LD v) { LD t = v * v; return 3 * v / (sqrtl((t + x) * (t + y) * (t + z)) * (t + p)); }, smin, smax, depth, V);
    return r + 1 / (V * V * V);
  }
  static LD RG(LD x, LD y, LD z, int depth) {
    LD smin, smax, V; scales({x, y, z}, smin, smax);
    LD r = run([&](LD v) { LD t = v * v; return v * t / (2 * sqrtl((t + x) * (t + y) * (t + z))) * (x / (t + x) + y / (t + y) + z / (t + z)); }, smin, smax, depth, V);
    return r + (x + y + z) / (2 * V);
  }
};

inline bool agree(LD a, LD b, LD rel = 1e-17L) { return fabsl(a - b) <= rel * fabsl(b) || (a == b); }

} // namespace c15
