// C17, part 4: the closed-form helpers of Intersect (private static members fixcoincident / fixsegment / segmentmode):
// executed by the Lean model (Model/IntersectFix.lean) and checked against their defining conditions
#pragma once
#include "common.hpp"
#include <GeographicLib/Intersect.hpp>
namespace c17ixm {
using namespace GeographicLib; using namespace gv;
typedef Intersect::XPoint XP;
static Reg r_fixc("ixm_fixc", [](const Args& a) {
  double p0x = unhx(a[0]), p0y = unhx(a[1]), px = unhx(a[2]), py = unhx(a[3]); int pc = std::stoi(a[4]), c = std::stoi(a[5]);
  XP r = Intersect::fixcoincident(XP(p0x, p0y), XP(px, py, pc), c);
  emit(hx(r.x) + " " + hx(r.y) + " " + std::to_string(r.c));
  double sc = std::fabs(p0x) + std::fabs(p0y) + std::fabs(px) + std::fabs(py), tol = 8 * ulp(sc) + 1e-300;
  if (c == 0) { if (!(r.x == px && r.y == py)) bad("fixcoincident-identity", "c = 0 must return p"); return; }
  // on the coincidence line through p with direction (1, c), centred with respect to p0 (|dx| = |dy|, opposite sense)
  if (!(std::fabs((r.x - px) - c * (r.y - py)) <= tol)) bad("fixcoincident-on-line", "result left the line of coincident intersections");
  if (!(std::fabs((r.x - p0x) + c * (r.y - p0y)) <= tol)) bad("fixcoincident-centred", "result is not centred with respect to p0");
  // L1 distance to p0 minimal along the line (scan)
  double d0 = std::fabs(r.x - p0x) + std::fabs(r.y - p0y);
  for (int i = -8; i <= 8; ++i) { double t = i * (sc / 4 + 1); double d = std::fabs(r.x + t - p0x) + std::fabs(r.y + c * t - p0y); if (!(d0 <= d + tol)) bad("fixcoincident-minimal", "a point of the line is closer (L1) to p0"); }
});
static Reg r_segmode("ixm_segmode", [](const Args& a) {
  double sx = unhx(a[0]), sy = unhx(a[1]), px = unhx(a[2]), py = unhx(a[3]);
  emit(std::to_string(Intersect::segmentmode(sx, sy, XP(px, py))));
});
static Reg r_fixseg("ixm_fixseg", [](const Args& a) {
  double sx = unhx(a[0]), sy = unhx(a[1]), px = unhx(a[2]), py = unhx(a[3]); int pc = std::stoi(a[4]);
  XP r = Intersect::fixsegment(sx, sy, XP(px, py, pc));
  emit(hx(r.x) + " " + hx(r.y) + " " + std::to_string(r.c));
  double sc = std::fabs(sx) + std::fabs(sy) + std::fabs(px) + std::fabs(py), tol = 8 * ulp(sc) + 1e-300;
  if (pc == 0) { if (!(r.x == px && r.y == py)) bad("fixsegment-identity", "c = 0 must return p"); return; }
  if (!(std::fabs((r.x - px) - pc * (r.y - py)) <= tol)) bad("fixsegment-on-line", "result left the line of coincident intersections");
  // if the line meets the rectangle [0,sx] x [0,sy] the result must lie in it (up to round-off)
  if (sx >= 0 && sy >= 0) {
    bool meets = false;
    for (int i = 0; i <= 400 && !meets; ++i) { double x = sx * i / 400, y = py + pc * (x - px); if (y >= 0 && y <= sy) meets = true; }
    if (meets && !(r.x >= -tol && r.x <= sx + tol && r.y >= -tol && r.y <= sy + tol)) bad("fixsegment-inside", "the coincidence line crosses the segment rectangle but the result is outside");
  }
});
inline void generate(Rng& r, bool thorough, int K = 1) {
  auto Q = [&](long v) { return std::max<long>(1, v / K); };   // K slices: the orchestrating generate() runs the parts round-robin

  auto val = [&]() { int k = r.irange(0, 5); return k == 0 ? double(r.irange(-5, 5)) : k == 1 ? 0.0 : k == 2 ? r.range(-2e7, 2e7) : k == 3 ? r.range(-1e3, 1e3) : k == 4 ? 1e6 * r.irange(-20, 20) : r.range(-4e7, 4e7); };
  int N = int(Q(thorough ? 20000 : 1500));
  for (int i = 0; i < N; ++i) {
    int c = r.irange(-1, 1), pc = r.irange(0, 3) ? c : r.irange(-1, 1);
    stratum("ixm:fixcoincident"); run("ixm_fixc", {hx(val()), hx(val()), hx(val()), hx(val()), std::to_string(pc), std::to_string(c)});
    double sx = std::fabs(val()), sy = std::fabs(val());
    double px = r.irange(0, 2) ? r.range(-0.5, 1.5) * sx : val(), py = r.irange(0, 2) ? r.range(-0.5, 1.5) * sy : val();
    if (r.irange(0, 5) == 0) px = r.coin() ? 0 : sx; if (r.irange(0, 5) == 0) py = r.coin() ? 0 : sy;
    stratum("ixm:segmentmode"); run("ixm_segmode", {hx(sx), hx(sy), hx(px), hx(py)});
    stratum("ixm:fixsegment"); run("ixm_fixseg", {hx(sx), hx(sy), hx(px), hx(py), std::to_string(r.irange(-1, 1))});
  }
}
} // namespace c17ixm
