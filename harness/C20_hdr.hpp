// C20: generators of PGM headers (byte strings) for the constructor of Geoid: structured mostly-valid headers and a
// malformed stream.  Every case carries what the *format* says about it: expect 1 = well-formed by construction (must be
// accepted), 0 = violates a documented rule by construction (must be rejected), 2 = undecided here (the byte-level Lean
// model of the parser says what the code does with it).
#pragma once
#include "common.hpp"
#include <string>
#include <vector>

namespace c20 {
using gv::Rng;

struct HB {
  std::string magic = "P5\n";
  std::vector<std::string> comments;   // each with its own line ending
  std::string size;                    // raster-size line with its line ending
  std::string gap;                     // white space between the size line and maxval
  std::string maxval = "65535";
  std::string sep = "\n";              // the single byte before the data
  std::string str() const { std::string s = magic; for (auto& c : comments) s += c; return s + size + gap + maxval + sep; }
};

struct Case {
  std::string header; uint64_t datalen = 0; int kind = 0; int expect = 2; bool cubic = false; std::string stratum;
};

inline std::string num17(double v) { char b[64]; std::snprintf(b, sizeof b, "%.17g", v); return b; }

// numerals that denote a positive finite scale / any finite offset other than DBL_MAX
inline std::string good_scale(Rng& r) {
  static const std::vector<std::string> v = {"0.003", "1", "+0.5", "1e-3", "1E0", ".25", "3.", "0.0030000000000000001", "00.003", "1e-320",
    "4.9406564584124654e-324", "1e300", "0.0625", "1e-5", "2.5E-1", "7.e-2", "3 m", "0.003\t# metres", "0.003\r"};
  return r.pick(v);
}
inline std::string good_offset(Rng& r) {
  static const std::vector<std::string> v = {"-108", "0", "-0", "+1000", "-50.5", "1e3", "-1.5e2", "-108.000", "-1e-400", "1.7976931348623155e308",
    "-1.7976931348623157e308", "-108 m", "-.5", "-5.", "-108\r", "12345678901234567890123", "0.1e+1"};
  return r.pick(v);
}
// texts that `>> double` cannot read (or that overflow)
inline std::string bad_numeral(Rng& r) {
  static const std::vector<std::string> v = {"", " ", "abc", "-", "+", ".", "e5", "1e", "1e+", "1E-", "nan", "inf", "-inf", "1e999", "-1e999", "--1", "+-1", ",5",
    "-.", "+.e1", "x1", "\r", "1e99999999999999999999", "1.8e308"};
  return r.pick(v);
}
inline std::string ws(Rng& r) { static const std::vector<std::string> v = {" ", "  ", "\t", " \t ", "\v", "\f"}; return r.pick(v); }
inline std::string eol(Rng& r) { return r.irange(0, 7) ? "\n" : "\r\n"; }

inline std::string harmless_comment(Rng& r) {
  static const std::vector<std::string> v = {"# Description WGS84 EGM96, 5-minute grid", "# URL https://earth-info.nga.mil", "# DateTime 2009-08-29 18:45:03", "# MaxBilinearError 0.140",
    "# RMSBilinearError 0.005", "# MaxCubicError 0.003", "# RMSCubicError 0.001", "# Origin 90N 0E", "# AREA_OR_POINT Point", "# Vertical_Datum WGS84", "#", "# ", "##", "#Offset 5",
    "#Scale -1", "# offset 5", "# Offset: 5", "# Scale= 0", "#\t", "# Description", "# DateTime ", "# Description \t  two  spaces ", "# MaxCubicError", "# MaxCubicError x",
    "# RMSCubicError  ", "# MaxBilinearError 1e999", "# RMSBilinearError -0", "# MaxCubicError .5e1junk", "# # Offset 7", "#  Description\tx", "# DateTime\r", "", "# Description \xc3\xa9t\xc3\xa9"};
  return r.pick(v);
}

inline HB valid_hb(Rng& r, long w, long h, bool plain) {
  HB b;
  int nc = plain ? 0 : r.irange(0, 4);
  for (int i = 0; i < nc; ++i) b.comments.push_back(harmless_comment(r) + "\n");
  std::string off = "# Offset " + (plain ? std::string("-108") : good_offset(r)), sc = "# Scale " + (plain ? std::string("0.003") : good_scale(r));
  if (!plain && r.irange(0, 5) == 0) { off = "#" + ws(r) + "Offset" + ws(r) + good_offset(r); sc = "#" + ws(r) + "Scale" + ws(r) + good_scale(r); }
  // duplicated keys: the last occurrence counts
  if (!plain && r.irange(0, 5) == 0) b.comments.push_back("# Scale " + (r.coin() ? std::string("-1") : std::string("0")) + "\n");
  if (!plain && r.irange(0, 5) == 0) b.comments.push_back("# Offset 77\n");
  if (r.coin()) { b.comments.push_back(off + "\n"); b.comments.push_back(sc + "\n"); } else { b.comments.push_back(sc + "\n"); b.comments.push_back(off + "\n"); }
  for (int i = 0, n = plain ? 0 : r.irange(0, 2); i < n; ++i) b.comments.insert(b.comments.begin() + r.irange(0, int(b.comments.size())), harmless_comment(r) + "\n");
  b.size = std::to_string(w) + " " + std::to_string(h) + "\n";
  if (!plain) switch (r.irange(0, 9)) {
    case 0: b.size = std::to_string(w) + "\t" + std::to_string(h) + "\n"; break;
    case 1: b.size = " " + std::to_string(w) + "  " + std::to_string(h) + " \n"; break;
    case 2: b.size = "+" + std::to_string(w) + " +" + std::to_string(h) + "\n"; break;
    case 3: b.size = "000" + std::to_string(w) + " 0" + std::to_string(h) + "\n"; break;
    default: break; }
  if (!plain && r.irange(0, 6) == 0) b.gap = r.pick(std::vector<std::string>{" ", "\n", "\n\n", "\t", " \n "});
  if (!plain) b.sep = r.pick(std::vector<std::string>{"\n", "\n", "\n", " ", "\t", "\r"});
  return b;
}

inline uint64_t need(long w, long h) { return 2ull * uint64_t(w) * uint64_t(h); }

// one header case; `tier` thorough allows more of the large ones
inline Case gen_case(Rng& r, bool thorough) {
  Case c; c.cubic = r.coin(); c.kind = r.irange(0, 9) < 6 ? 2 : r.irange(0, 4);
  long w = 2 * r.irange(1, 8), h = 2 * r.irange(1, 4) + 1;
  int s = r.irange(0, 99);
  if (s < 14) {                    // well-formed, harmless variations
    HB b = valid_hb(r, w, h, s < 3); c.header = b.str(); c.datalen = need(w, h); c.expect = 1; c.stratum = "hdr-valid";
  } else if (s < 22) {             // accepted by the code although not strictly PGM / documented: the model decides
    HB b = valid_hb(r, w, h, false); c.expect = 2; c.stratum = "hdr-lenient"; c.datalen = need(w, h);
    switch (r.irange(0, 9)) {
    case 0: b.maxval = "-4294901761"; break;                 // unsigned extraction negates modulo 2^32
    case 1: b.maxval = "+65535"; break;
    case 2: b.maxval = "00065535"; break;
    case 3: b.sep = r.pick(std::vector<std::string>{"X", "#", "5", ".", std::string(1, '\0'), "\xff"}); break;
    case 4: b.size = std::to_string(w) + " " + std::to_string(h) + " 65535\n"; break;
    case 5: b.size = std::to_string(w) + " " + std::to_string(h) + "\r\n"; break;
    case 6: b.sep = "\r\n"; c.datalen -= 1; break;           // CR LF: the data are taken to start at the LF
    case 7: b.maxval = "65535.0"; c.datalen -= 2; break;
    case 8: b.magic = "P5\n\n"; break;
    default: b.size = std::to_string(w) + " " + std::to_string(h) + "x\n"; break; }
    c.header = b.str();
  } else if (s < 40) {             // exactly one documented rule violated
    HB b = valid_hb(r, w, h, r.coin()); c.expect = 0; c.stratum = "hdr-rule1"; c.datalen = need(w, h);
    auto drop = [&](const std::string& key) { std::vector<std::string> k; for (auto& l : b.comments) { std::istringstream is(l); std::string a, bb; is >> a >> bb; if (!(a == "#" && bb == key)) k.push_back(l); } b.comments = k; };
    switch (r.irange(0, 13)) {
    case 0: b.magic = r.pick(std::vector<std::string>{"P6\n", "P2\n", "p5\n", "P5x\n", "P5 \n", " P5\n", "P5\r\n", "\n", "P5", "\xef\xbb\xbfP5\n", "P4\n", "P55\n"});
            if (b.magic == "P5") c.expect = 2;      // followed by an empty line this is a well-formed magic line again
            break;
    case 1: drop("Offset"); break;
    case 2: drop("Scale"); break;
    case 3: drop("Scale"); b.comments.push_back("# Scale " + r.pick(std::vector<std::string>{"0", "-0", "0.0", "0e5", "1e-400", "-0.003", "-1e-320", "0x5"}) + "\n"); break;
    case 4: { long w1 = r.pick(std::vector<long>{1, 3, 5, 7, 0, -2, -4}); b.size = std::to_string(w1) + " " + std::to_string(h) + "\n"; c.datalen = w1 > 0 ? need(w1, h) : 0; break; }
    case 5: { long h1 = r.pick(std::vector<long>{0, 1, 2, 4, 6, -3, 8}); b.size = std::to_string(w) + " " + std::to_string(h1) + "\n"; c.datalen = h1 > 0 ? need(w, h1) : 0; break; }
    case 6: b.maxval = r.pick(std::vector<std::string>{"255", "65536", "0", "65534", "1", "4294967295", "-1", "-65535", "4294967296", "99999999999", "abc", "", "0x10"}); break;
    case 7: { drop("Offset"); b.comments.push_back("# Offset " + bad_numeral(r) + "\n"); break; }
    case 8: { drop("Scale"); b.comments.push_back("# Scale " + bad_numeral(r) + "\n"); break; }
    case 9: b.size = r.pick(std::vector<std::string>{std::to_string(w) + "\n" + std::to_string(h) + "\n", std::to_string(w) + "\n", "x " + std::to_string(h) + "\n", std::to_string(w) + ".0 " + std::to_string(h) + "\n",
              std::to_string(w) + "," + std::to_string(h) + "\n", "\r\n" + std::to_string(w) + " " + std::to_string(h) + "\n", " \n" + std::to_string(w) + " " + std::to_string(h) + "\n"}); break;
    case 10: { long d = r.pick(std::vector<long>{-1, 1, -2, 2, long(2 * w), -long(2 * w), long(need(w, h)), -long(need(w, h)), -long(need(w, h) / 2), 4096}); c.datalen = uint64_t(long(c.datalen) + d); break; }
    case 11: b.comments.push_back(r.pick(std::vector<std::string>{" # Offset 3\n", "\t\n", " \n", "Offset 3\n", "// c\n"})); break;   // a line that is neither empty nor a comment is taken for the size line
    case 12: b.size = ""; b.gap = ""; b.maxval = ""; b.sep = ""; c.datalen = 0; break;                                             // no raster size at all
    default: { std::string hs = b.str(); size_t cut = size_t(r.irange(0, int(hs.size()) - 1)); c.header = hs.substr(0, cut); c.datalen = 0; c.stratum = "hdr-truncated"; return c; } }
    c.header = b.str();
  } else if (s < 47) {             // two rules violated
    HB b = valid_hb(r, w, h, true); c.expect = 0; c.stratum = "hdr-rule2"; c.datalen = need(w, h);
    for (int k = 0; k < 2; ++k) switch (r.irange(0, 5)) {
      case 0: b.magic = "P2\n"; break;
      case 1: b.size = std::to_string(w + 1) + " " + std::to_string(h) + "\n"; c.datalen = need(w + 1, h); break;
      case 2: b.size = std::to_string(w) + " " + std::to_string(h + 1) + "\n"; c.datalen = need(w, h + 1); break;
      case 3: b.maxval = "255"; break;
      case 4: c.datalen += uint64_t(r.pick(std::vector<long>{1, 2, 3})); break;
      default: b.comments[r.irange(0, 1)] = "# Scale -2\n"; break; }
    c.header = b.str();
  } else if (s < 60) {             // numerals / keys: the value read must be the one of the last occurrence
    HB b = valid_hb(r, w, h, true); c.expect = 1; c.stratum = "hdr-numerals"; c.datalen = need(w, h);
    b.comments.clear();
    int n = r.irange(1, 4);
    for (int i = 0; i < n; ++i) { bool g = r.irange(0, 9) != 0; b.comments.push_back("# Offset " + (g ? good_offset(r) : bad_numeral(r)) + eol(r)); if (!g) c.expect = 0; }   // an unreadable value is an error wherever it stands
    n = r.irange(1, 4);
    for (int i = 0; i < n; ++i) {
      int g = r.irange(0, 9); std::string t = g > 1 ? good_scale(r) : (g == 1 ? bad_numeral(r) : std::string("-0.003"));
      b.comments.insert(b.comments.begin() + r.irange(0, int(b.comments.size())), "# Scale " + t + eol(r));
      if (g == 1) c.expect = 0; else if (g == 0 && c.expect == 1) c.expect = 2; }                                 // a negative scale counts only if it is the last one
    c.header = b.str();
  } else if (s < 72) {             // random byte-level mutations of a well-formed header
    HB b = valid_hb(r, w, h, r.coin()); std::string hs = b.str(); c.expect = 2; c.stratum = "hdr-mutated"; c.datalen = need(w, h);
    static const std::string alphabet = std::string("0123456789 \t\n\r#P5+-.eEx") + std::string(1, '\0') + "\xff" "OffsetScale";
    int nm = r.irange(1, 3);
    for (int k = 0; k < nm && !hs.empty(); ++k) {
      size_t p = size_t(r.irange(0, int(hs.size()) - 1)); char ch = alphabet[size_t(r.irange(0, int(alphabet.size()) - 1))];
      switch (r.irange(0, 4)) { case 0: hs[p] = ch; break; case 1: hs.insert(p, 1, ch); break; case 2: hs.erase(p, 1); break; case 3: hs.insert(p, hs.substr(p, size_t(r.irange(1, 6)))); break; default: std::swap(hs[p], hs[size_t(r.irange(0, int(hs.size()) - 1))]); } }
    c.header = hs;
    if (r.irange(0, 3) == 0) c.datalen = uint64_t(long(c.datalen) + r.irange(-2, 2));
  } else if (s < 82) {             // dimensions at and beyond INT_MAX, overflowing numerals, values congruent to small ones modulo 2^32
    HB b = valid_hb(r, w, h, true); c.expect = 0; c.stratum = "hdr-bigdims";
    static const std::vector<std::string> bigs = {"2147483647", "2147483648", "2147483649", "4294967296", "4294967298", "4294967299", "-4294967294", "18446744073709551618", "99999999999999999999999", "2147483646", "-2147483648", "1e1", "0x2"};
    if (r.coin()) { b.size = r.pick(bigs) + " " + std::to_string(h) + "\n"; c.datalen = need(2, h); } else { b.size = std::to_string(w) + " " + r.pick(bigs) + "\n"; c.datalen = need(w, 3); }
    if (r.irange(0, 3) == 0) { b.size = std::to_string(w) + " " + std::to_string(h) + "\n"; b.maxval = r.pick(std::vector<std::string>{"4295032831", "-4294901761", "8589934591", "65535e0", "18446744073709617151"}); c.datalen = need(w, h); c.expect = 2; }
    c.header = b.str();
  } else {                         // headers announcing 2^31 .. 2^34 data bytes, file lengths congruent to the right one modulo powers of two
    HB b = valid_hb(r, w, h, true); c.stratum = "hdr-mod32"; c.kind = 0;
    static const std::vector<std::pair<long, long>> dims = {{4096, 524291}, {65536, 32769}, {32768, 65539}, {43200, 49711}, {21600, 99421}, {2, 1073741825}, {2, 1073741823}, {46342, 46341},
      {65536, 65537}, {65538, 65537}, {1073741824, 3}, {1073741826, 3}, {2147483646, 3}, {4, 536870913}, {32768, 32769}, {16384, 65537}, {131072, 32769}};
    auto d = r.pick(dims); if (r.irange(0, 4) == 0) { d.first = 2 * long(r.irange(16384, 70000)); d.second = 2 * long(r.irange(16384, 70000)) + 1; }
    b.size = std::to_string(d.first) + " " + std::to_string(d.second) + "\n"; c.header = b.str();
    uint64_t L = need(d.first, d.second);
    const bool toolarge = d.first > (1l << 30) || d.second > (1l << 30);   // refused whatever the length ("Raster size too large")
    int k = r.irange(0, 11);
    uint64_t cap = thorough ? (1ull << 36) : (1ull << 34);
    switch (k) {
    case 0: case 1: case 2: c.datalen = L & 0xffffffffull; c.expect = (c.datalen == L) ? 1 : 0; break;          // congruent modulo 2^32
    case 3: c.datalen = L & 0x7fffffffull; c.expect = (c.datalen == L) ? 1 : 0; break;
    case 4: c.datalen = L & 0x1ffffffffull; c.expect = (c.datalen == L) ? 1 : 0; break;
    case 5: c.datalen = (L & 0xffffull); c.expect = (c.datalen == L) ? 1 : 0; break;
    case 6: c.datalen = L + (1ull << 32); c.expect = 0; break;
    case 7: c.datalen = L > (1ull << 32) ? L - (1ull << 32) : L + 2; c.expect = 0; break;
    case 8: c.datalen = L + uint64_t(r.pick(std::vector<long>{1, 2, -1, -2, 4096, -4096})); c.expect = 0; break;
    case 9: c.datalen = L / 2; c.expect = 0; break;
    default: c.datalen = L; c.expect = 1; break; }                                                               // the full-size raster (sparse file)
    if (c.datalen > cap) { c.datalen = L & 0xffffffffull; c.expect = (c.datalen == L) ? 1 : 0; }
    if (toolarge) c.expect = 0;
  }
  return c;
}

} // namespace c20
