// C15, second part: ops whose results are compared with the Lean models (Model/Elliptic.lean, Model/AuxExact.lean) executed in
// running-error arithmetic, plus the property-level oracles for the entry points the first part did not reach
// (AuxAngle, AuxLatitude::axes / WGS84 / Clenshaw(cos) / ToAuxiliary's derivative, the two-argument Reset, getters).
// Included by C15.cpp after its own ops.
#pragma once

namespace c15m {
using namespace GeographicLib; using namespace gv; using namespace c15;
static const double EPSm = std::ldexp(1.0, -53);
static std::string sd(double x) { char b[64]; std::snprintf(b, sizeof b, "%.17g", x); return b; }
static std::string cat(std::initializer_list<double> l) { std::string o; for (double v : l) { if (!o.empty()) o += " "; o += hx(v); } return o; }

// m15_carl x y z p : every Carlson form on the arguments for which it is documented ("-" otherwise)
static Reg r_mcarl("m15_carl", [](const Args& a) {
  double x = unhx(a[0]), y = unhx(a[1]), z = unhx(a[2]), p = unhx(a[3]);
  int nz = (x == 0) + (y == 0) + (z == 0);
  std::string o;
  auto put = [&](bool ok, double v) { o += (ok ? hx(v) : std::string("-")) + " "; };
  put(nz <= 1, nz <= 1 ? EllipticFunction::RF(x, y, z) : 0);
  put(x > 0 && y > 0, x > 0 && y > 0 ? EllipticFunction::RF(x, y) : 0);
  put(y > 0, y > 0 ? EllipticFunction::RC(x, y) : 0);
  bool okd = z > 0 && !(x == 0 && y == 0);
  put(okd, okd ? EllipticFunction::RD(x, y, z) : 0);
  bool okj = p > 0 && nz <= 1;
  put(okj, okj ? EllipticFunction::RJ(x, y, z, p) : 0);
  put(nz <= 1, nz <= 1 ? EllipticFunction::RG(x, y, z) : 0);
  put(x > 0 && y > 0, x > 0 && y > 0 ? EllipticFunction::RG(x, y) : 0);
  emit(o);
  // symmetry of the symmetric forms on the implementation (to the accuracy of the forms themselves)
  if (nz <= 1) {
    double f0 = EllipticFunction::RF(x, y, z), f1 = EllipticFunction::RF(z, x, y), f2 = EllipticFunction::RF(y, x, z);
    if (!(std::fabs(f0 - f1) <= 16 * EPSm * f0 && std::fabs(f0 - f2) <= 16 * EPSm * f0)) bad("carlson-symmetry", "RF is not symmetric at (" + sd(x) + ", " + sd(y) + ", " + sd(z) + ")");
    double g0 = EllipticFunction::RG(x, y, z), g1 = EllipticFunction::RG(z, x, y), g2 = EllipticFunction::RG(y, x, z);
    if (!(std::fabs(g0 - g1) <= 64 * EPSm * g0 && std::fabs(g0 - g2) <= 64 * EPSm * g0)) bad("carlson-symmetry", "RG is not symmetric at (" + sd(x) + ", " + sd(y) + ", " + sd(z) + "): " + sd(g0) + " " + sd(g1) + " " + sd(g2));
  }
  if (okd) { double d0 = EllipticFunction::RD(x, y, z), d1 = EllipticFunction::RD(y, x, z); if (!(std::fabs(d0 - d1) <= 16 * EPSm * d0)) bad("carlson-symmetry", "RD is not symmetric in (x, y)"); }
  // RC(x, y) = RF(x, y, y)
  if (y > 0 && x >= 0 && !(x == 0 && false)) { double c0 = EllipticFunction::RC(x, y), c1 = EllipticFunction::RF(x, y, y);
    if (!(std::fabs(c0 - c1) <= 16 * EPSm * c0)) bad("carlson-degenerate", "RC(x, y) != RF(x, y, y) at (" + sd(x) + ", " + sd(y) + "): " + sd(c0) + " vs " + sd(c1)); }
});

static std::string members(const EllipticFunction& e) {
  return cat({e._eps, e.K(), e.E(), e.D(), e.Pi(), e.G(), e.H(), e.KE(), e.k2(), e.kp2(), e.alpha2(), e.alphap2()});
}
// m15_reset k2 alpha2 kp2 alphap2 : the state after Reset (through the four-argument constructor)
static Reg r_mreset("m15_reset", [](const Args& a) {
  double k2 = unhx(a[0]), a2 = unhx(a[1]), kp2 = unhx(a[2]), ap2 = unhx(a[3]);
  try {
    EllipticFunction e(k2, a2, kp2, ap2);
    emit(members(e));
    // Reset on an existing object gives the same state as the constructor
    EllipticFunction e2(0.5, 0.25); e2.Reset(k2, a2, kp2, ap2);
    if (members(e2) != members(e)) bad("elliptic-reset", "Reset(k2, alpha2, kp2, alphap2) on a used object differs from the constructor");
    // Legendre's relation E K' + E' K - K K' = pi/2 (alpha2 = 0 parameters, 0 < k2 < 1)
    if (k2 > 0 && k2 < 1 && kp2 > 0 && kp2 < 1) {
      EllipticFunction c(kp2, 0, k2, 1);
      double lhs = e.E() * c.K() + c.E() * e.K() - e.K() * c.K();
      double sc = std::fabs(e.E() * c.K()) + std::fabs(c.E() * e.K()) + std::fabs(e.K() * c.K());
      if (!(std::fabs(lhs - M_PI / 2) <= 16 * EPSm * sc)) bad("elliptic-legendre-relation", "E K' + E' K - K K' = " + sd(lhs) + " (k2=" + sd(k2) + ")");
    }
  } catch (const GeographicErr&) { emit("!E"); }
});
// m15_reset2 k2 alpha2 : the two-argument constructor / Reset (complements formed as 1 - k2, 1 - alpha2)
static Reg r_mreset2("m15_reset2", [](const Args& a) {
  double k2 = unhx(a[0]), a2 = unhx(a[1]);
  try {
    EllipticFunction e(k2, a2);
    emit(members(e));
    EllipticFunction e2; e2.Reset(k2, a2);
    if (members(e2) != members(e)) bad("elliptic-reset", "Reset(k2, alpha2) differs from the constructor");
    EllipticFunction e4(k2, a2, 1 - k2, 1 - a2);
    if (members(e4) != members(e)) bad("elliptic-reset", "EllipticFunction(k2, alpha2) differs from EllipticFunction(k2, alpha2, 1 - k2, 1 - alpha2)");
  } catch (const GeographicErr&) { emit("!E"); }
});
// default constructor
static Reg r_mreset0("m15_reset0", [](const Args&) {
  EllipticFunction e; emit(members(e));
});

// m15_inc k2 alpha2 kp2 alphap2 sn cn dn : the (sn, cn, dn) interfaces and the periodic parts
static Reg r_minc("m15_inc", [](const Args& a) {
  EllipticFunction e(unhx(a[0]), unhx(a[1]), unhx(a[2]), unhx(a[3]));
  double sn = unhx(a[4]), cn = unhx(a[5]), dn = unhx(a[6]);
  emit(cat({e.F(sn, cn, dn), e.E(sn, cn, dn), e.D(sn, cn, dn), e.Pi(sn, cn, dn), e.G(sn, cn, dn), e.H(sn, cn, dn),
            e.deltaF(sn, cn, dn), e.deltaE(sn, cn, dn), e.deltaD(sn, cn, dn), e.deltaPi(sn, cn, dn), e.deltaG(sn, cn, dn), e.deltaH(sn, cn, dn),
            e.Delta(sn, cn)}));
});
// m15_phi k2 alpha2 kp2 alphap2 phi : the angle interfaces
static Reg r_mphi("m15_phi", [](const Args& a) {
  EllipticFunction e(unhx(a[0]), unhx(a[1]), unhx(a[2]), unhx(a[3]));
  double phi = unhx(a[4]);
  emit(cat({e.F(phi), e.E(phi), e.D(phi), e.Pi(phi), e.G(phi), e.H(phi)}));
  // period: X(phi + pi) = X(phi) + 2 X() to the accuracy of the two values (phi + pi is not exact: allow its rounding through the integrand <= max(1, 1/dn))
  if (std::isfinite(phi) && unhx(a[2]) > 0 && unhx(a[3]) > 0) {
    double p2 = phi + M_PI;
    double v1[6] = {e.F(phi), e.E(phi), e.D(phi), e.Pi(phi), e.G(phi), e.H(phi)}, v2[6] = {e.F(p2), e.E(p2), e.D(p2), e.Pi(p2), e.G(p2), e.H(p2)};
    double c[6] = {e.K(), e.E(), e.D(), e.Pi(), e.G(), e.H()};
    const char* nm[6] = {"F", "E", "D", "Pi", "G", "H"};
    EllPar P(unhx(a[0]), unhx(a[1]), unhx(a[2]), unhx(a[3]));
    LD iv[6]; P.integrand(sinl((LD)p2), cosl((LD)p2), iv);
    for (int k = 0; k < 6; ++k) {
      double tol = 64 * EPSm * (std::fabs(v1[k]) + std::fabs(v2[k]) + 2 * std::fabs(c[k]) + (P.a2 < 0 && k >= 3 ? 4 * std::fmax(std::fabs(e.K()), std::fabs(e.E())) * (1 + std::fabs(phi)) : 0))
                   + 4 * EPSm * (std::fabs(phi) + M_PI) * (double)fabsl(iv[k]);
      if (!(std::fabs(v2[k] - v1[k] - 2 * c[k]) <= tol))
        bad("elliptic-period", third_class(P, k) + std::string(nm[k]) + "(phi + pi) - " + nm[k] + "(phi) = " + sd(v2[k] - v1[k]) + " but 2 " + nm[k] + "() = " + sd(2 * c[k]) + " (k2=" + sd(unhx(a[0])) + " alpha2=" + sd(unhx(a[1])) + " phi=" + sd(phi) + ")");
    }
  }
});
// m15_ed k2 kp2 ang : Ed(ang) together with sincosd(ang) (the model takes the reduction of the angle from Math::AngNormalize, C16)
static Reg r_med("m15_ed", [](const Args& a) {
  EllipticFunction e(unhx(a[0]), 0, unhx(a[1]), 1);
  double ang = unhx(a[2]), sn, cn; Math::sincosd(ang, sn, cn);
  emit(cat({sn, cn, e.Ed(ang)}));
  // Ed(ang) against E(phi) at the same angle: the conversion to radians costs an ulp of the angle, worth Delta <= max(1, sqrt(kp2)) ulp(ang) in E
  if (std::isfinite(ang) && unhx(a[1]) > 0) {
    double ph = ang * (M_PI / 180), w = e.E(ph), dmax = std::fmax(1.0, std::sqrt(unhx(a[1])));
    if (!(std::fabs(e.Ed(ang) - w) <= 64 * EPSm * (std::fabs(w) + std::fabs(ph) * dmax) + 1e-300))
      bad("elliptic-Ed-vs-E", "Ed(" + sd(ang) + ") = " + sd(e.Ed(ang)) + " but E(" + sd(ph) + ") = " + sd(w) + " (k2=" + sd(unhx(a[0])) + ")");
  }
});
// m15_jac k2 kp2 x : sncndn, am (both overloads)
static Reg r_mjac("m15_jac", [](const Args& a) {
  EllipticFunction e(unhx(a[0]), 0, unhx(a[1]), 1);
  double x = unhx(a[2]), sn, cn, dn, s2, c2, d2;
  e.sncndn(x, sn, cn, dn);
  double am1 = e.am(x), am2 = e.am(x, s2, c2, d2);
  emit(cat({sn, cn, dn, am1, am2, s2, c2, d2}));
});
// m15_einv k2 kp2 x stau ctau : Einv and deltaEinv
static Reg r_meinv("m15_einv", [](const Args& a) {
  EllipticFunction e(unhx(a[0]), 0, unhx(a[1]), 1);
  double x = unhx(a[2]), st = unhx(a[3]), ct = unhx(a[4]);
  emit(cat({e.Einv(x), e.deltaEinv(st, ct)}));
  // Einv(x + 2 E) = Einv(x) + pi  (period of the inverse), and deltaEinv is periodic: deltaEinv(-s, -c) = deltaEinv(s, c)
  if (std::isfinite(x) && unhx(a[1]) > 0) {
    double v0 = e.Einv(x), v1 = e.Einv(x + 2 * e.E());
    // the shifted argument is rounded: |d Einv/dx| = 1/Delta <= max(1, 1/sqrt(kp2))
    double dm = std::fmax(1.0, 1 / std::sqrt(unhx(a[1])));
    if (!(std::fabs(v1 - v0 - M_PI) <= 64 * EPSm * (std::fabs(v0) + std::fabs(v1) + M_PI + dm * (std::fabs(x) + 2 * e.E())) + 1e-7 * 0))
      bad("elliptic-Einv-period", std::string(unhx(a[0]) < -1 ? "[class:large-negative-k2] " : "") + "Einv(x + 2E) - Einv(x) = " + sd(v1 - v0) + " (k2=" + sd(unhx(a[0])) + " x=" + sd(x) + ")");
    if (!(e.deltaEinv(-st, -ct) == e.deltaEinv(st, ct)) && ct != 0) bad("elliptic-Einv-period", "deltaEinv(-s, -c) != deltaEinv(s, c)");
  }
});

// ---------------------------------------------------------------------------------------------------------------------------------
// AuxAngle
// m15_ang y x qy qx d : every member and static function of AuxAngle
static Reg r_mang("m15_ang", [](const Args& a) {
  double y = unhx(a[0]), x = unhx(a[1]), qy = unhx(a[2]), qx = unhx(a[3]), d = unhx(a[4]);
  AuxAngle p(y, x), q(qy, qx);
  AuxAngle n = p.normalized(), cq = p.copyquadrant(q), s = p; s += q;
  AuxAngle r = AuxAngle::radians(d), l = AuxAngle::lam(d), ld = AuxAngle::lamd(d), dg = AuxAngle::degrees(d), nn = AuxAngle::NaN();
  emit(cat({n.y(), n.x(), cq.y(), cq.x(), s.y(), s.x(), p.degrees(), p.radians(), p.lam(), p.lamd(), p.tan(), r.y(), r.x(), l.y(), l.x(), ld.y(), ld.x()}));
  // normalize() is normalized() in place; y(), x() accessors (const and non-const)
  { AuxAngle m(y, x); m.normalize(); if (!(bits(m.y()) == bits(n.y()) && bits(m.x()) == bits(n.x()))) bad("auxangle", "normalize() differs from normalized()");
    AuxAngle w(y, x); w.y() = qy; w.x() = qx; if (!(bits(w.y()) == bits(qy) && bits(w.x()) == bits(qx))) bad("auxangle", "the reference accessors do not write the components");
    AuxAngle dflt; if (!(dflt.y() == 0 && dflt.x() == 1)) bad("auxangle", "default AuxAngle is not (0, 1)");
    AuxAngle one(y); if (!(bits(one.y()) == bits(y) && one.x() == 1)) bad("auxangle", "AuxAngle(y) is not (y, 1)"); }
  if (!(std::isnan(nn.y()) && std::isnan(nn.x()))) bad("auxangle", "AuxAngle::NaN() is not (NaN, NaN)");
  { double sy, sx; Math::sincosd(d, sy, sx); if (!(bits(dg.y()) == bits(sy) && bits(dg.x()) == bits(sx))) bad("auxangle", "AuxAngle::degrees(d) is not sincosd(d)"); }
  // a normalized angle is on the unit circle and in the same quadrant, the same direction
  if (!std::isnan(n.y()) && std::isfinite(y) && std::isfinite(x)) {
    if (!(std::fabs(std::hypot(n.y(), n.x()) - 1) <= 4 * EPSm)) bad("auxangle", "normalized() is not on the unit circle: (" + sd(n.y()) + ", " + sd(n.x()) + ")");
    if (!(std::signbit(n.y()) == std::signbit(y) && std::signbit(n.x()) == std::signbit(x))) bad("auxangle", "normalized() changes the quadrant");
  }
  // degrees(degrees(d)) = d reduced to [-180, 180], radians(radians(r)) likewise
  if (std::isfinite(d)) {
    double back = dg.degrees(), want = Math::AngNormalize(d);
    double df = std::fabs(std::remainder(back - want, 360.0));
    if (!(df <= 4 * ulp(std::fmax(std::fabs(want), 1e-300)) + 4 * ulp(d) * 0)) bad("auxangle", "AuxAngle::degrees(" + sd(d) + ").degrees() = " + sd(back));
    if (std::fabs(d) < 700) { double b2 = l.lam(); if (!(std::fabs(b2 - d) <= 8 * EPSm * std::fabs(d) * (1 + 1 / std::tanh(std::fabs(d) + 1e-300) * 0))) bad("auxangle", "lam(lam(psi)) != psi for psi = " + sd(d) + ": " + sd(b2)); }
  }
});

// ---------------------------------------------------------------------------------------------------------------------------------
// AuxLatitude
static std::string almembers(const AuxLatitude& A) {
  return cat({A._a, A._b, A._f, A._fm1, A._e2, A._e2m1, A._e12, A._e12p1, A._n, A._e, A._e1, A._n2, A._q, A.tol_, A.bmin_, A.bmax_});
}
// m15_ctor a f : the members set by AuxLatitude(a, f), and the getters
static Reg r_mctor("m15_ctor", [](const Args& a) {
  double aa = unhx(a[0]), f = unhx(a[1]);
  try { AuxLatitude A(aa, f); emit(almembers(A));
    if (!(bits(A.EquatorialRadius()) == bits(aa) && bits(A.Flattening()) == bits(f) && bits(A.PolarSemiAxis()) == bits(A._b))) bad("auxlat-getters", "EquatorialRadius/Flattening/PolarSemiAxis do not return the members");
    Ellipsoid E(aa, f);
    if (!(bits(E.EquatorialRadius()) == bits(aa) && bits(E.Flattening()) == bits(f))) bad("ellipsoid-getters", "EquatorialRadius/Flattening do not return the arguments");
    // the documented default arguments: exact = false
    if (!(bits(A.RectifyingRadius()) == bits(A.RectifyingRadius(false)) && bits(A.AuthalicRadiusSquared()) == bits(A.AuthalicRadiusSquared(false))))
      bad("auxlat-defaults", "RectifyingRadius() / AuthalicRadiusSquared() without argument are not the series values");
    { AuxAngle z(0.6, 0.8), r1 = A.Convert(0, 3, z), r2 = A.Convert(0, 3, z, false);
      if (!(bits(r1.y()) == bits(r2.y()) && bits(r1.x()) == bits(r2.x()))) bad("auxlat-defaults", "Convert(auxin, auxout, zeta) without `exact` is not the series conversion");
      double d1 = A.Convert(0, 3, 30.0), d2 = A.Convert(0, 3, 30.0, false);
      if (!(bits(d1) == bits(d2))) bad("auxlat-defaults", "Convert(auxin, auxout, degrees) without `exact` is not the series conversion"); }
  } catch (const GeographicErr&) { emit("!E"); }
});
// m15_axes a b y x : AuxLatitude::axes(a, b): members, and its conversions against those of AuxLatitude(a, (a - b)/a)
static Reg r_maxes(
"m15_axes", [](const Args& a) {
  double aa = unhx(a[0]), b = unhx(a[1]), y = unhx(a[2]), x = unhx(a[3]);
  try { AuxLatitude A(AuxLatitude::axes(aa, b)); emit(almembers(A));
    // the same ellipsoid through (a, f): every exact conversion agrees to the accuracy the rounded f allows
    // (f = (a - b)/a carries half an ulp; 1 - f then has relative error ulp(f)/(1 - f))
    double f = (aa - b) / aa; AuxLatitude B(aa, f);
    double cf = 1 + std::fabs(f * (2 - f) / ((1 - f) * (1 - f))) + std::fabs(f / (1 - f));
    for (int to = 1; to < 6; ++to) {
      AuxAngle r1 = A.Convert(0, to, AuxAngle(y, x), true), r2 = B.Convert(0, to, AuxAngle(y, x), true);
      double t1 = r1.tan(), t2 = r2.tan();
      if (std::isnan(t1) || std::isnan(t2) || t2 == 0 || std::isinf(t2) || std::fabs(t2) < 1e-290 || std::fabs(y / x) < 1e-290) continue;   // denormal tangents are quantised
      double extra = to == 4 ? std::fabs(std::asinh(y / x) - std::asinh(t2)) : 0;
      if (f <= -1 && to == 5) continue;     // [class:authalic-prolate]
      if (!(std::fabs(t1 / t2 - 1) <= 64 * EPSm * (cf + extra) * 4)) bad("auxlat-axes", std::string("axes(a, b) and (a, f) disagree for ") + AUXN[to] + ": " + sd(t1) + " vs " + sd(t2) + " (a=" + sd(aa) + " b=" + sd(b) + " tan=" + sd(y / x) + ")");
    }
    if (!(std::fabs(A.RectifyingRadius(true) / B.RectifyingRadius(true) - 1) <= 16 * EPSm * cf && std::fabs(A.AuthalicRadiusSquared(true) / B.AuthalicRadiusSquared(true) - 1) <= 32 * EPSm * cf))
      bad("auxlat-axes", "axes(a, b) and (a, f) give different radii (a=" + sd(aa) + " b=" + sd(b) + ")");
  } catch (const GeographicErr&) { emit("!E"); }
});
// m15_toaux f to y x : ToAuxiliary with its derivative
static Reg r_mtoaux("m15_toaux", [](const Args& a) {
  double f = unhx(a[0]); int to = std::stoi(a[1]); double y = unhx(a[2]), x = unhx(a[3]);
  AuxLatitude A(1.0, f); double diff = -1;
  AuxAngle r = A.ToAuxiliary(to, AuxAngle(y, x), &diff), r0 = A.ToAuxiliary(to, AuxAngle(y, x));
  emit(cat({r.y(), r.x(), diff}));
  if (!(bits(r.y()) == bits(r0.y()) && bits(r.x()) == bits(r0.x())) && !std::isnan(r.y())) bad("auxlat-diff", "ToAuxiliary with and without the derivative differ");
  // diff = d tan(zeta) / d tan(phi) against the oracle's logarithmic derivative (first quadrant, finite non-zero tangents)
  if (to >= 0 && to < 6 && y > 0 && x > 0 && std::isfinite(y / x) && y / x > 1e-290 && y / x < 1e290 && std::isfinite(diff)) {
    Ell E(f); Q T = (Q)y / (Q)x, ex = auxtan(E, to, T);
    if (!(ex > (Q)1e-290 && ex < (Q)1e290)) return;
    Q dl = auxdlog(E, to, T), want = dl * ex / T;
    // the oracle's central difference is good to ~1e-9 (1e-6 for the quadrature-defined latitudes); Newton only needs a fair derivative, the
    // property only that it is the derivative: 1e-5 relative
    if (!(fabsq((Q)diff / want - 1) <= (Q)1e-5)) bad("auxlat-diff", std::string("d tan(") + AUXN[to] + ")/d tan(phi) = " + sd(diff) + " but the derivative of the definition is " + sd((double)want) + " (f=" + sd(f) + " tan(phi)=" + sd(y / x) + ")");
  }
});
// m15_fromaux f from y x : FromAuxiliary with the iteration count
static Reg r_mfromaux("m15_fromaux", [](const Args& a) {
  double f = unhx(a[0]); int from = std::stoi(a[1]); double y = unhx(a[2]), x = unhx(a[3]);
  AuxLatitude A(1.0, f); int nit = -1;
  AuxAngle r = A.FromAuxiliary(from, AuxAngle(y, x), &nit), r0 = A.FromAuxiliary(from, AuxAngle(y, x));
  emit(cat({r.y(), r.x()}) + " " + std::to_string(nit));
  if (!(bits(r.y()) == bits(r0.y()) && bits(r.x()) == bits(r0.x())) && !std::isnan(r.y())) bad("auxlat-newton", "FromAuxiliary with and without the iteration count differ");
  // Newton converges quadratically from a good start: a healthy solver needs a handful of iterations, never the budget
  if (nit > 40 && std::isfinite(y / x) && std::fabs(y / x) > 1e-300 && std::fabs(y / x) < 1e300) bad("auxlat-newton", std::string("FromAuxiliary(") + AUXN[from < 6 && from >= 0 ? from : 0] + ") took " + std::to_string(nit) + " iterations (f=" + sd(f) + " tan=" + sd(y / x) + ")");
});
// m15_conv f from to y x : exact Convert (AuxAngle overload) for the Lean model
static Reg r_mconv("m15_conv", [](const Args& a) {
  double f = unhx(a[0]); int from = std::stoi(a[1]), to = std::stoi(a[2]); double y = unhx(a[3]), x = unhx(a[4]);
  AuxLatitude A(1.0, f);
  AuxAngle r = A.Convert(from, to, AuxAngle(y, x), true);
  emit(cat({r.y(), r.x()}));
  if ((from < 0 || from > 5 || to < 0 || to > 5) && !(std::isnan(r.y()) && std::isnan(r.x()))) bad("auxlat-index", "Convert with a latitude index out of range does not return NaN");
});
// m15_convdeg f from to exact zeta : the degree overload of Convert: the turns of zeta are carried over
static Reg r_mconvdeg("m15_convdeg", [](const Args& a) {
  double f = unhx(a[0]); int from = std::stoi(a[1]), to = std::stoi(a[2]); bool exact = std::stoi(a[3]) != 0; double z = unhx(a[4]);
  AuxLatitude A(1.0, f);
  double sy, sx; Math::sincosd(z, sy, sx);
  AuxAngle r = A.Convert(from, to, AuxAngle(sy, sx), exact);
  double out = A.Convert(from, to, z, exact);
  emit(cat({sy, sx, r.y(), r.x(), out}));
  // adding a whole turn to the argument adds a whole turn to the result
  if (std::isfinite(z) && std::fabs(z) < 1e12) {
    double zz = z + 360, o2 = A.Convert(from, to, zz, exact);
    // only when zeta + 360 is exact (then zz - 360 is exact by Sterbenz' lemma and gives zeta back)
    if (zz >= 180 && zz <= 720 && zz - 360 == z && !(std::fabs(o2 - out - 360) <= 4 * ulp(std::fabs(o2) + 360)) && !(std::isnan(o2) && std::isnan(out)))
      bad("auxlat-degrees-period", "Convert(zeta + 360) - Convert(zeta) = " + sd(o2 - out) + " for zeta = " + sd(z));
  }
});
// m15_clen sinp sz cz c0..c5 : the public static Clenshaw summation, both the sine and the cosine form
static Reg r_mclen("m15_clen", [](const Args& a) {
  bool sinp = a[0] == "1"; double sz = unhx(a[1]), cz = unhx(a[2]);
  std::vector<double> c; for (size_t i = 3; i < a.size(); ++i) c.push_back(unhx(a[i]));
  double v = AuxLatitude::Clenshaw(sinp, sz, cz, c.data(), (int)c.size());
  emit(hx(v));
  // against the defining sum in long double with zeta = atan2(sz, cz)
  LD z = atan2l((LD)sz, (LD)cz), s = 0, sa = 0;
  for (size_t k = 0; k < c.size(); ++k) { LD t = (LD)c[k] * (sinp ? sinl((2 * k + 2) * z) : cosl((2 * k + 2) * z)); s += t; sa += fabsl((LD)c[k]) * (2 * k + 2); }
  // (sz, cz) need not be exactly on the unit circle: generators pass normalized pairs
  if (!(fabsl((LD)v - s) <= 32 * EPSm * (sa + 1e-300L))) bad("clenshaw-sum", std::string("Clenshaw(") + (sinp ? "sin" : "cos") + ") = " + sd(v) + " but the sum is " + sd((double)s));
});
// m15_ell a f phi azi psi : the measures of Ellipsoid for the Lean model (sincosd / sind results are passed along)
static Reg r_mell("m15_ell", [](const Args& a) {
  double aa = unhx(a[0]), f = unhx(a[1]), phi = unhx(a[2]), azi = unhx(a[3]), psi = unhx(a[4]);
  Ellipsoid e(aa, f); AuxLatitude A(aa, f);
  double lf = Math::LatFix(phi), s, c, sdv = Math::sind(lf), sal, cal; Math::sincosd(lf, s, c); Math::sincosd(azi, sal, cal);
  emit(cat({s, c, sdv, sal, cal, e.QuarterMeridian(), e.Area(), A.RectifyingRadius(true), A.AuthalicRadiusSquared(true), e.MeridionalCurvatureRadius(phi),
            e.TransverseCurvatureRadius(phi), e.NormalCurvatureRadius(phi, azi), e.CircleRadius(phi), e.CircleHeight(phi), e.MeridianDistance(phi),
            e.IsometricLatitude(phi), e.InverseIsometricLatitude(psi), e.Volume()}));
});
// m15_wgs84 : the static WGS84 objects are the documented ellipsoid
static Reg r_mwgs("m15_wgs84", [](const Args&) {
  const AuxLatitude& A = AuxLatitude::WGS84(); const Ellipsoid& E = Ellipsoid::WGS84();
  emit(cat({A.EquatorialRadius(), A.Flattening(), E.EquatorialRadius(), E.Flattening()}));
  if (!(A.EquatorialRadius() == 6378137 && A.Flattening() == 1 / 298.257223563 && E.EquatorialRadius() == 6378137 && E.Flattening() == 1 / 298.257223563))
    bad("wgs84", "AuxLatitude::WGS84() / Ellipsoid::WGS84() are not a = 6378137, f = 1/298.257223563");
  AuxLatitude B(6378137, 1 / 298.257223563);
  if (almembers(A) != almembers(B)) bad("wgs84", "AuxLatitude::WGS84() differs from AuxLatitude(6378137, 1/298.257223563)");
  Ellipsoid F(6378137, 1 / 298.257223563);
  if (!(bits(E.QuarterMeridian()) == bits(F.QuarterMeridian()) && bits(E.Area()) == bits(F.Area()))) bad("wgs84", "Ellipsoid::WGS84() differs from Ellipsoid(6378137, 1/298.257223563)");
  // documented values: quarter meridian 10001965.729 m, area 510065621724089 m^2 (Ellipsoid.hpp / Karney 2013)
  if (!(std::fabs(E.QuarterMeridian() - 10001965.729) < 1e-3)) bad("wgs84", "WGS84 quarter meridian is " + sd(E.QuarterMeridian()));
});
} // namespace c15m
