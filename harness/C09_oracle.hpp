// C09 — specification oracle for rhumb lines on an ellipsoid of revolution, in 80-bit long double.
// Independent of the library: rectifying latitude by Gauss–Legendre quadrature of the meridian arc, isometric and
// authalic latitudes from their closed forms, every *difference* formed without cancellation (addition theorems
// of asinh / atanh / atan, quadrature over the latitude interval itself), so that the divided-difference regime
// (nearby latitudes, long east–west extent) has a reference that is accurate to ~1e-18 relative.
#pragma once
#include "geodoracle.hpp"   // oracle::GL / oracle::integrate (24-point Gauss–Legendre panels), PI, DEG
#include <cmath>
namespace rho {
typedef long double LD;
using oracle::PI; using oracle::DEG; using oracle::integrate;

// sin, cos of an angle given in degrees, |d| <= 90, without loss near 90 (co-latitude is exact in long double)
inline void scd(LD d, LD& s, LD& c) {
  LD ad = fabsl(d);
  if (ad > 45) { LD co = (90 - ad) * DEG; s = cosl(co); c = sinl(co); if (ad == 90) c = 0; }
  else { s = sinl(ad * DEG); c = cosl(ad * DEG); }
  if (d < 0) s = -s;
}
// sin, cos of an azimuth in degrees (any finite value), exact quadrant reduction
inline void sca(double azi, LD& s, LD& c) {
  int q = 0; double r = std::remquo(azi, 90.0, &q); LD sr = sinl((LD)r * DEG), cr = cosl((LD)r * DEG);
  switch (unsigned(q) & 3U) { case 0U: s = sr; c = cr; break; case 1U: s = cr; c = -sr; break; case 2U: s = -sr; c = -cr; break; default: s = -cr; c = sr; }
}

struct Ell {
  LD a, f, e2, ee, b, Q, Rmu, c2, q1;
  Ell(LD a_, LD f_) : a(a_), f(f_) {
    e2 = f * (2 - f); ee = sqrtl(fabsl(e2)); b = a * (1 - f);
    Q = integrate([&](LD p) { return M(sinl(p)); }, 0, PI / 2);
    Rmu = 2 * Q / PI; q1 = q(1); c2 = a * a / 2 * (1 - e2) * q1;
  }
  // meridional radius of curvature as a function of sin(phi)
  LD M(LD s) const { LD w = 1 - e2 * s * s; return a * (1 - e2) / (w * sqrtl(w)); }
  // radius of the parallel circle
  LD Rpar(LD s, LD c) const { return a * c / sqrtl(1 - e2 * s * s); }
  // atanh(e s)/e for either sign of e2
  LD atanhee(LD s) const { return e2 > 0 ? atanhl(ee * s) / ee : (e2 < 0 ? atanl(ee * s) / ee : s); }
  LD q(LD s) const { return s / (1 - e2 * s * s) + atanhee(s); }
  LD sinxi(LD s) const { return q(s) / q1; }
  // sin, cos of phi1 + t (phi1 given in degrees, t in radians); near a pole through the co-latitude
  // (lat2k: the end latitude in degrees when it is known exactly, NaN otherwise; tf = fraction of the way, 1 = end, 0.5 = middle)
  void sc_at(LD lat1, LD t, LD& s, LD& c, LD lat2k = NAN, LD tf = 1) const {
    if (lat2k == lat2k) { LD lm = tf == 1 ? lat2k : (lat1 + lat2k) / 2; if (fabsl(lm) <= 90) { scd(lm, s, c); return; } }
    LD s1, c1; scd(lat1, s1, c1);
    s = s1 * cosl(t) + c1 * sinl(t); c = c1 * cosl(t) - s1 * sinl(t);
    if (fabsl(s) > 0.8L) {   // |phi| > 53 deg: co-latitude route
      LD sg = s > 0 ? 1 : -1, co = (90 - sg * lat1) * DEG - sg * t;   // co-latitude from the nearer pole
      c = sinl(co); s = sg * cosl(co);
    }
  }
  // meridian arc from phi1 (degrees) over dphi (radians), by quadrature over the interval itself
  LD dm(LD lat1, LD dphi) const {
    LD s1, c1; scd(lat1, s1, c1);
    return integrate([&](LD t) { LD s = s1 * cosl(t) + c1 * sinl(t); return M(s); }, 0, dphi);
  }
  // meridian arc from the equator
  LD m0(LD lat) const { return dm(0, lat * DEG); }
  // isometric-latitude difference psi(phi1 + dphi) - psi(phi1), cancellation-free; +-inf if a pole is involved
  LD dpsi(LD lat1, LD dphi, LD lat2k = NAN) const {
    LD s1, c1, s2, c2_; scd(lat1, s1, c1); sc_at(lat1, dphi, s2, c2_, lat2k);
    if (dphi == 0) return 0;
    if (c1 <= 0 || c2_ <= 0) return (dphi > 0 ? 1 : -1) * INFINITY;
    // sin(phi2) - sin(phi1) = 2 cos(phi1 + dphi/2) sin(dphi/2); sinh(asinh tan phi2 - asinh tan phi1) = (sin phi2 - sin phi1)/(cos phi1 cos phi2)
    LD sm, cm; sc_at(lat1, dphi / 2, sm, cm, lat2k, 0.5L);
    LD ds = 2 * cm * sinl(dphi / 2), w = 1 - e2 * s1 * s2;
    LD A = asinhl(ds / (c1 * c2_));
    LD B = e2 > 0 ? ee * atanhl(ee * ds / w) : (e2 < 0 ? -ee * atanl(ee * ds / w) : 0);
    return A - B;
  }
  // parametric-latitude difference
  LD dbeta(LD lat1, LD dphi, LD lat2k = NAN) const {
    LD s1, c1, s2, c2_; scd(lat1, s1, c1); sc_at(lat1, dphi, s2, c2_, lat2k);
    return atan2l((1 - f) * sinl(dphi), c1 * c2_ + (1 - f) * (1 - f) * s1 * s2);
  }
  // mean of sin(xi) over the isometric latitude between phi1 and phi1 + dphi (u = asinh tan phi as variable)
  LD meansinxi(LD lat1, LD dphi, LD lat2k = NAN) const {
    LD s1, c1, s2, c2_; scd(lat1, s1, c1); sc_at(lat1, dphi, s2, c2_, lat2k);
    if (c1 <= 0) return s1; if (c2_ <= 0) return s2;            // a pole dominates the (infinite) range of psi
    if (dphi == 0) return sinxi(s1);
    LD sm, cm; sc_at(lat1, dphi / 2, sm, cm, lat2k, 0.5L);
    LD u1 = asinhl(s1 / c1), du = asinhl(2 * cm * sinl(dphi / 2) / (c1 * c2_));
    auto w = [&](LD th) { return (1 - e2) / (1 - e2 * th * th); };
    LD num = integrate([&](LD v) { LD th = tanhl(u1 + v); return sinxi(th) * w(th); }, 0, du, 2);
    LD den = integrate([&](LD v) { LD th = tanhl(u1 + v); return w(th); }, 0, du, 2);
    return num / den;
  }
  // solve dm(lat1, dphi) = target for dphi (Newton; the arc is increasing in dphi)
  LD solve_dphi(LD lat1, LD target) const {
    LD s1, c1; scd(lat1, s1, c1);
    LD d = target / M(s1);
    for (int it = 0; it < 60; ++it) {
      LD s = s1 * cosl(d) + c1 * sinl(d);
      LD r = dm(lat1, d) - target, st = r / M(s);
      d -= st;
      if (fabsl(st) <= 2e-19L * fabsl(d) || st == 0) break;
    }
    return d;
  }
};
} // namespace rho
