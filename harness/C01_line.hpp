// Model correspondence for the series solver (shared by the C01 and C03 harnesses): the private state of
// Geodesic / GeodesicLine and the outputs of GenPosition, next to the kernel values (sincosd) the Lean model takes
// as inputs.  The Lean side (Corr/C01.lean, ops geodconst / lineinit / genpos) evaluates Model/GeodLine.lean.
#pragma once
#include "geodcommon.hpp"
namespace gline {
using namespace gd; using namespace gv;

inline std::string hxs(const double* p, int n) { std::string s; for (int i = 0; i < n; ++i) { if (i) s += " "; s += hx(p[i]); } return s; }

// the members GenPosition reads, in the order of `GeodLine.Line`
inline std::string members(const GeodesicLine& l) {
  const double m[] = {l._f, l._f1, l._b, l._c2, l.tiny_, l._lon1, l._salp1, l._calp1, l._dn1, l._salp0, l._calp0, l._ssig1, l._csig1, l._somg1, l._comg1, l._k2,
                      l._aA1m1, l._bB11, l._stau1, l._ctau1, l._aA2m1, l._bB21, l._aA3c, l._bB31, l._aA4, l._bB41};
  return hxs(m, sizeof m / sizeof m[0]) + " " + hxs(l._cC1a + 1, Geodesic::nC1_) + " " + hxs(l._cC1pa + 1, Geodesic::nC1p_) + " " + hxs(l._cC2a + 1, Geodesic::nC2_) + " " +
         hxs(l._cC3a + 1, Geodesic::nC3_ - 1) + " " + hxs(l._cC4a, Geodesic::nC4_);
}

// geodconst a f | tiny eps0  f1 e2 ep2 n b c2 etol2  A3x[..] C3x[..] C4x[..]
static Reg r_gconst("geodconst", [](const Args& a) {
  double ea = unhx(a[0]), f = unhx(a[1]);
  std::string e = guarded([&] {
    Geodesic G(ea, f);
    const double m[] = {G.tiny_, G.tol0_, G._f1, G._e2, G._ep2, G._n, G._b, G._c2, G._etol2};
    emit(hxs(m, 9) + " " + hxs(G._aA3x, Geodesic::nA3x_) + " " + hxs(G._cC3x, Geodesic::nC3x_) + " " + hxs(G._cC4x, Geodesic::nC4x_));
  });
  if (!e.empty()) emit(e);
});

// lineinit a f lat1 lon1 azi1 | tiny eps0  sbet1r cbet1r salp1 calp1  <members>
static Reg r_linit("lineinit", [](const Args& a) {
  double ea = unhx(a[0]), f = unhx(a[1]), lat1 = unhx(a[2]), lon1 = unhx(a[3]), azi1 = unhx(a[4]);
  Geodesic G(ea, f);
  // the kernel values, obtained exactly as the two constructors obtain them
  double sb, cb, sa, ca;
  Math::sincosd(Math::AngRound(Math::LatFix(lat1)), sb, cb);
  Math::sincosd(Math::AngRound(Math::AngNormalize(azi1)), sa, ca);
  GeodesicLine l(G, lat1, lon1, azi1);
  const double k[] = {G.tiny_, G.tol0_, sb, cb, sa, ca};
  emit(hxs(k, 6) + " " + members(l));
});

// genpos a f lat1 lon1 azi1 arc len unroll | <members>  ssig12k csig12k  a12 lat2 lon2 azi2 s12 m12 M12 M21 S12
static Reg r_gpos("genpos", [](const Args& a) {
  double ea = unhx(a[0]), f = unhx(a[1]), lat1 = unhx(a[2]), lon1 = unhx(a[3]), azi1 = unhx(a[4]); bool arc = a[5] == "1"; double len = unhx(a[6]); bool unroll = a[7] == "1";
  Geodesic G(ea, f); GeodesicLine l(G, lat1, lon1, azi1);
  double sk = 0, ck = 0; if (arc) Math::sincosd(len, sk, ck);
  Res r; r.a12 = l.GenPosition(arc, len, Geodesic::ALL | (unroll ? Geodesic::LONG_UNROLL : 0), r.lat2, r.lon2, r.azi2, r.s12, r.m12, r.M12, r.M21, r.S12);
  const double o[] = {sk, ck, r.a12, r.lat2, r.lon2, r.azi2, r.s12, r.m12, r.M12, r.M21, r.S12};
  emit(members(l) + " " + hxs(o, 11));
});

// one start point / direction / length: constants (occasionally), the line, two positions
inline void model_case(Rng& r, double ea, double f, double lat1, double lon1, double azi1, bool arc, double len, bool withconst) {
  if (!(f < 1)) return;
  if (withconst) run("geodconst", {hx(ea), hx(f)});
  run("lineinit", {hx(ea), hx(f), hx(lat1), hx(lon1), hx(azi1)});
  bool un = r.coin();
  run("genpos", {hx(ea), hx(f), hx(lat1), hx(lon1), hx(azi1), arc ? "1" : "0", hx(len), un ? "1" : "0"});
  stratum(std::string("model-") + (std::fabs(f) <= 0.02 ? "series-range" : "large-f") + (arc ? "-arc" : "-dist") + (un ? "-unroll" : ""));
}
} // namespace gline
