// C11 oracle: Snyder's textbook closed forms (Map Projections -- A Working Manual, 1987: eqs 3-12, 14-15, 15-1..15-11,
// 21-33..21-40, 14-2..14-6) evaluated in IEEE binary128 (libquadmath), written independently of the library:
// no divided differences, no Newton iteration on tau, no auxiliary-latitude tangents.  Prolate ellipsoids (e^2 < 0)
// use the analytic continuation e = i*eps: atanh(e s)/e -> atan(eps s)/eps, ((1-es)/(1+es))^(e/2) -> exp(eps atan(eps s)).
#pragma once
#include <quadmath.h>
#include <cmath>
#include <string>
namespace c11 {
typedef __float128 Q;
static const Q PIq = 4 * atanq(Q(1));
inline Q rad(Q deg) { return deg * PIq / 180; }
inline double dbl(Q x) { return (double)x; }
inline bool fin(Q x) { return ::finiteq(x) != 0; }

struct SC { Q s, c; };                       // sine and cosine of a latitude, c >= 0
inline SC sc_deg(double lat) {                // exact at the poles and the equator
  if (std::fabs(lat) == 90) return {lat > 0 ? Q(1) : Q(-1), Q(0)};
  Q p = rad(Q(lat)); return {sinq(p), cosq(p)};
}
inline SC sc_norm(double s, double c) { Q r = sqrtq(Q(s) * s + Q(c) * c); return {Q(s) / r, Q(c) / r}; }

struct Ell {
  Q a, f, e2, e;                              // e = sqrt|e2|
  Ell(double a_, double f_) : a(a_), f(f_) { e2 = f * (2 - f); e = sqrtq(fabsq(e2)); }
  // atanh(e x)/e, continued to e^2 < 0
  Q atanhee(Q x) const { return e2 > 0 ? atanhq(e * x) / e : (e2 < 0 ? atanq(e * x) / e : x); }
  // m = cos(phi)/sqrt(1 - e^2 sin^2 phi)            (Snyder 14-15)
  Q m(SC p) const { return p.c / sqrtq(1 - e2 * p.s * p.s); }
  // t = tan(pi/4 - phi/2) / ((1 - e sin)/(1 + e sin))^(e/2)     (Snyder 15-9)
  Q t(SC p) const {
    Q ts = p.s >= 0 ? p.c / (1 + p.s) : (1 - p.s) / p.c;
    if (e2 > 0) return ts / powq((1 - e * p.s) / (1 + e * p.s), e / 2);
    if (e2 < 0) return ts / expq(e * atanq(e * p.s));
    return ts;
  }
  // sqrt((1+e)^(1+e) (1-e)^(1-e))                   (Snyder 21-33 denominator)
  Q cps() const {
    if (e2 > 0) return sqrtq(powq(1 + e, 1 + e) * powq(1 - e, 1 - e));
    if (e2 < 0) return sqrtq(1 + e * e) * expq(-e * atanq(e));
    return 1;
  }
  // q = (1-e^2) (sin/(1 - e^2 sin^2) - (1/2e) ln((1 - e sin)/(1 + e sin)))      (Snyder 3-12)
  Q q(SC p) const { return (1 - e2) * (p.s / (1 - e2 * p.s * p.s) + atanhee(p.s)); }
  Q M(SC p) const { Q w = 1 - e2 * p.s * p.s; return a * (1 - e2) / (w * sqrtq(w)); }   // meridional radius of curvature
  Q N(SC p) const { return a / sqrtq(1 - e2 * p.s * p.s); }
};

struct Out { Q x, y, gamma, k; bool ok, kok; };   // gamma in degrees; kok: k is defined (not a 0/0 at a pole)

// longitude difference lon - lon0 reduced to [-180, 180] (exactly, in binary128); edge = |d| == 180
inline Q dlon(double lon0, double lon, bool& edge) {
  Q d = fmodq(Q(lon) - Q(lon0), 360);
  if (d > 180) d -= 360; if (d < -180) d += 360;
  edge = fabsq(d) == 180; return d;
}

struct Proj {
  int cls;                // 0 polar stereographic, 1 Lambert conformal conic, 2 Albers
  Ell E;
  Q kap;                  // scale factor (k0 for PS; scale on the standard parallels for the conics)
  SC p1, p2;              // standard parallels
  bool polar; int hemi;   // LCC polar limit
  bool cyl;               // cone constant exactly 0: Mercator / cylindrical equal area
  Q n, F, C, r0, phi0s;   // cone constant; LCC F; Albers C; rho at the origin (unit kap); sin of origin latitude
  SC p0;
  Proj(int c, double a, double f) : cls(c), E(a, f), kap(1), polar(false), hemi(1), cyl(false), n(0), F(0), C(0), r0(0), phi0s(0) {}

  void init_conic(SC a1, SC a2) {
    p1 = a1; p2 = a2;
    bool same = (a1.s == a2.s && a1.c == a2.c);
    if (cls == 1) {
      if (a1.c == 0 || a2.c == 0) { polar = true; hemi = a1.s > 0 ? 1 : -1; n = hemi; p0 = a1; return; }
      Q m1 = E.m(a1), m2 = E.m(a2), t1 = E.t(a1), t2 = E.t(a2);
      n = same ? a1.s : (logq(m1) - logq(m2)) / (logq(t1) - logq(t2));           // 15-8
      if (fabsq(n) < Q(1e-18)) { cyl = true; n = 0; p0 = {0, 1}; return; }
      F = m1 / (n * powq(t1, n));                                                   // 15-10
      Q c0 = sqrtq((1 - n) * (1 + n)); p0 = {n, c0};                                // latitude of minimum scale: sin(phi0) = n
      r0 = E.a * F * powq(E.t(p0), n);                                              // 15-7a
    } else {
      Q m1 = E.m(a1), m2 = E.m(a2), q1 = E.q(a1), q2 = E.q(a2);
      n = same ? a1.s : (m1 * m1 - m2 * m2) / (q2 - q1);                            // 14-14
      C = m1 * m1 + n * q1;                                                         // 14-13
      if (fabsq(n) < Q(1e-18)) { cyl = true; n = 0; p0 = {0, 1}; return; }
      // origin = latitude of minimum azimuthal scale: root of g = sin(phi) (C - n q) - n m^2 between the parallels
      if (same) p0 = a1; else {
        Q lo = atan2q(a1.s, a1.c), hi = atan2q(a2.s, a2.c); if (lo > hi) { Q t_ = lo; lo = hi; hi = t_; }
        auto g = [&](Q ph) { SC p = {sinq(ph), cosq(ph)}; Q mm = E.m(p); return p.s * (C - n * E.q(p)) - n * mm * mm; };
        Q glo = g(lo);
        for (int i = 0; i < 120; ++i) { Q mid = (lo + hi) / 2, gm = g(mid); if ((gm < 0) == (glo < 0)) { lo = mid; glo = gm; } else hi = mid; }
        Q ph = (lo + hi) / 2; p0 = {sinq(ph), cosq(ph)};
      }
      r0 = rhoS(p0);
    }
  }
  Q rhoS(SC p) const { Q w = C - n * E.q(p); if (w < 0) w = 0; return E.a * sqrtq(w) / n; }   // 14-3 (unit kap)

  // scale (kap = 1) at latitude p, for SetScale
  Q unit_scale(SC p) const {
    if (cls == 0) return (2 * E.a * E.t(p) / E.cps()) / (E.a * E.m(p));
    if (cls == 1) {
      if (polar) { SC pp = {p.s * hemi, p.c}; return pp.c == 0 ? Q(1) : (2 * E.a * E.t(pp) / E.cps()) / (E.a * E.m(pp)); }
      if (cyl) return E.m(p1) / E.m(p);
      return E.a * F * powq(E.t(p), n) * n / (E.a * E.m(p));
    }
    if (cyl) return E.m(p1) / E.m(p);
    return rhoS(p) * n / (E.a * E.m(p));
  }

  Out fwd(bool northp, double lon0, double lat, double lon) const {
    Out o; o.ok = true; o.kok = true; bool edge;
    SC p = sc_deg(lat);
    if (cls == 0) {
      int sg = northp ? 1 : -1; SC pp = {p.s * sg, p.c};
      Q lam = rad(fmodq(Q(lon), 360));
      Q rho = 2 * E.a * kap * E.t(pp) / E.cps();                                    // 21-33
      o.x = rho * sinq(lam); o.y = -sg * rho * cosq(lam);
      Q g = fmodq(Q(lon) * sg, 360); if (g > 180) g -= 360; if (g < -180) g += 360; o.gamma = g;
      if (pp.c == 0) { o.k = kap; o.kok = pp.s > 0; } else o.k = rho / (E.a * E.m(pp));  // 21-32
      o.ok = fin(rho); return o;
    }
    Q d = dlon(lon0, lon, edge), lam = rad(d);
    if (cls == 1) {
      if (polar) {
        SC pp = {p.s * hemi, p.c};
        Q rho = 2 * E.a * kap * E.t(pp) / E.cps();
        o.x = rho * sinq(lam); o.y = -hemi * rho * cosq(lam); o.gamma = hemi * d;
        if (pp.c == 0) { o.k = kap; o.kok = pp.s > 0; } else o.k = rho / (E.a * E.m(pp));
        o.ok = fin(rho); return o;
      }
      if (cyl) {                                                                    // Mercator, 7-6..7-8 with the scale true on p1
        Q m1 = E.m(p1);
        o.x = E.a * kap * m1 * lam; o.y = -E.a * kap * m1 * logq(E.t(p)); o.gamma = 0;
        o.k = kap * m1 / E.m(p); o.kok = p.c != 0; o.ok = fin(o.y); return o;
      }
      Q rho = E.a * kap * F * powq(E.t(p), n), th = n * lam;                        // 15-7, 14-4
      o.x = rho * sinq(th); o.y = kap * r0 - rho * cosq(th); o.gamma = n * d;       // 14-1, 14-2
      o.k = rho * n / (E.a * E.m(p)); o.kok = p.c != 0;                             // 15-3
      o.ok = fin(rho); return o;
    }
    if (cyl) {                                                                      // cylindrical equal area, 10-x with standard parallel p1
      Q m1 = E.m(p1);
      o.x = E.a * kap * m1 * lam; o.y = E.a * E.q(p) / (2 * kap * m1); o.gamma = 0;
      o.k = kap * m1 / E.m(p); o.kok = p.c != 0; return o;
    }
    Q rho = rhoS(p), th = kap * kap * n * lam;                                      // 14-3 and the (1/kap, kap^2) rescaling
    o.x = rho * sinq(th) / kap; o.y = (r0 - rho * cosq(th)) / kap; o.gamma = kap * kap * n * d;
    o.k = kap * rho * n / (E.a * E.m(p)); o.kok = p.c != 0;                         // 14-18 (h), times kap
    return o;
  }
};

inline std::string qstr(Q x) { char b[64]; quadmath_snprintf(b, sizeof b, "%.20Qg", x); return b; }
} // namespace c11
