// C13: error contract -- NaN propagates, bad input throws cleanly, nothing crashes.
// Ops (see Corr/C13.lean for the verdicts computed in Lean):
//   sw <entry> <pos> <value>        special-value sweep of one public numeric entry point (pos = -1: baseline)
//   ctor <class> <params...>        constructor accept/reject against the Lean validation predicates
//   nncheck / nnload                NearestNeighbor::Node::Check on crafted records, Load on crafted trees
//   inv_* / parse_*                 NaN -> INVALID marker and back; malformed strings to every parser
//   geoidfile / magfile / gravfile  truncated / corrupted data files
// Every op runs under a watchdog (alarm): a non-terminating call is reported as a failing input.
#include "common.hpp"
#include <set>
#include "C13_entries.hpp"
#include "C13_entries2.hpp"
#include "C13_ctor.hpp"
#include "C13_nn.hpp"
#include "C13_text.hpp"
#include "C13_files.hpp"
#include "C13_sh.hpp"
using namespace GeographicLib; using namespace gv; using namespace c13;

// ---------------------------------------------------------------------------------------------------------------
// watchdog
static int g_watch_s = 60;
static double g_cpu_s = 1.0;
static std::map<std::string, int>& hangs() { static std::map<std::string, int> h; return h; }
static void on_alarm(int) {
  if (in_child()) _exit(77);
  std::printf("#BAD hang :: %s :: call did not terminate within its CPU-time limit (watchdog)\n", current_op().c_str());
  std::fflush(stdout);
  _exit(0);
}
struct Watch { Watch() { arm(g_watch_s); } ~Watch() { disarm(); } };

// ---------------------------------------------------------------------------------------------------------------
// special values
static const std::vector<double>& specials() {
  static const std::vector<double> v = {
    std::nan(""), INFINITY, -INFINITY, 0.0, -0.0, 5e-324, -5e-324, 2.2250738585072014e-308, 1e308, -1e308, 1.7976931348623157e308,
    90, -90, 180, -180, 360, -360, 540, 1e17, -1e17, 9007199254740992.0, 91, -91, 89.99999999999999, 1e-300, 1, -1, 4294967296.0, 2147483648.0, -2147483649.0 };
  return v;
}

static double sentinel(int k) { return frombits(0x7e37e43c8800759cULL + 16 * uint64_t(k)); }

// outputs of the baseline call (all arguments at their valid generic values), per entry and per boolean-sentinel pass
static const std::vector<double>* baseline(const Entry& e, int pass) {
  static std::map<std::string, std::vector<double>> cache[2];
  static std::set<std::string> failed;
  auto it = cache[pass].find(e.name);
  if (it != cache[pass].end()) return &it->second;
  if (failed.count(e.name)) return nullptr;
  std::vector<double> o(e.nout + 1);
  for (int k = 0; k <= e.nout; ++k) o[k] = sentinel(k);
  std::string ex;
  if (!with_timeout(g_cpu_s, [&] { ex = guarded([&] { e.call(e.base.data(), o.data()); }); }) || !ex.empty()) { failed.insert(e.name); return nullptr; }
  return &(cache[pass][e.name] = o);
}

static Reg r_sw("c13_sw", [](const Args& a) {
  register_all();
  auto it = entry_index().find(a[0]);
  if (it == entry_index().end()) { emit("!noentry"); bad("harness", "unknown entry " + a[0]); return; }
  const Entry& e = entries()[it->second];
  int pos = std::atoi(a[1].c_str()); double v = unhx(a[2]);
  std::vector<double> x = e.base;
  if (pos >= int(x.size())) { emit("!nopos"); return; }
  if (pos >= 0) x[pos] = v;
  std::string exc; std::string written(e.nout, '0'), isnan(e.nout, '0'), same(e.nout, '1');
  Watch w;
  bool hung = false;
  for (int pass = 0; pass < 2 && !hung; ++pass) {
    SB() = pass == 1;
    std::vector<double> o(e.nout + 1);
    for (int k = 0; k <= e.nout; ++k) o[k] = sentinel(k);
    std::string ex;
    if (!with_timeout(g_cpu_s, [&] { ex = guarded([&] { e.call(x.data(), o.data()); }); })) { hung = true; break; }
    if (pass == 0) exc = ex;
    else if (ex != exc) bad("nondeterministic", "two identical calls: '" + exc + "' then '" + ex + "'");
    // the outputs of the baseline call of the same pass (computed once per entry): an output that does not depend on the
    // swept argument must come back with exactly the baseline's value
    const std::vector<double>* ob = baseline(e, pass);
    for (int k = 0; k < e.nout; ++k) {
      if (bits(o[k]) != bits(sentinel(k))) written[k] = '1';
      if (std::isnan(o[k])) isnan[k] = '1';
      if (!ob || bits(o[k]) != bits((*ob)[k])) same[k] = '0';
    }
    if (bits(o[e.nout]) != bits(sentinel(e.nout))) bad("harness", "entry wrote past its declared outputs");
  }
  if (hung) {
    emit("!hang " + std::to_string(e.nout) + " w" + written + " n" + isnan + " s" + same);
    char b[64]; std::snprintf(b, sizeof b, "%g", g_cpu_s);
    bad("hang", a[0] + " did not return within " + b + " s of CPU time (argument " + a[1] + " = " + d17(v) + ")" + (!(std::fabs(v) < 1e100) ? " [extreme]" : ""));
    ++hangs()[a[0]];
    return;
  }
  emit((exc.empty() ? std::string("-") : exc) + " " + std::to_string(e.nout) + " w" + written + " n" + isnan + " s" + same);
  // property-level oracles that need no model: foreign exception type, outputs touched by a call that threw
  if (!exc.empty() && exc != "!E" && exc != "!A") bad("foreign-exception", a[0] + " threw " + exc);
  if (!exc.empty() && written.find('1') != std::string::npos)
    bad("output-modified-on-throw", a[0] + " threw but modified output arguments: written=" + written);
});

// ---------------------------------------------------------------------------------------------------------------
// bookkeeping ops: the verdicts are computed in Lean (Corr/C13.lean)
//   c13_selfcheck              labels and numeric codes of all keys of the Lean tables agree (executed natively by the driver)
//   c13_entry name nin nout    one line per entry of the sweep table: must be a row of the Lean dependence table with these arities
//   c13_entrycount n           ... and there are no further rows
static Reg r_selfcheck("c13_selfcheck", [](const Args&) { emit("-"); });
static Reg r_entry("c13_entry", [](const Args&) { emit("-"); });
static Reg r_entrycount("c13_entrycount", [](const Args&) { emit("-"); });

// ---------------------------------------------------------------------------------------------------------------
// (entry, argument position) pairs with an *open* finding that aborts under UBSan: run in a forked child so that the
// report becomes a #BAD line (matched by known_findings.json) and the rest of the sweep still runs
static bool isolate(const std::string& entry, int pos, double v) {
  bool extreme = !(std::fabs(v) < 1e9);
  // F24: MagneticModel::FieldGeocentric / Circle convert floor((t - t0)/dt0) to int without a range check
  if (pos == 0 && extreme && (entry == "MagneticModel.Field" || entry == "MagneticModel.FieldGeocentric" || entry == "MagneticModel.Circle")) return true;
  // F25: Geohash/GARS/Georef::Forward test isnan(lon) before AngNormalize(lon) turns an infinite longitude into NaN
  if (pos == 1 && std::isinf(v) && (entry == "Geohash.Forward" || entry == "GARS.Forward" || entry == "Georef.Forward")) return true;
  // F26: OSGB::CheckCoords formats int(floor(x/1000)) into its error message
  if (!(std::fabs(v) < 2e12) && !std::isnan(v) && (entry == "OSGB.GridReference" || entry == "OSGB.GridReference11")) return true;
  // F28: DMS::Encode(ang, d, m[, s]) truncates with int(ang)
  if (!(std::fabs(v) < 2147483648.0) && entry == "DMS.EncodeDMS") return true;
  // F33: MGRS::CheckCoords lets a tiny negative northing through as row 0 (y / tile_ underflows to -0); Forward then indexes digits_[-1]
  if (pos == 1 && v < 0 && v > -1e-318 && (entry == "MGRS.Forward" || entry == "MGRS.ForwardLat")) return true;
  // F78 (repaired by fb4697b: Intersect::All now throws GeographicErr for such a maxdist): still run in a child, so that a regression
  // of the int conversion of ceil((maxdist + delta) / d3) is a failing input of this op and the sweep goes on
  if (pos == 6 && !(std::fabs(v) < 5e11) && !std::isnan(v) && entry.compare(0, 13, "Intersect.All") == 0) return true;
  return false;
}
static void sweep_one(const std::string& entry, int pos, double v) {
  // each hang costs g_cpu_s of CPU: after two hangs of one entry point its remaining huge / infinite values are skipped
  // (counted in the evidence as skipped_after_two_hangs; nothing is skipped once the hanging loops are repaired)
  if (hangs()[entry] >= 2 && !std::isnan(v) && !(std::fabs(v) < 1e100)) { stat("skipped_after_two_hangs"); return; }
  // Intersect::All with a legal but large maxdist is a legitimate computation whose cost grows with maxdist^2 (it lists every
  // intersection in range): not a hang, and not swept
  if (pos == 6 && std::fabs(v) >= 2e8 && std::fabs(v) < 5e11 && entry.compare(0, 13, "Intersect.All") == 0) { stat("skipped_quadratic_cost"); return; }
  Args a{entry, std::to_string(pos), hx(v)};
  if (isolate(entry, pos, v)) { stratum("sweep-isolated-known-ub"); run_isolated("c13_sw", a); } else runx("c13_sw", a);
}

void gv::generate(const std::string& tier, uint64_t seed) {
  register_all();
  bool thorough = tier == "thorough";
  // development aid: list the sweep table (name, number of inputs, number of outputs) and stop
  if (std::getenv("C13_LIST")) { for (const Entry& e : entries()) std::printf("#ENTRY %s %d %d\n", e.name.c_str(), int(e.base.size()), e.nout); return; }
  g_watch_s = thorough ? 120 : 60;
  Rng r(seed);
  struct timespec ts0; clock_gettime(CLOCK_MONOTONIC, &ts0); long t0 = long(ts0.tv_sec * 1000 + ts0.tv_nsec / 1000000);
  // 1. sweep: every entry x every argument position x every special value (the table is finite: all of it, in both
  //    tiers; the k-th process of a run takes the k-th share, random off-grid values are added on top)
  int share = int(seed % 100), nshare = thorough ? 16 : 4;
  if (share % nshare == 0) {
    stratum("table-crosscheck");
    run("c13_selfcheck", {});
    for (const Entry& e : entries()) run("c13_entry", {e.name, std::to_string(e.base.size()), std::to_string(e.nout)});
    run("c13_entrycount", {std::to_string(entries().size())});
  }
  int idx = 0;
  for (const Entry& e : entries()) {
    if ((idx++ % nshare) != (share % nshare)) continue;
    struct timespec tsa; clock_gettime(CLOCK_MONOTONIC, &tsa);
    struct Rep { std::string n; struct timespec a; ~Rep() { if (!std::getenv("C13_TIMING")) return; struct timespec b; clock_gettime(CLOCK_MONOTONIC, &b); std::fprintf(stderr, "TIMING %s %ld ms\n", n.c_str(), long((b.tv_sec - a.tv_sec) * 1000 + (b.tv_nsec - a.tv_nsec) / 1000000)); } } rep{e.name, tsa};
    stratum("sweep-baseline");
    runx("c13_sw", {e.name, "-1", hx(0)});
    for (int pos = 0; pos < int(e.base.size()); ++pos) {
      for (double v : specials()) { stratum(std::isnan(v) ? "sweep-nan" : std::isinf(v) ? "sweep-inf" : "sweep-special"); sweep_one(e.name, pos, v); }
      int extra = thorough ? 12 : 3;
      for (int k = 0; k < extra; ++k) { stratum("sweep-random"); sweep_one(e.name, pos, r.coin() ? nasty_angle(r) : std::ldexp(r.range(-2, 2), r.irange(-1074, 1023))); }
    }
  }
  sample("sw GeodS.Direct 1 nan: lat2/azi2/m12/M12/M21/S12 stay finite, lon2 is NaN");
  auto now = [] { struct timespec ts; clock_gettime(CLOCK_MONOTONIC, &ts); return long(ts.tv_sec * 1000 + ts.tv_nsec / 1000000); };
  long t1 = now(); stat("ms_sweep", t1 - t0);
  gen_ctor(r, thorough); gen_sh(r, thorough); long t2 = now(); stat("ms_ctor", t2 - t1);
  gen_nn(r, thorough); long t3 = now(); stat("ms_nn", t3 - t2);
  gen_text(r, thorough); long t4 = now(); stat("ms_text", t4 - t3);
  gen_files(r, thorough); stat("ms_files", now() - t4);
}

int main(int c, char** v) {
  std::signal(SIGALRM, on_alarm);
  std::signal(SIGPROF, on_alarm);
  return gv::main_(c, v);
}
