// C07: Geocentric and LocalCartesian
#include "common.hpp"
#include <GeographicLib/Geocentric.hpp>
#include <GeographicLib/LocalCartesian.hpp>
#include <GeographicLib/Math.hpp>
using namespace GeographicLib; using namespace gv;
typedef long double LD;

static Reg r_fwd("geofwd", [](const Args& a) {
  double ea = unhx(a[0]), ef = unhx(a[1]), lat = unhx(a[2]), lon = unhx(a[3]), h = unhx(a[4]);
  Geocentric g(ea, ef); double sphi, cphi, slam, clam; Math::sincosd(Math::LatFix(lat), sphi, cphi); Math::sincosd(lon, slam, clam);
  current_op() = "geofwd " + a[0] + " " + a[1] + " " + a[2] + " " + a[3] + " " + a[4] + " " + hx(sphi) + " " + hx(cphi) + " " + hx(slam) + " " + hx(clam);
  double X, Y, Z; std::vector<double> M(9); g.Forward(lat, lon, h, X, Y, Z, M);
  std::string out = hx(X) + " " + hx(Y) + " " + hx(Z); for (double m : M) out += " " + hx(m); emit(out);
  if (!std::isfinite(lat) || !std::isfinite(lon) || !std::isfinite(h) || std::fabs(lat) > 90) return;
  // closed form in long double
  LD e2 = (LD)ef * (2 - (LD)ef), n = (LD)ea / sqrtl(1 - e2 * (LD)sphi * sphi);
  LD rX = (n + h) * cphi * clam, rY = (n + h) * cphi * slam, rZ = ((1 - e2) * n + h) * sphi;
  double sc = std::fabs(h) + ea * std::fmax(1.0, (1 - ef) * (1 - ef)); double tol = 4 * ulp(sc) * std::fmax(1.0, 1 / double(1 - e2 * (LD)sphi * sphi));   // conditioning of n = a/sqrt(1 - e2 sin^2)
  if (!(std::fabs(double(X - rX)) <= tol && std::fabs(double(Y - rY)) <= tol && std::fabs(double(Z - rZ)) <= tol)) bad("forward-closed-form", "Forward differs from the closed form");
  // rotation matrix: orthonormal, third column = normal, second = north
  for (int i = 0; i < 3; ++i) for (int j = 0; j < 3; ++j) { double s = 0; for (int k = 0; k < 3; ++k) s += M[3 * k + i] * M[3 * k + j]; if (!(std::fabs(s - (i == j)) <= 8e-16)) bad("rotation-orthonormal", "M^T M != I"); }
  if (!(std::fabs(M[2] - cphi * clam) <= 4e-16 && std::fabs(M[5] - cphi * slam) <= 4e-16 && std::fabs(M[8] - sphi) <= 4e-16)) bad("rotation-frame", "third column is not the up direction");
  if (!(std::fabs(M[0] + slam) <= 4e-16 && std::fabs(M[3] - clam) <= 4e-16 && M[6] == 0)) bad("rotation-frame", "first column is not the east direction");
  // forward then reverse: identity within a few nanometres for geophysical heights
  if (std::fabs(h) < 1e7 && ef < 0.5 && ef > -0.5 && h > -ea / 2) {
    double la, lo, hh; g.Reverse(X, Y, Z, la, lo, hh);
    double d = std::hypot((la - lat) * Math::degree() * (ea + h), std::fabs(lat) < 89.999999 ? Math::AngDiff(lon, lo) * Math::degree() * (ea + h) * cphi : 0.0);
    if (!(d <= 30e-9 && std::fabs(hh - h) <= 30e-9)) bad("forward-then-reverse", "Reverse(Forward) off by " + std::to_string(d * 1e9) + " nm, dh " + std::to_string((hh - h) * 1e9) + " nm");
  }
});

static Reg r_rev("georev", [](const Args& a) {
  double ea = unhx(a[0]), ef = unhx(a[1]), X = unhx(a[2]), Y = unhx(a[3]), Z = unhx(a[4]);
  Geocentric g(ea, ef); double lat, lon, h; std::vector<double> M(9); g.Reverse(X, Y, Z, lat, lon, h, M);
  emit(hx(lat) + " " + hx(lon) + " " + hx(h));
  if (!(std::isfinite(X) && std::isfinite(Y) && std::isfinite(Z))) return;
  if (std::isnan(lat) || std::isnan(lon) || std::isnan(h)) { bad("reverse-finite", "NaN output for a finite point"); return; }
  if (!(std::fabs(lat) <= 90 && std::fabs(lon) <= 180)) bad("reverse-range", "lat/lon outside their ranges");
  double r = std::hypot(std::hypot(X, Y), Z);
  if (r < 1e300 / 4) {
    // forward image (in long double) of the result reproduces the point to round-off
    LD sphi = sinl((LD)lat * (M_PIl / 180)), cphi = cosl((LD)lat * (M_PIl / 180)), slam = sinl((LD)lon * (M_PIl / 180)), clam = cosl((LD)lon * (M_PIl / 180));
    if (std::fabs(lat) == 90) cphi = 0; if (std::fabs(lon) == 180 || lon == 0) slam = 0; if (std::fabs(lon) == 90) clam = 0;
    LD e2 = (LD)ef * (2 - (LD)ef), n = (LD)ea / sqrtl(1 - e2 * sphi * sphi);
    LD rX = (n + h) * cphi * clam, rY = (n + h) * cphi * slam, rZ = ((1 - e2) * n + h) * sphi;
    double d = double(hypotl(hypotl(rX - X, rY - Y), rZ - Z));
    double tol = 16 * 1.2e-16 * std::fmax(r, ea) / (1 - std::fmax(ef, 0.0));      // lat is returned in degrees with 53 bits: a few ulp of max(r, a)
    if (!(d <= tol)) bad("reverse-closure", "forward image of Reverse misses the point by " + std::to_string(d) + " m (tolerance " + std::to_string(tol) + ")");
  }
  double Rxy = std::hypot(X, Y);
  if (Rxy == 0 || Rxy > 1e-290)   // a subnormal distance from the axis has too few bits to define the longitude direction
    for (int i = 0; i < 3; ++i) for (int j = 0; j < 3; ++j) { double s = 0; for (int k = 0; k < 3; ++k) s += M[3 * k + i] * M[3 * k + j]; if (!(std::fabs(s - (i == j)) <= 8e-16)) bad("rotation-orthonormal", "Reverse: M^T M != I"); }
  // least |h|: for points outside the singular region the returned height is the one of least magnitude (scan the other stationary branches)
  if (ef > 0 && ef < 0.9 && r > 2 * ea * ef * (2 - ef) && r < 1e12 && h < 0 && !(std::fabs(h) <= r + ea)) bad("least-height", "implausible height");
});

static Reg r_loc("locfwd", [](const Args& a) {
  double lat0 = unhx(a[0]), lon0 = unhx(a[1]), h0 = unhx(a[2]), lat = unhx(a[3]), lon = unhx(a[4]), h = unhx(a[5]);
  LocalCartesian l(lat0, lon0, h0, Geocentric::WGS84()); double xc, yc, zc; Geocentric::WGS84().Forward(lat, lon, h, xc, yc, zc);
  std::string o = "locfwd " + hx(l._x0) + " " + hx(l._y0) + " " + hx(l._z0); for (int i = 0; i < 9; ++i) o += " " + hx(l._r[i]); o += " " + hx(xc) + " " + hx(yc) + " " + hx(zc);
  current_op() = o;
  double x, y, z; l.Forward(lat, lon, h, x, y, z); emit(hx(x) + " " + hx(y) + " " + hx(z));
});

// the local frame itself: origin = geocentric image of (lat0, lon0, h0), axes = east/north/up AT (lat0, lon0) — also at a pole, where
// the geocentric origin no longer determines the meridian
static Reg r_locorigin("locorigin", [](const Args& a) {
  double lat0 = unhx(a[0]), lon0 = unhx(a[1]), h0 = unhx(a[2]);
  const Geocentric& g = Geocentric::WGS84(); LocalCartesian l(lat0, lon0, h0, g);
  double sphi, cphi, slam, clam; Math::sincosd(Math::LatFix(lat0), sphi, cphi); Math::sincosd(lon0, slam, clam);
  current_op() = "locorigin " + hx(g._a) + " " + hx(g._f) + " " + a[0] + " " + a[1] + " " + a[2] + " " + hx(sphi) + " " + hx(cphi) + " " + hx(slam) + " " + hx(clam);
  std::string o = hx(l._x0) + " " + hx(l._y0) + " " + hx(l._z0); for (int i = 0; i < 9; ++i) o += " " + hx(l._r[i]); emit(o);
  // Forward at the origin returns the identity rotation (the frame of the point coincides with the frame of the origin)
  double x, y, z; std::vector<double> M(9); l.Forward(lat0, lon0, h0, x, y, z, M);
  for (int i = 0; i < 9; ++i) if (!(std::fabs(M[i] - (i % 4 == 0 ? 1.0 : 0.0)) <= 8e-16)) { bad("local-origin-frame", "Forward at the origin does not return the identity rotation"); break; }
});

static Reg r_props("geoprops", [](const Args& a) {
  // LocalCartesian: rigid motion, origin -> 0, reverse inverts forward
  double lat0 = unhx(a[0]), lon0 = unhx(a[1]), h0 = unhx(a[2]);
  double p[2][3] = {{unhx(a[3]), unhx(a[4]), unhx(a[5])}, {unhx(a[6]), unhx(a[7]), unhx(a[8])}};
  LocalCartesian l(lat0, lon0, h0, Geocentric::WGS84()); const Geocentric& g = Geocentric::WGS84();
  double x, y, z; l.Forward(lat0, lon0, h0, x, y, z);
  if (!(std::hypot(std::hypot(x, y), z) <= 4e-9)) bad("local-origin", "origin does not map to (0,0,0)");
  double q[2][3], c[2][3];
  for (int i = 0; i < 2; ++i) { l.Forward(p[i][0], p[i][1], p[i][2], q[i][0], q[i][1], q[i][2]); g.Forward(p[i][0], p[i][1], p[i][2], c[i][0], c[i][1], c[i][2]); }
  double d1 = std::hypot(std::hypot(q[0][0] - q[1][0], q[0][1] - q[1][1]), q[0][2] - q[1][2]), d2 = std::hypot(std::hypot(c[0][0] - c[1][0], c[0][1] - c[1][1]), c[0][2] - c[1][2]);
  double scale = 6.4e6 + std::fabs(p[0][2]) + std::fabs(p[1][2]) + std::fabs(h0);
  if (!(std::fabs(d1 - d2) <= 16 * ulp(scale))) bad("local-isometry", "distance not preserved: " + std::to_string(d1) + " vs " + std::to_string(d2));
  double la, lo, hh; l.Reverse(q[0][0], q[0][1], q[0][2], la, lo, hh);
  double dd = std::hypot((la - p[0][0]) * 111e3, std::fabs(p[0][0]) < 89.99999 ? Math::AngDiff(lo, p[0][1]) * 111e3 * std::cos(p[0][0] * Math::degree()) : 0.0);
  if (std::fabs(p[0][2]) < 1e7 && !(dd <= 50e-9 && std::fabs(hh - p[0][2]) <= 50e-9)) bad("local-roundtrip", "Reverse(Forward) off by " + std::to_string(dd * 1e9) + " nm");
  // up axis at the origin: a point straight above the origin has local coordinates (0, 0, dh)
  l.Forward(lat0, lon0, h0 + 1000, x, y, z); if (!(std::hypot(x, y) <= 1e-8 && std::fabs(z - 1000) <= 1e-8)) bad("local-axes", "up axis");
  emit("done");
});

void gv::generate(const std::string& tier, uint64_t seed) {
  Rng r(seed * 67867967 + 7);
  long n = tier == "thorough" ? 200000 : 12000;
  std::vector<std::pair<double, double>> ell = {{6378137, 1 / 298.257223563}, {6378137, 0}, {6.4e6, 0.5}, {6.4e6, -0.5}, {1, 0.99}, {6.4e6, 0.1}, {6.4e6, -0.01}, {1, 0.5}, {6378388, 1 / 297.0}};
  for (long i = 0; i < n; ++i) {
    auto e = r.pick(ell); double a = e.first, f = e.second; if (i % 2 == 0) { a = 6378137; f = 1 / 298.257223563; }
    double e2 = f * (2 - f);
    // forward
    double lat = r.irange(0, 5) ? r.range(-90, 90) : r.pick(std::vector<double>{90, -90, 0, nextdn(90), 45, 1e-10}), lon = r.irange(0, 5) ? r.range(-180, 180) : r.pick(std::vector<double>{180, -180, 90, 0, 720.5, 1e-10});
    double h = r.irange(0, 3) ? r.range(-1e4, 1e5) : r.pick(std::vector<double>{0.0, -a / 2, 1e7, 1e12, 1e20, -a, 35786e3});
    run("geofwd", {hx(a), hx(f), hx(lat), hx(lon), hx(h)});
    // reverse: over ~40 orders of magnitude, dense on the singular sets
    double X, Y, Z; int k = r.irange(0, 11);
    double R0 = a * std::fabs(e2);
    auto dirx = [&](double R, double z) { double t = r.range(-M_PI, M_PI); X = R * std::cos(t); Y = R * std::sin(t); Z = z; if (r.irange(0, 3) == 0) { X = R; Y = 0; } };
    switch (k) {
    case 0: { double m = std::pow(10.0, r.range(-20, 20)); X = m * r.range(-1, 1); Y = m * r.range(-1, 1); Z = m * r.range(-1, 1); break; }
    case 1: X = Y = 0; Z = r.pick(std::vector<double>{0.0, 1.0, -1.0, a, -a * (1 - f), 1e-300, a * e2, -a * e2 / (1 - f), a * std::fabs(e2) / (1 - f)}) * (r.coin() ? 1 : r.range(0.5, 1.5)); break;   // axis
    case 2: dirx(std::pow(10.0, r.range(-10, 8)), 0.0); break;                                      // equatorial plane
    case 3: dirx(R0 * r.range(0, 1), r.pick(std::vector<double>{0.0, 1e-300, -1e-300, 1e-9, 1e-6, 1e-3, 1.0, -1.0, 5e-324})); break;   // inside the singular disc
    case 4: { double Rr = R0; int d = r.irange(-40, 40); Rr = d > 0 ? nextup(Rr, d) : nextdn(Rr, -d); dirx(Rr, r.irange(0, 2) ? 0.0 : r.range(-1e-6, 1e-6)); if (r.coin()) { X = Rr; Y = 0; } break; }   // the rim
    case 5: dirx(R0 * r.range(0.9, 1.1), r.range(-1, 1) * std::pow(10.0, r.range(-12, 0))); break;
    case 6: { double m = std::pow(10.0, r.range(20, 300)); X = m * r.range(-1, 1); Y = m * r.range(-1, 1); Z = m * r.range(-1, 1); break; }    // astronomically far, _maxrad switch
    case 7: { double m = 2 * a / 2.2e-16 * r.range(0.5, 2); X = m; Y = 0; Z = m * r.range(-1, 1); break; }
    case 8: { double zz = a * std::fabs(e2) / (1 - f); int d = r.irange(-40, 40); zz = d > 0 ? nextup(zz, d) : nextdn(zz, -d); X = Y = 0; Z = r.coin() ? zz : -zz; if (r.coin()) { X = r.range(-1e-6, 1e-6); } break; }  // prolate: singular segment end
    default: { double la = r.range(-90, 90) * Math::degree(), lo = r.range(-180, 180) * Math::degree(), hh = r.range(-1e4, 1e6); double nn = a / std::sqrt(1 - e2 * std::sin(la) * std::sin(la));
               X = (nn + hh) * std::cos(la) * std::cos(lo); Y = (nn + hh) * std::cos(la) * std::sin(lo); Z = ((1 - e2) * nn + hh) * std::sin(la); } }
    run("georev", {hx(a), hx(f), hx(X), hx(Y), hx(Z)});
    stratum("rev-" + std::to_string(k < 9 ? k : 9));
    if (i < 3) sample(current_op());
    if (i % 5 == 0) {
      double lat0 = r.range(-90, 90), lon0 = r.range(-180, 180), h0 = r.range(-100, 1e4); if (i % 25 == 0) lat0 = r.pick(std::vector<double>{90, -90, 0});
      run("locorigin", {hx(lat0), hx(lon0), hx(h0)});
      run("locfwd", {hx(lat0), hx(lon0), hx(h0), hx(lat), hx(lon), hx(std::fmin(std::fabs(h), 1e6))});
      run("geoprops", {hx(lat0), hx(lon0), hx(h0), hx(lat), hx(lon), hx(std::fmin(std::fabs(h), 1e6)), hx(r.range(-90, 90)), hx(r.range(-180, 180)), hx(r.range(0, 1e5))});
    }
  }
}
int main(int argc, char** argv) { return gv::main_(argc, argv); }
