// C07: Geocentric and LocalCartesian (all four M-returning overloads, Rotate/Unrotate, Reset, accessors, CartConvert)
#include "common.hpp"
#include <iostream>
#include <string>
#include <sstream>
#include <fstream>
#include <GeographicLib/Geocentric.hpp>
#include <GeographicLib/LocalCartesian.hpp>
#include <GeographicLib/Math.hpp>
#include <GeographicLib/DMS.hpp>
#include <GeographicLib/Utility.hpp>

// tools/CartConvert.cpp of the *current* tree is compiled into this harness (same library build, same sanitizers);
// its `main` and `usage` live in a namespace.  All headers it includes are included above.
namespace tool_cartconvert {
#include "../tools/CartConvert.cpp"
}

using namespace GeographicLib; using namespace gv;
typedef long double LD;

static const double EPS = std::numeric_limits<double>::epsilon();

static std::string hx9(const std::vector<double>& M) { std::string o; for (double m : M) o += " " + hx(m); return o; }
static double semimax(double a, double f) { return a * std::fmax(1.0, 1 - f); }

// the east/north/up frame at (lat, lon) from the library's own sincosd (row-major, as Geocentric::Rotation lays it out)
static void enu(double lat, double lon, LD E[9]) {
  double sphi, cphi, slam, clam; Math::sincosd(Math::LatFix(lat), sphi, cphi); Math::sincosd(lon, slam, clam);
  E[0] = -(LD)slam; E[1] = -(LD)clam * sphi; E[2] = (LD)clam * cphi;
  E[3] = clam;      E[4] = -(LD)slam * sphi; E[5] = (LD)slam * cphi;
  E[6] = 0;         E[7] = cphi;             E[8] = sphi;
}
static bool orthonormal(const std::vector<double>& M, double tol) {
  for (int i = 0; i < 3; ++i) for (int j = 0; j < 3; ++j) { LD s = 0; for (int k = 0; k < 3; ++k) s += (LD)M[3 * k + i] * M[3 * k + j]; if (!(fabsl(s - (i == j)) <= tol)) return false; }
  LD det = (LD)M[0] * ((LD)M[4] * M[8] - (LD)M[5] * M[7]) - (LD)M[1] * ((LD)M[3] * M[8] - (LD)M[5] * M[6]) + (LD)M[2] * ((LD)M[3] * M[7] - (LD)M[4] * M[6]);
  return fabsl(det - 1) <= 2 * tol;
}
static bool same3(double a, double b, double c, double x, double y, double z) {
  auto s = [](double u, double v) { return bits(u) == bits(v) || (std::isnan(u) && std::isnan(v)); };
  return s(a, x) && s(b, y) && s(c, z);
}
// closed form in long double from unit pairs
static void fwdld(double a, double f, LD sphi, LD cphi, LD slam, LD clam, LD h, LD& X, LD& Y, LD& Z) {
  LD e2 = (LD)f * (2 - (LD)f), n = (LD)a / sqrtl(1 - e2 * sphi * sphi);
  X = (n + h) * cphi * clam; Y = (n + h) * cphi * slam; Z = ((1 - e2) * n + h) * sphi;
}
// unit pairs of a returned (lat, lon) in long double, exact at the cardinal points
static void sincosld(double lat, double lon, LD& sphi, LD& cphi, LD& slam, LD& clam) {
  sphi = sinl((LD)lat * (M_PIl / 180)); cphi = cosl((LD)lat * (M_PIl / 180)); slam = sinl((LD)lon * (M_PIl / 180)); clam = cosl((LD)lon * (M_PIl / 180));
  if (std::fabs(lat) == 90) cphi = 0;
  if (std::fabs(lon) == 180 || lon == 0) slam = 0;
  if (std::fabs(lon) == 90) clam = 0;
}

static Reg r_fwd("geofwd", [](const Args& a) {
  double ea = unhx(a[0]), ef = unhx(a[1]), lat = unhx(a[2]), lon = unhx(a[3]), h = unhx(a[4]);
  Geocentric g(ea, ef); double sphi, cphi, slam, clam; Math::sincosd(Math::LatFix(lat), sphi, cphi); Math::sincosd(lon, slam, clam);
  current_op() = "geofwd " + a[0] + " " + a[1] + " " + a[2] + " " + a[3] + " " + a[4] + " " + hx(sphi) + " " + hx(cphi) + " " + hx(slam) + " " + hx(clam);
  double X, Y, Z; std::vector<double> M(9); g.Forward(lat, lon, h, X, Y, Z, M);
  emit(hx(X) + " " + hx(Y) + " " + hx(Z) + hx9(M));
  // the three overload forms agree bit for bit; a vector of the wrong size is left alone
  { double X1, Y1, Z1; g.Forward(lat, lon, h, X1, Y1, Z1); std::vector<double> W(4, 7.0); double X2, Y2, Z2; g.Forward(lat, lon, h, X2, Y2, Z2, W);
    if (!same3(X, Y, Z, X1, Y1, Z1) || !same3(X, Y, Z, X2, Y2, Z2) || W != std::vector<double>(4, 7.0)) bad("overload-consistency", "Forward with / without M disagree, or a wrong-size vector was written"); }
  if (!std::isfinite(lat) || !std::isfinite(lon) || !std::isfinite(h) || std::fabs(lat) > 90) return;
  // closed form in long double
  LD e2 = (LD)ef * (2 - (LD)ef); LD rX, rY, rZ; fwdld(ea, ef, sphi, cphi, slam, clam, h, rX, rY, rZ);
  double sc = std::fabs(h) + ea * std::fmax(1.0, (1 - ef) * (1 - ef)); double tol = 4 * ulp(sc) * std::fmax(1.0, 1 / double(1 - e2 * (LD)sphi * sphi));   // conditioning of n = a/sqrt(1 - e2 sin^2)
  if (!(std::fabs(double(X - rX)) <= tol && std::fabs(double(Y - rY)) <= tol && std::fabs(double(Z - rZ)) <= tol)) bad("forward-closed-form", "Forward differs from the closed form");
  // rotation matrix: orthonormal, third column = normal, second = north
  if (!orthonormal(M, 8e-16)) bad("rotation-orthonormal", "M^T M != I or det != 1");
  if (!(std::fabs(M[2] - cphi * clam) <= 4e-16 && std::fabs(M[5] - cphi * slam) <= 4e-16 && std::fabs(M[8] - sphi) <= 4e-16)) bad("rotation-frame", "third column is not the up direction");
  if (!(std::fabs(M[0] + slam) <= 4e-16 && std::fabs(M[3] - clam) <= 4e-16 && M[6] == 0)) bad("rotation-frame", "first column is not the east direction");
  if (!(std::fabs(M[1] + clam * sphi) <= 4e-16 && std::fabs(M[4] + slam * sphi) <= 4e-16 && std::fabs(M[7] - cphi) <= 4e-16)) bad("rotation-frame", "second column is not the north direction");
  // forward then reverse: identity within a few nanometres for geophysical heights
  if (std::fabs(h) < 1e7 && ef < 0.5 && ef > -0.5 && h > -ea / 2 && ea > 1e5 && ea < 1e8) {
    double la, lo, hh; g.Reverse(X, Y, Z, la, lo, hh);
    double d = std::hypot((la - lat) * Math::degree() * (ea + h), std::fabs(lat) < 89.999999 ? Math::AngDiff(lon, lo) * Math::degree() * (ea + h) * cphi : 0.0);
    if (!(d <= 30e-9 && std::fabs(hh - h) <= 30e-9)) bad("forward-then-reverse", "Reverse(Forward) off by " + std::to_string(d * 1e9) + " nm, dh " + std::to_string((hh - h) * 1e9) + " nm");
  }
});

// distance from (R, Z) to the meridian ellipse, scanned in the parametric latitude (long double); an upper bound of the true minimum
static LD scan_dist(double ea, double ef, LD R, LD Z) {
  LD b = (LD)ea * (1 - (LD)ef), best = INFINITY; int n = 1440; LD bb = 0;
  for (int i = 0; i <= n; ++i) { LD be = -M_PIl / 2 + M_PIl * i / n; for (int s = -1; s <= 1; s += 2) { LD d = hypotl(R - s * ea * cosl(be), Z - b * sinl(be)); if (d < best) { best = d; bb = s > 0 ? be : M_PIl - be; } } }
  // refine around the best node by golden-section-free bisection of the bracket
  LD lo = bb - M_PIl / n, hi = bb + M_PIl / n;
  for (int it = 0; it < 80; ++it) { LD m1 = lo + (hi - lo) / 3, m2 = hi - (hi - lo) / 3; LD d1 = hypotl(R - ea * cosl(m1), Z - b * sinl(m1)), d2 = hypotl(R - ea * cosl(m2), Z - b * sinl(m2)); if (d1 < d2) hi = m2; else lo = m1; }
  LD dm = hypotl(R - ea * cosl((lo + hi) / 2), Z - b * sinl((lo + hi) / 2));
  return dm < best ? dm : best;
}

static Reg r_rev("georev", [](const Args& a) {
  double ea = unhx(a[0]), ef = unhx(a[1]), X = unhx(a[2]), Y = unhx(a[3]), Z = unhx(a[4]);
  Geocentric g(ea, ef); double lat, lon, h; std::vector<double> M(9); g.Reverse(X, Y, Z, lat, lon, h, M);
  emit(hx(lat) + " " + hx(lon) + " " + hx(h) + hx9(M));
  { double l1, o1, h1; g.Reverse(X, Y, Z, l1, o1, h1); std::vector<double> W(4, 7.0); double l2, o2, h2; g.Reverse(X, Y, Z, l2, o2, h2, W);
    if (!same3(lat, lon, h, l1, o1, h1) || !same3(lat, lon, h, l2, o2, h2) || W != std::vector<double>(4, 7.0)) bad("overload-consistency", "Reverse with / without M disagree, or a wrong-size vector was written"); }
  if (!(std::isfinite(X) && std::isfinite(Y) && std::isfinite(Z))) return;
  if (std::isnan(lat) || std::isnan(lon) || std::isnan(h)) { bad("reverse-finite", "NaN output for a finite point"); return; }
  if (!(std::fabs(lat) <= 90 && std::fabs(lon) <= 180)) bad("reverse-range", "lat/lon outside their ranges");
  double r = std::hypot(std::hypot(X, Y), Z); double big = semimax(ea, ef);
  double ctol = 16 * 1.2e-16 * std::fmax(r, big) / (1 - std::fmax(ef, 0.0));      // lat is returned in degrees with 53 bits: a few ulp of max(r, a, b)
  if (r < 1e300 / 4) {
    // forward image (in long double) of the result reproduces the point to round-off
    LD sphi, cphi, slam, clam; sincosld(lat, lon, sphi, cphi, slam, clam);
    LD rX, rY, rZ; fwdld(ea, ef, sphi, cphi, slam, clam, h, rX, rY, rZ);
    double d = double(hypotl(hypotl(rX - X, rY - Y), rZ - Z));
    if (!(d <= ctol)) bad("reverse-closure", "forward image of Reverse misses the point by " + std::to_string(d) + " m (tolerance " + std::to_string(ctol) + ")");
    // least |h| (theorem reverse_height_least): no point of the ellipsoid is closer to P than |h|.  The scan gives an upper
    // bound of the true minimum distance, so |h| may not exceed it (beyond the far-field threshold h = |P| overshoots by at most
    // the larger semi-axis, theorem reverse_farfield_bound)
    if (r < 1e290) {
      double dmin = double(scan_dist(ea, ef, hypotl(X, Y), Z)); bool far = r > 2 * ea / EPS;
      double htol = 4 * ctol + 1e-9 * dmin + (far ? big : 0.0);   // the scan's own resolution: relative 1e-9 (quadratic in the step after refinement)
      if (!(std::fabs(h) <= dmin + htol)) bad("least-height", "|h| = " + std::to_string(std::fabs(h)) + " exceeds the distance to the ellipsoid " + std::to_string(dmin));
      if (!far && !(std::fabs(h) >= dmin - htol - 1e-6 * dmin)) bad("least-height", "|h| = " + std::to_string(std::fabs(h)) + " is smaller than the distance to the ellipsoid " + std::to_string(dmin));
      // sign: h >= 0 outside, h <= 0 inside the ellipsoid
      LD inside = ((LD)X * X + (LD)Y * Y) / ((LD)ea * ea) + (LD)Z * Z / ((LD)ea * ea * (1 - (LD)ef) * (1 - (LD)ef)) - 1;
      if (!far && ((inside > 1e-9 && h < -htol) || (inside < -1e-9 && h > htol))) bad("least-height", "sign of h does not tell inside from outside");
    }
  }
  if (r > 2 * ea / EPS) {
    // far field (theorem reverse_farfield_bound): the direction is the geocentric one and h = |P| — also where hypot(X, Y) overflows
    LD RR = hypotl(X, Y), rr = hypotl(RR, Z); LD sphi, cphi, slam, clam; sincosld(lat, lon, sphi, cphi, slam, clam);
    LD dd = hypotl(hypotl(cphi * clam - X / rr, cphi * slam - Y / rr), sphi - Z / rr);
    if (!(dd <= 1e-15)) bad("far-field", "direction of the result differs from P/|P| by " + std::to_string((double)dd));
    if (!(rr > (LD)std::numeric_limits<double>::max() ? h == INFINITY : fabsl(h - rr) <= 2 * ulp(h))) bad("far-field", "h is not |P|");
  }
  double Rxy = std::hypot(X, Y);
  if (Rxy == 0 || Rxy > 1e-290) {  // a subnormal distance from the axis has too few bits to define the longitude direction
    if (!orthonormal(M, 8e-16)) bad("rotation-orthonormal", "Reverse: M^T M != I or det != 1");
    // M is the east/north/up frame AT THE RETURNED (lat, lon) (theorem reverseM_frame_is_enu) = what Forward returns there
    LD E[9]; enu(lat, lon, E); for (int i = 0; i < 9; ++i) if (!(fabsl(M[i] - E[i]) <= 1e-15)) { bad("reverse-frame", "Reverse's M is not Rotation at the returned (lat, lon): entry " + std::to_string(i) + " " + std::to_string(M[i]) + " vs " + std::to_string((double)E[i])); break; }
  }
});

// Geocentric::Rotate / Unrotate (private statics used by the gravity / magnetic classes): plain products with M and M^T
static Reg r_rot("georot", [](const Args& a) {
  double M[9]; for (int i = 0; i < 9; ++i) M[i] = unhx(a[i]); double x = unhx(a[9]), y = unhx(a[10]), z = unhx(a[11]);
  double X, Y, Z, u, v, w; Geocentric::Rotate(M, x, y, z, X, Y, Z); Geocentric::Unrotate(M, x, y, z, u, v, w);
  emit(hx(X) + " " + hx(Y) + " " + hx(Z) + " " + hx(u) + " " + hx(v) + " " + hx(w));
  std::vector<double> Mv(M, M + 9); if (!orthonormal(Mv, 8e-16)) return;
  double n = std::hypot(std::hypot(x, y), z); if (!std::isfinite(n) || n > 1e150) return;
  double bx, by, bz; Geocentric::Unrotate(M, X, Y, Z, bx, by, bz);
  if (!(std::hypot(std::hypot(bx - x, by - y), bz - z) <= 16 * EPS * n)) bad("rotate-unrotate", "Unrotate(Rotate(v)) != v");
  Geocentric::Rotate(M, u, v, w, bx, by, bz);
  if (!(std::hypot(std::hypot(bx - x, by - y), bz - z) <= 16 * EPS * n)) bad("rotate-unrotate", "Rotate(Unrotate(v)) != v");
  if (!(std::fabs(std::hypot(std::hypot(X, Y), Z) - n) <= 16 * EPS * n)) bad("rotate-unrotate", "Rotate changes the length");
});

// LocalCartesian::IntForward given the object's state: args lat0 lon0 h0 lat lon h; the state (x0 y0 z0 r[9]) and the geocentric image
// of the point are appended to the line for the model
static Reg r_loc("locfwd", [](const Args& a) {
  double lat0 = unhx(a[0]), lon0 = unhx(a[1]), h0 = unhx(a[2]), lat = unhx(a[3]), lon = unhx(a[4]), h = unhx(a[5]);
  LocalCartesian l(lat0, lon0, h0, Geocentric::WGS84()); double xc, yc, zc; Geocentric::WGS84().Forward(lat, lon, h, xc, yc, zc);
  std::string o = "locfwd"; for (int i = 0; i < 6; ++i) o += " " + a[i];
  o += " " + hx(l._x0) + " " + hx(l._y0) + " " + hx(l._z0); for (int i = 0; i < 9; ++i) o += " " + hx(l._r[i]); o += " " + hx(xc) + " " + hx(yc) + " " + hx(zc);
  current_op() = o;
  double x, y, z; l.Forward(lat, lon, h, x, y, z); emit(hx(x) + " " + hx(y) + " " + hx(z));
});

// the local frame itself: origin = geocentric image of (lat0, lon0, h0), axes = east/north/up AT (lat0, lon0) — also at a pole, where
// the geocentric origin no longer determines the meridian.  args: a f lat0 lon0 h0
static Reg r_locorigin("locorigin", [](const Args& a) {
  double ea = unhx(a[0]), ef = unhx(a[1]), lat0 = unhx(a[2]), lon0 = unhx(a[3]), h0 = unhx(a[4]);
  Geocentric g(ea, ef); LocalCartesian l(lat0, lon0, h0, g);
  double sphi, cphi, slam, clam; Math::sincosd(Math::LatFix(lat0), sphi, cphi); Math::sincosd(lon0, slam, clam);
  current_op() = "locorigin " + a[0] + " " + a[1] + " " + a[2] + " " + a[3] + " " + a[4] + " " + hx(sphi) + " " + hx(cphi) + " " + hx(slam) + " " + hx(clam);
  std::string o = hx(l._x0) + " " + hx(l._y0) + " " + hx(l._z0); for (int i = 0; i < 9; ++i) o += " " + hx(l._r[i]); emit(o);
  // Forward at the origin returns the identity rotation (the frame of the point coincides with the frame of the origin)
  double x, y, z; std::vector<double> M(9); l.Forward(lat0, lon0, h0, x, y, z, M);
  for (int i = 0; i < 9; ++i) if (!(std::fabs(M[i] - (i % 4 == 0 ? 1.0 : 0.0)) <= 8e-16)) { bad("local-origin-frame", "Forward at the origin does not return the identity rotation"); break; }
});

// the origin part of an op line shared by the local ops: kernel values of sincosd at the (fixed-up) origin
static std::string origin_kernels(double lat0, double lon0) {
  double s0, c0, sl0, cl0; Math::sincosd(Math::LatFix(lat0), s0, c0); Math::sincosd(Math::AngNormalize(lon0), sl0, cl0);
  return hx(s0) + " " + hx(c0) + " " + hx(sl0) + " " + hx(cl0);
}
// r0^T . ENU(lat, lon) in long double, r0 = ENU(lat0, lon0)
static void compose(double lat0, double lon0, double lat, double lon, LD C[9]) {
  LD R0[9], E[9]; enu(lat0, Math::AngNormalize(lon0), R0); enu(lat, lon, E);
  for (int i = 0; i < 9; ++i) { int row = i / 3, col = i % 3; C[i] = R0[row] * E[col] + R0[row + 3] * E[col + 3] + R0[row + 6] * E[col + 6]; }
}

// LocalCartesian::Forward with the matrix, any ellipsoid
static Reg r_locfwdm("locfwdm", [](const Args& a) {
  double ea = unhx(a[0]), ef = unhx(a[1]), lat0 = unhx(a[2]), lon0 = unhx(a[3]), h0 = unhx(a[4]), lat = unhx(a[5]), lon = unhx(a[6]), h = unhx(a[7]);
  Geocentric g(ea, ef); LocalCartesian l(lat0, lon0, h0, g);
  double sphi, cphi, slam, clam; Math::sincosd(Math::LatFix(lat), sphi, cphi); Math::sincosd(lon, slam, clam);
  std::string o = "locfwdm"; for (int i = 0; i < 8; ++i) o += " " + a[i];
  current_op() = o + " " + origin_kernels(lat0, lon0) + " " + hx(sphi) + " " + hx(cphi) + " " + hx(slam) + " " + hx(clam);
  double x, y, z; std::vector<double> M(9); l.Forward(lat, lon, h, x, y, z, M);
  emit(hx(x) + " " + hx(y) + " " + hx(z) + hx9(M));
  { double x1, y1, z1; l.Forward(lat, lon, h, x1, y1, z1); std::vector<double> W(4, 7.0); double x2, y2, z2; l.Forward(lat, lon, h, x2, y2, z2, W);
    if (!same3(x, y, z, x1, y1, z1) || !same3(x, y, z, x2, y2, z2) || W != std::vector<double>(4, 7.0)) bad("overload-consistency", "LocalCartesian::Forward with / without M disagree, or a wrong-size vector was written"); }
  if (!(std::isfinite(lat0) && std::isfinite(lon0) && std::isfinite(h0) && std::isfinite(lat) && std::isfinite(lon) && std::isfinite(h)) || std::fabs(lat) > 90 || std::fabs(lat0) > 90) return;
  if (!orthonormal(M, 1.2e-15)) bad("local-frame", "LocalCartesian::Forward: M is not a rotation");
  LD C[9]; compose(lat0, lon0, lat, lon, C);
  for (int i = 0; i < 9; ++i) if (!(fabsl(M[i] - C[i]) <= 1.5e-15)) { bad("local-frame", "LocalCartesian::Forward: M is not r0^T . Rotation(lat, lon)"); break; }
  // reverse inverts forward (in local cartesian space, so that it is meaningful at every height and for every ellipsoid)
  double scale = std::fabs(h) + std::fabs(h0) + 2 * semimax(ea, ef);
  if (std::isfinite(x + y + z) && scale < 1e290) {
    double la, lo, hh; l.Reverse(x, y, z, la, lo, hh); double x1, y1, z1; l.Forward(la, lo, hh, x1, y1, z1);
    double d = std::hypot(std::hypot(x1 - x, y1 - y), z1 - z);
    if (!(d <= 64 * EPS * scale / (1 - std::fmax(ef, 0.0)))) bad("local-roundtrip", "Forward(Reverse(Forward(p))) misses Forward(p) by " + std::to_string(d) + " m");
  }
});

// LocalCartesian::Reverse with the matrix, any ellipsoid
static Reg r_locrevm("locrevm", [](const Args& a) {
  double ea = unhx(a[0]), ef = unhx(a[1]), lat0 = unhx(a[2]), lon0 = unhx(a[3]), h0 = unhx(a[4]), x = unhx(a[5]), y = unhx(a[6]), z = unhx(a[7]);
  Geocentric g(ea, ef); LocalCartesian l(lat0, lon0, h0, g);
  std::string o = "locrevm"; for (int i = 0; i < 8; ++i) o += " " + a[i];
  current_op() = o + " " + origin_kernels(lat0, lon0);
  double lat, lon, h; std::vector<double> M(9); l.Reverse(x, y, z, lat, lon, h, M);
  emit(hx(lat) + " " + hx(lon) + " " + hx(h) + hx9(M));
  { double l1, o1, h1; l.Reverse(x, y, z, l1, o1, h1); std::vector<double> W(4, 7.0); double l2, o2, h2; l.Reverse(x, y, z, l2, o2, h2, W);
    if (!same3(lat, lon, h, l1, o1, h1) || !same3(lat, lon, h, l2, o2, h2) || W != std::vector<double>(4, 7.0)) bad("overload-consistency", "LocalCartesian::Reverse with / without M disagree, or a wrong-size vector was written"); }
  if (!(std::isfinite(lat0) && std::isfinite(lon0) && std::isfinite(h0) && std::isfinite(x) && std::isfinite(y) && std::isfinite(z)) || std::fabs(lat0) > 90) return;
  double xc = l._x0 + l._r[0] * x + l._r[1] * y + l._r[2] * z, yc = l._y0 + l._r[3] * x + l._r[4] * y + l._r[5] * z, zc = l._z0 + l._r[6] * x + l._r[7] * y + l._r[8] * z;
  if (!(std::isfinite(xc) && std::isfinite(yc) && std::isfinite(zc))) return;
  if (std::isnan(lat) || std::isnan(lon) || std::isnan(h)) { bad("reverse-finite", "LocalCartesian::Reverse: NaN output for a finite point"); return; }
  if (!(std::fabs(lat) <= 90 && std::fabs(lon) <= 180)) bad("reverse-range", "LocalCartesian::Reverse: lat/lon outside their ranges");
  double r = std::hypot(std::hypot(xc, yc), zc), sc = std::fabs(x) + std::fabs(y) + std::fabs(z) + std::fabs(h0) + semimax(ea, ef);
  if (sc < 1e290) {
    double x1, y1, z1; l.Forward(lat, lon, h, x1, y1, z1); double d = std::hypot(std::hypot(x1 - x, y1 - y), z1 - z);
    if (!(d <= 64 * EPS * std::fmax(sc, r) / (1 - std::fmax(ef, 0.0)))) bad("local-closure", "Forward(Reverse(x, y, z)) misses (x, y, z) by " + std::to_string(d) + " m");
  }
  double Rxy = std::hypot(xc, yc);
  if (Rxy > 1e-6 * sc) {   // the meridian of the point is determined to round-off (the geocentric image is a rounded sum)
    if (!orthonormal(M, 1.2e-15)) bad("local-frame", "LocalCartesian::Reverse: M is not a rotation");
    LD C[9]; compose(lat0, lon0, lat, lon, C);
    for (int i = 0; i < 9; ++i) if (!(fabsl(M[i] - C[i]) <= 2e-15)) { bad("local-frame", "LocalCartesian::Reverse: M is not r0^T . Rotation at the returned (lat, lon)"); break; }
  }
});

// state set by Reset (and by the constructors), accessors; Reset leaves nothing of the previous origin behind
static Reg r_locacc("locacc", [](const Args& a) {
  double ea = unhx(a[0]), ef = unhx(a[1]), lat0 = unhx(a[2]), lon0 = unhx(a[3]), h0 = unhx(a[4]);
  Geocentric g(ea, ef); LocalCartesian l(lat0, lon0, h0, g);
  emit(hx(l.LatitudeOrigin()) + " " + hx(l.LongitudeOrigin()) + " " + hx(l.HeightOrigin()) + " " + hx(l.EquatorialRadius()) + " " + hx(l.Flattening()) + " " + hx(g.EquatorialRadius()) + " " + hx(g.Flattening()));
  auto same_state = [](const LocalCartesian& p, const LocalCartesian& q) {
    auto s = [](double u, double v) { return bits(u) == bits(v) || (std::isnan(u) && std::isnan(v)); };
    bool ok = s(p._lat0, q._lat0) && s(p._lon0, q._lon0) && s(p._h0, q._h0) && s(p._x0, q._x0) && s(p._y0, q._y0) && s(p._z0, q._z0);
    for (int i = 0; i < 9; ++i) ok = ok && s(p._r[i], q._r[i]);
    return ok; };
  LocalCartesian m(-33.25, 151.5, 77.0, g); m.Reset(lat0, lon0, h0);
  if (!same_state(l, m)) bad("reset-history", "Reset on a used object differs from a fresh object with the same origin");
  LocalCartesian d(g), z(0.0, 0.0, 0.0, g);
  if (!same_state(d, z)) bad("reset-history", "default-origin constructor differs from origin (0, 0, 0)");
  LocalCartesian n(lat0, lon0, 0.0, g), n2(lat0, lon0, 0.0, g); n2.Reset(lat0, lon0);   // default h0 = 0
  if (!same_state(n, n2)) bad("reset-history", "Reset(lat0, lon0) differs from h0 = 0");
});

// tools/CartConvert: the printed numbers are Utility::str of the API results for the same ellipsoid / origin / direction
static Reg r_cart("cartconvert", [](const Args& a) {
  int variant = std::atoi(a[0].c_str()); double ea = unhx(a[1]), ef = unhx(a[2]), lat0 = unhx(a[3]), lon0 = unhx(a[4]), h0 = unhx(a[5]); int prec = std::atoi(a[6].c_str());
  double u = unhx(a[7]), v = unhx(a[8]), w = unhx(a[9]);
  bool local = variant & 1, reverse = variant & 2, longfirst = variant & 4;
  auto num = [](double x) { char b[64]; std::snprintf(b, sizeof b, "%.12f", x); return std::string(b); };
  auto num17 = [](double x) { char b[64]; std::snprintf(b, sizeof b, "%.17g", x); return std::string(b); };
  std::vector<std::string> av = {"CartConvert", "-e", num17(ea), num17(ef)};
  if (longfirst) av.push_back("-w");
  if (local) { av.push_back("-l"); av.push_back(num(longfirst ? lon0 : lat0)); av.push_back(num(longfirst ? lat0 : lon0)); av.push_back(num(h0)); }
  if (reverse) av.push_back("-r");
  av.push_back("-p"); av.push_back(std::to_string(prec));
  std::string line = reverse ? num17(u) + " " + num17(v) + " " + num17(w) : num(longfirst ? v : u) + " " + num(longfirst ? u : v) + " " + num(w);
  std::vector<const char*> argv; for (auto& s : av) argv.push_back(s.c_str());
  std::istringstream in(line + "\n"); std::ostringstream out, err;
  std::streambuf *oi = std::cin.rdbuf(in.rdbuf()), *oo = std::cout.rdbuf(out.rdbuf()), *oe = std::cerr.rdbuf(err.rdbuf()); std::cin.clear();
  int rc = -99; std::string ex;
  try { rc = tool_cartconvert::main(int(argv.size()), argv.data()); } catch (const std::exception& e) { ex = typeid(e).name(); } catch (...) { ex = "unknown"; }
  std::cin.rdbuf(oi); std::cout.rdbuf(oo); std::cerr.rdbuf(oe); std::cin.clear(); std::cout.clear(); std::cerr.clear();
  std::string got = out.str(); while (!got.empty() && (got.back() == '\n' || got.back() == '\r')) got.pop_back();
  emit(hs(got));
  if (!ex.empty()) { bad("tool-vs-api", "CartConvert: exception " + ex + " escaped main"); return; }
  // what the API gives for the numbers the tool parsed (the decimal strings above are exact for the generated values)
  std::string want;
  try {
    Geocentric g(Utility::val<double>(num17(ea)), Utility::val<double>(num17(ef)));
    double la0 = 0, lo0 = 0, hh0 = 0; if (local) { la0 = Utility::val<double>(num(lat0)); lo0 = Utility::val<double>(num(lon0)); hh0 = Utility::val<double>(num(h0)); }
    LocalCartesian l(la0, lo0, hh0, g); int p = std::min(10, std::max(0, prec));
    if (reverse) { double x = Utility::val<double>(num17(u)), y = Utility::val<double>(num17(v)), z = Utility::val<double>(num17(w)), la, lo, hh;
      if (local) l.Reverse(x, y, z, la, lo, hh); else g.Reverse(x, y, z, la, lo, hh);
      want = Utility::str(longfirst ? lo : la, p + 5) + " " + Utility::str(longfirst ? la : lo, p + 5) + " " + Utility::str(hh, p);
    } else { double la = Utility::val<double>(num(u)), lo = Utility::val<double>(num(v)), hh = Utility::val<double>(num(w)), x, y, z;
      if (local) l.Forward(la, lo, hh, x, y, z); else g.Forward(la, lo, hh, x, y, z);
      want = Utility::str(x, p) + " " + Utility::str(y, p) + " " + Utility::str(z, p); }
  } catch (const std::exception& e) { want = std::string("ERROR: ") + e.what(); }
  if (got != want || (rc != 0) != (want.compare(0, 5, "ERROR") == 0)) bad("tool-vs-api", "CartConvert printed '" + got + "' (rc " + std::to_string(rc) + "), the API gives '" + want + "'");
});

static Reg r_props("geoprops", [](const Args& a) {
  // LocalCartesian: rigid motion, origin -> 0, reverse inverts forward
  double lat0 = unhx(a[0]), lon0 = unhx(a[1]), h0 = unhx(a[2]);
  double p[2][3] = {{unhx(a[3]), unhx(a[4]), unhx(a[5])}, {unhx(a[6]), unhx(a[7]), unhx(a[8])}};
  double ea = a.size() > 10 ? unhx(a[9]) : Constants::WGS84_a(), ef = a.size() > 10 ? unhx(a[10]) : Constants::WGS84_f();
  Geocentric g(ea, ef); LocalCartesian l(lat0, lon0, h0, g);
  double x, y, z; l.Forward(lat0, lon0, h0, x, y, z);
  double scale = semimax(ea, ef) + std::fabs(p[0][2]) + std::fabs(p[1][2]) + std::fabs(h0);
  if (!(std::hypot(std::hypot(x, y), z) <= 4 * ulp(semimax(ea, ef) + std::fabs(h0)))) bad("local-origin", "origin does not map to (0,0,0)");
  double q[2][3], c[2][3];
  for (int i = 0; i < 2; ++i) { l.Forward(p[i][0], p[i][1], p[i][2], q[i][0], q[i][1], q[i][2]); g.Forward(p[i][0], p[i][1], p[i][2], c[i][0], c[i][1], c[i][2]); }
  double d1 = std::hypot(std::hypot(q[0][0] - q[1][0], q[0][1] - q[1][1]), q[0][2] - q[1][2]), d2 = std::hypot(std::hypot(c[0][0] - c[1][0], c[0][1] - c[1][1]), c[0][2] - c[1][2]);
  if (!(std::fabs(d1 - d2) <= 16 * ulp(scale))) bad("local-isometry", "distance not preserved: " + std::to_string(d1) + " vs " + std::to_string(d2));
  if (ea > 1e5 && ea < 1e8 && std::fabs(ef) < 0.1) {
    double la, lo, hh; l.Reverse(q[0][0], q[0][1], q[0][2], la, lo, hh);
    double dd = std::hypot((la - p[0][0]) * 111e3, std::fabs(p[0][0]) < 89.99999 ? Math::AngDiff(lo, p[0][1]) * 111e3 * std::cos(p[0][0] * Math::degree()) : 0.0);
    if (std::fabs(p[0][2]) < 1e7 && !(dd <= 50e-9 && std::fabs(hh - p[0][2]) <= 50e-9)) bad("local-roundtrip", "Reverse(Forward) off by " + std::to_string(dd * 1e9) + " nm");
  }
  // up axis at the origin: a point straight above the origin has local coordinates (0, 0, dh)
  double dh = 1e-4 * ea; l.Forward(lat0, lon0, h0 + dh, x, y, z); if (!(std::hypot(x, y) <= 16 * ulp(scale + dh) && std::fabs(z - dh) <= 16 * ulp(scale + dh))) bad("local-axes", "up axis");
  emit("done");
});

void gv::generate(const std::string& tier, uint64_t seed) {
  Rng r(seed * 67867967 + 7);
  long n = tier == "thorough" ? 200000 : 12000;
  // (a, f): WGS84-like, sphere, strongly oblate / prolate, radii over 13 orders of magnitude (the far-field threshold 2a/eps scales with a)
  std::vector<std::pair<double, double>> ell = {{6378137, 1 / 298.257223563}, {6378137, 0}, {6.4e6, 0.5}, {6.4e6, -0.5}, {1, 0.99}, {6.4e6, 0.1}, {6.4e6, -0.01}, {1, 0.5}, {6378388, 1 / 297.0},
    {1e-3, 1 / 298.25}, {1e3, 0.2}, {1e10, 1 / 298.257223563}, {1, 0}, {1e10, 0}, {6.4e6, -3}, {1, -1}, {1e10, -0.25}, {7e8, 0.06}};
  std::vector<double> lat0s = {90, -90, 0, 45, -0.0, nextdn(90), 1e-10}, lon0s = {0, 180, -180, 90, -90, 30, 540.5, -0.0, 179.5};
  for (long i = 0; i < n; ++i) {
    auto e = r.pick(ell); double a = e.first, f = e.second; if (i % 2 == 0) { a = 6378137; f = 1 / 298.257223563; }
    double e2 = f * (2 - f), maxrad = 2 * a / EPS;
    // forward
    double lat = r.irange(0, 5) ? r.range(-90, 90) : r.pick(std::vector<double>{90, -90, 0, -0.0, nextdn(90), 45, 1e-10, -1e-300}), lon = r.irange(0, 5) ? r.range(-180, 180) : r.pick(std::vector<double>{180, -180, 90, 0, -0.0, 720.5, 1e-10, -270});
    double h = r.irange(0, 3) ? r.range(-1e4, 1e5) : r.pick(std::vector<double>{0.0, -0.0, -a / 2, 1e7, 1e12, 1e20, -a, 35786e3, -a * (1 - f), 1e-3 * a, -a * 0.999});
    run("geofwd", {hx(a), hx(f), hx(lat), hx(lon), hx(h)});
    stratum(std::string("fwd-") + (std::fabs(lat) == 90 ? "pole" : lat == 0 ? "equator" : "generic"));
    // reverse: over ~40 orders of magnitude, dense on the singular sets
    double X, Y, Z; int k = r.irange(0, 14);
    double R0 = a * std::fabs(e2);
    auto dirx = [&](double R, double z) { double t = r.range(-M_PI, M_PI); X = R * std::cos(t); Y = R * std::sin(t); Z = z; if (r.irange(0, 3) == 0) { X = R; Y = 0; } };
    switch (k) {
    case 0: { double m = std::pow(10.0, r.range(-20, 20)); X = m * r.range(-1, 1); Y = m * r.range(-1, 1); Z = m * r.range(-1, 1); break; }
    case 1: X = Y = 0; Z = r.pick(std::vector<double>{0.0, -0.0, 1.0, -1.0, a, -a * (1 - f), 1e-300, a * e2, -a * e2 / (1 - f), a * std::fabs(e2) / (1 - f)}) * (r.coin() ? 1 : r.range(0.5, 1.5)); if (r.irange(0, 3) == 0) X = -0.0; break;   // axis
    case 2: dirx(a * std::pow(10.0, r.range(-10, 3)), r.coin() ? 0.0 : -0.0); break;                                      // equatorial plane
    case 3: dirx(R0 * r.range(0, 1), r.pick(std::vector<double>{0.0, -0.0, 1e-300, -1e-300, 1e-9, 1e-6, 1e-3, 1.0, -1.0, 5e-324, -5e-324}) * (r.coin() ? 1.0 : a / 6.4e6)); break;   // inside the singular disc
    case 4: { double Rr = R0; int d = r.irange(-40, 40); Rr = d > 0 ? nextup(Rr, d) : nextdn(Rr, -d); dirx(Rr, r.irange(0, 2) ? 0.0 : r.range(-1e-6, 1e-6) * a / 6.4e6); if (r.coin()) { X = Rr; Y = 0; } break; }   // the rim
    case 5: dirx(R0 * r.range(0.9, 1.1), r.range(-1, 1) * a / 6.4e6 * std::pow(10.0, r.range(-12, 0))); break;
    case 6: { double m = std::pow(10.0, r.range(20, 308)); X = m * r.range(-1, 1); Y = m * r.range(-1, 1); Z = m * r.range(-1, 1); if (r.irange(0, 9) == 0) { X = r.coin() ? 1.6e308 : -1.7e308; Y = 1.5e308; } break; }    // astronomically far; hypot(X, Y) overflows
    case 7: { double m = maxrad * r.range(0.5, 2); X = m; Y = 0; Z = m * r.range(-1, 1); break; }                        // around the far-field threshold 2a/eps
    case 8: { double zz = a * std::fabs(e2) / (1 - f); int d = r.irange(-40, 40); zz = d > 0 ? nextup(zz, d) : nextdn(zz, -d); X = Y = 0; Z = r.coin() ? zz : -zz; if (r.coin()) { X = r.range(-1e-6, 1e-6) * a / 6.4e6; } break; }  // prolate: singular segment end
    case 9: { double m = maxrad; int d = r.irange(-6, 6); m = d > 0 ? nextup(m, d) : nextdn(m, -d); double t = r.range(-M_PI / 2, M_PI / 2), u = r.range(-M_PI, M_PI);    // |P| = 2a/eps +- ulps
              X = m * std::cos(t) * std::cos(u); Y = m * std::cos(t) * std::sin(u); Z = m * std::sin(t); if (r.coin()) { X = m; Y = 0; Z = 0; } break; }
    case 10: { double m = std::pow(10.0, r.range(std::log10(a) + 3, std::log10(maxrad))); double t = r.range(-M_PI / 2, M_PI / 2); X = m * std::cos(t); Y = 0; Z = m * std::sin(t); if (r.coin()) { Y = X; } break; }   // from 1000 a up to the threshold (log-uniform): a light-year and beyond for a >> 1 m
    case 11: { double s = r.range(0, 1) * std::fabs(e2) * a / std::sqrt(1 - std::fmin(e2, 0.0)), t = r.range(0, M_PI / 2);   // inside the evolute (trigonometric branch): (R/(a e2))^(2/3) + (Z/(a e2/(1-f)))^(2/3) < 1
               double c3 = std::pow(std::cos(t), 3), s3 = std::pow(std::sin(t), 3), w = r.range(0, 1); dirx(w * std::fabs(e2) * a * c3, (r.coin() ? 1 : -1) * w * std::fabs(e2) * a / (1 - f) * s3); (void)s; break; }
    case 12: { double la = r.range(-90, 90) * Math::degree(), lo = r.range(-180, 180) * Math::degree(), hh = -a * r.range(0, 1) * std::fmin(1.0, 1 - f); double nn = a / std::sqrt(1 - e2 * std::sin(la) * std::sin(la));   // deep inside
               X = (nn + hh) * std::cos(la) * std::cos(lo); Y = (nn + hh) * std::cos(la) * std::sin(lo); Z = ((1 - e2) * nn + hh) * std::sin(la); break; }
    case 13: X = r.pick(std::vector<double>{0.0, -0.0, 5e-324, -5e-324, 1e-310}); Y = r.pick(std::vector<double>{0.0, -0.0, 5e-324, 1e-310}); Z = r.pick(std::vector<double>{0.0, -0.0, 5e-324, -5e-324, a, -a, 1e-310}); break;   // the centre, signed zeros, subnormals
    default: { double la = r.range(-90, 90) * Math::degree(), lo = r.range(-180, 180) * Math::degree(), hh = r.range(-1e4, 1e6) * a / 6.4e6; double nn = a / std::sqrt(1 - e2 * std::sin(la) * std::sin(la));
               X = (nn + hh) * std::cos(la) * std::cos(lo); Y = (nn + hh) * std::cos(la) * std::sin(lo); Z = ((1 - e2) * nn + hh) * std::sin(la); } }
    run("georev", {hx(a), hx(f), hx(X), hx(Y), hx(Z)});
    stratum("rev-" + std::to_string(k < 14 ? k : 14) + (f == 0 ? "-sphere" : f < 0 ? "-prolate" : "-oblate"));
    if (i < 3) sample(current_op());
    if (i % 5 == 0) {
      double lat0 = r.range(-90, 90), lon0 = r.range(-180, 180), h0 = r.range(-100, 1e4); if (i % 25 == 0) lat0 = r.pick(std::vector<double>{90, -90, 0});
      run("locorigin", {hx(Constants::WGS84_a()), hx(Constants::WGS84_f()), hx(lat0), hx(lon0), hx(h0)});
      run("locfwd", {hx(lat0), hx(lon0), hx(h0), hx(lat), hx(lon), hx(std::fmin(std::fabs(h), 1e6))});
      run("geoprops", {hx(lat0), hx(lon0), hx(h0), hx(lat), hx(lon), hx(std::fmin(std::fabs(h), 1e6)), hx(r.range(-90, 90)), hx(r.range(-180, 180)), hx(r.range(0, 1e5))});
      // any ellipsoid, special origins (poles, date line, lon0 outside [-180, 180], signed zeros)
      double la0 = r.irange(0, 2) ? r.range(-90, 90) : r.pick(lat0s), lo0 = r.irange(0, 2) ? r.range(-180, 180) : r.pick(lon0s), hh0 = r.irange(0, 3) ? r.range(-100, 1e4) * a / 6.4e6 : r.pick(std::vector<double>{0.0, -0.0, -a / 2, 10 * a});
      double hp = std::fmin(std::fabs(h), 1e6) * a / 6.4e6;
      run("locorigin", {hx(a), hx(f), hx(la0), hx(lo0), hx(hh0)});
      run("locfwdm", {hx(a), hx(f), hx(la0), hx(lo0), hx(hh0), hx(r.irange(0, 4) ? lat : la0), hx(r.irange(0, 4) ? lon : lo0), hx(r.irange(0, 4) ? hp : hh0)});
      stratum(std::string("locfwdm-") + (std::fabs(la0) == 90 ? "polar-origin" : "generic-origin"));
      double sx = a * std::pow(10.0, r.range(-9, 2)); double lx = sx * r.range(-1, 1), ly = sx * r.range(-1, 1), lz = sx * r.range(-1, 1);
      switch (r.irange(0, 7)) { case 0: lx = ly = lz = 0; break; case 1: lx = ly = 0; break; case 2: lz = 0; break; case 3: lx = -0.0; ly = 0; lz = 1e-3 * a; break; default: break; }
      run("locrevm", {hx(a), hx(f), hx(la0), hx(lo0), hx(hh0), hx(lx), hx(ly), hx(lz)});
      stratum(std::string("locrevm-") + (std::fabs(la0) == 90 ? "polar-origin" : "generic-origin"));
      run("geoprops", {hx(la0), hx(lo0), hx(hh0), hx(lat), hx(lon), hx(hp), hx(r.range(-90, 90)), hx(r.range(-180, 180)), hx(r.range(0, 1e5) * a / 6.4e6), hx(a), hx(f)});
      run("locacc", {hx(a), hx(f), hx(r.irange(0, 9) ? la0 : r.pick(std::vector<double>{91, -90.5, NAN})), hx(r.irange(0, 3) ? lo0 : r.pick(std::vector<double>{180, -180, 540, -540, 360, 720.25, -0.0, 1e17})), hx(hh0)});
      // Rotate / Unrotate with the matrix of a position (a rotation) and with an arbitrary matrix
      { std::vector<double> M(9); double tx, ty, tz; Geocentric(a, f).Forward(lat, lon, 0, tx, ty, tz, M); if (r.irange(0, 3) == 0) for (auto& m : M) m = r.range(-2, 2);
        double s = std::pow(10.0, r.range(-5, 8)); Args ar; for (double m : M) ar.push_back(hx(m)); ar.push_back(hx(s * r.range(-1, 1))); ar.push_back(hx(s * r.range(-1, 1))); ar.push_back(hx(r.irange(0, 4) ? s * r.range(-1, 1) : 0.0)); run("georot", ar); }
    }
    if (i % 40 == 0) {
      // CartConvert: values whose short decimal form is exact (multiples of 2^-10)
      auto q = [&](double lo, double hi) { return std::round(r.range(lo, hi) * 1024) / 1024; };
      int variant = r.irange(0, 7); bool rev = variant & 2;
      double la0 = q(-90, 90), lo0 = q(-180, 180), hh0 = q(-100, 5000);
      double u = rev ? r.range(-1, 1) * 7e6 : q(-90, 90), v = rev ? r.range(-1, 1) * 7e6 : q(-180, 180), w = rev ? r.range(-1, 1) * 7e6 : q(-1000, 100000);
      auto ee = r.pick(std::vector<std::pair<double, double>>{{6378137, 1 / 298.257223563}, {6378137, 0}, {6.4e6, 0.125}, {6.4e6, -0.125}});
      run("cartconvert", {std::to_string(variant), hx(ee.first), hx(ee.second), hx(la0), hx(lo0), hx(hh0), std::to_string(r.irange(-1, 12)), hx(u), hx(v), hx(w)});
      stratum(std::string("cartconvert-") + (variant & 1 ? "local" : "geocentric") + (rev ? "-reverse" : "-forward"));
    }
  }
}
int main(int argc, char** argv) { return gv::main_(argc, argv); }
