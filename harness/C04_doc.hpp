// C04 / C05: the facts that UTMUPS.hpp, MGRS.hpp and GeoConvert(1) *document* (and, for the letters, the MGRS standard those headers cite:
// DMA TM8358.1 ch. 3, NGA.STND.0037), written down here as numbers and arithmetic on the alphabet.  Nothing in this file reads a table or a
// constant of the library: an oracle built on it gives a concrete failing input when a table or constant of the source changes.
#pragma once
#include <cmath>
#include <string>
#include <cctype>

namespace doc {

// ---- UTMUPS.hpp -----------------------------------------------------------------------------------------------------------------------
static const double SHIFT = 10000e3;      // "shift (meters) necessary to align north and south halves of a UTM zone (10^7)"
static const double TILE = 100e3;         // "100km"
static const double WGS84_A = 6378137.0;  // EquatorialRadius(): "the equatorial radius of the WGS84 ellipsoid"
static const double WGS84_RF = 298.257223563;
static const double K0_UTM = 0.9996, K0_UPS = 0.994;   // the standard central scale factors (TM8358.2 2-3, 3-2.4)

struct Rect { double xl, xh, yl, yh; };
// UTMUPS::Reverse: "UTM eastings are allowed to be in the range [0km, 1000km], northings ... [-9100km, 9600km] for the "northern" hemisphere and
// [900km, 19600km] for the "southern" hemisphere.  UPS eastings and northings ... [1200km, 2800km] in the northern hemisphere and in [700km, 3300km]
// in the southern hemisphere.  ... If mgrslimits = true, then all the ranges are shrunk by 100km" (= the ranges of MGRS::Forward: [100, 900],
// [-9000, 9500], [1000, 19500], [1300, 2700], [800, 3200])
inline Rect range(bool utmp, bool northp, bool mgrslimits) {
  Rect r;
  if (utmp) { r.xl = 0; r.xh = 1000e3; r.yl = northp ? -9100e3 : 900e3; r.yh = northp ? 9600e3 : 19600e3; }
  else { r.xl = r.yl = northp ? 1200e3 : 700e3; r.xh = r.yh = northp ? 2800e3 : 3300e3; }
  if (mgrslimits) { r.xl += 100e3; r.yl += 100e3; r.xh -= 100e3; r.yh -= 100e3; }
  return r;
}
inline bool strictly_inside(const Rect& r, double x, double y) { return x > r.xl && x < r.xh && y > r.yl && y < r.yh; }
inline bool strictly_outside(const Rect& r, double x, double y) { return x < r.xl || x > r.xh || y < r.yl || y > r.yh; }
inline bool inside_closed(const Rect& r, double x, double y) { return x >= r.xl && x <= r.xh && y >= r.yl && y <= r.yh; }

// false origins: UTM 500 km east, 0 / 10 000 km north (N / S hemisphere); UPS 2000 km in both coordinates
inline double false_easting(bool utmp) { return utmp ? 500e3 : 2000e3; }
inline double false_northing(bool utmp, bool northp) { return utmp ? (northp ? 0.0 : 10000e3) : 2000e3; }
inline double central_meridian(int zone) { return 6.0 * zone - 183.0; }

// zonespec: "use UTMUPS::UPS = 0 [if] the latitude is not in [-80, 84) ... closed on the lower end open on the upper.  Thus for UTM zone 38,
// latitude is in [-80, 84) and longitude is in [42, 48)"; Norway: band V (56 <= lat < 64), 3 <= lon < 6 -> 32; Svalbard: band X (lat >= 72),
// 0 <= lon < 42 -> 31, 33, 35, 37 with boundaries at 9, 21, 33.  Needs finite lat in [-90, 90] and finite lon.
inline int zone_rule(double lat, double lon, bool utm_only) {
  double L = std::remainder(lon, 360.0);           // exact
  if (L == 180) L = -180;
  if (!utm_only && !(lat >= -80 && lat < 84)) return 0;
  int il = int(std::floor(L));
  if (lat >= 56 && lat < 64 && il >= 3 && il < 6) return 32;
  if (lat >= 72 && il >= 0 && il < 42) return il < 9 ? 31 : il < 21 ? 33 : il < 33 ? 35 : 37;
  return (il + 180) / 6 + 1;
}

// DecodeZone: "a zone number in the range [1, 60] followed by a hemisphere letter, n or s (or "north" or "south" spelled out).  For UPS, it
// consists just of the hemisphere letter ...  n, 01s, 2n, 38s, south, 3north are legal.  0n, 001s, +3n, 61n, 38P are illegal.  INV is a special
// value" (EncodeZone writes "inv" / "invalid"); letters in either case.  Returns false for an illegal string.
inline bool zonestr(const std::string& s, int& zone, bool& northp) {
  if (s.empty() || s.size() > 7) return false;
  size_t p = 0; int z = 0;
  while (p < s.size() && s[p] >= '0' && s[p] <= '9') { z = 10 * z + (s[p] - '0'); ++p; }
  if (p > 2) return false;
  std::string h; for (size_t i = p; i < s.size(); ++i) { unsigned char c = (unsigned char)s[i]; h += char(c >= 'A' && c <= 'Z' ? c + 32 : c); }
  if (p == 0 && (h == "inv" || h == "invalid")) { zone = -4; northp = false; return true; }
  if (p > 0 && !(z >= 1 && z <= 60)) return false;
  bool n = h == "n" || h == "north", sth = h == "s" || h == "south";
  if (!n && !sth) return false;
  zone = z; northp = n; return true;
}
inline std::string zonestr_of(int zone, bool northp, bool abbrev) {
  if (zone == -4) return abbrev ? "inv" : "invalid";
  std::string s;
  if (zone > 0) { s += char('0' + zone / 10); s += char('0' + zone % 10); }
  return s + (abbrev ? (northp ? "n" : "s") : (northp ? "north" : "south"));
}

// EPSG: WGS 84 / UTM zone zzN = 326zz, zzS = 327zz (zz = 01..60); UPS North = 32661, UPS South = 32761
inline int epsg_of(int zone, bool northp) { return zone == 0 ? (northp ? 32661 : 32761) : (zone >= 1 && zone <= 60 ? (northp ? 32600 : 32700) + zone : -1); }
inline void epsg_decode(int e, int& zone, bool& northp) {
  zone = -4; northp = false;
  if (e >= 32601 && e <= 32660) { zone = e - 32600; northp = true; }
  else if (e == 32661) { zone = 0; northp = true; }
  else if (e >= 32701 && e <= 32760) { zone = e - 32700; }
  else if (e == 32761) { zone = 0; }
}

// ---- MGRS lettering (the standard the header cites) -------------------------------------------------------------------------------------
static const char* const A24 = "ABCDEFGHJKLMNPQRSTUVWXYZ";   // the alphabet without I and O
static const char* const U18 = "ABCFGHJKLPQRSTUXYZ";         // UPS columns: additionally without D, E, M, N, V, W
// latitude bands: 8 degrees tall, C from -80 ... X (12 degrees tall) from 72; the bands "include their southern edges"; C and X extend to the poles here
inline int band_of_lat(double lat) { int il = int(std::floor(lat)); int b = (il + 80) / 8 - 10; if (il + 80 < 0) b = -10; return b < -10 ? -10 : b > 9 ? 9 : b; }
inline char band_letter(int iband) { return A24[12 + iband]; }                       // iband in [-10, 10): C ... X
// 100 km columns: three sets of eight letters A-H, J-R, S-Z repeating with the zone; col = 100 km easting index 1..8
inline char col_letter(int zone, int col) { return A24[8 * ((zone - 1) % 3) + (col - 1)]; }
// 100 km rows: the cycle A-V (20 letters) from the equator, starting at F (shift 5) in even zones; row = 100 km index from the equator (may be negative)
inline char row_letter(int zone, int row) { return A24[(((row % 20) + 20) % 20 + (zone % 2 == 0 ? 5 : 0)) % 20]; }
// UPS: A (west) / B (east) in the south, Y / Z in the north; xh, yh = 100 km indices of easting / northing (false origin 2000 km = index 20)
inline char ups_band_letter(bool northp, int xh) { return northp ? (xh >= 20 ? 'Z' : 'Y') : (xh >= 20 ? 'B' : 'A'); }
inline char ups_col_letter(int xh) { return xh >= 20 ? U18[xh - 20] : U18[xh - 2]; }     // east half counts up from A, west half down from Z
inline char ups_row_letter(bool northp, int yh) { return A24[yh - (northp ? 13 : 8)]; } // rows start at the lower edge of the range (1300 / 800 km)


// details go on one protocol line whose fields are separated by "::": keep qualified C++ names readable but unambiguous ("MGRS:.Forward")
inline void bad_(const std::string& rel, std::string det) {
  for (size_t i = 0; i + 1 < det.size(); ++i) if (det[i] == ':' && det[i + 1] == ':') det[i + 1] = '.';
  gv::bad(rel, det);
}

} // namespace doc
