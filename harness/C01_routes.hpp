// Every documented route to the outputs of the direct problem (and, for C03, to m12/M12/M21/S12 of the inverse problem):
// the Direct / ArcDirect overloads, GenDirect with every single-output mask, Line + Position / ArcPosition overloads /
// GenPosition (full and single-capability lines), DirectLine / ArcDirectLine / GenDirectLine, the Inverse overloads and
// GenInverse with single-output masks.  Shared by the C01 and C03 harnesses; the same templates serve
// (Geodesic, GeodesicLine) — series and exact = true — and (GeodesicExact, GeodesicLineExact).
// Also: the documented accuracy over the whole documented range of each solver, and a 3-D chord on the ellipsoid.
#pragma once
#include "geodcommon.hpp"
namespace routes {
using namespace gd; using namespace gv;

// ---- documented accuracy ------------------------------------------------------------------------------------------
// series solver (Geodesic.hpp: 15 nm WGS84; table |f| -> error for a = a_WGS84: 0.01 25 nm, 0.02 30 nm, 0.05 10 um, 0.1 1.5 mm,
// 0.2 300 mm; the finer table of GeodesicLine.cpp gives 26 nm at 1/100 and 31 nm at 1/50)
inline double acc_series_full(double f) {
  double x = std::fabs(f);
  return x <= 1 / 250.0 ? 15e-9 : x <= 1 / 100.0 + 1e-12 ? 26e-9 : x <= 1 / 50.0 + 1e-12 ? 31e-9 : x <= 0.05 + 1e-12 ? 10e-6 : x <= 0.1 + 1e-12 ? 1.5e-3 : x <= 0.2 + 1e-12 ? 0.3 : NAN;
}
// exact solver (GeodesicExact.hpp: "approximate maximum error" for a quarter meridian of 10000 km as a function of b/a = 1 - f,
// documented range b/a in [0.01, 100]); a b/a between two rows takes the more eccentric row; beyond b/a in [1/2, 2] the rows are
// 'approximate maxima': factor 2 (as in geodcommon.hpp)
inline double acc_exact_full(double f) {
  static const double q[] = {1, 2, 4, 8, 16, 32, 64, 128};
  static const double ob[] = {15, 36, 69, 115, 210, 269, 345, 387}, pr[] = {15, 25, 96, 318, 985, 2352, 6008, 19024};
  double ba = 1 - f; if (!(ba > 0)) return NAN; double x = ba < 1 ? 1 / ba : ba;
  for (int i = 0; i < 8; ++i) if (x <= q[i] * 1.0005) { double t = (ba < 1 ? ob : pr)[i] * 1e-9; if (x <= 2.001) t = std::fmax(t, 40e-9); return x <= 2.001 ? t : 2 * t; }
  return NAN;
}
// size of the ellipsoid relative to the one the tables are written for: equatorial radius of WGS84 (series table) or a quarter
// meridian of 10000 km (exact table) - whichever is larger
inline double quarter_meridian(double a, double f);
inline double size_scale(double a, double f) { return std::fmax(a / 6378137.0, quarter_meridian(a, f) / 1e7); }
// tolerance for a position / a length along the path: 4 x documented x size x path length in half circuits
inline double tol_len(double acc, double scale, double a12deg) { return 4 * acc * scale * std::fmax(1.0, std::fabs(a12deg) / 180); }
inline bool oracle_range(double f) { double q = (1 - f) >= 1 ? (1 - f) : 1 / (1 - f); return q <= 128.5; }

// ---- the quadrature oracle with graded panels -----------------------------------------------------------------------
// oracle::Line refines its panels uniformly (x 2 sqrt(k2), 200-fold for b/a = 0.01): exact but slow for strongly eccentric
// ellipsoids and long lines.  QLine evaluates the same defining integrals (same integrands) on panels graded towards the
// branch points of sqrt(1 + k2 sin^2 sigma) nearest to the real axis (sigma = n pi +- i asinh(1/sqrt(k2)) for k2 > 0,
// sigma = pi/2 + n pi +- i acosh(1/sqrt(-k2)) for k2 < 0): a panel's half width is at most half its distance to the nearest
// branch point, so 24-point Gauss-Legendre converges like 3.7^-48 on every panel; and it corrects sigma2 by Newton steps that
// integrate over the increment only.  Validated against oracle::Line (probe: agreement to 1e-18 relative).
struct QLine : oracle::Line {
  using LD = oracle::LD;
  LD delta, centre;   // imaginary part and real offset (mod pi) of the nearest branch points
  QLine(LD a_, LD f_, LD lat1, LD lon1_, LD azi1) : oracle::Line(a_, f_, lat1, lon1_, azi1) {
    if (k2 > 0) { delta = asinhl(1 / sqrtl(k2)); centre = 0; } else if (k2 < 0 && k2 > -1) { delta = acoshl(1 / sqrtl(-k2)); centre = oracle::PI / 2; } else { delta = 100; centre = 0; }
  }
  LD dist(LD x) const { LD d = remainderl(x - centre, oracle::PI); return hypotl(d, delta); }
  template<class F> LD panel(F f, LD lo, LD hi, int depth) const {
    LD mid = (lo + hi) / 2, h = (hi - lo) / 2;
    if (depth < 40 && fabsl(h) > 0.5L * dist(mid)) return panel(f, lo, mid, depth + 1) + panel(f, mid, hi, depth + 1);
    LD acc = 0; const oracle::GL& g = oracle::gl(); for (size_t i = 0; i < g.x.size(); ++i) acc += g.w[i] * f(mid + g.x[i] * h); return acc * h;
  }
  template<class F> LD integ(F f, LD a0, LD b0) const {
    if (a0 == b0) return 0; LD len = b0 - a0; int nseg = int(ceill(fabsl(len) / (oracle::PI / 16))); if (nseg < 1) nseg = 1; LD h = len / nseg, s = 0;
    for (int k = 0; k < nseg; ++k) s += panel(f, a0 + k * h, a0 + (k + 1) * h, 0);
    return s;
  }
  LD qI1(LD s1, LD s2) const { return integ([&](LD x) { return dn(x); }, s1, s2); }
  LD qI2(LD s1, LD s2) const { return integ([&](LD x) { return 1 / dn(x); }, s1, s2); }
  LD qI3(LD s1, LD s2) const { return integ([&](LD x) { return (2 - f) / (1 + (1 - f) * dn(x)); }, s1, s2); }
  LD qI4(LD s1, LD s2) const {
    return integ([&](LD sg) { LD s = sinl(sg), x = k2 * s * s; LD d = ep2 - x;
      LD q = fabsl(d) > 1e-7L * (fabsl(ep2) + 1e-30L) ? (tfun(ep2) - tfun(x)) / d : dt(ep2);
      return -q * s / 2; }, s1, s2); }
  Pos position(bool arcmode, LD len) const {
    using namespace oracle;
    LD sig12, i1; bool conv = true;
    if (arcmode) { sig12 = len * DEG; i1 = qI1(sig1, sig1 + sig12); }
    else { LD target = len / b, mean = qI1(0, PI) / PI; sig12 = target / mean; i1 = qI1(sig1, sig1 + sig12); conv = false;
      for (int it = 0; it < 200; ++it) { LD err = i1 - target, step = err / dn(sig1 + sig12);
        i1 -= qI1(sig1 + sig12 - step, sig1 + sig12); sig12 -= step; if (fabsl(step) < 4e-19L * (1 + fabsl(sig12)) || (it >= 8 && fabsl(step) < 1e-17L * (1 + fabsl(sig12)))) { conv = true; break; } } }
    LD sig2 = sig1 + sig12; Pos p; p.sig2 = sig2; p.a12 = conv ? sig12 / DEG : NAN;   // NaN: Newton did not settle, the oracle abstains
    LD ssig1 = sbet1, csig1 = calp1 * cbet1; { LD r = hypotl(ssig1, csig1); if (r == 0) { ssig1 = 0; csig1 = 1; } else { ssig1 /= r; csig1 /= r; } }
    LD s12_ = sinl(sig12), c12_ = cosl(sig12);
    LD ssig2 = ssig1 * c12_ + csig1 * s12_, csig2 = csig1 * c12_ - ssig1 * s12_;
    LD sbet2 = calp0 * ssig2, cbet2 = hypotl(salp0, calp0 * csig2);
    p.lat2 = atan2l(sbet2, (1 - f) * cbet2) / DEG;
    p.azi2 = atan2l(salp0, calp0 * csig2) / DEG;
    p.s12 = arcmode ? b * i1 : len;
    LD E = (salp0 < 0 || (salp0 == 0 && std::signbit((double)salp0))) ? -1 : 1;
    auto del = [&](LD ss, LD cs) { LD d = atan2l(E * salp0 * ss, cs) - atan2l(ss, cs); while (d > PI) d -= 2 * PI; while (d <= -PI) d += 2 * PI; return d; };
    LD omg12 = E * (sig12 + del(ssig2, csig2) - del(ssig1, csig1));
    p.lam12 = omg12 - f * salp0 * qI3(sig1, sig2); p.lon12 = p.lam12 / DEG;
    LD J = i1 - qI2(sig1, sig2), dn1 = sqrtl(1 + k2 * ssig1 * ssig1), dn2 = sqrtl(1 + k2 * ssig2 * ssig2);
    p.m12 = b * (dn2 * csig1 * ssig2 - dn1 * ssig1 * csig2 - csig1 * csig2 * J);
    p.M12 = csig1 * csig2 + dn2 / dn1 * ssig1 * ssig2 - ssig1 * csig2 * J / dn1;
    p.M21 = csig1 * csig2 + dn1 / dn2 * ssig1 * ssig2 + ssig2 * csig1 * J / dn2;
    LD alp12 = atan2l(salp0, calp0 * csig2) - atan2l(salp0, calp0 * csig1);
    p.S12 = c2() * alp12 + e2 * a * a * calp0 * salp0 * qI4(sig1, sig2);
    return p;
  }
};

inline double quarter_meridian(double a, double f) { QLine M(a, f, 0, 0, 0); return double(M.b * M.qI1(0, oracle::PI / 2)); }
// ---- geometry on the ellipsoid ------------------------------------------------------------------------------------
inline void xyz(LD a, LD f, LD lat, LD lon, LD p[3]) { using namespace oracle; LD e2 = f * (2 - f), sp = sinl(lat * DEG), cp = cosl(lat * DEG);
  if (fabsl(lat) == 90) { cp = 0; sp = lat > 0 ? 1 : -1; }
  LD N = a / sqrtl(1 - e2 * sp * sp); p[0] = N * cp * cosl(lon * DEG); p[1] = N * cp * sinl(lon * DEG); p[2] = N * (1 - e2) * sp; }
inline LD chord(LD a, LD f, LD lat1, LD lon1, LD lat2, LD lon2) { LD p[3], q[3]; xyz(a, f, lat1, lon1, p); xyz(a, f, lat2, lon2, q); return hypotl(hypotl(p[0] - q[0], p[1] - q[1]), p[2] - q[2]); }
inline LD cosbeta(LD f, LD lat) { using namespace oracle; LD sp = sinl(lat * DEG), cp = cosl(lat * DEG); if (fabsl(lat) == 90) cp = 0; return cp / hypotl(cp, (1 - f) * sp); }

// ---- routes -------------------------------------------------------------------------------------------------------
enum : unsigned { hLAT = 1, hLON = 2, hAZI = 4, hS = 8, hA = 16, hm = 32, hM = 64, hAREA = 128, hUNROLL = 256 };
struct Out { std::string name; unsigned have; Res r; };
inline Res nanres() { Res r; double* p = &r.lat2; for (int i = 0; i < 9; ++i) p[i] = NAN; return r; }
template<class G> unsigned have_of(unsigned mask) {
  return ((mask & G::LATITUDE & G::OUT_MASK) ? hLAT : 0) | ((mask & G::LONGITUDE & G::OUT_MASK) ? hLON : 0) | ((mask & G::AZIMUTH & G::OUT_MASK) ? hAZI : 0) |
         ((mask & G::DISTANCE & G::OUT_MASK) ? hS : 0) | ((mask & G::REDUCEDLENGTH & G::OUT_MASK) ? hm : 0) | ((mask & G::GEODESICSCALE & G::OUT_MASK) ? hM : 0) |
         ((mask & G::AREA & G::OUT_MASK) ? hAREA : 0) | ((mask & G::LONG_UNROLL) ? hUNROLL : 0) | hA;
}
template<class G> std::vector<std::pair<const char*, unsigned>> masks() {
  return {{"LATITUDE", G::LATITUDE}, {"LONGITUDE", G::LONGITUDE}, {"LONGITUDE|LONG_UNROLL", G::LONGITUDE | G::LONG_UNROLL}, {"AZIMUTH", G::AZIMUTH},
          {"DISTANCE", G::DISTANCE}, {"REDUCEDLENGTH", G::REDUCEDLENGTH}, {"GEODESICSCALE", G::GEODESICSCALE}, {"AREA", G::AREA},
          {"REDUCEDLENGTH|GEODESICSCALE", G::REDUCEDLENGTH | G::GEODESICSCALE}, {"ALL", G::ALL}, {"ALL|LONG_UNROLL", G::ALL | G::LONG_UNROLL}};
}
// the Position / ArcPosition overloads of a line (prefix names the way the line was made)
template<class G, class L> void line_overloads(std::vector<Out>& o, const std::string& pre, const L& l, bool arc, double len) {
  auto add = [&](const char* n, unsigned h, const Res& r) { o.push_back({pre + n, h | hA, r}); };
  if (!arc) {
    { Res r = nanres(); r.a12 = l.Position(len, r.lat2, r.lon2, r.azi2, r.m12, r.M12, r.M21, r.S12); add(".Position(lat2,lon2,azi2,m12,M12,M21,S12)", hLAT | hLON | hAZI | hm | hM | hAREA, r); }
    { Res r = nanres(); r.a12 = l.Position(len, r.lat2, r.lon2); add(".Position(lat2,lon2)", hLAT | hLON, r); }
    { Res r = nanres(); r.a12 = l.Position(len, r.lat2, r.lon2, r.azi2); add(".Position(lat2,lon2,azi2)", hLAT | hLON | hAZI, r); }
    { Res r = nanres(); r.a12 = l.Position(len, r.lat2, r.lon2, r.azi2, r.m12); add(".Position(lat2,lon2,azi2,m12)", hLAT | hLON | hAZI | hm, r); }
    { Res r = nanres(); r.a12 = l.Position(len, r.lat2, r.lon2, r.azi2, r.M12, r.M21); add(".Position(lat2,lon2,azi2,M12,M21)", hLAT | hLON | hAZI | hM, r); }
    { Res r = nanres(); r.a12 = l.Position(len, r.lat2, r.lon2, r.azi2, r.m12, r.M12, r.M21); add(".Position(lat2,lon2,azi2,m12,M12,M21)", hLAT | hLON | hAZI | hm | hM, r); }
  } else {
    { Res r = nanres(); l.ArcPosition(len, r.lat2, r.lon2, r.azi2, r.s12, r.m12, r.M12, r.M21, r.S12); r.a12 = len; add(".ArcPosition(lat2,lon2,azi2,s12,m12,M12,M21,S12)", hLAT | hLON | hAZI | hS | hm | hM | hAREA, r); }
    { Res r = nanres(); l.ArcPosition(len, r.lat2, r.lon2); r.a12 = len; add(".ArcPosition(lat2,lon2)", hLAT | hLON, r); }
    { Res r = nanres(); l.ArcPosition(len, r.lat2, r.lon2, r.azi2); r.a12 = len; add(".ArcPosition(lat2,lon2,azi2)", hLAT | hLON | hAZI, r); }
    { Res r = nanres(); l.ArcPosition(len, r.lat2, r.lon2, r.azi2, r.s12); r.a12 = len; add(".ArcPosition(lat2,lon2,azi2,s12)", hLAT | hLON | hAZI | hS, r); }
    { Res r = nanres(); l.ArcPosition(len, r.lat2, r.lon2, r.azi2, r.s12, r.m12); r.a12 = len; add(".ArcPosition(lat2,lon2,azi2,s12,m12)", hLAT | hLON | hAZI | hS | hm, r); }
    { Res r = nanres(); l.ArcPosition(len, r.lat2, r.lon2, r.azi2, r.s12, r.M12, r.M21); r.a12 = len; add(".ArcPosition(lat2,lon2,azi2,s12,M12,M21)", hLAT | hLON | hAZI | hS | hM, r); }
    { Res r = nanres(); l.ArcPosition(len, r.lat2, r.lon2, r.azi2, r.s12, r.m12, r.M12, r.M21); r.a12 = len; add(".ArcPosition(lat2,lon2,azi2,s12,m12,M12,M21)", hLAT | hLON | hAZI | hS | hm | hM, r); }
  }
}
template<class G, class L> void line_masks(std::vector<Out>& o, const std::string& pre, const L& l, bool arc, double len, bool all = true) {
  for (auto& m : masks<G>()) { if (!all && !(m.second & G::LONG_UNROLL) && m.second != G::ALL && m.second != G::GEODESICSCALE) continue;
    Res r = nanres(); r.a12 = l.GenPosition(arc, len, m.second, r.lat2, r.lon2, r.azi2, r.s12, r.m12, r.M12, r.M21, r.S12);
    o.push_back({pre + ".GenPosition(" + m.first + ")", have_of<G>(m.second), r}); }
}
// level 0: GenDirect(ALL) and (ALL|LONG_UNROLL) only; 1: + line forms with unrolling; 2: everything
template<class G, class L> std::vector<Out> direct_routes(const G& g, double lat1, double lon1, double azi1, bool arc, double len, int level) {
  std::vector<Out> o;
  auto add = [&](const std::string& n, unsigned h, const Res& r) { o.push_back({n, h | hA, r}); };
  for (auto& m : masks<G>()) { if (level < 2 && m.second != G::ALL && m.second != (G::ALL | G::LONG_UNROLL)) continue;
    Res r = nanres(); r.a12 = g.GenDirect(lat1, lon1, azi1, arc, len, m.second, r.lat2, r.lon2, r.azi2, r.s12, r.m12, r.M12, r.M21, r.S12);
    add(std::string("GenDirect(") + m.first + ")", have_of<G>(m.second), r); }
  if (level < 1) return o;
  // precomputed-line forms
  { L l = g.Line(lat1, lon1, azi1); line_masks<G, L>(o, "Line", l, arc, len, level >= 2); if (level >= 2) line_overloads<G, L>(o, "Line", l, arc, len); }
  { L l(g, lat1, lon1, azi1); line_masks<G, L>(o, "LineCtor", l, arc, len, false); }
  { L l = g.GenDirectLine(lat1, lon1, azi1, arc, len); line_masks<G, L>(o, "GenDirectLine", l, arc, len, false);
    // the third point of the line is the end point
    Res r = nanres(); r.a12 = l.GenPosition(arc, l.GenDistance(arc), G::ALL | G::LONG_UNROLL, r.lat2, r.lon2, r.azi2, r.s12, r.m12, r.M12, r.M21, r.S12);
    add("GenDirectLine.GenPosition(GenDistance)", have_of<G>(G::ALL | G::LONG_UNROLL), r);
    Res q = nanres(); q.a12 = l.Arc(); q.s12 = l.Distance(); add("GenDirectLine.(Arc,Distance)", hS, q); }
  if (!arc) { L l = g.DirectLine(lat1, lon1, azi1, len); line_masks<G, L>(o, "DirectLine", l, arc, len, level >= 2); if (level >= 2) line_overloads<G, L>(o, "DirectLine", l, arc, len); }
  else { L l = g.ArcDirectLine(lat1, lon1, azi1, len); line_masks<G, L>(o, "ArcDirectLine", l, arc, len, level >= 2); if (level >= 2) line_overloads<G, L>(o, "ArcDirectLine", l, arc, len); }
  if (level < 2) return o;
  // overloads of Direct / ArcDirect
  if (!arc) {
    { Res r = nanres(); r.a12 = g.Direct(lat1, lon1, azi1, len, r.lat2, r.lon2, r.azi2, r.m12, r.M12, r.M21, r.S12); add("Direct(lat2,lon2,azi2,m12,M12,M21,S12)", hLAT | hLON | hAZI | hm | hM | hAREA, r); }
    { Res r = nanres(); r.a12 = g.Direct(lat1, lon1, azi1, len, r.lat2, r.lon2); add("Direct(lat2,lon2)", hLAT | hLON, r); }
    { Res r = nanres(); r.a12 = g.Direct(lat1, lon1, azi1, len, r.lat2, r.lon2, r.azi2); add("Direct(lat2,lon2,azi2)", hLAT | hLON | hAZI, r); }
    { Res r = nanres(); r.a12 = g.Direct(lat1, lon1, azi1, len, r.lat2, r.lon2, r.azi2, r.m12); add("Direct(lat2,lon2,azi2,m12)", hLAT | hLON | hAZI | hm, r); }
    { Res r = nanres(); r.a12 = g.Direct(lat1, lon1, azi1, len, r.lat2, r.lon2, r.azi2, r.M12, r.M21); add("Direct(lat2,lon2,azi2,M12,M21)", hLAT | hLON | hAZI | hM, r); }
    { Res r = nanres(); r.a12 = g.Direct(lat1, lon1, azi1, len, r.lat2, r.lon2, r.azi2, r.m12, r.M12, r.M21); add("Direct(lat2,lon2,azi2,m12,M12,M21)", hLAT | hLON | hAZI | hm | hM, r); }
  } else {
    { Res r = nanres(); g.ArcDirect(lat1, lon1, azi1, len, r.lat2, r.lon2, r.azi2, r.s12, r.m12, r.M12, r.M21, r.S12); r.a12 = len; add("ArcDirect(lat2,lon2,azi2,s12,m12,M12,M21,S12)", hLAT | hLON | hAZI | hS | hm | hM | hAREA, r); }
    { Res r = nanres(); g.ArcDirect(lat1, lon1, azi1, len, r.lat2, r.lon2); r.a12 = len; add("ArcDirect(lat2,lon2)", hLAT | hLON, r); }
    { Res r = nanres(); g.ArcDirect(lat1, lon1, azi1, len, r.lat2, r.lon2, r.azi2); r.a12 = len; add("ArcDirect(lat2,lon2,azi2)", hLAT | hLON | hAZI, r); }
    { Res r = nanres(); g.ArcDirect(lat1, lon1, azi1, len, r.lat2, r.lon2, r.azi2, r.s12); r.a12 = len; add("ArcDirect(lat2,lon2,azi2,s12)", hLAT | hLON | hAZI | hS, r); }
    { Res r = nanres(); g.ArcDirect(lat1, lon1, azi1, len, r.lat2, r.lon2, r.azi2, r.s12, r.m12); r.a12 = len; add("ArcDirect(lat2,lon2,azi2,s12,m12)", hLAT | hLON | hAZI | hS | hm, r); }
    { Res r = nanres(); g.ArcDirect(lat1, lon1, azi1, len, r.lat2, r.lon2, r.azi2, r.s12, r.M12, r.M21); r.a12 = len; add("ArcDirect(lat2,lon2,azi2,s12,M12,M21)", hLAT | hLON | hAZI | hS | hM, r); }
    { Res r = nanres(); g.ArcDirect(lat1, lon1, azi1, len, r.lat2, r.lon2, r.azi2, r.s12, r.m12, r.M12, r.M21); r.a12 = len; add("ArcDirect(lat2,lon2,azi2,s12,m12,M12,M21)", hLAT | hLON | hAZI | hS | hm | hM, r); }
  }
  // lines that can do one thing only: capability = the requested output (+ DISTANCE_IN to address the point by distance)
  for (auto& m : masks<G>()) { if (m.second == G::ALL || m.second == (G::ALL | G::LONG_UNROLL)) continue;
    L l = g.Line(lat1, lon1, azi1, m.second | (arc ? 0u : unsigned(G::DISTANCE_IN)));
    Res r = nanres(); r.a12 = l.GenPosition(arc, len, m.second, r.lat2, r.lon2, r.azi2, r.s12, r.m12, r.M12, r.M21, r.S12);
    add(std::string("Line(caps=") + m.first + ").GenPosition(" + m.first + ")", have_of<G>(m.second), r); }
  return o;
}
// m12, M12, M21, S12 (and s12, a12) of the inverse problem through every overload and single-output masks; azi1/azi2 are not kept
template<class G> std::vector<Out> inverse_routes(const G& g, double lat1, double lon1, double lat2, double lon2) {
  std::vector<Out> o; double z1, z2;
  auto add = [&](const std::string& n, unsigned h, const Res& r) { o.push_back({n, h | hA, r}); };
  { Res r = nanres(); r.a12 = g.Inverse(lat1, lon1, lat2, lon2, r.s12, z1, z2, r.m12, r.M12, r.M21, r.S12); add("Inverse(s12,azi1,azi2,m12,M12,M21,S12)", hS | hm | hM | hAREA, r); }
  { Res r = nanres(); r.a12 = g.Inverse(lat1, lon1, lat2, lon2, r.s12); add("Inverse(s12)", hS, r); }
  { Res r = nanres(); r.a12 = g.Inverse(lat1, lon1, lat2, lon2, z1, z2); add("Inverse(azi1,azi2)", 0, r); }
  { Res r = nanres(); r.a12 = g.Inverse(lat1, lon1, lat2, lon2, r.s12, z1, z2); add("Inverse(s12,azi1,azi2)", hS, r); }
  { Res r = nanres(); r.a12 = g.Inverse(lat1, lon1, lat2, lon2, r.s12, z1, z2, r.m12); add("Inverse(s12,azi1,azi2,m12)", hS | hm, r); }
  { Res r = nanres(); r.a12 = g.Inverse(lat1, lon1, lat2, lon2, r.s12, z1, z2, r.M12, r.M21); add("Inverse(s12,azi1,azi2,M12,M21)", hS | hM, r); }
  { Res r = nanres(); r.a12 = g.Inverse(lat1, lon1, lat2, lon2, r.s12, z1, z2, r.m12, r.M12, r.M21); add("Inverse(s12,azi1,azi2,m12,M12,M21)", hS | hm | hM, r); }
  for (auto& m : masks<G>()) { if (m.second == G::LATITUDE || m.second == G::LONGITUDE || (m.second & G::LONG_UNROLL)) continue;
    Res r = nanres(); r.a12 = g.GenInverse(lat1, lon1, lat2, lon2, m.second, r.s12, z1, z2, r.m12, r.M12, r.M21, r.S12);
    add(std::string("GenInverse(") + m.first + ")", have_of<G>(m.second) & ~(hLAT | hLON | hAZI | hUNROLL), r); }
  return o;
}
} // namespace routes
