// C13: entry points added when the dependence table was checked against the inventory of the public API
// (Gen/ApiC13.lean, obligation `api_covered`): every public member / static function with a floating-point input that
// the first table did not reach.  Same conventions as C13_entries.hpp.
#pragma once
#include "C13_entries.hpp"
#include "C13_iso.hpp"
#include <climits>
#include "C13_files.hpp"
#include <GeographicLib/DAuxLatitude.hpp>
#include <GeographicLib/DST.hpp>
#include <GeographicLib/AuxAngle.hpp>
namespace c13 {

inline const DAuxLatitude& DAUX() { static const DAuxLatitude d(Wa, Wf); return d; }
inline const CircularEngine& CIRC(bool grad) { static const CircularEngine c[2] = {SH().Circle(4.2e6, 4.5e6, false), SH().Circle(4.2e6, 4.5e6, true)}; return c[grad]; }

// ---- GeoCoords: every way of setting the object (constructor, Reset, string), every accessor as an output ----------
// outputs: 0 lat 1 lon 2 easting 3 northing 4 convergence 5 scale 6 northp 7 zone 8 alt easting 9 alt northing 10 alt zone
//          11 alt convergence 12 alt scale 13 UTMUPSRepresentation 14 MGRSRepresentation 15 GeoRepresentation 16 hemisphere
static const int NGC = 17;
inline void gc_out(const GeoCoords& c, O o) {
  o[0] = c.Latitude(); o[1] = c.Longitude(); o[2] = c.Easting(); o[3] = c.Northing(); o[4] = c.Convergence(); o[5] = c.Scale();
  o[6] = c.Northp() ? 1.0 : 0.0; setzone(o, 7, c.Zone()); o[8] = c.AltEasting(); o[9] = c.AltNorthing(); setzone(o, 10, c.AltZone());
  o[11] = c.AltConvergence(); o[12] = c.AltScale();
  // the text accessors validate on their own (MGRS limits are narrower than the UTM/UPS ones): their GeographicErr is not the
  // constructor's, the output then simply stays unwritten
  auto rep = [&](int k, std::function<std::string()> f) { try { sets(o, k, f()); } catch (const GeographicErr&) {} };
  rep(13, [&] { return c.UTMUPSRepresentation(2); }); rep(14, [&] { return c.MGRSRepresentation(2); }); rep(15, [&] { return c.GeoRepresentation(3); });
  o[16] = double(c.Hemisphere());
}
inline std::string num(double v) { char b[48]; std::snprintf(b, sizeof b, "%.17g", v); return b; }
inline void reg_geocoords() {
  struct Z { const char* tag; int zone; bool northp; double x, y; };
  static const Z zs[] = {{"UTMN", 32, true, 5e5, 4.4e6}, {"UTMS", 32, false, 4e5, 5.6e6}, {"UPSN", 0, true, 2.1e6, 2.2e6}, {"UPSS", 0, false, 1.9e6, 2.2e6}};
  for (const Z& z : zs) {
    auto N = [&](const char* s) { static std::vector<std::string> keep; keep.push_back(std::string("GeoCoords.") + s + z.tag); return keep.back().c_str(); };
    int zone = z.zone; bool np = z.northp;
    add(N("Ctor"), {z.x, z.y}, NGC, [zone, np](X x, O o) { GeoCoords c(zone, np, x[0], x[1]); gc_out(c, o); });
    add(N("Reset"), {z.x, z.y}, NGC, [zone, np](X x, O o) { GeoCoords c(10.0, 20.0); c.Reset(zone, np, x[0], x[1]); gc_out(c, o); });
    add(N("Str"), {z.x, z.y}, NGC, [zone, np](X x, O o) { GeoCoords c(UTMUPS::EncodeZone(zone, np) + " " + num(x[0]) + " " + num(x[1])); gc_out(c, o); });
  }
  add("GeoCoords.ResetLatLon", {40, 10}, NGC, [](X x, O o) { GeoCoords c(32, true, 5e5, 4.4e6); c.Reset(x[0], x[1]); gc_out(c, o); });
  add("GeoCoords.StrLatLon", {40, 10}, NGC, [](X x, O o) { GeoCoords c(num(x[0]) + " " + num(x[1])); gc_out(c, o); });
  add("GeoCoords.ResetStrLatLon", {40, 10}, NGC, [](X x, O o) { GeoCoords c(32, true, 5e5, 4.4e6); c.Reset(num(x[0]) + " " + num(x[1])); gc_out(c, o); });
  add("GeoCoords.CtorLatLon", {40, 10}, NGC, [](X x, O o) { GeoCoords c(x[0], x[1]); gc_out(c, o); });
}

// ---- geodesic family: the general interfaces and the line constructors ------------------------------------------------
template<class G, class L> void reg_geod2(const std::string& p, const G& (*g)()) {
  auto N = [&](const char* s) { static std::vector<std::string> keep; keep.push_back(p + s); return keep.back().c_str(); };
  const unsigned ALL = G::ALL;
  add(N(".GenInverse"), {40, 10, 20, 50}, 8, [g, ALL](X x, O o) { o[7] = g().GenInverse(x[0], x[1], x[2], x[3], ALL, o[0], o[1], o[2], o[3], o[4], o[5], o[6]); });
  add(N(".GenDirect"), {40, 10, 30, 1e6}, 9, [g, ALL](X x, O o) { o[8] = g().GenDirect(x[0], x[1], x[2], false, x[3], ALL, o[0], o[1], o[2], o[3], o[4], o[5], o[6], o[7]); });
  add(N(".GenDirectArc"), {40, 10, 30, 9}, 9, [g, ALL](X x, O o) { o[8] = g().GenDirect(x[0], x[1], x[2], true, x[3], ALL, o[0], o[1], o[2], o[3], o[4], o[5], o[6], o[7]); });
  add(N(".LineCtor.GenPosition"), {40, 10, 30, 1e6}, 9, [g, ALL](X x, O o) { L l(g(), x[0], x[1], x[2], ALL); o[8] = l.GenPosition(false, x[3], ALL, o[0], o[1], o[2], o[3], o[4], o[5], o[6], o[7]); });
  add(N(".LineCtor.GenPositionArc"), {40, 10, 30, 9}, 9, [g, ALL](X x, O o) { L l(g(), x[0], x[1], x[2], ALL); o[8] = l.GenPosition(true, x[3], ALL, o[0], o[1], o[2], o[3], o[4], o[5], o[6], o[7]); });
  add(N(".GenDirectLine.Position"), {40, 10, 30, 1e6, 5e5}, 3, [g, ALL](X x, O o) { L l = g().GenDirectLine(x[0], x[1], x[2], false, x[3], ALL); l.Position(x[4], o[0], o[1], o[2]); });
  add(N(".Line.GenSetDistance"), {40, 10, 30, 1e6}, 2, [g](X x, O o) { L l = g().Line(x[0], x[1], x[2]); l.GenSetDistance(false, x[3]); o[0] = l.Distance(); o[1] = l.Arc(); });
  add(N(".Line.GenSetArc"), {40, 10, 30, 9}, 2, [g](X x, O o) { L l = g().Line(x[0], x[1], x[2]); l.GenSetDistance(true, x[3]); o[0] = l.Distance(); o[1] = l.Arc(); });
  // accessors of a line built from the swept arguments
  add(N(".Line.Accessors"), {40, 10, 30}, 5, [g](X x, O o) { L l = g().Line(x[0], x[1], x[2]); o[0] = l.Latitude(); o[1] = l.Longitude(); o[2] = l.Azimuth(); double s, c; l.Azimuth(s, c); o[3] = s; l.EquatorialAzimuth(s, c); o[4] = l.EquatorialArc(); });
}
template<class R> void reg_rhumb2(const std::string& p, const R& (*r)()) {
  auto N = [&](const char* s) { static std::vector<std::string> keep; keep.push_back(p + s); return keep.back().c_str(); };
  add(N(".GenInverse"), {40, 10, 20, 50}, 3, [r](X x, O o) { r().GenInverse(x[0], x[1], x[2], x[3], Rhumb::ALL, o[0], o[1], o[2]); });
  add(N(".GenDirect"), {40, 10, 30, 1e6}, 3, [r](X x, O o) { r().GenDirect(x[0], x[1], x[2], x[3], Rhumb::ALL, o[0], o[1], o[2]); });
  add(N(".Line.GenPosition"), {40, 10, 30, 1e6}, 3, [r](X x, O o) { RhumbLine l = r().Line(x[0], x[1], x[2]); l.GenPosition(x[3], Rhumb::ALL, o[0], o[1], o[2]); });
}
template<class P, class G> void reg_poly(const std::string& p, const G& (*g)()) {
  auto N = [&](const char* s) { static std::vector<std::string> keep; keep.push_back(p + s); return keep.back().c_str(); };
  add(N(".TestPoint"), {40, 10}, 3, [g](X x, O o) { P q(g()); q.AddPoint(10, 10); q.AddPoint(20, 40); o[2] = q.TestPoint(x[0], x[1], false, true, o[0], o[1]); });
  add(N(".AddEdge"), {30, 1e6}, 2, [g](X x, O o) { P q(g()); q.AddPoint(10, 10); q.AddEdge(x[0], x[1]); q.AddPoint(20, 40); q.Compute(false, true, o[0], o[1]); });
  add(N(".TestEdge"), {30, 1e6}, 3, [g](X x, O o) { P q(g()); q.AddPoint(10, 10); q.AddPoint(20, 40); o[2] = q.TestEdge(x[0], x[1], false, true, o[0], o[1]); });
}
// Math for the other two instantiated precisions
template<class T> void reg_math(const std::string& p) {
  auto N = [&](const char* s) { static std::vector<std::string> keep; keep.push_back(p + s); return keep.back().c_str(); };
#define MT1(fn, v) add(N("." #fn), {v}, 1, [](X x, O o) { o[0] = double(Math::fn(T(x[0]))); })
  MT1(AngNormalize, 400); MT1(AngRound, 40); MT1(LatFix, 40); MT1(sind, 40); MT1(cosd, 40); MT1(tand, 40); MT1(atand, 0.5); MT1(sq, 3);
#undef MT1
  add(N(".AngDiff"), {40, 50}, 2, [](X x, O o) { T e = T(o[1]); T d = Math::AngDiff(T(x[0]), T(x[1]), e); o[0] = double(d); if (!(bits(double(e)) == bits(o[1]))) o[1] = double(e); });
  add(N(".AngDiff2"), {40, 50}, 1, [](X x, O o) { o[0] = double(Math::AngDiff(T(x[0]), T(x[1]))); });
  add(N(".sincosd"), {40}, 2, [](X x, O o) { T s, c; Math::sincosd(T(x[0]), s, c); o[0] = double(s); o[1] = double(c); });
  add(N(".sincosde"), {40, 1e-17}, 2, [](X x, O o) { T s, c; Math::sincosde(T(x[0]), T(x[1]), s, c); o[0] = double(s); o[1] = double(c); });
  add(N(".atan2d"), {0.5, 0.7}, 1, [](X x, O o) { o[0] = double(Math::atan2d(T(x[0]), T(x[1]))); });
  add(N(".sum"), {40, 1e-17}, 2, [](X x, O o) { T t; T s = Math::sum(T(x[0]), T(x[1]), t); o[0] = double(s); o[1] = double(t); });
  add(N(".taupf"), {0.7, 0.08}, 1, [](X x, O o) { o[0] = double(Math::taupf(T(x[0]), T(x[1]))); });
  add(N(".tauf"), {0.7, 0.08}, 1, [](X x, O o) { o[0] = double(Math::tauf(T(x[0]), T(x[1]))); });
  add(N(".eatanhe"), {0.7, 0.08}, 1, [](X x, O o) { o[0] = double(Math::eatanhe(T(x[0]), T(x[1]))); });
  add(N(".polyval"), {0.5, 1, 2, 3}, 1, [](X x, O o) { T pp[3] = {T(x[1]), T(x[2]), T(x[3])}; o[0] = double(Math::polyval(2, pp, T(x[0]))); });
  add(N(".hypot3"), {3, 4, 12}, 1, [](X x, O o) { o[0] = double(Math::hypot3(T(x[0]), T(x[1]), T(x[2]))); });
}

inline void register_more() {
  reg_geocoords();
  reg_geod2<Geodesic, GeodesicLine>("GeodS", &GS);
  reg_geod2<Geodesic, GeodesicLine>("GeodX", &GX);
  reg_geod2<GeodesicExact, GeodesicLineExact>("GeodE", &GE);
  reg_rhumb2<Rhumb>("RhumbS", &RS);
  reg_rhumb2<Rhumb>("RhumbX", &RX);
  reg_poly<PolygonAreaExact, GeodesicExact>("PolygonAreaExact", &GE);
  reg_poly<PolygonAreaRhumb, Rhumb>("PolygonAreaRhumb", &RS);
  reg_math<float>("MathF");
  reg_math<long double>("MathL");
  add("Math.AngDiff2", {40, 50}, 1, [](X x, O o) { o[0] = Math::AngDiff(x[0], x[1]); });
  add("Math.polyval", {0.5, 1, 2, 3}, 1, [](X x, O o) { double pp[3] = {x[1], x[2], x[3]}; o[0] = Math::polyval(2, pp, x[0]); });
  add("Math.hypot3", {3, 4, 12}, 1, [](X x, O o) { o[0] = Math::hypot3(x[0], x[1], x[2]); });
  // ---- Accumulator ----
  add("Accumulator.assign", {1.5}, 2, [](X x, O o) { Accumulator<> a(x[0]); o[0] = a(); Accumulator<> b; b = x[0]; o[1] = b(); });
  add("Accumulator.peek", {1.5, 2.5}, 1, [](X x, O o) { Accumulator<> a(x[0]); o[0] = a(x[1]); });
  add("Accumulator.mul", {1.5, 2.5}, 1, [](X x, O o) { Accumulator<> a(x[0]); a *= x[1]; o[0] = a(); });
  add("Accumulator.remainder", {370, 360}, 1, [](X x, O o) { Accumulator<> a(x[0]); a.remainder(x[1]); o[0] = a(); });
  add("Accumulator.compare", {1.5, 2.5}, 6, [](X x, O o) { Accumulator<> a(x[0]); o[0] = a == x[1]; o[1] = a != x[1]; o[2] = a < x[1]; o[3] = a <= x[1]; o[4] = a > x[1]; o[5] = a >= x[1]; });
  // ---- AuxAngle ----
  add("AuxAngle.fromDegrees", {40}, 2, [](X x, O o) { AuxAngle a = AuxAngle::degrees(x[0]); o[0] = a.y(); o[1] = a.x(); });
  add("AuxAngle.fromRadians", {0.7}, 2, [](X x, O o) { AuxAngle a = AuxAngle::radians(x[0]); o[0] = a.y(); o[1] = a.x(); });
  add("AuxAngle.fromLam", {0.7}, 2, [](X x, O o) { AuxAngle a = AuxAngle::lam(x[0]); o[0] = a.y(); o[1] = a.x(); });
  add("AuxAngle.fromLamd", {40}, 2, [](X x, O o) { AuxAngle a = AuxAngle::lamd(x[0]); o[0] = a.y(); o[1] = a.x(); });
  add("AuxAngle.copyquadrant", {0.6, 0.8, -0.3, -0.4}, 2, [](X x, O o) { AuxAngle a = AuxAngle(x[0], x[1]).copyquadrant(AuxAngle(x[2], x[3])); o[0] = a.y(); o[1] = a.x(); });
  add("AuxAngle.add", {0.6, 0.8, 0.3, 0.4}, 2, [](X x, O o) { AuxAngle a(x[0], x[1]); a += AuxAngle(x[2], x[3]); o[0] = a.y(); o[1] = a.x(); });
  add("AuxAngle.accessors", {0.6, 0.8}, 4, [](X x, O o) { AuxAngle a(x[0], x[1]); o[0] = a.lam(); o[1] = a.lamd(); AuxAngle n = a.normalized(); o[2] = n.y(); o[3] = n.x(); });
  // ---- AuxLatitude on AuxAngle arguments ----
  add("AuxLatitude.ConvertAngleSeries", {0.6, 0.8}, 36, [](X x, O o) { for (int i = 0; i < 6; ++i) for (int j = 0; j < 6; ++j) o[6 * i + j] = AUX().Convert(i, j, AuxAngle(x[0], x[1]), false).tan(); });
  add("AuxLatitude.ConvertAngleExact", {0.6, 0.8}, 36, [](X x, O o) { for (int i = 0; i < 6; ++i) for (int j = 0; j < 6; ++j) o[6 * i + j] = AUX().Convert(i, j, AuxAngle(x[0], x[1]), true).tan(); });
  add("AuxLatitude.ToAuxiliary", {0.6, 0.8}, 12, [](X x, O o) { for (int i = 0; i < 6; ++i) { double d = o[6 + i]; o[i] = AUX().ToAuxiliary(i, AuxAngle(x[0], x[1]), &d).tan(); if (bits(d) != bits(o[6 + i])) o[6 + i] = d; } });
  // at the pole (tan phi = 1/0) every derivative d tan(zeta)/d tan(phi) has a finite limit (F77: Authalic returned NaN there): the baseline
  // call of this entry must give valid numbers throughout
  add("AuxLatitude.ToAuxiliaryPole", {1.0, 0.0}, 12, [](X x, O o) { for (int i = 0; i < 6; ++i) { double d = o[6 + i]; o[i] = AUX().ToAuxiliary(i, AuxAngle(x[0], x[1]), &d).tan(); if (bits(d) != bits(o[6 + i])) o[6 + i] = d; } });
  add("AuxLatitude.FromAuxiliary", {0.6, 0.8}, 12, [](X x, O o) { for (int i = 0; i < 6; ++i) { int n = SI; o[i] = AUX().FromAuxiliary(i, AuxAngle(x[0], x[1]), &n).tan(); seti(o, 6 + i, n); } });
  add("AuxLatitude.Clenshaw", {0.6, 0.8, 0.1, 0.01}, 2, [](X x, O o) { double c[2] = {x[2], x[3]}; o[0] = AuxLatitude::Clenshaw(true, x[0], x[1], c, 2); o[1] = AuxLatitude::Clenshaw(false, x[0], x[1], c, 2); });
  // ---- DAuxLatitude ----
  add("DAuxLatitude.DConvert", {0.5, 0.7}, 36, [](X x, O o) { for (int i = 0; i < 6; ++i) for (int j = 0; j < 6; ++j) o[6 * i + j] = DAUX().DConvert(i, j, AuxAngle(x[0]), AuxAngle(x[1])); });
  add("DAuxLatitude.D3", {0.5, 0.7}, 3, [](X x, O o) { o[0] = DAUX().DParametric(AuxAngle(x[0]), AuxAngle(x[1])); o[1] = DAUX().DRectifying(AuxAngle(x[0]), AuxAngle(x[1])); o[2] = DAUX().DIsometric(AuxAngle(x[0]), AuxAngle(x[1])); });
  add("DAuxLatitude.DClenshaw", {0.2, 0.6, 0.8, 0.8, 0.6, 0.1, 0.01}, 2, [](X x, O o) { double c[2] = {x[5], x[6]}; o[0] = DAuxLatitude::DClenshaw(true, x[0], x[1], x[2], x[3], x[4], c, 2); o[1] = DAuxLatitude::DClenshaw(false, x[0], x[1], x[2], x[3], x[4], c, 2); });
  add("DAuxLatitude.Dlam", {0.5, 0.7}, 1, [](X x, O o) { o[0] = DAuxLatitude::Dlam(x[0], x[1]); });
  add("DAuxLatitude.Dp0Dpsi", {0.5, 0.7}, 1, [](X x, O o) { o[0] = DAuxLatitude::Dp0Dpsi(x[0], x[1]); });
  // ---- CassiniSoldner::Reset ----
  add("CassiniSoldner.Reset", {40, 10}, 4, [](X x, O o) { CassiniSoldner c(GS()); c.Reset(x[0], x[1]); o[0] = c.LatitudeOrigin(); o[1] = c.LongitudeOrigin(); c.Forward(41, 11, o[2], o[3]); });
  // ---- CircularEngine and the Circle factories ----
  add("CircularEngine.Value", {10}, 1, [](X x, O o) { o[0] = CIRC(false)(x[0]); });
  add("CircularEngine.ValueSC", {0.6, 0.8}, 1, [](X x, O o) { o[0] = CIRC(false)(x[0], x[1]); });
  add("CircularEngine.GradSC", {0.6, 0.8}, 4, [](X x, O o) { o[3] = CIRC(true)(x[0], x[1], o[0], o[1], o[2]); });
  add("CircularEngine.Grad", {10}, 4, [](X x, O o) { o[3] = CIRC(true)(x[0], o[0], o[1], o[2]); });
  add("SphericalHarmonic.CircleValue", {4.2e6, 4.5e6, 10}, 1, [](X x, O o) { CircularEngine c = SH().Circle(x[0], x[1], false); o[0] = c(x[2]); });
  add("SphericalHarmonic1.Value", {0.5, 4e6, 1e6, 4.5e6}, 1, [](X x, O o) { o[0] = SH1()(x[0], x[1], x[2], x[3]); });
  add("SphericalHarmonic2.Value", {0.5, 0.25, 4e6, 1e6, 4.5e6}, 1, [](X x, O o) { o[0] = SH2()(x[0], x[1], x[2], x[3], x[4]); });
  add("SphericalHarmonic1.Circle", {0.5, 4.2e6, 4.5e6, 10}, 4, [](X x, O o) { CircularEngine c = SH1().Circle(x[0], x[1], x[2], true); o[3] = c(x[3], o[0], o[1], o[2]); });
  add("SphericalHarmonic2.Circle", {0.5, 0.25, 4.2e6, 4.5e6, 10}, 4, [](X x, O o) { CircularEngine c = SH2().Circle(x[0], x[1], x[2], x[3], true); o[3] = c(x[4], o[0], o[1], o[2]); });
  add("SphericalEngine.coeff.CvSv", {2.0}, 4, [](X x, O o) { SphericalEngine::coeff c(HARM().C, HARM().S, 4); int k = c.index(3, 2); o[0] = c.Cv(k, 3, 2, x[0]); o[1] = c.Sv(k, 3, 2, x[0]); o[2] = c.Cv(k, 5, 2, x[0]); o[3] = c.Sv(k, 3, 5, x[0]); });
  // ---- DMS numeric forms ----
  add("DMS.DecodeDMS", {40, 7, 23.5}, 1, [](X x, O o) { o[0] = DMS::Decode(x[0], x[1], x[2]); });
  add("DMS.EncodeDM", {40.123}, 2, [](X x, O o) { DMS::Encode(x[0], o[0], o[1]); });
  // ---- DST ----
  add("DST.eval", {0.6, 0.8, 1, 0.5}, 1, [](X x, O o) { double F[2] = {x[2], x[3]}; o[0] = DST::eval(x[0], x[1], F, 2); });
  add("DST.integral", {0.6, 0.8, 1, 0.5}, 1, [](X x, O o) { double F[2] = {x[2], x[3]}; o[0] = DST::integral(x[0], x[1], F, 2); });
  add("DST.integral2", {0.6, 0.8, 0.8, 0.6, 1, 0.5}, 1, [](X x, O o) { double F[2] = {x[4], x[5]}; o[0] = DST::integral(x[0], x[1], x[2], x[3], F, 2); });
  add("DST.transform", {1.5, 0.25}, 4, [](X x, O o) { DST d(4); double c0 = x[0], c1 = x[1]; d.transform([c0, c1](double s) { return c0 * std::sin(s) + c1 * std::sin(3 * s); }, o); });
  add("DST.refine", {1.5, 0.25}, 8, [](X x, O o) { DST d(4); double c0 = x[0], c1 = x[1]; double F[8]; auto f = [c0, c1](double s) { return c0 * std::sin(s) + c1 * std::sin(3 * s); }; d.transform(f, F); d.refine(f, F); for (int i = 0; i < 8; ++i) o[i] = F[i]; });
  // ---- EllipticFunction::Reset (four-parameter form) ----
  add("EllipticFunction.Reset4", {0.3, 0.2, 0.7, 0.8}, 3, [](X x, O o) { EllipticFunction e; e.Reset(x[0], x[1], x[2], x[3]); o[0] = e.K(); o[1] = e.E(); o[2] = e.Pi(); });
  // ---- grid-code resolutions ----
  add("GARS.Precision", {0.1}, 1, [](X x, O o) { seti(o, 0, GARS::Precision(x[0])); });
  add("Georef.Precision", {0.1}, 1, [](X x, O o) { seti(o, 0, Georef::Precision(x[0])); });
  add("Geohash.GeohashLength", {0.1}, 1, [](X x, O o) { seti(o, 0, Geohash::GeohashLength(x[0])); });
  add("Geohash.GeohashLength2", {0.1, 0.2}, 1, [](X x, O o) { seti(o, 0, Geohash::GeohashLength(x[0], x[1])); });
  // ---- GravityCircle, GravityModel, MagneticCircle, MagneticModel: the remaining members ----
#define GC4(fn) add("GravityCircle." #fn, {40, 1000, 10}, 4, [](X x, O o) { GravityCircle c = GRAV().Circle(x[0], x[1]); o[3] = c.fn(x[2], o[0], o[1], o[2]); })
  GC4(Disturbance); GC4(W); GC4(V); GC4(T);
#undef GC4
  add("GravityCircle.SphericalAnomaly", {40, 1000, 10}, 3, [](X x, O o) { GravityCircle c = GRAV().Circle(x[0], x[1]); c.SphericalAnomaly(x[2], o[0], o[1], o[2]); });
  add("GravityCircle.T1", {40, 1000, 10}, 1, [](X x, O o) { GravityCircle c = GRAV().Circle(x[0], x[1]); o[0] = c.T(x[2]); });
  add("GravityModel.T1", {4e6, 1e6, 4.5e6}, 1, [](X x, O o) { o[0] = GRAV().T(x[0], x[1], x[2]); });
  add("GravityModel.Phi", {4e6, 1e6}, 3, [](X x, O o) { o[2] = GRAV().Phi(x[0], x[1], o[0], o[1]); });
  add("MagneticCircle.Field3", {2021, 40, 1000, 10}, 3, [](X x, O o) { MagneticCircle c = MAG().Circle(x[0], x[1], x[2]); c(x[3], o[0], o[1], o[2]); });
  add("MagneticCircle.FieldGeocentric", {2021, 40, 1000, 10}, 6, [](X x, O o) { MagneticCircle c = MAG().Circle(x[0], x[1], x[2]); c.FieldGeocentric(x[3], o[0], o[1], o[2], o[3], o[4], o[5]); });
  add("MagneticModel.Field3", {2021, 40, 10, 1000}, 3, [](X x, O o) { MAG()(x[0], x[1], x[2], x[3], o[0], o[1], o[2]); });
  add("MagneticModel.FieldComponents4", {2e4, 1e3, -4e4}, 4, [](X x, O o) { MagneticModel::FieldComponents(x[0], x[1], x[2], o[0], o[1], o[2], o[3]); });
  // ---- Intersect: displaced starting point, line arguments, All, Dist ----
  add("Intersect.ClosestP0", {0, 0, 45, 1, 2, 135, 1e4, 2e4}, 3, [](X x, O o) { int c = SI; Fin f{[&] { seti(o, 2, c); }}; auto p = IX().Closest(x[0], x[1], x[2], x[3], x[4], x[5], Intersect::Point(x[6], x[7]), &c); o[0] = p.first; o[1] = p.second; });
  add("Intersect.ClosestLines", {0, 0, 45, 1, 2, 135}, 2, [](X x, O o) { GeodesicLine a = GS().Line(x[0], x[1], x[2], Intersect::LineCaps), b = GS().Line(x[3], x[4], x[5], Intersect::LineCaps); auto p = IX().Closest(a, b); o[0] = p.first; o[1] = p.second; });
  add("Intersect.SegmentLines", {0, 0, 2, 2, 0, 2, 2, 0}, 3, [](X x, O o) { GeodesicLine a = GS().InverseLine(x[0], x[1], x[2], x[3], Intersect::LineCaps), b = GS().InverseLine(x[4], x[5], x[6], x[7], Intersect::LineCaps); int sm = SI; Fin f{[&] { seti(o, 2, sm); }}; auto p = IX().Segment(a, b, sm); o[0] = p.first; o[1] = p.second; });
  add("Intersect.NextLines", {10, 20, 45, 135}, 2, [](X x, O o) { GeodesicLine a = GS().Line(x[0], x[1], x[2], Intersect::LineCaps), b = GS().Line(x[0], x[1], x[3], Intersect::LineCaps); auto p = IX().Next(a, b); o[0] = p.first; o[1] = p.second; });
  // All: number of intersections found, and the first of them (NaN when the list is empty)
  auto all_out = [](const std::vector<Intersect::Point>& v, O o) { o[0] = double(v.size()); o[1] = v.empty() ? std::nan("") : v[0].first; o[2] = v.empty() ? std::nan("") : v[0].second; };
  add("Intersect.All", {0, 0, 45, 1, 2, 135, 3e7, 1e4, 2e4}, 3, [all_out](X x, O o) { all_out(IX().All(x[0], x[1], x[2], x[3], x[4], x[5], x[6], Intersect::Point(x[7], x[8])), o); });
  add("Intersect.AllC", {0, 0, 45, 1, 2, 135, 3e7, 1e4, 2e4}, 3, [all_out](X x, O o) { std::vector<int> c; all_out(IX().All(x[0], x[1], x[2], x[3], x[4], x[5], x[6], c, Intersect::Point(x[7], x[8])), o); });
  add("Intersect.AllLines", {0, 0, 45, 1, 2, 135, 3e7, 1e4, 2e4}, 3, [all_out](X x, O o) { GeodesicLine a = GS().Line(x[0], x[1], x[2], Intersect::LineCaps), b = GS().Line(x[3], x[4], x[5], Intersect::LineCaps); all_out(IX().All(a, b, x[6], Intersect::Point(x[7], x[8])), o); });
  add("Intersect.AllLinesC", {0, 0, 45, 1, 2, 135, 3e7, 1e4, 2e4}, 3, [all_out](X x, O o) { GeodesicLine a = GS().Line(x[0], x[1], x[2], Intersect::LineCaps), b = GS().Line(x[3], x[4], x[5], Intersect::LineCaps); std::vector<int> c; all_out(IX().All(a, b, x[6], c, Intersect::Point(x[7], x[8])), o); });
  add("Intersect.Dist", {1, 2, 3, 5}, 1, [](X x, O o) { o[0] = Intersect::Dist(Intersect::Point(x[0], x[1]), Intersect::Point(x[2], x[3])); });
  // ---- LocalCartesian with the rotation matrix ----
  add("LocalCartesian.ForwardM", {40, 10, 100, 41, 11, 200}, 12, [](X x, O o) { std::vector<double> M(9, 7.5e77); Fin f{[&] { for (int i = 0; i < 9; ++i) if (M[i] != 7.5e77) o[3 + i] = M[i]; }}; LocalCartesian l(x[0], x[1], x[2]); l.Forward(x[3], x[4], x[5], o[0], o[1], o[2], M); });
  add("LocalCartesian.ReverseM", {40, 10, 100, 1e4, 2e4, 300}, 12, [](X x, O o) { std::vector<double> M(9, 7.5e77); Fin f{[&] { for (int i = 0; i < 9; ++i) if (M[i] != 7.5e77) o[3 + i] = M[i]; }}; LocalCartesian l(x[0], x[1], x[2]); l.Reverse(x[3], x[4], x[5], o[0], o[1], o[2], M); });
}

} // namespace c13
