// C16: angle arithmetic and exact-summation primitives — every instantiation that exists in the built library
// (float, double, long double for the Math:: templates; float and double for Accumulator).
//
//  * double ops `angnorm sum angdiff anground latfix sincosd sincosde atan2d accum`: judged in Lean (exact dyadic arithmetic /
//    the binary64 model of the code).
//  * generic ops `one gsum gangdiff gacc` (first argument = precision tag f|d|l): the exact relations of the property are
//    decided in Lean at the precision of the instantiation (24 / 53 / 64 bits); everything that needs libm is judged here
//    against the next wider type (double / x87 long double / __float128).
//  * `f32scan lo hi`: the one-argument battery over every float bit pattern in [lo, hi) (thorough tier: all 2^32).
#include "common.hpp"
#include "C16_ref.hpp"
#include <GeographicLib/Math.hpp>
#include <GeographicLib/Accumulator.hpp>
using namespace GeographicLib; using namespace gv; using namespace c16;

// ------------------------------------------------------------------------------------------------------------------
// double-precision ops judged by the Lean model (unchanged protocol)
// ------------------------------------------------------------------------------------------------------------------
static Reg r_angnorm("angnorm", [](const Args& a) {
  double x = unhx(a[0]); emit(hx(Math::AngNormalize(x)));
});
static Reg r_sum("sum", [](const Args& a) {
  double u = unhx(a[0]), v = unhx(a[1]), t; double s = Math::sum(u, v, t); emit(hx(s) + " " + hx(t));
});
static Reg r_angdiff("angdiff", [](const Args& a) {
  double x = unhx(a[0]), y = unhx(a[1]), e; double d = Math::AngDiff(x, y, e); emit(hx(d) + " " + hx(e));
});
static Reg r_anground("anground", [](const Args& a) { emit(hx(Math::AngRound(unhx(a[0])))); });
static Reg r_latfix("latfix", [](const Args& a) { emit(hx(Math::LatFix(unhx(a[0])))); });

static Reg r_sincosd("sincosd", [](const Args& a) {
  // wrapper correspondence: kernel values are the implementation's own results on the reduced argument
  // (the property-level oracles on sincosd/sind/cosd/tand are in the battery `one`)
  double x = unhx(a[0]);
  int q; double d = std::remquo(x, 90.0, &q);
  double s, c, sx, cx; Math::sincosd(d, s, c); Math::sincosd(x, sx, cx);
  current_op() = "sincosd " + a[0] + " " + hx(d) + " " + hx(s) + " " + hx(c);
  emit(hx(sx) + " " + hx(cx));
});

// sincosde(x, t) for the Lean model: the model does the reduction remquo / AngRound(d0 + t), takes the special-value branches
// itself, and only in the generic branch uses the kernel values supplied here — an independent long double evaluation of
// sin/cos of the exactly reduced angle d0 + t (each as a double pair hi + lo)
static Reg r_sincosde("sincosde", [](const Args& a) {
  double x = unhx(a[0]), t = unhx(a[1]);
  long double d0 = remainderl((long double) x, 90.0L);               // exact
  long double ang = (d0 + (long double) t) * (w_pi<long double>() / 180);
  long double S = sinl(ang), C = cosl(ang);
  double sx, cx; Math::sincosde(x, t, sx, cx);
  current_op() = "sincosde " + a[0] + " " + a[1] + " " + hx((double) S) + " " + hx((double) C);
  emit(hx(sx) + " " + hx(cx));
});

// sincosd / sind / cosd / tand / atand for the full Lean models around oracle kernels: long double sin / cos of the exactly
// reduced angle, long double atan2 of atand's canonical octant problem (each rounded to double)
static Reg r_trig1("trig1", [](const Args& a) {
  double x = unhx(a[0]);
  long double d0 = remainderl((long double) x, 90.0L);               // exact
  long double ang = d0 * (w_pi<long double>() / 180);
  long double S = sinl(ang), C = cosl(ang);
  double yy = x, xx = 1; if (std::fabs(yy) > std::fabs(xx)) std::swap(xx, yy); if (std::signbit(xx)) xx = -xx;
  long double A = atan2l((long double) yy, (long double) xx);
  double sx, cx; Math::sincosd(x, sx, cx);
  current_op() = "trig1 " + a[0] + " " + hx((double) S) + " " + hx((double) C) + " " + hx((double) A);
  emit(hx(sx) + " " + hx(cx) + " " + hx(Math::sind(x)) + " " + hx(Math::cosd(x)) + " " + hx(Math::tand(x)) + " " + hx(Math::atand(x)));
});

static Reg r_atan2d("atan2d", [](const Args& a) {
  double y = unhx(a[0]), x = unhx(a[1]);
  // canonical octant problem (x' >= |y'|, x' >= 0): there atan2d is the bare kernel
  double xc = x, yc = y;
  if (std::fabs(yc) > std::fabs(xc)) std::swap(xc, yc);
  if (std::signbit(xc)) xc = -xc;
  double ang = Math::atan2d(yc, xc);
  double r = Math::atan2d(y, x);
  current_op() = "atan2d " + a[0] + " " + a[1] + " " + hx(ang);
  emit(hx(r));
});

// ------------------------------------------------------------------------------------------------------------------
// the one-argument battery (all instantiations)
// ------------------------------------------------------------------------------------------------------------------
template<class T> static std::string oneline(T x) { return std::string("one ") + P<T>::tag() + " " + tok(x); }

// returns the three exact-function results for the Lean side
template<class T> static void chk1(T x, T& an, T& ar, T& lf) {
  typedef typename P<T>::W W;
  const T inf = std::numeric_limits<T>::infinity();
  const T eps = std::numeric_limits<T>::epsilon();
  // ---- AngNormalize: the exact IEEE remainder, ±180 and 0 carry the sign of x
  an = Math::AngNormalize(x);
  if (!std::isfinite(x)) { if (!std::isnan(an)) bad("angnormalize-nonfinite", "non-finite argument must give NaN, got " + fmt(an)); }
  else {
    T r = std::remainder(x, T(360));
    bool ok = std::fabs(r) == 180 ? (std::fabs(an) == 180 && std::signbit(an) == std::signbit(x))
                                  : (an == r && (r != 0 || std::signbit(an) == std::signbit(x)));
    if (!ok) bad("angnormalize", "got " + fmt(an) + " exact remainder " + fmt(r));
  }
  // ---- AngRound: |x| >= 1/16 untouched; below, the nearest multiple of 1/16 - nextafter(1/16, 0) = 2^-(p+4); sign kept
  ar = Math::AngRound(x);
  if (std::isnan(x)) { if (!std::isnan(ar)) bad("anground", "NaN must stay NaN"); }
  else {
    T y = std::fabs(x), want;
    if (!(y < T(1) / 16)) want = y;
    else want = (T) w_ldexp(w_rint(w_ldexp((W) y, P<T>::p + 4)), -(P<T>::p + 4));
    want = std::copysign(want, x);
    if (!samebits(ar, want)) bad("anground", "got " + fmt(ar) + " want " + fmt(want));
  }
  // ---- LatFix
  lf = Math::LatFix(x);
  if (std::isnan(x) || std::fabs(x) > 90) { if (!std::isnan(lf)) bad("latfix", "outside [-90,90] must give NaN, got " + fmt(lf)); }
  else if (!samebits(lf, x)) bad("latfix", "inside [-90,90] must be the identity, got " + fmt(lf));
  // ---- sq: the correctly rounded square (exact residual by fma)
  {
    T r = Math::sq(x);
    if (std::isfinite(x) && std::isfinite(r) && std::fabs(r) > std::numeric_limits<T>::min() / eps) {
      T res = std::fma(x, x, -r);
      if (!(2 * std::fabs(res) <= ulpT(r))) bad("sq", "x*x not correctly rounded: " + fmt(r));
    } else if (std::isnan(x) != std::isnan(r)) bad("sq", "NaN handling");
  }
  // ---- sincosd / sind / cosd / tand
  T sx, cx; Math::sincosd(x, sx, cx);
  T sd = Math::sind(x), cd = Math::cosd(x), td = Math::tand(x);
  if (!std::isfinite(x)) {
    if (!(std::isnan(sx) && std::isnan(cx) && std::isnan(sd) && std::isnan(cd) && std::isnan(td)))
      bad("sincosd-nonfinite", "non-finite argument must give NaN");
  } else {
    W rs, rc; bool sp; refSinCos<T>(x, W(0), rs, rc, &sp);
    bool m3045 = std::remainder(x, T(30)) == 0 || std::remainder(x, T(45)) == 0;
    if (m3045) {
      // correctly rounded at multiples of 30 and 45 (closed forms 0, 1/2, sqrt(1/2), sqrt(3)/2, 1 rounded once)
      if (!((T) rs == sx)) bad("sincosd-special", "sin not correctly rounded at a multiple of 30/45: got " + fmt(sx) + " want " + fmt((T) rs));
      if (!((T) rc == cx)) bad("sincosd-special", "cos not correctly rounded at a multiple of 30/45: got " + fmt(cx) + " want " + fmt((T) rc));
    } else {
      double e1 = errUlps<T>(sx, rs), e2 = errUlps<T>(cx, rc);
      if (!(e1 <= 2.0)) bad("sincosd-accuracy", "sin err ulps=" + fmtd(e1) + " got " + fmt(sx));
      if (!(e2 <= 2.0)) bad("sincosd-accuracy", "cos err ulps=" + fmtd(e2) + " got " + fmt(cx));
    }
    // signed zeros: sin 0 has the sign of x (only source of -0), cos 0 is +0
    if (sx == 0 && std::signbit(sx) != std::signbit(x)) bad("sincosd-zero-sign", "zero sine must carry the sign of x");
    if (cx == 0 && std::signbit(cx)) bad("sincosd-zero-sign", "zero cosine must be +0");
    if (!(std::fabs(sx) <= 1 && std::fabs(cx) <= 1)) bad("sincosd-range", "outside [-1,1]");
    if (!samebits(sd, sx) || !samebits(cd, cx)) bad("sind-cosd-vs-sincosd", "sind/cosd differ from sincosd: " + fmt(sd) + " " + fmt(cd));
    T s2, c2; Math::sincosd(-x, s2, c2);
    if (!samebits(s2, -sx) || !samebits(c2, cx)) bad("sincosd-parity", "sin not odd or cos not even");
    // depends only on x mod 360 (exact shift when representable); a zero sine keeps the sign of its own argument
    for (int k = -1; k <= 1; k += 2) {
      T y;
      if (exactAdd<T>(x, T(360 * k), y)) {
        T s3, c3; Math::sincosd(y, s3, c3);
        if (!(sx == 0 ? s3 == 0 : samebits(s3, sx)) || !samebits(c3, cx)) bad("sincosd-period", "differs at x" + std::string(k > 0 ? "+" : "-") + "360");
      }
    }
    // "obey exactly the elementary properties": sin x = cos(90 - x) when 90 - x is exact
    {
      T z;
      if (exactAdd<T>(T(90), -x, z)) {
        T sz, cz; Math::sincosd(z, sz, cz);
        if (!(sz == cx && cz == sx)) bad("sincosd-cofunction", "sin(90-x) != cos x or cos(90-x) != sin x");
      }
    }
    // sincosde with a zero correction: the same reduction, branch and values when AngRound does not touch the reduced angle
    {
      T d0 = std::remainder(x, T(90)), se, ce;
      Math::sincosde(x, std::copysign(T(0), x), se, ce);
      if (d0 == 0 || std::fabs(d0) >= T(1) / 16) {
        if (!samebits(se, sx) || !samebits(ce, cx)) bad("sincosde-zero-correction", "sincosde(x, 0) differs from sincosd(x): " + fmt(se) + " " + fmt(ce));
      }
    }
    // tand: tangent of x; odd; ±1 at odd multiples of 45; finite and huge at odd multiples of 90
    if (rc == 0) {
      if (!(std::isfinite(td) && std::fabs(td) >= 1 / eps)) bad("tand-pole", "odd multiple of 90 must give a large finite value, got " + fmt(td));
    } else {
      W rt = rs / rc;
      if (std::remainder(x, T(45)) == 0 && std::remainder(x, T(90)) != 0) { if (!((T) rt == td)) bad("tand-special", "tand at an odd multiple of 45 is not ±1: " + fmt(td)); }
      else if (rs == 0) { if (td != 0) bad("tand-special", "tand at a multiple of 180 is not 0"); }
      else { double e = errUlps<T>(td, rt); if (!(e <= 6.0)) bad("tand-accuracy", "err ulps=" + fmtd(e) + " got " + fmt(td)); }
    }
    if (x == 0 && !samebits(td, x)) bad("tand-special", "tand(±0) must be ±0");
    if (!samebits(Math::tand(-x), -td)) bad("tand-odd", "tand(-x) != -tand(x)");
  }
  // ---- atand
  {
    T r = Math::atand(x);
    if (std::isnan(x)) { if (!std::isnan(r)) bad("atand", "NaN must give NaN"); }
    else {
      if (!(errUlps<T>(Math::atand(-x), -(W) r) <= 4.0)) bad("atand-accuracy", "atand(-x) is not -atand(x) to round-off");
      if (x == 0) { if (!samebits(r, x)) bad("atand-special", "atand(±0) must be ±0"); }
      else if (std::fabs(x) == 1) { if (r != std::copysign(T(45), x)) bad("atand-special", "atand(±1) must be ±45, got " + fmt(r)); }
      else if (std::fabs(x) == inf) { if (r != std::copysign(T(90), x)) bad("atand-special", "atand(±inf) must be ±90, got " + fmt(r)); }
      else {
        W ref = w_atan((W) x) * (180 / w_pi<W>());
        double e = errUlps<T>(r, ref);
        if (!(e <= 4.0)) bad("atand-accuracy", "err ulps=" + fmtd(e) + " got " + fmt(r));
        if (!(std::fabs(r) <= 90)) bad("atand-range", "outside [-90,90]");
      }
    }
  }
}

template<class T> static void op_one(const Args& a) {
  T x = untok<T>(a[1]), an, ar, lf;
  chk1<T>(x, an, ar, lf);
  emit(tok(an) + " " + tok(ar) + " " + tok(lf));
}
static Reg r_one("one", [](const Args& a) {
  if (a[0] == "f") op_one<float>(a); else if (a[0] == "l") op_one<long double>(a); else op_one<double>(a);
});

// every float bit pattern in [lo, hi): the battery only (a #BAD line names the single value as a replayable `one f x`)
static Reg r_f32scan("f32scan", [](const Args& a) {
  uint64_t lo = std::strtoull(a[0].c_str(), nullptr, 10), hi = std::strtoull(a[1].c_str(), nullptr, 10);
  std::string me = current_op();
  uint64_t n = 0;
  for (uint64_t b = lo; b < hi; ++b) {
    uint32_t u = (uint32_t) b; float x; std::memcpy(&x, &u, 4);
    current_op() = oneline<float>(x);
    float an, ar, lf; chk1<float>(x, an, ar, lf); ++n;
  }
  current_op() = me;
  stat("float_patterns_scanned", (long) n);
  emit(std::to_string(n));
});

// ------------------------------------------------------------------------------------------------------------------
// two-argument functions
// ------------------------------------------------------------------------------------------------------------------
template<class T> static void op_gsum(const Args& a) {
  T u = untok<T>(a[1]), v = untok<T>(a[2]), t; T s = Math::sum(u, v, t);
  // Accumulator<T>::fastsum (private, documented "requires abs(u) >= abs(v)", currently unused by the library): same contract
  T fs = s, ft = t;
  if (std::fabs(u) >= std::fabs(v)) fs = Accumulator<T>::fastsum(u, v, ft);
  emit(tok(s) + " " + tok(t) + " " + tok(fs) + " " + tok(ft));
}
static Reg r_gsum("gsum", [](const Args& a) {
  if (a[0] == "f") op_gsum<float>(a); else if (a[0] == "l") op_gsum<long double>(a); else op_gsum<double>(a);
});

template<class T> static void op_gangdiff(const Args& a) {
  T x = untok<T>(a[1]), y = untok<T>(a[2]), e; T d = Math::AngDiff(x, y, e);
  T d1 = Math::AngDiff(x, y);
  emit(tok(d) + " " + tok(e));
  if (!samebits(d, d1)) bad("angdiff-overloads", "AngDiff(x, y) differs from AngDiff(x, y, e)");
}
static Reg r_gangdiff("gangdiff", [](const Args& a) {
  if (a[0] == "f") op_gangdiff<float>(a); else if (a[0] == "l") op_gangdiff<long double>(a); else op_gangdiff<double>(a);
});

template<class T> static void op_gatan2d(const Args& a) {
  typedef typename P<T>::W W;
  T y = untok<T>(a[1]), x = untok<T>(a[2]);
  T r = Math::atan2d(y, x);
  emit(tok(r));
  if (std::isnan(x) || std::isnan(y)) { if (!std::isnan(r)) bad("atan2d-nan", "NaN argument must give NaN"); return; }
  W ref = w_atan2((W) y, (W) x) * (180 / w_pi<W>());
  double e = errUlps<T>(r, ref);
  bool axis = x == 0 || y == 0 || (std::fabs(x) == std::fabs(y));
  // an angle whose radian value is subnormal in T has lost relative accuracy inside atan2 itself
  // round-off of three operations (atan2, the rounded constant degree, the division) and of the final offset: 4 ulp
  if (!axis && w_fabs(ref) * (w_pi<W>() / 180) >= (W) std::numeric_limits<T>::min() && !(e <= 4.0)) bad("atan2d-accuracy", "err ulps=" + fmtd(e) + " got " + fmt(r));
  if (!(std::fabs(r) <= 180)) bad("atan2d-range", "result outside [-180,180]");
  // exact on the axes and the diagonals
  if (y == 0 && !samebits(r, std::signbit(x) ? std::copysign(T(180), y) : y)) bad("atan2d-axes", "y = ±0: got " + fmt(r));
  if (x == 0 && y != 0 && !samebits(r, std::copysign(T(90), y))) bad("atan2d-axes", "x = ±0: got " + fmt(r));
  if (std::fabs(x) == std::fabs(y) && x != 0 && !samebits(r, std::copysign(T(std::signbit(x) ? 135 : 45), y))) bad("atan2d-axes", "diagonal: got " + fmt(r));
  if (std::isinf(x) && std::isfinite(y) && !samebits(r, std::signbit(x) ? std::copysign(T(180), y) : std::copysign(T(0), y))) bad("atan2d-axes", "x = ±inf: got " + fmt(r));
  if (std::isinf(y) && std::isfinite(x) && !samebits(r, std::copysign(T(90), y))) bad("atan2d-axes", "y = ±inf: got " + fmt(r));
  // odd in y (to round-off; exactly on the axes, which is covered above)
  if (!(errUlps<T>(Math::atan2d(-y, x), -(W) r) <= 4.0)) bad("atan2d-accuracy", "atan2d(-y, x) is not -atan2d(y, x) to round-off");
  if (samebits(x, T(1)) && !samebits(Math::atand(y), r)) bad("atand-vs-atan2d", "atand(y) != atan2d(y, 1)");
}
static Reg r_gatan2d("gatan2d", [](const Args& a) {
  if (a[0] == "f") op_gatan2d<float>(a); else if (a[0] == "l") op_gatan2d<long double>(a); else op_gatan2d<double>(a);
});

template<class T> static void op_gsincosde(const Args& a) {
  typedef typename P<T>::W W;
  T x = untok<T>(a[1]), t = untok<T>(a[2]), sx, cx;
  Math::sincosde(x, t, sx, cx);
  emit(tok(sx) + " " + tok(cx));
  if (!(std::isfinite(x) && std::isfinite(t))) { if (!(std::isnan(sx) && std::isnan(cx))) bad("sincosde-nonfinite", "non-finite argument must give NaN"); return; }
  W rs, rc; bool sp; refSinCos<T>(x, (W) t, rs, rc, &sp);
  if (t == 0 && (std::remainder(x, T(30)) == 0 || std::remainder(x, T(45)) == 0)) {
    if (!((T) rs == sx)) bad("sincosde-special", "sin not correctly rounded at a multiple of 30/45: got " + fmt(sx) + " want " + fmt((T) rs));
    if (!((T) rc == cx)) bad("sincosde-special", "cos not correctly rounded at a multiple of 30/45: got " + fmt(cx) + " want " + fmt((T) rc));
  } else {
    // 2 ulp as sincosd + 1 ulp for rounding x + t to working precision + the documented AngRound gap (half of 2^-(p+4) degrees)
    W floor_ = w_ldexp(W(1), -(P<T>::p + 5)) * (w_pi<W>() / 180) * W(1.01);
    T us = ulpT((T) rs), uc = ulpT((T) rc);
    if (!(w_fabs((W) sx - rs) <= 3 * (W) us + floor_)) bad("sincosde-accuracy", "sin err ulps=" + fmtd(errUlps<T>(sx, rs)) + " got " + fmt(sx));
    if (!(w_fabs((W) cx - rc) <= 3 * (W) uc + floor_)) bad("sincosde-accuracy", "cos err ulps=" + fmtd(errUlps<T>(cx, rc)) + " got " + fmt(cx));
  }
  if (cx == 0 && std::signbit(cx)) bad("sincosde-zero-sign", "zero cosine must be +0");
  if (!(std::fabs(sx) <= 1 && std::fabs(cx) <= 1)) bad("sincosde-range", "outside [-1,1]");
  T s2, c2; Math::sincosde(-x, -t, s2, c2);
  if (!(sx == 0 ? s2 == 0 : samebits(s2, -sx)) || !samebits(c2, cx)) bad("sincosde-parity", "sin not odd or cos not even in (x, t)");
  for (int k = -1; k <= 1; k += 2) {
    T y;
    if (exactAdd<T>(x, T(360 * k), y)) {
      T s3, c3; Math::sincosde(y, t, s3, c3);
      if (!(sx == 0 ? s3 == 0 : samebits(s3, sx)) || !samebits(c3, cx)) bad("sincosde-period", "differs at x" + std::string(k > 0 ? "+" : "-") + "360");
    }
  }
}
static Reg r_gsincosde("gsincosde", [](const Args& a) {
  if (a[0] == "f") op_gsincosde<float>(a); else if (a[0] == "l") op_gsincosde<long double>(a); else op_gsincosde<double>(a);
});

// eatanhe / taupf / tauf
template<class T> static void op_gtaupf(const Args& a) {
  typedef typename P<T>::W W;
  const T eps = std::numeric_limits<T>::epsilon();
  T tau = untok<T>(a[1]), es = untok<T>(a[2]);
  T tp = Math::taupf(tau, es), back = Math::tauf(tp, es);
  emit(tok(tp) + " " + tok(back));
  // eatanhe(x, es) = es atanh(es x) (es > 0), -es atan(es x) (es <= 0), odd in x
  {
    T xx = tau / std::hypot(T(1), tau), ea = Math::eatanhe(xx, es);
    if (std::isfinite(xx) && std::fabs(es) < 1) {
      W ref = es > 0 ? (W) es * w_atanh((W) es * (W) xx) : -(W) es * w_atan((W) es * (W) xx);
      double e = errUlps<T>(ea, ref);
      // condition number of atanh at es*x (the product is rounded before atanh sees it); atan is well conditioned
      W ex = (W) es * (W) xx, cond = es > 0 && ex != 0 ? w_fabs(ex / ((1 - ex * ex) * w_atanh(ex))) : W(1);
      if (std::fabs(ea) >= std::numeric_limits<T>::min() && !(e <= 4.0 + 2 * (double) cond)) bad("eatanhe", "err ulps=" + fmtd(e));
      if (!(errUlps<T>(Math::eatanhe(-xx, es), -ref) <= 4.0 + 2 * (double) cond || std::fabs(ea) < std::numeric_limits<T>::min())) bad("eatanhe", "eatanhe(-x) is not -eatanhe(x) to round-off");
    }
  }
  if (!std::isfinite(tau) && !std::isnan(tau)) { if (!samebits(tp, tau)) bad("taupf-inf", "taupf(±inf) must be ±inf"); }
  if (std::isfinite(tau) && std::fabs(es) < 1) {
    W t = tau, e = es, t1 = w_hypot(W(1), t);
    W ea = e > 0 ? e * w_atanh(e * t / t1) : -e * w_atan(e * t / t1);
    W sig = w_sinh(ea), ref = w_hypot(W(1), sig) * t - sig * t1;
    // conditioning: for |es| close to 1 and large tau the subtraction cancels; scale the tolerance
    W aref = w_fabs(ref), big = w_fabs(w_hypot(W(1), sig) * t);
    W cond = aref > 0 ? big / aref : W(1); if (cond < 1) cond = 1;
    W tol = 8 * (W) ulpT((T) ref) * cond;
    if (!(w_fabs((W) tp - ref) <= tol)) bad("taupf-closed-form", "taupf differs from the closed form: got " + fmt(tp) + " want " + fmt((T) ref));
    // tauf(taupf(tau)) == tau with high relative accuracy; conditioning factor 1/(1-e^2) for oblate
    T rel = std::fabs(back - tau) / std::fmax(std::fabs(tau), std::numeric_limits<T>::min());
    T cnd = 1 / (1 - es * std::fabs(es)); if (cnd < 1) cnd = 1;
    // class of the inputs for which Math::tauf leaves through its early exit with the *low-order* starting guess taup/(1-e^2)
    // (|taup| <= 70 but |taup|/(1-e^2) >= taumax = 2/sqrt(eps)); decided from the inputs only
    bool lowguess = std::fabs(tp) <= 70 && !(std::fabs(tp / (1 - es * std::fabs(es))) < 2 / std::sqrt(eps));
    if (tau != 0 && std::fabs(tau) >= std::numeric_limits<T>::min() / eps && !(rel <= 64 * eps * cnd))
      bad("tauf-taupf", "relative error " + fmt(rel) + (lowguess ? " class=early-exit-on-low-order-guess" : ""));
    if (tau == 0 && back != 0) bad("tauf-taupf", "zero not preserved");
    // both maps are odd (to the same tolerances; bitwise symmetry is not part of the property)
    if (!(w_fabs((W) Math::taupf(-tau, es) + ref) <= tol)) bad("taupf-closed-form", "taupf(-tau) differs from -(closed form)");
    {
      T back2 = Math::tauf(-tp, es), rel2 = std::fabs(back2 + tau) / std::fmax(std::fabs(tau), std::numeric_limits<T>::min());
      if (tau != 0 && std::fabs(tau) >= std::numeric_limits<T>::min() / eps && !(rel2 <= 64 * eps * cnd))
        bad("tauf-taupf", "relative error " + fmt(rel2) + " at the mirrored argument" + (lowguess ? " class=early-exit-on-low-order-guess" : ""));
    }
  }
}
static Reg r_gtaupf("gtaupf", [](const Args& a) {
  if (a[0] == "f") op_gtaupf<float>(a); else if (a[0] == "l") op_gtaupf<long double>(a); else op_gtaupf<double>(a);
});

// ------------------------------------------------------------------------------------------------------------------
// the small helpers of Math.hpp: polyval, norm, hypot3, swab, NaN, infinity, pi, degree, digits
// ------------------------------------------------------------------------------------------------------------------
template<class T> static void op_gpoly(const Args& a) {
  typedef typename P<T>::W W;
  int N = std::atoi(a[1].c_str()); T x = untok<T>(a[2]);
  std::vector<T> p; for (size_t i = 3; i < a.size(); ++i) p.push_back(untok<T>(a[i]));
  if (p.empty()) p.push_back(T(0));
  T r = Math::polyval(N, p.data(), x);
  emit(tok(r));
  if (N < 0) { if (!samebits(r, T(0))) bad("polyval", "N < 0 must give 0"); return; }
  if (N == 0) { if (!samebits(r, p[0])) bad("polyval", "N = 0 must give p[0] whatever x is"); return; }
  if (!std::isfinite(x)) return;
  // value of the polynomial; Horner's rounding error is bounded by 2N eps sum |p_n| |x|^(N-n)
  W v = 0, m = 0;
  for (int n = 0; n <= N; ++n) { v = v * (W) x + (W) p[n]; m = m * w_fabs((W) x) + w_fabs((W) p[n]); }
  W tol = 2 * N * (W) std::numeric_limits<T>::epsilon() * m + (W) std::numeric_limits<T>::min();
  if (std::isfinite(r) && !(w_fabs((W) r - v) <= tol)) bad("polyval", "differs from the polynomial's value: got " + fmt(r) + " want " + fmt((T) v));
}
static Reg r_gpoly("gpoly", [](const Args& a) {
  if (a[0] == "f") op_gpoly<float>(a); else if (a[0] == "l") op_gpoly<long double>(a); else op_gpoly<double>(a);
});

template<class T> static void op_gnorm(const Args& a) {
  typedef typename P<T>::W W;
  T x = untok<T>(a[1]), y = untok<T>(a[2]), z = untok<T>(a[3]);
  T xn = x, yn = y; Math::norm(xn, yn);
  T h3 = Math::hypot3(x, y, z);
  emit(tok(xn) + " " + tok(yn) + " " + tok(h3));
  if (std::isfinite(x) && std::isfinite(y) && std::isfinite(z)) {
    W h = w_hypot((W) x, (W) y);
    if (h > 0 && (T) h >= std::numeric_limits<T>::min() && std::isfinite((T) h)) {
      if (!(errUlps<T>(xn, (W) x / h) <= 3.0 || std::fabs(xn) < std::numeric_limits<T>::min()) ||
          !(errUlps<T>(yn, (W) y / h) <= 3.0 || std::fabs(yn) < std::numeric_limits<T>::min()))
        bad("norm", "not x/hypot(x,y), y/hypot(x,y): " + fmt(xn) + " " + fmt(yn));
    }
    W r3 = w_hypot(w_hypot((W) x, (W) y), (W) z);
    if (std::isfinite((T) r3) && (T) r3 >= std::numeric_limits<T>::min() && !(errUlps<T>(h3, r3) <= 4.0)) bad("hypot3", "got " + fmt(h3) + " want " + fmt((T) r3));
  }
}
static Reg r_gnorm("gnorm", [](const Args& a) {
  if (a[0] == "f") op_gnorm<float>(a); else if (a[0] == "l") op_gnorm<long double>(a); else op_gnorm<double>(a);
});

template<class T> static std::string constline() {
  typedef typename P<T>::W W;
  T pi = Math::pi<T>(), deg = Math::degree<T>(), nan = Math::NaN<T>(), inf = Math::infinity<T>();
  if (!((T) w_pi<W>() == pi)) bad("pi", "pi<T>() is not the correctly rounded pi");
  if (!(errUlps<T>(deg, w_pi<W>() / 180) <= 1.0)) bad("degree", "degree<T>() is not pi/180 to 1 ulp");
  if (!std::isnan(nan)) bad("NaN", "NaN<T>() is not a NaN");
  if (!(std::isinf(inf) && inf > 0)) bad("infinity", "infinity<T>() is not +inf");
  return tok(pi) + " " + tok(deg);
}
static Reg r_gconst("gconst", [](const Args&) {
  std::string r = constline<float>() + " " + constline<double>() + " " + constline<long double>();
  if (Math::digits() != std::numeric_limits<Math::real>::digits || Math::digits10() != std::numeric_limits<Math::real>::digits10 ||
      Math::extra_digits() != 0 || Math::set_digits(100) != Math::digits()) bad("digits", "digits()/digits10()/extra_digits()/set_digits() wrong for double");
  if (!(Math::NaN<int>() == std::numeric_limits<int>::max() && Math::infinity<int>() == std::numeric_limits<int>::max())) bad("NaN-int", "int versions must return max()");
  if (Math::qd != 90 || Math::hd != 180 || Math::td != 360 || Math::dm != 60 || Math::ms != 60 || Math::ds != 3600) bad("degree-constants", "qd/hd/td/dm/ms/ds");
  emit(r);
});
static Reg r_swab("swab", [](const Args& a) {
  uint64_t b = std::strtoull(a[0].c_str(), nullptr, 16);
  auto rev = [](uint64_t v, int n) { uint64_t r = 0; for (int i = 0; i < n; ++i) r |= ((v >> (8 * i)) & 0xffULL) << (8 * (n - 1 - i)); return r; };
  uint64_t r8 = Math::swab<uint64_t>(b); uint32_t r4 = Math::swab<uint32_t>((uint32_t) b); uint16_t r2 = Math::swab<uint16_t>((uint16_t) b);
  double d; std::memcpy(&d, &b, 8); double ds = Math::swab<double>(d); uint64_t db; std::memcpy(&db, &ds, 8);
  float f; uint32_t b4 = (uint32_t) b; std::memcpy(&f, &b4, 4); float fs = Math::swab<float>(f); uint32_t fb; std::memcpy(&fb, &fs, 4);
  char buf[40]; std::snprintf(buf, sizeof buf, "%016llx", (unsigned long long) r8); emit(buf);
  // (signalling-NaN payloads may be quietened when a double is passed by value through the x87 stack: compare modulo the quiet bit)
  if (r8 != rev(b, 8) || r4 != (uint32_t) rev((uint32_t) b, 4) || r2 != (uint16_t) rev((uint16_t) b, 2)) bad("swab", "integer byte swap wrong");
  if (!std::isnan(d) && !std::isnan(ds) && db != rev(b, 8)) bad("swab", "double byte swap wrong");
  if (!std::isnan(f) && !std::isnan(fs) && fb != (uint32_t) rev(b4, 4)) bad("swab", "float byte swap wrong");
  if (Math::swab<uint64_t>(r8) != b) bad("swab", "not an involution");
});

// ------------------------------------------------------------------------------------------------------------------
// Accumulator<float|double>: histories over every public member.  After each operation the state (_s, _t) is reported
// (and the returned value for queries), the relations are decided in Lean in exact dyadic arithmetic.
//   s:<y> operator=(y)      S:<y> Accumulator(y) + copy-assignment      a:<y> +=     d:<y> -=     n  *= -1     i:<n> *= int
//   m:<y> *= y              c copy-construct / assign round trip          R:<y> remainder(y)        q:<y> operator()(y) (const)
//   k:<y> == != < <= > >= against y (const)
// ------------------------------------------------------------------------------------------------------------------
template<class T> static void op_gacc(const Args& a) {
  Accumulator<T> acc;
  std::string res;
  auto st = [&](const Accumulator<T>& z) { return tok(z._s) + " " + tok(z._t); };
  res = st(acc);                                   // state of a default-constructed accumulator
  if (!samebits(acc(), T(0))) bad("accum-default", "Accumulator() does not hold 0");
  for (size_t i = 1; i < a.size(); ++i) {
    const std::string& t = a[i];
    T y = t.size() > 2 && t[0] != 'i' ? untok<T>(t.substr(2)) : T(0);
    Accumulator<T> before(acc);
    std::string extra;
    switch (t[0]) {
    case 's': acc = y; break;
    case 'S': { Accumulator<T> b(y); acc = b; break; }
    case 'a': acc += y; break;
    case 'd': acc -= y; break;
    case 'n': acc *= -1; break;
    case 'i': acc *= std::atoi(t.c_str() + 2); break;
    case 'm': acc *= y; break;
    case 'c': { Accumulator<T> b(acc); acc = Accumulator<T>(); acc = b; break; }
    case 'R': acc.remainder(y); extra = " " + tok(acc()); break;
    case 'q': {
      const Accumulator<T>& ca = acc; T q = ca(y); Accumulator<T> b(acc); b += y;
      if (!samebits(q, b())) bad("accum-sum-const", "operator()(y) differs from (acc += y)()");
      extra = " " + tok(q); break;
    }
    case 'k': {
      const Accumulator<T>& ca = acc; T v = ca();
      bool ok = (ca == y) == (v == y) && (ca != y) == (v != y) && (ca < y) == (v < y) && (ca <= y) == (v <= y) && (ca > y) == (v > y) && (ca >= y) == (v >= y);
      if (!ok) bad("accum-compare", "comparison operators disagree with the reported value");
      break;
    }
    default: bad("harness", "unknown accumulator token " + t);
    }
    if ((t[0] == 'q' || t[0] == 'k' || t[0] == 'c') && !(samebits(acc._s, before._s) && samebits(acc._t, before._t)))
      bad("accum-const", "a const query / copy changed the accumulator");
    if (!samebits(acc(), acc._s)) bad("accum-report", "operator()() is not the high word");
    res += " " + st(acc) + extra;
  }
  emit(res);
}
static Reg r_gacc("gacc", [](const Args& a) { if (a[0] == "f") op_gacc<float>(a); else op_gacc<double>(a); });

// ------------------------------------------------------------------------------------------------------------------
// generators
// ------------------------------------------------------------------------------------------------------------------
static const std::vector<double> kAnch = {0, 30, 45, 60, 90, 120, 135, 150, 180, 210, 225, 240, 270, 300, 315, 330, 360, 540, 720,
                                          1.0 / 16, 1.0 / 32, 1.0 / 64, 3.0 / 64, 15, 75, 1, 89, 91, 179, 181};
template<class T> static T nasty(Rng& r) {
  const T inf = std::numeric_limits<T>::infinity();
  T x;
  switch (r.irange(0, 11)) {
  case 0: x = (T) r.pick(kAnch); break;
  case 1: { x = (T) r.pick(kAnch); for (int k = r.irange(1, 3); k--; ) x = std::nextafter(x, inf); break; }
  case 2: { x = (T) r.pick(kAnch); for (int k = r.irange(1, 3); k--; ) x = std::nextafter(x, -inf); break; }
  case 3: x = (T) r.range(-180, 180); break;
  case 4: x = (T) r.range(-720, 720); break;
  case 5: x = std::ldexp((T) r.range(1, 2) + (T) r.u() * std::numeric_limits<T>::epsilon(),
                         r.irange(std::numeric_limits<T>::min_exponent - std::numeric_limits<T>::digits, std::numeric_limits<T>::max_exponent - 1)); break;
  case 6: x = T(90) * (T) r.irange(-100000, 100000); break;
  case 7: x = T(30) * (T) r.irange(-24, 24) + (T) r.irange(-2, 2) * std::ldexp(T(1), -r.irange(std::numeric_limits<T>::digits - 13, std::numeric_limits<T>::digits - 1)); break;
  case 8: x = (T) r.pick(kAnch) + T(360) * (T) r.irange(-5, 5); break;
  case 9: x = T(15) * (T) r.irange(-2000, 2000); break;
  case 10: x = std::ldexp((T) r.range(-1, 1), -r.irange(3, 12)); break;          // around the AngRound threshold 1/16
  default: x = std::ldexp((T) r.irange(1, 1 << 20), r.irange(-30, 30)); break;
  }
  if (r.coin()) x = -x;
  return x;
}
template<class T> static T special_or(Rng& r, T x) {
  const T inf = std::numeric_limits<T>::infinity();
  switch (r.irange(0, 5)) { case 0: return std::numeric_limits<T>::quiet_NaN(); case 1: return inf; case 2: return -inf;
    case 3: return r.coin() ? T(0) : -T(0); case 4: return std::numeric_limits<T>::denorm_min() * (T) r.irange(1, 5) * (r.coin() ? 1 : -1);
    default: return x; }
}

template<class T> static void gen_T(Rng& r, long n) {
  const std::string tg = P<T>::tag();
  const T eps = std::numeric_limits<T>::epsilon();
  const int p = std::numeric_limits<T>::digits, emin = std::numeric_limits<T>::min_exponent - p, emax = std::numeric_limits<T>::max_exponent;
  for (long i = 0; i < n; ++i) {
    T x = nasty<T>(r), y = nasty<T>(r);
    if (i % 97 == 0) x = special_or<T>(r, x);
    stratum("one-" + tg); run("one", {tg, tok(x)});
    // ---- AngDiff pairs: related magnitudes to exercise cancellation and the ±180 / 0 sign rules
    if (i % 3 == 0) y = x + (T) r.pick(std::vector<double>{0, 180, -180, 360, -360, 1e-13, 90});
    if (i % 5 == 0) y = -x;
    if (i % 7 == 0) { y = x + T(180); for (int k = r.irange(0, 2); k--; ) y = std::nextafter(y, r.coin() ? T(1e30) : T(-1e30)); }
    stratum("angdiff-" + tg); run("gangdiff", {tg, tok(x), tok(y)});
    // ---- sum pairs: equal exponents, 1..p+8 binades apart, cancellation, subnormals, near overflow
    T u = std::ldexp((T) r.range(-2, 2), r.irange(-60, 60)), v;
    switch (i % 8) {
    case 0: v = -u * (1 + (T) r.irange(-3, 3) * eps); break;
    case 1: v = std::ldexp((T) r.range(-2, 2), std::ilogb(u == 0 ? T(1) : u) - r.irange(0, p + 8)); break;
    case 2: u = std::ldexp((T) r.range(1, 2), r.irange(emin, emin + 2 * p)); v = std::ldexp((T) r.range(-2, 2), r.irange(emin, emin + 2 * p)); break;
    case 3: u = std::ldexp((T) r.range(1, 2), emax - 3) * (r.coin() ? 1 : -1); v = std::ldexp((T) r.range(1, 2), r.irange(emax - 3 - p - 4, emax - 3)) * (r.coin() ? 1 : -1); break;
    case 4: u = (T) r.irange(-1000, 1000); v = std::ldexp((T) r.irange(-1000, 1000), -r.irange(0, p + 3)); break;   // ties
    default: v = std::ldexp((T) r.range(-2, 2), r.irange(-60, 60)); break;
    }
    if (i % 89 == 0) v = special_or<T>(r, v);
    stratum("sum-" + tg); run("gsum", {tg, tok(u), tok(v)});
    // ---- atan2d: octants, axes, diagonals, signed zeros, infinities, huge ratios
    T ay = (i % 7 == 0) ? (T) r.pick(std::vector<double>{0.0, -0.0, 1, -1, 1e-30, INFINITY, -INFINITY}) : std::ldexp((T) r.range(-1, 1), r.irange(-40, 40));
    T ax = (i % 11 == 0) ? r.pick(std::vector<T>{T(0), -T(0), T(1), T(-1), ay, -ay, std::numeric_limits<T>::infinity()}) : std::ldexp((T) r.range(-1, 1), r.irange(-40, 40));
    if (i % 13 == 0) ax = T(1);
    stratum("atan2d-" + tg); run("gatan2d", {tg, tok(ay), tok(ax)});
    // ---- sincosde: x mostly in the documented range, correction t tiny / below half an ulp of the reduced angle / moderate
    {
      T xe = (i % 4 == 0) ? nasty<T>(r) : (T) (30 * r.irange(-12, 12)) + ((i % 4 == 1) ? T(0) : (T) r.irange(-3, 3) * std::ldexp(T(1), -r.irange(p - 14, p - 1)));
      if (i % 4 == 3) xe = (T) r.range(-180, 180);
      T te;
      switch (r.irange(0, 7)) {
      case 0: te = T(0); break; case 1: te = -T(0); break;
      case 2: te = std::ldexp((T) r.range(-1, 1), -p - r.irange(0, 12)) * std::fmax(std::fabs(std::remainder(xe, T(90))), T(1)); break;   // rounds away or nearly
      case 3: te = std::ldexp((T) r.range(-1, 1), -r.irange(p - 10, p + 4)); break;
      case 4: te = std::ldexp((T) r.range(-1, 1), -r.irange(8, 20)); break;
      case 5: te = -std::remainder(xe, T(90)); break;                                                                                     // exact cancellation of the reduced angle
      case 6: te = std::ldexp((T) r.range(-1, 1), -r.irange(p + 2, p + 30)); break;                                                       // far below the AngRound gap
      default: te = (T) r.irange(-3, 3) * std::ldexp(T(1), -(p + 4)); break;                                                              // multiples of the AngRound gap
      }
      if (i % 101 == 0) te = special_or<T>(r, te);
      stratum("sincosde-" + tg); run("gsincosde", {tg, tok(xe), tok(te)});
      if (tg == "d") run("sincosde", {hx((double) xe), hx((double) te)});
    }
    if (i % 2 == 0) {
      T es = (T) r.range(-0.999, 0.999); if (i % 6 == 0) es = (T) r.pick(std::vector<double>{0.0818191908426, -0.0818191908426, 0.0, 0.5, -0.5, 0.99, -0.99});
      T tau = std::ldexp((T) r.range(1, 2), r.irange(-60, 60)) * (r.coin() ? 1 : -1);
      if (i % 34 == 0) tau = (T) r.pick(std::vector<double>{0.0, -0.0, INFINITY, -INFINITY, 70, -70, 71, -71, 1e8, -1e8, 2e8, -2e8, 1e9, -1e9});
      stratum("taupf-" + tg); run("gtaupf", {tg, tok(tau), tok(es)});
      // deterministic witness of finding F76 on Math::tauf (early exit on the low-order guess; repaired in b3c5a1d), double
      if (i % 1000 == 0 && tg == "d") { stratum("taupf-d-extreme-eccentricity"); run("gtaupf", {tg, tok(T(270000)), tok(T(0.9999999))}); }
    }
    if (i % 20 == 0) {
      int N = r.irange(-1, 8); Args pa = {tg, std::to_string(N), tok(i % 60 == 0 ? special_or<T>(r, T(1)) : std::ldexp((T) r.range(-2, 2), r.irange(-8, 8)))};
      for (int k = 0; k <= std::max(N, 0); ++k) pa.push_back(tok(std::ldexp((T) r.range(-1, 1), r.irange(-10, 10))));
      stratum("polyval-" + tg); run("gpoly", pa);
      T a1 = std::ldexp((T) r.range(-1, 1), r.irange(-50, 50)), a2 = std::ldexp((T) r.range(-1, 1), r.irange(-50, 50)), a3 = std::ldexp((T) r.range(-1, 1), r.irange(-50, 50));
      if (i % 40 == 0) { a1 = std::ldexp(a1, emax / 2 + 10); a2 = std::ldexp(a2, emax / 2 + 10); a3 = std::ldexp(a3, emax / 2 + 10); }
      stratum("norm-hypot3-" + tg); run("gnorm", {tg, tok(a1), tok(a2), tok(a3)});
    }
  }
}

// accumulator histories
template<class T> static void gen_acc(Rng& r, long n) {
  const std::string tg = P<T>::tag();
  const int p = std::numeric_limits<T>::digits;
  for (long i = 0; i < n; ++i) {
    Args ops = {tg}; int len = r.irange(1, 30);
    // regimes: 0 mixed magnitudes; 1 huge sum reduced by a small modulus (the low word matters after remainder); 2 cancellations;
    // 3 tiny / subnormal addends
    int regime = r.irange(0, 3);
    auto val = [&]() -> T {
      switch (regime) {
      case 1: return r.coin() ? std::ldexp((T) r.range(-1, 1), r.irange(p - 6, p + 12)) * 360 : (T) r.range(-400, 400);
      case 2: return (T) r.pick(std::vector<double>{1, -1, 3e-17, -3e-17, 1e16, -1e16, 0.1, -0.1, 360, -360}) * (r.coin() ? T(1) : (T) r.range(0.5, 2));
      case 3: return std::ldexp((T) r.range(-1, 1), std::numeric_limits<T>::min_exponent - r.irange(-10, p));
      default: return std::ldexp((T) r.range(-1, 1), r.irange(-30, 30));
      }
    };
    for (int k = 0; k < len; ++k) {
      int c = r.irange(0, 19);
      if (c < 8) ops.push_back("a:" + tok(val()));
      else if (c < 10) ops.push_back("d:" + tok(val()));
      else if (c == 10) ops.push_back(r.coin() ? "s:" + tok(val()) : "S:" + tok(val()));
      else if (c == 11) ops.push_back("n");
      else if (c == 12) ops.push_back("i:" + std::to_string(r.pick(std::vector<int>{-1, 1, 2, -2, 4, -8, 1024})));   // documented: only ± powers of two
      else if (c == 13) ops.push_back("m:" + tok((T) r.range(-3, 3)));
      else if (c == 14) ops.push_back("c");
      else if (c == 15) ops.push_back("q:" + tok(val()));
      else if (c == 16) ops.push_back("k:" + tok(r.coin() ? T(0) : val()));
      else ops.push_back("R:" + tok(r.coin() ? (T) r.pick(std::vector<double>{360.0, -360.0, 180.0, 1.0, 0.7, 7.0, 510065621724089.0, 1e-3}) : val()));
    }
    if (i % 41 == 0) ops.push_back("R:" + tok(special_or<T>(r, T(360))));
    if (i % 43 == 0) ops.push_back("a:" + tok(special_or<T>(r, T(1))));
    stratum("accumulator-" + tg + "-regime" + std::to_string(regime)); run("gacc", ops);
  }
}

void gv::generate(const std::string& tier, uint64_t seed) {
  Rng r(seed * 1000003 + 16);
  bool thorough = tier == "thorough";
  long n = thorough ? 100000 : 20000;
  run("gconst", {});
  // ---- double ops judged by the Lean binary64 model
  for (long i = 0; i < n; ++i) {
    double x = nasty_angle(r), y = nasty_angle(r);
    if (i % 97 == 0) x = r.coin() ? NAN : (r.coin() ? INFINITY : -INFINITY);
    run("angnorm", {hx(x)});
    run("anground", {hx(x)});
    run("latfix", {hx(x)});
    run("sincosd", {hx(x)});
    run("trig1", {hx(i % 9 == 0 ? std::ldexp(r.range(-2, 2), r.irange(-70, 70)) : x)});
    if (i % 3 == 0) y = x + r.pick(std::vector<double>{0, 180, -180, 360, -360, 1e-13, 90});
    if (i % 5 == 0) y = -x;
    run("angdiff", {hx(x), hx(y)});
    double u = std::ldexp(r.range(-2, 2), r.irange(-60, 60)), v = (i % 4 == 0) ? -u * (1 + r.irange(-3, 3) * 2.2e-16) : std::ldexp(r.range(-2, 2), r.irange(-60, 60));
    if (i % 50 == 0) { u = std::ldexp(r.range(1, 2), r.irange(-1074, -1000)); v = std::ldexp(r.range(-2, 2), r.irange(-1074, -1000)); }
    if (i % 53 == 0) { u = std::ldexp(r.range(1, 2), 1000); v = std::ldexp(r.range(1, 2), r.irange(900, 1000)); }
    run("sum", {hx(u), hx(v)});
    double ay = (i % 7 == 0) ? r.pick(std::vector<double>{0.0, -0.0, 1, -1, 1e-300, INFINITY}) : std::ldexp(r.range(-1, 1), r.irange(-40, 40));
    double ax = (i % 11 == 0) ? r.pick(std::vector<double>{0.0, -0.0, 1, -1, ay, -ay}) : std::ldexp(r.range(-1, 1), r.irange(-40, 40));
    run("atan2d", {hx(ay), hx(ax)});
    if (i % 256 == 0) { char b[24]; std::snprintf(b, sizeof b, "%016llx", (unsigned long long) r.next()); run("swab", {b}); }
    if (i < 3) sample(current_op());
  }
  // ---- every instantiation: exact relations in Lean at the instantiation's precision, libm-based ones against the wider type
  long m = thorough ? 30000 : 6000;
  gen_T<float>(r, m); gen_T<double>(r, m); gen_T<long double>(r, m);
  gen_acc<double>(r, m / 3); gen_acc<float>(r, m / 3);
  // ---- float: uniformly random bit patterns in the quick tier, all 2^32 in the thorough tier (16 processes x 2^28)
  if (!thorough) {
    for (long i = 0; i < 20000; ++i) { uint32_t b = (uint32_t) r.next(); float x; std::memcpy(&x, &b, 4); stratum("one-f-random-bits"); run("one", {"f", tok(x)}); }
    uint64_t lo = (r.next() >> 32) & ~0xfffffULL; stratum("f32scan-window"); run("f32scan", {std::to_string(lo), std::to_string(lo + (1u << 20))});
  } else {
    uint64_t k = seed % 100;
    if (k < 16) for (uint64_t c = 0; c < 256; ++c) {
      uint64_t lo = (k << 28) + (c << 20); stratum("f32scan-exhaustive"); run("f32scan", {std::to_string(lo), std::to_string(lo + (1u << 20))});
    }
  }
}
int main(int argc, char** argv) { return gv::main_(argc, argv); }
