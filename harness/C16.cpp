// C16: angle arithmetic and exact-summation primitives.
#include "common.hpp"
#include <GeographicLib/Math.hpp>
#include <GeographicLib/Accumulator.hpp>
using namespace GeographicLib; using namespace gv;

static Reg r_angnorm("angnorm", [](const Args& a) {
  double x = unhx(a[0]); emit(hx(Math::AngNormalize(x)));
});
static Reg r_sum("sum", [](const Args& a) {
  double u = unhx(a[0]), v = unhx(a[1]), t; double s = Math::sum(u, v, t); emit(hx(s) + " " + hx(t));
});
static Reg r_angdiff("angdiff", [](const Args& a) {
  double x = unhx(a[0]), y = unhx(a[1]), e; double d = Math::AngDiff(x, y, e); emit(hx(d) + " " + hx(e));
});
static Reg r_anground("anground", [](const Args& a) { emit(hx(Math::AngRound(unhx(a[0])))); });
static Reg r_latfix("latfix", [](const Args& a) { emit(hx(Math::LatFix(unhx(a[0])))); });

// long double references (x87 80-bit: 64-bit mantissa)
static long double sinl_deg(double x) {
  // exact reduction then long double kernel
  int q; double d = std::remquo(x, 90.0, &q);
  long double r = (long double)d * (3.14159265358979323846264338327950288L / 180);
  long double s = sinl(r), c = cosl(r);
  switch (unsigned(q) & 3U) { case 0: return s; case 1: return c; case 2: return -s; default: return -c; }
}
static long double cosl_deg(double x) {
  int q; double d = std::remquo(x, 90.0, &q);
  long double r = (long double)d * (3.14159265358979323846264338327950288L / 180);
  long double s = sinl(r), c = cosl(r);
  switch (unsigned(q) & 3U) { case 0: return c; case 1: return -s; case 2: return -c; default: return s; }
}
static double ulps(double got, long double ref) {
  if (ref == 0) return got == 0 ? 0 : INFINITY;
  double u = ulp((double)ref);
  double lo = std::ldexp(1.0, -1022);
  if (std::fabs((double)ref) < lo) u = std::ldexp(1.0, -1074);
  return (double)(fabsl((long double)got - ref) / u);
}

static Reg r_sincosd("sincosd", [](const Args& a) {
  // wrapper correspondence: kernel values are the implementation's own results on the reduced argument
  double x = unhx(a[0]);
  int q; double d = std::remquo(x, 90.0, &q);
  double s, c, sx, cx; Math::sincosd(d, s, c); Math::sincosd(x, sx, cx);
  if (a.size() < 4) current_op() = "sincosd " + a[0] + " " + hx(d) + " " + hx(s) + " " + hx(c);
  emit(hx(sx) + " " + hx(cx));
  if (std::isfinite(x)) {
    // property-level: accuracy (2 ulp), consistency of sind/cosd, odd/even, exact special values
    double e1 = ulps(sx, sinl_deg(x)), e2 = ulps(cx, cosl_deg(x));
    if (sinl_deg(x) != 0 && !(e1 <= 2.0)) bad("sincosd-accuracy", "sin err ulps=" + std::to_string(e1));
    if (cosl_deg(x) != 0 && !(e2 <= 2.0)) bad("sincosd-accuracy", "cos err ulps=" + std::to_string(e2));
    if (bits(Math::sind(x)) != bits(sx) || bits(Math::cosd(x)) != bits(cx)) bad("sind-cosd-vs-sincosd", "sind/cosd differ from sincosd");
    double s2, c2; Math::sincosd(-x, s2, c2);
    if (bits(s2) != bits(-sx) || bits(c2) != bits(cx)) bad("sincosd-parity", "sin not odd or cos not even");
    double m30 = std::remainder(x, 30.0), m45 = std::remainder(x, 45.0);
    if (m30 == 0 || m45 == 0) {
      // correctly rounded at multiples of 30 and 45
      if (bits((double)sinl_deg(x)) != bits(sx) && !(sx == 0 && sinl_deg(x) == 0)) bad("sincosd-special", "sin not correctly rounded at a multiple of 30/45");
      if (bits((double)cosl_deg(x)) != bits(cx) && !(cx == 0 && cosl_deg(x) == 0)) bad("sincosd-special", "cos not correctly rounded at a multiple of 30/45");
    }
    // depends only on x mod 360 (exact shift when representable)
    double y = x + 360.0;
    if (y - 360.0 == x && std::fabs(x) > 1e-3) {
      double s3, c3; Math::sincosd(y, s3, c3);
      if (std::remainder(y, 360.0) == std::remainder(x, 360.0) && (bits(s3) != bits(sx) || bits(c3) != bits(cx)) && !(sx == 0)) bad("sincosd-period", "differs at x+360");
    }
    double t = Math::tand(x);
    if (cx != 0 && std::fabs(sx / cx) < 1 / (2.2e-16 * 2.2e-16)) { if (bits(t) != bits(sx / cx)) bad("tand", "tand != sin/cos"); }
  }
});

static Reg r_atan2d("atan2d", [](const Args& a) {
  double y = unhx(a[0]), x = unhx(a[1]);
  // canonical octant problem (x' >= |y'|, x' >= 0): there atan2d is the bare kernel
  double xc = x, yc = y;
  if (std::fabs(yc) > std::fabs(xc)) std::swap(xc, yc);
  if (std::signbit(xc)) xc = -xc;
  double ang = Math::atan2d(yc, xc);
  double r = Math::atan2d(y, x);
  current_op() = "atan2d " + a[0] + " " + a[1] + " " + hx(ang);
  emit(hx(r));
  if (!std::isnan(x) && !std::isnan(y)) {
    long double ref = atan2l((long double)y, (long double)x) * (180 / 3.14159265358979323846264338327950288L);
    double e = ulps(r, ref);
    if (fabsl(ref) > 1e-290L && !(e <= 2.0)) bad("atan2d-accuracy", "err ulps=" + std::to_string(e));
    if (!(std::fabs(r) <= 180)) bad("atan2d-range", "result outside [-180,180]");
    // exact on the axes
    if (y == 0 && x != 0 && !(r == (std::signbit(x) ? std::copysign(180.0, y) : y) || (r == 0 && y == 0))) bad("atan2d-axes", "y=0");
    if (x == 0 && y != 0 && std::fabs(r) != 90) bad("atan2d-axes", "x=0");
    if (std::fabs(x) == std::fabs(y) && std::isfinite(x) && x != 0 && std::fabs(std::fabs(r) - (x > 0 ? 45 : 135)) != 0) bad("atan2d-axes", "diagonal");
  }
});

static Reg r_taupf("taupf", [](const Args& a) {
  double tau = unhx(a[0]), es = unhx(a[1]);
  double tp = Math::taupf(tau, es), back = Math::tauf(tp, es);
  emit(hx(tp) + " " + hx(back));
  if (std::isfinite(tau) && std::fabs(es) < 1) {
    // closed form in long double
    long double t = tau, e = es, t1 = hypotl(1.0L, t);
    long double ea = e > 0 ? e * atanhl(e * t / t1) : -e * atanl(e * t / t1);
    long double sig = sinhl(ea), ref = hypotl(1.0L, sig) * t - sig * t1;
    // conditioning: for |es| close to 1 and large tau the subtraction cancels; scale tolerance
    double tol = 8 * ulp((double)ref) * std::fmax(1.0, (double)(fabsl(hypotl(1.0L, sig) * t) / fmaxl(fabsl(ref), 1e-300L)));
    if (!(fabsl((long double)tp - ref) <= tol)) bad("taupf-closed-form", "taupf differs from closed form by " + std::to_string((double)fabsl(tp - ref)));
    double rel = std::fabs(back - tau) / std::fmax(std::fabs(tau), 1e-300);
    // tauf(taupf(tau)) == tau with high relative accuracy; conditioning factor 1/(1-e^2) for oblate
    double cond = 1 / (1 - es * std::fabs(es)); if (cond < 1) cond = 1;
    if (tau != 0 && !(rel <= 64 * 2.2e-16 * cond)) bad("tauf-taupf", "relative error " + std::to_string(rel));
    if (tau == 0 && back != 0) bad("tauf-taupf", "zero not preserved");
  }
});

static Reg r_accum("accum", [](const Args& a) {
  // args: sequence of ops "a:<hex>" add, "n" negate, "i:<int>" times int, "m:<hex>" times double
  Accumulator<double> acc;
  for (auto& t : a) {
    if (t[0] == 'a') acc += unhx(t.substr(2));
    else if (t[0] == 'n') acc *= -1;
    else if (t[0] == 'i') acc *= std::atoi(t.c_str() + 2);
    else if (t[0] == 'm') acc *= unhx(t.substr(2));
    else if (t[0] == 's') acc = unhx(t.substr(2));                 // assignment: the held sum is exactly y afterwards
    else if (t[0] == 'd') acc -= unhx(t.substr(2));
    else if (t[0] == 'c') { Accumulator<double> b(acc); acc = Accumulator<double>(); acc = b; }   // copy round trip
    else if (t[0] == 'r') {                                      // remainder on a copy: must not disturb the accumulator it was copied from
      // (no range oracle: the header's "[-y/2, y/2]" holds only up to the low word, e.g. s = -3147257530813685.5, t = 0.047, y = 1 gives
      //  0.547; the property does not speak about it — observation O3 in DESIGN.md)
      double y = unhx(t.substr(2)); Accumulator<double> b(acc); b.remainder(y);
    }
    else if (t[0] == 'q') {                                      // Sum(y) is const and equals (acc += y)()
      double y = unhx(t.substr(2)); Accumulator<double> b(acc); double q = acc.Sum(y); b += y;
      if (!(q == b() || (std::isnan(q) && std::isnan(b())))) bad("accum-sum-const", "Sum(y) differs from (acc += y)()");
    }
  }
  emit(hx(acc._s) + " " + hx(acc._t));
});

void gv::generate(const std::string& tier, uint64_t seed) {
  Rng r(seed * 1000003 + 16);
  long n = tier == "thorough" ? 400000 : 20000;
  for (long i = 0; i < n; ++i) {
    double x = nasty_angle(r), y = nasty_angle(r);
    if (i % 97 == 0) x = r.coin() ? NAN : (r.coin() ? INFINITY : -INFINITY);
    run("angnorm", {hx(x)});
    run("anground", {hx(x)});
    run("latfix", {hx(x)});
    run("sincosd", {hx(x)});
    // pairs: related magnitudes to exercise cancellation
    if (i % 3 == 0) y = x + r.pick(std::vector<double>{0, 180, -180, 360, -360, 1e-13, 90}) ;
    if (i % 5 == 0) y = -x;
    run("angdiff", {hx(x), hx(y)});
    double u = std::ldexp(r.range(-2, 2), r.irange(-60, 60)), v = (i % 4 == 0) ? -u * (1 + r.irange(-3, 3) * 2.2e-16) : std::ldexp(r.range(-2, 2), r.irange(-60, 60));
    if (i % 50 == 0) { u = std::ldexp(r.range(1, 2), r.irange(-1074, -1000)); v = std::ldexp(r.range(-2, 2), r.irange(-1074, -1000)); }
    if (i % 53 == 0) { u = std::ldexp(r.range(1, 2), 1000); v = std::ldexp(r.range(1, 2), r.irange(900, 1000)); }
    run("sum", {hx(u), hx(v)});
    double ay = (i % 7 == 0) ? r.pick(std::vector<double>{0.0, -0.0, 1, -1, 1e-300, INFINITY}) : std::ldexp(r.range(-1, 1), r.irange(-40, 40));
    double ax = (i % 11 == 0) ? r.pick(std::vector<double>{0.0, -0.0, 1, -1, ay, -ay}) : std::ldexp(r.range(-1, 1), r.irange(-40, 40));
    run("atan2d", {hx(ay), hx(ax)});
    if (i % 2 == 0) {
      double es = r.range(-0.999, 0.999); if (i % 6 == 0) es = r.pick(std::vector<double>{0.0818191908426, -0.0818191908426, 0.0, 0.5, -0.5, 0.99, -0.99});
      double tau = std::ldexp(r.range(1, 2), r.irange(-60, 60)) * (r.coin() ? 1 : -1);
      run("taupf", {hx(tau), hx(es)});
    }
    if (i % 10 == 0) {
      Args ops; int len = r.irange(1, 30);
      for (int k = 0; k < len; ++k) {
        int c = r.irange(0, 13);
        if (c == 10) ops.push_back("s:" + hx(std::ldexp(r.range(-1, 1), r.irange(-30, 30))));
        else if (c == 11) ops.push_back("d:" + hx(std::ldexp(r.range(-1, 1), r.irange(-30, 30))));
        else if (c == 12) ops.push_back(r.coin() ? "c" : "q:" + hx(std::ldexp(r.range(-1, 1), r.irange(-30, 30))));
        else if (c == 13) ops.push_back("r:" + hx(r.pick(std::vector<double>{360.0, 180.0, 1.0, 0.7})));
        else if (c < 7) ops.push_back("a:" + hx(std::ldexp(r.range(-1, 1), r.irange(-30, 30))));
        else if (c == 7) ops.push_back("n");
        else if (c == 8) ops.push_back("i:" + std::to_string(r.pick(std::vector<int>{-1, 1, 2, -2, 4, -8, 1024}))); // documented: only +/- powers of two
        else ops.push_back("m:" + hx(r.range(-3, 3)));
      }
      run("accum", ops);
    }
    if (i < 3) sample(current_op());
  }
}
int main(int argc, char** argv) { return gv::main_(argc, argv); }
