// C06: the remaining public surface of TransverseMercator / TransverseMercatorExact
//   tmapi   5-argument overloads, inspectors, Exact(), TransverseMercator(a, f, k0, exact, extendp) delegation (Forward and Reverse, both
//           extendp settings), constructor domain
//   tmutm   the static UTM() instances of both classes
//   tmtool  tools/TransverseMercatorProj of the current tree (default = exact, -s = series, -t = exact on the extended domain, -r, -l, -k, -e, -p, -w)
#pragma once
#include "common.hpp"
#include <GeographicLib/TransverseMercator.hpp>
#include <GeographicLib/TransverseMercatorExact.hpp>
#include <GeographicLib/Math.hpp>
#include <GeographicLib/DMS.hpp>
#include <GeographicLib/Utility.hpp>
#include <iostream>
#include <string>
#include <sstream>
#include <fstream>

// the command-line tool is compiled from the *current* $GV_REPO/tools into this harness; its `main` and `usage` live in a namespace
// (the headers it includes are included above; GV_TOOLS_DIGEST in the compile command makes the harness cache key depend on its text)
namespace tool_tmproj {
#include "../tools/TransverseMercatorProj.cpp"
}

namespace tmapi {
using namespace GeographicLib; using namespace gv;

inline bool sameb(double a, double b) { return bits(a) == bits(b) || (std::isnan(a) && std::isnan(b)); }
struct Q4 { double a, b, c, d; };
inline bool same4(const Q4& p, const Q4& q) { return sameb(p.a, q.a) && sameb(p.b, q.b) && sameb(p.c, q.c) && sameb(p.d, q.d); }
inline std::string g17(double v) { char b[64]; std::snprintf(b, sizeof b, "%.17g", v); return b; }
// fixed notation with enough digits to read back the same double (DMS::Decode splits at signs, so no exponents)
inline std::string fx(double v) { char b[500]; std::snprintf(b, sizeof b, "%.17g", v); if (!std::strpbrk(b, "eE") || !std::isfinite(v)) return b;
  int dec = 17 - int(std::floor(std::log10(std::fabs(v)))); if (dec < 0) dec = 0; if (dec > 360) dec = 360; std::snprintf(b, sizeof b, "%.*f", dec, v); return b; }

template<class T> static void overloads(const char* nm, const T& t, double lon0, double lat, double lon) {
  std::string N = nm;
  double x, y, g, k, x2 = 1, y2 = 2; t.Forward(lon0, lat, lon, x, y, g, k); t.Forward(lon0, lat, lon, x2, y2);
  if (!(sameb(x, x2) && sameb(y, y2))) bad("overload-forward-" + N, "Forward without gamma, k returns a different (x, y) than the full Forward");
  if (std::isfinite(x) && std::isfinite(y)) {
    double la, lo, g2, k2, la2 = 1, lo2 = 2; t.Reverse(lon0, x, y, la, lo, g2, k2); t.Reverse(lon0, x, y, la2, lo2);
    if (!(sameb(la, la2) && sameb(lo, lo2))) bad("overload-reverse-" + N, "Reverse without gamma, k returns a different (lat, lon) than the full Reverse");
  }
}

// tmapi a f k0 lon0 lat lon
static Reg r_api("tmapi", [](const Args& A) {
  double a = unhx(A[0]), f = unhx(A[1]), k0 = unhx(A[2]), lon0 = unhx(A[3]), lat = unhx(A[4]), lon = unhx(A[5]);
  std::string out;
  // series object
  std::string es = guarded([&] {
    TransverseMercator S(a, f, k0);
    if (!(sameb(S.EquatorialRadius(), a) && sameb(S.Flattening(), f) && sameb(S.CentralScale(), k0) && S.Exact() == false)) bad("inspectors-series", "EquatorialRadius/Flattening/CentralScale/Exact do not return the constructor arguments");
    overloads("series", S, lon0, lat, lon);
  });
  out += es.empty() ? "ok" : es;
  // documented domain of the series constructor: a > 0 finite, f < 1 finite, k0 > 0 finite, extendp only with exact
  { bool valid = std::isfinite(a) && a > 0 && std::isfinite(f) && f < 1 && std::isfinite(k0) && k0 > 0;
    if (valid != es.empty()) bad("ctor-domain-series", std::string("TransverseMercator(a, f, k0) ") + (es.empty() ? "accepted" : "rejected") + " a = " + g17(a) + " f = " + g17(f) + " k0 = " + g17(k0));
    std::string ex = guarded([&] { TransverseMercator S(a, f, k0, false, true); });
    if (ex != "!E") bad("ctor-extendp-needs-exact", "TransverseMercator(a, f, k0, false, true) did not throw GeographicErr"); }
  // exact object and the delegating constructor, both extendp settings
  for (int ext = 0; ext < 2; ++ext) {
    std::string ee = guarded([&] {
      TransverseMercatorExact T(a, f, k0, ext != 0);
      if (!(sameb(T.EquatorialRadius(), a) && sameb(T.Flattening(), f) && sameb(T.CentralScale(), k0))) bad("inspectors-exact", "EquatorialRadius/Flattening/CentralScale do not return the constructor arguments");
      overloads(ext ? "exact-extendp" : "exact", T, lon0, lat, lon);
      TransverseMercator D(a, f, k0, true, ext != 0);
      if (!(D.Exact() && sameb(D.EquatorialRadius(), a) && sameb(D.Flattening(), f) && sameb(D.CentralScale(), k0))) bad("inspectors-delegate", "TransverseMercator(a, f, k0, true, extendp): Exact()/inspectors wrong");
      Q4 p, q; T.Forward(lon0, lat, lon, p.a, p.b, p.c, p.d); D.Forward(lon0, lat, lon, q.a, q.b, q.c, q.d);
      if (!same4(p, q)) bad(std::string("exact-true-delegation-forward") + (ext ? "-extendp" : ""), "TransverseMercator(a, f, k0, true, extendp).Forward differs from TransverseMercatorExact(a, f, k0, extendp).Forward");
      if (std::isfinite(p.a) && std::isfinite(p.b)) {
        Q4 r, s; T.Reverse(lon0, p.a, p.b, r.a, r.b, r.c, r.d); D.Reverse(lon0, p.a, p.b, s.a, s.b, s.c, s.d);
        if (!same4(r, s)) bad(std::string("exact-true-delegation-reverse") + (ext ? "-extendp" : ""), "TransverseMercator(a, f, k0, true, extendp).Reverse differs from TransverseMercatorExact(a, f, k0, extendp).Reverse");
      }
      overloads(ext ? "delegate-extendp" : "delegate", D, lon0, lat, lon);
    });
    bool valid = std::isfinite(a) && a > 0 && f > 0 && f < 1 && std::isfinite(k0) && k0 > 0;
    if (valid != ee.empty()) bad("ctor-domain-exact", std::string("TransverseMercatorExact(a, f, k0) ") + (ee.empty() ? "accepted" : "rejected") + " a = " + g17(a) + " f = " + g17(f) + " k0 = " + g17(k0));
    std::string ed = guarded([&] { TransverseMercator D(a, f, k0, true, ext != 0); });
    if (ed.empty() != ee.empty()) bad("ctor-domain-delegate", "TransverseMercator(a, f, k0, true, extendp) and TransverseMercatorExact(a, f, k0, extendp) disagree on whether the arguments are admissible");
    out += std::string(" ") + (ee.empty() ? "ok" : ee);
  }
  emit(out);
});

// tmutm lon0 lat lon : the static instances are the WGS84 / UTM projection (a = 6378137, f = 1/298.257223563, k0 = 0.9996)
static Reg r_utm("tmutm", [](const Args& A) {
  double lon0 = unhx(A[0]), lat = unhx(A[1]), lon = unhx(A[2]);
  const double a = 6378137.0, f = 1 / 298.257223563, k0 = 0.9996;
  const TransverseMercator& U = TransverseMercator::UTM(); const TransverseMercatorExact& X = TransverseMercatorExact::UTM();
  if (&U != &TransverseMercator::UTM() || &X != &TransverseMercatorExact::UTM()) bad("utm-instance", "UTM() does not return the same object on every call");
  if (!(sameb(U.EquatorialRadius(), a) && sameb(U.Flattening(), f) && sameb(U.CentralScale(), k0) && !U.Exact())) bad("utm-parameters-series", "TransverseMercator::UTM() is not (6378137, 1/298.257223563, 0.9996, series): a = " + g17(U.EquatorialRadius()) + " f = " + g17(U.Flattening()) + " k0 = " + g17(U.CentralScale()));
  if (!(sameb(X.EquatorialRadius(), a) && sameb(X.Flattening(), f) && sameb(X.CentralScale(), k0) && !X._extendp)) bad("utm-parameters-exact", "TransverseMercatorExact::UTM() is not (6378137, 1/298.257223563, 0.9996, extendp = false)");
  TransverseMercator S(a, f, k0); TransverseMercatorExact T(a, f, k0);
  Q4 p, q, r, s; U.Forward(lon0, lat, lon, p.a, p.b, p.c, p.d); S.Forward(lon0, lat, lon, q.a, q.b, q.c, q.d);
  X.Forward(lon0, lat, lon, r.a, r.b, r.c, r.d); T.Forward(lon0, lat, lon, s.a, s.b, s.c, s.d);
  if (!same4(p, q)) bad("utm-forward-series", "TransverseMercator::UTM().Forward differs from TransverseMercator(6378137, 1/298.257223563, 0.9996).Forward");
  if (!same4(r, s)) bad("utm-forward-exact", "TransverseMercatorExact::UTM().Forward differs from TransverseMercatorExact(6378137, 1/298.257223563, 0.9996).Forward");
  if (std::isfinite(q.a) && std::isfinite(q.b)) { Q4 u, v; U.Reverse(lon0, q.a, q.b, u.a, u.b, u.c, u.d); S.Reverse(lon0, q.a, q.b, v.a, v.b, v.c, v.d);
    if (!same4(u, v)) bad("utm-reverse-series", "TransverseMercator::UTM().Reverse differs from a freshly constructed UTM projection"); }
  if (std::isfinite(s.a) && std::isfinite(s.b)) { Q4 u, v; X.Reverse(lon0, s.a, s.b, u.a, u.b, u.c, u.d); T.Reverse(lon0, s.a, s.b, v.a, v.b, v.c, v.d);
    if (!same4(u, v)) bad("utm-reverse-exact", "TransverseMercatorExact::UTM().Reverse differs from a freshly constructed UTM projection"); }
  emit(hx(p.a) + " " + hx(p.b) + " " + hx(p.c) + " " + hx(p.d) + " " + hx(r.a) + " " + hx(r.b) + " " + hx(r.c) + " " + hx(r.d));
});

// ---- the command-line tool
struct Variant { int alg; bool rev, lonfirst; bool ell, scale, cm; };   // alg: 0 default (exact), 1 -s, 2 -t
static int run_tool(const std::vector<std::string>& argv_s, const std::string& input, std::string& output) {
  std::vector<const char*> argv; for (auto& s : argv_s) argv.push_back(s.c_str());
  std::istringstream in(input); std::ostringstream out, err;
  std::streambuf *oi = std::cin.rdbuf(in.rdbuf()), *oo = std::cout.rdbuf(out.rdbuf()), *oe = std::cerr.rdbuf(err.rdbuf());
  std::cin.clear();
  int rc = -99; std::string ex;
  try { rc = tool_tmproj::main(int(argv.size()), argv.data()); } catch (const std::exception& e) { ex = typeid(e).name(); } catch (...) { ex = "unknown"; }
  std::cin.rdbuf(oi); std::cout.rdbuf(oo); std::cerr.rdbuf(oe); std::cin.clear(); std::cout.clear(); std::cerr.clear();
  std::cout.unsetf(std::ios_base::floatfield);
  output = out.str();
  if (!ex.empty()) { bad("tool-exception-escapes", "TransverseMercatorProj: exception " + ex + " escaped main"); return -98; }
  return rc;
}
// tmtool variant a f k0 lon0 p q      (variant bits: 0-1 algorithm, 2 reverse, 3 -w, 4 -e given, 5 -k given, 6 -l given; p, q = lat, lon or x, y)
static Reg r_tool("tmtool", [](const Args& A) {
  int var = std::atoi(A[0].c_str()); double a = unhx(A[1]), f = unhx(A[2]), k0 = unhx(A[3]), lon0 = unhx(A[4]), p = unhx(A[5]), q = unhx(A[6]);
  int alg = var & 3; bool rev = var & 4, w = var & 8, ge = var & 16, gk = var & 32, gl = var & 64;
  if (alg == 3) alg = 0;
  if (!ge) { a = 6378137.0; f = 1 / 298.257223563; } if (!gk) k0 = 0.9996; if (!gl) lon0 = 0;
  const int prec = 9;
  std::vector<std::string> argv = {"TransverseMercatorProj"};
  if (alg == 1) argv.push_back("-s"); if (alg == 2) argv.push_back("-t");
  if (rev) argv.push_back("-r"); if (w) argv.push_back("-w");
  if (ge) { argv.push_back("-e"); argv.push_back(fx(a)); argv.push_back(fx(f)); }
  if (gk) { argv.push_back("-k"); argv.push_back(fx(k0)); }
  if (gl) { argv.push_back("-l"); argv.push_back(fx(lon0)); }
  argv.push_back("-p"); argv.push_back(std::to_string(prec));
  std::string input = (!rev && w ? fx(q) + " " + fx(p) : fx(p) + " " + fx(q)) + "\n", output;
  int rc = run_tool(argv, input, output);
  // what the documentation says the tool computes
  Q4 want = {NAN, NAN, NAN, NAN}; bool expect_error = false;
  std::string ex = guarded([&] {
    TransverseMercator TM(a, f, k0, alg != 1, alg == 2);
    double l0 = Math::AngNormalize(lon0);
    if (rev) TM.Reverse(l0, p, q, want.a, want.b, want.c, want.d); else { if (!(std::fabs(p) <= 90)) expect_error = true; else TM.Forward(l0, p, q, want.a, want.b, want.c, want.d); }
  });
  std::string cmd; for (auto& s : argv) cmd += s + " ";
  emit(std::to_string(rc) + " " + hs(output));
  if (!ex.empty() || expect_error) { if (rc == 0 && output.find("ERROR") == std::string::npos) bad("tool-accepts-invalid", cmd + ": inadmissible arguments/input but exit status 0 and no ERROR line"); return; }
  std::istringstream is(output); double o[4]; std::string tok[4];
  if (!(is >> tok[0] >> tok[1] >> tok[2] >> tok[3])) { bad("tool-output", cmd + "<<< " + input.substr(0, input.size() - 1) + " : output has fewer than four fields: " + output); return; }
  for (int i = 0; i < 4; ++i) { try { o[i] = Utility::val<double>(tok[i]); } catch (const std::exception&) { o[i] = NAN; } }
  if (rev && w) std::swap(o[0], o[1]);
  double wv[4] = {want.a, want.b, want.c, want.d};
  // printed precision: forward x, y: prec decimals, gamma, k: prec + 6; reverse lat, lon: prec + 5, gamma, k: prec + 6
  double unit[4] = {rev ? 1e-14 : 1e-9, rev ? 1e-14 : 1e-9, 1e-15, 1e-15};
  for (int i = 0; i < 4; ++i) {
    if ((std::isnan(wv[i]) && std::isnan(o[i])) || o[i] == wv[i]) continue;
    double tol = 0.5000001 * unit[i] + 4 * 2.220446049250313e-16 * std::fabs(wv[i]);
    if (i == 1 && rev && std::fabs(std::fabs(wv[i]) - 180) < 1e-9) { if (std::fabs(std::fabs(o[i]) - 180) < 1e-9) continue; }
    if (!(std::fabs(o[i] - wv[i]) <= tol)) { bad("tool-vs-api", cmd + "<<< " + input.substr(0, input.size() - 1) + " : field " + std::to_string(i) + " printed " + tok[i] + ", the documented computation gives " + g17(wv[i])); return; }
  }
});

inline void generate(Rng& r, long i, double a, double f, double k0, double lon0, double lat, double lon) {
  if (i % 3 == 0) { run("tmapi", {hx(a), hx(f), hx(k0), hx(lon0), hx(lat), hx(lon)}); stratum("api-overloads-delegation"); }
  if (i % 29 == 3) {   // constructor domain
    double a2 = r.pick(std::vector<double>{a, 0.0, -1.0, INFINITY, NAN}), f2 = r.pick(std::vector<double>{f, 0.0, -0.01, 1.0, 1.5, NAN, -INFINITY, 0.5}), k2 = r.pick(std::vector<double>{k0, 0.0, -1.0, INFINITY, NAN});
    run("tmapi", {hx(a2), hx(f2), hx(k2), hx(lon0), hx(lat), hx(lon)}); stratum("api-ctor-domain"); }
  if (i % 4 == 1) { double l0 = r.pick(std::vector<double>{-177, -3, 3, 9, 177, 0, lon0}); run("tmutm", {hx(l0), hx(lat), hx(l0 + r.range(-4, 4) * (r.irange(0, 5) ? 1 : 20))}); stratum("utm-instances"); }
  if (i % 6 == 2) {
    int var = r.irange(0, 2) | (r.coin() ? 4 : 0) | (r.irange(0, 3) ? 0 : 8) | (r.coin() ? 16 : 0) | (r.coin() ? 32 : 0) | (r.coin() ? 64 : 0);
    double fa = (var & 3) == 1 ? f : std::fabs(f) + (f == 0 ? 0.003 : 0), p, q;
    // points that tell the three algorithms apart: the series loses accuracy towards the branch point, the extended domain differs for lat < 0 beyond it
    int kind = r.irange(0, 4);
    double l0 = (var & 64) ? lon0 : 0;
    switch (kind) {
    case 0: p = r.range(-89, 89); q = l0 + r.range(-60, 60); break;
    case 1: p = r.range(-20, -1); q = l0 + r.range(84, 89.9) * (r.coin() ? 1 : -1); break;     // extended domain: -t differs from the default
    case 2: p = r.range(0.5, 10); q = l0 + r.range(70, 82); break;                              // series far from the central meridian: -s differs from the default
    case 3: p = r.pick(std::vector<double>{90.0, -90.0, 0.0}); q = l0 + r.range(-80, 80); break;
    default: p = r.range(-89, 89); q = l0 + r.range(-180, 180); break; }
    if (var & 4) {   // reverse: feed the image of the point under the same algorithm
      double aa = (var & 16) ? a : 6378137.0, ff = (var & 16) ? fa : 1 / 298.257223563, kk = (var & 32) ? k0 : 0.9996; double x = NAN, y = NAN, g, k;
      guarded([&] { TransverseMercator TM(aa, ff, kk, (var & 3) != 1, (var & 3) == 2); TM.Forward(Math::AngNormalize(l0), p, q, x, y, g, k); });
      if (!(std::isfinite(x) && std::isfinite(y) && std::fabs(x) < 1e9 && std::fabs(y) < 1e9)) { x = r.range(-3e6, 3e6); y = r.range(-9e6, 9e6); }
      p = x; q = y; }
    run("tmtool", {std::to_string(var), hx(a), hx(fa), hx(k0), hx(lon0), hx(p), hx(q)}); stratum("tool-" + std::to_string(var & 7));
  }
}
}  // namespace tmapi
