// C02: inverse geodesic problem
#include "geodcommon.hpp"
#include "C02_series.hpp"
#include "C02_full.hpp"
#include <iostream>
#include <string>
#include <sstream>
#include <fstream>
#include <algorithm>
#include <GeographicLib/DMS.hpp>
#include <GeographicLib/Utility.hpp>
// the command-line front end (observe_at: tools/GeodSolve -i) compiled from the current $GV_REPO/tools/GeodSolve.cpp into this
// harness, as harness/C10.cpp does (tools/props.d/C02.py makes the harness cache key depend on its text)
namespace tool_geodsolve {
#include "../tools/GeodSolve.cpp"
}
using namespace gd; using namespace gv;

// Failing inputs that belong to the *decidable class* of an open finding of the unchanged library carry a tag in their details
// (known_findings.json matches on it); everything outside the class still alarms.  Open now: F71 (second root on strongly prolate
// ellipsoids).  F68 (a12 > 180 at the equatorial cut-off), F69 (zero-length answer past the cut-off), F70 (bisection budget) and F67
// (unassigned s12x in GeodesicExact) were found by these strata and are repaired (62054f0, 8088996, fe4d9c6, dc6d194): no class, they alarm.
static std::string class_tag;
static void BAD(const std::string& rel, const std::string& det) { gv::bad(rel, det + class_tag); }

// The accuracy tables of Geodesic / GeodesicExact are for ellipsoids scaled to a quarter meridian of 10 000 km ("1/4 meridian = 10e6 m"
// in GeodesicExact.cpp).  geodcommon.hpp scales the tolerance with a / 6378137, which is the same thing for nearly spherical ellipsoids;
// on a prolate ellipsoid the meridian is longer (b = 4a at f = -3): scale with the quarter meridian, computed here by quadrature of
// sqrt(a^2 sin^2 + b^2 cos^2) over the parametric latitude (never below 1, so nothing changes for oblate ellipsoids).
static double qm_scale(double ea, double f) {
  static double ka = 0, kf = 0, kv = 1; if (ea == ka && f == kf) return kv;
  LD a = ea, b = ea * (1 - (LD)f); LD q = oracle::integrate([&](LD t) { return sqrtl(a * a * sinl(t) * sinl(t) + b * b * cosl(t) * cosl(t)); }, 0, oracle::PI / 2, 4);
  ka = ea; kf = f; kv = std::fmax(1.0, (double)(q / (a * oracle::PI / 2))); return kv;
}
static double tolq(double acc, double ea, double f, double a12) { return tol_pos(acc, ea, a12) * qm_scale(ea, f); }

struct Inv { double s12, azi1, azi2, a12, m12, M12, M21, S12; };
template<class Geod> static Inv inv(const Geod& g, double lat1, double lon1, double lat2, double lon2) { Inv r; r.a12 = g.Inverse(lat1, lon1, lat2, lon2, r.s12, r.azi1, r.azi2, r.m12, r.M12, r.M21, r.S12); return r; }

template<class Geod> static void props(const char* name, const Geod& g, double acc, double ea, double f, double lat1, double lon1, double lat2, double lon2) {
  if (std::isnan(acc)) return;
  Inv r = inv(g, lat1, lon1, lat2, lon2);
  double tol = tolq(acc, ea, f, r.a12);
  // (F26/F28, fixed by d06599a: the exact solver used to stop bisecting too early for nearly equatorial geodesics on strongly prolate
  //  ellipsoids — closure errors from millimetres to hundreds of kilometres; the strata 13 of generate() keep watching that region)
  auto rel = [&](const char* base, double) { return std::string(base) + "-" + name; };
  // (1) the returned geodesic really joins the points: follow it with the specification oracle
  if (oracle_ok(f)) {
    oracle::Line L(ea, f, lat1, lon1, r.azi1); oracle::Line::Pos p = L.position(false, r.s12);
    double d = (double)oracle::ground(ea, lat2, lon2, p.lat2, lon1 + p.lon12);
    if (!(d <= 1.5 * tol)) BAD(rel("inverse-closure", d), "following the returned azimuth and distance misses point 2 by " + std::to_string(d * 1e9) + " nm (tolerance " + std::to_string(1.5 * tol * 1e9) + ")");
    if (r.s12 > 1e-3) { LD ang = dir_angle(lat2, lon2, r.azi2, p.lat2, lon1 + p.lon12, p.azi2); double q = (1 - f) >= 1 ? (1 - f) : 1 / (1 - f);
      // azimuth at point 2: an end-point error d changes the azimuth by ~ d / s12 as well
      if (!((double)ang <= (1.5 * tol / ea + 8e-16) * q + 2 * d / std::fmax(r.s12, 1e-3) + 2 * tol / std::fmax(std::fabs(r.m12), 1.0) * 0 + 1e-15)) BAD(rel("inverse-azi2", (double)ang * ea), "returned forward azimuth differs from the geodesic's by " + std::to_string((double)ang) + " rad"); }
    if (std::fabs((double)p.a12 - r.a12) * Math::degree() * ea > 1.5 * tol + 1e-9 * 0) BAD(std::string("inverse-a12-") + name, "a12 inconsistent with the geodesic");
    // shortest: on a prolate ellipsoid the longitudinal extent is at most 180
    if (f < 0 && std::fabs(lat1) < 89.999999 && std::fabs(lat2) < 89.999999 && !(std::fabs((double)p.lon12) <= 180 + 1e-9 + 1.5 * tol / (ea * std::fmax(1e-9, std::fmin(std::cos(lat1 * Math::degree()), std::cos(lat2 * Math::degree())))) / Math::degree())) BAD(rel("inverse-extent", (std::fabs((double)p.lon12) - 180) * Math::degree() * ea), "longitudinal extent " + std::to_string((double)p.lon12) + " > 180 on a prolate ellipsoid");
  }
  // (2) shortest path: no conjugate point inside (m12 >= 0), triangle inequality through way points
  if (r.a12 > 1e-6 && r.a12 < 179.999 && !(r.m12 >= -2 * tol)) BAD(std::string("inverse-conjugate-") + name, "m12 = " + std::to_string(r.m12) + " < 0: a conjugate point lies inside the returned geodesic, it is not a shortest path");
  { double wl[3][2] = {{(lat1 + lat2) / 2 + 7, lon1 + 0.5 * Math::AngDiff(lon1, lon2) + 11}, {std::fmax(-89.0, std::fmin(89.0, lat1 * 0.3 - lat2 * 0.2)), lon1 + 90}, {std::fmax(-89.0, std::fmin(89.0, lat2 + 20)), lon2 - 35}};
    for (auto& w : wl) { if (std::fabs(w[0]) > 90) continue; double s1, s2; g.Inverse(lat1, lon1, w[0], w[1], s1); g.Inverse(w[0], w[1], lat2, lon2, s2);
      if (!(r.s12 <= s1 + s2 + 4 * tol)) { BAD(rel("inverse-triangle", r.s12 - s1 - s2), "s12 = " + std::to_string(r.s12) + " exceeds the path through a way point by " + std::to_string(r.s12 - s1 - s2) + " m"); break; } } }
  // (3) symmetries (up to the documented choice among equally short geodesics)
  bool unique = !(std::fabs(lat1 + lat2) < 1e-9 && r.a12 > 170) && r.a12 < 179.9 && std::fabs(std::fabs(Math::AngDiff(lon1, lon2)) - 180) > 1e-9 && r.s12 > 1e-3;
  auto aeq = [&](double x, double y) { return std::fabs(Math::AngDiff(x, y)) <= (3 * tol / std::fmax(std::fabs(r.m12), 1e-3) + 1e-13) / Math::degree() + 1e-12; };
  { Inv q = inv(g, lat2, lon2, lat1, lon1);   // exchange
    if (!(std::fabs(q.s12 - r.s12) <= 2 * tol)) BAD(std::string("symmetry-swap-") + name, "s12 changes when the end points are exchanged");
    if (unique && !(aeq(q.azi1, r.azi2 + 180) && aeq(q.azi2, r.azi1 + 180))) BAD(std::string("symmetry-swap-") + name, "azimuths not reversed when the end points are exchanged"); }
  { Inv q = inv(g, -lat1, lon1, -lat2, lon2);  // equator
    if (!(std::fabs(q.s12 - r.s12) <= 2 * tol)) BAD(std::string("symmetry-equator-") + name, "s12 changes under reflection in the equator");
    if (unique && !(aeq(q.azi1, 180 - r.azi1) && aeq(q.azi2, 180 - r.azi2))) BAD(std::string("symmetry-equator-") + name, "azimuths not mirrored under reflection in the equator"); }
  { Inv q = inv(g, lat1, -lon1, lat2, -lon2);  // meridian
    if (!(std::fabs(q.s12 - r.s12) <= 2 * tol)) BAD(std::string("symmetry-meridian-") + name, "s12 changes under reflection in a meridian");
    if (unique && !(aeq(q.azi1, -r.azi1) && aeq(q.azi2, -r.azi2))) BAD(std::string("symmetry-meridian-") + name, "azimuths not mirrored under reflection in a meridian"); }
  { double l1 = lon1 + 360, l2 = lon2 - 720; if (l1 - 360 == lon1 && l2 + 720 == lon2) { Inv q = inv(g, lat1, l1, lat2, l2);
    if (bits(q.s12) != bits(r.s12) || (unique && !(aeq(q.azi1, r.azi1) && aeq(q.azi2, r.azi2)))) BAD(std::string("symmetry-360-") + name, "result changes when multiples of 360 are added to the longitudes"); } }
}

static Reg r_inv("ginverse", [](const Args& a) {
  double ea = unhx(a[0]), f = unhx(a[1]), lat1 = unhx(a[2]), lon1 = unhx(a[3]), lat2 = unhx(a[4]), lon2 = unhx(a[5]);
  Geodesic G(ea, f), X(ea, f, true); GeodesicExact E(ea, f);
  Inv rg = inv(G, lat1, lon1, lat2, lon2), re = inv(E, lat1, lon1, lat2, lon2), rx = inv(X, lat1, lon1, lat2, lon2);
  emit(hx(rg.s12) + " " + hx(rg.azi1) + " " + hx(rg.azi2) + " " + hx(rg.a12) + " " + hx(re.s12) + " " + hx(re.azi1) + " " + hx(re.azi2) + " " + hx(re.a12));
  if (!(std::isfinite(lat1) && std::isfinite(lat2) && std::isfinite(lon1) && std::isfinite(lon2)) || std::fabs(lat1) > 90 || std::fabs(lat2) > 90) return;
  if (bits(rx.s12) != bits(re.s12) || bits(rx.azi1) != bits(re.azi1) || bits(rx.azi2) != bits(re.azi2) || bits(rx.m12) != bits(re.m12) || bits(rx.S12) != bits(re.S12)) BAD("exact-true-delegation", "Geodesic(a,f,true).Inverse differs from GeodesicExact.Inverse");
  // F71 (open): strongly prolate ellipsoids, end points within 1e-5 deg of opposite meridians: the solver converges to the second root of
  // lambda12(alp1) = lam12 next to the meridian, a geodesic with a conjugate point inside (m12 < 0) that is not the shortest
  { double e, l12 = std::fabs(Math::AngDiff(lon1, lon2, e)); class_tag = (f <= -0.25 && std::fabs(180 - l12) <= 1e-5 && re.m12 < -1) ? " [class:prolate-second-root]" : ""; }
  props("series", G, acc_series(f), ea, f, lat1, lon1, lat2, lon2);
  props("exact", E, acc_exact(f), ea, f, lat1, lon1, lat2, lon2);
  // the two solvers agree
  if (!std::isnan(acc_series(f)) && !std::isnan(acc_exact(f))) {
    double tol = tolq(acc_series(f), ea, f, rg.a12) + tolq(acc_exact(f), ea, f, re.a12);
    if (!(std::fabs(rg.s12 - re.s12) <= tol)) BAD("series-vs-exact", "s12 differs between the solvers by " + std::to_string((rg.s12 - re.s12) * 1e9) + " nm");
  }
});


// ---- every entry point named by the property returns the same geodesic ------------------------------------------------
// Inverse overloads, the public GenInverse, InverseLine (Geodesic, GeodesicExact, Geodesic(a, f, true))
template<class Geod, class Line> static void entry_points(const char* name, const Geod& g, double acc, double ea, double f, double lat1, double lon1, double lat2, double lon2) {
  Inv r = inv(g, lat1, lon1, lat2, lon2); if (std::isnan(r.s12)) return;
  auto rel = [&](const char* b) { return std::string(b) + "-" + name; };
  { double s, a1, a2, m, M1, M2, a;
    a = g.Inverse(lat1, lon1, lat2, lon2, s); if (bits(s) != bits(r.s12) || bits(a) != bits(r.a12)) BAD(rel("inverse-overload"), "Inverse(…, s12) differs from the full overload");
    a = g.Inverse(lat1, lon1, lat2, lon2, a1, a2); if (bits(a1) != bits(r.azi1) || bits(a2) != bits(r.azi2) || bits(a) != bits(r.a12)) BAD(rel("inverse-overload"), "Inverse(…, azi1, azi2) differs from the full overload");
    a = g.Inverse(lat1, lon1, lat2, lon2, s, a1, a2); if (bits(s) != bits(r.s12) || bits(a1) != bits(r.azi1) || bits(a2) != bits(r.azi2) || bits(a) != bits(r.a12)) BAD(rel("inverse-overload"), "Inverse(…, s12, azi1, azi2) differs from the full overload");
    a = g.Inverse(lat1, lon1, lat2, lon2, s, a1, a2, m); if (bits(s) != bits(r.s12) || bits(a1) != bits(r.azi1) || bits(a2) != bits(r.azi2) || bits(m) != bits(r.m12)) BAD(rel("inverse-overload"), "Inverse(…, s12, azi1, azi2, m12) differs from the full overload");
    a = g.Inverse(lat1, lon1, lat2, lon2, s, a1, a2, M1, M2); if (bits(s) != bits(r.s12) || bits(a1) != bits(r.azi1) || bits(M1) != bits(r.M12) || bits(M2) != bits(r.M21)) BAD(rel("inverse-overload"), "Inverse(…, s12, azi1, azi2, M12, M21) differs from the full overload");
    a = g.Inverse(lat1, lon1, lat2, lon2, s, a1, a2, m, M1, M2); if (bits(s) != bits(r.s12) || bits(m) != bits(r.m12) || bits(M1) != bits(r.M12) || bits(M2) != bits(r.M21)) BAD(rel("inverse-overload"), "Inverse(…, s12, azi1, azi2, m12, M12, M21) differs from the full overload");
    double S; a = g.GenInverse(lat1, lon1, lat2, lon2, Geod::ALL, s, a1, a2, m, M1, M2, S);
    if (bits(s) != bits(r.s12) || bits(a1) != bits(r.azi1) || bits(a2) != bits(r.azi2) || bits(m) != bits(r.m12) || bits(M1) != bits(r.M12) || bits(M2) != bits(r.M21) || bits(S) != bits(r.S12) || bits(a) != bits(r.a12))
      BAD(rel("geninverse-vs-inverse"), "GenInverse(ALL) differs from Inverse"); }
  // InverseLine: the line from point 1 with the azimuth of the inverse solution, its reference point 3 is point 2
  Line L = g.InverseLine(lat1, lon1, lat2, lon2);
  if (bits(L.Azimuth()) != bits(r.azi1) && !(r.s12 < 1e-3 || r.a12 > 179.9)) BAD(rel("inverseline-azimuth"), "InverseLine starts with azimuth " + std::to_string(L.Azimuth()) + ", Inverse returns " + std::to_string(r.azi1));
  if (bits(L.Arc()) != bits(r.a12)) BAD(rel("inverseline-arc"), "InverseLine: a13 = " + std::to_string(L.Arc()) + ", Inverse returns a12 = " + std::to_string(r.a12));
  if (!std::isnan(acc)) { double tol = tolq(acc, ea, f, r.a12);
    if (!(std::fabs(L.Distance() - r.s12) <= tol)) BAD(rel("inverseline-distance"), "InverseLine: s13 = " + std::to_string(L.Distance()) + ", Inverse returns s12 = " + std::to_string(r.s12));
    double la, lo; L.Position(L.Distance(), la, lo); double d = (double)oracle::ground(ea, lat2, lon2, la, lo);
    if (!(d <= 3 * tol)) BAD(rel("inverseline-closure"), "the reference point of InverseLine is " + std::to_string(d * 1e9) + " nm from point 2"); }
}
static Reg r_entry("ginv_entry", [](const Args& a) {
  double ea = unhx(a[0]), f = unhx(a[1]), lat1 = unhx(a[2]), lon1 = unhx(a[3]), lat2 = unhx(a[4]), lon2 = unhx(a[5]);
  Geodesic G(ea, f), X(ea, f, true); GeodesicExact E(ea, f);
  class_tag = "";
  entry_points<Geodesic, GeodesicLine>("series", G, acc_series(f), ea, f, lat1, lon1, lat2, lon2);
  entry_points<GeodesicExact, GeodesicLineExact>("exact", E, acc_exact(f), ea, f, lat1, lon1, lat2, lon2);
  entry_points<Geodesic, GeodesicLine>("exact-true", X, acc_exact(f), ea, f, lat1, lon1, lat2, lon2);
  emit("0");
});

// ---- tools/GeodSolve -i ------------------------------------------------------------------------------------------------
static int run_geodsolve(const std::vector<std::string>& args, const std::string& input, std::string& output) {
  std::vector<const char*> argv; argv.push_back("GeodSolve"); for (auto& s : args) argv.push_back(s.c_str());
  std::istringstream in(input); std::ostringstream out, err;
  std::streambuf *oi = std::cin.rdbuf(in.rdbuf()), *oo = std::cout.rdbuf(out.rdbuf()), *oe = std::cerr.rdbuf(err.rdbuf()); std::cin.clear();
  int rc = -99; try { rc = tool_geodsolve::main(int(argv.size()), argv.data()); } catch (...) { rc = -98; }
  std::cin.rdbuf(oi); std::cout.rdbuf(oo); std::cerr.rdbuf(oe); std::cin.clear(); std::cout.clear(); std::cerr.clear();
  output = out.str(); return rc;
}
static std::string g17(double x) { char b[40]; std::snprintf(b, sizeof b, "%.17g", x); return b; }
// coordinates for the front end: multiples of 2^-20 degree, written exactly in fixed notation (DMS does not read exponents)
static double snap(double x) { return std::ldexp(std::nearbyint(std::ldexp(x, 20)), -20); }
static std::string f20(double x) { char b[64]; std::snprintf(b, sizeof b, "%.20f", x); return b; }
// geodsolve_inv variant a f lat1 lon1 lat2 lon2 : the front end prints the geodesic the library returns (10 digits beyond the metre)
static Reg r_gsolve("geodsolve_inv", [](const Args& a) {
  int variant = std::atoi(a[0].c_str()); double ea = unhx(a[1]), f = unhx(a[2]), lat1 = snap(unhx(a[3])), lon1 = snap(unhx(a[4])), lat2 = snap(unhx(a[5])), lon2 = snap(unhx(a[6]));
  class_tag = "";
  bool exact = variant & 1, full = variant & 2, back = variant & 4, arc = variant & 8, unroll = variant & 16;
  std::vector<std::string> args = {"-i", "-e", g17(ea), g17(f), "-p", "10"};
  if (exact) args.push_back("-E"); if (full) args.push_back("-f"); if (back) args.push_back("-b"); if (arc) args.push_back("-a"); if (unroll) args.push_back("-u");
  std::string out; int rc = run_geodsolve(args, f20(lat1) + " " + f20(lon1) + " " + f20(lat2) + " " + f20(lon2) + "\n", out);
  Inv r = exact ? inv(GeodesicExact(ea, f), lat1, lon1, lat2, lon2) : inv(Geodesic(ea, f), lat1, lon1, lat2, lon2);
  emit(std::to_string(rc));
  if (rc != 0) { BAD("geodsolve-status", "GeodSolve -i exits with " + std::to_string(rc) + " on a valid line: " + out.substr(0, 80)); return; }
  std::vector<double> v; { std::istringstream is(out); std::string t; while (is >> t) { try { v.push_back(Utility::val<double>(t)); } catch (...) { v.push_back(NAN); } } }
  size_t need = full ? 12 : 3; if (v.size() != need) { BAD("geodsolve-fields", "GeodSolve -i prints " + std::to_string(v.size()) + " fields: " + out.substr(0, 120)); return; }
  double pazi1 = full ? v[2] : v[0], pazi2 = full ? v[5] : v[1], pdist = full ? v[6] : v[2];
  auto angclose = [](double x, double y) { return std::fabs(Math::AngDiff(x, y)) <= 0.51e-15 + 4 * ulp(180.0); };
  auto close = [](double x, double y, double unit) { return std::fabs(x - y) <= 0.51 * unit + 4 * ulp(y); };
  if (std::isnan(r.s12)) return;
  if (!angclose(pazi1, r.azi1)) BAD("geodsolve-azi1", "GeodSolve -i prints azi1 = " + g17(pazi1) + ", the library returns " + g17(r.azi1));
  if (!angclose(pazi2, back ? r.azi2 + 180 : r.azi2)) BAD("geodsolve-azi2", "GeodSolve -i prints azi2 = " + g17(pazi2) + ", the library returns " + g17(r.azi2) + (back ? " (back azimuth requested)" : ""));
  if (full) { if (!close(v[6], r.s12, 1e-10) || !close(v[7], r.a12, 1e-15)) BAD("geodsolve-distance", "GeodSolve -i -f prints s12 a12 = " + g17(v[6]) + " " + g17(v[7]) + ", the library returns " + g17(r.s12) + " " + g17(r.a12));
    if (!close(v[8], r.m12, 1e-10) || !close(v[9], r.M12, 1e-17) || !close(v[10], r.M21, 1e-17) || !close(v[11], r.S12, 1e-3)) BAD("geodsolve-extras", "GeodSolve -i -f prints m12 M12 M21 S12 other than the library returns");
    if (!close(v[0], lat1, 1e-15) || !close(v[3], lat2, 1e-15) || !angclose(v[1], lon1) || !angclose(v[4], lon2)) BAD("geodsolve-echo", "GeodSolve -i -f does not echo the end points");
    if (unroll && !(std::fabs((v[4] - v[1]) - Math::AngDiff(lon1, lon2)) <= 1e-13 * (1 + std::fabs(lon1)))) BAD("geodsolve-unroll", "GeodSolve -i -f -u: lon2 - lon1 is not the reduced longitude difference"); }
  else if (!close(pdist, arc ? r.a12 : r.s12, arc ? 1e-15 : 1e-10)) BAD("geodsolve-distance", "GeodSolve -i prints " + g17(pdist) + ", the library returns " + g17(arc ? r.a12 : r.s12));
});

// wrapper correspondence: the answer on the original input is the sign/swap image of the answer on the canonical input
template<class Geod> static void wrap(const Geod& g, const Args& a, double lat1, double lon1, double lat2, double lon2) {
  double e, l12 = Math::AngDiff(lon1, lon2, e); int lonsign = std::signbit(l12) ? -1 : 1; l12 *= lonsign;
  double la1 = Math::AngRound(Math::LatFix(lat1)), la2 = Math::AngRound(Math::LatFix(lat2));
  if (std::fabs(la1) < std::fabs(la2) || std::isnan(la2)) std::swap(la1, la2);
  int latsign = std::signbit(la1) ? 1 : -1; la1 *= latsign; la2 *= latsign;
  double k[10], o[10];
  k[9] = g.GenInverse(la1, 0.0, la2, l12, Geod::ALL, k[0], k[1], k[2], k[3], k[4], k[5], k[6], k[7], k[8]);
  o[9] = g.GenInverse(lat1, lon1, lat2, lon2, Geod::ALL, o[0], o[1], o[2], o[3], o[4], o[5], o[6], o[7], o[8]);
  std::string op = "invwrap " + a[1] + " " + a[2] + " " + hx(lat1) + " " + hx(lon1) + " " + hx(lat2) + " " + hx(lon2) + " " + hx(la1) + " " + hx(la2) + " " + hx(l12);
  for (double v : k) op += " " + hx(v); current_op() = op;
  std::string out; for (double v : o) out += (out.empty() ? "" : " ") + hx(v); emit(out);
}
static Reg r_wrap("invwrapq", [](const Args& a) {
  double ea = unhx(a[1]), f = unhx(a[2]), lat1 = unhx(a[3]), lon1 = unhx(a[4]), lat2 = unhx(a[5]), lon2 = unhx(a[6]);
  if (a[0] == "G") wrap(Geodesic(ea, f), a, lat1, lon1, lat2, lon2); else wrap(GeodesicExact(ea, f), a, lat1, lon1, lat2, lon2);
});
static Reg r_wrap2("invwrap", [](const Args& a) {   // replay form: a f lat1 lon1 lat2 lon2 ...
  Args b = {"G", a[0], a[1], a[2], a[3], a[4], a[5]}; double ea = unhx(a[0]), f = unhx(a[1]); wrap(Geodesic(ea, f), b, unhx(a[2]), unhx(a[3]), unhx(a[4]), unhx(a[5]));
});

void gv::generate(const std::string& tier, uint64_t seed) {
  Rng r(seed * 715225739 + 2);
  long n = tier == "thorough" ? 30000 : 1500;
  std::vector<double> fs = {1 / 298.257223563, 0, 1e-3, -1e-3, 1 / 150.0, -1 / 150.0, 0.01, -0.01, 0.02, -0.02, 0.5, -1.0, -0.1, 0.1};
  auto grid = [&](double lo, double hi) { return std::ldexp(std::floor(std::ldexp(r.range(lo, hi), 20)), -20); };   // exactly representable differences
  for (long i = 0; i < n; ++i) {
    double f = i % 3 == 0 ? fs[0] : r.pick(fs); double a = f == fs[0] ? 6378137.0 : 6.4e6;
    double lat1, lon1, lat2, lon2; int k = r.irange(0, 23);
    lat1 = r.range(-90, 90); lon1 = r.range(-180, 180); lat2 = r.range(-90, 90); lon2 = r.range(-180, 180);
    switch (k) {
    case 0: { int e = r.irange(1, 12); lat2 = -lat1 + r.range(-1, 1) * std::pow(10.0, -e); lon2 = lon1 + 180 - r.range(0, 1) * std::pow(10.0, -e); break; }   // antipodal astroid region
    case 1: lat1 = r.pick(std::vector<double>{90, -90}); if (r.coin()) lat2 = r.pick(std::vector<double>{90, -90, 0}); break;                                   // poles
    case 2: lat1 = lat2 = 0; lon2 = lon1 + r.pick(std::vector<double>{r.range(0, 180), 179.5, 179.9, 180 * (1 - std::fabs(f)) - 1e-6, 180.0, 1e-9}); break;        // equatorial
    case 3: lon2 = lon1 + r.pick(std::vector<double>{0.0, 180.0, -180.0}); break;                                                                                   // common meridian
    case 4: { double d = std::pow(10.0, r.range(-15, -3)); lat2 = lat1 + d * r.range(-1, 1); lon2 = lon1 + d * r.range(-1, 1); if (std::fabs(lat2) > 90) lat2 = lat1; break; }  // 1e-9 m … 100 m
    case 5: lat2 = lat1; lon2 = lon1; break;                                                                                                                          // coincident
    case 6: lon1 += 360 * r.irange(-3, 3); lon2 += 360 * r.irange(-3, 3); break;
    case 7: lat2 = -lat1; break;
    case 8: case 9: { f = r.pick(std::vector<double>{-0.05, -0.1, -0.2, -0.5, -1.0, -0.02, -0.01}); a = 6.4e6; lat1 = r.range(-40, 40); lat2 = -lat1 + r.range(-40, 40); lon2 = lon1 + (r.coin() ? 180.0 : 180 - std::pow(10.0, -r.irange(1, 9))); break; }   // opposite meridians on prolate ellipsoids: conjugate points on the meridian
    case 12: { // both points within 1e-4 m … 0.3 m of the same pole, any longitudes ("really short lines" next to the pole)
      double sgn = r.coin() ? 1 : -1, d1 = std::pow(10.0, r.range(-9, -5.5)), d2 = std::pow(10.0, r.range(-9, -5.5));
      lat1 = sgn * (90 - d1); lat2 = sgn * (90 - d2); if (r.irange(0, 3) == 0) lon2 = lon1 + r.pick(std::vector<double>{90.0, 135.0, 179.0, 180.0, -120.0}); break; }
    case 13: { // strongly eccentric ellipsoids (exact solver), nearly antipodal points next to the equator: Newton may fail, bisection must finish
      f = r.pick(std::vector<double>{-0.5, -1.0, -2.0, -3.0, 0.75, 0.5}); a = 6.4e6; double e = std::pow(10.0, -r.range(1, 9));
      lat1 = r.range(-1, 1) * (r.coin() ? 0.01 : 1.0); lat2 = -lat1 + r.range(-1, 1) * e * (f > 0 ? 30 : 1); lon2 = lon1 + 180 - r.range(0, 1) * (f > 0 ? 60 * e * 10 : e); break; }
    // ---- strata next to the branch boundaries of GenInverse (coverage audit of the deepening round) ----
    case 14: { // equatorial cut-off lon12s >= f*180: both points on the equator (or latitudes that AngRound sends to 0), lon12 = 180(1-f) ± a few ulp
      if (!(f > 0)) f = r.pick(std::vector<double>{fs[0], 1 / 150.0, 0.01, 0.02, 1e-3, 0.1, 0.5}); a = f == fs[0] ? 6378137.0 : 6.4e6;
      lat1 = r.pick(std::vector<double>{0.0, -0.0, 5e-324, -1e-310, 1e-200, -1e-30}); lat2 = r.pick(std::vector<double>{0.0, -0.0, -5e-324, 1e-300});
      if (r.coin()) lon1 = 0; lon2 = lon1 + 180 * (1 - f); { int u = r.irange(-4, 4); lon2 = u > 0 ? nextup(lon2, u) : nextdn(lon2, -u); } if (r.irange(0, 3) == 0) { double t = lon1; lon1 = lon2; lon2 = t; } break; }
    case 15: { // tiny non-zero latitudes (1e-18 … 1e-5 degree) with the longitude difference around the equatorial conjugate distance: Newton
               // stalls, the loop goes through maxit1_ into pure bisection and ends by tripb or maxit2_ (the region of F56 / F28)
      double e1 = std::pow(10.0, -r.range(5, 18)), e2 = std::pow(10.0, -r.range(5, 18)); lat1 = r.coin() ? e1 : -e1; lat2 = r.irange(0, 2) ? (r.coin() ? e2 : -e2) : -lat1;
      double c = f > 0 ? 180 * (1 - f) : 180.0; lon2 = lon1 + c - std::pow(10.0, -r.range(0, 12)) * (r.irange(0, 3) ? 1 : -1); if (r.irange(0, 4) == 0) lon2 = lon1 + 180; break; }
    case 16: { // meridional candidate on the boundary of its acceptance (m12x changes sign / sig12 = 1): opposite meridians, prolate and oblate
      f = r.pick(std::vector<double>{-0.01, -0.02, -1 / 150.0, -1e-3, -0.1, -0.5, fs[0], 0.02}); a = f == fs[0] ? 6378137.0 : 6.4e6; lon2 = lon1 + (r.irange(0, 3) ? 180.0 : -180.0); lat1 = r.range(-89, 89);
      Geodesic G0(a, f); auto merid = [&](double l2) { double s, a1, a2; G0.Inverse(lat1, lon1, l2, lon2, s, a1, a2); return std::fabs(a1) == 180 || a1 == 0; };
      double lo = -lat1, hi = r.coin() ? 90.0 : -90.0; bool plo = merid(lo), phi = merid(hi);
      if (plo != phi) { for (int it = 0; it < 60 && lo != hi; ++it) { double mid = lo + (hi - lo) / 2; if (mid == lo || mid == hi) break; (merid(mid) == plo ? lo : hi) = mid; } lat2 = r.coin() ? lo : hi; int u = r.irange(-2, 2); lat2 = u > 0 ? nextup(lat2, u) : nextdn(lat2, -u); }
      else { double t = 1 / Math::degree() * r.pick(std::vector<double>{1.0, 1 - 1e-9, 1 + 1e-9}); lat2 = lat1 > 0 ? 180 - lat1 - t : -180 - lat1 + t; }   // arc over the pole of about one radian
      if (std::fabs(lat2) > 90) lat2 = -lat1; break; }
    case 17: { // the short-line exit of InverseStart: arc length around etol2 (0.1 sqrt(eps) / sqrt(max(0.001,|f|) min(1, 1-f/2) / 2))
      double etol2 = 0.1 * std::sqrt(std::numeric_limits<double>::epsilon()) / std::sqrt(std::fmax(0.001, std::fabs(f)) * std::fmin(1.0, 1 - f / 2) / 2);
      double d = etol2 / Math::degree() * (1 + r.range(-1, 1) * std::pow(10.0, -r.irange(0, 8))), th = r.range(0, 2 * Math::pi()); lat1 = r.range(-89.9, 89.9);
      lat2 = lat1 + d * std::cos(th); lon2 = lon1 + d * std::sin(th) / std::cos(lat1 * Math::degree()); if (std::fabs(lat2) > 90) lat2 = lat1; break; }
    case 18: { // longitude difference of exactly 180 and its neighbours, with longitudes whose difference is not exact (AngDiff error term)
      lon1 = r.coin() ? r.range(-180, 180) : r.pick(std::vector<double>{0.0, 1e-300, 33.3, -179.99999999999997}); lon2 = lon1 + 180; int u = r.irange(-3, 3); lon2 = u > 0 ? nextup(lon2, u) : nextdn(lon2, -u);
      if (r.coin()) lat2 = -lat1 + r.pick(std::vector<double>{0.0, 1e-13, -1e-9, 1e-5}); if (std::fabs(lat2) > 90) lat2 = -lat1; if (r.irange(0, 3) == 0) lon2 -= 360; break; }
    case 19: { // both points at or next to (opposite or the same) poles
      double d1 = r.irange(0, 2) ? std::pow(10.0, r.range(-15, -1)) : 0, d2 = r.irange(0, 2) ? std::pow(10.0, r.range(-15, -1)) : 0; double s1 = r.coin() ? 1 : -1, s2 = r.coin() ? 1 : -1;
      lat1 = s1 * (90 - d1); lat2 = s2 * (90 - d2); if (r.irange(0, 2) == 0) lon2 = lon1 + r.pick(std::vector<double>{0.0, 180.0, 90.0, 179.99999999999997, 1e-12}); break; }
    case 20: { // denormal and tiny latitudes / longitude differences
      lat1 = r.pick(std::vector<double>{5e-324, -5e-324, 1e-310, -2.2250738585072014e-308, 1e-200, -1e-100, 1e-17, 0.0}); lat2 = r.pick(std::vector<double>{5e-324, -1e-310, 1e-300, 0.0, -1e-17, 1e-9, -lat1, r.range(-90, 90)});
      lon2 = lon1 + r.pick(std::vector<double>{5e-324, 1e-310, 1e-200, 1e-17, 90.0, 179.0, 180.0, r.range(0, 180)}); if (r.coin()) { lon1 = 0; lon2 = r.pick(std::vector<double>{5e-324, -1e-310, 1e-200, 180.0, 179.99999999999997}); } break; }
    case 21: { // nearly antipodal on strongly oblate / prolate ellipsoids (both solvers run; only the exact one has a documented accuracy)
      f = r.pick(std::vector<double>{0.1, -0.1, 0.2, -0.2, 0.5, -0.5, 0.75, -1.0, -3.0}); a = 6.4e6; int e = r.irange(1, 10); lat1 = r.range(-80, 80); lat2 = -lat1 + r.range(-1, 1) * std::pow(10.0, -e);
      lon2 = lon1 + 180 - r.range(0, 1) * std::pow(10.0, -e + r.irange(0, 2)); break; }
    default: break; }
    if (std::fabs(lat2) > 90) lat2 = std::copysign(90.0, lat2);
    run("ginverse", {hx(a), hx(f), hx(lat1), hx(lon1), hx(lat2), hx(lon2)});
    stratum("inverse-" + std::to_string(k < 10 ? k : k >= 12 && k <= 21 ? k : 10));
    if (i < 3) sample(current_op());
    // pieces of the series solver (Lambda12 on this pair's reduced latitudes, Astroid) through the Lean model
    ginv::model_case(r, a, f, lat1, lat2, lon2 - lon1);
    // the whole of GenInverse through the Lean model (series solver), and the bookkeeping model on the implementation's kernels (both solvers)
    // every entry point (Inverse overloads, GenInverse, InverseLine; series, exact, exact = true), the command-line front end
    if (i % 3 == 1) { run("ginv_entry", {hx(a), hx(f), hx(lat1), hx(lon1), hx(lat2), hx(lon2)}); stratum("entry-points"); }
    if (i % 5 == 2 && std::fabs(f) <= 0.5) { run("geodsolve_inv", {std::to_string(r.irange(0, 31)), hx(a), hx(f), hx(lat1), hx(lon1), hx(lat2), hx(lon2)}); stratum("tool-geodsolve-i"); }
    if (f < 1) { run("geninv_series", {hx(a), hx(f), hx(lat1), hx(lon1), hx(lat2), hx(lon2)}); stratum("model-geninv-series");
      run("geninv_kern", {i % 2 ? "G" : "E", hx(a), hx(f), hx(lat1), hx(lon1), hx(lat2), hx(lon2)}); stratum(std::string("model-geninv-kern-") + (i % 2 ? "series" : "exact")); }
    // wrapper correspondence on inputs with exactly representable longitude differences (so the core sees the same problem)
    double g1 = grid(-90, 90), g2 = grid(-90, 90), h1 = grid(-180, 180) + 360 * r.irange(-1, 1), h2 = grid(-180, 180);
    if (k == 1) g1 = r.pick(std::vector<double>{90, -90, 0, -0.0}); if (k == 2) { g1 = 0; g2 = -0.0; } if (k == 3) h2 = h1 + 180; if (k == 5) { g2 = g1; h2 = h1; } if (k == 7) g2 = -g1;
    run("invwrapq", {i % 2 ? "G" : "E", hx(a), hx(f), hx(g1), hx(h1), hx(g2), hx(h2)});
  }
}
int main(int argc, char** argv) { return gv::main_(argc, argv); }
