// C02: inverse geodesic problem
#include "geodcommon.hpp"
#include "C02_series.hpp"
#include "C02_full.hpp"
using namespace gd; using namespace gv;

struct Inv { double s12, azi1, azi2, a12, m12, M12, M21, S12; };
template<class Geod> static Inv inv(const Geod& g, double lat1, double lon1, double lat2, double lon2) { Inv r; r.a12 = g.Inverse(lat1, lon1, lat2, lon2, r.s12, r.azi1, r.azi2, r.m12, r.M12, r.M21, r.S12); return r; }

template<class Geod> static void props(const char* name, const Geod& g, double acc, double ea, double f, double lat1, double lon1, double lat2, double lon2) {
  if (std::isnan(acc)) return;
  Inv r = inv(g, lat1, lon1, lat2, lon2);
  double tol = tol_pos(acc, ea, r.a12);
  // (F26/F28, fixed by d06599a: the exact solver used to stop bisecting too early for nearly equatorial geodesics on strongly prolate
  //  ellipsoids — closure errors from millimetres to hundreds of kilometres; the strata 13 of generate() keep watching that region)
  auto rel = [&](const char* base, double) { return std::string(base) + "-" + name; };
  // (1) the returned geodesic really joins the points: follow it with the specification oracle
  if (oracle_ok(f)) {
    oracle::Line L(ea, f, lat1, lon1, r.azi1); oracle::Line::Pos p = L.position(false, r.s12);
    double d = (double)oracle::ground(ea, lat2, lon2, p.lat2, lon1 + p.lon12);
    if (!(d <= 1.5 * tol)) bad(rel("inverse-closure", d), "following the returned azimuth and distance misses point 2 by " + std::to_string(d * 1e9) + " nm (tolerance " + std::to_string(1.5 * tol * 1e9) + ")");
    if (r.s12 > 1e-3) { LD ang = dir_angle(lat2, lon2, r.azi2, p.lat2, lon1 + p.lon12, p.azi2); double q = (1 - f) >= 1 ? (1 - f) : 1 / (1 - f);
      // azimuth at point 2: an end-point error d changes the azimuth by ~ d / s12 as well
      if (!((double)ang <= (1.5 * tol / ea + 8e-16) * q + 2 * d / std::fmax(r.s12, 1e-3) + 2 * tol / std::fmax(std::fabs(r.m12), 1.0) * 0 + 1e-15)) bad(rel("inverse-azi2", (double)ang * ea), "returned forward azimuth differs from the geodesic's by " + std::to_string((double)ang) + " rad"); }
    if (std::fabs((double)p.a12 - r.a12) * Math::degree() * ea > 1.5 * tol + 1e-9 * 0) bad(std::string("inverse-a12-") + name, "a12 inconsistent with the geodesic");
    // shortest: on a prolate ellipsoid the longitudinal extent is at most 180
    if (f < 0 && std::fabs(lat1) < 89.999999 && std::fabs(lat2) < 89.999999 && !(std::fabs((double)p.lon12) <= 180 + 1e-9 + 1.5 * tol / (ea * std::fmax(1e-9, std::fmin(std::cos(lat1 * Math::degree()), std::cos(lat2 * Math::degree())))) / Math::degree())) bad(rel("inverse-extent", (std::fabs((double)p.lon12) - 180) * Math::degree() * ea), "longitudinal extent " + std::to_string((double)p.lon12) + " > 180 on a prolate ellipsoid");
  }
  // (2) shortest path: no conjugate point inside (m12 >= 0), triangle inequality through way points
  if (r.a12 > 1e-6 && r.a12 < 179.999 && !(r.m12 >= -2 * tol)) bad(std::string("inverse-conjugate-") + name, "m12 = " + std::to_string(r.m12) + " < 0: a conjugate point lies inside the returned geodesic, it is not a shortest path");
  { double wl[3][2] = {{(lat1 + lat2) / 2 + 7, lon1 + 0.5 * Math::AngDiff(lon1, lon2) + 11}, {std::fmax(-89.0, std::fmin(89.0, lat1 * 0.3 - lat2 * 0.2)), lon1 + 90}, {std::fmax(-89.0, std::fmin(89.0, lat2 + 20)), lon2 - 35}};
    for (auto& w : wl) { if (std::fabs(w[0]) > 90) continue; double s1, s2; g.Inverse(lat1, lon1, w[0], w[1], s1); g.Inverse(w[0], w[1], lat2, lon2, s2);
      if (!(r.s12 <= s1 + s2 + 4 * tol)) { bad(rel("inverse-triangle", r.s12 - s1 - s2), "s12 = " + std::to_string(r.s12) + " exceeds the path through a way point by " + std::to_string(r.s12 - s1 - s2) + " m"); break; } } }
  // (3) symmetries (up to the documented choice among equally short geodesics)
  bool unique = !(std::fabs(lat1 + lat2) < 1e-9 && r.a12 > 170) && r.a12 < 179.9 && std::fabs(std::fabs(Math::AngDiff(lon1, lon2)) - 180) > 1e-9 && r.s12 > 1e-3;
  auto aeq = [&](double x, double y) { return std::fabs(Math::AngDiff(x, y)) <= (3 * tol / std::fmax(std::fabs(r.m12), 1e-3) + 1e-13) / Math::degree() + 1e-12; };
  { Inv q = inv(g, lat2, lon2, lat1, lon1);   // exchange
    if (!(std::fabs(q.s12 - r.s12) <= 2 * tol)) bad(std::string("symmetry-swap-") + name, "s12 changes when the end points are exchanged");
    if (unique && !(aeq(q.azi1, r.azi2 + 180) && aeq(q.azi2, r.azi1 + 180))) bad(std::string("symmetry-swap-") + name, "azimuths not reversed when the end points are exchanged"); }
  { Inv q = inv(g, -lat1, lon1, -lat2, lon2);  // equator
    if (!(std::fabs(q.s12 - r.s12) <= 2 * tol)) bad(std::string("symmetry-equator-") + name, "s12 changes under reflection in the equator");
    if (unique && !(aeq(q.azi1, 180 - r.azi1) && aeq(q.azi2, 180 - r.azi2))) bad(std::string("symmetry-equator-") + name, "azimuths not mirrored under reflection in the equator"); }
  { Inv q = inv(g, lat1, -lon1, lat2, -lon2);  // meridian
    if (!(std::fabs(q.s12 - r.s12) <= 2 * tol)) bad(std::string("symmetry-meridian-") + name, "s12 changes under reflection in a meridian");
    if (unique && !(aeq(q.azi1, -r.azi1) && aeq(q.azi2, -r.azi2))) bad(std::string("symmetry-meridian-") + name, "azimuths not mirrored under reflection in a meridian"); }
  { double l1 = lon1 + 360, l2 = lon2 - 720; if (l1 - 360 == lon1 && l2 + 720 == lon2) { Inv q = inv(g, lat1, l1, lat2, l2);
    if (bits(q.s12) != bits(r.s12) || (unique && !(aeq(q.azi1, r.azi1) && aeq(q.azi2, r.azi2)))) bad(std::string("symmetry-360-") + name, "result changes when multiples of 360 are added to the longitudes"); } }
}

static Reg r_inv("ginverse", [](const Args& a) {
  double ea = unhx(a[0]), f = unhx(a[1]), lat1 = unhx(a[2]), lon1 = unhx(a[3]), lat2 = unhx(a[4]), lon2 = unhx(a[5]);
  Geodesic G(ea, f), X(ea, f, true); GeodesicExact E(ea, f);
  Inv rg = inv(G, lat1, lon1, lat2, lon2), re = inv(E, lat1, lon1, lat2, lon2), rx = inv(X, lat1, lon1, lat2, lon2);
  emit(hx(rg.s12) + " " + hx(rg.azi1) + " " + hx(rg.azi2) + " " + hx(rg.a12) + " " + hx(re.s12) + " " + hx(re.azi1) + " " + hx(re.azi2) + " " + hx(re.a12));
  if (!(std::isfinite(lat1) && std::isfinite(lat2) && std::isfinite(lon1) && std::isfinite(lon2)) || std::fabs(lat1) > 90 || std::fabs(lat2) > 90) return;
  if (bits(rx.s12) != bits(re.s12) || bits(rx.azi1) != bits(re.azi1) || bits(rx.azi2) != bits(re.azi2) || bits(rx.m12) != bits(re.m12) || bits(rx.S12) != bits(re.S12)) bad("exact-true-delegation", "Geodesic(a,f,true).Inverse differs from GeodesicExact.Inverse");
  props("series", G, acc_series(f), ea, f, lat1, lon1, lat2, lon2);
  props("exact", E, acc_exact(f), ea, f, lat1, lon1, lat2, lon2);
  // the two solvers agree
  if (!std::isnan(acc_series(f)) && !std::isnan(acc_exact(f))) {
    double tol = tol_pos(acc_series(f), ea, rg.a12) + tol_pos(acc_exact(f), ea, re.a12);
    if (!(std::fabs(rg.s12 - re.s12) <= tol)) bad("series-vs-exact", "s12 differs between the solvers by " + std::to_string((rg.s12 - re.s12) * 1e9) + " nm");
  }
});

// wrapper correspondence: the answer on the original input is the sign/swap image of the answer on the canonical input
template<class Geod> static void wrap(const Geod& g, const Args& a, double lat1, double lon1, double lat2, double lon2) {
  double e, l12 = Math::AngDiff(lon1, lon2, e); int lonsign = std::signbit(l12) ? -1 : 1; l12 *= lonsign;
  double la1 = Math::AngRound(Math::LatFix(lat1)), la2 = Math::AngRound(Math::LatFix(lat2));
  if (std::fabs(la1) < std::fabs(la2) || std::isnan(la2)) std::swap(la1, la2);
  int latsign = std::signbit(la1) ? 1 : -1; la1 *= latsign; la2 *= latsign;
  double k[10], o[10];
  k[9] = g.GenInverse(la1, 0.0, la2, l12, Geod::ALL, k[0], k[1], k[2], k[3], k[4], k[5], k[6], k[7], k[8]);
  o[9] = g.GenInverse(lat1, lon1, lat2, lon2, Geod::ALL, o[0], o[1], o[2], o[3], o[4], o[5], o[6], o[7], o[8]);
  std::string op = "invwrap " + a[1] + " " + a[2] + " " + hx(lat1) + " " + hx(lon1) + " " + hx(lat2) + " " + hx(lon2) + " " + hx(la1) + " " + hx(la2) + " " + hx(l12);
  for (double v : k) op += " " + hx(v); current_op() = op;
  std::string out; for (double v : o) out += (out.empty() ? "" : " ") + hx(v); emit(out);
}
static Reg r_wrap("invwrapq", [](const Args& a) {
  double ea = unhx(a[1]), f = unhx(a[2]), lat1 = unhx(a[3]), lon1 = unhx(a[4]), lat2 = unhx(a[5]), lon2 = unhx(a[6]);
  if (a[0] == "G") wrap(Geodesic(ea, f), a, lat1, lon1, lat2, lon2); else wrap(GeodesicExact(ea, f), a, lat1, lon1, lat2, lon2);
});
static Reg r_wrap2("invwrap", [](const Args& a) {   // replay form: a f lat1 lon1 lat2 lon2 ...
  Args b = {"G", a[0], a[1], a[2], a[3], a[4], a[5]}; double ea = unhx(a[0]), f = unhx(a[1]); wrap(Geodesic(ea, f), b, unhx(a[2]), unhx(a[3]), unhx(a[4]), unhx(a[5]));
});

void gv::generate(const std::string& tier, uint64_t seed) {
  Rng r(seed * 715225739 + 2);
  long n = tier == "thorough" ? 30000 : 1500;
  std::vector<double> fs = {1 / 298.257223563, 0, 1e-3, -1e-3, 1 / 150.0, -1 / 150.0, 0.01, -0.01, 0.02, -0.02, 0.5, -1.0, -0.1, 0.1};
  auto grid = [&](double lo, double hi) { return std::ldexp(std::floor(std::ldexp(r.range(lo, hi), 20)), -20); };   // exactly representable differences
  for (long i = 0; i < n; ++i) {
    double f = i % 3 == 0 ? fs[0] : r.pick(fs); double a = f == fs[0] ? 6378137.0 : 6.4e6;
    double lat1, lon1, lat2, lon2; int k = r.irange(0, 13);
    lat1 = r.range(-90, 90); lon1 = r.range(-180, 180); lat2 = r.range(-90, 90); lon2 = r.range(-180, 180);
    switch (k) {
    case 0: { int e = r.irange(1, 12); lat2 = -lat1 + r.range(-1, 1) * std::pow(10.0, -e); lon2 = lon1 + 180 - r.range(0, 1) * std::pow(10.0, -e); break; }   // antipodal astroid region
    case 1: lat1 = r.pick(std::vector<double>{90, -90}); if (r.coin()) lat2 = r.pick(std::vector<double>{90, -90, 0}); break;                                   // poles
    case 2: lat1 = lat2 = 0; lon2 = lon1 + r.pick(std::vector<double>{r.range(0, 180), 179.5, 179.9, 180 * (1 - std::fabs(f)) - 1e-6, 180.0, 1e-9}); break;        // equatorial
    case 3: lon2 = lon1 + r.pick(std::vector<double>{0.0, 180.0, -180.0}); break;                                                                                   // common meridian
    case 4: { double d = std::pow(10.0, r.range(-15, -3)); lat2 = lat1 + d * r.range(-1, 1); lon2 = lon1 + d * r.range(-1, 1); if (std::fabs(lat2) > 90) lat2 = lat1; break; }  // 1e-9 m … 100 m
    case 5: lat2 = lat1; lon2 = lon1; break;                                                                                                                          // coincident
    case 6: lon1 += 360 * r.irange(-3, 3); lon2 += 360 * r.irange(-3, 3); break;
    case 7: lat2 = -lat1; break;
    case 8: case 9: { f = r.pick(std::vector<double>{-0.05, -0.1, -0.2, -0.5, -1.0, -0.02, -0.01}); a = 6.4e6; lat1 = r.range(-40, 40); lat2 = -lat1 + r.range(-40, 40); lon2 = lon1 + (r.coin() ? 180.0 : 180 - std::pow(10.0, -r.irange(1, 9))); break; }   // opposite meridians on prolate ellipsoids: conjugate points on the meridian
    case 12: { // both points within 1e-4 m … 0.3 m of the same pole, any longitudes ("really short lines" next to the pole)
      double sgn = r.coin() ? 1 : -1, d1 = std::pow(10.0, r.range(-9, -5.5)), d2 = std::pow(10.0, r.range(-9, -5.5));
      lat1 = sgn * (90 - d1); lat2 = sgn * (90 - d2); if (r.irange(0, 3) == 0) lon2 = lon1 + r.pick(std::vector<double>{90.0, 135.0, 179.0, 180.0, -120.0}); break; }
    case 13: { // strongly eccentric ellipsoids (exact solver), nearly antipodal points next to the equator: Newton may fail, bisection must finish
      f = r.pick(std::vector<double>{-0.5, -1.0, -2.0, -3.0, 0.75, 0.5}); a = 6.4e6; double e = std::pow(10.0, -r.range(1, 9));
      lat1 = r.range(-1, 1) * (r.coin() ? 0.01 : 1.0); lat2 = -lat1 + r.range(-1, 1) * e * (f > 0 ? 30 : 1); lon2 = lon1 + 180 - r.range(0, 1) * (f > 0 ? 60 * e * 10 : e); break; }
    default: break; }
    if (std::fabs(lat2) > 90) lat2 = std::copysign(90.0, lat2);
    run("ginverse", {hx(a), hx(f), hx(lat1), hx(lon1), hx(lat2), hx(lon2)});
    stratum("inverse-" + std::to_string(k < 10 ? k : k >= 12 ? k : 10));
    if (i < 3) sample(current_op());
    // pieces of the series solver (Lambda12 on this pair's reduced latitudes, Astroid) through the Lean model
    ginv::model_case(r, a, f, lat1, lat2, lon2 - lon1);
    // the whole of GenInverse through the Lean model (series solver), and the bookkeeping model on the implementation's kernels (both solvers)
    if (f < 1) { run("geninv_series", {hx(a), hx(f), hx(lat1), hx(lon1), hx(lat2), hx(lon2)}); stratum("model-geninv-series");
      run("geninv_kern", {i % 2 ? "G" : "E", hx(a), hx(f), hx(lat1), hx(lon1), hx(lat2), hx(lon2)}); stratum(std::string("model-geninv-kern-") + (i % 2 ? "series" : "exact")); }
    // wrapper correspondence on inputs with exactly representable longitude differences (so the core sees the same problem)
    double g1 = grid(-90, 90), g2 = grid(-90, 90), h1 = grid(-180, 180) + 360 * r.irange(-1, 1), h2 = grid(-180, 180);
    if (k == 1) g1 = r.pick(std::vector<double>{90, -90, 0, -0.0}); if (k == 2) { g1 = 0; g2 = -0.0; } if (k == 3) h2 = h1 + 180; if (k == 5) { g2 = g1; h2 = h1; } if (k == 7) g2 = -g1;
    run("invwrapq", {i % 2 ? "G" : "E", hx(a), hx(f), hx(g1), hx(h1), hx(g2), hx(h2)});
  }
}
int main(int argc, char** argv) { return gv::main_(argc, argv); }
