// C11: polar stereographic, Lambert conformal conic (with Mercator and polar limits), Albers equal area (with
// cylindrical and azimuthal limits).  Ops for the Lean correspondence (formula models executed in binary64) and
// property-level oracles on the implementation (Snyder's closed forms in binary128, closures, conformality /
// equal-area by differencing, prescribed scales, constructor equivalence, SetScale, mirror and wrap laws).
#include "common.hpp"
#include "C11_oracle.hpp"
#include <GeographicLib/PolarStereographic.hpp>
#include <GeographicLib/LambertConformalConic.hpp>
#include <GeographicLib/AlbersEqualArea.hpp>
#include <GeographicLib/Math.hpp>
#include <memory>
using namespace GeographicLib; using namespace gv; using c11::Q;
typedef long double LD;

// ---------------------------------------------------------------------------------------------------------------
// configurations
struct Cfg {
  int cls;            // 0 PS, 1 LCC, 2 Albers
  double a, f;
  int kind;           // 1: one parallel (degrees); 2: two parallels (degrees); 3: sines and cosines
  double p[4];        // kind 1: lat; kind 2: lat1 lat2; kind 3: sin1 cos1 sin2 cos2
  double k1;
  int ss; double sslat, ssk;   // optional SetScale(sslat, ssk)
};
static const int NCFG = 13;
static void trim_op(const Args& a, size_t n);
static Cfg parse(const Args& a, size_t i = 0) {
  Cfg c; c.cls = std::stoi(a[i]); c.a = unhx(a[i + 1]); c.f = unhx(a[i + 2]); c.kind = std::stoi(a[i + 3]);
  for (int j = 0; j < 4; ++j) c.p[j] = unhx(a[i + 4 + j]);
  c.k1 = unhx(a[i + 8]); c.ss = std::stoi(a[i + 9]); c.sslat = unhx(a[i + 10]); c.ssk = unhx(a[i + 11]);
  return c;
}
static Args enc(const Cfg& c) {
  return {std::to_string(c.cls), hx(c.a), hx(c.f), std::to_string(c.kind), hx(c.p[0]), hx(c.p[1]), hx(c.p[2]), hx(c.p[3]), hx(c.k1),
          std::to_string(c.ss), hx(c.sslat), hx(c.ssk), "0"};   // 13th slot reserved
}
struct Obj {
  std::unique_ptr<PolarStereographic> ps; std::unique_ptr<LambertConformalConic> lcc; std::unique_ptr<AlbersEqualArea> alb;
  int cls = 0;
  void Fwd(bool np, double lon0, double lat, double lon, double& x, double& y, double& g, double& k) const {
    if (cls == 0) ps->Forward(np, lat, lon, x, y, g, k); else if (cls == 1) lcc->Forward(lon0, lat, lon, x, y, g, k); else alb->Forward(lon0, lat, lon, x, y, g, k);
  }
  void Rev(bool np, double lon0, double x, double y, double& lat, double& lon, double& g, double& k) const {
    if (cls == 0) ps->Reverse(np, x, y, lat, lon, g, k); else if (cls == 1) lcc->Reverse(lon0, x, y, lat, lon, g, k); else alb->Reverse(lon0, x, y, lat, lon, g, k);
  }
  double lat0() const { return cls == 1 ? lcc->OriginLatitude() : cls == 2 ? alb->OriginLatitude() : 90; }
  double k0() const { return cls == 0 ? ps->CentralScale() : cls == 1 ? lcc->CentralScale() : alb->CentralScale(); }
};
// returns "" or the exception code
static std::string build(const Cfg& c, Obj& o, bool setscale = true) {
  o.cls = c.cls;
  return guarded([&] {
    if (c.cls == 0) { o.ps.reset(new PolarStereographic(c.a, c.f, c.k1)); if (c.ss && setscale) o.ps->SetScale(c.sslat, c.ssk); }
    else if (c.cls == 1) {
      if (c.kind == 1) o.lcc.reset(new LambertConformalConic(c.a, c.f, c.p[0], c.k1));
      else if (c.kind == 2) o.lcc.reset(new LambertConformalConic(c.a, c.f, c.p[0], c.p[1], c.k1));
      else o.lcc.reset(new LambertConformalConic(c.a, c.f, c.p[0], c.p[1], c.p[2], c.p[3], c.k1));
      if (c.ss && setscale) o.lcc->SetScale(c.sslat, c.ssk);
    } else {
      if (c.kind == 1) o.alb.reset(new AlbersEqualArea(c.a, c.f, c.p[0], c.k1));
      else if (c.kind == 2) o.alb.reset(new AlbersEqualArea(c.a, c.f, c.p[0], c.p[1], c.k1));
      else o.alb.reset(new AlbersEqualArea(c.a, c.f, c.p[0], c.p[1], c.p[2], c.p[3], c.k1));
      if (c.ss && setscale) o.alb->SetScale(c.sslat, c.ssk);
    }
  });
}
// standard parallels in degrees (for documented-domain predicates and strata)
static void stdlats(const Cfg& c, double& l1, double& l2) {
  if (c.kind == 1) l1 = l2 = c.p[0]; else if (c.kind == 2) { l1 = c.p[0]; l2 = c.p[1]; }
  else { l1 = std::atan2(c.p[0], c.p[1]) / Math::degree(); l2 = std::atan2(c.p[2], c.p[3]) / Math::degree(); }
}
// The accuracy figures of LambertConformalConic.hpp / AlbersEqualArea.hpp for distinct parallels are stated for
// dlat <= 160 and (LCC) max|lat| <= 90 - min(0.0002, 2.2e-6 (180 - dlat), 6e-8 dlat^2).
static bool documented_domain(const Cfg& c) {
  if (c.cls == 0) return true;
  double l1, l2; stdlats(c, l1, l2); if (l1 == l2) return true;
  if (c.kind == 3 && c.p[0] == c.p[2] && c.p[1] == c.p[3]) return true;
  double dlat = std::fabs(l2 - l1); if (!(dlat <= 160)) return false;
  double lim = 90 - std::fmin(0.0002, std::fmin(2.2e-6 * (180 - dlat), 6e-8 * dlat * dlat));
  return std::fmax(std::fabs(l1), std::fabs(l2)) <= lim;
}
static c11::Proj oracle(const Cfg& c) {
  static std::map<std::string, c11::Proj> memo;
  std::string key = join(enc(c));
  auto it = memo.find(key); if (it != memo.end()) return it->second;
  if (memo.size() > 32) memo.clear();
  c11::Proj P(c.cls, c.a, c.f); P.kap = c.k1; if (c.cls == 0) P.n = 1;
  if (c.cls != 0) {
    c11::SC a1, a2;
    if (c.kind == 1) a1 = a2 = c11::sc_deg(c.p[0]);
    else if (c.kind == 2) { a1 = c11::sc_deg(c.p[0]); a2 = c11::sc_deg(c.p[1]); }
    else { a1 = c11::sc_norm(c.p[0], c.p[1]); a2 = c11::sc_norm(c.p[2], c.p[3]); }
    P.init_conic(a1, a2);
  }
  if (c.ss) { c11::SC p = c11::sc_deg(c.sslat); Q u = (c.cls == 0 && p.c == 0) ? Q(1) : P.unit_scale(p); P.kap = Q(c.ssk) / u; }
  memo.insert({key, P}); return P;
}

// ---------------------------------------------------------------------------------------------------------------
// tolerances (documented: "about 10 nm, true distance"; scale relative error 7e-15 => a term proportional to the
// projected distance from the origin; safety factor 4)
static double tol_plane(const Cfg& c, double R, double k) { return 4 * (10e-9 * (c.a / 6378137.0) * std::fmax(1.0, k) + 1e-14 * R); }
static double tol_ground(const Cfg& c, double R, double k) { double kk = std::fmax(k, 1 / k); if (!(kk < 1e300)) kk = 1; return 4 * (10e-9 * (c.a / 6378137.0) + 1e-14 * R * kk); }
// The documented error of the latitude of origin for two distinct parallels (4.5e-14 degrees) is for terrestrial
// flattening; the careful evaluation of 1 - n in Init cancels terms of order e^2, so it is scaled by e^2/e^2(WGS84)
// up to |f| = 1/120 and by a flat factor 1000 (sub-micrometre -> sub-millimetre) for the strongly non-spherical test
// ellipsoids f = +-0.1, for which the library documents no figure.  It displaces the whole map along the central meridian.
static double gflat(const Cfg& c) { double r = std::fabs(c.f * (2 - c.f)) / 0.0066943799901413165; return r <= 2.5 ? std::fmax(1.0, r) : 1000.0; }   // |f| <= 1/120: proportional; beyond (the f = +-0.1 strata): three orders of magnitude
static bool distinct_parallels(const Cfg& c) { return c.cls != 0 && !(c.kind == 1 || (c.kind == 2 && c.p[0] == c.p[1]) || (c.kind == 3 && c.p[0] == c.p[2] && c.p[1] == c.p[3])); }
static double origin_slack(const Cfg& c) { return distinct_parallels(c) ? 4 * 4.5e-14 * Math::degree() * c.a * gflat(c) : 0.0; }
static std::string num(double x) { char b[40]; std::snprintf(b, sizeof b, "%.17g", x); return b; }

static LD Mrad(const Cfg& c, double lat) { LD e2 = (LD)c.f * (2 - (LD)c.f), s = sinl((LD)lat * M_PIl / 180), w = 1 - e2 * s * s; return (LD)c.a * (1 - e2) / (w * sqrtl(w)); }
static LD Ncos(const Cfg& c, double lat) { LD e2 = (LD)c.f * (2 - (LD)c.f), s = sinl((LD)lat * M_PIl / 180), w = 1 - e2 * s * s; return (LD)c.a / sqrtl(w) * cosl((LD)lat * M_PIl / 180); }

// relative accuracy to expect of k (and, in radians, of gamma) at a latitude: "consistent with 10 nm" means 10 nm over
// the distance from the apex of the cone (k and gamma are ratios / directions of that radius vector)
static double krel_at(const c11::Proj& P, const Cfg& c, double lat) {
  c11::SC p = c11::sc_deg(lat); if (c.cls == 0 && P.n == 0) return 1e-12;
  if (P.cyl || P.n == 0) return 1e-12;
  Q u = P.unit_scale(p); if (!c11::fin(u) || u <= 0) return 1e-12;
  double rc = std::fabs(c11::dbl(P.kap * u * P.E.a * P.E.m(p) / P.n)) / (c.cls == 2 ? c11::dbl(P.kap * P.kap) : 1.0);
  double kk = c11::dbl(P.kap * u);
  return 1e-12 + 4 * (10e-9 * (c.a / 6378137.0) * std::fmax(1.0, kk) + 1e-14 * c.a) / rc;
}

// ---------------------------------------------------------------------------------------------------------------
// pt: cfg(13) northp lon0 lat lon -- one point through Forward and Reverse with all point-level oracles
static Reg r_pt("pt", [](const Args& a) {
  Cfg c = parse(a); bool np = std::stoi(a[NCFG]) != 0; double lon0 = unhx(a[NCFG + 1]), lat = unhx(a[NCFG + 2]), lon = unhx(a[NCFG + 3]);
  Obj o; std::string ex = build(c, o); if (!ex.empty()) { emit(ex); return; }
  double x, y, g, k; o.Fwd(np, lon0, lat, lon, x, y, g, k);
  double rlat, rlon, rg, rk; o.Rev(np, lon0, x, y, rlat, rlon, rg, rk);
  emit(hx(x) + " " + hx(y) + " " + hx(g) + " " + hx(k) + " " + hx(rlat) + " " + hx(rlon) + " " + hx(rg) + " " + hx(rk));
  if (!(std::fabs(lat) <= 90 && std::isfinite(lon) && std::isfinite(lon0) && std::fabs(lon) < 1e6 && std::fabs(lon0) < 1e6)) return;
  c11::Proj P = oracle(c); c11::Out w = P.fwd(np, lon0, lat, lon);
  double R = std::hypot(x, y);
  // every point of the sphere has an image (finite or, at a pole that projects to infinity, large): never NaN
  if ((std::isnan(x) || std::isnan(y)) && !(c.cls == 0 && lat * (np ? 1 : -1) == -90)) {
    bad("forward-nan", "Forward(" + num(lat) + ", " + num(lon) + ") = (" + num(x) + ", " + num(y) + "), k = " + num(k) + "; closed form (" + c11::qstr(w.x) + ", " + c11::qstr(w.y) + ")"); return; }
  bool edge; Q d = c11::dlon(lon0, lon, edge); (void)d;
  // 1. textbook closed form
  if (w.ok && c11::fin(w.x) && c11::fin(w.y) && fabsq(w.x) < Q(1e30) && fabsq(w.y) < Q(1e30)) {
    double ox = c11::dbl(w.x), oy = c11::dbl(w.y), oR = std::hypot(ox, oy), ok_ = c11::dbl(w.k);
    if (documented_domain(c)) {
      double tol = tol_plane(c, oR, w.kok ? ok_ : k) + origin_slack(c) * std::fmax(1.0, std::fmin(k, 1e300));   // "true distance": at a pole of a non-polar cone the scale is infinite
      double dx = (c.cls != 0 && edge) ? c11::dbl(fabsq(Q(x)) - fabsq(w.x)) : c11::dbl(Q(x) - w.x), dy = c11::dbl(Q(y) - w.y);
      if (!(std::fabs(dx) <= tol && std::fabs(dy) <= tol))
        bad("closed-form-xy", "Forward = (" + num(x) + ", " + num(y) + ") but Snyder's closed form gives (" + c11::qstr(w.x) + ", " + c11::qstr(w.y) + "); |d| = " + num(std::hypot(dx, dy)) + " m, tolerance " + num(tol));
      if (w.kok && std::isfinite(ok_) && ok_ < 1e30) {
        // "errors in the convergence and scale are consistent with 10 nm": relative 10 nm / (distance from the apex of the cone)
        double rc = (P.cyl || P.n == 0) ? INFINITY : std::fabs(ok_ * c.a * c11::dbl(P.E.m(c11::sc_deg(lat)) / P.n)) / (c.cls == 2 ? c11::dbl(P.kap * P.kap) : 1.0);
        double krel = 1e-12 + 4 * (10e-9 * (c.a / 6378137.0) * std::fmax(1.0, ok_) + 1e-14 * c.a) / rc;   // same absolute budget as the positions
        if (!(std::fabs(c11::dbl(Q(k) - w.k)) <= krel * ok_)) bad("closed-form-k", "scale " + num(k) + " vs closed form " + c11::qstr(w.k) + " (relative tolerance " + num(krel) + ")");
        double og = c11::dbl(w.gamma), dg = c11::dbl(Q(g) - w.gamma); if (edge || std::fabs(og) == 180) dg = std::fabs(std::fabs(g) - std::fabs(og));
        if (!(std::fabs(dg) <= 1e-12 * std::fmax(1.0, std::fabs(og)) + krel / Math::degree())) bad("closed-form-gamma", "convergence " + num(g) + " vs closed form " + c11::qstr(w.gamma));
      }
    }
  }
  if (!(std::isfinite(x) && std::isfinite(y) && std::isfinite(k))) return;
  // 2. Reverse(Forward) = identity (ground distance), where the map is injective (|theta| < 180 degrees: an Albers cone
  //    with k^2 n > 1 overlaps itself)
  if (c.cls == 0 || std::fabs(g) < 179) {
    LD dN = ((LD)rlat - lat) * (M_PIl / 180) * Mrad(c, lat), dE = (LD)Math::AngDiff(lon, rlon) * (M_PIl / 180) * Ncos(c, lat);
    if (std::fabs(lat) == 90) dE = 0;
    // "about 10 nm": on the ellipsoid, or in the plane (where a scale far from 1 compresses one direction: Albers
    // north-south scale is 1/k, so near a pole with k >> 1 a sub-nanometre plane error is many nanometres of latitude)
    LD kew = k, kns = c.cls == 2 ? 1 / (LD)k : (LD)k;
    double dist = (double)hypotl(dN, dE), tol = tol_ground(c, R, k), distp = (double)hypotl(dN * kns, dE * kew), tolp = tol_plane(c, R, 1.0);
    if (!(dist <= tol || distp <= tolp)) bad("reverse-forward", "Reverse(Forward(" + num(lat) + ", " + num(lon) + ")) = (" + num(rlat) + ", " + num(rlon) + "), off by " + num(dist) + " m on the ground (" + num(distp) + " m in the plane), tolerance " + num(tol) + " (" + num(tolp) + ")");
    if (std::cos(lat * Math::degree()) > 1e-3 && R < 1e3 * c.a) {
      // k ~ 1/cos(lat): a latitude error within the closure tolerance changes it by tan(lat) * dlat
      double tk = 1e-9 + std::fabs(std::tan(lat * Math::degree())) * tol / c.a;
      if (!(std::fabs(rk - k) <= tk * k)) bad("reverse-forward-k", "k from Reverse " + num(rk) + " vs Forward " + num(k));
      double dg = std::fabs(Math::AngDiff(g, rg)); if (!(dg <= 1e-9)) bad("reverse-forward-gamma", "gamma from Reverse " + num(rg) + " vs Forward " + num(g));
    }
    if (!(std::fabs(rlon) <= 180)) bad("reverse-lon-range", "lon = " + num(rlon));
  }
  // 3. Forward(Reverse) = identity in the plane, on a displaced point of the image
  if (std::fabs(lat) < 89.9 && R < 100 * c.a && (c.cls == 0 || (std::fabs(g) < 150 && std::fabs(c11::dbl(d)) < 150))) {
    double x2 = x + 1234.5 * (c.a / 6378137.0), y2 = y - 777.25 * (c.a / 6378137.0), la, lo, gg, kk; o.Rev(np, lon0, x2, y2, la, lo, gg, kk);
    // the displaced point must lie inside the image: the cone covers the sector |theta| < 180 n (k0^2 n for Albers)
    double nn = c.cls == 0 ? 1.0 : std::fabs(std::sin(o.lat0() * Math::degree())) * (c.cls == 2 ? o.k0() * o.k0() : 1.0);
    if (std::fabs(la) < 89.99 && std::isfinite(kk) && (nn == 0 || std::fabs(gg) < 170 * nn)) {
      double x3, y3, g3, k3; o.Fwd(np, lon0, la, lo, x3, y3, g3, k3);
      double dist = std::hypot(x3 - x2, y3 - y2), tol = tol_plane(c, std::hypot(x2, y2), std::fmax(kk, 1 / kk));
      // Reverse returns lat, lon rounded to binary64: half an ulp of 90 or 180 degrees on the ground
      tol += (ulp(90.0) * Math::degree() * c.a * 2) * std::fmax(kk, 1 / kk);
      if (!(dist <= tol)) bad("forward-reverse", "Forward(Reverse(" + num(x2) + ", " + num(y2) + ")) misses by " + num(dist) + " m, tolerance " + num(tol));
    }
  }
  // 4. local behaviour by differencing the implementation (Richardson, steps h and 2h, in long double):
  //    conformal: d/dphi = M k (-sin g, cos g), d/dlam = N cos(phi) k (cos g, sin g); Albers: north-south 1/k
  if (std::fabs(lat) <= 85 && R < 30 * c.a && k < 1e3 && k > 1e-3 && !(c.cls != 0 && std::fabs(c11::dbl(d)) > 179)) {
    const double h = 0.02; LD D[2][2];
    for (int dir = 0; dir < 2; ++dir) {
      LD v[4][2]; int j = 0;
      for (int m : {-2, -1, 1, 2}) { double xx, yy, g_, k_; o.Fwd(np, lon0, dir == 0 ? lat + m * h : lat, dir == 1 ? lon + m * h : lon, xx, yy, g_, k_); v[j][0] = xx; v[j][1] = yy; ++j; }
      for (int q = 0; q < 2; ++q) { LD D1 = (v[2][q] - v[1][q]) / (2 * h), D2 = (v[3][q] - v[0][q]) / (4 * h); D[dir][q] = (4 * D1 - D2) / 3 / (M_PIl / 180); }
    }
    // actual steps (lat + m h is rounded): negligible (relative 1e-16/h)
    LD gr = (LD)g * M_PIl / 180, sg = sinl(gr), cg = cosl(gr), M = Mrad(c, lat), Nc = Ncos(c, lat);
    LD kns = c.cls == 2 ? 1 / (LD)k : (LD)k, kew = k;
    LD e1 = hypotl(D[0][0] / M + kns * sg, D[0][1] / M - kns * cg) / kns, e2 = hypotl(D[1][0] / Nc - kew * cg, D[1][1] / Nc - kew * sg) / kew;
    const char* nm = c.cls == 2 ? "equal-area" : "conformality";
    if (!(e1 <= 1e-7)) bad(std::string(nm) + "-meridian", "north-south derivative of Forward differs from (" + std::string(c.cls == 2 ? "1/k" : "k") + ", gamma) returned: relative " + num((double)e1));
    if (!(e2 <= 1e-7)) bad(std::string(nm) + "-parallel", "east-west derivative of Forward differs from (k, gamma) returned: relative " + num((double)e2));
  }
  // 5. longitude wrap: lon0 and lon shifted by multiples of 360
  if (c.cls != 0) {
    double x4, y4, g4, k4; o.Fwd(np, lon0 + 360, lat, lon - 720, x4, y4, g4, k4);
    bool exact = (lon0 + 360) - 360 == lon0 && (lon - 720) + 720 == lon && !edge;
    if (exact && !(std::hypot(x4 - x, y4 - y) <= tol_plane(c, R, k) && std::fabs(g4 - g) <= 1e-12 * std::fmax(1.0, std::fabs(g)))) bad("lon-wrap", "Forward(lon0+360, lat, lon-720) differs by " + num(std::hypot(x4 - x, y4 - y)) + " m");
  }
});

// ---------------------------------------------------------------------------------------------------------------
// cfgprops: cfg(13) t1 t2 t3 (three test latitudes) lon -- configuration-level oracles
static Reg r_cfg("cfgprops", [](const Args& a) {
  Cfg c = parse(a); double tl[3] = {unhx(a[NCFG]), unhx(a[NCFG + 1]), unhx(a[NCFG + 2])}, lon = unhx(a[NCFG + 3]);
  Obj o; std::string ex = build(c, o); if (!ex.empty()) { emit(ex); return; }
  emit(hx(o.lat0()) + " " + hx(o.k0()));
  double l1, l2; stdlats(c, l1, l2);
  c11::Proj P = oracle(c);
  auto same_proj = [&](const Obj& p, const Obj& q, const char* rel, const std::string& what, double extra = 0) {
    for (int i = 0; i < 3; ++i) {
      double x, y, g, k, x2, y2, g2, k2; p.Fwd(true, 3, tl[i], lon, x, y, g, k); q.Fwd(true, 3, tl[i], lon, x2, y2, g2, k2);
      if (!(std::isfinite(x) && std::isfinite(y))) continue;
      double dd = std::hypot(x - x2, y - y2), tol = 2 * tol_plane(c, std::hypot(x, y), k) + extra * (std::hypot(x, y) + c.a) + 2 * origin_slack(c) * std::fmax(1.0, k);
      bool kcmp = std::fabs(tl[i]) < 90;   // at a pole of a non-azimuthal cone the scale is infinite (the returned value is arbitrary)
      if (!(dd <= tol && (!kcmp || std::fabs(k - k2) <= (1e-12 + extra) * std::fabs(k)))) { bad(rel, what + ": at lat " + num(tl[i]) + " positions differ by " + num(dd) + " m (tolerance " + num(tol) + "), k " + num(k) + " vs " + num(k2)); return; }
    }
  };
  // prescribed scale: on the standard parallels (no SetScale) or at the SetScale latitude
  if (c.cls != 0 && !c.ss && documented_domain(c)) {
    for (double l : {l1, l2}) if (c.kind != 3 && std::cos(l * Math::degree()) > 1e-3) {
      double x, y, g, k; o.Fwd(true, 0, l, 0, x, y, g, k);
      if (!(std::fabs(k - c.k1) <= krel_at(P, c, l) * c.k1)) bad("scale-on-standard-parallel", "k(" + num(l) + ") = " + num(k) + ", prescribed " + num(c.k1));
    }
  }
  if (c.ss) {
    double x, y, g, k; o.Fwd(true, 0, c.sslat, 0, x, y, g, k);
    if (!(std::fabs(k - c.ssk) <= krel_at(P, c, c.sslat) * c.ssk)) bad("setscale-scale", "after SetScale(" + num(c.sslat) + ", " + num(c.ssk) + ") the scale there is " + num(k));
  }
  if (c.cls == 0) {
    if (!c.ss && !(o.k0() == c.k1)) bad("central-scale", "CentralScale");
    // SetScale(90, k) is the constructor with k0 = k
    Cfg c2 = c; c2.ss = 1; c2.sslat = 90; c2.ssk = c.k1 * 0.75; Cfg c3 = c; c3.ss = 0; c3.k1 = c.k1 * 0.75; Obj o2, o3;
    if (build(c2, o2).empty() && build(c3, o3).empty()) same_proj(o2, o3, "setscale-vs-constructor", "SetScale(90, k) vs constructor(k)");
    return;
  }
  // origin: between the parallels, equals stdlat for one parallel, maps to (0, 0) with the central scale; equals the oracle's
  {
    double lat0 = o.lat0(), lo = std::fmin(l1, l2), hi = std::fmax(l1, l2);
    if (!(lat0 >= lo - 1e-9 && lat0 <= hi + 1e-9)) bad("origin-latitude", "OriginLatitude " + num(lat0) + " not between the standard parallels " + num(l1) + ", " + num(l2));
    if (l1 == l2 && c.kind != 3 && !(std::fabs(lat0 - l1) <= 4 * ulp(90.0))) bad("origin-latitude", "one standard parallel " + num(l1) + " but OriginLatitude " + num(lat0));
    if (documented_domain(c)) {
      double ol = c11::dbl(atan2q(P.p0.s, P.p0.c) * 180 / c11::PIq);
      if (!P.polar && !(std::fabs(lat0 - ol) <= 4 * 4.5e-14 * gflat(c) + 4 * ulp(lat0))) bad("origin-latitude", "OriginLatitude " + num(lat0) + " vs latitude of minimum scale " + num(ol));
      if (std::fabs(lat0) < 90) {
        double x, y, g, k; o.Fwd(true, 7, lat0, 7, x, y, g, k);
        if (!(std::hypot(x, y) <= tol_plane(c, 0, std::fmax(k, 1 / k)))) bad("origin-maps-to-zero", "Forward(lat0) = (" + num(x) + ", " + num(y) + ")");
        if (!(std::fabs(k - o.k0()) <= 1e-12 * k)) bad("central-scale", "k(lat0) = " + num(k) + " but CentralScale = " + num(o.k0()));
      }
    }
  }
  // constructor equivalence: same parameters through the other constructor forms
  {
    if (c.kind == 2) {
      double s1, c1, s2, c2_; Math::sincosd(l1, s1, c1); Math::sincosd(l2, s2, c2_);
      Cfg c3 = c; c3.kind = 3; c3.p[0] = s1; c3.p[1] = c1; c3.p[2] = s2; c3.p[3] = c2_; Obj o3;
      std::string e3 = build(c3, o3); if (!e3.empty()) bad("constructor-equivalence", "degree constructor accepts (" + num(l1) + ", " + num(l2) + ") but the sin/cos constructor throws");
      else same_proj(o, o3, "constructor-equivalence", "two-parallel vs sin/cos constructor");
    }
    if (l1 == l2 && c.kind != 3) {
      Cfg c1 = c; c1.kind = c.kind == 1 ? 2 : 1; c1.p[0] = l1; c1.p[1] = c.kind == 1 ? l1 : 0; Obj o1;
      std::string e1 = build(c1, o1); if (!e1.empty()) bad("constructor-equivalence", "one- and two-parallel constructors disagree on accepting " + num(l1));
      else same_proj(o, o1, "constructor-equivalence", "one-parallel vs two-parallel constructor");
    }
    // exchanging the parallels gives the same projection
    if (c.kind != 1) {
      Cfg cs = c; if (c.kind == 2) std::swap(cs.p[0], cs.p[1]); else { std::swap(cs.p[0], cs.p[2]); std::swap(cs.p[1], cs.p[3]); } Obj os;
      std::string es = build(cs, os); if (!es.empty()) bad("constructor-equivalence", "exchanging the standard parallels is rejected");
      else if (documented_domain(c)) same_proj(o, os, "parallel-order", "standard parallels exchanged");
    }
  }
  // SetScale(stdlat, k) on a k1 = 1 object is the constructor with k1 = k (one-parallel or two-parallel)
  if (!c.ss && std::cos(l1 * Math::degree()) > 1e-3 && documented_domain(c)) {
    Cfg c2 = c; c2.ss = 1; c2.sslat = l1; c2.ssk = c.k1; c2.k1 = 1; Obj o2;
    if (c.kind != 3 && build(c2, o2).empty()) same_proj(o, o2, "setscale-vs-constructor", "constructor(k1) vs constructor(1) + SetScale(stdlat1, k1)", krel_at(P, c, l1));
  }
  // mirror law: the cone with negated parallels at the negated latitude is the mirror image (SetScale at the pole of
  // a polar cone is judged by setscale-polar-hemisphere)
  if (!(c.ss && std::fabs(c.sslat) == 90)) {
    Cfg cm = c; if (c.kind == 3) { cm.p[0] = -c.p[0]; cm.p[2] = -c.p[2]; } else { cm.p[0] = -c.p[0]; cm.p[1] = -c.p[1]; } cm.sslat = -c.sslat; Obj om;
    std::string em = build(cm, om); if (!em.empty()) bad("mirror", "mirrored configuration rejected");
    else for (int i = 0; i < 3; ++i) {
      double x, y, g, k, x2, y2, g2, k2; o.Fwd(true, 0, tl[i], lon, x, y, g, k); om.Fwd(true, 0, -tl[i], lon, x2, y2, g2, k2);
      if (!(std::isfinite(x) && std::isfinite(y)) || !documented_domain(c)) continue;
      double dd = std::hypot(x - x2, y + y2), tol = 2 * tol_plane(c, std::hypot(x, y), k) + 2 * origin_slack(c) * std::fmax(1.0, k);
      if (!(dd <= tol && std::fabs(g + g2) <= 1e-12 * std::fmax(1.0, std::fabs(g)) && (std::fabs(tl[i]) == 90 || std::fabs(k - k2) <= 1e-12 * std::fabs(k)))) { bad("mirror", "Forward(-cone)(-lat) is not the mirror image of Forward(cone)(lat) at lat " + num(tl[i]) + ": off by " + num(dd) + " m"); break; }
      double la, lo, gg, kk; om.Rev(true, 0, x, -y, la, lo, gg, kk); double la1, lo1, gg1, kk1; o.Rev(true, 0, x, y, la1, lo1, gg1, kk1);
      if (std::fabs(tl[i]) < 89.9 && !(std::fabs(la + la1) <= 1e-9)) { bad("mirror", "Reverse(-cone)(x, -y) latitude " + num(la) + " vs " + num(la1)); break; }
    }
  }
  // SetScale at a pole: accepted exactly at the pole where the (polar) cone has its apex
  if (c.cls == 1 && P.polar && !c.ss) {
    for (double pl : {90.0, -90.0}) {
      Cfg c2 = c; c2.ss = 1; c2.sslat = pl; c2.ssk = 0.9996; Obj o2; bool acc = build(c2, o2).empty(), want = (pl > 0) == (P.hemi > 0);
      if (acc != want) bad("setscale-polar-hemisphere", "polar cone with apex at " + num(90.0 * P.hemi) + ": SetScale(" + num(pl) + ", k) is " + (acc ? "accepted" : "rejected"));
    }
  }
  // NaN coordinates give NaN (no clamping to a pole)
  {
    double la, lo, gg, kk; o.Rev(true, 0, std::nan(""), 1e5, la, lo, gg, kk); if (!std::isnan(la)) bad("nan-in-nan-out", "Reverse(NaN, y) gives lat " + num(la));
    o.Rev(true, 0, 1e5, std::nan(""), la, lo, gg, kk); if (!std::isnan(la)) bad("nan-in-nan-out", "Reverse(x, NaN) gives lat " + num(la));
  }
});

// ---------------------------------------------------------------------------------------------------------------
// ctor: cls a f k  lat1 lat2  -- accept/reject of the three constructor forms on the same parameters (+ the sincosd
// values the degree forms use), judged by the Lean domain predicate; also consistency among the forms here
static Reg r_ctor("ctor", [](const Args& a) {
  int cls = std::stoi(a[0]); double ea = unhx(a[1]), f = unhx(a[2]), k = unhx(a[3]), l1 = unhx(a[4]), l2 = unhx(a[5]);
  double s1, c1, s2, c2; Math::sincosd(l1, s1, c1); Math::sincosd(l2, s2, c2);
  current_op() = "ctor " + a[0] + " " + a[1] + " " + a[2] + " " + a[3] + " " + a[4] + " " + a[5] + " " + hx(s1) + " " + hx(c1) + " " + hx(s2) + " " + hx(c2);
  auto acc = [&](int kind) {
    Cfg c; c.cls = cls; c.a = ea; c.f = f; c.k1 = k; c.ss = 0; c.sslat = 0; c.ssk = 1; c.kind = kind;
    if (kind == 1) { c.p[0] = l1; c.p[1] = c.p[2] = c.p[3] = 0; } else if (kind == 2) { c.p[0] = l1; c.p[1] = l2; c.p[2] = c.p[3] = 0; } else { c.p[0] = s1; c.p[1] = c1; c.p[2] = s2; c.p[3] = c2; }
    Obj o; std::string e = build(c, o); return e.empty() ? 1 : (e == "!E" ? 0 : -1);
  };
  int a2 = acc(2), a3 = acc(3), a1 = (l1 == l2 || (std::isnan(l1) && std::isnan(l2))) ? acc(1) : -2;
  emit(std::to_string(a1) + " " + std::to_string(a2) + " " + std::to_string(a3));
  if (a2 < 0 || a3 < 0 || a1 == -1) bad("constructor-exception-type", "a constructor threw something other than GeographicErr");
  bool latsok = std::fabs(l1) <= 90 && std::fabs(l2) <= 90;   // sincosd of an out-of-range latitude is still a valid sine/cosine pair
  if (latsok && a2 != a3) bad("constructor-domain", "degree constructor " + std::string(a2 ? "accepts" : "rejects") + " (" + num(l1) + ", " + num(l2) + ") but the sin/cos constructor " + (a3 ? "accepts" : "rejects") + " the same parallels");
  if (a1 >= 0 && a1 != a2) bad("constructor-domain", "one-parallel constructor " + std::string(a1 ? "accepts" : "rejects") + " " + num(l1) + " but the two-parallel constructor " + (a2 ? "accepts" : "rejects") + " it twice");
});

// ---------------------------------------------------------------------------------------------------------------
// Lean correspondence ops
static Reg r_taupf("ctaupf", [](const Args& a) { double tau = unhx(a[0]), es = unhx(a[1]); emit(hx(Math::taupf(tau, es))); });
static Reg r_tauf("tauf", [](const Args& a) {
  double taup = unhx(a[0]), es = unhx(a[1]); double t = Math::tauf(taup, es); emit(hx(t));
  // tauf inverts taupf (relative, on both sides)
  if (std::isfinite(taup) && std::fabs(es) < 0.9) {
    double back = Math::taupf(t, es); double e2m = 1 - es * std::fabs(es);
    if (!(std::fabs(back - taup) <= 64 * 2.3e-16 / std::fmin(1.0, e2m) * std::fmax(std::fabs(taup), 1e-300))) bad("tauf-inverts-taupf", "taupf(tauf(" + num(taup) + ")) = " + num(back));
  }
});
static Reg r_psfwd("psfwd", [](const Args& a) {
  double ea = unhx(a[0]), f = unhx(a[1]), k0 = unhx(a[2]); bool np = std::stoi(a[3]) != 0; double lat = unhx(a[4]), lon = unhx(a[5]);
  double lf = Math::LatFix(lat) * (np ? 1 : -1), tau = Math::tand(lf), sl, cl; Math::sincosd(lon, sl, cl);
  current_op() = "psfwd " + a[0] + " " + a[1] + " " + a[2] + " " + a[3] + " " + a[4] + " " + a[5] + " " + hx(lf) + " " + hx(tau) + " " + hx(sl) + " " + hx(cl);
  PolarStereographic p(ea, f, k0); double x, y, g, k; p.Forward(np, lat, lon, x, y, g, k);
  emit(hx(x) + " " + hx(y) + " " + hx(g) + " " + hx(k));
});
static Reg r_psrev("psrev", [](const Args& a) {
  double ea = unhx(a[0]), f = unhx(a[1]), k0 = unhx(a[2]); bool np = std::stoi(a[3]) != 0; double x = unhx(a[4]), y = unhx(a[5]);
  PolarStereographic p(ea, f, k0); double lat, lon, g, k; p.Reverse(np, x, y, lat, lon, g, k);
  emit(hx(lat) + " " + hx(lon) + " " + hx(g) + " " + hx(k));
});
static Reg r_psss("pssetscale", [](const Args& a) {
  double ea = unhx(a[0]), f = unhx(a[1]), k0 = unhx(a[2]), lat = unhx(a[3]), k = unhx(a[4]);
  current_op() = "pssetscale " + a[0] + " " + a[1] + " " + a[2] + " " + a[3] + " " + a[4] + " " + hx(Math::tand(Math::LatFix(lat)));
  PolarStereographic p(ea, f, k0); std::string e = guarded([&] { p.SetScale(lat, k); });
  emit(e.empty() ? hx(p.CentralScale()) : e);
});
static Reg r_dd("cdd", [](const Args& a) {
  int w = std::stoi(a[0]); double x = unhx(a[1]), y = unhx(a[2]), f = unhx(a[3]); typedef LambertConformalConic L; typedef AlbersEqualArea A;
  auto hyp = [](double v) { return std::hypot(1.0, v); };
  double r = 0; std::string ext;
  switch (w) {
  case 0: { double hx_ = hyp(x), hy = hyp(y); ext = hx(hx_) + " " + hx(hy); r = L::Dhyp(x, y, hx_, hy); break; }
  case 1: { double sx = x / hyp(x), sy = y / hyp(y); ext = hx(sx) + " " + hx(sy); r = L::Dsn(x, y, sx, sy); break; }
  case 2: r = L::Dlog1p(x, y); break;
  case 3: r = L::Dexp(x, y); break;
  case 4: { double sx = std::sinh(x), sy = std::sinh(y), cx = hyp(sx), cy = hyp(sy); ext = hx(sx) + " " + hx(sy) + " " + hx(cx) + " " + hx(cy); r = L::Dsinh(x, y, sx, sy, cx, cy); break; }
  case 5: { double hx_ = hyp(x), hy = hyp(y); ext = hx(hx_) + " " + hx(hy); r = L::Dasinh(x, y, hx_, hy); break; }
  case 6: { L l(1, f, 0, 1); ext = hx(l._e2) + " " + hx(l._es); r = l.Deatanhe(x, y); break; }
  case 7: { A l(1, f, 0, 1); ext = hx(l._e2) + " " + hx(l._e); r = l.Datanhee(x, y); break; }
  case 8: { double sx = x / hyp(x), sy = y / hyp(y); ext = hx(sx) + " " + hx(sy); r = A::Dsn(x, y, sx, sy); break; }
  default: break;
  }
  current_op() = "cdd " + a[0] + " " + a[1] + " " + a[2] + " " + a[3] + (ext.empty() ? "" : " " + ext);
  emit(hx(r));
});
// hemisphere wrapper: the implementation's answer on the general problem is predicted from its own answer on the
// canonical (northern, _sign = +1) problem
static Reg r_cfwd("conicfwd", [](const Args& a) {
  Cfg c = parse(a); double lon0 = unhx(a[NCFG]), lat = unhx(a[NCFG + 1]), lon = unhx(a[NCFG + 2]);
  Obj o; std::string ex = build(c, o); if (!ex.empty()) { emit(ex); return; }
  double sign, x, y, g, k, cx, cy, cg, ck;
  if (c.cls == 1) { LambertConformalConic q = *o.lcc; sign = q._sign; q._sign = 1; o.lcc->Forward(lon0, lat, lon, x, y, g, k); q.Forward(lon0, lat * sign, lon, cx, cy, cg, ck); }
  else { AlbersEqualArea q = *o.alb; sign = q._sign; q._sign = 1; o.alb->Forward(lon0, lat, lon, x, y, g, k); q.Forward(lon0, lat * sign, lon, cx, cy, cg, ck); }
  trim_op(a, NCFG + 3);
  current_op() += " " + hx(sign) + " " + hx(cx) + " " + hx(cy) + " " + hx(cg) + " " + hx(ck);
  emit(hx(x) + " " + hx(y) + " " + hx(g) + " " + hx(k));
});
static Reg r_crev("conicrev", [](const Args& a) {
  Cfg c = parse(a); double lon0 = unhx(a[NCFG]), x = unhx(a[NCFG + 1]), y = unhx(a[NCFG + 2]);
  Obj o; std::string ex = build(c, o); if (!ex.empty()) { emit(ex); return; }
  double sign, lat, lon, g, k, clat, clon, cg, ck;
  if (c.cls == 1) { LambertConformalConic q = *o.lcc; sign = q._sign; q._sign = 1; o.lcc->Reverse(lon0, x, y, lat, lon, g, k); q.Reverse(lon0, x, y * sign, clat, clon, cg, ck); }
  else { AlbersEqualArea q = *o.alb; sign = q._sign; q._sign = 1; o.alb->Reverse(lon0, x, y, lat, lon, g, k); q.Reverse(lon0, x, y * sign, clat, clon, cg, ck); }
  trim_op(a, NCFG + 3);
  current_op() += " " + hx(sign) + " " + hx(clat) + " " + hx(clon) + " " + hx(cg) + " " + hx(ck);
  emit(hx(lat) + " " + hx(lon) + " " + hx(g) + " " + hx(k));
});


// ---------------------------------------------------------------------------------------------------------------
// cone kernels against the Lean models (Model/ConicKernels.lean): Init members, northern-cone Forward / Reverse with the
// implementation's own members, SetScale, txif / tphif, DDatanhee / atanhxm1
// keep "op" and its first n arguments (a replayed line carries the tokens appended by the previous run)
static void trim_op(const Args& a, size_t n) {
  std::string op = current_op().substr(0, current_op().find(' ')); Args b(a.begin(), a.begin() + std::min(n, a.size())); current_op() = op + join(b);
}
static Args lccm(const LambertConformalConic& q) { return {hx(q._sign), hx(q._n), hx(q._nc), hx(q._t0nm1), hx(q._scale), hx(q._lat0), hx(q._k0), hx(q._scbet0), hx(q._tchi0), hx(q._scchi0), hx(q._psi0), hx(q._nrho0), hx(q._drhomax)}; }
static Args albm(const AlbersEqualArea& q) { return {hx(q._sign), hx(q._lat0), hx(q._k0), hx(q._n0), hx(q._m02), hx(q._nrho0), hx(q._k2), hx(q._txi0), hx(q._scxi0), hx(q._sxi0)}; }
static Args members(const Obj& o) { return o.cls == 1 ? lccm(*o.lcc) : albm(*o.alb); }
// what the constructor hands to Init
static void rawsc(const Cfg& c, double& s1, double& c1, double& s2, double& c2) {
  if (c.kind == 1) { Math::sincosd(c.p[0], s1, c1); s2 = s1; c2 = c1; }
  else if (c.kind == 2) { Math::sincosd(c.p[0], s1, c1); Math::sincosd(c.p[1], s2, c2); }
  else { s1 = c.p[0]; c1 = c.p[1]; s2 = c.p[2]; c2 = c.p[3]; }
}
static void op_kinit(const Args& a) {
  Cfg c = parse(a); Obj o; std::string ex = build(c, o, false); if (c.cls == 0) { emit("!E"); return; }
  double s1, c1, s2, c2; rawsc(c, s1, c1, s2, c2); trim_op(a, NCFG);
  current_op() += " " + hx(c.a) + " " + hx(c.f) + " " + hx(s1) + " " + hx(c1) + " " + hx(s2) + " " + hx(c2) + " " + hx(c.k1);
  if (!ex.empty()) { emit(ex); return; }
  emit(join(members(o)).substr(1));
}
static Reg r_lccinit("lccinit", op_kinit); static Reg r_albinit("albinit", op_kinit);
static void op_kfwd(const Args& a) {
  Cfg c = parse(a); double lon0 = unhx(a[NCFG]), lat = unhx(a[NCFG + 1]), lon = unhx(a[NCFG + 2]);
  Obj o; std::string ex = build(c, o); if (!ex.empty() || c.cls == 0) { emit("!E"); return; }
  double sign = c.cls == 1 ? o.lcc->_sign : o.alb->_sign, sphi, cphi, x, y, g, k;
  Math::sincosd(Math::LatFix(lat * sign), sphi, cphi); double lam = Math::AngDiff(lon0, lon) * Math::degree();
  if (c.cls == 1) { LambertConformalConic q = *o.lcc; q._sign = 1; q.Forward(lon0, lat * sign, lon, x, y, g, k); }
  else { AlbersEqualArea q = *o.alb; q._sign = 1; q.Forward(lon0, lat * sign, lon, x, y, g, k); }
  trim_op(a, NCFG + 3);
  current_op() += " " + hx(c.a) + " " + hx(c.f) + join(members(o)) + " " + hx(sphi) + " " + hx(cphi) + " " + hx(lam);
  emit(hx(x) + " " + hx(y) + " " + hx(g) + " " + hx(k));
}
static Reg r_lccfwd("lccfwd", op_kfwd); static Reg r_albfwd("albfwd", op_kfwd);
static void op_krev(const Args& a) {
  Cfg c = parse(a); double x = unhx(a[NCFG]), y = unhx(a[NCFG + 1]);
  Obj o; std::string ex = build(c, o); if (!ex.empty() || c.cls == 0) { emit("!E"); return; }
  double lat, lon, g, k;
  if (c.cls == 1) { LambertConformalConic q = *o.lcc; q._sign = 1; q.Reverse(0, x, y, lat, lon, g, k); }
  else { AlbersEqualArea q = *o.alb; q._sign = 1; q.Reverse(0, x, y, lat, lon, g, k); }
  trim_op(a, NCFG + 2);
  current_op() += " " + hx(c.a) + " " + hx(c.f) + join(members(o));
  emit(hx(lat) + " " + hx(lon) + " " + hx(g) + " " + hx(k));
}
static Reg r_lccrev("lccrev", op_krev); static Reg r_albrev("albrev", op_krev);
static Reg r_css("csetscale", [](const Args& a) {
  Cfg c = parse(a); Obj o; std::string ex = build(c, o, false); if (!ex.empty() || c.cls == 0 || !c.ss) { emit("!E"); return; }
  double x, y, g, kold; o.Fwd(true, 0, c.sslat, 0, x, y, g, kold);
  trim_op(a, NCFG);
  current_op() += " " + std::to_string(c.cls) + " " + hx(kold) + " " + hx(c.ssk) + join(members(o));
  std::string e2 = guarded([&] { if (c.cls == 1) o.lcc->SetScale(c.sslat, c.ssk); else o.alb->SetScale(c.sslat, c.ssk); });
  if (!e2.empty()) { emit(e2); return; }
  emit(join(members(o)).substr(1));
});
static Reg r_ctxif("ctxif", [](const Args& a) {
  double f = unhx(a[0]), tphi = unhx(a[1]); AlbersEqualArea q(1, f, 0, 1); double txi = q.txif(tphi); emit(hx(txi) + " " + hx(q.tphif(txi)));
});
static Reg r_cddat("cddat", [](const Args& a) {
  double f = unhx(a[0]), x = unhx(a[1]), y = unhx(a[2]), xm = unhx(a[3]); AlbersEqualArea q(1, f, 0, 1);
  emit(hx(q.DDatanhee(x, y)) + " " + hx(AlbersEqualArea::atanhxm1(xm)));
});

// ---------------------------------------------------------------------------------------------------------------
// generators
static const double WGS84_a = 6378137, WGS84_f = 1 / 298.257223563;
static double pickf(Rng& r) { static const std::vector<double> fs = {WGS84_f, 0, 0.1, -0.1, 1 / 150.0, WGS84_f, WGS84_f}; return r.pick(fs); }
static double pickk(Rng& r) { static const std::vector<double> ks = {1, 1, 0.9996, 0.994, 0.5, 2, 1.25}; return r.pick(ks); }
static double picklat(Rng& r, const Cfg& c) {
  double l1, l2; stdlats(c, l1, l2);
  switch (r.irange(0, 11)) {
  case 0: return r.pick(std::vector<double>{90, -90, 0, 45, -45, 60, -30, 89, -89});
  case 1: { double e = std::pow(10.0, -r.irange(1, 12)); return (90 - e) * (r.coin() ? 1 : -1); }
  case 2: return (r.coin() ? 1 : -1) * std::pow(10.0, -r.irange(1, 12));
  case 3: return r.coin() ? l1 : l2;
  case 4: return std::fmax(-90.0, std::fmin(90.0, (r.coin() ? l1 : l2) + r.range(-1, 1)));
  case 5: return double(r.irange(-90, 90));
  default: return r.range(-90, 90);
  }
}
static void picklon(Rng& r, double& lon0, double& lon) {
  switch (r.irange(0, 7)) {
  case 0: lon0 = r.pick(std::vector<double>{0, 180, -180, 90, 360, -75, 540}); break;
  default: lon0 = r.range(-180, 180); break;
  }
  switch (r.irange(0, 9)) {
  case 0: lon = lon0; break;
  case 1: lon = lon0 + r.range(-1, 1) * std::pow(10.0, -r.irange(1, 10)); break;
  case 2: lon = lon0 + (r.coin() ? 179.9 : -179.9) + r.range(-0.09, 0.09); break;
  case 3: lon = r.pick(std::vector<double>{0, 180, -180, 90, -90, 360, 720.5}); break;
  case 4: lon = lon0 + r.range(-180, 180) + 360 * r.irange(-2, 2); break;
  default: lon = lon0 + r.range(-120, 120); break;
  }
}
// stratified configurations; returns the stratum name
static std::string pickcfg(Rng& r, Cfg& c) {
  c.cls = r.irange(0, 8) == 0 ? 0 : (r.coin() ? 1 : 2); c.a = r.irange(0, 5) ? WGS84_a : r.pick(std::vector<double>{6.4e6, 1.0, 6378388.0}); c.f = pickf(r); c.k1 = pickk(r);
  c.kind = 2; c.p[0] = c.p[1] = c.p[2] = c.p[3] = 0; c.ss = 0; c.sslat = 0; c.ssk = 1;
  std::string s;
  if (c.cls == 0) { c.kind = 1; c.p[0] = 90; s = "ps"; }
  else {
    int st = r.irange(0, 13);
    auto lat = [&] { return r.range(-89, 89); };
    switch (st) {
    case 0: c.kind = 1; c.p[0] = r.coin() ? lat() : double(r.irange(-89, 89)); s = "one-parallel"; break;
    case 1: c.p[0] = c.p[1] = lat(); s = "two-equal"; break;
    case 2: { double l = r.range(-89, 89), e = std::pow(10.0, -r.irange(6, 12)) * (r.coin() ? 1 : -1); c.p[0] = l; c.p[1] = l + e; s = "nearly-equal"; break; }
    case 3: { double pl = r.coin() ? 90 : -90; if (r.coin()) { c.kind = 1; c.p[0] = pl; } else { c.p[0] = c.p[1] = pl; } s = "polar"; break; }
    case 4: if (r.coin()) { c.kind = 1; c.p[0] = 0; } else { c.p[0] = c.p[1] = 0; } s = "equatorial"; break;
    case 5: { double l = r.range(0.5, 85); c.p[0] = r.coin() ? l : -l; c.p[1] = -c.p[0]; s = "symmetric"; break; }
    case 6: { double l = r.range(0.5, 85), e = std::pow(10.0, -r.irange(3, 12)) * (r.coin() ? 1 : -1); c.p[0] = l; c.p[1] = -l + e; if (r.coin()) std::swap(c.p[0], c.p[1]); s = "nearly-symmetric"; break; }
    case 7: c.p[0] = r.range(0, 89); c.p[1] = r.range(0, 89); s = "north-pair"; break;
    case 8: c.p[0] = -r.range(0, 89); c.p[1] = -r.range(0, 89); s = "south-pair"; break;
    case 9: c.p[0] = r.range(0, 70); c.p[1] = -r.range(0, 70); if (r.coin()) std::swap(c.p[0], c.p[1]); s = "mixed-hemispheres"; break;
    case 10: { double lo = r.range(-60, 65), hi = r.range(65, 89.9), sg = r.coin() ? 1 : -1; c.p[0] = sg * lo; c.p[1] = sg * hi; if (r.coin()) std::swap(c.p[0], c.p[1]); s = "wide-pair"; break; }
    case 11: { c.kind = 3; double l1 = lat(), l2 = r.coin() ? l1 : lat(); Math::sincosd(l1, c.p[0], c.p[1]); Math::sincosd(l2, c.p[2], c.p[3]); s = "sincos"; break; }
    case 12: { c.kind = 3; double cc = std::pow(10.0, -r.irange(4, 12)), sg = r.coin() ? 1 : -1; c.p[0] = sg * std::sqrt(1 - cc * cc); c.p[1] = cc;
               if (r.coin()) { c.p[2] = c.p[0]; c.p[3] = c.p[1]; } else { double l2 = sg * r.range(20, 80); Math::sincosd(l2, c.p[2], c.p[3]); } s = "sincos-near-pole"; break; }
    default: c.p[0] = double(r.irange(-8, 8) * 10); c.p[1] = double(r.irange(-8, 8) * 10); s = "integer-degrees"; break;
    }
  }
  if (r.irange(0, 3) == 0) {
    c.ss = 1; c.ssk = r.pick(std::vector<double>{1, 0.97, 0.5, 1.5, 0.9996});
    c.sslat = r.irange(0, 3) ? r.range(-80, 80) : double(r.irange(-8, 8) * 10);
    if (c.cls == 0 && r.irange(0, 3) == 0) c.sslat = 90;
    if (c.cls == 1) { Obj o; if (build(c, o, false).empty() && o.lcc->_nc == 0 && r.coin()) c.sslat = 90 * o.lcc->_sign; }
    s += "+setscale";
  }
  return std::string(c.cls == 0 ? "" : c.cls == 1 ? "lcc-" : "albers-") + s;
}

void gv::generate(const std::string& tier, uint64_t seed) {
  Rng r(seed * 2654435761ULL + 11);
  long ncfg = tier == "thorough" ? 40000 : 2500;
  auto A = [](std::initializer_list<Args> l) { Args out; for (auto& v : l) out.insert(out.end(), v.begin(), v.end()); return out; };
  // fixed anchors: the library's own static instances and documented examples
  {
    std::vector<Cfg> fixed;
    Cfg c; c.a = WGS84_a; c.f = WGS84_f; c.ss = 0; c.sslat = 0; c.ssk = 1; c.p[2] = c.p[3] = 0;
    c.cls = 0; c.kind = 1; c.p[0] = 90; c.p[1] = 0; c.k1 = 0.994; fixed.push_back(c);                 // UPS
    c.cls = 1; c.kind = 1; c.p[0] = 0; c.k1 = 1; fixed.push_back(c);                                   // Mercator
    c.cls = 2; c.kind = 3; c.p[0] = 0; c.p[1] = 1; c.p[2] = 0; c.p[3] = 1; fixed.push_back(c);         // CylindricalEqualArea
    c.p[0] = 1; c.p[1] = 0; c.p[2] = 1; c.p[3] = 0; fixed.push_back(c);                                // AzimuthalEqualAreaNorth
    c.p[0] = -1; c.p[2] = -1; fixed.push_back(c);                                                      // AzimuthalEqualAreaSouth
    c.cls = 1; c.kind = 2; c.p[0] = 40 + 58 / 60.0; c.p[1] = 39 + 56 / 60.0; c.p[2] = c.p[3] = 0; c.k1 = 1; fixed.push_back(c);   // Pennsylvania south (example of the header)
    c.cls = 2; c.p[0] = 40 + 58 / 60.0; c.p[1] = 39 + 56 / 60.0; fixed.push_back(c);
    for (auto& fc : fixed) for (int i = 0; i < 6; ++i) {
      double lon0, lon; picklon(r, lon0, lon); double lat = picklat(r, fc);
      run("pt", A({enc(fc), {std::to_string(int(r.coin())), hx(lon0), hx(lat), hx(lon)}})); stratum("fixed-instances");
    }
  }
  for (long i = 0; i < ncfg; ++i) {
    Cfg c; std::string st = pickcfg(r, c); Args ec = enc(c);
    int npts = 6;
    for (int j = 0; j < npts; ++j) {
      double lon0, lon; picklon(r, lon0, lon); double lat = picklat(r, c);
      run("pt", A({ec, {std::to_string(int(r.coin())), hx(lon0), hx(lat), hx(lon)}})); stratum(st);
      if (i < 2 && j == 0) sample(current_op());
      if (c.cls != 0 && j < 2) {
        run(c.cls == 1 ? "lccfwd" : "albfwd", A({ec, {hx(lon0), hx(lat), hx(lon)}})); stratum("kernel-forward");
        run("conicfwd", A({ec, {hx(lon0), hx(lat), hx(lon)}}));
        double x = r.range(-1, 1) * 8e6, y = r.range(-1, 1) * 8e6; if (j == 0) { Obj o; if (build(c, o).empty()) { double g, k; o.Fwd(true, lon0, lat, lon, x, y, g, k); } }
        run("conicrev", A({ec, {hx(lon0), hx(x), hx(y)}}));
        { Obj o2; double sg = 1; if (build(c, o2).empty()) sg = c.cls == 1 ? o2.lcc->_sign : o2.alb->_sign;
          run(c.cls == 1 ? "lccrev" : "albrev", A({ec, {hx(x), hx(y * sg)}})); stratum("kernel-reverse"); }
      }
    }
    if (c.cls != 0) { run(c.cls == 1 ? "lccinit" : "albinit", ec); stratum("kernel-init"); if (c.ss) { run("csetscale", ec); stratum("kernel-setscale"); } }
    {
      double f = pickf(r), tphi = r.irange(0, 3) ? std::tan(r.range(-1.5707, 1.5707)) : (r.coin() ? 1 : -1) * std::pow(10.0, r.range(-10, 12));
      run("ctxif", {hx(f), hx(tphi)});
      double y = r.irange(0, 2) ? r.range(-1, 1) : 1 - std::pow(10.0, -r.range(0, 12)), x = r.irange(0, 2) ? r.range(-1, y) : y - std::pow(10.0, -r.range(1, 12)) * (1 + y);
      if (r.irange(0, 5) == 0) x = y; if (x < -1) x = -1;
      double xm = r.irange(0, 2) ? (r.coin() ? 1 : -1) * std::pow(10.0, r.range(-20, -0.3)) : r.range(-0.9, 0.9); if (r.irange(0, 20) == 0) xm = 0;
      run("cddat", {hx(f), hx(x), hx(y), hx(xm)}); stratum("albers-helpers");
    }
    run("cfgprops", A({ec, {hx(picklat(r, c)), hx(r.range(-80, 80)), hx(r.range(-89, 89)), hx(r.range(-170, 170))}})); stratum("cfg-" + st);
    // polar stereographic formula model and tauf/taupf
    {
      double f = pickf(r), k0 = pickk(r), lat = picklat(r, c), lon = nasty_angle(r); if (std::fabs(lon) > 1e6) lon = r.range(-180, 180);
      int np = r.coin();
      run("psfwd", {hx(WGS84_a), hx(f), hx(k0), std::to_string(np), hx(lat), hx(lon)}); stratum("ps-forward-model");
      PolarStereographic p(WGS84_a, f, k0); double x, y; p.Forward(np, r.irange(0, 9) ? lat : 90.0 * (np ? 1 : -1), lon, x, y);
      if (std::isfinite(x) && std::isfinite(y)) { run("psrev", {hx(WGS84_a), hx(f), hx(k0), std::to_string(np), hx(x), hx(y)}); stratum("ps-reverse-model"); }
      double sl = r.irange(0, 4) ? r.range(-89.9, 90) : 90.0;
      run("pssetscale", {hx(WGS84_a), hx(f), hx(k0), hx(sl), hx(pickk(r))}); stratum("ps-setscale-model");
      double e2 = f * (2 - f), es = (f < 0 ? -1 : 1) * std::sqrt(std::fabs(e2));
      double tau = r.irange(0, 3) ? std::tan(r.range(-1.57, 1.57)) : (r.coin() ? 1 : -1) * std::pow(10.0, r.range(-12, 12));
      run("ctaupf", {hx(tau), hx(es)}); run("tauf", {hx(tau), hx(es)}); stratum("tauf-taupf");
    }
    // divided-difference helpers
    for (int w = 0; w <= 8; ++w) {
      double x, y, f = pickf(r);
      auto base = [&](double lo, double hi) { return r.range(lo, hi); };
      double lo = -5, hi = 5; if (w == 2) { lo = -0.9; hi = 20; } if (w == 6 || w == 7) { lo = -1; hi = 1; } if (w == 0 || w == 1 || w == 5 || w == 8) { lo = -1e3; hi = 1e3; }
      x = base(lo, hi); if (r.irange(0, 4) == 0) x = (r.coin() ? 1 : -1) * std::pow(10.0, r.range(-8, std::log10(hi)));
      if (w == 2 && x <= -1) x = 0.5;
      switch (r.irange(0, 5)) {
      case 0: y = x; break;
      case 1: y = nextup(x, r.irange(1, 4)); break;
      case 2: y = x + (r.coin() ? 1 : -1) * std::pow(10.0, -r.irange(3, 12)) * std::fmax(1e-3, std::fabs(x)); break;
      case 3: y = -x * r.range(0.5, 2); break;
      default: y = base(lo, hi); break;
      }
      if (w == 2 && y <= -0.95) y = 0.25; if ((w == 6 || w == 7) && std::fabs(y) > 1) y = 1; if (w == 6 || w == 7) { if (std::fabs(x) > 1) x = 1; }
      run("cdd", {std::to_string(w), hx(x), hx(y), hx(f)}); stratum("divided-differences");
    }
    // constructor domain
    for (int j = 0; j < 3; ++j) {
      static const std::vector<double> ls = {90, -90, 0, 30, -24.57, 45, 89.99999, 91, -90.0000001, 100, 1e-300};
      double l1 = r.irange(0, 2) ? r.pick(ls) : r.range(-95, 95), l2 = r.irange(0, 2) ? r.pick(ls) : (r.coin() ? l1 : r.range(-95, 95));
      if (r.irange(0, 30) == 0) l1 = std::nan(""); if (r.irange(0, 30) == 0) l2 = INFINITY;
      double ea = r.irange(0, 9) ? WGS84_a : r.pick(std::vector<double>{0.0, -1.0, INFINITY, std::nan("")}), f = r.irange(0, 9) ? pickf(r) : r.pick(std::vector<double>{1.0, 2.0, std::nan(""), -INFINITY, 0.99});
      double k = r.irange(0, 9) ? pickk(r) : r.pick(std::vector<double>{0.0, -1.0, INFINITY, std::nan("")});
      run("ctor", {std::to_string(r.irange(1, 2)), hx(ea), hx(f), hx(k), hx(l1), hx(l2)}); stratum("constructor-domain");
    }
  }
}
int main(int argc, char** argv) { return gv::main_(argc, argv); }
