// C11: polar stereographic, Lambert conformal conic (with Mercator and polar limits), Albers equal area (with
// cylindrical and azimuthal limits).  Ops for the Lean correspondence (formula models executed in binary64) and
// property-level oracles on the implementation (Snyder's closed forms in binary128, closures, conformality /
// equal-area by differencing, prescribed scales, constructor equivalence, SetScale, mirror and wrap laws).
#include "common.hpp"
#include "C11_oracle.hpp"
#include <GeographicLib/PolarStereographic.hpp>
#include <GeographicLib/LambertConformalConic.hpp>
#include <GeographicLib/AlbersEqualArea.hpp>
#include <GeographicLib/Math.hpp>
#include <GeographicLib/DMS.hpp>
#include <GeographicLib/Utility.hpp>
#include <memory>
#include <fstream>
#include <sstream>
// tools/ConicProj.cpp of the *current* $GV_REPO is compiled into this harness (same library build, same sanitizers);
// its `main` and `usage` live in a namespace (the headers it includes are included above: the inner #includes are no-ops)
namespace tool_conicproj {
#include "../tools/ConicProj.cpp"
}
using namespace GeographicLib; using namespace gv; using c11::Q;
typedef long double LD;

// ---------------------------------------------------------------------------------------------------------------
// configurations
struct Cfg {
  int cls;            // 0 PS, 1 LCC, 2 Albers
  double a, f;
  int kind;           // 1: one parallel (degrees); 2: two parallels (degrees); 3: sines and cosines
  double p[4];        // kind 1: lat; kind 2: lat1 lat2; kind 3: sin1 cos1 sin2 cos2
  double k1;
  int ss; double sslat, ssk;   // optional SetScale(sslat, ssk)
};
static const int NCFG = 13;
static void trim_op(const Args& a, size_t n);
static Cfg parse(const Args& a, size_t i = 0) {
  Cfg c; c.cls = std::stoi(a[i]); c.a = unhx(a[i + 1]); c.f = unhx(a[i + 2]); c.kind = std::stoi(a[i + 3]);
  for (int j = 0; j < 4; ++j) c.p[j] = unhx(a[i + 4 + j]);
  c.k1 = unhx(a[i + 8]); c.ss = std::stoi(a[i + 9]); c.sslat = unhx(a[i + 10]); c.ssk = unhx(a[i + 11]);
  return c;
}
static Args enc(const Cfg& c) {
  return {std::to_string(c.cls), hx(c.a), hx(c.f), std::to_string(c.kind), hx(c.p[0]), hx(c.p[1]), hx(c.p[2]), hx(c.p[3]), hx(c.k1),
          std::to_string(c.ss), hx(c.sslat), hx(c.ssk), "0"};   // 13th slot reserved
}
struct Obj {
  std::unique_ptr<PolarStereographic> ps; std::unique_ptr<LambertConformalConic> lcc; std::unique_ptr<AlbersEqualArea> alb;
  int cls = 0;
  void Fwd(bool np, double lon0, double lat, double lon, double& x, double& y, double& g, double& k) const {
    if (cls == 0) ps->Forward(np, lat, lon, x, y, g, k); else if (cls == 1) lcc->Forward(lon0, lat, lon, x, y, g, k); else alb->Forward(lon0, lat, lon, x, y, g, k);
  }
  void Rev(bool np, double lon0, double x, double y, double& lat, double& lon, double& g, double& k) const {
    if (cls == 0) ps->Reverse(np, x, y, lat, lon, g, k); else if (cls == 1) lcc->Reverse(lon0, x, y, lat, lon, g, k); else alb->Reverse(lon0, x, y, lat, lon, g, k);
  }
  // the overloads without convergence and scale
  void Fwd2(bool np, double lon0, double lat, double lon, double& x, double& y) const {
    if (cls == 0) ps->Forward(np, lat, lon, x, y); else if (cls == 1) lcc->Forward(lon0, lat, lon, x, y); else alb->Forward(lon0, lat, lon, x, y);
  }
  void Rev2(bool np, double lon0, double x, double y, double& lat, double& lon) const {
    if (cls == 0) ps->Reverse(np, x, y, lat, lon); else if (cls == 1) lcc->Reverse(lon0, x, y, lat, lon); else alb->Reverse(lon0, x, y, lat, lon);
  }
  double lat0() const { return cls == 1 ? lcc->OriginLatitude() : cls == 2 ? alb->OriginLatitude() : 90; }
  double k0() const { return cls == 0 ? ps->CentralScale() : cls == 1 ? lcc->CentralScale() : alb->CentralScale(); }
};
// returns "" or the exception code
static std::string build(const Cfg& c, Obj& o, bool setscale = true) {
  o.cls = c.cls;
  return guarded([&] {
    if (c.cls == 0) { o.ps.reset(new PolarStereographic(c.a, c.f, c.k1)); if (c.ss && setscale) o.ps->SetScale(c.sslat, c.ssk); }
    else if (c.cls == 1) {
      if (c.kind == 1) o.lcc.reset(new LambertConformalConic(c.a, c.f, c.p[0], c.k1));
      else if (c.kind == 2) o.lcc.reset(new LambertConformalConic(c.a, c.f, c.p[0], c.p[1], c.k1));
      else o.lcc.reset(new LambertConformalConic(c.a, c.f, c.p[0], c.p[1], c.p[2], c.p[3], c.k1));
      if (c.ss && setscale) o.lcc->SetScale(c.sslat, c.ssk);
    } else {
      if (c.kind == 1) o.alb.reset(new AlbersEqualArea(c.a, c.f, c.p[0], c.k1));
      else if (c.kind == 2) o.alb.reset(new AlbersEqualArea(c.a, c.f, c.p[0], c.p[1], c.k1));
      else o.alb.reset(new AlbersEqualArea(c.a, c.f, c.p[0], c.p[1], c.p[2], c.p[3], c.k1));
      if (c.ss && setscale) o.alb->SetScale(c.sslat, c.ssk);
    }
  });
}
// standard parallels in degrees (for documented-domain predicates and strata)
static void stdlats(const Cfg& c, double& l1, double& l2) {
  if (c.kind == 1) l1 = l2 = c.p[0]; else if (c.kind == 2) { l1 = c.p[0]; l2 = c.p[1]; }
  else { l1 = std::atan2(c.p[0], c.p[1]) / Math::degree(); l2 = std::atan2(c.p[2], c.p[3]) / Math::degree(); }
}
// The accuracy figures of LambertConformalConic.hpp / AlbersEqualArea.hpp for distinct parallels are stated for
// dlat <= 160 and (LCC) max|lat| <= 90 - min(0.0002, 2.2e-6 (180 - dlat), 6e-8 dlat^2).
static bool documented_domain(const Cfg& c) {
  if (c.cls == 0) return true;
  double l1, l2; stdlats(c, l1, l2); if (l1 == l2) return true;
  if (c.kind == 3 && c.p[0] == c.p[2] && c.p[1] == c.p[3]) return true;
  double dlat = std::fabs(l2 - l1); if (!(dlat <= 160)) return false;
  double lim = 90 - std::fmin(0.0002, std::fmin(2.2e-6 * (180 - dlat), 6e-8 * dlat * dlat));
  return std::fmax(std::fabs(l1), std::fabs(l2)) <= lim;
}
static c11::Proj oracle(const Cfg& c) {
  static std::map<std::string, c11::Proj> memo;
  std::string key = join(enc(c));
  auto it = memo.find(key); if (it != memo.end()) return it->second;
  if (memo.size() > 96) memo.clear();
  c11::Proj P(c.cls, c.a, c.f); P.kap = c.k1; if (c.cls == 0) P.n = 1;
  if (c.cls != 0) {
    c11::SC a1, a2;
    if (c.kind == 1) a1 = a2 = c11::sc_deg(c.p[0]);
    else if (c.kind == 2) { a1 = c11::sc_deg(c.p[0]); a2 = c11::sc_deg(c.p[1]); }
    else { a1 = c11::sc_norm(c.p[0], c.p[1]); a2 = c11::sc_norm(c.p[2], c.p[3]); }
    P.init_conic(a1, a2);
  }
  if (c.ss) { c11::SC p = c11::sc_deg(c.sslat); Q u = (c.cls == 0 && p.c == 0) ? Q(1) : P.unit_scale(p); P.kap = Q(c.ssk) / u; }
  memo.insert({key, P}); return P;
}

// ---------------------------------------------------------------------------------------------------------------
// condition of the problem: how far one ulp of each input (f, the standard parallels or their sines and cosines, the SetScale
// latitude; lat, lon, lon0 of the point) moves the *exact* answer -- the closed-form oracle evaluated at the neighbouring
// binary64 inputs.  a and k1 are pure scale factors.  Latitudes, sines and cosines are stepped towards zero (they stay in range).
static double toward0(double x) { return x == 0 ? x : std::nextafter(x, 0.0); }
static std::vector<Cfg> cfg_neighbours(const Cfg& c) {
  std::vector<Cfg> v; Cfg d = c; d.f = std::nextafter(c.f, -INFINITY); v.push_back(d);
  if (c.cls != 0) {
    if (c.kind == 1) { d = c; d.p[0] = toward0(c.p[0]); v.push_back(d); }
    else if (c.kind == 2) { if (c.p[0] == c.p[1]) { d = c; d.p[0] = d.p[1] = toward0(c.p[0]); v.push_back(d); } else for (int i = 0; i < 2; ++i) { d = c; d.p[i] = toward0(c.p[i]); v.push_back(d); } }
    else { bool same = c.p[0] == c.p[2] && c.p[1] == c.p[3];
      for (int i = 0; i < (same ? 2 : 4); ++i) { d = c; d.p[i] = toward0(c.p[i]); if (same) d.p[i + 2] = d.p[i]; v.push_back(d); } }
  }
  if (c.ss) { d = c; d.sslat = toward0(c.sslat); v.push_back(d); }
  return v;
}
struct Cond { double xy = 0, k = 0, g = 0; };
static Cond cond_pt(const Cfg& c, bool np, double lon0, double lat, double lon, const c11::Out& w) {
  Cond r; if (!(w.ok && c11::fin(w.x) && c11::fin(w.y))) return r;
  auto acc = [&](const c11::Out& v) { if (!(v.ok && c11::fin(v.x) && c11::fin(v.y))) return;
    double d = c11::dbl(fabsq(v.x - w.x) + fabsq(v.y - w.y)); if (std::isfinite(d)) r.xy += d;
    if (w.kok && v.kok) { double dk = c11::dbl(fabsq(v.k - w.k)); if (std::isfinite(dk)) r.k += dk; }
    Q dg = fabsq(v.gamma - w.gamma); if (dg > 180) dg = fabsq(dg - 360); double g = c11::dbl(dg); if (std::isfinite(g)) r.g += g; };
  for (const Cfg& d : cfg_neighbours(c)) acc(oracle(d).fwd(np, lon0, lat, lon));
  c11::Proj P = oracle(c);
  if (std::fabs(lat) > 0) acc(P.fwd(np, lon0, toward0(lat), lon));
  acc(P.fwd(np, lon0, lat, std::nextafter(lon, INFINITY))); if (c.cls != 0) acc(P.fwd(np, std::nextafter(lon0, INFINITY), lat, lon));
  return r;
}
// the same for the latitude of origin (degrees)
static double cond_lat0(const Cfg& c) {
  c11::Proj P = oracle(c); Q l = atan2q(P.p0.s, P.p0.c); double r = 0;
  for (const Cfg& d : cfg_neighbours(c)) { c11::Proj V = oracle(d); double e = c11::dbl(fabsq(atan2q(V.p0.s, V.p0.c) - l) * 180 / c11::PIq); if (std::isfinite(e)) r += e; }
  return r;
}
static const double NULP = 32;   // ulps granted on every input

// ---------------------------------------------------------------------------------------------------------------
// tolerances (documented: "about 10 nm, true distance"; scale relative error 7e-15 => a term proportional to the
// projected distance from the origin; safety factor 4).  The headers give these figures without naming an ellipsoid;
// they were established for terrestrial flattening.  Away from it every tolerance is multiplied by
//   kappa(f) = max(1, b/a, (a/b)^2):
// (a/b)^2 = 1/(1 - e^2) is the condition number of the stored eccentricity (the closed forms contain 1 - e^2 sin^2 phi,
// whose relative sensitivity to one ulp of e^2 is e^2/(1 - e^2) at the poles; the same factor 1 + |e'^2| as in C15), and
// b/a is the size of a prolate ellipsoid in units of a (the documented absolute figures are for a body of size a).
static double e2of(double f) { return f * (2 - f); }
static double kappa(double f) { double fm = 1 - f; return std::fmax(1.0, std::fmax(fm, 1 / (fm * fm))); }
static double tol_plane(const Cfg& c, double R, double k) { return 4 * kappa(c.f) * (10e-9 * (c.a / 6378137.0) * std::fmax(1.0, k) + 1e-14 * R); }
static double tol_ground(const Cfg& c, double R, double k) { double kk = std::fmax(k, 1 / k); if (!(kk < 1e300)) kk = 1; return 4 * kappa(c.f) * (10e-9 * (c.a / 6378137.0) + 1e-14 * R * kk); }
// The documented error of the latitude of origin for two distinct parallels (4.5e-14 degrees) is for terrestrial
// flattening; the careful evaluation of 1 - n in Init cancels terms of order e^2, so it is scaled by e^2/e^2(WGS84)
// up to |f| = 1/120 and by a flat factor 1000 (sub-micrometre -> sub-millimetre) for the strongly non-spherical test
// ellipsoids f = +-0.1, for which the library documents no figure.  Beyond |f| = 0.1 it keeps growing like e^2/e^2(WGS84)
// times kappa(f) (never below the factor granted to f = +-0.1).  It displaces the whole map along the central meridian and
// changes the cone constant.
static double gflat(const Cfg& c) { double r = std::fabs(e2of(c.f)) / 0.0066943799901413165; return r <= 2.5 ? std::fmax(1.0, r) : std::fmax(1000.0, r * kappa(c.f)); }
static bool distinct_parallels(const Cfg& c) { return c.cls != 0 && !(c.kind == 1 || (c.kind == 2 && c.p[0] == c.p[1]) || (c.kind == 3 && c.p[0] == c.p[2] && c.p[1] == c.p[3])); }
// meridional radius of curvature in units of a: a/b at the poles of an oblate, (b/a)^2 at the equator of a prolate ellipsoid
static double mfac(double f) { double fm = 1 - f; return std::fmax(1.0, std::fmax(1 / fm, fm * fm)); }
static double origin_slack(const Cfg& c) { return distinct_parallels(c) ? 4 * 4.5e-14 * Math::degree() * c.a * mfac(c.f) * gflat(c) : 0.0; }
// the scale that converts a ground error into a plane error: k for the conformal classes; Albers stretches east-west by k and north-south by 1/k
// (the Albers plane is the unit-scale plane stretched east-west by k0 and north-south by 1/k0: a plane error of the unit-scale map
//  grows by max(k0, 1/k0); cur_k0 is the central scale of the object of the running op)
static double& cur_k0() { static double k = 1; return k; }
static double kplane(const Cfg& c, double k) { if (c.cls != 2) return k; double k0 = cur_k0(); if (!(k0 > 0 && k0 < 1e300)) k0 = 1; return std::fmax(1.0, k) * std::fmax(1.0, 1 / k0); }
// the effect of that error of the origin on a point at distance R from it: the map is displaced along the central meridian
// (magnified by the local scale), and the cone constant sin(lat0) changes with it, which bends the parallels: R^2/(2 a) per radian
// (x = a m0 k1 lambda, y_curvature = x^2 n / (2 a m0) times k1 for Albers, over k1 for the conformal cone)
static double oslack(const Cfg& c, double R, double k) { double kk = std::fmax(1.0, std::fmin(k, 1e300)); return origin_slack(c) * (kk + (R / c.a) * (R / c.a) * kplane(c, c.ss ? 1.0 : c.k1)); }
static std::string num(double x) { char b[40]; std::snprintf(b, sizeof b, "%.17g", x); return b; }

// ---------------------------------------------------------------------------------------------------------------
// classes of open findings: decided from the configuration alone (never from what the implementation returned) and
// appended to the details of every failing-input line of such a configuration, so that known_findings.json can name
// exactly that class; anything outside a class still alarms.
static void rawsc(const Cfg& c, double& s1, double& c1, double& s2, double& c2);
static std::string finding_class(const Cfg& c) {
  std::string t;
  // (the classes of the repaired findings F84 Deatanhe guard, F85 DDatanhee2 selection for prolate ellipsoids, F86 Newton cycle in
  // Albers Init, F88 five Newton iterations in tauf/tphif are gone: a regression alarms)
  // F98 (open): the stopping tolerance of Math::tauf is relative to |taup|; on a prolate ellipsoid |taup|/|tau| reaches exp(e atan e)
  // (164 at f = -3, 4000 at f = -5), the Newton loop then stops with a step of up to 1.5e-8 exp(e atan e) |tau| and the quadratic
  // remainder (1e-12 relative at f = -5) is returned.  The class: the projections that invert the conformal latitude, f <= -3
  if (c.cls != 2 && c.f <= -3) t += " [class:tauf-prolate-stop-rule]";
  // F89 (open):
  // LCC: Snyder's t0^n is kept as _t0nm1 = t0^n - 1 and recovered as _t0nm1 + 1 with an absolute error of one ulp of 1, i.e. the
  // radius rho0 = (scale/n) t0^n with an absolute error eps * scale/n, scale = a k1 n F.  The class: that error alone exceeds the
  // documented budget, n F eps a >= 4 kappa 10 nm (a/a_WGS84), i.e. n F >= 28 kappa (only strongly prolate ellipsoids, where the
  // isometric latitude gains |e| atan|e| and F grows like its exponential)
  // (a polar cone: t0^n = 0, n = 1, F = 2/sqrt((1+e)^(1+e) (1-e)^(1-e)); there Reverse forms tnm1 + 1 with the same absolute error)
  if (c.cls == 1 && c.f < 0) { Cfg c0 = c; c0.ss = 0; c11::Proj P = oracle(c0);
    if (P.polar ? c11::dbl(2 / P.E.cps()) >= 28 * kappa(c.f) : (!P.cyl && c11::fin(P.F) && c11::dbl(fabsq(P.n * P.F)) >= 28 * kappa(c.f))) t += " [class:lcc-prolate-t0nm1]";
    // F99 (open): Reverse in the branch 2n <= 1 updates tan(chi) by Dsinh(psi, psi0), whose cosh((psi + psi0)/2) = sqrt((sinh sinh + cosh cosh + 1)/2)
    // cancels when psi psi0 < 0: exp(2 min(|psi|, |psi0|))/2 ulp are lost.  With 2n <= 1 (origin below 30 degrees) |psi0| <= 0.55 on
    // terrestrial ellipsoids, but the isometric latitude of a prolate one gains e atan(e sin phi).  The class: LCC, f < 0, 2|n| <= 1 and
    // exp(2 |psi0|) >= 256 kappa (the lost digits alone exceed the documented budget: eps exp(2 |psi0|)/8 >= 4 kappa 10 nm / a_WGS84)
    if (!P.polar && !P.cyl && c11::fin(P.F) && 2 * c11::dbl(fabsq(P.n)) <= 1 && c11::dbl(expq(2 * fabsq(logq(P.E.t(P.p0))))) >= 256 * kappa(c.f)) t += " [class:lcc-prolate-dsinh]"; }
  if (c.cls == 0) return t;
  double s1, c1, s2, c2; rawsc(c, s1, c1, s2, c2); if (!(std::isfinite(s1) && std::isfinite(s2))) return t;
  { double r = std::hypot(s1, c1); s1 /= r; c1 /= r; r = std::hypot(s2, c2); s2 /= r; c2 /= r; }
  // f >= 0.9 (1/(1 - e^2) >= 100) and a standard parallel within 0.01 degrees of a pole without being the pole: Forward between that
  // parallel and the pole (radius a difference of nearly equal numbers) is off by far more than the condition number allows, also for one parallel
  if (c.f >= 0.9 && std::fmin(c1, c2) < 2e-4 && std::fmin(c1, c2) > 0 && (!distinct_parallels(c) || (s1 == s2 && c1 == c2))) t += " [class:oblate-init-accuracy]";
  if (!distinct_parallels(c) || (s1 == s2 && c1 == c2)) return t;
  // F99 (open), its part in Init: the careful evaluation of 1 - n (taken for n >= 1/4) calls Dsinh on the pairs (xiZ, xi1), (xiZ, xi2), (xi1, xi2) of
  // xi = eatanhe(sin phi); with parallels in opposite hemispheres two of the pairs have opposite signs and exp(2 |xi1|)/2 ulp are lost in 1 - n
  // (xi1 of the parallel nearer the equator; |xi| = e atan(e |sin phi|) on a prolate ellipsoid, < e^2 on an oblate one) -- _nc is then off and the
  // renormalisation n/hypot(n, nc) spoils n.  The class: LCC, f < 0, parallels in opposite hemispheres, exp(2 |xi1|) >= 256 kappa (n >= 1/4 is not
  // tested: it is a property of the computed n)
  if (c.cls == 1 && c.f < 0 && s1 * s2 < 0) { double e = std::sqrt(std::fabs(e2of(c.f))), xi1 = e * std::atan(e * std::fmin(std::fabs(s1), std::fabs(s2)));
    if (std::exp(2 * xi1) >= 256 * kappa(c.f)) t += " [class:lcc-prolate-dsinh-init]"; }
  // F87 (open): f >= 0.5 (1/(1 - e^2) >= 4), two distinct parallels: the divided-difference evaluation of the cone constant and of the origin in
  // Init loses accuracy much faster than the problem's condition number (any pair: about 1/(1 - e^2)^2 ulp from f = 0.75 on); with a
  // parallel within 0.01 degrees of a pole (cosine < 2e-4) already from f > 0.1 on (1e6 ulp at f = 0.5)
  if (c.f >= 0.5 || (c.f > 0.1 && std::fmin(c1, c2) < 2e-4)) t += " [class:oblate-init-accuracy]";
  return t;
}
// classes that make the kernel models pointless to run (Init itself is inaccurate): everything but the two classes that concern Reverse only
static bool init_class(const Cfg& c) { std::string t = finding_class(c); size_t i = t.find("[class:"); while (i != std::string::npos) { if (t.compare(i, 29, "[class:tauf-prolate-stop-rule") != 0 && t.compare(i, 25, "[class:lcc-prolate-dsinh]") != 0) return true; i = t.find("[class:", i + 1); } return false; }
static std::string& cur_tag() { static std::string t; return t; }
static void badt(const std::string& rel, const std::string& details) { gv::bad(rel, details + cur_tag()); }

static LD Mrad(const Cfg& c, double lat) { LD e2 = (LD)c.f * (2 - (LD)c.f), s = sinl((LD)lat * M_PIl / 180), w = 1 - e2 * s * s; return (LD)c.a * (1 - e2) / (w * sqrtl(w)); }
static LD Ncos(const Cfg& c, double lat) { LD e2 = (LD)c.f * (2 - (LD)c.f), s = sinl((LD)lat * M_PIl / 180), w = 1 - e2 * s * s; return (LD)c.a / sqrtl(w) * cosl((LD)lat * M_PIl / 180); }

// relative accuracy to expect of k (and, in radians, of gamma) at a latitude: "consistent with 10 nm" means 10 nm over
// the distance from the apex of the cone (k and gamma are ratios / directions of that radius vector)
static double krel_at(const c11::Proj& P, const Cfg& c, double lat) {
  c11::SC p = c11::sc_deg(lat); const double kp = kappa(c.f); if (c.cls == 0 && P.n == 0) return 1e-12 * kp;
  if (P.cyl || P.n == 0) return 1e-12 * kp;
  Q u = P.unit_scale(p); if (!c11::fin(u) || u <= 0) return 1e-12 * kp;
  double rc = std::fabs(c11::dbl(P.kap * u * P.E.a * P.E.m(p) / P.n)) / (c.cls == 2 ? c11::dbl(P.kap * P.kap) : 1.0);
  double kk = c11::dbl(P.kap * u);
  return kp * (1e-12 + 4 * (10e-9 * (c.a / 6378137.0) * std::fmax(1.0, kk) + 1e-14 * c.a) / rc);
}

// ---------------------------------------------------------------------------------------------------------------
// pt: cfg(13) northp lon0 lat lon -- one point through Forward and Reverse with all point-level oracles
static Reg r_pt("pt", [](const Args& a) {
  Cfg c = parse(a); bool np = std::stoi(a[NCFG]) != 0; double lon0 = unhx(a[NCFG + 1]), lat = unhx(a[NCFG + 2]), lon = unhx(a[NCFG + 3]);
  cur_tag() = finding_class(c); const double kp = kappa(c.f);
  Obj o; std::string ex = build(c, o); if (!ex.empty()) { emit(ex); return; }
  cur_k0() = o.k0();
  double x, y, g, k; o.Fwd(np, lon0, lat, lon, x, y, g, k);
  double rlat, rlon, rg, rk; o.Rev(np, lon0, x, y, rlat, rlon, rg, rk);
  emit(hx(x) + " " + hx(y) + " " + hx(g) + " " + hx(k) + " " + hx(rlat) + " " + hx(rlon) + " " + hx(rg) + " " + hx(rk));
  // 0. the overloads without gamma and k return the same point (bit for bit: they forward to the full versions)
  { double x2, y2, la2, lo2; o.Fwd2(np, lon0, lat, lon, x2, y2); o.Rev2(np, lon0, x, y, la2, lo2);
    auto same = [](double u, double v) { return bits(u) == bits(v) || (std::isnan(u) && std::isnan(v)); };
    if (!(same(x, x2) && same(y, y2))) badt("overload-forward", "Forward without gamma/k gives (" + num(x2) + ", " + num(y2) + "), with them (" + num(x) + ", " + num(y) + ")");
    if (!(same(rlat, la2) && same(rlon, lo2))) badt("overload-reverse", "Reverse without gamma/k gives (" + num(la2) + ", " + num(lo2) + "), with them (" + num(rlat) + ", " + num(rlon) + ")"); }
  if (!(std::fabs(lat) <= 90 && std::isfinite(lon) && std::isfinite(lon0) && std::fabs(lon) < 1e6 && std::fabs(lon0) < 1e6)) return;
  c11::Proj P = oracle(c); c11::Out w = P.fwd(np, lon0, lat, lon);
  double R = std::hypot(x, y);
  // every point of the sphere has an image (finite or, at a pole that projects to infinity, large): never NaN
  if ((std::isnan(x) || std::isnan(y)) && !(c.cls == 0 && lat * (np ? 1 : -1) == -90)) {
    badt("forward-nan", "Forward(" + num(lat) + ", " + num(lon) + ") = (" + num(x) + ", " + num(y) + "), k = " + num(k) + "; closed form (" + c11::qstr(w.x) + ", " + c11::qstr(w.y) + ")"); return; }
  bool edge; Q d = c11::dlon(lon0, lon, edge); (void)d;
  // 1. textbook closed form
  if (w.ok && c11::fin(w.x) && c11::fin(w.y) && fabsq(w.x) < Q(1e30) && fabsq(w.y) < Q(1e30)) {
    double ox = c11::dbl(w.x), oy = c11::dbl(w.y), oR = std::hypot(ox, oy), ok_ = c11::dbl(w.k);
    if (documented_domain(c)) {
      const Cond cd = cond_pt(c, np, lon0, lat, lon, w);
      double tol = tol_plane(c, oR, kplane(c, w.kok ? ok_ : k)) + oslack(c, oR, k) + NULP * cd.xy;   // "true distance": at a pole of a non-polar cone the scale is infinite
      // theta = n lambda (k^2 n lambda for Albers) is formed in binary64: 4 ulp of theta displace the point by rho |theta| 4 eps
      // (matters only for an Albers cone with k >> 1, whose image winds around the apex many times)
      if (c.cls != 0 && !P.cyl && !P.polar) { double ya = c11::dbl(c.cls == 1 ? P.kap * P.r0 : P.r0 / P.kap), rho = std::hypot(ox, ya - oy); if (std::isfinite(rho)) tol += 8 * std::numeric_limits<double>::epsilon() * std::fabs(c11::dbl(w.gamma)) * Math::degree() * rho; }
      double dx = (c.cls != 0 && edge) ? c11::dbl(fabsq(Q(x)) - fabsq(w.x)) : c11::dbl(Q(x) - w.x), dy = c11::dbl(Q(y) - w.y);
      if (!(std::fabs(dx) <= tol && std::fabs(dy) <= tol))
        badt("closed-form-xy", "Forward = (" + num(x) + ", " + num(y) + ") but Snyder's closed form gives (" + c11::qstr(w.x) + ", " + c11::qstr(w.y) + "); |d| = " + num(std::hypot(dx, dy)) + " m, tolerance " + num(tol) + " (one ulp of every input moves the closed form by " + num(cd.xy) + " m)");
      if (w.kok && std::isfinite(ok_) && ok_ < 1e30) {
        // "errors in the convergence and scale are consistent with 10 nm": relative 10 nm / (distance from the apex of the cone)
        double rc = (P.cyl || P.n == 0) ? INFINITY : std::fabs(ok_ * c.a * c11::dbl(P.E.m(c11::sc_deg(lat)) / P.n)) / (c.cls == 2 ? c11::dbl(P.kap * P.kap) : 1.0);
        double krel = kp * (1e-12 + 4 * (10e-9 * (c.a / 6378137.0) * std::fmax(1.0, ok_) + 1e-14 * c.a) / rc);   // same absolute budget as the positions
        krel += NULP * cd.k / ok_;
        // LCC: k = k0 (m0/m) (t/t0)^n, so the documented error of the cone constant sin(lat0) enters as |ln(t/t0)| times it
        if (c.cls == 1 && !P.cyl && !P.polar) { double lt = c11::dbl(fabsq(logq(P.E.t(c11::sc_deg(lat)) / P.E.t(P.p0)))); if (std::isfinite(lt)) krel += origin_slack(c) / (c.a * mfac(c.f)) * lt; }
        if (!(std::fabs(c11::dbl(Q(k) - w.k)) <= krel * ok_)) badt("closed-form-k", "scale " + num(k) + " vs closed form " + c11::qstr(w.k) + " (relative tolerance " + num(krel) + ")");
        double og = c11::dbl(w.gamma), dg = c11::dbl(Q(g) - w.gamma); if (edge || std::fabs(og) == 180) dg = std::fabs(std::fabs(g) - std::fabs(og));
        // the cone constant sin(lat0) carries the documented error of the origin: gamma = n lambda (k1^2 n lambda for Albers)
        double dgo = origin_slack(c) / (c.a * mfac(c.f)) * std::fabs(c11::dbl(d)) * (c.cls == 2 ? c11::dbl(P.kap * P.kap) : 1.0);
        if (!(std::fabs(dg) <= 1e-12 * kp * std::fmax(1.0, std::fabs(og)) + krel / Math::degree() + dgo + NULP * cd.g)) badt("closed-form-gamma", "convergence " + num(g) + " vs closed form " + c11::qstr(w.gamma));
      }
    }
  }
  if (!(std::isfinite(x) && std::isfinite(y) && std::isfinite(k))) return;
  // 2. Reverse(Forward) = identity (ground distance), where the map is injective (|theta| < 180 degrees: an Albers cone
  //    with k^2 n > 1 overlaps itself)
  if (c.cls == 0 || std::fabs(g) < 179) {
    LD dN = ((LD)rlat - lat) * (M_PIl / 180) * Mrad(c, lat), dE = (LD)Math::AngDiff(lon, rlon) * (M_PIl / 180) * Ncos(c, lat);
    if (std::fabs(lat) == 90) dE = 0;
    // "about 10 nm": on the ellipsoid, or in the plane (where a scale far from 1 compresses one direction: Albers
    // north-south scale is 1/k, so near a pole with k >> 1 a sub-nanometre plane error is many nanometres of latitude)
    LD kew = k, kns = c.cls == 2 ? 1 / (LD)k : (LD)k;
    double dist = (double)hypotl(dN, dE), tol = tol_ground(c, R, k), distp = (double)hypotl(dN * kns, dE * kew), tolp = tol_plane(c, R, c.cls == 2 ? kplane(c, 1.0) : o.k0());   // the plane is a k0 (Albers: k0 or 1/k0) times enlarged copy of the ground
    if (!(dist <= tol || distp <= tolp)) badt("reverse-forward", "Reverse(Forward(" + num(lat) + ", " + num(lon) + ")) = (" + num(rlat) + ", " + num(rlon) + "), off by " + num(dist) + " m on the ground (" + num(distp) + " m in the plane), tolerance " + num(tol) + " (" + num(tolp) + ")");
    if (std::cos(lat * Math::degree()) > 1e-3 && R < 1e3 * c.a) {
      // k ~ 1/cos(lat): a latitude error within the closure tolerance changes it by tan(lat) * dlat
      double tk = 1e-9 * kp + std::fabs(std::tan(lat * Math::degree())) * tol / (c.a / mfac(c.f));
      if (!(std::fabs(rk - k) <= tk * k)) badt("reverse-forward-k", "k from Reverse " + num(rk) + " vs Forward " + num(k));
      double dg = std::fabs(Math::AngDiff(g, rg)); if (!(dg <= 1e-9 * kp * std::fmax(1.0, std::fabs(g)))) badt("reverse-forward-gamma", "gamma from Reverse " + num(rg) + " vs Forward " + num(g));
    }
    if (!(std::fabs(rlon) <= 180)) badt("reverse-lon-range", "lon = " + num(rlon));
  }
  // 3. Forward(Reverse) = identity in the plane, on a displaced point of the image
  if (std::fabs(lat) < 89.9 && R < 100 * c.a && (c.cls == 0 || (std::fabs(g) < 150 && std::fabs(c11::dbl(d)) < 150))) {
    double x2 = x + 1234.5 * (c.a / 6378137.0), y2 = y - 777.25 * (c.a / 6378137.0), la, lo, gg, kk; o.Rev(np, lon0, x2, y2, la, lo, gg, kk);
    // the displaced point must lie inside the image: the cone covers the sector |theta| < 180 n (k0^2 n for Albers)
    double nn = c.cls == 0 ? 1.0 : std::fabs(std::sin(o.lat0() * Math::degree())) * (c.cls == 2 ? o.k0() * o.k0() : 1.0);
    // (for a cylinder, nn = 0, the image is the strip |lon - lon0| < 180: with a small central scale the displacement can leave it)
    if (std::fabs(la) < 89.99 && std::isfinite(kk) && (nn == 0 || std::fabs(gg) < 170 * nn) && (c.cls == 0 || nn != 0 || [&] { double xw, yw, gw, kw; o.Fwd(np, lon0, lat, lon0 + 170, xw, yw, gw, kw); return std::fabs(x2) < std::fabs(xw); }())) {
      double x3, y3, g3, k3; o.Fwd(np, lon0, la, lo, x3, y3, g3, k3);
      double dist = std::hypot(x3 - x2, y3 - y2), tol = tol_plane(c, std::hypot(x2, y2), std::fmax(kk, 1 / kk));
      // Reverse returns lat, lon rounded to binary64: half an ulp of 90 or 180 degrees on the ground
      tol += (ulp(90.0) * Math::degree() * c.a * mfac(c.f) * 2) * std::fmax(kk, 1 / kk);
      if (!(dist <= tol)) badt("forward-reverse", "Forward(Reverse(" + num(x2) + ", " + num(y2) + ")) misses by " + num(dist) + " m, tolerance " + num(tol));
    }
  }
  // 4. local behaviour by differencing the implementation (Richardson, steps h and 2h, in long double):
  //    conformal: d/dphi = M k (-sin g, cos g), d/dlam = N cos(phi) k (cos g, sin g); Albers: north-south 1/k
  // (the a-priori error h^4 f^(5)/30 of the differencing grows like the inverse fourth power of the distance to the nearest
  //  singularity of the mapping in latitude, b/a for a flat ellipsoid: tolerance 1e-7 kappa^2, not used beyond 1e-3; an Albers
  //  image that winds many times around the apex is not differenced in longitude with a fixed step)
  const double rtol = 1e-7 * kp * kp;
  if (std::fabs(lat) <= 85 && R < 30 * c.a && k < 1e3 && k > 1e-3 && rtol <= 1e-3 && std::fabs(g) < 1e3 && !(c.cls != 0 && std::fabs(c11::dbl(d)) > 179)) {
    const double h = 0.02; LD D[2][2];
    for (int dir = 0; dir < 2; ++dir) {
      LD v[4][2]; int j = 0;
      for (int m : {-2, -1, 1, 2}) { double xx, yy, g_, k_; o.Fwd(np, lon0, dir == 0 ? lat + m * h : lat, dir == 1 ? lon + m * h : lon, xx, yy, g_, k_); v[j][0] = xx; v[j][1] = yy; ++j; }
      for (int q = 0; q < 2; ++q) { LD D1 = (v[2][q] - v[1][q]) / (2 * h), D2 = (v[3][q] - v[0][q]) / (4 * h); D[dir][q] = (4 * D1 - D2) / 3 / (M_PIl / 180); }
    }
    // actual steps (lat + m h is rounded): negligible (relative 1e-16/h)
    LD gr = (LD)g * M_PIl / 180, sg = sinl(gr), cg = cosl(gr), M = Mrad(c, lat), Nc = Ncos(c, lat);
    LD kns = c.cls == 2 ? 1 / (LD)k : (LD)k, kew = k;
    LD e1 = hypotl(D[0][0] / M + kns * sg, D[0][1] / M - kns * cg) / kns, e2 = hypotl(D[1][0] / Nc - kew * cg, D[1][1] / Nc - kew * sg) / kew;
    const char* nm = c.cls == 2 ? "equal-area" : "conformality";
    if (!(e1 <= rtol)) badt(std::string(nm) + "-meridian", "north-south derivative of Forward differs from (" + std::string(c.cls == 2 ? "1/k" : "k") + ", gamma) returned: relative " + num((double)e1));
    // the image turns by theta = n lambda (k^2 n lambda for Albers): differencing sin/cos(theta) with the step d theta has the relative error (d theta)^4/30
    const double dth = (c.cls == 0 ? 1.0 : std::fabs(c11::dbl(c.cls == 2 ? P.kap * P.kap * P.n : P.n))) * h * Math::degree(), rtol2 = rtol + 4 * dth * dth * dth * dth / 30;
    if (!(e2 <= rtol2)) badt(std::string(nm) + "-parallel", "east-west derivative of Forward differs from (k, gamma) returned: relative " + num((double)e2));
  }
  // 5. longitude wrap: lon0 and lon shifted by multiples of 360
  if (c.cls != 0) {
    double x4, y4, g4, k4; o.Fwd(np, lon0 + 360, lat, lon - 720, x4, y4, g4, k4);
    bool exact = (lon0 + 360) - 360 == lon0 && (lon - 720) + 720 == lon && !edge;
    if (exact && !(std::hypot(x4 - x, y4 - y) <= tol_plane(c, R, k) && std::fabs(g4 - g) <= 1e-12 * kp * std::fmax(1.0, std::fabs(g)))) badt("lon-wrap", "Forward(lon0+360, lat, lon-720) differs by " + num(std::hypot(x4 - x, y4 - y)) + " m");
  }
});

// ---------------------------------------------------------------------------------------------------------------
// cfgprops: cfg(13) t1 t2 t3 (three test latitudes) lon -- configuration-level oracles
static Reg r_cfg("cfgprops", [](const Args& a) {
  Cfg c = parse(a); double tl[3] = {unhx(a[NCFG]), unhx(a[NCFG + 1]), unhx(a[NCFG + 2])}, lon = unhx(a[NCFG + 3]);
  cur_tag() = finding_class(c); const double kp = kappa(c.f);
  Obj o; std::string ex = build(c, o); if (!ex.empty()) { emit(ex); return; }
  cur_k0() = o.k0();
  emit(hx(o.lat0()) + " " + hx(o.k0()));
  // inspectors: the constructor arguments come back unchanged
  { double ea = c.cls == 0 ? o.ps->EquatorialRadius() : c.cls == 1 ? o.lcc->EquatorialRadius() : o.alb->EquatorialRadius(), ef = c.cls == 0 ? o.ps->Flattening() : c.cls == 1 ? o.lcc->Flattening() : o.alb->Flattening();
    if (!(ea == c.a && ef == c.f)) badt("inspectors", "EquatorialRadius() = " + num(ea) + ", Flattening() = " + num(ef) + " for the constructor arguments " + num(c.a) + ", " + num(c.f)); }
  double l1, l2; stdlats(c, l1, l2);
  c11::Proj P = oracle(c);
  auto same_proj = [&](const Obj& p, const Obj& q, const char* rel, const std::string& what, double extra = 0) {
    for (int i = 0; i < 3; ++i) {
      double x, y, g, k, x2, y2, g2, k2; p.Fwd(true, 3, tl[i], lon, x, y, g, k); q.Fwd(true, 3, tl[i], lon, x2, y2, g2, k2);
      if (!(std::isfinite(x) && std::isfinite(y))) continue;
      double dd = std::hypot(x - x2, y - y2), tol = 2 * tol_plane(c, std::hypot(x, y), kplane(c, k)) + extra * (std::hypot(x, y) + c.a) + 2 * oslack(c, std::hypot(x, y), k);
      bool kcmp = std::fabs(tl[i]) < 90;   // at a pole of a non-azimuthal cone the scale is infinite (the returned value is arbitrary)
      if (!(dd <= tol && (!kcmp || std::fabs(k - k2) <= (1e-12 * kp + extra) * std::fabs(k)))) { badt(rel, what + ": at lat " + num(tl[i]) + " positions differ by " + num(dd) + " m (tolerance " + num(tol) + "), k " + num(k) + " vs " + num(k2)); return; }
    }
  };
  // prescribed scale: on the standard parallels (no SetScale) or at the SetScale latitude
  if (c.cls != 0 && !c.ss && documented_domain(c)) {
    for (double l : {l1, l2}) if (c.kind != 3 && std::cos(l * Math::degree()) > 1e-3) {
      double x, y, g, k; o.Fwd(true, 0, l, 0, x, y, g, k);
      if (!(std::fabs(k - c.k1) <= krel_at(P, c, l) * c.k1)) badt("scale-on-standard-parallel", "k(" + num(l) + ") = " + num(k) + ", prescribed " + num(c.k1));
    }
  }
  if (c.ss) {
    double x, y, g, k; o.Fwd(true, 0, c.sslat, 0, x, y, g, k);
    if (!(std::fabs(k - c.ssk) <= krel_at(P, c, c.sslat) * c.ssk)) badt("setscale-scale", "after SetScale(" + num(c.sslat) + ", " + num(c.ssk) + ") the scale there is " + num(k));
  }
  if (c.cls == 0) {
    if (!c.ss && !(o.k0() == c.k1)) badt("central-scale", "CentralScale");
    // SetScale(90, k) is the constructor with k0 = k
    Cfg c2 = c; c2.ss = 1; c2.sslat = 90; c2.ssk = c.k1 * 0.75; Cfg c3 = c; c3.ss = 0; c3.k1 = c.k1 * 0.75; Obj o2, o3;
    if (build(c2, o2).empty() && build(c3, o3).empty()) same_proj(o2, o3, "setscale-vs-constructor", "SetScale(90, k) vs constructor(k)");
    return;
  }
  // origin: between the parallels, equals stdlat for one parallel, maps to (0, 0) with the central scale; equals the oracle's
  {
    double lat0 = o.lat0(), lo = std::fmin(l1, l2), hi = std::fmax(l1, l2);
    if (!(lat0 >= lo - 1e-9 && lat0 <= hi + 1e-9)) badt("origin-latitude", "OriginLatitude " + num(lat0) + " not between the standard parallels " + num(l1) + ", " + num(l2));
    if (l1 == l2 && c.kind != 3 && !(std::fabs(lat0 - l1) <= 4 * ulp(90.0))) badt("origin-latitude", "one standard parallel " + num(l1) + " but OriginLatitude " + num(lat0));
    if (documented_domain(c)) {
      double ol = c11::dbl(atan2q(P.p0.s, P.p0.c) * 180 / c11::PIq);
      if (!P.polar && !(std::fabs(lat0 - ol) <= 4 * 4.5e-14 * gflat(c) + 4 * ulp(lat0) + NULP * cond_lat0(c))) badt("origin-latitude", "OriginLatitude " + num(lat0) + " vs latitude of minimum scale " + num(ol));
      // the class of the accuracy finding F87 is bounded in size (Albers: its worst documented loss is 1e-6 degrees at f = 0.99): an Albers origin off
      // by more than 1e-4 degrees is a wrong root of the Newton iteration in Init (the repaired cycle F86), reported under its own relation, without class
      if (c.cls == 2 && std::fabs(lat0 - ol) > 1e-4 + NULP * cond_lat0(c)) gv::bad("origin-latitude-gross", "OriginLatitude " + num(lat0) + " vs latitude of minimum scale " + num(ol));
      if (std::fabs(lat0) < 90) {
        double x, y, g, k; o.Fwd(true, 7, lat0, 7, x, y, g, k);
        if (!(std::hypot(x, y) <= tol_plane(c, 0, std::fmax(k, 1 / k)))) badt("origin-maps-to-zero", "Forward(lat0) = (" + num(x) + ", " + num(y) + ")");
        if (!(std::fabs(k - o.k0()) <= 1e-12 * kp * k)) badt("central-scale", "k(lat0) = " + num(k) + " but CentralScale = " + num(o.k0()));
      }
    }
  }
  // constructor equivalence: same parameters through the other constructor forms
  {
    if (c.kind == 2) {
      double s1, c1, s2, c2_; Math::sincosd(l1, s1, c1); Math::sincosd(l2, s2, c2_);
      Cfg c3 = c; c3.kind = 3; c3.p[0] = s1; c3.p[1] = c1; c3.p[2] = s2; c3.p[3] = c2_; Obj o3;
      std::string e3 = build(c3, o3); if (!e3.empty()) badt("constructor-equivalence", "degree constructor accepts (" + num(l1) + ", " + num(l2) + ") but the sin/cos constructor throws");
      else same_proj(o, o3, "constructor-equivalence", "two-parallel vs sin/cos constructor");
    }
    if (l1 == l2 && c.kind != 3) {
      Cfg c1 = c; c1.kind = c.kind == 1 ? 2 : 1; c1.p[0] = l1; c1.p[1] = c.kind == 1 ? l1 : 0; Obj o1;
      std::string e1 = build(c1, o1); if (!e1.empty()) badt("constructor-equivalence", "one- and two-parallel constructors disagree on accepting " + num(l1));
      else same_proj(o, o1, "constructor-equivalence", "one-parallel vs two-parallel constructor");
    }
    // exchanging the parallels gives the same projection
    if (c.kind != 1) {
      Cfg cs = c; if (c.kind == 2) std::swap(cs.p[0], cs.p[1]); else { std::swap(cs.p[0], cs.p[2]); std::swap(cs.p[1], cs.p[3]); } Obj os;
      std::string es = build(cs, os); if (!es.empty()) badt("constructor-equivalence", "exchanging the standard parallels is rejected");
      else if (documented_domain(c)) same_proj(o, os, "parallel-order", "standard parallels exchanged");
    }
  }
  // SetScale(stdlat, k) on a k1 = 1 object is the constructor with k1 = k (one-parallel or two-parallel)
  if (!c.ss && std::cos(l1 * Math::degree()) > 1e-3 && documented_domain(c)) {
    Cfg c2 = c; c2.ss = 1; c2.sslat = l1; c2.ssk = c.k1; c2.k1 = 1; Obj o2;
    if (c.kind != 3 && build(c2, o2).empty()) same_proj(o, o2, "setscale-vs-constructor", "constructor(k1) vs constructor(1) + SetScale(stdlat1, k1)", krel_at(P, c, l1));
  }
  // mirror law: the cone with negated parallels at the negated latitude is the mirror image (SetScale at the pole of
  // a polar cone is judged by setscale-polar-hemisphere)
  if (!(c.ss && std::fabs(c.sslat) == 90)) {
    Cfg cm = c; if (c.kind == 3) { cm.p[0] = -c.p[0]; cm.p[2] = -c.p[2]; } else { cm.p[0] = -c.p[0]; cm.p[1] = -c.p[1]; } cm.sslat = -c.sslat; Obj om;
    std::string em = build(cm, om); if (!em.empty()) badt("mirror", "mirrored configuration rejected");
    else for (int i = 0; i < 3; ++i) {
      double x, y, g, k, x2, y2, g2, k2; o.Fwd(true, 0, tl[i], lon, x, y, g, k); om.Fwd(true, 0, -tl[i], lon, x2, y2, g2, k2);
      if (!(std::isfinite(x) && std::isfinite(y)) || !documented_domain(c)) continue;
      double dd = std::hypot(x - x2, y + y2), tol = 2 * tol_plane(c, std::hypot(x, y), kplane(c, k)) + 2 * oslack(c, std::hypot(x, y), k);
      if (!(dd <= tol && std::fabs(g + g2) <= 1e-12 * kp * std::fmax(1.0, std::fabs(g)) && (std::fabs(tl[i]) == 90 || std::fabs(k - k2) <= 1e-12 * kp * std::fabs(k)))) { badt("mirror", "Forward(-cone)(-lat) is not the mirror image of Forward(cone)(lat) at lat " + num(tl[i]) + ": off by " + num(dd) + " m"); break; }
      double la, lo, gg, kk; om.Rev(true, 0, x, -y, la, lo, gg, kk); double la1, lo1, gg1, kk1; o.Rev(true, 0, x, y, la1, lo1, gg1, kk1);
      if (std::fabs(tl[i]) < 89.9 && !(std::fabs(la + la1) <= 1e-9 * kp)) { badt("mirror", "Reverse(-cone)(x, -y) latitude " + num(la) + " vs " + num(la1)); break; }
    }
  }
  // SetScale at a pole: accepted exactly at the pole where the (polar) cone has its apex
  if (c.cls == 1 && P.polar && !c.ss) {
    for (double pl : {90.0, -90.0}) {
      Cfg c2 = c; c2.ss = 1; c2.sslat = pl; c2.ssk = 0.9996; Obj o2; bool acc = build(c2, o2).empty(), want = (pl > 0) == (P.hemi > 0);
      if (acc != want) badt("setscale-polar-hemisphere", "polar cone with apex at " + num(90.0 * P.hemi) + ": SetScale(" + num(pl) + ", k) is " + (acc ? "accepted" : "rejected"));
    }
  }
  // NaN coordinates give NaN (no clamping to a pole)
  {
    double la, lo, gg, kk; o.Rev(true, 0, std::nan(""), 1e5, la, lo, gg, kk); if (!std::isnan(la)) badt("nan-in-nan-out", "Reverse(NaN, y) gives lat " + num(la));
    o.Rev(true, 0, 1e5, std::nan(""), la, lo, gg, kk); if (!std::isnan(la)) badt("nan-in-nan-out", "Reverse(x, NaN) gives lat " + num(la));
  }
});

// ---------------------------------------------------------------------------------------------------------------
// ctor: cls a f k  lat1 lat2  -- accept/reject of the three constructor forms on the same parameters (+ the sincosd
// values the degree forms use), judged by the Lean domain predicate; also consistency among the forms here
static Reg r_ctor("ctor", [](const Args& a) {
  int cls = std::stoi(a[0]); double ea = unhx(a[1]), f = unhx(a[2]), k = unhx(a[3]), l1 = unhx(a[4]), l2 = unhx(a[5]);
  double s1, c1, s2, c2; Math::sincosd(l1, s1, c1); Math::sincosd(l2, s2, c2);
  current_op() = "ctor " + a[0] + " " + a[1] + " " + a[2] + " " + a[3] + " " + a[4] + " " + a[5] + " " + hx(s1) + " " + hx(c1) + " " + hx(s2) + " " + hx(c2);
  auto acc = [&](int kind) {
    Cfg c; c.cls = cls; c.a = ea; c.f = f; c.k1 = k; c.ss = 0; c.sslat = 0; c.ssk = 1; c.kind = kind;
    if (kind == 1) { c.p[0] = l1; c.p[1] = c.p[2] = c.p[3] = 0; } else if (kind == 2) { c.p[0] = l1; c.p[1] = l2; c.p[2] = c.p[3] = 0; } else { c.p[0] = s1; c.p[1] = c1; c.p[2] = s2; c.p[3] = c2; }
    Obj o; std::string e = build(c, o); return e.empty() ? 1 : (e == "!E" ? 0 : -1);
  };
  int a2 = acc(2), a3 = acc(3), a1 = (l1 == l2 || (std::isnan(l1) && std::isnan(l2))) ? acc(1) : -2;
  emit(std::to_string(a1) + " " + std::to_string(a2) + " " + std::to_string(a3));
  if (a2 < 0 || a3 < 0 || a1 == -1) badt("constructor-exception-type", "a constructor threw something other than GeographicErr");
  bool latsok = std::fabs(l1) <= 90 && std::fabs(l2) <= 90;   // sincosd of an out-of-range latitude is still a valid sine/cosine pair
  if (latsok && a2 != a3) badt("constructor-domain", "degree constructor " + std::string(a2 ? "accepts" : "rejects") + " (" + num(l1) + ", " + num(l2) + ") but the sin/cos constructor " + (a3 ? "accepts" : "rejects") + " the same parallels");
  if (a1 >= 0 && a1 != a2) badt("constructor-domain", "one-parallel constructor " + std::string(a1 ? "accepts" : "rejects") + " " + num(l1) + " but the two-parallel constructor " + (a2 ? "accepts" : "rejects") + " it twice");
});

// ---------------------------------------------------------------------------------------------------------------
// statics: idx northp lon0 lat lon -- the library's static instances UPS(), Mercator(), CylindricalEqualArea(),
// AzimuthalEqualAreaNorth/South() against a freshly constructed object with the documented parameters (written out
// here as literals), bit for bit, with both overloads; the closed-form oracle judges the equivalent configuration in `pt`
static Cfg static_cfg(int idx) {
  Cfg c; c.a = 6378137.0; c.f = 1 / 298.257223563; c.ss = 0; c.sslat = 0; c.ssk = 1; c.k1 = 1; c.kind = 1; c.p[0] = c.p[1] = c.p[2] = c.p[3] = 0;
  switch (idx) {
  case 0: c.cls = 0; c.p[0] = 90; c.k1 = 0.994; break;                                        // UPS: WGS84, k0 = 0.994
  case 1: c.cls = 1; c.p[0] = 0; break;                                                        // Mercator: stdlat 0, k0 = 1
  case 2: c.cls = 2; c.p[0] = 0; break;                                                        // cylindrical equal area: stdlat 0
  case 3: c.cls = 2; c.p[0] = 90; break;                                                       // azimuthal equal area, north
  default: c.cls = 2; c.p[0] = -90; break;                                                     // azimuthal equal area, south
  }
  return c;
}
static Reg r_statics("statics", [](const Args& a) {
  int idx = std::stoi(a[0]); bool np = std::stoi(a[1]) != 0; double lon0 = unhx(a[2]), lat = unhx(a[3]), lon = unhx(a[4]);
  cur_tag() = ""; Cfg c = static_cfg(idx); Obj o; if (!build(c, o).empty()) { emit("!E"); return; }
  static const char* names[] = {"PolarStereographic::UPS()", "LambertConformalConic::Mercator()", "AlbersEqualArea::CylindricalEqualArea()", "AlbersEqualArea::AzimuthalEqualAreaNorth()", "AlbersEqualArea::AzimuthalEqualAreaSouth()"};
  const PolarStereographic* ps = nullptr; const LambertConformalConic* lc = nullptr; const AlbersEqualArea* al = nullptr;
  switch (idx) { case 0: ps = &PolarStereographic::UPS(); break; case 1: lc = &LambertConformalConic::Mercator(); break; case 2: al = &AlbersEqualArea::CylindricalEqualArea(); break;
                 case 3: al = &AlbersEqualArea::AzimuthalEqualAreaNorth(); break; default: idx = 4; al = &AlbersEqualArea::AzimuthalEqualAreaSouth(); break; }
  double x, y, g, k, rla, rlo, rg, rk, x2, y2, la2, lo2;
  if (ps) { ps->Forward(np, lat, lon, x, y, g, k); ps->Reverse(np, x, y, rla, rlo, rg, rk); ps->Forward(np, lat, lon, x2, y2); ps->Reverse(np, x, y, la2, lo2); }
  else if (lc) { lc->Forward(lon0, lat, lon, x, y, g, k); lc->Reverse(lon0, x, y, rla, rlo, rg, rk); lc->Forward(lon0, lat, lon, x2, y2); lc->Reverse(lon0, x, y, la2, lo2); }
  else { al->Forward(lon0, lat, lon, x, y, g, k); al->Reverse(lon0, x, y, rla, rlo, rg, rk); al->Forward(lon0, lat, lon, x2, y2); al->Reverse(lon0, x, y, la2, lo2); }
  emit(hx(x) + " " + hx(y) + " " + hx(g) + " " + hx(k) + " " + hx(rla) + " " + hx(rlo) + " " + hx(rg) + " " + hx(rk));
  double fx, fy, fg, fk, fla, flo, frg, frk; o.Fwd(np, lon0, lat, lon, fx, fy, fg, fk); o.Rev(np, lon0, fx, fy, fla, flo, frg, frk);
  auto same = [](double u, double v) { return bits(u) == bits(v) || (std::isnan(u) && std::isnan(v)); };
  std::string nm = names[idx];
  if (!(same(x, fx) && same(y, fy) && same(g, fg) && same(k, fk)))
    badt("static-instance", nm + ".Forward(" + num(lat) + ", " + num(lon) + ") = (" + num(x) + ", " + num(y) + ", " + num(g) + ", " + num(k) + ") but an object constructed with the documented parameters gives (" + num(fx) + ", " + num(fy) + ", " + num(fg) + ", " + num(fk) + ")");
  if (!(same(rla, fla) && same(rlo, flo) && same(rg, frg) && same(rk, frk)))
    badt("static-instance", nm + ".Reverse(" + num(x) + ", " + num(y) + ") = (" + num(rla) + ", " + num(rlo) + ") but an object constructed with the documented parameters gives (" + num(fla) + ", " + num(flo) + ")");
  if (!(same(x, x2) && same(y, y2) && same(rla, la2) && same(rlo, lo2))) badt("static-instance", nm + ": the overloads without gamma/k differ from the full ones");
  double ea = ps ? ps->EquatorialRadius() : lc ? lc->EquatorialRadius() : al->EquatorialRadius(), ef = ps ? ps->Flattening() : lc ? lc->Flattening() : al->Flattening();
  double k0 = ps ? ps->CentralScale() : lc ? lc->CentralScale() : al->CentralScale(), l0 = ps ? 90 : lc ? lc->OriginLatitude() : al->OriginLatitude();
  if (!(ea == c.a && ef == c.f && k0 == c.k1 && (ps || l0 == c.p[0])))
    badt("static-instance", nm + ": a = " + num(ea) + ", f = " + num(ef) + ", CentralScale = " + num(k0) + ", OriginLatitude = " + num(l0) + "; documented " + num(c.a) + ", " + num(c.f) + ", " + num(c.k1) + ", " + num(c.p[0]));
});

// ---------------------------------------------------------------------------------------------------------------
// sshist: cfg(13) n (lat k){n} t1 t2 t3 lon -- SetScale called n times in a row on one object.  The projection afterwards is
// fixed by the last call alone (scale k_n on the parallel lat_n): it must be that of a fresh object with that single call.
static Reg r_sshist("sshist", [](const Args& a) {
  Cfg c = parse(a); int n = std::stoi(a[NCFG]); std::vector<std::pair<double, double>> h;
  for (int i = 0; i < n; ++i) h.push_back({unhx(a[NCFG + 1 + 2 * i]), unhx(a[NCFG + 2 + 2 * i])});
  size_t q = NCFG + 1 + 2 * n; double tl[3] = {unhx(a[q]), unhx(a[q + 1]), unhx(a[q + 2])}, lon = unhx(a[q + 3]);
  cur_tag() = finding_class(c); const double kp = kappa(c.f);
  c.ss = 0; Obj o; std::string ex = build(c, o); if (!ex.empty() || n == 0) { emit("!E"); return; }
  std::string e2 = guarded([&] { for (auto& s : h) { if (c.cls == 0) o.ps->SetScale(s.first, s.second); else if (c.cls == 1) o.lcc->SetScale(s.first, s.second); else o.alb->SetScale(s.first, s.second); } });
  if (!e2.empty()) { emit(e2); return; }
  Cfg cl = c; cl.ss = 1; cl.sslat = h.back().first; cl.ssk = h.back().second; Obj ol; if (!build(cl, ol).empty()) { emit("!E"); return; }
  emit(hx(o.k0()) + " " + hx(ol.k0()));
  cur_k0() = ol.k0();
  c11::Proj P = oracle(cl);
  // the scale on the last parallel is the last k
  { double x, y, g, k; o.Fwd(true, 0, cl.sslat, 0, x, y, g, k);
    double tol = krel_at(P, cl, cl.sslat) + 8 * n * std::numeric_limits<double>::epsilon();
    if (!(std::fabs(k - cl.ssk) <= tol * cl.ssk)) badt("setscale-history", "after " + std::to_string(n) + " calls of SetScale, the last one (" + num(cl.sslat) + ", " + num(cl.ssk) + "), the scale there is " + num(k)); }
  if (!(std::fabs(o.k0() - ol.k0()) <= (1e-12 * kp + 8 * n * std::numeric_limits<double>::epsilon()) * ol.k0())) badt("setscale-history", "CentralScale after the history " + num(o.k0()) + ", after the last call alone " + num(ol.k0()));
  for (int i = 0; i < 3; ++i) {
    double x, y, g, k, x2, y2, g2, k2; o.Fwd(true, 3, tl[i], lon, x, y, g, k); ol.Fwd(true, 3, tl[i], lon, x2, y2, g2, k2);
    if (!(std::isfinite(x) && std::isfinite(y) && std::isfinite(x2) && std::isfinite(y2))) continue;
    double R = std::hypot(x, y), dd = std::hypot(x - x2, y - y2), tol = 2 * tol_plane(cl, R, k) + (1e-12 * kp + 8 * n * std::numeric_limits<double>::epsilon()) * (R + c.a * std::fmax(1.0, k));
    // an Albers image with k >> 1 winds around the apex: theta = k^2 n lambda carries the relative error of k^2
    if (c.cls == 2 && std::fabs(g) > 0) { double n0 = std::fabs(std::sin(ol.lat0() * Math::degree())), rho0 = n0 > 0 ? c.a / n0 / ol.k0() : 0;   // distance of the origin from the apex (at most a / (n k))
      double extra = (1e-12 * kp + 8 * n * std::numeric_limits<double>::epsilon()) * std::fabs(g) * Math::degree() * (R + rho0); if (std::isfinite(extra)) tol += extra; }
    if (!(dd <= tol && (std::fabs(tl[i]) == 90 || std::fabs(k - k2) <= (1e-12 * kp + 8 * n * std::numeric_limits<double>::epsilon()) * std::fabs(k2)))) {
      badt("setscale-history", "after " + std::to_string(n) + " calls of SetScale the projection differs from the one after the last call alone: at lat " + num(tl[i]) + " by " + num(dd) + " m (tolerance " + num(tol) + "), k " + num(k) + " vs " + num(k2)); return; }
  }
});

// ---------------------------------------------------------------------------------------------------------------
// conicproj: cls a f lat1 lat2 k1 lon0 reverse longfirst prec u v -- tools/ConicProj (compiled in) on one input line against the
// classes called directly with the arguments parsed by the same library routines: the printed line must be the
// Utility::str formatting of what the class returns (exact string equality)
static std::string g17(double x) { char b[400]; std::snprintf(b, sizeof b, "%.17g", x); if (std::strchr(b, 'e') && std::isfinite(x)) std::snprintf(b, sizeof b, std::fabs(x) < 1 ? "%.30f" : "%.3f", x); return b; }
static Reg r_conicproj("conicproj", [](const Args& a) {
  int cls = std::stoi(a[0]); double ea = unhx(a[1]), f = unhx(a[2]), l1 = unhx(a[3]), l2 = unhx(a[4]), k1 = unhx(a[5]), lon0 = unhx(a[6]);
  bool reverse = std::stoi(a[7]) != 0, longfirst = std::stoi(a[8]) != 0; int prec = std::stoi(a[9]); double u = unhx(a[10]), v = unhx(a[11]);
  cur_tag() = "";
  std::vector<std::string> av = {"ConicProj", cls == 1 ? "-c" : "-a", g17(l1), g17(l2), "-l", g17(lon0), "-k", g17(k1), "-e", g17(ea), g17(f), "-p", std::to_string(prec)};
  if (reverse) av.push_back("-r"); if (longfirst) av.push_back("-w");
  std::string line = reverse ? g17(u) + " " + g17(v) : (longfirst ? g17(v) + " " + g17(u) : g17(u) + " " + g17(v));   // forward: u = lat, v = lon
  std::vector<const char*> argv; for (auto& s : av) argv.push_back(s.c_str());
  std::istringstream in(line + "\n"); std::ostringstream out, err;
  std::streambuf *oi = std::cin.rdbuf(in.rdbuf()), *oo = std::cout.rdbuf(out.rdbuf()), *oe = std::cerr.rdbuf(err.rdbuf()); std::cin.clear();
  int rc = -99; std::string ex;
  try { rc = tool_conicproj::main(int(argv.size()), argv.data()); } catch (const std::exception& e) { ex = typeid(e).name(); } catch (...) { ex = "unknown"; }
  std::cin.rdbuf(oi); std::cout.rdbuf(oo); std::cerr.rdbuf(oe); std::cin.clear(); std::cout.clear(); std::cerr.clear();
  std::string got = out.str(); while (!got.empty() && (got.back() == '\n' || got.back() == '\r')) got.pop_back();
  if (!ex.empty()) { emit("!O"); badt("conicproj-exception-escapes", "exception " + ex + " escaped main"); return; }
  // what the classes return for the same (parsed) arguments
  std::string want; int wrc = 0;
  try {
    DMS::flag ind; double pl1 = DMS::Decode(g17(l1), ind); if (ind == DMS::LONGITUDE) throw GeographicErr("Bad hemisphere");
    double pl2 = DMS::Decode(g17(l2), ind); if (ind == DMS::LONGITUDE) throw GeographicErr("Bad hemisphere");
    double pl0 = DMS::Decode(g17(lon0), ind); if (ind == DMS::LATITUDE) throw GeographicErr("Bad hemisphere"); pl0 = Math::AngNormalize(pl0);
    double pk = Utility::val<double>(g17(k1)), pa = Utility::val<double>(g17(ea)), pf = Utility::fract<double>(g17(f));
    int pr = std::min(10 + Math::extra_digits(), std::max(0, prec)); double o1, o2, g, k;
    const LambertConformalConic LP = cls == 1 ? LambertConformalConic(pa, pf, pl1, pl2, pk) : LambertConformalConic(1, 0, 0, 0, 1);
    const AlbersEqualArea AP = cls == 2 ? AlbersEqualArea(pa, pf, pl1, pl2, pk) : AlbersEqualArea(1, 0, 0, 0, 1);
    try {
      if (reverse) {
        double x = Utility::val<double>(g17(u)), y = Utility::val<double>(g17(v));
        if (cls == 1) LP.Reverse(pl0, x, y, o1, o2, g, k); else AP.Reverse(pl0, x, y, o1, o2, g, k);
        want = Utility::str(longfirst ? o2 : o1, pr + 5) + " " + Utility::str(longfirst ? o1 : o2, pr + 5) + " " + Utility::str(g, pr + 6) + " " + Utility::str(k, pr + 6);
      } else {
        double lat, lon; DMS::DecodeLatLon(longfirst ? g17(v) : g17(u), longfirst ? g17(u) : g17(v), lat, lon, longfirst);
        if (cls == 1) LP.Forward(pl0, lat, lon, o1, o2, g, k); else AP.Forward(pl0, lat, lon, o1, o2, g, k);
        want = Utility::str(o1, pr) + " " + Utility::str(o2, pr) + " " + Utility::str(g, pr + 6) + " " + Utility::str(k, pr + 6);
      }
    } catch (const std::exception& e) { want = std::string("ERROR: ") + e.what(); wrc = 1; }
  } catch (const std::exception&) { want = ""; wrc = 1; }   // the options themselves are rejected: no output line
  emit(std::to_string(rc) + " " + hs(got));
  if (got != want || rc != wrc)
    badt("conicproj-vs-api", "ConicProj" + join(Args(av.begin() + 1, av.end())) + " on '" + line + "' prints '" + got + "' (exit " + std::to_string(rc) + "); the class called directly gives '" + want + "' (exit " + std::to_string(wrc) + ")");
});

// ---------------------------------------------------------------------------------------------------------------
// Lean correspondence ops
static Reg r_taupf("ctaupf", [](const Args& a) { double tau = unhx(a[0]), es = unhx(a[1]); emit(hx(Math::taupf(tau, es))); });
static Reg r_tauf("tauf", [](const Args& a) {
  double taup = unhx(a[0]), es = unhx(a[1]); double t = Math::tauf(taup, es); emit(hx(t));
  // tauf inverts taupf (relative, on both sides)
  if (std::isfinite(taup) && std::fabs(es) < 0.9) {
    double back = Math::taupf(t, es); double e2m = 1 - es * std::fabs(es);
    if (!(std::fabs(back - taup) <= 64 * 2.3e-16 / std::fmin(1.0, e2m) * std::fmax(std::fabs(taup), 1e-300))) badt("tauf-inverts-taupf", "taupf(tauf(" + num(taup) + ")) = " + num(back));
  }
});
static Reg r_psfwd("psfwd", [](const Args& a) {
  double ea = unhx(a[0]), f = unhx(a[1]), k0 = unhx(a[2]); bool np = std::stoi(a[3]) != 0; double lat = unhx(a[4]), lon = unhx(a[5]);
  double lf = Math::LatFix(lat) * (np ? 1 : -1), tau = Math::tand(lf), sl, cl; Math::sincosd(lon, sl, cl);
  current_op() = "psfwd " + a[0] + " " + a[1] + " " + a[2] + " " + a[3] + " " + a[4] + " " + a[5] + " " + hx(lf) + " " + hx(tau) + " " + hx(sl) + " " + hx(cl);
  PolarStereographic p(ea, f, k0); double x, y, g, k; p.Forward(np, lat, lon, x, y, g, k);
  emit(hx(x) + " " + hx(y) + " " + hx(g) + " " + hx(k));
});
static Reg r_psrev("psrev", [](const Args& a) {
  double ea = unhx(a[0]), f = unhx(a[1]), k0 = unhx(a[2]); bool np = std::stoi(a[3]) != 0; double x = unhx(a[4]), y = unhx(a[5]);
  PolarStereographic p(ea, f, k0); double lat, lon, g, k; p.Reverse(np, x, y, lat, lon, g, k);
  emit(hx(lat) + " " + hx(lon) + " " + hx(g) + " " + hx(k));
});
static Reg r_psss("pssetscale", [](const Args& a) {
  double ea = unhx(a[0]), f = unhx(a[1]), k0 = unhx(a[2]), lat = unhx(a[3]), k = unhx(a[4]);
  current_op() = "pssetscale " + a[0] + " " + a[1] + " " + a[2] + " " + a[3] + " " + a[4] + " " + hx(Math::tand(Math::LatFix(lat)));
  PolarStereographic p(ea, f, k0); std::string e = guarded([&] { p.SetScale(lat, k); });
  emit(e.empty() ? hx(p.CentralScale()) : e);
});
static Reg r_dd("cdd", [](const Args& a) {
  int w = std::stoi(a[0]); double x = unhx(a[1]), y = unhx(a[2]), f = unhx(a[3]); typedef LambertConformalConic L; typedef AlbersEqualArea A;
  auto hyp = [](double v) { return std::hypot(1.0, v); };
  double r = 0; std::string ext;
  switch (w) {
  case 0: { double hx_ = hyp(x), hy = hyp(y); ext = hx(hx_) + " " + hx(hy); r = L::Dhyp(x, y, hx_, hy); break; }
  case 1: { double sx = x / hyp(x), sy = y / hyp(y); ext = hx(sx) + " " + hx(sy); r = L::Dsn(x, y, sx, sy); break; }
  case 2: r = L::Dlog1p(x, y); break;
  case 3: r = L::Dexp(x, y); break;
  case 4: { double sx = std::sinh(x), sy = std::sinh(y), cx = hyp(sx), cy = hyp(sy); ext = hx(sx) + " " + hx(sy) + " " + hx(cx) + " " + hx(cy); r = L::Dsinh(x, y, sx, sy, cx, cy); break; }
  case 5: { double hx_ = hyp(x), hy = hyp(y); ext = hx(hx_) + " " + hx(hy); r = L::Dasinh(x, y, hx_, hy); break; }
  case 6: { L l(1, f, 0, 1); ext = hx(l._e2) + " " + hx(l._es); r = l.Deatanhe(x, y); break; }
  case 7: { A l(1, f, 0, 1); ext = hx(l._e2) + " " + hx(l._e); r = l.Datanhee(x, y); break; }
  case 8: { double sx = x / hyp(x), sy = y / hyp(y); ext = hx(sx) + " " + hx(sy); r = A::Dsn(x, y, sx, sy); break; }
  default: break;
  }
  current_op() = "cdd " + a[0] + " " + a[1] + " " + a[2] + " " + a[3] + (ext.empty() ? "" : " " + ext);
  emit(hx(r));
});
// hemisphere wrapper: the implementation's answer on the general problem is predicted from its own answer on the
// canonical (northern, _sign = +1) problem
static Reg r_cfwd("conicfwd", [](const Args& a) {
  Cfg c = parse(a); double lon0 = unhx(a[NCFG]), lat = unhx(a[NCFG + 1]), lon = unhx(a[NCFG + 2]);
  Obj o; std::string ex = build(c, o); if (!ex.empty()) { emit(ex); return; }
  double sign, x, y, g, k, cx, cy, cg, ck;
  if (c.cls == 1) { LambertConformalConic q = *o.lcc; sign = q._sign; q._sign = 1; o.lcc->Forward(lon0, lat, lon, x, y, g, k); q.Forward(lon0, lat * sign, lon, cx, cy, cg, ck); }
  else { AlbersEqualArea q = *o.alb; sign = q._sign; q._sign = 1; o.alb->Forward(lon0, lat, lon, x, y, g, k); q.Forward(lon0, lat * sign, lon, cx, cy, cg, ck); }
  trim_op(a, NCFG + 3);
  current_op() += " " + hx(sign) + " " + hx(cx) + " " + hx(cy) + " " + hx(cg) + " " + hx(ck);
  emit(hx(x) + " " + hx(y) + " " + hx(g) + " " + hx(k));
});
static Reg r_crev("conicrev", [](const Args& a) {
  Cfg c = parse(a); double lon0 = unhx(a[NCFG]), x = unhx(a[NCFG + 1]), y = unhx(a[NCFG + 2]);
  Obj o; std::string ex = build(c, o); if (!ex.empty()) { emit(ex); return; }
  double sign, lat, lon, g, k, clat, clon, cg, ck;
  if (c.cls == 1) { LambertConformalConic q = *o.lcc; sign = q._sign; q._sign = 1; o.lcc->Reverse(lon0, x, y, lat, lon, g, k); q.Reverse(lon0, x, y * sign, clat, clon, cg, ck); }
  else { AlbersEqualArea q = *o.alb; sign = q._sign; q._sign = 1; o.alb->Reverse(lon0, x, y, lat, lon, g, k); q.Reverse(lon0, x, y * sign, clat, clon, cg, ck); }
  trim_op(a, NCFG + 3);
  current_op() += " " + hx(sign) + " " + hx(clat) + " " + hx(clon) + " " + hx(cg) + " " + hx(ck);
  emit(hx(lat) + " " + hx(lon) + " " + hx(g) + " " + hx(k));
});


// ---------------------------------------------------------------------------------------------------------------
// cone kernels against the Lean models (Model/ConicKernels.lean): Init members, northern-cone Forward / Reverse with the
// implementation's own members, SetScale, txif / tphif, DDatanhee / atanhxm1
// keep "op" and its first n arguments (a replayed line carries the tokens appended by the previous run)
static void trim_op(const Args& a, size_t n) {
  std::string op = current_op().substr(0, current_op().find(' ')); Args b(a.begin(), a.begin() + std::min(n, a.size())); current_op() = op + join(b);
}
static Args lccm(const LambertConformalConic& q) { return {hx(q._sign), hx(q._n), hx(q._nc), hx(q._t0nm1), hx(q._scale), hx(q._lat0), hx(q._k0), hx(q._scbet0), hx(q._tchi0), hx(q._scchi0), hx(q._psi0), hx(q._nrho0), hx(q._drhomax)}; }
static Args albm(const AlbersEqualArea& q) { return {hx(q._sign), hx(q._lat0), hx(q._k0), hx(q._n0), hx(q._m02), hx(q._nrho0), hx(q._k2), hx(q._txi0), hx(q._scxi0), hx(q._sxi0)}; }
static Args members(const Obj& o) { return o.cls == 1 ? lccm(*o.lcc) : albm(*o.alb); }
// what the constructor hands to Init
static void rawsc(const Cfg& c, double& s1, double& c1, double& s2, double& c2) {
  if (c.kind == 1) { Math::sincosd(c.p[0], s1, c1); s2 = s1; c2 = c1; }
  else if (c.kind == 2) { Math::sincosd(c.p[0], s1, c1); Math::sincosd(c.p[1], s2, c2); }
  else { s1 = c.p[0]; c1 = c.p[1]; s2 = c.p[2]; c2 = c.p[3]; }
}
static void op_kinit(const Args& a) {
  Cfg c = parse(a); Obj o; std::string ex = build(c, o, false); if (c.cls == 0) { emit("!E"); return; }
  double s1, c1, s2, c2; rawsc(c, s1, c1, s2, c2); trim_op(a, NCFG);
  current_op() += " " + hx(c.a) + " " + hx(c.f) + " " + hx(s1) + " " + hx(c1) + " " + hx(s2) + " " + hx(c2) + " " + hx(c.k1);
  if (!ex.empty()) { emit(ex); return; }
  emit(join(members(o)).substr(1));
}
static Reg r_lccinit("lccinit", op_kinit); static Reg r_albinit("albinit", op_kinit);
static void op_kfwd(const Args& a) {
  Cfg c = parse(a); double lon0 = unhx(a[NCFG]), lat = unhx(a[NCFG + 1]), lon = unhx(a[NCFG + 2]);
  Obj o; std::string ex = build(c, o); if (!ex.empty() || c.cls == 0) { emit("!E"); return; }
  double sign = c.cls == 1 ? o.lcc->_sign : o.alb->_sign, sphi, cphi, x, y, g, k;
  Math::sincosd(Math::LatFix(lat * sign), sphi, cphi); double lam = Math::AngDiff(lon0, lon) * Math::degree();
  if (c.cls == 1) { LambertConformalConic q = *o.lcc; q._sign = 1; q.Forward(lon0, lat * sign, lon, x, y, g, k); }
  else { AlbersEqualArea q = *o.alb; q._sign = 1; q.Forward(lon0, lat * sign, lon, x, y, g, k); }
  trim_op(a, NCFG + 3);
  current_op() += " " + hx(c.a) + " " + hx(c.f) + join(members(o)) + " " + hx(sphi) + " " + hx(cphi) + " " + hx(lam);
  emit(hx(x) + " " + hx(y) + " " + hx(g) + " " + hx(k));
}
static Reg r_lccfwd("lccfwd", op_kfwd); static Reg r_albfwd("albfwd", op_kfwd);
static void op_krev(const Args& a) {
  Cfg c = parse(a); double x = unhx(a[NCFG]), y = unhx(a[NCFG + 1]);
  Obj o; std::string ex = build(c, o); if (!ex.empty() || c.cls == 0) { emit("!E"); return; }
  double lat, lon, g, k;
  if (c.cls == 1) { LambertConformalConic q = *o.lcc; q._sign = 1; q.Reverse(0, x, y, lat, lon, g, k); }
  else { AlbersEqualArea q = *o.alb; q._sign = 1; q.Reverse(0, x, y, lat, lon, g, k); }
  trim_op(a, NCFG + 2);
  current_op() += " " + hx(c.a) + " " + hx(c.f) + join(members(o));
  emit(hx(lat) + " " + hx(lon) + " " + hx(g) + " " + hx(k));
}
static Reg r_lccrev("lccrev", op_krev); static Reg r_albrev("albrev", op_krev);
static Reg r_css("csetscale", [](const Args& a) {
  Cfg c = parse(a); Obj o; std::string ex = build(c, o, false); if (!ex.empty() || c.cls == 0 || !c.ss) { emit("!E"); return; }
  double x, y, g, kold; o.Fwd(true, 0, c.sslat, 0, x, y, g, kold);
  trim_op(a, NCFG);
  current_op() += " " + std::to_string(c.cls) + " " + hx(kold) + " " + hx(c.ssk) + join(members(o));
  std::string e2 = guarded([&] { if (c.cls == 1) o.lcc->SetScale(c.sslat, c.ssk); else o.alb->SetScale(c.sslat, c.ssk); });
  if (!e2.empty()) { emit(e2); return; }
  emit(join(members(o)).substr(1));
});
// the Albers helpers also face their definitions evaluated independently in binary128 (no series, no divided differences):
//   tan(xi) = Q/sqrt((QZ - Q)(QZ + Q)), Q(s) = s/(1 - e^2 s^2) + atanh(e s)/e;   atanhxm1(x) = atanh(sqrt x)/sqrt x - 1;
//   DDatanhee(x, y) = the second divided difference of atanh(e .)/e on the nodes 1, x, y
static const double EPS = std::numeric_limits<double>::epsilon();
static Reg r_ctxif("ctxif", [](const Args& a) {
  double f = unhx(a[0]), tphi = unhx(a[1]); AlbersEqualArea q(1, f, 0, 1); double txi = q.txif(tphi), back = q.tphif(txi); emit(hx(txi) + " " + hx(back));
  cur_tag() = ""; const double kp = kappa(f);
  if (!(std::isfinite(tphi) && std::fabs(tphi) < 1e6 && std::fabs(tphi) > 1e-300)) return;
  c11::Ell E(1, f); Q t = tphi, s = t / sqrtq(1 + t * t), Qs = s / (1 - E.e2 * s * s) + E.atanhee(s), QZ = 1 / (1 - E.e2) + E.atanhee(1), w = Qs / sqrtq((QZ - Qs) * (QZ + Qs));
  if (!(std::fabs(c11::dbl((Q(txi) - w) / w)) <= 64 * EPS * kp)) badt("txif-vs-definition", "txif(" + num(tphi) + ") = " + num(txi) + " on f = " + num(f) + "; authalic tangent " + c11::qstr(w));
  // tphif inverts txif (Newton, relative accuracy; d tan(phi)/d tan(xi) relative is (1 - e^2)-bounded: factor kappa)
  if (!(std::fabs(back - tphi) <= 256 * EPS * kp * std::fabs(tphi))) badt("tphif-inverts-txif", "tphif(txif(" + num(tphi) + ")) = " + num(back) + " on f = " + num(f));
});
static Reg r_cddat("cddat", [](const Args& a) {
  double f = unhx(a[0]), x = unhx(a[1]), y = unhx(a[2]), xm = unhx(a[3]); AlbersEqualArea q(1, f, 0, 1);
  double dd = q.DDatanhee(x, y), am = AlbersEqualArea::atanhxm1(xm);
  emit(hx(dd) + " " + hx(am));
  c11::Ell E(1, f); const double kp = kappa(f);
  // (the open numerical-range defect of DDatanhee2, F96: overflow of 1/(1 - e^2)^m against underflow of (1 - x)^m for 1 - e^2 < 1e-3; the
  // cancellation for e^2 < -3, F85, is repaired by the selection rule q2 = (1 + e) e/(1 - e^2) (1 - x) for f < 0)
  // overflow: DDatanhee2 selected (q2 < 3/4 <= q1) and the M = 16/log10(1/q2) terms it needs drive 1/(1 - e^2)^(M+2) or (1 - x)^M out of range
  { double lo = std::fmin(x, y), e2 = e2of(f), q2 = std::fabs((f < 0 ? 1 + std::sqrt(std::fabs(e2)) : 2) * std::sqrt(std::fabs(e2)) / (1 - e2) * (1 - lo));
    bool sel2 = lo > 0 && q2 < 0.75 && !(std::fabs(e2) < q2);
    bool over = sel2 && e2 > 0 && (16 / -std::log10(q2) + 2) * std::fmax(-std::log10(1 - e2), -std::log10(1 - lo)) > 250;
    cur_tag() = over ? " [class:albers-oblate-ddatanhee2-overflow]" : ""; }
  // atanhxm1 (x < 1)
  if (std::isfinite(xm) && xm < 1 && std::fabs(xm) > 1e-300) {
    Q X = xm, r = sqrtq(fabsq(X)), w = fabsq(X) < Q(1e-9) ? X / 3 + X * X / 5 + X * X * X / 7 : (X > 0 ? atanhq(r) : atanq(r)) / r - 1;
    // relative condition number of atanh(r)/r - 1 with respect to r = sqrt(x): r/((1 - r^2)) / (the value + 1), large only for x -> 1
    double cond = 1 + (xm > 0 ? 1 / ((1 - xm) * (1 + c11::dbl(fabsq(w)))) / std::fmax(1e-300, c11::dbl(fabsq(w))) * c11::dbl(fabsq(w) + 1) : 0);
    if (!(std::fabs(c11::dbl((Q(am) - w) / w)) <= 16 * EPS * cond)) badt("atanhxm1-vs-definition", "atanhxm1(" + num(xm) + ") = " + num(am) + "; atanh(sqrt x)/sqrt x - 1 = " + c11::qstr(w));
  }
  // DDatanhee: nodes 1, x, y in [-1, 1]; evaluated naively in binary128 where that keeps 60 bits
  if (std::fabs(x) <= 1 && std::fabs(y) <= 1 && (E.e2 <= 0 || c11::dbl(E.e) < 1)) {
    Q X = x, Y = y, A1 = E.atanhee(1), w; double gap;
    auto D1 = [&](Q u) { return (A1 - E.atanhee(u)) / (1 - u); };                      // Datanhee(1, u)
    if (x != y) { w = (D1(Y) - D1(X)) / (Y - X); gap = std::fabs(y - x) * std::fmin(1 - x, 1 - y); }
    else { w = (D1(X) - 1 / (1 - E.e2 * X * X)) / (1 - X); gap = (1 - x) * (1 - x); }   // confluent: d/dx Datanhee(1, x)
    // the binary128 evaluation loses 2^-113 (|A| sum)/gap; it is used where that is below a thousandth of the tolerance
    double lo = std::fmin(x, y), scale = c11::dbl(fabsq(D1(X)) + fabsq(D1(Y))) / (1 - lo);
    // the value is a second derivative of atanh(e .)/e at a point of [min, 1]: relative condition number 2/(1 - e^2); where 1 - min >= 1/4
    // a straight divided difference (D(1, y) - D(x, y))/(1 - x) is legitimate, whose error is relative to its operands
    double tol = 64 * EPS * 2 * kp * (std::fabs(c11::dbl(w)) + (1 - lo >= 0.25 ? scale : 0));
    if (c11::fin(w) && w != 0 && gap > 0 && 4 * 1.9e-34 * c11::dbl(fabsq(A1) + fabsq(E.atanhee(X)) + fabsq(E.atanhee(Y))) / gap <= 1e-3 * tol) {
      if (!(std::fabs(c11::dbl(Q(dd) - w)) <= tol)) badt("DDatanhee-vs-definition", "DDatanhee(" + num(x) + ", " + num(y) + ") = " + num(dd) + " on f = " + num(f) + "; second divided difference " + c11::qstr(w) + " (tolerance " + num(tol) + ")");
    }
  }
});

// ---------------------------------------------------------------------------------------------------------------
// generators
static const double WGS84_a = 6378137, WGS84_f = 1 / 298.257223563;
// Ellipsoid strata.  "terrestrial": the flattenings the headers' accuracy figures were established for (and +-0.1);
// "eccentric": the property's quantifier "all f < 1" -- flattenings whose e^2 = f(2 - f) is an exact small integer or
// dyadic rational (a series term can vanish identically, a threshold can be hit exactly: e^2 = 3/4 is the bound
// |e^2| < 0.75 of DDatanhee, e^2 = -3 annihilates every sixth term of DDatanhee2), their one-ulp neighbours, e^2 ~ 1/2, ~ -1,
// strongly prolate and strongly oblate bodies.
static const std::vector<double>& ecc_fs() {
  static const std::vector<double> v = {0.5, -0.5, 0.25, -0.25, 0.75, 1 - std::sqrt(0.5), 1 - std::sqrt(2.0), -1.0, std::nextafter(-1.0, 0.0), std::nextafter(-1.0, -2.0),
                                        -2.0, -3.0, -5.0, 0.9, 0.99};
  return v;
}
static double pickf(Rng& r, bool* ecc = nullptr) {
  static const std::vector<double> fs = {WGS84_f, 0, 0.1, -0.1, 1 / 150.0, WGS84_f, WGS84_f};
  bool e = r.irange(0, 3) == 0; if (ecc) *ecc = e; return e ? r.pick(ecc_fs()) : r.pick(fs);
}
static double pickk(Rng& r) {
  static const std::vector<double> ks = {1, 1, 0.9996, 0.994, 0.5, 2, 1.25}, far = {1e-3, 1e3, 0.03, 40};
  return r.irange(0, 9) == 0 ? r.pick(far) : r.pick(ks);
}
static double picka(Rng& r) { return r.irange(0, 5) ? WGS84_a : r.pick(std::vector<double>{6.4e6, 1.0, 6378388.0, 1e-3, 1e10}); }
static double picklat(Rng& r, const Cfg& c) {
  double l1, l2; stdlats(c, l1, l2);
  switch (r.irange(0, 12)) {
  case 0: return r.pick(std::vector<double>{90, -90, 0, 45, -45, 60, -30, 89, -89});
  case 1: { double e = std::pow(10.0, -r.irange(1, 12)); return (90 - e) * (r.coin() ? 1 : -1); }
  case 2: return (r.coin() ? 1 : -1) * std::pow(10.0, -r.irange(1, 12));
  case 3: return r.coin() ? l1 : l2;
  case 4: return std::fmax(-90.0, std::fmin(90.0, (r.coin() ? l1 : l2) + r.range(-1, 1)));
  case 5: return double(r.irange(-90, 90));
  case 6: { Obj o; if (c.cls != 0 && build(c, o, false).empty()) { double l0 = o.lat0(); if (std::fabs(l0) <= 90) return r.coin() ? l0 : nextup(l0, r.irange(-2, 2) + 2) - 2 * ulp(l0); } return 0; }   // the origin (psi = psi0: the dpsi == 0 branch) and its neighbours
  default: return r.range(-90, 90);
  }
}
static void picklon(Rng& r, double& lon0, double& lon) {
  switch (r.irange(0, 7)) {
  case 0: lon0 = r.pick(std::vector<double>{0, 180, -180, 90, 360, -75, 540}); break;
  default: lon0 = r.range(-180, 180); break;
  }
  switch (r.irange(0, 9)) {
  case 0: lon = lon0; break;
  case 1: lon = lon0 + r.range(-1, 1) * std::pow(10.0, -r.irange(1, 10)); break;
  case 2: lon = lon0 + (r.coin() ? 179.9 : -179.9) + r.range(-0.09, 0.09); break;
  case 3: lon = r.pick(std::vector<double>{0, 180, -180, 90, -90, 360, 720.5}); break;
  case 4: lon = lon0 + r.range(-180, 180) + 360 * r.irange(-2, 2); break;
  default: lon = lon0 + r.range(-120, 120); break;
  }
}
// stratified configurations; returns the stratum name
static std::string pickcfg(Rng& r, Cfg& c) {
  bool ecc; c.cls = r.irange(0, 8) == 0 ? 0 : (r.coin() ? 1 : 2); c.a = picka(r); c.f = pickf(r, &ecc); c.k1 = pickk(r);
  c.kind = 2; c.p[0] = c.p[1] = c.p[2] = c.p[3] = 0; c.ss = 0; c.sslat = 0; c.ssk = 1;
  std::string s;
  if (c.cls == 0) { c.kind = 1; c.p[0] = 90; s = "ps"; }
  else {
    int st = r.irange(0, 17);
    auto lat = [&] { return r.range(-89, 89); };
    switch (st) {
    case 0: c.kind = 1; c.p[0] = r.coin() ? lat() : double(r.irange(-89, 89)); s = "one-parallel"; break;
    case 1: c.p[0] = c.p[1] = lat(); s = "two-equal"; break;
    case 2: { double l = r.range(-89, 89), e = std::pow(10.0, -r.irange(6, 12)) * (r.coin() ? 1 : -1); c.p[0] = l; c.p[1] = l + e; s = "nearly-equal"; break; }
    case 3: { double pl = r.coin() ? 90 : -90; if (r.coin()) { c.kind = 1; c.p[0] = pl; } else { c.p[0] = c.p[1] = pl; } s = "polar"; break; }
    case 4: if (r.coin()) { c.kind = 1; c.p[0] = 0; } else { c.p[0] = c.p[1] = 0; } s = "equatorial"; break;
    case 5: { double l = r.range(0.5, 85); c.p[0] = r.coin() ? l : -l; c.p[1] = -c.p[0]; s = "symmetric"; break; }
    case 6: { double l = r.range(0.5, 85), e = std::pow(10.0, -r.irange(3, 12)) * (r.coin() ? 1 : -1); c.p[0] = l; c.p[1] = -l + e; if (r.coin()) std::swap(c.p[0], c.p[1]); s = "nearly-symmetric"; break; }
    case 7: c.p[0] = r.range(0, 89); c.p[1] = r.range(0, 89); s = "north-pair"; break;
    case 8: c.p[0] = -r.range(0, 89); c.p[1] = -r.range(0, 89); s = "south-pair"; break;
    case 9: c.p[0] = r.range(0, 70); c.p[1] = -r.range(0, 70); if (r.coin()) std::swap(c.p[0], c.p[1]); s = "mixed-hemispheres"; break;
    case 10: { double lo = r.range(-60, 65), hi = r.range(65, 89.9), sg = r.coin() ? 1 : -1; c.p[0] = sg * lo; c.p[1] = sg * hi; if (r.coin()) std::swap(c.p[0], c.p[1]); s = "wide-pair"; break; }
    case 11: { c.kind = 3; double l1 = lat(), l2 = r.coin() ? l1 : lat(); Math::sincosd(l1, c.p[0], c.p[1]); Math::sincosd(l2, c.p[2], c.p[3]); s = "sincos"; break; }
    case 12: { c.kind = 3; double cc = std::pow(10.0, -r.irange(4, 12)), sg = r.coin() ? 1 : -1; c.p[0] = sg * std::sqrt(1 - cc * cc); c.p[1] = cc;
               if (r.coin()) { c.p[2] = c.p[0]; c.p[3] = c.p[1]; } else { double l2 = sg * r.range(20, 80); Math::sincosd(l2, c.p[2], c.p[3]); } s = "sincos-near-pole"; break; }
    // thresholds of Init and Reverse: cone constant n = sin(lat0) near 1/4 (direct / careful 1 - n), near 1/2 (the two forms of
    // tan(chi) in Reverse), cos(lat0) near 1/2 (the two forms of drho)
    case 13: { static const std::vector<double> t0 = {14.477512185929923, 30, 60}; double m = r.pick(t0) * (r.coin() ? 1 : -1), d = r.coin() ? std::pow(10.0, -r.irange(0, 9)) : r.range(0.1, 12);
               if (r.irange(0, 3) == 0) { c.kind = 1; c.p[0] = m; } else { c.p[0] = m - d; c.p[1] = m + d * r.range(0.9, 1.1); if (r.coin()) std::swap(c.p[0], c.p[1]); } s = "cone-constant-thresholds"; break; }
    // one parallel exactly on the equator, the other not (sphi1 == 0: the `<= 0`, `> 0`, `< 0` tests of Init on the boundary)
    case 14: { c.p[0] = 0; c.p[1] = r.coin() ? lat() : double(r.irange(1, 89)) * (r.coin() ? 1 : -1); if (r.coin()) std::swap(c.p[0], c.p[1]); if (r.irange(0, 3) == 0) { c.kind = 3; double a1 = c.p[0], a2 = c.p[1]; Math::sincosd(a1, c.p[0], c.p[1]); Math::sincosd(a2, c.p[2], c.p[3]); } s = "equator-and-other"; break; }
    // both in one hemisphere with the lower one close to the equator (the Taylor series of DDatanhee in 1 - sin(phi1) at its slowest)
    case 15: { double sg = r.coin() ? 1 : -1; c.p[0] = sg * std::pow(10.0, r.range(-6, 1)); c.p[1] = sg * r.range(1, 89); if (r.coin()) std::swap(c.p[0], c.p[1]); s = "low-and-high"; break; }
    default: c.p[0] = double(r.irange(-8, 8) * 10); c.p[1] = double(r.irange(-8, 8) * 10); s = "integer-degrees"; break;
    }
  }
  if (r.irange(0, 3) == 0) {
    c.ss = 1; c.ssk = r.irange(0, 9) ? r.pick(std::vector<double>{1, 0.97, 0.5, 1.5, 0.9996}) : r.pick(std::vector<double>{1e-3, 250});
    c.sslat = r.irange(0, 3) ? r.range(-80, 80) : double(r.irange(-8, 8) * 10);
    if (c.cls == 0 && r.irange(0, 3) == 0) c.sslat = 90;
    if (c.cls == 1) { Obj o; if (build(c, o, false).empty() && o.lcc->_nc == 0 && r.coin()) c.sslat = 90 * o.lcc->_sign; }
    s += "+setscale";
  }
  return std::string(ecc ? "ecc/" : "") + std::string(c.cls == 0 ? "" : c.cls == 1 ? "lcc-" : "albers-") + s;
}
// exact "nice" arguments of the Albers helpers: thresholds 0, 1/2, powers of two (frexp boundary of the term count), 1
static double nice_xm(Rng& r) {
  switch (r.irange(0, 6)) {
  case 0: return 0;
  case 1: { double v = r.coin() ? 0.5 : -0.5; int j = r.irange(-2, 2); return j < 0 ? nextdn(v, -j) : nextup(v, j); }
  case 2: { double v = std::ldexp(1.0, -r.irange(1, 60)) * (r.coin() ? 1 : -1); int j = r.irange(-1, 1); return j < 0 ? nextdn(v, 1) : j > 0 ? nextup(v, 1) : v; }
  case 3: return r.pick(std::vector<double>{1e-300, -1e-300, 5e-324, -5e-324, 0.75, -0.75, -3, -1, -8, -35, 0.9375, 0.99, 0.9999});
  default: return (r.coin() ? 1 : -1) * r.pick(std::vector<double>{0.25, 0.125, 0.375, 0.4999999999999999, 0.1, 1e-8});
  }
}

void gv::generate(const std::string& tier, uint64_t seed) {
  Rng r(seed * 2654435761ULL + 11);
  long ncfg = tier == "thorough" ? 40000 : 2500;
  auto A = [](std::initializer_list<Args> l) { Args out; for (auto& v : l) out.insert(out.end(), v.begin(), v.end()); return out; };
  // fixed anchors: the library's own static instances and documented examples
  {
    std::vector<Cfg> fixed;
    Cfg c; c.a = WGS84_a; c.f = WGS84_f; c.ss = 0; c.sslat = 0; c.ssk = 1; c.p[2] = c.p[3] = 0;
    c.cls = 0; c.kind = 1; c.p[0] = 90; c.p[1] = 0; c.k1 = 0.994; fixed.push_back(c);                 // UPS
    c.cls = 1; c.kind = 1; c.p[0] = 0; c.k1 = 1; fixed.push_back(c);                                   // Mercator
    c.cls = 2; c.kind = 3; c.p[0] = 0; c.p[1] = 1; c.p[2] = 0; c.p[3] = 1; fixed.push_back(c);         // CylindricalEqualArea
    c.p[0] = 1; c.p[1] = 0; c.p[2] = 1; c.p[3] = 0; fixed.push_back(c);                                // AzimuthalEqualAreaNorth
    c.p[0] = -1; c.p[2] = -1; fixed.push_back(c);                                                      // AzimuthalEqualAreaSouth
    c.cls = 1; c.kind = 2; c.p[0] = 40 + 58 / 60.0; c.p[1] = 39 + 56 / 60.0; c.p[2] = c.p[3] = 0; c.k1 = 1; fixed.push_back(c);   // Pennsylvania south (example of the header)
    c.cls = 2; c.p[0] = 40 + 58 / 60.0; c.p[1] = 39 + 56 / 60.0; fixed.push_back(c);
    // the witness of F61: f = -1 (e^2 = -3), parallels 20 and 50, and the same for every eccentric flattening and both classes
    for (double f : ecc_fs()) for (int cls = 1; cls <= 2; ++cls) { c.cls = cls; c.kind = 2; c.a = 1; c.f = f; c.p[0] = 20; c.p[1] = 50; c.k1 = 1; fixed.push_back(c); }
    // the witness of the cycling Newton iteration of AlbersEqualArea::Init: f = 0.9, parallels -68.21929 and 85.9048
    c.cls = 2; c.kind = 2; c.a = 1; c.f = 0.9; c.p[0] = -68.21929; c.p[1] = 85.9048; c.k1 = 1; fixed.push_back(c);
    for (auto& fc : fixed) for (int i = 0; i < (fc.a == 1 ? 2 : 6); ++i) {
      double lon0, lon; picklon(r, lon0, lon); double lat = picklat(r, fc);
      run("pt", A({enc(fc), {std::to_string(int(r.coin())), hx(lon0), hx(lat), hx(lon)}})); stratum("fixed-instances");
      if (fc.a == 1 && i == 0) { run("cfgprops", A({enc(fc), {hx(picklat(r, fc)), hx(r.range(-80, 80)), hx(r.range(-89, 89)), hx(r.range(-170, 170))}})); stratum("fixed-instances"); }
    }
    // the static instances themselves
    for (int idx = 0; idx < 5; ++idx) for (int i = 0; i < 8; ++i) {
      double lon0, lon; picklon(r, lon0, lon); Cfg sc = static_cfg(idx); double lat = picklat(r, sc);
      run("statics", {std::to_string(idx), std::to_string(int(r.coin())), hx(lon0), hx(lat), hx(lon)}); stratum("static-instances");
    }
  }
  for (long i = 0; i < ncfg; ++i) {
    Cfg c; std::string st = pickcfg(r, c); Args ec = enc(c);
    // inside the class of an open finding the kernel models are not run against the implementation (both are meaningless
    // there); the property-level oracles are, and report with the class tag
    const bool inclass = init_class(c);
    int npts = 6;
    for (int j = 0; j < npts; ++j) {
      double lon0, lon; picklon(r, lon0, lon); double lat = picklat(r, c);
      run("pt", A({ec, {std::to_string(int(r.coin())), hx(lon0), hx(lat), hx(lon)}})); stratum(st);
      if (i < 2 && j == 0) sample(current_op());
      if (c.cls != 0 && j < 2 && !inclass) {
        run(c.cls == 1 ? "lccfwd" : "albfwd", A({ec, {hx(lon0), hx(lat), hx(lon)}})); stratum("kernel-forward");
        run("conicfwd", A({ec, {hx(lon0), hx(lat), hx(lon)}}));
        double x = r.range(-1, 1) * 8e6 * (c.a / WGS84_a), y = r.range(-1, 1) * 8e6 * (c.a / WGS84_a); if (j == 0) { Obj o; if (build(c, o).empty()) { double g, k; o.Fwd(true, lon0, lat, lon, x, y, g, k); } }
        run("conicrev", A({ec, {hx(lon0), hx(x), hx(y)}}));
        { Obj o2; double sg = 1; if (build(c, o2).empty()) sg = c.cls == 1 ? o2.lcc->_sign : o2.alb->_sign;
          run(c.cls == 1 ? "lccrev" : "albrev", A({ec, {hx(x), hx(y * sg)}})); stratum("kernel-reverse"); }
      }
    }
    if (c.cls != 0 && !inclass) { run(c.cls == 1 ? "lccinit" : "albinit", ec); stratum("kernel-init"); if (c.ss) { run("csetscale", ec); stratum("kernel-setscale"); } }
    // SetScale on an object whose scale was already changed (1-4 earlier calls)
    if (r.irange(0, 3) == 0) {
      Cfg ch = c; ch.ss = 0; int n = r.irange(2, 5); Args h = {std::to_string(n)}; bool polarcone = false; double sgn = 1;
      if (c.cls == 1) { Obj o; if (build(ch, o).empty()) { polarcone = o.lcc->_nc == 0; sgn = o.lcc->_sign; } }
      for (int j = 0; j < n; ++j) { double sl = r.irange(0, 3) ? r.range(-80, 80) : double(r.irange(-8, 8) * 10); if (c.cls == 0 && r.irange(0, 3) == 0) sl = 90; if (polarcone && r.irange(0, 2) == 0) sl = 90 * sgn;
                                    h.push_back(hx(sl)); h.push_back(hx(pickk(r))); }
      run("sshist", A({enc(ch), h, {hx(picklat(r, c)), hx(r.range(-80, 80)), hx(r.range(-89, 89)), hx(r.range(-170, 170))}})); stratum("setscale-history");
    }
    // the command-line front end
    if (c.cls != 0 && c.kind == 2 && r.irange(0, 2) == 0) {
      bool rev = r.coin(); double lon0, lon; picklon(r, lon0, lon); double u = picklat(r, c), v = lon; if (r.irange(0, 15) == 0) u = r.pick(std::vector<double>{91, -90.5, 1e3});
      if (rev) { Obj o; u = r.range(-1, 1) * 8e6 * (c.a / WGS84_a); v = r.range(-1, 1) * 8e6 * (c.a / WGS84_a); if (r.coin() && build(c, o, false).empty()) { double g, k; o.Fwd(true, lon0, picklat(r, c), lon, u, v, g, k); } }
      if (std::isfinite(u) && std::isfinite(v)) {
        run("conicproj", {std::to_string(c.cls), hx(c.a), hx(c.f), hx(c.p[0]), hx(c.p[1]), hx(c.k1), hx(lon0), std::to_string(int(rev)), std::to_string(int(r.coin())),
                          std::to_string(r.pick(std::vector<int>{6, 6, 0, 10, 3, 12, -2})), hx(u), hx(v)}); stratum("tool-ConicProj"); }
    }
    {
      double f = pickf(r), tphi = r.irange(0, 3) ? std::tan(r.range(-1.5707, 1.5707)) : (r.coin() ? 1 : -1) * std::pow(10.0, r.range(-10, 12));
      if (r.irange(0, 12) == 0) tphi = r.pick(std::vector<double>{0.0, 1.0, -1.0, 1e-300, 0.5773502691896257, 1.7320508075688772});
      run("ctxif", {hx(f), hx(tphi)});
      double y = r.irange(0, 2) ? r.range(-1, 1) : 1 - std::pow(10.0, -r.range(0, 12)), x = r.irange(0, 2) ? r.range(-1, y) : y - std::pow(10.0, -r.range(1, 12)) * (1 + y);
      if (r.irange(0, 5) == 0) x = y; if (x < -1) x = -1;
      // exact arguments: both at the pole (dx = dy = 0), one at the pole, the lower one 0 / -0 / +-tiny (the `x <= 0` test), swapped order
      switch (r.irange(0, 11)) { case 0: x = y = 1; break; case 1: y = 1; break; case 2: x = r.pick(std::vector<double>{0.0, -0.0, 5e-324, -5e-324, 1e-300}); y = std::fabs(y); break; case 3: std::swap(x, y); break; default: break; }
      double xm = r.irange(0, 2) ? (r.coin() ? 1 : -1) * std::pow(10.0, r.range(-20, -0.3)) : r.range(-0.9, 0.9); if (r.irange(0, 4) == 0) xm = nice_xm(r);
      run("cddat", {hx(f), hx(x), hx(y), hx(xm)}); stratum("albers-helpers");
    }
    run("cfgprops", A({ec, {hx(picklat(r, c)), hx(r.range(-80, 80)), hx(r.range(-89, 89)), hx(r.range(-170, 170))}})); stratum("cfg-" + st);
    // polar stereographic formula model and tauf/taupf
    {
      double f = pickf(r), k0 = pickk(r), lat = picklat(r, c), lon = nasty_angle(r); if (std::fabs(lon) > 1e6) lon = r.range(-180, 180);
      double pa = picka(r);
      int np = r.coin();
      run("psfwd", {hx(pa), hx(f), hx(k0), std::to_string(np), hx(lat), hx(lon)}); stratum("ps-forward-model");
      PolarStereographic p(pa, f, k0); double x, y; p.Forward(np, r.irange(0, 9) ? lat : 90.0 * (np ? 1 : -1), lon, x, y);
      if (std::isfinite(x) && std::isfinite(y)) { run("psrev", {hx(pa), hx(f), hx(k0), std::to_string(np), hx(x), hx(y)}); stratum("ps-reverse-model"); }
      double sl = r.irange(0, 4) ? r.range(-89.9, 90) : 90.0;
      run("pssetscale", {hx(pa), hx(f), hx(k0), hx(sl), hx(pickk(r))}); stratum("ps-setscale-model");
      double e2 = f * (2 - f), es = (f < 0 ? -1 : 1) * std::sqrt(std::fabs(e2));
      double tau = r.irange(0, 3) ? std::tan(r.range(-1.57, 1.57)) : (r.coin() ? 1 : -1) * std::pow(10.0, r.range(-12, 12));
      // the thresholds of tauf: |taup| > 70 (starting guess), |tau| >= 2/sqrt(eps) (early exit)
      if (r.irange(0, 9) == 0) { double v = r.pick(std::vector<double>{70.0, 2 / std::sqrt(EPS), 0.0, 1.0}); int j = r.irange(-2, 2); tau = (j < 0 ? nextdn(v, -j) : nextup(v, j)) * (r.coin() ? 1 : -1); }
      // e^2 so close to 1 that the low-order guess taup/(1 - e^2) exceeds 2/sqrt(eps) although |taup| <= 70 (the early exit repaired by b3c5a1d)
      if (r.irange(0, 19) == 0) { es = r.pick(std::vector<double>{0.9999999, 0.99999999, 1 - 1e-10}); tau = r.range(1, 70) * (r.coin() ? 1 : -1); }
      run("ctaupf", {hx(tau), hx(es)}); run("tauf", {hx(tau), hx(es)}); stratum("tauf-taupf");
    }
    // divided-difference helpers
    for (int w = 0; w <= 8; ++w) {
      double x, y, f = pickf(r);
      auto base = [&](double lo, double hi) { return r.range(lo, hi); };
      double lo = -5, hi = 5; if (w == 2) { lo = -0.9; hi = 20; } if (w == 6 || w == 7) { lo = -1; hi = 1; } if (w == 0 || w == 1 || w == 5 || w == 8) { lo = -1e3; hi = 1e3; }
      x = base(lo, hi); if (r.irange(0, 4) == 0) x = (r.coin() ? 1 : -1) * std::pow(10.0, r.range(-8, std::log10(hi)));
      if (w == 2 && x <= -1) x = 0.5;
      switch (r.irange(0, 6)) {
      case 0: y = x; break;
      case 1: y = nextup(x, r.irange(1, 4)); break;
      case 2: y = x + (r.coin() ? 1 : -1) * std::pow(10.0, -r.irange(3, 12)) * std::fmax(1e-3, std::fabs(x)); break;
      case 3: y = -x * r.range(0.5, 2); break;
      case 4: y = r.coin() ? 0.0 : -0.0; if (r.coin()) std::swap(x, y); break;     // the product x*y exactly 0 (the `t > 0`, `x*y < 0`, `x*y > 0` tests)
      default: y = base(lo, hi); break;
      }
      if (w == 2 && y <= -0.95) y = 0.25; if ((w == 6 || w == 7) && std::fabs(y) > 1) y = 1; if (w == 6 || w == 7) { if (std::fabs(x) > 1) x = 1; }
      run("cdd", {std::to_string(w), hx(x), hx(y), hx(f)}); stratum("divided-differences");
    }
    // constructor domain
    for (int j = 0; j < 3; ++j) {
      static const std::vector<double> ls = {90, -90, 0, 30, -24.57, 45, 89.99999, 91, -90.0000001, 100, 1e-300};
      double l1 = r.irange(0, 2) ? r.pick(ls) : r.range(-95, 95), l2 = r.irange(0, 2) ? r.pick(ls) : (r.coin() ? l1 : r.range(-95, 95));
      if (r.irange(0, 30) == 0) l1 = std::nan(""); if (r.irange(0, 30) == 0) l2 = INFINITY;
      double ea = r.irange(0, 9) ? WGS84_a : r.pick(std::vector<double>{0.0, -1.0, INFINITY, std::nan("")}), f = r.irange(0, 9) ? pickf(r) : r.pick(std::vector<double>{1.0, 2.0, std::nan(""), -INFINITY, 0.99, std::nextafter(1.0, 0.0)});
      double k = r.irange(0, 9) ? pickk(r) : r.pick(std::vector<double>{0.0, -1.0, INFINITY, std::nan("")});
      run("ctor", {std::to_string(r.irange(1, 2)), hx(ea), hx(f), hx(k), hx(l1), hx(l2)}); stratum("constructor-domain");
    }
  }
}
int main(int argc, char** argv) { return gv::main_(argc, argv); }
