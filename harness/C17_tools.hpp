// C17, part 6: the command-line front ends listed in the property's observe_at (tools/IntersectTool, tools/GeodesicProj).
// The tools are compiled from the *current* $GV_REPO/tools/*.cpp into this harness (same library build, same sanitizers),
// each in a namespace of its own; all headers they include are included first (include guards make the inner #includes no-ops).
//
// Ops (text fields as s:<hex>):
//   tl_ix  <mode c|o|n|i> <a> <f> <exact> <prec> <maxdist or -1> <wflag> s:<input line>   IntersectTool  -c / -o / -n / -i  [-R maxdist]
//   tl_pj  <proj z|c|g> <rev> <a> <f> <prec> <wflag> s:<lat0> s:<lon0> s:<input line>      GeodesicProj   -z / -c / -g lat0 lon0 [-r]
// Relation (#BAD): tool-output -- the line(s) printed by the tool are, character for character, the library's answer for
// the decoded input formatted with Utility::str at the requested precision (the decoding of the text is done here with the
// same DMS / Utility functions, so that only the tool's own wiring is judged: which API is called with which arguments, in
// which order the results are printed, the coincidence indicator, segmode, the terminating "nan nan 0 nan" line of -R,
// the -w longitude-first convention); tool-exit-status -- exit status 0 and no ERROR line for valid input.
#pragma once
#include "common.hpp"
#include <iostream>
#include <string>
#include <sstream>
#include <fstream>
#include <vector>
#include <GeographicLib/Geodesic.hpp>
#include <GeographicLib/GeodesicLine.hpp>
#include <GeographicLib/DMS.hpp>
#include <GeographicLib/Utility.hpp>
#include <GeographicLib/Intersect.hpp>
#include <GeographicLib/AzimuthalEquidistant.hpp>
#include <GeographicLib/CassiniSoldner.hpp>
#include <GeographicLib/Gnomonic.hpp>

namespace tool_intersect {
#include "../tools/IntersectTool.cpp"
}
namespace tool_geodproj {
#include "../tools/GeodesicProj.cpp"
}

namespace c17tools {
using namespace GeographicLib;
using gv::Args; using gv::hx; using gv::unhx; using gv::hs; using gv::unhs; using gv::emit; using gv::Reg; using gv::Rng;

inline void badx(const std::string& rel, std::string det) {
  for (size_t i = 0; i + 1 < det.size(); ++i) if (det[i] == ':' && det[i + 1] == ':') det[i + 1] = '.';
  for (auto& c : det) if ((unsigned char)c < 32 || (unsigned char)c > 126) c = '?';
  gv::bad(rel, det);
}
inline std::string g17(double x) { char b[40]; std::snprintf(b, sizeof b, "%.17g", x); return b; }

// run a tool's main with std::cin / cout / cerr redirected
template<class Main> int runMain(Main mainfn, const std::vector<std::string>& args, const std::string& input, std::string& output) {
  std::vector<const char*> argv; for (auto& s : args) argv.push_back(s.c_str());
  std::istringstream in(input); std::ostringstream out, err;
  std::streambuf *oi = std::cin.rdbuf(in.rdbuf()), *oo = std::cout.rdbuf(out.rdbuf()), *oe = std::cerr.rdbuf(err.rdbuf());
  std::cin.clear();
  int rc = -99; std::string ex;
  try { rc = mainfn(int(argv.size()), argv.data()); } catch (const std::exception& e) { ex = typeid(e).name(); } catch (...) { ex = "unknown"; }
  std::cin.rdbuf(oi); std::cout.rdbuf(oo); std::cerr.rdbuf(oe); std::cin.clear(); std::cout.clear(); std::cerr.clear();
  std::cout.unsetf(std::ios_base::floatfield);    // GeodesicProj sets std::fixed on the global stream
  output = out.str();
  if (!ex.empty()) { badx("tool-exception-escapes", args[0] + ": exception " + ex + " escaped main"); return -98; }
  return rc;
}
inline std::vector<std::string> words(const std::string& s) { std::istringstream is(s); std::vector<std::string> v; std::string t; while (is >> t) v.push_back(t); return v; }

static Reg r_ix("tl_ix", [](const Args& A) {
  char mode = A[0][0]; double a = unhx(A[1]), f = unhx(A[2]); int exact = std::atoi(A[3].c_str()), prec = std::atoi(A[4].c_str()); double maxdist = unhx(A[5]); bool w = std::atoi(A[6].c_str()) != 0;
  std::string line = unhs(A[7]);
  std::vector<std::string> args = {"IntersectTool", "-e", g17(a), g17(f), "-p", std::to_string(prec), std::string("-") + mode};
  if (exact) args.push_back("-E"); if (w) args.push_back("-w");
  if (maxdist >= 0) { args.push_back("-R"); args.push_back(g17(maxdist)); }
  std::string out; int rc = runMain(tool_intersect::main, args, line + "\n", out);
  emit(hs(out) + " " + std::to_string(rc));
  // the library's answer for the decoded input
  std::string want; std::string err = gv::guarded([&] {
    std::vector<std::string> t = words(line); Geodesic g(Utility::val<double>(g17(a)), Utility::fract<double>(g17(f)), exact != 0); Intersect in(g);
    GeodesicLine lX, lY; double x0 = 0, y0 = 0, la, lo, la2, lo2;
    if (mode == 'c' || mode == 'o') {
      DMS::DecodeLatLon(t.at(0), t.at(1), la, lo, w); double az = DMS::DecodeAzimuth(t.at(2)); lX = g.Line(la, lo, az, Intersect::LineCaps);
      DMS::DecodeLatLon(t.at(3), t.at(4), la, lo, w); az = DMS::DecodeAzimuth(t.at(5)); lY = g.Line(la, lo, az, Intersect::LineCaps);
      if (mode == 'o') { x0 = Utility::val<double>(t.at(6)); y0 = Utility::val<double>(t.at(7)); }
    } else if (mode == 'n') {
      DMS::DecodeLatLon(t.at(0), t.at(1), la, lo, w); lX = g.Line(la, lo, DMS::DecodeAzimuth(t.at(2)), Intersect::LineCaps); lY = g.Line(la, lo, DMS::DecodeAzimuth(t.at(3)), Intersect::LineCaps);
    } else {
      DMS::DecodeLatLon(t.at(0), t.at(1), la, lo, w); DMS::DecodeLatLon(t.at(2), t.at(3), la2, lo2, w); lX = g.InverseLine(la, lo, la2, lo2, Intersect::LineCaps);
      DMS::DecodeLatLon(t.at(4), t.at(5), la, lo, w); DMS::DecodeLatLon(t.at(6), t.at(7), la2, lo2, w); lY = g.InverseLine(la, lo, la2, lo2, Intersect::LineCaps);
      x0 = lX.Distance() / 2; y0 = lY.Distance() / 2;
    }
    Intersect::Point p0(x0, y0);
    if (maxdist < 0) {
      int c = 0, segmode = 0;
      Intersect::Point p = (mode == 'c' || mode == 'o') ? in.Closest(lX, lY, p0, &c) : mode == 'n' ? in.Next(lX, lY, &c) : in.Segment(lX, lY, segmode, &c);
      want = Utility::str(p.first, prec) + " " + Utility::str(p.second, prec) + " " + std::to_string(c) + (mode == 'i' ? " " + std::to_string(segmode) : "") + "\n";
    } else {
      std::vector<int> c; std::vector<Intersect::Point> v = in.All(lX, lY, maxdist, c, p0);
      for (size_t i = 0; i < v.size(); ++i) want += Utility::str(v[i].first, prec) + " " + Utility::str(v[i].second, prec) + " " + std::to_string(c[i]) + " " + Utility::str(Intersect::Dist(v[i], p0), prec) + "\n";
      want += "nan nan 0 nan\n";
    }
  });
  if (!err.empty()) { badx("tool-harness", "the reference computation threw " + err); return; }
  if (rc != 0) badx("tool-exit-status", "IntersectTool -" + std::string(1, mode) + " returned " + std::to_string(rc) + " for the valid line '" + line + "' (output '" + out + "')");
  else if (out != want) badx("tool-output", "IntersectTool -" + std::string(1, mode) + (maxdist >= 0 ? " -R" : "") + (w ? " -w" : "") + " prints '" + out + "', the library gives '" + want + "' for '" + line + "'");
});

static Reg r_pj("tl_pj", [](const Args& A) {
  char proj = A[0][0]; bool rev = std::atoi(A[1].c_str()) != 0; double a = unhx(A[2]), f = unhx(A[3]); int prec = std::atoi(A[4].c_str()); bool w = std::atoi(A[5].c_str()) != 0;
  std::string s0a = unhs(A[6]), s0b = unhs(A[7]), line = unhs(A[8]);
  std::vector<std::string> args = {"GeodesicProj", "-e", g17(a), g17(f), "-p", std::to_string(prec)};
  if (w) args.push_back("-w");                                   // before the centre: it applies to the decoding of lat0 lon0 too
  args.push_back(std::string("-") + proj); args.push_back(s0a); args.push_back(s0b);
  if (rev) args.push_back("-r");
  std::string out; int rc = runMain(tool_geodproj::main, args, line + "\n", out);
  emit(hs(out) + " " + std::to_string(rc));
  std::string want; std::string err = gv::guarded([&] {
    std::vector<std::string> t = words(line); Geodesic g(Utility::val<double>(g17(a)), Utility::fract<double>(g17(f))); double lat0, lon0; DMS::DecodeLatLon(s0a, s0b, lat0, lon0, w);
    int pr = std::min(10, std::max(0, prec));
    double lat, lon, x, y, azi, rk;
    if (rev) {
      x = Utility::val<double>(t.at(0)); y = Utility::val<double>(t.at(1));
      if (proj == 'c') CassiniSoldner(lat0, lon0, g).Reverse(x, y, lat, lon, azi, rk);
      else if (proj == 'z') AzimuthalEquidistant(g).Reverse(lat0, lon0, x, y, lat, lon, azi, rk);
      else Gnomonic(g).Reverse(lat0, lon0, x, y, lat, lon, azi, rk);
      want = Utility::str(w ? lon : lat, pr + 5) + " " + Utility::str(w ? lat : lon, pr + 5) + " " + Utility::str(azi, pr + 5) + " " + Utility::str(rk, pr + 6) + "\n";
    } else {
      DMS::DecodeLatLon(t.at(0), t.at(1), lat, lon, w);
      if (proj == 'c') CassiniSoldner(lat0, lon0, g).Forward(lat, lon, x, y, azi, rk);
      else if (proj == 'z') AzimuthalEquidistant(g).Forward(lat0, lon0, lat, lon, x, y, azi, rk);
      else Gnomonic(g).Forward(lat0, lon0, lat, lon, x, y, azi, rk);
      want = Utility::str(x, pr) + " " + Utility::str(y, pr) + " " + Utility::str(azi, pr + 5) + " " + Utility::str(rk, pr + 6) + "\n";
    }
  });
  if (!err.empty()) { badx("tool-harness", "the reference computation threw " + err); return; }
  if (rc != 0) badx("tool-exit-status", "GeodesicProj -" + std::string(1, proj) + " returned " + std::to_string(rc) + " for the valid line '" + line + "' (output '" + out + "')");
  else if (out != want) badx("tool-output", "GeodesicProj -" + std::string(1, proj) + (rev ? " -r" : "") + (w ? " -w" : "") + " prints '" + out + "', the library gives '" + want + "' for '" + line + "'");
});

inline std::string fx(double v, int d) { char b[48]; std::snprintf(b, sizeof b, "%.*f", d, v); return b; }

inline void generate(Rng& r, bool thorough, int K = 1) {
  auto Q = [&](long v) { return std::max<long>(1, v / K); };   // K slices: the orchestrating generate() runs the parts round-robin

  int N = int(Q(thorough ? 4000 : 500));
  const double W = 1 / 298.257223563;
  for (int i = 0; i < N; ++i) {
    double a = 6378137, f = r.irange(0, 3) ? W : r.pick(std::vector<double>{0, 0.01, -0.01, 1 / 150.0}); int exact = r.irange(0, 4) == 0;
    bool w = r.irange(0, 3) == 0; int prec = r.pick(std::vector<int>{3, 3, 0, 6, 9});
    auto ll = [&](double lat, double lon) { return w ? fx(lon, 7) + " " + fx(lat, 7) : fx(lat, 7) + " " + fx(lon, 7); };
    auto rlat = [&]() { return r.irange(0, 9) ? r.range(-89, 89) : r.pick(std::vector<double>{0, 90, -90, 45}); };
    auto rlon = [&]() { return r.irange(0, 9) ? r.range(-180, 180) : r.pick(std::vector<double>{0, 180, -180, 90}); };
    auto razi = [&]() { return r.irange(0, 5) ? r.range(-180, 180) : r.pick(std::vector<double>{0, 90, -90, 180, 45}); };
    { // IntersectTool
      int k = r.irange(0, 9); char mode = k < 3 ? 'c' : k < 5 ? 'o' : k < 7 ? 'n' : 'i'; std::string line;
      double lat = rlat(), lon = rlon();
      if (mode == 'c' || mode == 'o') {
        bool same = r.irange(0, 3) == 0; line = ll(lat, lon) + " " + fx(razi(), 6) + " " + (same ? ll(lat, lon) : ll(rlat(), rlon())) + " " + fx(razi(), 6);
        if (mode == 'o') line += " " + fx(r.range(-3e7, 3e7), 3) + " " + fx(r.range(-3e7, 3e7), 3);
      } else if (mode == 'n') { double az = razi(); line = ll(lat, lon) + " " + fx(az, 6) + " " + fx(r.irange(0, 5) ? razi() : az, 6); }
      else { line = ll(rlat(), rlon()) + " " + ll(rlat(), rlon()) + " " + ll(rlat(), rlon()) + " " + ll(rlat(), rlon());
             if (r.irange(0, 3) == 0) line = ll(0, 10) + " " + ll(0, 50) + " " + ll(0, r.irange(0, 60)) + " " + ll(0, r.irange(61, 120)); }
      double maxdist = r.irange(0, 2) == 0 && mode != 'i' ? 2 * Math::pi() * a * r.range(0, 1.2) : -1;
      if (mode == 'i' && r.irange(0, 4) == 0) maxdist = 2 * Math::pi() * a * r.range(0, 0.6);
      gv::stratum(std::string("tool:IntersectTool-") + mode + (maxdist >= 0 ? "-R" : ""));
      gv::run("tl_ix", {std::string(1, mode), hx(a), hx(f), std::to_string(exact), std::to_string(prec), hx(maxdist), std::to_string(int(w)), hs(line)}); if (i < 1) gv::sample(gv::current_op());
    }
    { // GeodesicProj
      char proj = "zcg"[r.irange(0, 2)]; bool rev = r.coin(); double lat0 = rlat(), lon0 = rlon();
      std::string c0 = ll(lat0, lon0), line = rev ? fx(r.range(-5e6, 5e6), 3) + " " + fx(r.range(-5e6, 5e6), 3) : ll(rlat(), rlon());
      std::vector<std::string> c0w = words(c0);
      gv::stratum(std::string("tool:GeodesicProj-") + proj + (rev ? "-r" : ""));
      gv::run("tl_pj", {std::string(1, proj), std::to_string(int(rev)), hx(a), hx(f), std::to_string(prec), std::to_string(int(w)), hs(c0w[0]), hs(c0w[1]), hs(line)});
    }
  }
}
} // namespace c17tools
