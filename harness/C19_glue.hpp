// C19, second deepening round: the glue around the proved core.
//   gvacc  GravityModel metadata accessors, Phi, U, W = V + Phi, Circle(lat, h, caps) for every combination of the documented masks
//          (Capabilities(), Capabilities(test), every member either NaN or equal to the all-capabilities circle), GravityCircle accessors,
//          default-constructed GravityCircle / CircularEngine, DynamicalFormFactor / fraction forms in the metadata
//   mgacc  MagneticModel metadata accessors (MinTime ... MaxHeight, Description ...), MagneticCircle accessors and FieldGeocentric(lon),
//          both FieldComponents overloads, default-constructed MagneticCircle
//   fcomp  FieldComponents against its definition (long double) incl. the degenerate branches H = 0, F = 0; Lean model
//   gzon   the normal zonal terms GravityModel subtracts (_zonal, _dzonal0) for both normalisations; Lean model of the constructor loop
//   paths  DefaultGravityPath/Name, DefaultMagneticPath/Name under every combination of the environment variables; constructors with an
//          empty / explicit path; error cases of the file lookup and of the metadata; Lean model of the lookup order
//   rdco   SphericalEngine::coeff::readcoeffs directly on a stream of two blocks, truncate = false / true; Lean model
//   shctor the simple constructors of SphericalHarmonic/1/2 (C, S, N[, C1, S1, N1[, C2, S2, N2]]), Coefficients/1/2 accessors, vectors longer
//          than needed, N1 > N rejected, default-constructed objects
//   roots  the static square-root table: a degree-N evaluation after a smaller one (table grown in steps), after RootTable(huge), and after
//          ClearRootTable + reconstruction gives the same bits as in a fresh process (forked child)
//   ngv    NormalGravity::V0, Phi, U = V0 + Phi (value and gradient), accessors, GravityFlattening, default-constructed object
//   gravtool / magtool   tools/Gravity.cpp and tools/MagneticField.cpp of the current tree, run in-process on synthetic model files
// Included from C19.cpp after its helpers (fmt, sci, tmpdir, put, app32, appd, fill, GeoPt, geopt, toenu, sincosdl).
#pragma once

// ------------------------------------------------------------------------------------------------------------------
// synthetic model files
// ------------------------------------------------------------------------------------------------------------------
struct EgmSpec {
  std::string file, name, desc, date, id = "SYNTHGRV";
  double amodel = 6378136.3, GMmodel = 3.986004415e14, omega = 7292115e-11, aref = 6378137, GMref = 3.986004418e14, fl = 1 / 298.257223563, J2 = 0, zeta0 = 0, corrmult = 1;
  bool useJ2 = false, full = true, flAsFraction = false;
  int N = 0, M = 0, NC = -1, MC = -1; CSet s, cr;
  std::string extra;     // further metadata lines
};
static std::string egmFlatteningText(const EgmSpec& e) {
  if (!e.flAsFraction) return fmt(e.fl);
  return "1/" + fmt(1 / e.fl);
}
static double egmFlatteningValue(const EgmSpec& e) { if (!e.flAsFraction) return e.fl; double den = std::strtod(fmt(1 / e.fl).c_str(), nullptr); return 1 / den; }
static void makeEgmCoeffs(Rng& r, EgmSpec& e) {
  e.s.N = e.N; e.s.nmx = e.N; e.s.mmx = e.M; fill(r, e.s, e.M, 2);
  for (double& v : e.s.C) v *= 2e-5; for (double& v : e.s.S) v *= 2e-5;
  e.s.C[0] = 0; if (e.N >= 1) e.s.C[1] = 0; if (e.N >= 1 && e.M >= 1) { e.s.C[size_t(cidx(e.N, 1, 1))] = 0; e.s.S[size_t(cidx(e.N, 1, 1) - (e.N + 1))] = 0; }
  e.cr.N = e.NC; e.cr.nmx = e.NC; e.cr.mmx = e.MC; fill(r, e.cr, e.MC, 2); for (double& v : e.cr.C) v *= 0.5; for (double& v : e.cr.S) v *= 0.5;
}
static void writeEgm(const std::string& dir, const EgmSpec& e) {
  std::string cof = e.id; app32(cof, e.N); app32(cof, e.M); for (double v : e.s.C) appd(cof, v); for (double v : e.s.S) appd(cof, v);
  app32(cof, e.NC); app32(cof, e.MC); for (double v : e.cr.C) appd(cof, v); for (double v : e.cr.S) appd(cof, v);
  std::string meta = "EGMF-1\n# synthetic gravity model\nName " + e.name + "\nDescription " + e.desc + "\nReleaseDate " + e.date + "\nModelRadius " + fmt(e.amodel) + "\nModelMass " + fmt(e.GMmodel) +
    "\nAngularVelocity " + fmt(e.omega) + "\nReferenceRadius " + fmt(e.aref) + "\nReferenceMass " + fmt(e.GMref) + "\n" +
    (e.useJ2 ? "DynamicalFormFactor " + fmt(e.J2) : "Flattening " + egmFlatteningText(e)) + "\nHeightOffset " + fmt(e.zeta0) + "\nCorrectionMultiplier " + fmt(e.corrmult) +
    "\nNormalization " + (e.full ? "full" : "schmidt") + "\nByteOrder little\nID " + e.id + "\n" + e.extra;
  put(dir + "/" + e.file + ".egm", meta); put(dir + "/" + e.file + ".egm.cof", cof);
}
static void removeEgm(const std::string& dir, const std::string& file) { std::remove((dir + "/" + file + ".egm").c_str()); std::remove((dir + "/" + file + ".egm.cof").c_str()); }

struct WmmSpec {
  std::string file, name, desc, date, id = "SYNTHMAG";
  double rad = 6371200, t0 = 2020, dt0 = 5, tmin = 2020, tmax = 2030, hmin = -1000, hmax = 850000;
  int nmod = 1, ncon = 0, N = 4, M = 4; bool full = false; int version = 2;
  std::vector<CSet> blk;
  std::string extra;
};
static void makeWmmCoeffs(Rng& r, WmmSpec& w, bool varySizes) {
  int nb = w.nmod + 1 + w.ncon; w.blk.assign(size_t(nb), CSet());
  for (int i = 0; i < nb; ++i) {
    CSet& s = w.blk[size_t(i)];
    s.N = std::max(0, w.N - (varySizes && r.irange(0, 3) == 0 ? r.irange(0, 2) : 0)); int Mi = std::min(s.N, std::max(0, w.M - (varySizes && r.irange(0, 3) == 0 ? r.irange(0, 2) : 0)));
    s.nmx = s.N; s.mmx = Mi; fill(r, s, Mi, i < w.nmod ? 2 : 0);
    double amp = i < w.nmod ? 30000.0 : (i == w.nmod ? 80.0 : 500.0);
    for (double& v : s.C) v *= amp; for (double& v : s.S) v *= amp;
    s.C[0] = 0;
  }
}
static void writeWmm(const std::string& dir, const WmmSpec& w) {
  std::string cof = w.id;
  for (const CSet& s : w.blk) { app32(cof, s.N); app32(cof, s.mmx); for (double v : s.C) appd(cof, v); for (double v : s.S) appd(cof, v); }
  std::string meta = "WMMF-" + std::to_string(w.version) + "\n# synthetic magnetic model\nName " + w.name + "\nDescription " + w.desc + "\nReleaseDate " + w.date + "\nRadius " + fmt(w.rad) + "\nType Linear\nEpoch " + fmt(w.t0) +
    "\nDeltaEpoch " + fmt(w.dt0) + "\nNumModels " + std::to_string(w.nmod) + "\nNumConstants " + std::to_string(w.ncon) + "\nMinTime " + fmt(w.tmin) + "\nMaxTime " + fmt(w.tmax) + "\nMinHeight " + fmt(w.hmin) +
    "\nMaxHeight " + fmt(w.hmax) + "\nNormalization " + (w.full ? "full" : "schmidt") + "\nByteOrder little\nID " + w.id + "\n" + w.extra;
  put(dir + "/" + w.file + ".wmm", meta); put(dir + "/" + w.file + ".wmm.cof", cof);
}
static void removeWmm(const std::string& dir, const std::string& file) { std::remove((dir + "/" + file + ".wmm").c_str()); std::remove((dir + "/" + file + ".wmm.cof").c_str()); }

static bool sameD(double a, double b) { return bits(a) == bits(b) || (std::isnan(a) && std::isnan(b)); }
static bool nearU(double got, LD want, double ulps, double scale) { return std::fabs(double((LD)got - want)) <= ulps * 1.2e-16 * scale + 1e-300; }

// ------------------------------------------------------------------------------------------------------------------
// op: gvacc seed norm N M dgm(hex) fl(hex) flmode(0 decimal, 1 fraction, 2 J2) lat lon h Nmax Mmax
// ------------------------------------------------------------------------------------------------------------------
struct GCirc { double W, g[3], T, d[3], Tp, TX, dX[3], Wc, gc[3], Vc, Gc[3], geoid, Dg01, xi, eta; };
static void evalCircle(const GravityCircle& c, double lon, GCirc& q) {
  q.W = c.Gravity(lon, q.g[0], q.g[1], q.g[2]); q.T = c.Disturbance(lon, q.d[0], q.d[1], q.d[2]);
  q.Tp = c.T(lon); q.TX = c.T(lon, q.dX[0], q.dX[1], q.dX[2]);
  q.Wc = c.W(lon, q.gc[0], q.gc[1], q.gc[2]); q.Vc = c.V(lon, q.Gc[0], q.Gc[1], q.Gc[2]);
  q.geoid = c.GeoidHeight(lon); c.SphericalAnomaly(lon, q.Dg01, q.xi, q.eta);
}
static Reg r_gvacc("gvacc", [](const Args& a) {
  uint64_t seed = std::strtoull(a[0].c_str(), nullptr, 10); Rng r(seed * 6700417 + 3);
  EgmSpec e; e.full = toi(a[1]) == 0; e.N = toi(a[2]); e.M = toi(a[3]); double dgm = unhx(a[4]); e.fl = unhx(a[5]); int flmode = toi(a[6]);
  double lat = unhx(a[7]), lon = unhx(a[8]), h = unhx(a[9]); int Nmax = toi(a[10]), Mmax = toi(a[11]);
  e.GMmodel = e.GMref * (1 + dgm); e.flAsFraction = flmode == 1; e.useJ2 = flmode == 2;
  e.omega = r.pick(std::vector<double>{7292115e-11, 7.29e-5, 1e-4, 0.0}); e.amodel = r.pick(std::vector<double>{6378136.3, 6378137.0, 6.4e6});
  e.aref = r.pick(std::vector<double>{6378137.0, 6378136.0}); e.zeta0 = r.pick(std::vector<double>{0.0, -0.41, 0.53}); e.corrmult = r.pick(std::vector<double>{1.0, 0.01, 2.0});
  e.NC = r.irange(0, 2) ? r.irange(0, 6) : -1; e.MC = e.NC < 0 ? -1 : r.irange(0, e.NC);
  if (e.useJ2) { NormalOracle no(e.aref, e.GMref, e.omega, e.fl); e.J2 = double(no.J2any()); }
  e.file = "gf" + std::to_string(seed % 100000); e.name = "gname" + std::to_string(seed % 977);
  e.desc = r.pick(std::vector<std::string>{"synthetic gravity model, several words", "x", "A  B\tC", "Earth Gravity Model 2099 (test) = not real"});
  e.date = r.pick(std::vector<std::string>{"2026-01-01", "2099-12-31 23:59:59", "unknown date"});
  e.extra = r.coin() ? "UnknownKey some value\n#Name commented-out\n" : "";
  makeEgmCoeffs(r, e);
  std::string dir = tmpdir(); writeEgm(dir, e);
  static const unsigned named[6] = {GravityModel::GRAVITY, GravityModel::DISTURBANCE, GravityModel::DISTURBING_POTENTIAL, GravityModel::SPHERICAL_ANOMALY, GravityModel::GEOID_HEIGHT, GravityModel::ALL};
  std::string out; int nbad = 0;
  auto fail = [&](const char* rel, const std::string& what) { if (nbad++ < 6) bad(rel, what); };
  std::string ex = guarded([&] {
    GravityModel gm(e.file, dir, Nmax, Mmax);
    // ---- metadata accessors echo the file
    auto eqs = [&](const char* what, const std::string& got, const std::string& want) { if (got != want) fail("grav-accessor", std::string(what) + " returns '" + got + "', the file says '" + want + "'"); };
    auto eqd = [&](const char* what, double got, double want) { if (!sameD(got, want)) fail("grav-accessor", std::string(what) + " returns " + fmt(got) + ", the file says " + fmt(want)); };
    eqs("Description()", gm.Description(), Utility::trim(e.desc)); eqs("DateTime()", gm.DateTime(), e.date); eqs("GravityModelName()", gm.GravityModelName(), e.name);
    eqs("GravityFile()", gm.GravityFile(), dir + "/" + e.file + ".egm"); eqs("GravityModelDirectory()", gm.GravityModelDirectory(), dir);
    double fexp = e.useJ2 ? NormalGravity::J2ToFlattening(e.aref, e.GMref, e.omega, e.J2) : egmFlatteningValue(e);
    eqd("EquatorialRadius()", gm.EquatorialRadius(), e.aref); eqd("MassConstant()", gm.MassConstant(), e.GMmodel); eqd("ReferenceMassConstant()", gm.ReferenceMassConstant(), e.GMref);
    eqd("AngularVelocity()", gm.AngularVelocity(), e.omega); eqd("Flattening()", gm.Flattening(), fexp);
    eqd("ReferenceEllipsoid().EquatorialRadius()", gm.ReferenceEllipsoid().EquatorialRadius(), e.aref); eqd("ReferenceEllipsoid().MassConstant()", gm.ReferenceEllipsoid().MassConstant(), e.GMref);
    eqd("ReferenceEllipsoid().AngularVelocity()", gm.ReferenceEllipsoid().AngularVelocity(), e.omega);
    if (e.useJ2) eqd("ReferenceEllipsoid().DynamicalFormFactor()", gm.ReferenceEllipsoid().DynamicalFormFactor(), e.J2);
    {  // Degree() / Order(): the maximum over the gravitational and the correction sums after truncation
      bool trunc = Nmax >= 0 || Mmax >= 0; int NmaxE = 1 << 30, MmaxE = 1 << 30;
      if (trunc) { NmaxE = Nmax; MmaxE = Mmax; if (Nmax >= 0 && Mmax < 0) MmaxE = Nmax; if (Nmax < 0) NmaxE = 1 << 30; if (MmaxE < 0) MmaxE = 1 << 30; }
      int dn = std::max(std::min(e.N, NmaxE), e.NC < 0 ? 0 : std::min(e.NC, NmaxE)), dm = std::max(std::min(e.M, MmaxE), e.NC < 0 ? 0 : std::min(e.MC, MmaxE));
      if (gm.Degree() != dn || gm.Order() != dm) fail("grav-accessor", "Degree()/Order() = " + std::to_string(gm.Degree()) + "," + std::to_string(gm.Order()) + " expected " + std::to_string(dn) + "," + std::to_string(dm));
    }
    // ---- Phi, U, W = V + Phi at the point
    double X, Y, Z; gm.ReferenceEllipsoid().Earth().Forward(lat, lon, h, X, Y, Z);
    double fX = 0, fY = 0, phi = gm.Phi(X, Y, fX, fY);
    LD om2 = (LD)e.omega * e.omega, wphi = om2 * ((LD)X * X + (LD)Y * Y) / 2;
    if (!nearU(phi, wphi, 4, double(wphi)) || !nearU(fX, om2 * X, 4, double(om2 * fabsl(X))) || !nearU(fY, om2 * Y, 4, double(om2 * fabsl(Y))))
      fail("grav-Phi", "Phi(X, Y) = " + fmt(phi) + " grad " + fmt(fX) + "," + fmt(fY) + " vs omega^2 (X^2 + Y^2)/2 = " + fmt(double(wphi)) + " grad " + fmt(double(om2 * X)) + "," + fmt(double(om2 * Y)));
    double ux, uy, uz, vx, vy, vz, U = gm.U(X, Y, Z, ux, uy, uz), U2 = gm.ReferenceEllipsoid().U(X, Y, Z, vx, vy, vz);
    if (!sameD(U, U2) || !sameD(ux, vx) || !sameD(uy, vy) || !sameD(uz, vz)) fail("grav-U", "GravityModel::U differs from ReferenceEllipsoid().U");
    double gx, gy, gz, Gx, Gy, Gz, W = gm.W(X, Y, Z, gx, gy, gz), V = gm.V(X, Y, Z, Gx, Gy, Gz);
    double sW = std::fabs(V) + std::fabs(phi), sg = std::fabs(Gx) + std::fabs(Gy) + std::fabs(fX) + std::fabs(fY);
    if (!nearU(W, (LD)V + phi, 4, sW) || !nearU(gx, (LD)Gx + fX, 4, sg) || !nearU(gy, (LD)Gy + fY, 4, sg) || !sameD(gz, Gz))
      fail("grav-W-is-V-plus-Phi", "W = " + fmt(W) + " grad " + fmt(gx) + "," + fmt(gy) + "," + fmt(gz) + " vs V + Phi = " + fmt(V + phi) + " grad " + fmt(Gx + fX) + "," + fmt(Gy + fY) + "," + fmt(Gz));
    // T = W - U and delta = grad W - grad U as documented (the normal zonal terms beyond the model degree are the only difference)
    {
      double tx, ty, tz, T = gm.T(X, Y, Z, tx, ty, tz), Tp = gm.T(X, Y, Z);
      double R = std::hypot(std::hypot(X, Y), Z); int Ne = gm._gravitational.Coefficients().nmx(), k2 = (Ne / 2) * 2 + 2;
      NormalOracle no(e.aref, e.GMref, e.omega, gm.Flattening());
      double tail = double(8 * (LD)e.GMref / R * powl(fabsl(no.e2), k2 / 2) * powl((LD)e.aref / R, k2)), tolT = 1e-11 * (std::fabs(W) + std::fabs(U)) + tail, told = 1e-11 * (std::fabs(gz) + std::fabs(uz) + std::fabs(gx) + std::fabs(ux) + std::fabs(gy) + std::fabs(uy)) + tail * (k2 + 1) / R;
      if (!(std::fabs(T - (W - U)) <= tolT && std::fabs(Tp - (W - U)) <= tolT)) fail("grav-T-is-W-minus-U", "T(X,Y,Z[,delta]) = " + fmt(Tp) + "," + fmt(T) + " vs W - U = " + fmt(W - U) + " tol " + sci(tolT));
      if (!(std::fabs(tx - (gx - ux)) <= told && std::fabs(ty - (gy - uy)) <= told && std::fabs(tz - (gz - uz)) <= told)) fail("grav-delta-is-g-minus-gamma", "delta = " + fmt(tx) + "," + fmt(ty) + "," + fmt(tz) + " vs grad W - grad U = " + fmt(gx - ux) + "," + fmt(gy - uy) + "," + fmt(gz - uz) + " tol " + sci(told));
    }
    // ---- circles with every combination of the documented capability masks
    GravityCircle call = gm.Circle(lat, h); GCirc qa; evalCircle(call, lon, qa);
    GravityCircle cdef = gm.Circle(lat, h, GravityModel::ALL); GCirc qd; evalCircle(cdef, lon, qd);
    if (std::memcmp(&qa, &qd, sizeof qa) != 0 && !(std::isnan(qa.geoid) && std::isnan(qd.geoid))) fail("gravcircle-caps", "Circle(lat, h) differs from Circle(lat, h, ALL)");
    if (!call.Init() || !sameD(call.Latitude(), Math::LatFix(lat)) || !sameD(call.Height(), h) || !sameD(call.EquatorialRadius(), e.aref) || !sameD(call.Flattening(), gm.Flattening()))
      fail("gravcircle-accessor", "Init/Latitude/Height/EquatorialRadius/Flattening = " + std::to_string(call.Init()) + "," + fmt(call.Latitude()) + "," + fmt(call.Height()) + "," + fmt(call.EquatorialRadius()) + "," + fmt(call.Flattening()));
    unsigned hmask = h != 0 ? ~(GravityModel::CAP_GAMMA0 | GravityModel::CAP_C) : ~0U;
    for (unsigned sub = 0; sub < 64; ++sub) {
      unsigned caps = 0; for (int j = 0; j < 6; ++j) if (sub >> j & 1) caps |= named[j];
      unsigned expc = caps & hmask;
      GravityCircle c = gm.Circle(lat, h, caps); GCirc q; evalCircle(c, lon, q);
      std::string cs = "caps=" + std::to_string(caps) + (h != 0 ? " (h != 0)" : "");
      if (c.Capabilities() != expc) fail("gravcircle-caps", cs + ": Capabilities() = " + std::to_string(c.Capabilities()) + " expected " + std::to_string(expc));
      for (int j = 0; j < 6; ++j) if (c.Capabilities(named[j]) != ((expc & named[j]) == named[j])) fail("gravcircle-caps", cs + ": Capabilities(" + std::to_string(named[j]) + ") = " + std::to_string(c.Capabilities(named[j])));
      if (!c.Capabilities(0U)) fail("gravcircle-caps", cs + ": Capabilities(NONE) is false");
      auto member = [&](const char* nm, unsigned need, std::initializer_list<std::pair<double, double>> vals) {
        bool sup = (expc & need) == need; double sc = 0; for (auto& v : vals) sc = std::fmax(sc, std::fabs(v.second));
        for (auto& v : vals) {
          if (!sup) { if (!std::isnan(v.first)) { fail("gravcircle-caps", cs + ": " + nm + " is not enabled but returns " + fmt(v.first) + " (documented: NaN)"); break; } }
          else if (!(std::fabs(v.first - v.second) <= 64 * 1.2e-16 * sc) && !(std::isnan(v.first) && std::isnan(v.second))) { fail("gravcircle-caps", cs + ": " + nm + " is enabled and returns " + fmt(v.first) + ", the all-capabilities circle " + fmt(v.second)); break; }
        }
      };
      member("Gravity", GravityModel::GRAVITY, {{q.W, qa.W}, {q.g[0], qa.g[0]}, {q.g[1], qa.g[1]}, {q.g[2], qa.g[2]}});
      member("W", GravityModel::GRAVITY, {{q.Wc, qa.Wc}, {q.gc[0], qa.gc[0]}, {q.gc[1], qa.gc[1]}, {q.gc[2], qa.gc[2]}});
      member("V", GravityModel::GRAVITY, {{q.Vc, qa.Vc}, {q.Gc[0], qa.Gc[0]}, {q.Gc[1], qa.Gc[1]}, {q.Gc[2], qa.Gc[2]}});
      member("Disturbance", GravityModel::DISTURBANCE, {{q.T, qa.T}, {q.d[0], qa.d[0]}, {q.d[1], qa.d[1]}, {q.d[2], qa.d[2]}});
      member("T(lon, delta)", GravityModel::DISTURBANCE, {{q.TX, qa.TX}, {q.dX[0], qa.dX[0]}, {q.dX[1], qa.dX[1]}, {q.dX[2], qa.dX[2]}});
      member("T(lon)", GravityModel::DISTURBING_POTENTIAL, {{q.Tp, qa.Tp}});
      member("SphericalAnomaly", GravityModel::SPHERICAL_ANOMALY, {{q.Dg01, qa.Dg01}, {q.xi, qa.xi}, {q.eta, qa.eta}});
      member("GeoidHeight", GravityModel::GEOID_HEIGHT, {{q.geoid, qa.geoid}});
    }
    if (h != 0 && !std::isnan(qa.geoid)) fail("gravcircle-caps", "GeoidHeight of a circle with h != 0 returns " + fmt(qa.geoid) + " (documented: GEOID_HEIGHT is honoured only for h = 0)");
    if (h == 0 && std::isnan(qa.geoid) && std::isfinite(gm.GeoidHeight(lat, lon))) fail("gravcircle-caps", "GeoidHeight of the all-capabilities circle at h = 0 is NaN");
    // ---- default-constructed objects
    GravityCircle c0; if (c0.Init() || !std::isnan(c0.EquatorialRadius()) || !std::isnan(c0.Flattening()) || !std::isnan(c0.Latitude()) || !std::isnan(c0.Height())) fail("gravcircle-accessor", "default-constructed GravityCircle claims to be initialised");
    CircularEngine ce; double cx = 1, cy = 1, cz = 1, cv = ce(lon, cx, cy, cz), cv2 = ce(lon), cv3 = ce(0.6, 0.8), cv4 = ce(0.6, 0.8, cx, cy, cz);
    if (cv != 0 || cv2 != 0 || cv3 != 0 || cv4 != 0 || cx != 0 || cy != 0 || cz != 0) fail("circle-default", "a default-constructed CircularEngine (empty sum) returns " + fmt(cv) + " grad " + fmt(cx) + "," + fmt(cy) + "," + fmt(cz));
    out = hx(phi) + " " + hx(W) + " " + hx(V) + " " + hx(U) + " " + std::to_string(gm.Degree()) + " " + std::to_string(gm.Order());
    {  // move construction and move assignment keep the model (the harmonic objects hold iterators into the coefficient vectors)
      double g0[3], g1[3], g2[3], W0 = gm.Gravity(lat, lon, h, g0[0], g0[1], g0[2]), T0 = gm.T(X, Y, Z);
      GravityModel moved(std::move(gm)); double W1 = moved.Gravity(lat, lon, h, g1[0], g1[1], g1[2]), T1 = moved.T(X, Y, Z);
      GravityModel other(e.file, dir, 0, 0); other = std::move(moved); double W2 = other.Gravity(lat, lon, h, g2[0], g2[1], g2[2]), T2 = other.T(X, Y, Z);
      if (!sameD(W0, W1) || !sameD(W0, W2) || !sameD(T0, T1) || !sameD(T0, T2) || !sameD(g0[2], g1[2]) || !sameD(g0[2], g2[2]) || other.Description() != Utility::trim(e.desc) || !sameD(other.MassConstant(), e.GMmodel))
        fail("grav-move", "a move-constructed / move-assigned GravityModel evaluates differently: W " + fmt(W0) + " / " + fmt(W1) + " / " + fmt(W2) + ", T " + fmt(T0) + " / " + fmt(T1) + " / " + fmt(T2));
    }
  });
  removeEgm(dir, e.file);
  if (!ex.empty()) { emit(ex); bad("grav-load", "a well-formed synthetic model was rejected: " + ex); return; }
  emit(out);
});

// ------------------------------------------------------------------------------------------------------------------
// op: gcaps caps(0..63, raw bits) hzero(0/1)  -- the capability bookkeeping against the Lean model: Capabilities() and which members return a number
// ------------------------------------------------------------------------------------------------------------------
static Reg r_gcaps("gcaps", [](const Args& a) {
  unsigned caps = unsigned(toi(a[0])); bool hz = toi(a[1]) != 0;
  Rng r(4242); EgmSpec e; e.N = e.M = 4; e.NC = 2; e.MC = 1; e.GMmodel = e.GMref * (1 + 1e-5); e.file = "gcaps"; e.name = "gcaps"; e.desc = "caps"; e.date = "d"; makeEgmCoeffs(r, e);
  std::string dir = tmpdir(); writeEgm(dir, e); std::string out;
  std::string ex = guarded([&] {
    GravityModel gm(e.file, dir); GravityCircle c = gm.Circle(33.0, hz ? 0.0 : 1234.5, caps); GCirc q; evalCircle(c, 17.0, q);
    auto num3 = [](double p, const double v[3]) { bool n0 = std::isnan(p), n1 = std::isnan(v[0]), n2 = std::isnan(v[1]), n3 = std::isnan(v[2]); return (n0 == n1 && n1 == n2 && n2 == n3) ? (n0 ? 0 : 1) : 2; };
    double an[3] = {q.Dg01, q.xi, q.eta};
    out = std::to_string(c.Capabilities()) + " " + std::to_string(num3(q.W, q.g)) + " " + std::to_string(num3(q.Wc, q.gc)) + " " + std::to_string(num3(q.Vc, q.Gc)) + " " + std::to_string(num3(q.T, q.d)) + " " +
      std::to_string(num3(q.TX, q.dX)) + " " + std::to_string(std::isnan(q.Tp) ? 0 : 1) + " " + std::to_string(num3(q.Dg01, an)) + " " + std::to_string(std::isnan(q.geoid) ? 0 : 1);
  });
  removeEgm(dir, e.file);
  emit(ex.empty() ? out : ex);
});

// ------------------------------------------------------------------------------------------------------------------
// op: mgacc seed norm nmod ncon N M t lat lon h Nmax Mmax
// ------------------------------------------------------------------------------------------------------------------
static Reg r_mgacc("mgacc", [](const Args& a) {
  uint64_t seed = std::strtoull(a[0].c_str(), nullptr, 10); Rng r(seed * 15485863 + 11);
  WmmSpec w; w.full = toi(a[1]) == 0; w.nmod = toi(a[2]); w.ncon = toi(a[3]); w.N = toi(a[4]); w.M = toi(a[5]);
  double t = unhx(a[6]), lat = unhx(a[7]), lon = unhx(a[8]), h = unhx(a[9]); int Nmax = toi(a[10]), Mmax = toi(a[11]);
  w.dt0 = r.pick(std::vector<double>{5.0, 1.0, 2.5}); w.t0 = r.pick(std::vector<double>{2020.0, 1900.0, 2025.5}); w.rad = r.pick(std::vector<double>{6371200.0, 6371000.0});
  w.tmin = w.t0 - r.irange(0, 3); w.tmax = w.t0 + w.nmod * w.dt0 + r.irange(0, 2) * 0.5; w.hmin = -r.irange(1, 20) * 500.0; w.hmax = r.irange(1, 9) * 100000.0 + 0.25;
  w.version = w.ncon ? 2 : r.irange(1, 2);
  w.file = "mf" + std::to_string(seed % 100000); w.name = "mname" + std::to_string(seed % 977);
  w.desc = r.pick(std::vector<std::string>{"synthetic magnetic model, several words", "y", "World  Magnetic\tModel (test)"}); w.date = r.pick(std::vector<std::string>{"2020-01-01", "2024-11-13 12:00", "n/a"});
  w.extra = r.coin() ? "Frobnicate 17\n# MinTime 1\n" : "";
  makeWmmCoeffs(r, w, true);
  std::string dir = tmpdir(); writeWmm(dir, w);
  static const Geocentric intl(6378388.0, 1 / 297.0);
  const Geocentric& earth = r.coin() ? Geocentric::WGS84() : intl;
  std::string out; int nbad = 0;
  auto fail = [&](const char* rel, const std::string& what) { if (nbad++ < 6) bad(rel, what); };
  std::string ex = guarded([&] {
    MagneticModel m(w.file, dir, earth, Nmax, Mmax);
    auto eqs = [&](const char* what, const std::string& got, const std::string& want) { if (got != want) fail("mag-accessor", std::string(what) + " returns '" + got + "', the file says '" + want + "'"); };
    auto eqd = [&](const char* what, double got, double want) { if (!sameD(got, want)) fail("mag-accessor", std::string(what) + " returns " + fmt(got) + ", the file says " + fmt(want)); };
    eqs("Description()", m.Description(), Utility::trim(w.desc)); eqs("DateTime()", m.DateTime(), w.date); eqs("MagneticModelName()", m.MagneticModelName(), w.name);
    eqs("MagneticFile()", m.MagneticFile(), dir + "/" + w.file + ".wmm"); eqs("MagneticModelDirectory()", m.MagneticModelDirectory(), dir);
    eqd("MinTime()", m.MinTime(), w.tmin); eqd("MaxTime()", m.MaxTime(), w.tmax); eqd("MinHeight()", m.MinHeight(), w.hmin); eqd("MaxHeight()", m.MaxHeight(), w.hmax);
    eqd("EquatorialRadius()", m.EquatorialRadius(), earth.EquatorialRadius()); eqd("Flattening()", m.Flattening(), earth.Flattening());
    // ---- the four operator() overloads, FieldGeocentric of model and circle
    double B[3], Bt[3], B3[3], c[3], ct[3], c3[3], G[3], Gt[3], cG[3], cGt[3];
    m(t, lat, lon, h, B[0], B[1], B[2], Bt[0], Bt[1], Bt[2]); m(t, lat, lon, h, B3[0], B3[1], B3[2]);
    double X, Y, Z; earth.Forward(lat, lon, h, X, Y, Z); m.FieldGeocentric(t, X, Y, Z, G[0], G[1], G[2], Gt[0], Gt[1], Gt[2]);
    MagneticCircle mc = m.Circle(t, lat, h); mc(lon, c[0], c[1], c[2], ct[0], ct[1], ct[2]); mc(lon, c3[0], c3[1], c3[2]); mc.FieldGeocentric(lon, cG[0], cG[1], cG[2], cGt[0], cGt[1], cGt[2]);
    if (!mc.Init() || !sameD(mc.Latitude(), Math::LatFix(lat)) || !sameD(mc.Height(), h) || !sameD(mc.Time(), t) || !sameD(mc.EquatorialRadius(), w.rad) || !sameD(mc.Flattening(), earth.Flattening()))
      fail("magcircle-accessor", "Init/Latitude/Height/Time/EquatorialRadius/Flattening = " + std::to_string(mc.Init()) + "," + fmt(mc.Latitude()) + "," + fmt(mc.Height()) + "," + fmt(mc.Time()) + "," + fmt(mc.EquatorialRadius()) + "," + fmt(mc.Flattening()) +
           " for Circle(" + fmt(t) + ", " + fmt(lat) + ", " + fmt(h) + ") of a model with Radius " + fmt(w.rad) + " on an ellipsoid with f = " + fmt(earth.Flattening()));
    double sc = 0, sr = 0; for (int k = 0; k < 3; ++k) { sc += std::fabs(B[k]); sr += std::fabs(Bt[k]); }
    double tol = 64 * 1.2e-16 * (w.M + 2) * sc * 8 + 1e-300, tolr = 64 * 1.2e-16 * (w.M + 2) * (sr + sc / w.dt0) * 8 + 1e-300;
    for (int k = 0; k < 3; ++k) {
      if (!sameD(B3[k], B[k]) || !sameD(c3[k], c[k])) fail("mag-overloads", "the 3-output overload differs from the 6-output overload");
      if (!(std::fabs(cG[k] - G[k]) <= tol && std::fabs(cGt[k] - Gt[k]) <= tolr)) fail("magcircle-vs-model", std::string("FieldGeocentric component ") + "XYZ"[k] + ": circle " + fmt(cG[k]) + "," + fmt(cGt[k]) + " model " + fmt(G[k]) + "," + fmt(Gt[k]));
      if (!(std::fabs(c[k] - B[k]) <= tol && std::fabs(ct[k] - Bt[k]) <= tolr)) fail("magcircle-vs-model", std::string("component ") + "xyz"[k] + ": circle " + fmt(c[k]) + "," + fmt(ct[k]) + " model " + fmt(B[k]) + "," + fmt(Bt[k]));
    }
    {  // the local components are the east-north-up rotation of the geocentric ones (for the circle too)
      GeoPt g = geopt(earth.EquatorialRadius(), earth.Flattening(), lat, lon, h); LD bk[3], bkt[3]; toenu(g, cG[0], cG[1], cG[2], bk); toenu(g, cGt[0], cGt[1], cGt[2], bkt);
      for (int k = 0; k < 3; ++k) if (!(std::fabs(double(bk[k] - c[k])) <= tol && std::fabs(double(bkt[k] - ct[k])) <= tolr)) fail("mag-rotation", "MagneticCircle::FieldGeocentric rotated to east-north-up differs from MagneticCircle::operator()");
    }
    // ---- FieldComponents: the 4-output overload is the 8-output one
    double H, F, D, I, Ht, Ft, Dt, It, H4, F4, D4, I4;
    MagneticModel::FieldComponents(B[0], B[1], B[2], Bt[0], Bt[1], Bt[2], H, F, D, I, Ht, Ft, Dt, It); MagneticModel::FieldComponents(B[0], B[1], B[2], H4, F4, D4, I4);
    // (where H = 0 the declination, and where F = 0 the inclination, is not defined: any value is acceptable there)
    if (!sameD(H, H4) || !sameD(F, F4) || (H != 0 && !sameD(D, D4)) || (F != 0 && !sameD(I, I4))) fail("mag-overloads", "FieldComponents(Bx, By, Bz, H, F, D, I) differs from the overload with rates: " + fmt(H4) + "," + fmt(F4) + "," + fmt(D4) + "," + fmt(I4) + " vs " + fmt(H) + "," + fmt(F) + "," + fmt(D) + "," + fmt(I));
    MagneticCircle c0; if (c0.Init() || !std::isnan(c0.EquatorialRadius()) || !std::isnan(c0.Flattening()) || !std::isnan(c0.Latitude()) || !std::isnan(c0.Height()) || !std::isnan(c0.Time())) fail("magcircle-accessor", "default-constructed MagneticCircle claims to be initialised");
    out = hx(B[0]) + " " + hx(B[1]) + " " + hx(B[2]) + " " + std::to_string(m.Degree()) + " " + std::to_string(m.Order());
    {  // move construction and move assignment keep the model
      double b1[3], b2[3]; MagneticModel moved(std::move(m)); moved(t, lat, lon, h, b1[0], b1[1], b1[2]);
      MagneticModel other(w.file, dir, earth, 0, 0); other = std::move(moved); other(t, lat, lon, h, b2[0], b2[1], b2[2]);
      for (int k = 0; k < 3; ++k) if (!sameD(b1[k], B[k]) || !sameD(b2[k], B[k])) { fail("mag-move", "a move-constructed / move-assigned MagneticModel evaluates differently"); break; }
      if (other.Description() != Utility::trim(w.desc) || !sameD(other.MaxHeight(), w.hmax)) fail("mag-move", "a move-assigned MagneticModel lost its metadata");
    }
  });
  removeWmm(dir, w.file);
  if (!ex.empty()) { emit(ex); bad("mag-load", "a well-formed synthetic model was rejected: " + ex); return; }
  emit(out);
});

// ------------------------------------------------------------------------------------------------------------------
// op: fcomp Bx By Bz Bxt Byt Bzt   -- FieldComponents against its definition; results for the Lean model
// ------------------------------------------------------------------------------------------------------------------
static Reg r_fcomp("fcomp", [](const Args& a) {
  double b[6]; for (int i = 0; i < 6; ++i) b[i] = unhx(a[size_t(i)]);
  double H, F, D, I, Ht, Ft, Dt, It; MagneticModel::FieldComponents(b[0], b[1], b[2], b[3], b[4], b[5], H, F, D, I, Ht, Ft, Dt, It);
  emit(hx(H) + " " + hx(F) + " " + hx(D) + " " + hx(I) + " " + hx(Ht) + " " + hx(Ft) + " " + hx(Dt) + " " + hx(It));
  for (double v : b) if (!std::isfinite(v)) return;
  LD bx = b[0], by = b[1], bz = b[2], bxt = b[3], byt = b[4], bzt = b[5], hh = hypotl(bx, by), ff = hypotl(hh, bz);
  double s = double(ff) + 1e-300;
  if (!(std::fabs(double(H - hh)) <= 4e-16 * s && std::fabs(double(F - ff)) <= 4e-16 * s)) bad("mag-components", "H, F = " + fmt(H) + "," + fmt(F) + " vs hypot(Bx, By), hypot(H, Bz) = " + fmt(double(hh)) + "," + fmt(double(ff)));
  if (hh > 0) {
    // D = atan2(Bx, By), I = atan2(-Bz, H) in degrees; rates: the derivatives of H, F, D, I along B + s Bt at s = 0 (closed forms from the definitions)
    LD dd = atan2l(bx, by) / DEG, ii = atan2l(-bz, hh) / DEG;
    LD wHt = (bx * bxt + by * byt) / hh, wFt = (hh * wHt + bz * bzt) / ff, wDt = (by * bxt - bx * byt) / (hh * hh) / DEG, wIt = (bz * wHt - hh * bzt) / (ff * ff) / DEG;
    double sr = double(fabsl(bxt) + fabsl(byt) + fabsl(bzt)) + 1e-300;
    LD cancH = (fabsl(bx * bxt) + fabsl(by * byt)) / hh, cancD = (fabsl(by * bxt) + fabsl(bx * byt)) / (hh * hh) / DEG, cancF = (hh * fabsl(wHt) + fabsl(bz * bzt)) / ff + cancH, cancI = (fabsl(bz * wHt) + fabsl(hh * bzt)) / (ff * ff) / DEG + fabsl(bz) * cancH / (ff * ff) / DEG;
    if (!(std::fabs(double(D - dd)) <= 1e-13 * 180 && std::fabs(double(I - ii)) <= 1e-13 * 90)) bad("mag-components", "D, I = " + fmt(D) + "," + fmt(I) + " vs atan2(Bx, By), atan2(-Bz, H) = " + fmt(double(dd)) + "," + fmt(double(ii)));
    if (!(std::fabs(double(Ht - wHt)) <= 1e-14 * double(cancH) + 1e-300 * sr && std::fabs(double(Ft - wFt)) <= 1e-14 * double(cancF) + 1e-300 && std::fabs(double(Dt - wDt)) <= 1e-14 * double(cancD) + 1e-300 && std::fabs(double(It - wIt)) <= 1e-14 * double(cancI) + 1e-300))
      bad("mag-component-rates", "Ht,Ft,Dt,It = " + fmt(Ht) + "," + fmt(Ft) + "," + fmt(Dt) + "," + fmt(It) + " vs d/ds of H, F, D, I along B + s dB/dt: " + fmt(double(wHt)) + "," + fmt(double(wFt)) + "," + fmt(double(wDt)) + "," + fmt(double(wIt)));
  }
  // H = 0: the declination is not defined (the implementation reports the direction in which the horizontal field starts to grow); F = 0 likewise for the
  // inclination.  Those branches are compared with the Lean model of the code only, not judged here.
});

// ------------------------------------------------------------------------------------------------------------------
// op: gzon seed norm N M dgm fl Nmax  -- the normal zonal terms subtracted by GravityModel (for the Lean model of the constructor loop)
// ------------------------------------------------------------------------------------------------------------------
static Reg r_gzon("gzon", [](const Args& a) {
  uint64_t seed = std::strtoull(a[0].c_str(), nullptr, 10); Rng r(seed * 32452843 + 7);
  EgmSpec e; e.full = toi(a[1]) == 0; e.N = toi(a[2]); e.M = toi(a[3]); double dgm = unhx(a[4]); e.fl = unhx(a[5]); int Nmax = toi(a[6]);
  e.GMmodel = e.GMref * (1 + dgm); e.amodel = r.pick(std::vector<double>{6378136.3, 6378137.0, 6.4e6});
  e.file = "gz" + std::to_string(seed % 100000); e.name = e.file; e.desc = "zonal"; e.date = "2026-01-01";
  makeEgmCoeffs(r, e);
  NormalOracle no(e.aref, e.GMref, e.omega, e.fl);
  // zonal coefficients near the normal field, so that the loop runs until the normal term is negligible against the model term
  for (int n = 2; n <= e.N; n += 2) e.s.C[size_t(n)] += double(-no.Jn(n) / (e.full ? sqrtl(2.0L * n + 1) : 1)) * (n == 2 ? 1 : r.range(0.5, 1.5));
  if (r.irange(0, 5) == 0 && e.N >= 4) e.s.C[4] = 1e10;     // a huge model term: the normal term is negligible at once (early exit of the loop)
  std::string dir = tmpdir(); writeEgm(dir, e);
  std::string out, kern;
  std::string ex = guarded([&] {
    GravityModel gm(e.file, dir, Nmax, -1);
    int nmx = gm._gravitational.Coefficients().nmx();
    kern = " " + std::to_string(nmx) + " " + hx(gm._earth._gGM / gm._gGMmodel) + " " + hx(Math::sq(gm._earth._a / gm._amodel)) + " " + hx(gm._earth.MassConstant()) + " " + hx(gm._gGMmodel);
    for (int n = 0; n <= nmx; ++n) kern += " " + hx(gm._cCx[size_t(n)]) + " " + hx(gm._earth.Jn(n));
    out = hx(gm._dzonal0) + " " + std::to_string(gm._zonal.size()); for (double z : gm._zonal) out += " " + hx(z);
    // property level: the terms subtracted are the zonal harmonics -J_n (GMref/GMmodel) (aref/amodel)^n of the normal potential in the model's normalisation,
    // for every even n up to the model degree unless negligible against the model's own coefficient (documented: "only include as many normal zonal terms as matter")
    // ("only include as many normal zonal terms as matter": the terms are included up to the first one that is negligible, in binary64, against the model's own
    // coefficient of that degree; nothing is required beyond it)
    for (int n = 2; n <= nmx; n += 2) {
      LD want = -((LD)e.GMref / e.GMmodel) * powl((LD)e.aref / e.amodel, n) * no.Jn(n) / (e.full ? sqrtl(2.0L * n + 1) : 1);
      double model = gm._cCx[size_t(n)];
      bool negligible = std::fabs(double(want)) <= 1.2e-16 * std::fabs(model), borderline = std::fabs(double(want)) <= 2.4e-16 * std::fabs(model) && !negligible;
      if (size_t(n) < gm._zonal.size()) {
        double got = gm._zonal[size_t(n)];
        if (!(std::fabs(double((LD)got - want)) <= 1e-12 * double(fabsl(want)) + 1e-13 * double(fabsl(no.e2)) * double(powl(fabsl(no.e2), n / 2 - 1)))) bad("grav-normal-zonals", "degree " + std::to_string(n) + ": subtracted " + fmt(got) + " expected " + fmt(double(want)));
        if (gm._zonal[size_t(n - 1)] != 0) bad("grav-normal-zonals", "odd degree " + std::to_string(n - 1) + " has a non-zero normal term");
      } else {
        if (!negligible && !borderline) bad("grav-normal-zonals", "degree " + std::to_string(n) + ": the normal term " + fmt(double(want)) + " is not subtracted although it is not negligible against the model term " + fmt(model) + " (and no lower degree was)");
        break;
      }
      if (negligible || borderline) break;
    }
    if (gm._zonal.empty() || gm._zonal[0] != 1) bad("grav-normal-zonals", "the degree-0 normal term is not 1");
    LD dzw = ((LD)e.GMref - e.GMmodel) / e.GMmodel; if (!(std::fabs(double((LD)gm._dzonal0 - dzw)) <= 4e-16 * double(fabsl(dzw)))) bad("grav-normal-zonals", "dzonal0 = " + fmt(gm._dzonal0) + " expected (GMref - GMmodel)/GMmodel = " + fmt(double(dzw)));
    // the disturbing sum is the gravitational sum minus the normal zonal sum: evaluated through the harmonic classes themselves
    double X, Y, Z; Geocentric::WGS84().Forward(r.range(-90, 90), r.range(-180, 180), r.range(0, 1e5), X, Y, Z);
    std::vector<double> zS; SphericalHarmonic hz(gm._zonal, zS, int(gm._zonal.size()) - 1, int(gm._zonal.size()) - 1, 0, gm._amodel, gm._norm);
    double Vg = gm._gravitational(X, Y, Z), Vz = hz(X, Y, Z), Td = gm._disturbing(-1, X, Y, Z);
    // (accuracy class of the sums: relative to the sum of the magnitudes of the terms -- a single huge coefficient dominates it)
    int nmxg = gm._gravitational.Coefficients().nmx(), mmxg = gm._gravitational.Coefficients().mmx();
    LD mag = hsum(e.full, nmxg, mmxg, [&](int n, int m) -> LD { return n == 0 && m == 0 ? 1 : fabsl(e.s.c(n, m)) + (m == 0 && size_t(n) < gm._zonal.size() ? fabsl((LD)gm._zonal[size_t(n)]) : 0); },
                  [&](int n, int m) -> LD { return fabsl(e.s.s(n, m)); }, (LD)X, (LD)Y, (LD)Z, (LD)gm._amodel).mag;
    if (!(std::fabs(Td - (Vg - Vz)) <= 4e-12 * double(mag))) bad("grav-T-decomposition", "disturbing sum " + fmt(Td) + " vs gravitational sum - normal zonal sum " + fmt(Vg - Vz));
  });
  removeEgm(dir, e.file);
  if (!ex.empty()) { emit(ex); bad("grav-load", "a well-formed synthetic model was rejected: " + ex); return; }
  current_op() += kern; emit(out);
});
