// C18: Geohash, GARS, Georef, OSGB
#include "common.hpp"
#include <GeographicLib/Geohash.hpp>
#include <GeographicLib/GARS.hpp>
#include <GeographicLib/Georef.hpp>
#include <GeographicLib/OSGB.hpp>
#include <GeographicLib/Math.hpp>
#include <algorithm>
using namespace GeographicLib; using namespace gv;

static std::string up(std::string s) { for (auto& c : s) c = char(std::toupper((unsigned char)c)); return s; }
static std::string lo(std::string s) { for (auto& c : s) c = char(std::tolower((unsigned char)c)); return s; }
static std::string strip(const std::string& s) { std::string r; for (char c : s) if (!std::isspace((unsigned char)c)) r += c; return r; }

enum Codec { GH, GA, GE, OS };
static const char* cname[] = {"geohash", "gars", "georef", "osgb"};
static const char* alphabet[] = {"0123456789bcdefghjkmnpqrstuvwxyz", "0123456789ABCDEFGHJKLMNPQRSTUVWXYZ", "0123456789ABCDEFGHJKLMNPQRSTUVWXYZ", "0123456789ABCDEFGHJKLMNOPQRSTUVWXYZ"};

static std::string fwd(Codec c, double a, double b, int p, std::string& s) {
  return guarded([&] {
    switch (c) { case GH: Geohash::Forward(a, b, p, s); break; case GA: GARS::Forward(a, b, p, s); break;
      case GE: Georef::Forward(a, b, p, s); break; case OS: OSGB::GridReference(a, b, p, s); break; } });
}
static std::string rev(Codec c, const std::string& s, double& a, double& b, int& p, bool cp) {
  return guarded([&] {
    switch (c) { case GH: Geohash::Reverse(s, a, b, p, cp); break; case GA: GARS::Reverse(s, a, b, p, cp); break;
      case GE: Georef::Reverse(s, a, b, p, cp); break; case OS: OSGB::GridReference(s, a, b, p, cp); break; } });
}
static int pmin(Codec c) { return c == GE ? -1 : 0; }
static int pmax(Codec c) { return c == GH ? 18 : c == GA ? 2 : 11; }

static void do_fwd(Codec c, const Args& a) {
  double lat = unhx(a[0]), lon = unhx(a[1]); int p = std::atoi(a[2].c_str());
  std::string s = "~untouched~";
  std::string e = fwd(c, lat, lon, p, s);
  if (!e.empty()) { emit(e); if (s != "~untouched~") bad("output-modified-on-throw", "Forward threw but changed its output"); if (e != "!E") bad("foreign-exception", e); return; }
  emit(hs(s));
  if (std::isnan(lat) || std::isnan(lon)) {
    double x, y; int q; std::string e2 = rev(c, s, x, y, q, true);
    if (!e2.empty() || !std::isnan(x) || !std::isnan(y)) bad("invalid-roundtrip", "NaN position -> " + s + " does not decode to NaN");
    return;
  }
  // alphabet
  for (char ch : s) if (ch == 0 || !std::strchr(alphabet[c], ch)) { bad("alphabet", "character outside the scheme's alphabet in output " + hs(s)); break; }
  // prefix law
  int pc = std::max(pmin(c), std::min(pmax(c), p)); if (c == GE && pc == 1) pc = 2;
  if (pc < pmax(c)) {
    std::string s2; int p2 = pc + 1; if (c == GE && p2 == 1) p2 = 2;
    if (fwd(c, lat, lon, p2, s2).empty()) {
      // Georef/OSGB interleave x and y digits: compare component-wise
      bool ok;
      if (c == GH || c == GA) ok = s2.compare(0, s.size(), s) == 0;
      else if (c == GE) {
        int n1 = pc <= 0 ? 0 : pc, n2 = p2;
        size_t head = pc < 0 ? 2 : 4;
        ok = s2.compare(0, head, s, 0, head) == 0;
        if (n1 > 0) ok = ok && s2.compare(4, n1, s, 4, n1) == 0 && s2.compare(4 + n2, n1, s, 4 + n1, n1) == 0;
      } else {
        ok = s2.compare(0, 2 + pc, s, 0, 2 + pc) == 0 && s2.compare(2 + p2, pc, s, 2 + pc, pc) == 0;
      }
      if (!ok) bad("prefix-law", "code at lower precision " + s + " is not a prefix of " + s2);
    }
  }
  // decode: accepted, same precision, cell contains the (normalised) position up to the documented edge rule; re-encode of centre reproduces
  double clat, clon, slat, slon; int q;
  std::string e2 = rev(c, s, clat, clon, q, true), e3 = rev(c, s, slat, slon, q, false);
  if (!e2.empty() || !e3.empty()) { bad("encode-then-decode", "encoder output " + s + " rejected by decoder"); return; }
  int pexp = (c == GE && pc == 1) ? 2 : pc; if (c == GH) pexp = int(s.size());
  if (q != pexp) bad("encode-then-decode", "precision " + std::to_string(q) + " != " + std::to_string(pexp));
  std::string s3;
  if (!fwd(c, clat, clon, q, s3).empty() || s3 != s) bad("reencode-centre", "centre of " + s + " re-encodes to " + s3);
  // containment (half-open cell [sw, sw + 2(centre-sw))), to within the one-rounding sliver decided exactly in Lean
  double la = lat, lo_ = lon;
  if (c != OS) { lo_ = Math::AngNormalize(lon); if (lo_ == 180) lo_ = -180; }
  double hlat = clat - slat, hlon = clon - slon;
  double tol_lat = 4 * ulp(std::fmax(std::fabs(la), 1e-6)), tol_lon = 4 * ulp(std::fmax(std::fabs(lo_), 1e-6));
  // OSGB forms x - 100 km * floor(x / 100 km) before scaling: one more rounding, at the magnitude of the tile (negative and small
  // coordinates are shifted up to ~1e5 m), so the sliver (class F2) is an ulp of max(|x|, tile)
  if (c == OS) { tol_lat = 4 * ulp(std::fmax(std::fabs(la), 1e5)); tol_lon = 4 * ulp(std::fmax(std::fabs(lo_), 1e5)); }
  bool pole = (c != OS && lat == 90);
  if (!(la >= slat - tol_lat && (la < slat + 2 * hlat + tol_lat || pole))) bad("containment", "lat/x outside decoded cell of " + s);
  if (!(lo_ >= slon - tol_lon && lo_ < slon + 2 * hlon + tol_lon)) bad("containment", "lon/y outside decoded cell of " + s);
}

static void do_rev(Codec c, const Args& a) {
  std::string s = unhs(a[0]); bool cp = a[1] == "1";
  double x = 12345.5, y = 54321.5; int p = -77;
  std::string e = rev(c, s, x, y, p, cp);
  if (!e.empty()) {
    emit(e);
    if (e != "!E") bad("foreign-exception", e);
    if (x != 12345.5 || y != 54321.5 || p != -77) bad("output-modified-on-throw", "Reverse threw but changed its outputs");
    return;
  }
  emit(hx(x) + " " + hx(y) + " " + std::to_string(p));
  if (std::isnan(x)) return;
  // accepted strings: case-insensitive, and re-encoding the centre reproduces the code (so only valid codes are accepted)
  double x2, y2; int p2;
  if (!rev(c, lo(s), x2, y2, p2, cp).empty() || bits(x2) != bits(x) || bits(y2) != bits(y) || p2 != p) bad("case-insensitive", "lower-case form decodes differently");
  if (!rev(c, up(s), x2, y2, p2, cp).empty() || bits(x2) != bits(x) || bits(y2) != bits(y) || p2 != p) bad("case-insensitive", "upper-case form decodes differently");
  double cx, cy; int cpn;
  rev(c, s, cx, cy, cpn, true);
  std::string s3; std::string e3 = fwd(c, cx, cy, c == GH ? int(std::min<size_t>(18, s.size())) : p, s3);
  std::string canon = c == OS ? strip(s) : s; if (c == GH && canon.size() > 18) canon = canon.substr(0, 18);
  if (!e3.empty() || up(s3) != up(canon)) bad("accepted-string-is-not-a-code", "decoder accepted " + hs(s) + " whose centre encodes as " + s3);
}

#define REG4(kind, fn) \
  static Reg r_gh_##kind("geohash_" #kind, [](const Args& a) { fn(GH, a); }); \
  static Reg r_ga_##kind("gars_" #kind, [](const Args& a) { fn(GA, a); }); \
  static Reg r_ge_##kind("georef_" #kind, [](const Args& a) { fn(GE, a); }); \
  static Reg r_os_##kind("osgb_" #kind, [](const Args& a) { fn(OS, a); });
REG4(fwd, do_fwd)
REG4(rev, do_rev)

static double edge_value(Rng& r, Codec c, bool lonp) {
  // a value at / next to a cell edge of the scheme
  double v;
  switch (c) {
  case GH: { int k = r.irange(0, 45); v = std::ldexp(double(r.irange(-(1 << std::min(k, 20)), 1 << std::min(k, 20))), -k) * (lonp ? 180 : 90) / (1 << 0);
             v = std::ldexp((lonp ? 180.0 : 90.0) * r.irange(-1024, 1024), -r.irange(0, 35)); break; }
  case GA: v = r.irange(lonp ? -2160 : -1080, lonp ? 2160 : 1080) / 12.0; break;
  case GE: { int k = r.irange(0, 9); double sc = 60 * std::pow(10.0, k); v = std::floor(r.range(lonp ? -180 : -90, lonp ? 180 : 90) * sc) / sc; break; }
  default: { int k = r.irange(0, 11); double sc = std::pow(10.0, k - 5); v = std::floor(r.range(lonp ? -1e6 : -5e5, lonp ? 1.5e6 : 2e6) * sc) / sc; break; }
  }
  int d = r.irange(-3, 3);
  if (d > 0) v = nextup(v, d); else if (d < 0) v = nextdn(v, -d);
  return v;
}

void gv::generate(const std::string& tier, uint64_t seed) {
  Rng r(seed * 7919 + 18);
  long n = tier == "thorough" ? 60000 : 6000;
  std::vector<std::string> pool[4];
  for (long i = 0; i < n; ++i) {
    Codec c = Codec(i % 4);
    double lat, lon;
    int k = r.irange(0, 9);
    if (c == OS) {
      lat = k < 5 ? edge_value(r, c, true) : r.range(-1e6, 1.5e6); lon = k < 5 ? edge_value(r, c, false) : r.range(-5e5, 2e6);
      if (k == 9) { lat = r.pick(std::vector<double>{-1e6, 1.5e6, nextdn(1.5e6), 0, -0.0, NAN, 1e7}); }
      if (k == 8) { lon = r.pick(std::vector<double>{-5e5, 2e6, nextdn(2e6), 0, -0.0, NAN, -1e7}); }
    } else {
      lat = k < 5 ? edge_value(r, c, false) : r.range(-90, 90); lon = k < 5 ? edge_value(r, c, true) : r.range(-180, 180);
      if (k == 9) lat = r.pick(std::vector<double>{90, -90, nextdn(90), 0, -0.0, NAN, 91, -90.0000001});
      if (k == 8) lon = r.pick(std::vector<double>{180, -180, 540, -540, 360, 1e17, nextdn(180), nextup(-180), NAN, 179.99999});
      if (k == 7) lon += 360.0 * r.irange(-3, 3);
      if (std::fabs(lat) > 90 && k != 9) lat = std::fmod(lat, 90);
    }
    int p = r.irange(pmin(c) - 1, pmax(c) + 1);
    run(std::string(cname[c]) + "_fwd", {hx(lat), hx(lon), std::to_string(p)});
    stratum(std::string(cname[c]) + (k < 5 ? "-edge" : k >= 7 ? "-special" : "-uniform"));
    std::string s;
    if (fwd(c, lat, lon, p, s).empty()) { pool[c].push_back(s); if (i < 8) sample(current_op() + " -> " + s); }
    // decoder inputs: valid codes (random case), mutations, random alphabet strings
    std::string t;
    int m = r.irange(0, 9);
    if (!pool[c].empty() && m < 7) {
      t = r.pick(pool[c]);
      if (m >= 1 && m <= 2) t = r.coin() ? lo(t) : up(t);
      if (m == 3 && !t.empty()) t[r.irange(0, int(t.size()) - 1)] = r.pick(std::vector<char>{'I', 'O', 'A', 'a', 'Z', '9', '0', '6', '7', ' ', '\0', '-', char(0xe9), 'i', 'l'});
      if (m == 4 && !t.empty()) t.erase(r.irange(0, int(t.size()) - 1), 1);
      if (m == 5) t.insert(r.irange(0, int(t.size())), 1, alphabet[c][r.irange(0, int(std::strlen(alphabet[c])) - 1)]);
      if (m == 6 && c == OS) t.insert(r.irange(0, int(t.size())), 1, ' ');
      if (m == 6 && c != OS && t.size() > 5) t[r.irange(4, int(t.size()) - 1)] = char('0' + r.irange(5, 9));
    } else {
      int len = r.irange(0, c == GH ? 20 : c == GA ? 8 : 26);
      for (int j = 0; j < len; ++j) t += alphabet[c][r.irange(0, int(std::strlen(alphabet[c])) - 1)];
      if (m == 9) t = r.pick(std::vector<std::string>{"INVALID", "invalid", "INV", "nan", "NAN", "IN", "", "in1234"});
    }
    run(std::string(cname[c]) + "_rev", {hs(t), r.coin() ? "1" : "0"});
    stratum(std::string(cname[c]) + "-dec-" + (m < 3 ? "valid" : m < 7 ? "mutated" : "random"));
  }
  if (tier == "thorough") {
    // exhaustive low precision: all GARS cells to prec 1 on a lattice of interior points, all georef degree cells
    for (int ilon = 0; ilon < 720; ++ilon) for (int ilat = 0; ilat < 360; ++ilat) {
      double lon = -180 + (ilon + 0.37) / 2, lat = -90 + (ilat + 0.61) / 2;
      run("gars_fwd", {hx(lat), hx(lon), std::to_string((ilon + ilat) % 3)});
    }
    for (int ilon = 0; ilon < 360; ++ilon) for (int ilat = 0; ilat < 180; ++ilat)
      run("georef_fwd", {hx(-90 + ilat + 0.25), hx(-180 + ilon + 0.75), std::to_string((ilon * 7 + ilat) % 13 - 1)});
  }
}
int main(int argc, char** argv) { return gv::main_(argc, argv); }
