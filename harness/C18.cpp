// C18: Geohash, GARS, Georef, OSGB
#include "common.hpp"
#include <GeographicLib/Geohash.hpp>
#include <GeographicLib/GARS.hpp>
#include <GeographicLib/Georef.hpp>
#include <GeographicLib/OSGB.hpp>
#include <GeographicLib/Math.hpp>
#include <GeographicLib/TransverseMercator.hpp>
#include <algorithm>
using namespace GeographicLib; using namespace gv;

static std::string up(std::string s) { for (auto& c : s) c = char(std::toupper((unsigned char)c)); return s; }
static std::string lo(std::string s) { for (auto& c : s) c = char(std::tolower((unsigned char)c)); return s; }
static std::string strip(const std::string& s) { std::string r; for (char c : s) if (!std::isspace((unsigned char)c)) r += c; return r; }

enum Codec { GH, GA, GE, OS };
static const char* cname[] = {"geohash", "gars", "georef", "osgb"};
static const char* alphabet[] = {"0123456789bcdefghjkmnpqrstuvwxyz", "0123456789ABCDEFGHJKLMNPQRSTUVWXYZ", "0123456789ABCDEFGHJKLMNPQRSTUVWXYZ", "0123456789ABCDEFGHJKLMNOPQRSTUVWXYZ"};

static std::string fwd(Codec c, double a, double b, int p, std::string& s) {
  return guarded([&] {
    switch (c) { case GH: Geohash::Forward(a, b, p, s); break; case GA: GARS::Forward(a, b, p, s); break;
      case GE: Georef::Forward(a, b, p, s); break; case OS: OSGB::GridReference(a, b, p, s); break; } });
}
static std::string rev(Codec c, const std::string& s, double& a, double& b, int& p, bool cp) {
  return guarded([&] {
    switch (c) { case GH: Geohash::Reverse(s, a, b, p, cp); break; case GA: GARS::Reverse(s, a, b, p, cp); break;
      case GE: Georef::Reverse(s, a, b, p, cp); break; case OS: OSGB::GridReference(s, a, b, p, cp); break; } });
}
static int pmin(Codec c) { return c == GE ? -1 : 0; }
static int pmax(Codec c) { return c == GH ? 18 : c == GA ? 2 : 11; }

static void do_fwd(Codec c, const Args& a) {
  double lat = unhx(a[0]), lon = unhx(a[1]); int p = std::atoi(a[2].c_str());
  std::string s = "~untouched~";
  std::string e = fwd(c, lat, lon, p, s);
  if (!e.empty()) { emit(e); if (s != "~untouched~") bad("output-modified-on-throw", "Forward threw but changed its output"); if (e != "!E") bad("foreign-exception", e); return; }
  // OSGB: the digits beyond 1 m are re-derived at every precision by one rounded multiplication, so the prefix law between two
  // precisions is decided in Lean together with the exact classification of both codes: emit the code at the next precision too
  std::string snext = "-";
  if (c == OS && p >= 0 && p < 11 && !(std::isnan(lat) || std::isnan(lon))) { std::string t2; if (fwd(c, lat, lon, p + 1, t2).empty()) snext = hs(t2); }
  emit(c == OS ? hs(s) + " " + snext : hs(s));
  if (std::isnan(lat) || std::isnan(lon) || (c != OS && std::isinf(lon))) {   // an infinite longitude is normalised to NaN
    double x, y; int q; std::string e2 = rev(c, s, x, y, q, true);
    if (!e2.empty() || !std::isnan(x) || !std::isnan(y)) bad("invalid-roundtrip", "NaN position -> " + s + " does not decode to NaN");
    return;
  }
  // alphabet
  for (char ch : s) if (ch == 0 || !std::strchr(alphabet[c], ch)) { bad("alphabet", "character outside the scheme's alphabet in output " + hs(s)); break; }
  // prefix law
  int pc = std::max(pmin(c), std::min(pmax(c), p)); if (c == GE && pc == 1) pc = 2;
  if (pc < pmax(c) && c != OS) {
    std::string s2; int p2 = pc + 1; if (c == GE && p2 == 1) p2 = 2;
    if (fwd(c, lat, lon, p2, s2).empty()) {
      // Georef/OSGB interleave x and y digits: compare component-wise
      bool ok;
      if (c == GH || c == GA) ok = s2.compare(0, s.size(), s) == 0;
      else if (c == GE) {
        int n1 = pc <= 0 ? 0 : pc, n2 = p2;
        size_t head = pc < 0 ? 2 : 4;
        ok = s2.compare(0, head, s, 0, head) == 0;
        if (n1 > 0) ok = ok && s2.compare(4, n1, s, 4, n1) == 0 && s2.compare(4 + n2, n1, s, 4 + n1, n1) == 0;
      } else {
        ok = s2.compare(0, 2 + pc, s, 0, 2 + pc) == 0 && s2.compare(2 + p2, pc, s, 2 + pc, pc) == 0;
      }
      if (!ok) bad("prefix-law", "code at lower precision " + s + " is not a prefix of " + s2);
    }
  }
  // decode: accepted, same precision, cell contains the (normalised) position up to the documented edge rule; re-encode of centre reproduces
  double clat, clon, slat, slon; int q;
  std::string e2 = rev(c, s, clat, clon, q, true), e3 = rev(c, s, slat, slon, q, false);
  if (!e2.empty() || !e3.empty()) { bad("encode-then-decode", "encoder output " + s + " rejected by decoder"); return; }
  int pexp = (c == GE && pc == 1) ? 2 : pc; if (c == GH) pexp = int(s.size());
  if (q != pexp) bad("encode-then-decode", "precision " + std::to_string(q) + " != " + std::to_string(pexp));
  std::string s3;
  if (!fwd(c, clat, clon, q, s3).empty() || s3 != s) bad("reencode-centre", "centre of " + s + " re-encodes to " + s3);
  // containment (half-open cell [sw, sw + 2(centre-sw))), to within the one-rounding sliver decided exactly in Lean
  double la = lat, lo_ = lon;
  if (c != OS) { lo_ = Math::AngNormalize(lon); if (lo_ == 180) lo_ = -180; }
  double hlat = clat - slat, hlon = clon - slon;
  double tol_lat = 4 * ulp(std::fmax(std::fabs(la), 1e-6)), tol_lon = 4 * ulp(std::fmax(std::fabs(lo_), 1e-6));
  // OSGB forms x - 100 km * floor(x / 100 km) before scaling: one more rounding, at the magnitude of the tile (negative and small
  // coordinates are shifted up to ~1e5 m), so the sliver (class F2) is an ulp of max(|x|, tile)
  if (c == OS) { tol_lat = 4 * ulp(std::fmax(std::fabs(la), 1e5)); tol_lon = 4 * ulp(std::fmax(std::fabs(lo_), 1e5)); }
  bool pole = (c != OS && lat == 90);
  if (!(la >= slat - tol_lat && (la < slat + 2 * hlat + tol_lat || pole))) bad("containment", "lat/x outside decoded cell of " + s);
  if (!(lo_ >= slon - tol_lon && lo_ < slon + 2 * hlon + tol_lon)) bad("containment", "lon/y outside decoded cell of " + s);
}

static void do_rev(Codec c, const Args& a) {
  std::string s = unhs(a[0]); bool cp = a[1] == "1";
  double x = 12345.5, y = 54321.5; int p = -77;
  std::string e = rev(c, s, x, y, p, cp);
  if (!e.empty()) {
    emit(e);
    if (e != "!E") bad("foreign-exception", e);
    if (x != 12345.5 || y != 54321.5 || p != -77) bad("output-modified-on-throw", "Reverse threw but changed its outputs");
    return;
  }
  emit(hx(x) + " " + hx(y) + " " + std::to_string(p));
  if (std::isnan(x)) return;
  // accepted strings: case-insensitive, and re-encoding the centre reproduces the code (so only valid codes are accepted)
  double x2, y2; int p2;
  if (!rev(c, lo(s), x2, y2, p2, cp).empty() || bits(x2) != bits(x) || bits(y2) != bits(y) || p2 != p) bad("case-insensitive", "lower-case form decodes differently");
  if (!rev(c, up(s), x2, y2, p2, cp).empty() || bits(x2) != bits(x) || bits(y2) != bits(y) || p2 != p) bad("case-insensitive", "upper-case form decodes differently");
  double cx, cy; int cpn;
  rev(c, s, cx, cy, cpn, true);
  std::string s3; std::string e3 = fwd(c, cx, cy, c == GH ? int(std::min<size_t>(18, s.size())) : p, s3);
  std::string canon = c == OS ? strip(s) : s; if (c == GH && canon.size() > 18) canon = canon.substr(0, 18);
  if (!e3.empty() || up(s3) != up(canon)) bad("accepted-string-is-not-a-code", "decoder accepted " + hs(s) + " whose centre encodes as " + s3);
}

#define REG4(kind, fn) \
  static Reg r_gh_##kind("geohash_" #kind, [](const Args& a) { fn(GH, a); }); \
  static Reg r_ga_##kind("gars_" #kind, [](const Args& a) { fn(GA, a); }); \
  static Reg r_ge_##kind("georef_" #kind, [](const Args& a) { fn(GE, a); }); \
  static Reg r_os_##kind("osgb_" #kind, [](const Args& a) { fn(OS, a); });
REG4(fwd, do_fwd)
REG4(rev, do_rev)

// ---- resolution / precision helpers of the headers ----------------------------------------------------------------------------
static Reg r_gh_res("geohash_res", [](const Args& a) {
  int len = std::atoi(a[0].c_str());
  double la = Geohash::LatitudeResolution(len), lo_ = Geohash::LongitudeResolution(len); int d = Geohash::DecimalPrecision(len);
  emit(hx(la) + " " + hx(lo_) + " " + std::to_string(d));
  if (!(la > 0 && lo_ > 0)) bad("resolution-positive", "non-positive resolution");
  if (!(Geohash::LatitudeResolution(len + 1) <= la && Geohash::LongitudeResolution(len + 1) <= lo_)) bad("resolution-monotone", "resolution increases with the length");
  // the resolution is the size of the cell of a hash of that length (Reverse: 2 (centre - corner)), lengths are clamped to [0, 18]
  int lc = std::max(0, std::min(18, len));
  std::string s; Geohash::Forward(12.25, 33.75, lc, s);
  double c1, c2, s1, s2; int q; Geohash::Reverse(s, c1, c2, q, true); Geohash::Reverse(s, s1, s2, q, false);
  if (2 * (c1 - s1) != la || 2 * (c2 - s2) != lo_) bad("resolution-is-cell-size", "resolution differs from the extent of the decoded cell of " + s);
  // DecimalPrecision: 10^-d <= latitude resolution < 10^(1-d)
  long double r = la, lo10 = std::pow(10.0L, -d), hi10 = std::pow(10.0L, 1 - d);
  if (!(lo10 * (1 - 1e-15L) <= r && r < hi10)) bad("decimal-precision", "10^-d <= LatitudeResolution < 10^(1-d) fails for d = " + std::to_string(d));
  // mutual consistency: the length needed for this resolution is this length
  if (Geohash::GeohashLength(lo_) != lc || Geohash::GeohashLength(la, lo_) != lc) bad("length-of-resolution", "GeohashLength(Resolution(len)) != len");
});
static Reg r_gh_len("geohash_len", [](const Args& a) {
  double res = unhx(a[0]); int L = Geohash::GeohashLength(res);
  emit(std::to_string(L));
  if (L < 0 || L > 18) bad("length-range", "GeohashLength outside [0, 18]");
  if (L < 18 && !(Geohash::LongitudeResolution(L) <= std::fabs(res))) bad("length-sufficient", "resolution of the returned length exceeds the request");
  if (L > 0 && L <= 18 && Geohash::LongitudeResolution(L - 1) <= std::fabs(res)) bad("length-minimal", "a shorter hash already meets the requested resolution");
});
static Reg r_gh_len2("geohash_len2", [](const Args& a) {
  double r1 = unhx(a[0]), r2 = unhx(a[1]); int L = Geohash::GeohashLength(r1, r2);
  emit(std::to_string(L));
  auto okl = [&](int l) { return Geohash::LatitudeResolution(l) <= std::fabs(r1) && Geohash::LongitudeResolution(l) <= std::fabs(r2); };
  if (L < 0 || L > 18) bad("length-range", "GeohashLength outside [0, 18]");
  if (L < 18 && !okl(L)) bad("length-sufficient", "resolution of the returned length exceeds the request");
  if (L > 0 && L <= 18 && okl(L - 1)) bad("length-minimal", "a shorter hash already meets the requested resolutions");
});
template<class G> static void res_op(Codec c, const Args& a) {
  int p = std::atoi(a[0].c_str()); double r = G::Resolution(p);
  emit(hx(r));
  if (!(r > 0)) bad("resolution-positive", "non-positive resolution");
  if (!(G::Resolution(p + 1) <= r)) bad("resolution-monotone", "resolution increases with the precision");
  // the resolution is the extent of a cell at that precision (cell with its south-west corner at the origin: corner 0, centre r/2)
  int pc = std::max(pmin(c), std::min(pmax(c), p)); if (c == GE && pc == 1) pc = 2;
  {
    std::string s; fwd(c, 1e-12, 1e-12, pc, s);
    double c1, c2, s1, s2; int q; rev(c, s, c1, c2, q, true); rev(c, s, s1, s2, q, false);
    if (!(s1 == 0 && s2 == 0 && std::fabs(2 * c1 - r) <= ulp(r) && std::fabs(2 * c2 - r) <= ulp(r)))
      bad("resolution-is-cell-size", "resolution differs from the extent of the decoded cell of " + s);
  }
  if (G::Precision(r) != (c == GE ? std::max(0, pc) : pc)) bad("precision-of-resolution", "Precision(Resolution(prec)) != prec");
}
template<class G> static void prec_op(Codec c, const Args& a) {
  double res = unhx(a[0]); int P = G::Precision(res);
  emit(std::to_string(P));
  int lo_ = 0, hi = pmax(c);
  if (P < lo_ || P > hi || (c == GE && P == 1)) bad("precision-range", "Precision outside the documented range");
  if (P < hi && !(G::Resolution(P) <= std::fabs(res))) bad("precision-sufficient", "resolution of the returned precision exceeds the request");
  int prev = (c == GE && P == 2) ? 0 : P - 1;
  if (P > lo_ && P <= hi && G::Resolution(prev) <= std::fabs(res)) bad("precision-minimal", "a lower precision already meets the requested resolution");
}
static Reg r_ga_res("gars_res", [](const Args& a) { res_op<GARS>(GA, a); });
static Reg r_ge_res("georef_res", [](const Args& a) { res_op<Georef>(GE, a); });
static Reg r_ga_prec("gars_prec", [](const Args& a) { prec_op<GARS>(GA, a); });
static Reg r_ge_prec("georef_prec", [](const Args& a) { prec_op<Georef>(GE, a); });

// ---- OSGB::Forward / Reverse: the transverse Mercator wrapper ------------------------------------------------------------------
static const TransverseMercator& osgb_tm() {
  static const TransverseMercator tm(OSGB::EquatorialRadius(), OSGB::Flattening(), OSGB::CentralScale());
  return tm;
}
static Reg r_os_tmf("osgb_tm_fwd", [](const Args& a) {
  double lat = unhx(a[0]), lon = unhx(a[1]);
  double x = 1.5, y = 2.5, g = 3.5, k = 4.5, x2 = 5.5, y2 = 6.5, tx, ty, tg, tk;
  std::string e = guarded([&] { OSGB::Forward(lat, lon, x, y, g, k); OSGB::Forward(lat, lon, x2, y2); });
  if (!e.empty()) { emit(e); bad("foreign-exception", "OSGB::Forward threw"); return; }
  osgb_tm().Forward(OSGB::OriginLongitude(), lat, lon, tx, ty, tg, tk);
  emit(hx(x) + " " + hx(y) + " " + hx(g) + " " + hx(k) + " " + hx(tx) + " " + hx(ty) + " " + hx(tg) + " " + hx(tk) + " " + hx(OSGB::computenorthoffset()));
  if (bits(x) != bits(x2) || bits(y) != bits(y2)) bad("overloads-agree", "Forward(lat, lon, x, y) differs from the 6-argument form");
  if (std::isfinite(x) && std::isfinite(y) && std::fabs(lat) < 89.9 && std::fabs(Math::AngDiff(-2.0, lon)) < 60) {
    double la2, lo2, g2, k2, la3, lo3; OSGB::Reverse(x, y, la2, lo2, g2, k2); OSGB::Reverse(x, y, la3, lo3);
    if (bits(la2) != bits(la3) || bits(lo2) != bits(lo3)) bad("overloads-agree", "Reverse(x, y, lat, lon) differs from the 6-argument form");
    // documented accuracy of the series TM: 5 nm (x4) within 35 deg of the central meridian; expressed in degrees (1 deg > 60 km)
    double tolm = std::fabs(Math::AngDiff(-2.0, lon)) < 35 ? 20e-9 : 1e-3, told = tolm / 60000;
    if (!(std::fabs(la2 - lat) <= told && std::fabs(Math::AngDiff(lo2, lon)) * std::cos(lat * Math::degree()) <= told))
      bad("tm-roundtrip", "Reverse(Forward(lat, lon)) off by more than 4 x 5 nm");
  }
});
static Reg r_os_tmr("osgb_tm_rev", [](const Args& a) {
  double x = unhx(a[0]), y = unhx(a[1]);
  double lat = 1.5, lon = 2.5, g = 3.5, k = 4.5, tla, tlo, tg, tk;
  std::string e = guarded([&] { OSGB::Reverse(x, y, lat, lon, g, k); });
  if (!e.empty()) { emit(e); bad("foreign-exception", "OSGB::Reverse threw"); return; }
  double no = OSGB::computenorthoffset();
  osgb_tm().Reverse(OSGB::OriginLongitude(), x - OSGB::FalseEasting(), y - no, tla, tlo, tg, tk);
  emit(hx(lat) + " " + hx(lon) + " " + hx(g) + " " + hx(k) + " " + hx(tla) + " " + hx(tlo) + " " + hx(tg) + " " + hx(tk));
});
static Reg r_os_const("osgb_consts", [](const Args&) {
  double a = OSGB::EquatorialRadius(), f = OSGB::Flattening(), k0 = OSGB::CentralScale(), la0 = OSGB::OriginLatitude(), lo0 = OSGB::OriginLongitude(),
    fn = OSGB::FalseNorthing(), fe = OSGB::FalseEasting(), no = OSGB::computenorthoffset(), x0, y0;
  osgb_tm().Forward(0.0, la0, 0.0, x0, y0);
  emit(hx(a) + " " + hx(f) + " " + hx(k0) + " " + hx(la0) + " " + hx(lo0) + " " + hx(fn) + " " + hx(fe) + " " + hx(no) + " " + hx(y0) + " " +
       hx(OSGB::OSGBTM().EquatorialRadius()) + " " + hx(OSGB::OSGBTM().Flattening()) + " " + hx(OSGB::OSGBTM().CentralScale()));
  // defining expressions evaluated independently in long double (OS: log10(metres per foot) = 0.48401603 - 1, log10 F0 = 9.9998268 - 10)
  long double al = std::pow(10.0L, (48401603.0L - 100000000.0L) / 100000000.0L) * 20923713.0L, kl = std::pow(10.0L, (9998268.0L - 10000000.0L) / 10000000.0L);
  if (!(std::fabs((long double)a - al) <= 2 * ulp(a))) bad("osgb-constant", "EquatorialRadius differs from 20923713 ft x 10^(0.48401603-1) m/ft");
  if (!(std::fabs((long double)k0 - kl) <= 2 * ulp(k0))) bad("osgb-constant", "CentralScale differs from 10^(9.9998268-10)");
  // the published decimal values (OS, A guide to coordinate systems in Great Britain): a = 6377563.396 m, b = 6356256.909 m, F0 = 0.9996012717
  if (!(std::fabs(a - 6377563.396) < 5e-4)) bad("osgb-constant", "EquatorialRadius is not 6377563.396 m to the published digits");
  if (!(std::fabs(a * (1 - f) - 6356256.909) < 1e-3)) bad("osgb-constant", "polar radius is not 6356256.909 m to the published digits");
  if (!(std::fabs(k0 - 0.9996012717) < 1e-10)) bad("osgb-constant", "CentralScale is not 0.9996012717 to the published digits");
  if (!(la0 == 49 && lo0 == -2 && fn == -100000 && fe == 400000)) bad("osgb-constant", "true origin 49N 2W / false origin (400000, -100000)");
  // the true origin maps to the false origin; the published worked example (52d39'27.2531\"N 1d43'4.5177\"E -> 651409.903 E, 313177.270 N)
  double x, y; OSGB::Forward(la0, lo0, x, y);
  if (!(std::fabs(x - fe) <= 1e-9 && std::fabs(y - fn) <= 1e-8)) bad("true-origin-maps-to-false-origin", "Forward(49, -2) != (400000, -100000)");
  OSGB::Forward(52 + 39 / 60.0 + 27.2531 / 3600, 1 + 43 / 60.0 + 4.5177 / 3600, x, y);
  if (!(std::fabs(x - 651409.903) <= 6e-3 && std::fabs(y - 313177.270) <= 6e-3)) bad("published-example", "OS worked example: got " + std::to_string(x) + ", " + std::to_string(y));
});

static double edge_value(Rng& r, Codec c, bool lonp) {
  // a value at / next to a cell edge of the scheme
  double v;
  switch (c) {
  case GH: { int k = r.irange(0, 45); v = std::ldexp(double(r.irange(-(1 << std::min(k, 20)), 1 << std::min(k, 20))), -k) * (lonp ? 180 : 90) / (1 << 0);
             v = std::ldexp((lonp ? 180.0 : 90.0) * r.irange(-1024, 1024), -r.irange(0, 35)); break; }
  case GA: v = r.irange(lonp ? -2160 : -1080, lonp ? 2160 : 1080) / 12.0; break;
  case GE: { int k = r.irange(0, 9); double sc = 60 * std::pow(10.0, k); v = std::floor(r.range(lonp ? -180 : -90, lonp ? 180 : 90) * sc) / sc; break; }
  default: { int k = r.irange(0, 11); double sc = std::pow(10.0, k - 5); v = std::floor(r.range(lonp ? -1e6 : -5e5, lonp ? 1.5e6 : 2e6) * sc) / sc; break; }
  }
  int d = r.irange(-3, 3);
  if (d > 0) v = nextup(v, d); else if (d < 0) v = nextdn(v, -d);
  return v;
}

void gv::generate(const std::string& tier, uint64_t seed) {
  Rng r(seed * 7919 + 18);
  long n = tier == "thorough" ? 60000 : 6000;
  std::vector<std::string> pool[4];
  // the helper functions and the OSGB constants: every length / precision around the documented range, on every run
  run("osgb_consts", {}); stratum("osgb-constants");
  for (int len = -3; len <= 22; ++len) { run("geohash_res", {std::to_string(len)}); stratum("helpers-resolution"); }
  for (int p = -3; p <= 14; ++p) { run("gars_res", {std::to_string(p)}); run("georef_res", {std::to_string(p)}); stratum("helpers-resolution"); }
  for (long i = 0; i < n / 20; ++i) {
    // requested resolutions: exactly the resolution of a length / precision, one ulp either side, random, zero, negative, non-finite
    int k = r.irange(0, 9);
    auto pert = [&](double v) { int d = r.irange(-2, 2); v = d > 0 ? nextup(v, d) : d < 0 ? nextdn(v, -d) : v; return r.coin() ? v : -v; };
    double special = r.pick(std::vector<double>{0, -0.0, INFINITY, -INFINITY, NAN, 1e-300, 1e300, 360, 180, 15, 1});
    double g1 = k < 5 ? pert(Geohash::LongitudeResolution(r.irange(0, 19))) : k < 8 ? std::ldexp(r.range(1, 2), r.irange(-40, 10)) : special;
    double g2 = k < 5 ? pert(Geohash::LatitudeResolution(r.irange(0, 19))) : k < 8 ? std::ldexp(r.range(1, 2), r.irange(-40, 10)) : special;
    run("geohash_len", {hx(g1)}); run("geohash_len2", {hx(g2), hx(g1)});
    run("gars_prec", {hx(k < 5 ? pert(GARS::Resolution(r.irange(-1, 3))) : k < 8 ? std::ldexp(r.range(1, 2), r.irange(-8, 3)) : special)});
    run("georef_prec", {hx(k < 5 ? pert(Georef::Resolution(r.irange(-2, 12))) : k < 8 ? std::ldexp(r.range(1, 2), r.irange(-45, 6)) : special)});
    stratum(k < 5 ? "helpers-precision-edge" : k < 8 ? "helpers-precision-random" : "helpers-precision-special");
    // OSGB::Forward / Reverse: Great Britain, the whole grid, the central meridian, the true origin, poles, far longitudes, NaN
    int m = r.irange(0, 9);
    double lat = m < 6 ? r.range(49, 61) : m < 8 ? r.range(-90, 90) : r.pick(std::vector<double>{49, 90, -90, 0, NAN, 52.657570305555555});
    double lon = m < 6 ? r.range(-9, 3) : m < 8 ? r.range(-180, 180) : r.pick(std::vector<double>{-2, 178, 88, 358, -362, 180, NAN, 1.7179215833333333});
    run("osgb_tm_fwd", {hx(lat), hx(lon)});
    double x = m < 7 ? r.range(-1e6, 1.5e6) : r.pick(std::vector<double>{400000, 0, -0.0, 651409.903, NAN, 1e7}), y = m < 7 ? r.range(-5e5, 2e6) : r.pick(std::vector<double>{-100000, 0, 313177.27, NAN, 9e6});
    run("osgb_tm_rev", {hx(x), hx(y)});
    stratum(m < 6 ? "osgb-tm-britain" : m < 8 ? "osgb-tm-world" : "osgb-tm-special");
  }
  for (long i = 0; i < n; ++i) {
    Codec c = Codec(i % 4);
    double lat, lon;
    int k = r.irange(0, 11);
    if (c == OS) {
      lat = k < 5 ? edge_value(r, c, true) : r.range(-1e6, 1.5e6); lon = k < 5 ? edge_value(r, c, false) : r.range(-5e5, 2e6);
      if (k == 9) { lat = r.pick(std::vector<double>{-1e6, 1.5e6, nextdn(1.5e6), 0, -0.0, NAN, 1e7}); }
      if (k == 8) { lon = r.pick(std::vector<double>{-5e5, 2e6, nextdn(2e6), 0, -0.0, NAN, -1e7}); }
      if (k == 10) {
        // tile -1 (x + 10^5 is a rounded addition for -5*10^4 < x < 0), tiny negatives down to the subnormals, the carry threshold -2^-37 +- ulps (finding F74)
        auto neg = [&]() { int t = r.irange(0, 3);
          return t == 0 ? -std::ldexp(r.range(1, 2), r.irange(-1074, -30)) : t == 1 ? -nextup(std::ldexp(1.0, -37 - r.irange(0, 1)), r.irange(-2, 2)) :
                 t == 2 ? -r.range(0, 5e4) : nextup(-std::floor(r.range(0, 5e4) * 1e3) / 1e3, r.irange(-2, 2)); };
        if (r.coin()) lat = neg(); else lon = neg();
        if (r.irange(0, 3) == 0) { lat = neg(); lon = neg(); }
      }
      if (k == 11) {
        // tile 0, small coordinates: the digits beyond 1 m come from one rounded multiplication frac * 10^(p-5) (sliver class F2)
        auto sm = [&]() { int j = r.irange(1, 6); double v = r.irange(0, 999999) / std::pow(10.0, j); return nextup(v, r.irange(-2, 2)) + (r.coin() ? 0 : r.irange(0, 9)); };
        if (r.coin()) lat = std::fabs(sm()); else lon = std::fabs(sm());
      }
    } else {
      lat = k < 5 ? edge_value(r, c, false) : r.range(-90, 90); lon = k < 5 ? edge_value(r, c, true) : r.range(-180, 180);
      if (k == 9) lat = r.pick(std::vector<double>{90, -90, nextdn(90), 0, -0.0, NAN, 91, -90.0000001});
      if (k == 8) lon = r.pick(std::vector<double>{180, -180, 540, -540, 360, 1e17, nextdn(180), nextup(-180), NAN, 179.99999, INFINITY, -INFINITY});
      if (k == 7) lon += 360.0 * r.irange(-3, 3);
      if (k == 10) { lon = (r.coin() ? 180.0 : -180.0) + 360.0 * r.irange(-4, 4); if (r.coin()) lat = r.coin() ? 90 : -90; }   // lon = 180 + 360 k exactly, poles
      if (k == 11) { lat = r.coin() ? 90 : -90; }
      if (std::fabs(lat) > 90 && k != 9) lat = std::fmod(lat, 90);
    }
    int p = r.irange(pmin(c) - 1, pmax(c) + 1);
    run(std::string(cname[c]) + "_fwd", {hx(lat), hx(lon), std::to_string(p)});
    stratum(std::string(cname[c]) + (k < 5 ? "-edge" : k >= 10 ? "-special2" : k >= 7 ? "-special" : "-uniform"));
    std::string s;
    if (fwd(c, lat, lon, p, s).empty()) { pool[c].push_back(s); if (i < 8) sample(current_op() + " -> " + s); }
    // decoder inputs: valid codes (random case), mutations, random alphabet strings
    std::string t;
    int m = r.irange(0, 12);
    if (!pool[c].empty() && (m < 7 || m >= 10)) {
      t = r.pick(pool[c]);
      if (m >= 1 && m <= 2) t = r.coin() ? lo(t) : up(t);
      if (m == 3 && !t.empty()) t[r.irange(0, int(t.size()) - 1)] = r.pick(std::vector<char>{'I', 'O', 'A', 'a', 'Z', '9', '0', '6', '7', ' ', '\0', '-', char(0xe9), 'i', 'l'});
      if (m == 4 && !t.empty()) t.erase(r.irange(0, int(t.size()) - 1), 1);
      if (m == 5) t.insert(r.irange(0, int(t.size())), 1, alphabet[c][r.irange(0, int(std::strlen(alphabet[c])) - 1)]);
      if (m == 6 && c == OS) t.insert(r.irange(0, int(t.size())), 1, ' ');
      if (m == 6 && c != OS && t.size() > 5) t[r.irange(4, int(t.size()) - 1)] = char('0' + r.irange(5, 9));
      if (m == 10) {
        // leading / trailing junk: white space of every kind, NUL, punctuation, a letter, a high-bit byte
        std::string junk(1, r.pick(std::vector<char>{' ', '\t', '\n', '\v', '\f', '\r', '\0', '-', '.', 'x', 'Q', char(0xa0), char(0xff)}));
        int w = r.irange(0, 2); if (w != 1) t = junk + t; if (w != 0) t += junk;
      }
      if (m == 11) {
        // maximum and over-maximum lengths: the code of maximal precision, then 1..4 more characters of the digit alphabet
        std::string mx; fwd(c, c == OS ? 123456.789012 : 12.3456789, c == OS ? 654321.098765 : 34.56789012, pmax(c), mx);
        t = r.coin() ? lo(mx) : mx;
        int extra = r.irange(0, 4);
        for (int j = 0; j < extra; ++j) t += c == GH ? alphabet[c][r.irange(0, 31)] : char('0' + r.irange(0, 9));
        if (c == OS && r.coin()) for (int j = 0, ns = r.irange(1, 30); j < ns; ++j) t.insert(r.irange(0, int(t.size())), 1, r.pick(std::vector<char>{' ', '\t', '\n'}));
      }
      if (m == 12 && c == OS) {
        // OSGB: white space anywhere (also between the letters), lower case, "IN" prefix forms
        for (int j = 0, ns = r.irange(1, 6); j < ns; ++j) t.insert(r.irange(0, int(t.size())), 1, r.pick(std::vector<char>{' ', '\t', '\n', '\v', '\f', '\r'}));
        if (r.irange(0, 3) == 0) t = r.pick(std::vector<std::string>{"IN", "in", "In", "iN12", "I N", " IN", "INVALID", "IN\0"}) + (r.coin() ? t : "");
        if (r.coin()) t = lo(t);
      }
    } else {
      int len = r.irange(0, c == GH ? 22 : c == GA ? 9 : 30);
      for (int j = 0; j < len; ++j) t += alphabet[c][r.irange(0, int(std::strlen(alphabet[c])) - 1)];
      if (m == 9) t = r.pick(std::vector<std::string>{"INVALID", "invalid", "INV", "nan", "NAN", "IN", "", "in1234", "iNvAlId", "NaN", "inv", "Nan123456789012345678", "INVX", "NA"});
    }
    run(std::string(cname[c]) + "_rev", {hs(t), r.coin() ? "1" : "0"});
    stratum(std::string(cname[c]) + "-dec-" + (m < 3 || (m == 12 && c != OS) ? "valid" : m < 7 ? "mutated" : m < 10 ? "random" : m == 10 ? "junk" : m == 11 ? "maxlen" : "spaces"));
  }
  if (tier == "thorough") {
    // exhaustive low precision: all GARS cells to prec 1 on a lattice of interior points, all georef degree cells
    for (int ilon = 0; ilon < 720; ++ilon) for (int ilat = 0; ilat < 360; ++ilat) {
      double lon = -180 + (ilon + 0.37) / 2, lat = -90 + (ilat + 0.61) / 2;
      run("gars_fwd", {hx(lat), hx(lon), std::to_string((ilon + ilat) % 3)});
    }
    for (int ilon = 0; ilon < 360; ++ilon) for (int ilat = 0; ilat < 180; ++ilat)
      run("georef_fwd", {hx(-90 + ilat + 0.25), hx(-180 + ilon + 0.75), std::to_string((ilon * 7 + ilat) % 13 - 1)});
    // all 25 x 25 OSGB letter pairs (both cases) at 100 km and 10 km, and all 24 x 12 Georef tiles, through the decoders
    const char* L = "ABCDEFGHIJKLMNOPQRSTUVWXYZ";
    for (int i = 0; i < 26; ++i) for (int j = 0; j < 26; ++j) for (int cs = 0; cs < 2; ++cs) {
      std::string t; t += char(cs ? std::tolower(L[i]) : L[i]); t += L[j];
      run("osgb_rev", {hs(t), "1"}); run("osgb_rev", {hs(t + "37"), "0"}); run("georef_rev", {hs(t), "1"}); run("georef_rev", {hs(t + "GH"), "0"});
    }
    // every OSGB 100 km square at every precision: a point inside, encoded
    for (int ix = -10; ix < 15; ++ix) for (int iy = -5; iy < 20; ++iy)
      run("osgb_fwd", {hx(ix * 1e5 + 12345.678901), hx(iy * 1e5 + 98765.432109), std::to_string((ix + iy + 15) % 12)});
  }
}
int main(int argc, char** argv) { return gv::main_(argc, argv); }
