// C15: auxiliary latitudes (AuxLatitude / AuxAngle / DAuxLatitude), Ellipsoid, EllipticFunction
// Oracles: C15_oracle.hpp (quadrature of the defining integrals in long double, closed forms in __float128).
#include "common.hpp"
#include "C15_oracle.hpp"
#include <GeographicLib/AuxLatitude.hpp>
#include <GeographicLib/AuxAngle.hpp>
#include <GeographicLib/Ellipsoid.hpp>
#include <GeographicLib/EllipticFunction.hpp>
#include <GeographicLib/Geodesic.hpp>
#include <GeographicLib/GeodesicExact.hpp>
#include <GeographicLib/Rhumb.hpp>
#include <GeographicLib/TransverseMercator.hpp>
#include <GeographicLib/TransverseMercatorExact.hpp>
#include <GeographicLib/Math.hpp>
using namespace GeographicLib; using namespace gv; using namespace c15;

static const double EPS = std::ldexp(1.0, -53);          // half an ulp of 1
static const double DMIN = 4.9406564584124654e-324;
static std::string sci(long double x) { char b[64]; std::snprintf(b, sizeof b, "%.6Lg", x); return b; }
static std::string scid(double x) { char b[64]; std::snprintf(b, sizeof b, "%.17g", x); return b; }
static const char* AUXN[] = {"phi", "beta", "theta", "mu", "chi", "xi"};

// relative difference of two positive tangents given as (y, x) pairs / Q value; handles 0 and inf
static double tanrel(double y, double x, Q expect, double& allowance) {
  // returns |tan/expect - 1| ; `allowance` gets the part of a relative tolerance that denormal components need
  allowance = 0;
  Q t = (Q)std::fabs(y) / (Q)std::fabs(x);
  if (expect == 0 || isinfq(expect)) return t == expect ? 0 : INFINITY;
  if (std::fabs(y) < 1e-300 && y != 0) allowance += DMIN / std::fabs(y);
  if (std::fabs(x) < 1e-300 && x != 0) allowance += DMIN / std::fabs(x);
  Q r = t / expect - 1;
  return (double)fabsq(r);
}

// expected tangent of latitude `to` when latitude `from` has tangent |y/x| ; false if the oracle cannot invert
static Q g_tphi;    // tangent of the geographic latitude found by the last expect_tan
static bool expect_tan(const Ell& E, int from, int to, double y, double x, Q& out) {
  Q tz = (Q)std::fabs(y) / (Q)std::fabs(x);
  g_tphi = tz;
  if (tz == 0 || isinfq(tz)) { out = tz; return true; }
  // starting guess: undo the leading factor (1-f)^p
  Q p = from == 1 ? 1 : from == 2 ? 2 : from == 3 ? (Q)1.5 : from == 4 ? 2 : from == 5 ? (Q)(4.0 / 3) : 0;
  Q T0 = tz / powq(E.fm1, p), T;
  if (!auxinv(E, from, tz, T0, T)) return false;
  g_tphi = T;
  out = auxtan(E, to, T);
  // self-agreement of the quadrature at two depths
  if (to == 3 || to == 5) { Q o1 = auxtan(E, to, T, 1); if (fabsq(o1 / out - 1) > (Q)2e-18) return false; }
  return true;
}

// condition number used for the exact conversions: 16 ulp are multiplied by
//   1 + |e'2|, e'2 = e2/(1-e2): the defining formulas are functions of the stored (rounded) e2 = f(2-f) through 1 - e2 (...) ; the relative
//                      condition number of 1 - e2 with respect to e2 is |e2/(1-e2)| (1e4 for b/a = 0.01, 1 for b/a = 100)
//   + |psi_phi - psi_chi| when the conformal latitude is involved: tan(chi) = sinh(psi_phi - e atanh(e sin phi)), whose relative
//                      condition number with respect to the subtracted term is that term (157 for b/a = 100)
static double aux_cond(const Ell& E, double f, int from, int to, double y, double x, Q ex_to) {
  double c = 1 + std::fabs(f * (2 - f) / ((1 - f) * (1 - f)));
  if (from == 4 || to == 4) {
    Q tchi = to == 4 ? ex_to : (Q)std::fabs(y) / (Q)std::fabs(x), tphi = g_tphi;
    if (!isinfq(tchi) && !isinfq(tphi) && tchi > 0) c += (double)fabsq(asinhq(tphi) - asinhq(tchi));
  }
  return c;
}
// classes of known accuracy losses are tagged so that exactly they can be listed in known_findings.json
static std::string aux_class(double f, int from, int to) {
  if ((from == 5 || to == 5) && f <= -1) return "[class:authalic-prolate] ";
  return "";
}
static std::string nan_class(double f, int from, int to, double tin, double y, double x) {
  if ((from >= 3 || to == 4) && from != to && tin < 1e-300 && f != 0 && (std::isnan(y) || std::isnan(x))) return "[class:denormal-nan] ";
  if ((from >= 3 || to == 4) && from != to && tin > 1e100 && f != 0 && (std::isnan(y) || std::isnan(x))) return "[class:near-overflow-nan] ";
  return "";
}

// ----------------------------------------------------------------------------------------------------------------
// auxconv f from to y x : exact conversion of one AuxAngle; relative accuracy of the tangent against the oracle
// ----------------------------------------------------------------------------------------------------------------
static Reg r_auxconv("auxconv", [](const Args& a) {
  double f = unhx(a[0]); int from = std::stoi(a[1]), to = std::stoi(a[2]); double y = unhx(a[3]), x = unhx(a[4]);
  AuxLatitude aux(1.0, f);
  AuxAngle r = aux.Convert(from, to, AuxAngle(y, x), true);
  emit(hx(r.y()) + " " + hx(r.x()));
  if (std::isnan(y) || std::isnan(x)) return;
  // quadrant is preserved
  if (!(std::signbit(r.y()) == std::signbit(y) && std::signbit(r.x()) == std::signbit(x)) && from != to)
    bad("aux-quadrant", std::string("exact ") + AUXN[from] + "->" + AUXN[to] + ": signs of (y, x) not preserved");
  Ell E(f); Q ex;
  double tin = std::fabs(y / x);
  if ((std::isinf(tin) && x != 0) || (tin == 0 && y != 0)) {
    // the tangent of the argument is outside the range of the number type: only the limit is required
    stat("aux_tangent_out_of_range");
    double tout = std::fabs(r.y() / r.x());
    if (!(std::isinf(tin) ? tout > 1e300 : tout < 1e-300)) bad("aux-limit", std::string("exact ") + AUXN[from] + "->" + AUXN[to] + ": tangent beyond the floating-point range is not mapped to the limit");
    return;
  }
  if (!expect_tan(E, from, to, y, x, ex)) { stat("oracle_unsure"); return; }
  if (ex > (Q)1.7e308 || ex < (Q)DMIN) {   // the result is beyond the range of the number type: the limit (inf, or a few denormal quanta) is required
    stat("aux_tangent_out_of_range"); double tout = std::fabs(r.y() / r.x());
    if (!(ex > 1 ? tout > 1e300 : tout <= 64 * DMIN * (1 + 1 / std::sqrt(std::fabs(f * (2 - f)) + 1e-300))))
      bad("aux-limit", nan_class(f, from, to, tin, r.y(), r.x()) + std::string("exact ") + AUXN[from] + "->" + AUXN[to] + " f=" + scid(f) + " tan(in)=" + scid(y / x) + ": tan(out)=" + scid(tout) + " but the value " + sci((LD)ex) + " is beyond the floating-point range");
    return;
  }
  double allow, rel = tanrel(r.y(), r.x(), ex, allow);
  if (tin < 1e-290) allow += DMIN / tin; if (tin > 1e290) allow += DMIN * tin;
  if (ex < (Q)1e-290) allow += (double)(DMIN / ex); if (ex > (Q)1e290) allow += (double)(DMIN * ex);
  double cond = aux_cond(E, f, from, to, y, x, ex);
  if (f != 0) allow *= 1 + 1 / std::sqrt(std::fabs(f * (2 - f)));     // intermediates e sin(phi) lie deeper in the denormal range than the argument
  double tol = 32 * EPS * cond + 64 * allow;
  stat("aux_exact_compared");
  if (!(rel <= tol))
    bad("aux-exact-vs-definition", aux_class(f, from, to) + nan_class(f, from, to, tin, r.y(), r.x()) + std::string("exact ") + AUXN[from] + "->" + AUXN[to] + " f=" + scid(f) + " tan(in)=" + scid(y / x) + ": tan(out)=" + scid(r.y() / r.x()) +
        " oracle=" + sci((LD)ex) + " rel.err=" + sci(rel) + " tol=" + sci(tol));
});

// ----------------------------------------------------------------------------------------------------------------
// auxser f from to sz cz : series conversion of a normalized AuxAngle; the measured error goes to the Lean side, which
// knows the truncation bound of the extracted tables and runs the model of the series path
// ----------------------------------------------------------------------------------------------------------------
static Reg r_auxser("auxser", [](const Args& a) {
  double f = unhx(a[0]); int from = std::stoi(a[1]), to = std::stoi(a[2]); double y = unhx(a[3]), x = unhx(a[4]);
  AuxLatitude aux(1.0, f);
  AuxAngle r = aux.Convert(from, to, AuxAngle(y, x), false);
  Ell E(f); Q ex; double rel = NAN, allow = 0;
  double tin = std::fabs(y / x);
  if ((std::isinf(tin) && x != 0) || (tin == 0 && y != 0)) stat("aux_tangent_out_of_range");
  else if (!std::isnan(y) && !std::isnan(x) && expect_tan(E, from, to, y, x, ex)) { rel = tanrel(r.y(), r.x(), ex, allow); if (tin < 1e-290) allow += DMIN / tin; if (tin > 1e290) allow += DMIN * tin;
    if (ex < (Q)1e-290) allow += (double)(DMIN / ex); if (ex > (Q)1e290) allow += (double)(DMIN * ex); }
  else stat("oracle_unsure");
  if (allow > 0) rel = std::fmax(0.0, rel - 64 * allow * (f != 0 ? 1 + 1 / std::sqrt(std::fabs(f * (2 - f))) : 1));
  emit(hx(r.y()) + " " + hx(r.x()) + " " + hx(rel));
  // series against exact on the implementation itself
  AuxAngle re = aux.Convert(from, to, AuxAngle(y, x), true);
  (void)re;
});

// ----------------------------------------------------------------------------------------------------------------
// auxlaws f from to exact ya xa yb xb : oddness, fixed points, monotonicity (tan a <= tan b given)
// ----------------------------------------------------------------------------------------------------------------
static Reg r_auxlaws("auxlaws", [](const Args& a) {
  double f = unhx(a[0]); int from = std::stoi(a[1]), to = std::stoi(a[2]); bool exact = std::stoi(a[3]) != 0;
  double ya = unhx(a[4]), xa = unhx(a[5]), yb = unhx(a[6]), xb = unhx(a[7]);
  AuxLatitude aux(1.0, f);
  if (std::isnan(ya) || std::isnan(xa) || std::isnan(yb) || std::isnan(xb)) { emit("nan"); return; }
  std::string nm = std::string(exact ? "exact " : "series ") + AUXN[from] + "->" + AUXN[to] + " f=" + scid(f);
  AuxAngle ra = aux.Convert(from, to, AuxAngle(ya, xa), exact), rb = aux.Convert(from, to, AuxAngle(yb, xb), exact);
  emit(hx(ra.y()) + " " + hx(ra.x()) + " " + hx(rb.y()) + " " + hx(rb.x()));
  // odd
  AuxAngle rn = aux.Convert(from, to, AuxAngle(-ya, xa), exact);
  if (!(bits(rn.y()) == bits(-ra.y()) && bits(rn.x()) == bits(ra.x()))) bad("aux-odd", nm + ": Convert(-zeta) != -Convert(zeta) at tan=" + scid(ya / xa));
  // fixed points 0, +-90 (and the sign of zero)
  for (int s = 0; s < 2; ++s) {
    double sg = s ? -1.0 : 1.0;
    AuxAngle z = aux.Convert(from, to, AuxAngle(sg * 0.0, 1.0), exact);
    if (!(z.y() == 0 && std::signbit(z.y()) == (s == 1) && z.x() > 0)) bad("aux-fix-equator", nm + ": 0 is not mapped to 0 with its sign: (" + scid(z.y()) + ", " + scid(z.x()) + ")");
    AuxAngle p = aux.Convert(from, to, AuxAngle(sg * 1.0, 0.0), exact);
    if (!(std::isinf(p.y() / p.x()) && p.y() * sg > 0 && !std::signbit(p.x()))) bad("aux-fix-pole", nm + ": +-90 is not mapped to +-90: (" + scid(p.y()) + ", " + scid(p.x()) + ")");
    double d0 = aux.Convert(from, to, sg * 0.0, exact), d9 = aux.Convert(from, to, sg * 90.0, exact);
    if (!(d0 == 0 && d9 == sg * 90)) bad("aux-fix-degrees", nm + ": degree interface maps 0, +-90 to " + scid(d0) + ", " + scid(d9));
  }
  // monotone: tan a <= tan b  =>  tan out_a <= tan out_b  (first quadrant inputs)
  if (xa > 0 && xb > 0 && ya >= 0 && yb >= 0 && (Q)ya * (Q)xb <= (Q)yb * (Q)xa) {
    Q ta = (Q)ra.y() / (Q)ra.x(), tb = (Q)rb.y() / (Q)rb.x();
    // allow the round-off of the two evaluations: a few ulp of the value
    if (isnanq(ta) || isnanq(tb)) { if ((nan_class(f, from, to, std::fabs(ya / xa), ra.y(), ra.x()) + nan_class(f, from, to, std::fabs(yb / xb), rb.y(), rb.x())).empty()) bad("aux-nan", nm + ": NaN result for a finite angle, tan(in)=" + scid(ya / xa) + " or " + scid(yb / xb)); }
    else if (isinfq(tb)) {}
    else if (!(ta <= tb * (1 + (Q)(exact ? 64 * (1 + std::fabs(f * (2 - f) / ((1 - f) * (1 - f))) + ((from == 4) != (to == 4) && std::isfinite(ya / xa) && std::isfinite((double)ta) ? std::fabs(std::asinh(ya / xa) - std::asinh((double)ta)) : 0)) : 16) * EPS)) && !(std::fabs(ra.y()) < 1e-290 || std::fabs(ra.x()) < 1e-290))
      bad("aux-monotone", aux_class(f, from, to) + nm + ": tan(in) " + scid(ya / xa) + " <= " + scid(yb / xb) + " but tan(out) " + scid((double)ta) + " > " + scid((double)tb));
  }
});

// ----------------------------------------------------------------------------------------------------------------
// ellconv f fp n e2 ep2 epp2 : the flattening / eccentricity interconversions (values are compared with the Lean models)
// ----------------------------------------------------------------------------------------------------------------
static Reg r_ellconv("ellconv", [](const Args& a) {
  double aa = unhx(a[0]), f = unhx(a[1]);
  Ellipsoid e(aa, f);
  std::string o;
  o += hx(Ellipsoid::FlatteningToSecondFlattening(f)) + " " + hx(Ellipsoid::FlatteningToThirdFlattening(f)) + " " + hx(Ellipsoid::FlatteningToEccentricitySq(f)) + " " +
       hx(Ellipsoid::FlatteningToSecondEccentricitySq(f)) + " " + hx(Ellipsoid::FlatteningToThirdEccentricitySq(f)) + " ";
  o += hx(Ellipsoid::SecondFlatteningToFlattening(e.SecondFlattening())) + " " + hx(Ellipsoid::ThirdFlatteningToFlattening(e.ThirdFlattening())) + " " +
       hx(Ellipsoid::EccentricitySqToFlattening(e.EccentricitySq())) + " " + hx(Ellipsoid::SecondEccentricitySqToFlattening(e.SecondEccentricitySq())) + " " +
       hx(Ellipsoid::ThirdEccentricitySqToFlattening(e.ThirdEccentricitySq())) + " ";
  o += hx(e.PolarRadius()) + " " + hx(e.EccentricitySq()) + " " + hx(e.SecondEccentricitySq()) + " " + hx(e.ThirdFlattening()) + " " + hx(e.SecondFlattening()) + " " +
       hx(e.ThirdEccentricitySq()) + " " + hx(e.Volume());
  emit(o);
  // round trips on the implementation: each inverse recovers f to a few ulp times the conditioning of the pair
  double back[5] = {Ellipsoid::SecondFlatteningToFlattening(e.SecondFlattening()), Ellipsoid::ThirdFlatteningToFlattening(e.ThirdFlattening()),
                    Ellipsoid::EccentricitySqToFlattening(e.EccentricitySq()), Ellipsoid::SecondEccentricitySqToFlattening(e.SecondEccentricitySq()),
                    Ellipsoid::ThirdEccentricitySqToFlattening(e.ThirdEccentricitySq())};
  const char* nm[5] = {"second flattening", "third flattening", "eccentricity^2", "second eccentricity^2", "third eccentricity^2"};
  // relative condition number of f as a function of the intermediate quantity, and of the intermediate as computed from f
  double g = 1 - f, e2c = f * (2 - f);
  double cinv[5] = {std::fabs(g), std::fabs(1 - f / 2), std::fabs((2 - f) / (2 * g)), std::fabs((2 - f) * g / 2), std::fabs((1 + g) * (1 + g * g) / (4 * g))};
  double cfwd[5] = {1 + std::fabs(f / g), 1, 1, 1 + std::fabs(e2c / (1 - e2c)), 1};
  for (int i = 0; i < 5; ++i)
    if (!(f == 0 ? back[i] == 0 : std::fabs(back[i] - f) <= 8 * EPS * std::fabs(f) * (1 + cinv[i] * (1 + cfwd[i])))) bad("flattening-roundtrip", std::string(nm[i]) + ": f=" + scid(f) + " comes back as " + scid(back[i]));
  // definitions in long double
  LD F = f, b = (LD)aa * (1 - F), e2 = F * (2 - F);
  auto chk = [&](const char* what, double got, LD want, double ulps) {
    if (!(fabsl((LD)got - want) <= ulps * 2 * EPS * fabsl(want))) bad("ellipsoid-parameter", std::string(what) + ": got " + scid(got) + " want " + sci(want) + " (f=" + scid(f) + ")");
  };
  chk("b", e.PolarRadius(), b, 2); chk("e2", e.EccentricitySq(), e2, 4);
  chk("e'2 = (a^2-b^2)/b^2", e.SecondEccentricitySq(), e2 / ((1 - F) * (1 - F)), 4 + 2 * (double)fabsl(e2 / ((1 - F) * (1 - F))));
  chk("e''2 = (a^2-b^2)/(a^2+b^2)", e.ThirdEccentricitySq(), e2 / (1 + (1 - F) * (1 - F)), 8);
  chk("n = (a-b)/(a+b)", e.ThirdFlattening(), F / (2 - F), 4); chk("f' = (a-b)/b", e.SecondFlattening(), F / (1 - F), 4);
  chk("volume", e.Volume(), 4 * PIl * (LD)aa * aa * b / 3, 8);
});

// ----------------------------------------------------------------------------------------------------------------
// ellmeas a f phi azi : Ellipsoid inspectors against their defining expressions and against the other classes
// ----------------------------------------------------------------------------------------------------------------
static Reg r_ellmeas("ellmeas", [](const Args& a) {
  double aa = unhx(a[0]), f = unhx(a[1]), phi = unhx(a[2]), azi = unhx(a[3]);
  Ellipsoid e(aa, f); Ell E(f);
  double qm = e.QuarterMeridian(), ar = e.Area(), md = e.MeridianDistance(phi), cr = e.CircleRadius(phi), ch = e.CircleHeight(phi),
         rm = e.MeridionalCurvatureRadius(phi), rt = e.TransverseCurvatureRadius(phi), rn = e.NormalCurvatureRadius(phi, azi);
  emit(hx(qm) + " " + hx(ar) + " " + hx(md) + " " + hx(cr) + " " + hx(ch) + " " + hx(rm) + " " + hx(rt) + " " + hx(rn));
  auto chk = [&](const char* rel, const char* what, double got, LD want, double ulps) {
    if (!(fabsl((LD)got - want) <= ulps * 2 * EPS * fabsl(want) + 4 * DMIN * (1 + aa + std::fabs(aa * (1 - f)))))
      bad(rel, std::string(what) + ": got " + scid(got) + " want " + sci(want) + " rel.err " + sci(fabsl(((LD)got - want) / want)) + " (a=" + scid(aa) + " f=" + scid(f) + " phi=" + scid(phi) + ")");
  };
  // complete measures by quadrature
  LD sa, sb, sa1, sb1; arcs(E, 1.0L, 2, sa, sb); arcs(E, 1.0L, 1, sa1, sb1);
  LD qa, qb, qa1, qb1; qints(E, 1.0L, 2, qa, qb); qints(E, 1.0L, 1, qa1, qb1);
  double cf0 = std::fabs(f * (2 - f) / ((1 - f) * (1 - f)));
  if (agree(sa + sb, sa1 + sb1)) chk("quarter-meridian", "QuarterMeridian vs quadrature of the meridian arc", qm, (LD)aa * (sa + sb), 8 * (1 + cf0));
  if (agree(qa + qb, qa1 + qb1)) chk("ellipsoid-area", "Area vs quadrature of the zone area", ar, 2 * PIl * (LD)aa * aa * (qa + qb), 8 * (1 + cf0));
  if (!(std::fabs(phi) <= 90)) return;
  // latitude dependent
  LD ph = (LD)phi * (PIl / 180), sp = sinl(ph), cp = cosl(ph);
  if (std::fabs(phi) > 45) { LD co = (LD)(90 - std::fabs(phi)) * (PIl / 180); cp = sinl(co); sp = copysignl(cosl(co), (LD)phi); }   // 90 - |phi| is exact
  if (std::fabs(phi) == 90) cp = 0;
  double cf = std::fabs(f * (2 - f) / ((1 - f) * (1 - f)));
  LD e2 = (LD)E.e2, v = 1 - e2 * sp * sp, b = (LD)aa * (LD)E.fm1;
  double cond = 1 + (double)fabsl(3 * e2 * sp * sp / v) + 3 * cf;   // d log M / d log sin(phi) (sind carries half an ulp) and the conditioning in f
  chk("curvature", "MeridionalCurvatureRadius", rm, (LD)aa * (1 - e2) / (v * sqrtl(v)), 8 * cond);
  chk("curvature", "TransverseCurvatureRadius", rt, (LD)aa / sqrtl(v), 8 * cond);
  { LD az = (LD)azi * (PIl / 180), ca = cosl(az), sa_ = sinl(az), M = (LD)aa * (1 - e2) / (v * sqrtl(v)), Nn = (LD)aa / sqrtl(v);
    chk("curvature", "NormalCurvatureRadius (Euler)", rn, 1 / (ca * ca / M + sa_ * sa_ / Nn), 16 * cond + 8 * std::fabs(azi) / 45); }
  // parametric latitude: circle radius a cos(beta), height b sin(beta)
  LD tb = cp == 0 ? INFINITY : (LD)E.fm1 * fabsl(sp) / cp, cb = cp == 0 ? 0 : 1 / sqrtl(1 + tb * tb), sbt = cp == 0 ? 1 : tb * cb;
  if (cp != 0 || true) {
    double dcond = 1 + cf;
    // cos(phi) from sincosd is relatively accurate, so both are relatively accurate
    chk("circle", "CircleRadius = a cos(beta)", cr, (LD)aa * cb, 8 * dcond);
    chk("circle", "CircleHeight = b sin(beta)", ch, copysignl(b * sbt, sp), 8 * dcond);
  }
  // meridian distance = integral of the arc element from the equator; near the pole also as quarter meridian minus the rest
  if (cp != 0 && sp != 0) {
    LD s2, r2, s1, r1; arcs(E, tb, 2, s2, r2); arcs(E, tb, 1, s1, r1);
    if (agree(s2, s1) && agree(r2, r1)) {
      if (fabsl((LD)aa * s2) > 1e-290L) chk("meridian-distance", "MeridianDistance vs quadrature of the meridian arc", md, copysignl((LD)aa * s2, sp), 16 * (1 + cf));
      // the distance to the pole keeps its relative accuracy only as far as the degree argument allows: compare absolutely
      LD rest = (LD)qm - fabsl((LD)md), want = (LD)aa * r2;
      if (!(fabsl(rest - want) <= 16 * (1 + cf) * 2 * EPS * (LD)aa * (sa + sb))) bad("meridian-distance", "QuarterMeridian - MeridianDistance differs from the arc to the pole: " + sci(rest) + " vs " + sci(want));
    }
  }
  // the same quantities from the other classes
  if (a.size() > 4 && a[4] == "x") {
    double af = std::fabs(f);
    GeodesicExact gx(aa, f); chk("area-consistency", "GeodesicExact::EllipsoidArea", gx.EllipsoidArea(), (LD)ar, 8 * (1 + cf));
    if (af <= 0.02) { Geodesic g(aa, f); chk("area-consistency", "Geodesic::EllipsoidArea", g.EllipsoidArea(), (LD)ar, 8);
      double s12; g.Inverse(0, 0, 90, 0, s12); chk("quarter-consistency", "Geodesic equator-to-pole distance", s12, (LD)qm, 64); }
    if (f >= -1 && f <= 0.5) { double s12; gx.Inverse(0, 0, 90, 0, s12); chk("quarter-consistency", "GeodesicExact equator-to-pole distance", s12, (LD)qm, 64); }   // documented range b/a in [1/2, 2]
    { Rhumb rx(aa, f, true); chk("area-consistency", "Rhumb(exact)::EllipsoidArea", rx.EllipsoidArea(), (LD)ar, 8 * (1 + cf));
      double s12, az; rx.Inverse(0, 0, 90, 0, s12, az); chk("quarter-consistency", "Rhumb(exact) equator-to-pole distance", s12, (LD)qm, 64 * (1 + cf)); }
    if (af <= 1 / 150.0) { Rhumb rs(aa, f, false); chk("area-consistency", "Rhumb(series)::EllipsoidArea", rs.EllipsoidArea(), (LD)ar, 16);
      double s12, az; rs.Inverse(0, 0, 90, 0, s12, az); chk("quarter-consistency", "Rhumb(series) equator-to-pole distance", s12, (LD)qm, 64);
      AuxLatitude ax(aa, f);
      chk("radius-series", "RectifyingRadius(series) vs (exact)", ax.RectifyingRadius(false), (LD)ax.RectifyingRadius(true), 16);
      chk("radius-series", "AuthalicRadiusSquared(series) vs (exact)", ax.AuthalicRadiusSquared(false), (LD)ax.AuthalicRadiusSquared(true), 16);
      TransverseMercator tm(aa, f, 1.0);   // y(lat = 90, lon = 0) with k0 = 1 is the quarter meridian
      double xx, yy; tm.Forward(0, 90, 0, xx, yy); chk("quarter-consistency", "TransverseMercator northing of the pole", yy, (LD)qm, 64); }
    if (f > 0 && f < 0.9) { TransverseMercatorExact tx(aa, f, 1.0); double xx, yy; tx.Forward(0, 90, 0, xx, yy); chk("quarter-consistency", "TransverseMercatorExact northing of the pole", yy, (LD)qm, 64); }
    { EllipticFunction ee(f * (2 - f), 0, (1 - f) * (1 - f), 1);   // a E(e) for oblate; for prolate b E(e'-type) handled by the same k2 <= 1 form
      if (f >= 0) chk("quarter-consistency", "a * EllipticFunction(e^2).E()", aa * ee.E(), (LD)qm, 16 * (1 + cf)); }
  }
});

// ----------------------------------------------------------------------------------------------------------------
// elldeg a f phi : the degree interfaces of Ellipsoid (all ten latitude conversions and the isometric latitude)
// ----------------------------------------------------------------------------------------------------------------
static Reg r_elldeg("elldeg", [](const Args& a) {
  double aa = unhx(a[0]), f = unhx(a[1]), phi = unhx(a[2]);
  Ellipsoid e(aa, f); Ell E(f);
  double out[5] = {e.ParametricLatitude(phi), e.GeocentricLatitude(phi), e.RectifyingLatitude(phi), e.ConformalLatitude(phi), e.AuthalicLatitude(phi)};
  double inv[5] = {e.InverseParametricLatitude(out[0]), e.InverseGeocentricLatitude(out[1]), e.InverseRectifyingLatitude(out[2]), e.InverseConformalLatitude(out[3]), e.InverseAuthalicLatitude(out[4])};
  double psi = e.IsometricLatitude(phi), ipsi = e.InverseIsometricLatitude(psi);
  std::string o; for (int i = 0; i < 5; ++i) o += hx(out[i]) + " "; for (int i = 0; i < 5; ++i) o += hx(inv[i]) + " "; o += hx(psi) + " " + hx(ipsi);
  emit(o);
  if (!(std::fabs(phi) <= 90)) { for (int i = 0; i < 5; ++i) if (!std::isnan(out[i])) bad("latfix", "latitude beyond 90 degrees must give NaN"); return; }
  double sp, cp; Math::sincosd(phi, sp, cp);
  Q T = (Q)std::fabs(sp) / (Q)cp;
  double cf = std::fabs(f * (2 - f) / ((1 - f) * (1 - f)));
  for (int i = 0; i < 5; ++i) {
    Q ex = auxtan(E, i + 1, T);
    LD want = (LD)(atanq(ex) * 180 / PIq), sc = (LD)(ex / (1 + ex * ex));       // sin cos of the result
    if (isinfq(ex)) { want = 90; sc = 0; }
    double cnd = 1 + cf + (i == 3 && !isinfq(T) && T > 0 ? (double)fabsq(asinhq(T) - asinhq(ex)) : 0);
    LD tol = 4 * ulp((double)want) + 32 * EPS * cnd * sc * (180 / PIl) + 4 * DMIN;
    if (!(fabsl((LD)std::fabs(out[i]) - want) <= tol && (out[i] == 0 || std::signbit(out[i]) == std::signbit(phi))))
      bad("latitude-degrees", aux_class(f, 0, i + 1) + std::string(AUXN[i + 1]) + "(phi=" + scid(phi) + " deg) = " + scid(out[i]) + " want " + sci(want) + " (f=" + scid(f) + ")");
    // inverse composes to the identity, to the accuracy the degree representation of the intermediate allows
    LD dl = (T == 0 || isinfq(T)) ? 1 : (LD)(auxdlog(E, i + 1, T));                // d log tan(aux) / d log tan(phi)
    LD scphi = (LD)(T / (1 + T * T)); if (isinfq(T)) scphi = 0;
    LD tol2 = 4 * ulp(phi) + 8 * ulp(out[i]) * (sc > 0 ? scphi / (sc * dl) : 1) + 64 * EPS * cnd * scphi * (180 / PIl) + 4 * DMIN;
    if (i == 4 && f <= -1) continue;   // [class:authalic-prolate], reported through auxconv
    if (tol2 < 1e-3 && !(fabsl((LD)inv[i] - (LD)phi) <= tol2)) bad("latitude-roundtrip", std::string("Inverse") + AUXN[i + 1] + "(" + AUXN[i + 1] + "(phi)) = " + scid(inv[i]) + " for phi = " + scid(phi) + " (f=" + scid(f) + ", tol " + sci(tol2) + ")");
  }
  // isometric latitude psi = asinh(tan chi) in degrees
  { Q ex = auxtan(E, 4, T); LD want = (LD)(asinhq(ex) * 180 / PIq);
    if (isinfq(ex)) { if (!std::isinf(psi)) bad("isometric", "IsometricLatitude(+-90) must be infinite"); }
    else {
      double cnd = 1 + cf + (T > 0 ? (double)fabsq(asinhq(T) - asinhq(ex)) : 0);
      if (!(fabsl((LD)std::fabs(psi) - want) <= 32 * EPS * cnd * fmaxl(want, 1e-300L) + 4 * DMIN)) bad("isometric", "IsometricLatitude(" + scid(phi) + ") = " + scid(psi) + " want " + sci(want) + " (f=" + scid(f) + ")");
      LD scphi = (LD)(T / (1 + T * T)), dl = T == 0 ? 1 : (LD)auxdlog(E, 4, T), cpsi = ex == 0 ? 1 : (LD)(sqrtq(1 + ex * ex) / ex) * fabsl((LD)psi) * (PIl / 180);  // d log tan chi / d log psi
      LD tol3 = 4 * ulp(phi) + 64 * EPS * cnd * scphi * (180 / PIl) * (1 + cpsi / dl) + 4 * DMIN;
      if (tol3 < 1e-3 && !(fabsl((LD)ipsi - (LD)phi) <= tol3)) bad("isometric", "InverseIsometricLatitude(IsometricLatitude(phi)) = " + scid(ipsi) + " for phi = " + scid(phi) + " (f=" + scid(f) + ")");
    }
  }
});

// ----------------------------------------------------------------------------------------------------------------
// Elliptic integrals.  ellinc k2 alpha2 kp2 alphap2 phi
// ----------------------------------------------------------------------------------------------------------------
static const char* LEGN[] = {"F", "E", "D", "Pi", "G", "H"};

struct LegRef { bool ok; LD comp[6], inc[6], val[6], cond[6]; long m; int sg; LD r, gr; };
static LegRef legref(const EllPar& P, double phi) {
  LegRef R; R.ok = false;
  reduce(phi, R.m, R.sg, R.r, R.gr);
  LD c1[6], c2[6], i1[6], i2[6];
  bool needc = R.m != 0;
  bool sing = (P.kp2 == 0 || P.ap2 == 0);
  if (sing && (needc || R.gr == 0)) return R;
  if (needc) { legendre(P, PIl / 2, 0, 1, c1); legendre(P, PIl / 2, 0, 2, c2); } else for (int k = 0; k < 6; ++k) c1[k] = c2[k] = 0;
  legendre(P, R.r, R.gr, 1, i1); legendre(P, R.r, R.gr, 2, i2);
  LD v[6]; P.integrand(sinl(R.r), R.r > PIl / 4 ? sinl(R.gr) : cosl(R.r), v);
  LD s = sinl(R.r), c = R.r > PIl / 4 ? sinl(R.gr) : cosl(R.r);
  for (int k = 0; k < 6; ++k) {
    if (!agree(c1[k], c2[k]) || !(agree(i1[k], i2[k]) || i2[k] == 0)) return R;
    R.comp[k] = c2[k]; R.inc[k] = i2[k];
    R.val[k] = 2 * R.m * c2[k] + R.sg * i2[k];
    R.cond[k] = 1 + (R.val[k] != 0 ? fabsl(v[k] * s * c / R.val[k]) : 0);
  }
  // Pi, G, H for alpha2 < 0 are represented as F + alpha2 (...) with cancellation: accuracy relative to F (resp. max(F, E) for G)
  // H = F - alphap2 (...) cancels for every alpha2 (the source warns about it): always relative to F
  if (P.a2 >= 0 && R.val[5] != 0) R.cond[5] += fabsl(R.val[0] / R.val[5]);
  if (P.a2 < 0) for (int k = 3; k < 6; ++k) if (R.val[k] != 0) R.cond[k] += fabsl((k == 4 ? fmaxl(fabsl(R.val[0]), fabsl(R.val[1])) : fabsl(R.val[0])) / R.val[k]);
  R.ok = true; return R;
}

// Pi, G, H go through RJ(cn2, dn2, 1, cn2 + alphap2 sn2); when its arguments are spread over more than four decades RJ loses
// accuracy (class RJ-wide-spread, see the carlson op): tag those cases
static std::string third_class(const EllPar& P, int k) {
  if (k < 3) return "";
  LD lo = fminl(fminl(P.kp2, P.ap2), 1), hi = fmaxl(fmaxl(P.kp2, P.ap2), 1);
  return hi / lo > 1e2L ? "[class:RJ-wide-spread] " : "";
}

static Reg r_ellinc("ellinc", [](const Args& a) {
  double k2 = unhx(a[0]), a2 = unhx(a[1]), kp2 = unhx(a[2]), ap2 = unhx(a[3]), phi = unhx(a[4]);
  EllipticFunction ell(k2, a2, kp2, ap2);
  double got[6] = {ell.F(phi), ell.E(phi), ell.D(phi), ell.Pi(phi), ell.G(phi), ell.H(phi)};
  std::string o; for (int k = 0; k < 6; ++k) o += hx(got[k]) + " "; emit(o);
  if (!std::isfinite(phi)) return;
  EllPar P(k2, a2, kp2, ap2);
  std::string par = " (k2=" + scid(k2) + " kp2=" + scid(kp2) + " alpha2=" + scid(a2) + " alphap2=" + scid(ap2) + " phi=" + scid(phi) + ")";
  LegRef R = legref(P, phi);
  if (!R.ok) { stat("oracle_unsure"); }
  else {
    stat("ell_inc_compared");
    for (int k = 0; k < 6; ++k) {
      if (P.kp2 == 0 && k != 1) continue;                        // k2 = 1: only E(phi) is claimed beyond |phi| < pi/2 (F has its own closed form)
      LD tol = 32 * EPS * R.cond[k] * fabsl(R.val[k]) + 4 * DMIN;
      if (!(fabsl((LD)got[k] - R.val[k]) <= tol))
        bad("elliptic-incomplete-vs-integral", third_class(P, k) + std::string(LEGN[k]) + "(phi) = " + scid(got[k]) + " but the defining integral is " + sci(R.val[k]) + ", rel.err " +
            sci(fabsl(((LD)got[k] - R.val[k]) / R.val[k])) + " cond " + sci(R.cond[k]) + par);
    }
    // periodic parts delta X = X(phi) (pi/2)/X(pi/2) - phi  (needs the complete integral even for m = 0)
    LD c2[6], c1[6]; legendre(P, PIl / 2, 0, 2, c2); legendre(P, PIl / 2, 0, 1, c1);
    double sn = std::sin(phi), cn = std::cos(phi), dn = ell.Delta(sn, cn);
    double dgot[6] = {ell.deltaF(sn, cn, dn), ell.deltaE(sn, cn, dn), ell.deltaD(sn, cn, dn), ell.deltaPi(sn, cn, dn), ell.deltaG(sn, cn, dn), ell.deltaH(sn, cn, dn)};
    if (P.kp2 > 0 && P.ap2 > 0) for (int k = 0; k < 6; ++k) if (agree(c1[k], c2[k])) {
      // delta is periodic with period pi: evaluate at the reduced angle
      LD rr = R.sg * R.r, t1 = R.sg * R.inc[k] * (PIl / 2) / c2[k], want = t1 - rr;
      LD cc = 1; if (P.a2 < 0 && k >= 3) cc += (k == 4 ? fmaxl(c2[0], c2[1]) : c2[0]) / c2[k]; else if (k == 5) cc += c2[0] / c2[5];     // the complete integral in the denominator
      LD tol = 32 * EPS * ((R.cond[k] + cc) * fabsl(t1) + fabsl(rr)) + 4 * DMIN;
      // sin/cos of a large phi are exact for that phi, no extra allowance
      if (!(fabsl((LD)dgot[k] - want) <= tol)) bad("elliptic-periodic-part", third_class(P, k) + std::string("delta") + LEGN[k] + " = " + scid(dgot[k]) + " want " + sci(want) + par);
    }
  }
  // laws on the implementation (no oracle): odd, reflection X(pi - phi) = 2 X(pi/2) - X(phi) through the (sn, cn, dn) interface, monotone
  double sn = std::sin(phi), cn = std::cos(phi), dn = ell.Delta(sn, cn);
  if (P.kp2 > 0 && P.ap2 > 0) {
    double comp[6] = {ell.K(), ell.E(), ell.D(), ell.Pi(), ell.G(), ell.H()};
    double p[6] = {ell.F(sn, cn, dn), ell.E(sn, cn, dn), ell.D(sn, cn, dn), ell.Pi(sn, cn, dn), ell.G(sn, cn, dn), ell.H(sn, cn, dn)};
    double q[6] = {ell.F(sn, -cn, dn), ell.E(sn, -cn, dn), ell.D(sn, -cn, dn), ell.Pi(sn, -cn, dn), ell.G(sn, -cn, dn), ell.H(sn, -cn, dn)};
    double n[6] = {ell.F(-sn, cn, dn), ell.E(-sn, cn, dn), ell.D(-sn, cn, dn), ell.Pi(-sn, cn, dn), ell.G(-sn, cn, dn), ell.H(-sn, cn, dn)};
    for (int k = 0; k < 6; ++k) {
      if (!(n[k] == -p[k])) bad("elliptic-odd", std::string(LEGN[k]) + "(-sn, cn, dn) != -" + LEGN[k] + "(sn, cn, dn)" + par);
      double sg = sn < 0 ? -1 : 1;
      if (!(std::fabs(p[k] + q[k] - sg * 2 * comp[k]) <= 16 * EPS * 2 * std::fabs(comp[k])))
        bad("elliptic-reflection", third_class(P, k) + std::string(LEGN[k]) + "(sn, cn, dn) + " + LEGN[k] + "(sn, -cn, dn) = " + scid(p[k] + q[k]) + " != 2 " + LEGN[k] + "() = " + scid(sg * 2 * comp[k]) + par);
    }
  }
});

// ellmono k2 alpha2 kp2 alphap2 phi1 phi2 : monotonicity in phi of all six (phi1 < phi2), and Ed against E
static Reg r_ellmono("ellmono", [](const Args& a) {
  double k2 = unhx(a[0]), a2 = unhx(a[1]), kp2 = unhx(a[2]), ap2 = unhx(a[3]), p1 = unhx(a[4]), p2 = unhx(a[5]);
  EllipticFunction ell(k2, a2, kp2, ap2);
  double g1[6] = {ell.F(p1), ell.E(p1), ell.D(p1), ell.Pi(p1), ell.G(p1), ell.H(p1)}, g2[6] = {ell.F(p2), ell.E(p2), ell.D(p2), ell.Pi(p2), ell.G(p2), ell.H(p2)};
  std::string o; for (int k = 0; k < 6; ++k) o += hx(g1[k]) + " " + hx(g2[k]) + " "; emit(o);
  std::string par = " (k2=" + scid(k2) + " alpha2=" + scid(a2) + " phi1=" + scid(p1) + " phi2=" + scid(p2) + ")";
  if (!(p1 < p2) || kp2 == 0 || ap2 == 0) return;
  for (int k = 0; k < 6; ++k) {
    double slack = 64 * EPS * (std::fabs(g1[k]) + std::fabs(g2[k]) + (a2 < 0 && k >= 3 ? 2 * std::fmax(std::fabs(g1[0]), std::fabs(g1[1])) : 0));
    EllPar P0(k2, a2, kp2, ap2);
    if (!(g1[k] <= g2[k] + slack)) bad("elliptic-monotone", third_class(P0, k) + std::string(LEGN[k]) + "(phi) decreases: " + scid(g1[k]) + " > " + scid(g2[k]) + par);
  }
  // Ed(ang) = E(ang in radians)
  double ang = p1 * 180 / M_PI; double ed = ell.Ed(ang);
  EllPar P(k2, a2, kp2, ap2); LegRef R = legref(P, (double)((LD)ang * (PIl / 180)));
  if (R.ok) {
    // the argument in radians is not exactly representable: allow its half-ulp through the derivative
    LD dv = sqrtl(P.delta2(sinl(R.r), cosl(R.r)));
    LD tol = 32 * EPS * R.cond[1] * fabsl(R.val[1]) + 4 * EPS * std::fabs(ang) * (PIl / 180) * dv;
    if (!(fabsl((LD)ed - R.val[1]) <= tol)) bad("elliptic-Ed", "Ed(" + scid(ang) + " deg) = " + scid(ed) + " want " + sci(R.val[1]) + par);
  }
});

// ellcomp k2 alpha2 kp2 alphap2 : complete integrals
static Reg r_ellcomp("ellcomp", [](const Args& a) {
  double k2 = unhx(a[0]), a2 = unhx(a[1]), kp2 = unhx(a[2]), ap2 = unhx(a[3]);
  EllipticFunction ell(k2, a2, kp2, ap2);
  double got[7] = {ell.K(), ell.E(), ell.D(), ell.Pi(), ell.G(), ell.H(), ell.KE()};
  std::string o; for (int k = 0; k < 7; ++k) o += hx(got[k]) + " "; emit(o);
  EllPar P(k2, a2, kp2, ap2);
  std::string par = " (k2=" + scid(k2) + " kp2=" + scid(kp2) + " alpha2=" + scid(a2) + " alphap2=" + scid(ap2) + ")";
  if (P.kp2 == 0 || P.ap2 == 0) {
    // documented limits: K, D, Pi infinite at k2 = 1; E(1) = 1
    if (P.kp2 == 0 && !(got[1] == 1 && std::isinf(got[0]))) bad("elliptic-complete-limit", "k2 = 1: E() must be 1 and K() infinite" + par);
    return;
  }
  LD c1[6], c2[6]; legendre(P, PIl / 2, 0, 1, c1); legendre(P, PIl / 2, 0, 2, c2);
  stat("ell_comp_compared");
  for (int k = 0; k < 6; ++k) {
    if (!agree(c1[k], c2[k])) { stat("oracle_unsure"); continue; }
    LD cc = 1; if (P.a2 < 0 && k >= 3) cc += (k == 4 ? fmaxl(c2[0], c2[1]) : c2[0]) / c2[k]; else if (k == 5) cc += c2[0] / c2[5];
    if (!(fabsl((LD)got[k] - c2[k]) <= 32 * EPS * cc * fabsl(c2[k])))
      bad("elliptic-complete-vs-integral", third_class(P, k) + std::string(LEGN[k]) + "() = " + scid(got[k]) + " but the defining integral is " + sci(c2[k]) + ", rel.err " + sci(fabsl(((LD)got[k] - c2[k]) / c2[k])) + par);
  }
  if (agree(c1[0], c2[0]) && agree(c1[2], c2[2]) && !(fabsl((LD)got[6] - P.k2 * c2[2]) <= 32 * EPS * fabsl(P.k2 * c2[2]))) bad("elliptic-complete-vs-integral", "KE() != K - E = k2 D" + par);
});

// ellinv k2 kp2 x : Einv, deltaEinv, am, sncndn
static Reg r_ellinv("ellinv", [](const Args& a) {
  double k2 = unhx(a[0]), kp2 = unhx(a[1]), x = unhx(a[2]);
  EllipticFunction ell(k2, 0, kp2, 1);
  double phi = ell.Einv(x), sn, cn, dn, amx = ell.am(x), s2, c2, d2; ell.sncndn(x, sn, cn, dn); double am2 = ell.am(x, s2, c2, d2);
  emit(hx(phi) + " " + hx(amx) + " " + hx(sn) + " " + hx(cn) + " " + hx(dn) + " " + hx(am2) + " " + hx(s2) + " " + hx(c2) + " " + hx(d2));
  EllPar P(k2, 0, kp2, 1);
  std::string par = " (k2=" + scid(k2) + " kp2=" + scid(kp2) + " x=" + scid(x) + ")";
  if (P.kp2 <= 0) return;
  // E(Einv(x)) = x : the returned phi carries half an ulp, worth Delta(phi) ulp(phi) in E
  { LegRef R = legref(P, phi);
    if (R.ok) { LD dv = sqrtl(P.delta2(sinl(R.r), R.r > PIl / 4 ? sinl(R.gr) : cosl(R.r)));
      LD tol = 32 * EPS * (fabsl((LD)x) + dv * fabsl((LD)phi)) + 4 * DMIN;
      if (!(fabsl(R.val[1] - (LD)x) <= tol)) bad("elliptic-Einv", std::string(k2 < -1 ? "[class:large-negative-k2] " : "") + "E(Einv(x)) - x = " + sci(R.val[1] - (LD)x) + " (tolerance " + sci(tol) + ") for x = " + scid(x) + " (Einv = " + scid(phi) + ")" + par); }
    else stat("oracle_unsure"); }
  // F(am(x)) = x
  { LegRef R = legref(P, amx);
    if (R.ok) { LD dv = sqrtl(P.delta2(sinl(R.r), R.r > PIl / 4 ? sinl(R.gr) : cosl(R.r)));
      LD tol = 32 * EPS * (fabsl((LD)x) + fabsl((LD)amx) / dv) * 8 + 4 * DMIN;   // x 8: am is built from ~8 AGM/Landen stages, each worth an ulp of the angle
      if (!(fabsl(R.val[0] - (LD)x) <= tol)) bad("elliptic-am", std::string(k2 < -1 ? "[class:large-negative-k2] " : "") + "F(am(x)) - x = " + sci(R.val[0] - (LD)x) + " (tolerance " + sci(tol) + ") for x = " + scid(x) + " (am = " + scid(amx) + ")" + par); }
    else stat("oracle_unsure"); }
  // sn, cn, dn: on the unit circle, dn^2 = 1 - k2 sn^2, and consistent with am
  if (!(std::fabs(sn * sn + cn * cn - 1) <= 16 * EPS)) bad("elliptic-sncndn", "sn^2 + cn^2 != 1" + par);
  { LD want = P.k2 > 0 ? P.kp2 + P.k2 * (LD)cn * cn : 1 - P.k2 * (LD)sn * sn;
    if (!(fabsl((LD)dn * dn - want) <= 64 * EPS * fmaxl(want, fabsl(P.k2) * (LD)sn * sn))) bad("elliptic-sncndn", "dn^2 != 1 - k2 sn^2: dn=" + scid(dn) + par); }
  { // the angle of (sn, cn) equals am(x) modulo 2 pi, to the accuracy x determines it: d am/dx = dn
    double d = std::remainder(std::atan2(sn, cn) - amx, 2 * M_PI);
    double tol = 64 * EPS * (std::fabs(x) * std::fmax(dn, 1.0) * (1 + 1 / std::fmax(dn, 1e-300) * 0) + std::fabs(amx)) + 64 * EPS;
    if (!(std::fabs(d) <= tol)) bad("elliptic-sncndn", "atan2(sn, cn) = " + scid(std::atan2(sn, cn)) + " but am(x) = " + scid(amx) + par);
    if (!(std::fabs(s2 - std::sin(amx)) <= 4 * EPS && std::fabs(c2 - std::cos(amx)) <= 4 * EPS && am2 == amx)) bad("elliptic-am", "am(x, sn, cn, dn) inconsistent with am(x)" + par); }
  // deltaEinv(stau, ctau) = Einv(tau E/(pi/2)) - tau
  { double tau = std::remainder(x, M_PI); double st = std::sin(tau), ct = std::cos(tau), de = ell.deltaEinv(st, ct);
    if (ct > 0) { double w = ell.Einv(tau * ell.E() / (M_PI / 2)) - tau; if (!(std::fabs(de - w) <= 64 * EPS * (std::fabs(tau) + 1))) bad("elliptic-Einv", "deltaEinv inconsistent with Einv" + par); } }
});

// carlson x y z p
static Reg r_carlson("carlson", [](const Args& a) {
  double x = unhx(a[0]), y = unhx(a[1]), z = unhx(a[2]), p = unhx(a[3]);
  std::string par = " (x=" + scid(x) + " y=" + scid(y) + " z=" + scid(z) + " p=" + scid(p) + ")";
  std::string o, cls;
  auto cmp = [&](const char* nm, double got, LD w1, LD w2, double ulps) {
    o += hx(got) + " ";
    if (!agree(w1, w2, 1e-16L)) { stat("oracle_unsure"); return; }
    stat("carlson_compared");
    if (!(fabsl((LD)got - w2) <= ulps * 2 * EPS * fabsl(w2))) bad("carlson-vs-integral", cls + std::string(nm) + " = " + scid(got) + " but the defining integral is " + sci(w2) + ", rel.err " + sci(fabsl(((LD)got - w2) / w2)) + par);
  };
  int nz = (x == 0) + (y == 0) + (z == 0);
  if (nz <= 1) {
    cmp("RF(x,y,z)", EllipticFunction::RF(x, y, z), Carl::RF(x, y, z, 1), Carl::RF(x, y, z, 2), 16);
    cls = (x - z) * (y - z) > 0 && x * y * z != 0 ? "[class:RG-z-not-median] " : "";
    cmp("RG(x,y,z)", EllipticFunction::RG(x, y, z), Carl::RG(x, y, z, 1), Carl::RG(x, y, z, 2), 16);
    cls = "";
  }
  if (x > 0 && y > 0) {
    cmp("RF(x,y)", EllipticFunction::RF(x, y), Carl::RF(x, y, 0, 1), Carl::RF(x, y, 0, 2), 16);
    cmp("RG(x,y)", EllipticFunction::RG(x, y), Carl::RG(x, y, 0, 1), Carl::RG(x, y, 0, 2), 16);
  }
  if (y > 0) cmp("RC(x,y)", EllipticFunction::RC(x, y), Carl::RC(x, y, 1), Carl::RC(x, y, 2), 16);
  if (z > 0 && !(x == 0 && y == 0)) cmp("RD(x,y,z)", EllipticFunction::RD(x, y, z), Carl::RD(x, y, z, 1), Carl::RD(x, y, z, 2), 16);
  { double mn = INFINITY, mx = 0; for (double v : {x, y, z, p}) if (v > 0) { mn = std::fmin(mn, v); mx = std::fmax(mx, v); }
    cls = mx / mn > 1e2 ? "[class:RJ-wide-spread] " : (mx > 1e60 || mn < 1e-60) ? "[class:RJ-extreme-scale] " : ""; }
  if (p > 0 && nz <= 1) cmp("RJ(x,y,z,p)", EllipticFunction::RJ(x, y, z, p), Carl::RJ(x, y, z, p, 1), Carl::RJ(x, y, z, p, 2), 16);
  emit(o);
});

#include "C15_model_ops.hpp"

// ----------------------------------------------------------------------------------------------------------------
// generators
// ----------------------------------------------------------------------------------------------------------------
static void aux_angle(Rng& r, bool prolate_hint, double& y, double& x, std::string& st) {
  int k = r.irange(0, 11);
  y = 1; x = 1;
  switch (k) {
  case 0: { double d = r.range(0, 90); Math::sincosd(d, y, x); st = "uniform"; break; }
  case 1: { int e = r.irange(1, 15); double d = std::pow(10.0, -e) * r.range(1, 10); Math::sincosd(90 - d, y, x); st = "pole-1e-k"; break; }       // 90 - 10^-k degrees
  case 2: { int e = r.irange(1, 300); y = 1; x = std::pow(10.0, -e) * r.range(1, 10); st = "pole-tangent-1e+k"; break; }                                  // tangents up to 1e300
  case 3: { int e = r.irange(1, 300); y = std::pow(10.0, -e) * r.range(1, 10); x = 1; st = "equator-tangent-1e-k"; break; }
  case 4: { y = DMIN * r.irange(1, 1 << r.irange(0, 30)); x = 1; st = "denormal-tangent"; break; }
  case 5: { x = DMIN * r.irange(1, 1 << r.irange(0, 30)); y = 1; st = "denormal-cotangent"; break; }
  case 6: { int e = r.irange(1, 15); double d = std::pow(10.0, -e) * r.range(1, 10); Math::sincosd(d, y, x); st = "equator-1e-k"; break; }
  case 7: { double d = r.pick(std::vector<double>{45, 30, 60, 89, 1, 89.999999, 1e-6}); Math::sincosd(d, y, x); st = "anchors"; break; }
  case 8: { double t = std::exp(r.range(-40, 40)); y = t; x = 1; if (r.coin()) { double h = std::hypot(y, x); y /= h; x /= h; } st = "log-uniform-tangent"; break; }
  case 9: { double d = r.range(0, 90); Math::sincosd(d, y, x); double s = std::ldexp(1.0, r.irange(-500, 500)); y *= s; x *= s; st = "unnormalized"; break; }
  case 10: { y = 1; x = nextup(1.0, r.irange(-3, 3)); st = "near-45"; break; }
  default: { double d = r.range(0, 90); Math::sincosd(d, y, x); st = "uniform"; break; }
  }
  (void)prolate_hint;
}

static double pick_f(Rng& r, bool series_ok, std::string& st) {
  static const std::vector<double> small = {1 / 298.257223563, 1 / 150.0, -1 / 150.0, 1 / 297.0, 1e-3, -1e-3, 0.0, 1 / 200.0, -1 / 298.257223563, 1e-6};
  static const std::vector<double> big = {0.1, -0.1, 0.5, -1.0, 0.9, 0.99, -99.0, 0.01, -0.01, 0.25, -3.0, 0.75, -9.0, 0.02, -0.02};
  if (series_ok) { if (r.irange(0, 3) == 0) { st = "f-random-small"; return r.range(-1 / 150.0, 1 / 150.0); } st = "f-small"; return r.pick(small); }
  int k = r.irange(0, 5);
  if (k == 0) { st = "f-oblate-log"; return 1 - std::pow(10.0, -r.range(0, 2)); }            // b/a in [0.01, 1]
  if (k == 1) { st = "f-prolate-log"; return 1 - std::pow(10.0, r.range(0, 2)); }              // b/a in [1, 100]
  st = "f-list"; return r.pick(big);
}

void gv::generate(const std::string& tier, uint64_t seed) {
  Rng r(seed * 7919 + 15);
  bool th = tier == "thorough";
  long naux = th ? 2500 : 130, nell = th ? 40000 : 2500, ncarl = th ? 12000 : 700, nmeas = th ? 4000 : 250;
  // --- auxiliary latitudes: for one geographic latitude and ellipsoid all 36 (from, to) pairs, exact and (small f) series
  for (long i = 0; i < naux; ++i) {
    bool small = i % 2 == 0; std::string sf, sa;
    double f = pick_f(r, small, sf), y, x; aux_angle(r, f < 0, y, x, sa);
    if (i < 12) { // the regions the tangent formulation is for: next to the pole (oblate) and next to the equator (prolate)
      static const double ff[4] = {1 / 298.257223563, -1 / 150.0, 0.1, -0.1};
      f = ff[i % 4]; sf = "f-anchor"; int e = 3 * (int)(i / 4) + 9;
      if (f > 0) { y = 1; x = std::pow(10.0, -e); sa = "pole-tangent-1e+k"; } else { y = std::pow(10.0, -e); x = 1; sa = "equator-tangent-1e-k"; }
    }
    stratum(sf); stratum(sa);
    AuxLatitude aux(1.0, f);
    for (int from = 0; from < 6; ++from) {
      AuxAngle z = aux.ToAuxiliary(from, AuxAngle(y, x));
      if (from > 0 && r.irange(0, 3) == 0) z = z.normalized();
      double sy = r.coin() ? -1 : 1, sx = r.irange(0, 7) == 0 ? -1 : 1;
      for (int to = 0; to < 6; ++to) {
        run("auxconv", {hx(f), std::to_string(from), std::to_string(to), hx(sy * z.y()), hx(sx * z.x())});
        if (i < 2 && from == 3 && to == 0) sample(current_op());
        if (std::fabs(f) <= 1 / 150.0) {
          AuxAngle zn = AuxAngle(sy * z.y(), sx * z.x()).normalized();
          run("auxser", {hx(f), std::to_string(from), std::to_string(to), hx(zn.y()), hx(zn.x())});
        }
      }
      // the same conversions for the Lean model of the exact methods (ToAuxiliary with derivative, FromAuxiliary with count, Convert)
      run("m15_toaux", {hx(f), std::to_string(from), hx(sy * y), hx(sx * x)});
      run("m15_fromaux", {hx(f), std::to_string(from), hx(sy * z.y()), hx(sx * z.x())});
      if (i % 3 == 0) for (int to = 0; to < 6; ++to) run("m15_conv", {hx(f), std::to_string(from), std::to_string(to), hx(sy * z.y()), hx(sx * z.x())});
      else run("m15_conv", {hx(f), std::to_string(from), std::to_string(r.irange(0, 5)), hx(sy * z.y()), hx(sx * z.x())});
      { double zd = r.irange(0, 2) ? r.range(-90, 90) + 360 * r.irange(-3, 3) : r.pick(std::vector<double>{0.0, 90.0, -90.0, 180.0, -180.0, 270.0, 360.0, 450.0, 540.0, -540.0, 89.999999999999, 1e-300, 720.0, 1e17});
        run("m15_convdeg", {hx(f), std::to_string(from), std::to_string(r.irange(0, 5)), std::fabs(f) <= 1 / 150.0 && r.coin() ? "0" : "1", hx(zd)}); }
      // laws: a neighbouring angle (a few ulp up in the tangent) and an independent one
      int to = r.irange(0, 5); bool exact = !(std::fabs(f) <= 1 / 150.0) || r.coin();
      double y2 = nextup(std::fabs(z.y()), r.irange(0, 3)), x2 = std::fabs(z.x());
      run("auxlaws", {hx(f), std::to_string(from), std::to_string(to), exact ? "1" : "0", hx(std::fabs(z.y())), hx(std::fabs(z.x())), hx(y2), hx(x2)});
    }
  }
  // --- Ellipsoid
  for (long i = 0; i < nmeas; ++i) {
    std::string sf; double f = pick_f(r, i % 3 == 0, sf), a = r.pick(std::vector<double>{6378137.0, 1.0, 6.4e6, 1e-3, 1e9});
    double phi = r.irange(0, 3) ? r.range(-90, 90) : r.pick(std::vector<double>{0.0, 90.0, -90.0, 45.0, 1e-10, 89.9999999999, nextdn(90.0), 5e-324, 91.0, -1e-300});
    if (i % 7 == 0) phi = (r.coin() ? 1 : -1) * (90 - std::pow(10.0, -r.irange(1, 13)));
    double azi = r.range(-180, 180);
    stratum("ellipsoid-" + sf);
    run("ellconv", {hx(a), hx(f)});
    if (std::fabs(phi) <= 90) { if (i % 4 == 0) run("ellmeas", {hx(a), hx(f), hx(phi), hx(azi), "x"}); else run("ellmeas", {hx(a), hx(f), hx(phi), hx(azi)}); }
    run("elldeg", {hx(a), hx(f), hx(phi)});
    if (i < 2) sample(current_op());
    run("m15_ell", {hx(a), hx(f), hx(phi), hx(azi), hx(r.irange(0, 3) ? r.range(-200, 200) : r.pick(std::vector<double>{0.0, 1e-300, 1e5, -1e5, 720.0}))});
    run("m15_ctor", {hx(a), hx(f)});
    { double y, x; std::string sa; aux_angle(r, f < 0, y, x, sa); run("m15_axes", {hx(a), hx(a * (1 - f)), hx(y), hx(x)}); }
  }
  run("m15_wgs84", {}); run("m15_reset0", {});
  // latitude indices out of range: NaN from Convert / ToAuxiliary / FromAuxiliary
  for (int k : {-1, 6, 7, -100}) { std::string ks = std::to_string(k); stratum("aux-index-out-of-range");
    run("m15_conv", {hx(0.1), ks, "2", hx(0.6), hx(0.8)}); run("m15_conv", {hx(0.1), "2", ks, hx(0.6), hx(0.8)});
    run("m15_toaux", {hx(0.1), ks, hx(0.6), hx(0.8)}); run("m15_fromaux", {hx(0.1), ks, hx(0.6), hx(0.8)}); }
  run("m15_ctor", {hx(-1.0), hx(0.1)}); run("m15_ctor", {hx(1.0), hx(1.0)}); run("m15_ctor", {hx(INFINITY), hx(0.0)}); run("m15_ctor", {hx(1.0), hx(NAN)});
  run("m15_axes", {hx(1.0), hx(0.0), hx(1.0), hx(1.0)}); run("m15_axes", {hx(1.0), hx(1.0), hx(1.0), hx(1.0)});
  // --- AuxAngle, Clenshaw
  for (long i = 0; i < (th ? 4000 : 300); ++i) {
    double y, x, qy, qx; std::string s1, s2; aux_angle(r, false, y, x, s1); aux_angle(r, false, qy, qx, s2);
    if (r.coin()) y = -y; if (r.irange(0, 3) == 0) x = -x; if (r.coin()) qy = -qy; if (r.irange(0, 3) == 0) qx = -qx;
    switch (r.irange(0, 15)) { case 0: y = 0; break; case 1: x = 0; break; case 2: y = -0.0; break; case 3: x = -0.0; break; case 4: y = INFINITY; break; case 5: x = INFINITY; break;
      case 6: y = 0; x = 0; break; case 7: y = x = INFINITY; break; case 8: y = NAN; break; case 9: y = 1e308; x = 1.7e308; break; case 10: y = 1.7e308; x = 1e-10; break; case 11: qy = 0; break; case 12: qy = -0.0; qx = -1; break; default: break; }
    double d = r.irange(0, 2) ? r.range(-720, 720) : r.pick(std::vector<double>{0.0, -0.0, 90.0, 180.0, -180.0, 45.0, 1e-300, 5e-324, 360.0, 1e10, 700.0, 89.99999999});
    stratum("auxangle-" + s1);
    run("m15_ang", {hx(y), hx(x), hx(qy), hx(qx), hx(d)});
    double zd = r.range(-180, 180), sz, cz; Math::sincosd(zd, sz, cz);
    std::vector<std::string> ca = {r.coin() ? "1" : "0", hx(sz), hx(cz)}; int K = r.irange(0, 8); for (int k = 0; k < K; ++k) ca.push_back(hx(r.range(-1, 1) * std::pow(10.0, -k)));
    run("m15_clen", ca);
  }
  // --- elliptic integrals and functions
  for (long i = 0; i < nell; ++i) {
    double k2, kp2, a2, ap2; std::string sk, sa;
    switch (r.irange(0, 6)) {
    case 0: k2 = r.range(0, 1); kp2 = 1 - k2; sk = "k2-(0,1)"; break;
    case 1: kp2 = std::pow(10.0, -r.range(0, 12)); k2 = 1 - kp2; sk = "k2->1"; break;
    case 2: k2 = -std::pow(10.0, r.range(-3, 6)); kp2 = 1 - k2; sk = "k2-negative-log"; break;
    case 3: k2 = r.pick(std::vector<double>{0.5, 0.9, 0.99, 0.1, 0.0066943799901413165, -0.0067394967422764341, -1.0, -50.0, 0.999, 0.0}); kp2 = 1 - k2; sk = "k2-anchors"; break;
    case 4: k2 = std::pow(10.0, -r.range(0, 10)); kp2 = 1 - k2; sk = "k2-small-positive"; break;
    case 5: k2 = r.range(-10, 1); kp2 = 1 - k2; sk = "k2-(-10,1)"; break;
    default: k2 = r.range(0.5, 1); kp2 = 1 - k2; sk = "k2-(0.5,1)"; break;
    }
    switch (r.irange(0, 5)) {
    case 0: a2 = 0; ap2 = 1; sa = "alpha2=0"; break;
    case 1: a2 = r.range(0, 1); ap2 = 1 - a2; sa = "alpha2-(0,1)"; break;
    case 2: ap2 = std::pow(10.0, -r.range(0, 10)); a2 = 1 - ap2; sa = "alpha2->1"; break;
    case 3: a2 = -std::pow(10.0, r.range(-3, 5)); ap2 = 1 - a2; sa = "alpha2-negative"; break;
    case 4: a2 = k2; ap2 = kp2; sa = "alpha2=k2"; break;
    default: a2 = r.range(-5, 1); ap2 = 1 - a2; sa = "alpha2-(-5,1)"; break;
    }
    double phi; std::string sp;
    switch (r.irange(0, 7)) {
    case 0: phi = r.range(0, M_PI / 2); sp = "phi-Q1"; break;
    case 1: phi = r.range(M_PI / 2, M_PI); sp = "phi-Q2"; break;
    case 2: phi = -r.range(M_PI / 2, M_PI); sp = "phi-Q3"; break;
    case 3: phi = r.range(-20 * M_PI, 20 * M_PI); sp = "phi-many-periods"; break;
    case 4: phi = r.irange(-40, 40) * (M_PI / 2) + (r.coin() ? 1 : -1) * std::pow(10.0, -r.range(1, 12)); sp = "phi-near-k-pi/2"; break;
    case 5: phi = r.irange(-8, 8) * (M_PI / 2); sp = "phi-k-pi/2"; break;
    case 6: phi = (r.coin() ? 1 : -1) * std::pow(10.0, -r.range(0, 300)); sp = "phi-tiny"; break;
    default: phi = r.range(-M_PI, M_PI); sp = "phi-(-pi,pi)"; break;
    }
    stratum(sk); stratum(sa); stratum(sp);
    std::vector<std::string> par = {hx(k2), hx(a2), hx(kp2), hx(ap2)};
    auto with = [&](std::initializer_list<double> l) { std::vector<std::string> v = par; for (double d : l) v.push_back(hx(d)); return v; };
    run("ellinc", with({phi}));
    if (i < 2) sample(current_op());
    if (i % 4 == 0) run("ellcomp", par);
    if (i % 3 == 0) { double d = r.coin() ? std::pow(10.0, -r.range(0, 14)) : r.range(0, 1); run("ellmono", with({phi, phi + d * std::fmax(1.0, std::fabs(phi))})); }
    // --- the same parameters for the Lean model of EllipticFunction
    if (i % 2 == 0) {
      run("m15_reset", par);
      if (i % 8 == 0) run("m15_reset2", {hx(k2), hx(a2)});
      run("m15_phi", with({phi}));
      { double sn = std::sin(phi), cn = std::cos(phi);
        switch (r.irange(0, 11)) { case 0: sn = 0; cn = 1; break; case 1: sn = -0.0; cn = 1; break; case 2: sn = 0; cn = -1; break; case 3: sn = -0.0; cn = -1; break; case 4: sn = 1; cn = 0; break;
          case 5: sn = -1; cn = 0; break; case 6: sn = 1; cn = -0.0; break; case 7: sn = -1; cn = -0.0; break; default: break; }
        EllipticFunction e1(k2, a2, kp2, ap2);
        run("m15_inc", with({sn, cn, e1.Delta(sn, cn)})); }
      { double ang = r.irange(0, 2) ? r.range(-1000, 1000) : 90.0 * r.irange(-12, 12);
        if (r.irange(0, 9) == 0) ang = r.pick(std::vector<double>{180.0, -180.0, 540.0, -540.0, 900.0, 360.0, 0.0, -0.0, 1e-300, 179.99999999999997, 180.00000000000003, 1e16, 90.0, 270.0});
        run("m15_ed", {hx(k2), hx(kp2), hx(ang)}); }
      if (kp2 > 0) {
        EllipticFunction e0(k2, 0, kp2, 1);
        double x = r.irange(0, 2) ? r.range(-6, 6) * (r.coin() ? e0.E() : e0.K()) : r.range(-1, 1) * std::pow(10.0, -r.range(0, 20));
        if (r.irange(0, 9) == 0) x = r.irange(-4, 4) * e0.E();
        if (std::isfinite(x)) { run("m15_jac", {hx(k2), hx(kp2), hx(x)}); double tau = r.range(-M_PI, M_PI); run("m15_einv", {hx(k2), hx(kp2), hx(x), hx(std::sin(tau)), hx(std::cos(tau))}); }
      } else run("m15_jac", {hx(k2), hx(kp2), hx(r.range(-30, 30))});
    }
    if (i % 3 == 1 && kp2 > 0) {
      EllipticFunction e0(k2, 0, kp2, 1);
      double x = r.irange(0, 2) ? r.range(-6, 6) * (r.coin() ? e0.E() : e0.K()) : r.range(-1, 1) * std::pow(10.0, -r.range(0, 20));
      if (std::isfinite(x)) run("ellinv", {hx(k2), hx(kp2), hx(x)});
    }
  }
  // k2 = 1 exactly
  for (int i = 0; i < (th ? 200 : 20); ++i) { double phi = r.range(-1.5, 1.5); stratum("k2=1"); run("ellinc", {hx(1.0), hx(0.0), hx(0.0), hx(1.0), hx(phi)}); run("ellcomp", {hx(1.0), hx(0.0), hx(0.0), hx(1.0)});
    run("m15_phi", {hx(1.0), hx(0.0), hx(0.0), hx(1.0), hx(phi)}); run("m15_jac", {hx(1.0), hx(0.0), hx(10 * phi)}); }
  // special cases of Reset: k2, alpha2 in {0, 1} and the rejected parameters
  for (double k2 : {0.0, 1.0, 0.5, -2.0, -0.0}) for (double a2 : {0.0, 1.0, 0.3, -3.0, 0.5}) { stratum("reset-special"); run("m15_reset", {hx(k2), hx(a2), hx(1 - k2), hx(1 - a2)}); run("m15_reset2", {hx(k2), hx(a2)}); }
  run("m15_reset", {hx(1.5), hx(0.0), hx(-0.5), hx(1.0)}); run("m15_reset", {hx(0.5), hx(2.0), hx(0.5), hx(-1.0)}); run("m15_reset", {hx(0.5), hx(0.5), hx(-0.1), hx(0.5)}); run("m15_reset", {hx(0.5), hx(0.5), hx(0.5), hx(-0.1)});
  run("m15_reset2", {hx(2.0), hx(0.0)}); run("m15_reset2", {hx(0.0), hx(2.0)});
  // --- Carlson's symmetric forms
  for (long i = 0; i < ncarl; ++i) {
    double sc = std::pow(10.0, r.range(-100, 100)) ; if (r.coin()) sc = 1;
    auto one = [&]() { int k = r.irange(0, 3); return k == 0 ? r.range(0, 2) : k == 1 ? std::pow(10.0, r.range(-15, 15)) : k == 2 ? std::pow(10.0, r.range(-3, 3)) : 1.0; };
    double x = one() * sc, y = one() * sc, z = one() * sc, p = one() * sc; std::string st = "carlson-positive";
    int k = r.irange(0, 9);
    if (k == 0) { x = 0; st = "carlson-x=0"; } else if (k == 1) { y = 0; st = "carlson-y=0"; } else if (k == 2) { z = 0; st = "carlson-z=0"; }
    else if (k == 3) { y = x; st = "carlson-x=y"; } else if (k == 4) { z = y = x; st = "carlson-x=y=z"; } else if (k == 5) { p = z; st = "carlson-p=z"; }
    else if (k == 6) { y = nextup(x, r.irange(1, 100)); st = "carlson-nearly-equal"; }
    stratum(st);
    run("carlson", {hx(x), hx(y), hx(z), hx(p)});
    if (i < 2) sample(current_op());
    run("m15_carl", {hx(x), hx(y), hx(z), hx(p)});
  }
}
int main(int argc, char** argv) { return gv::main_(argc, argv); }
