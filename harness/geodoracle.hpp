// Specification oracle for geodesics on an ellipsoid of revolution, in 80-bit long double.
// It evaluates the DEFINING integrals (Karney 2013, eqs. 7, 8, 38-40, 58-60) by Gauss-Legendre
// quadrature on short sub-intervals; nothing is shared with the library's series or elliptic-integral code.
#pragma once
#include <cmath>
#include <vector>
namespace oracle {
typedef long double LD;
static const LD PI = 3.14159265358979323846264338327950288L;
static const LD DEG = PI / 180;

// 24-point Gauss-Legendre nodes/weights on [-1,1] (computed once by Newton iteration in long double)
struct GL { std::vector<LD> x, w; GL(int n = 24) { x.resize(n); w.resize(n);
  for (int i = 0; i < n; ++i) { LD z = cosl(PI * (i + 0.75L) / (n + 0.5L)), pp = 0;
    for (int it = 0; it < 100; ++it) { LD p1 = 1, p2 = 0; for (int j = 0; j < n; ++j) { LD p3 = p2; p2 = p1; p1 = ((2 * j + 1) * z * p2 - j * p3) / (j + 1); }
      pp = n * (z * p1 - p2) / (z * z - 1); LD z1 = z; z = z1 - p1 / pp; if (fabsl(z - z1) < 1e-21L) break; }
    x[i] = z; w[i] = 2 / ((1 - z * z) * pp * pp); } } };
inline const GL& gl() { static GL g; return g; }
template<class F> LD integrate(F f, LD a, LD b, LD refine = 1) {
  if (a == b) return 0;
  LD len = b - a; int nseg = int(ceill(fabsl(len) * refine / (PI / 8))); if (nseg < 1) nseg = 1; LD h = len / nseg, s = 0;
  for (int k = 0; k < nseg; ++k) { LD lo = a + k * h, mid = lo + h / 2, acc = 0; for (size_t i = 0; i < gl().x.size(); ++i) acc += gl().w[i] * f(mid + gl().x[i] * h / 2); s += acc * h / 2; }
  return s;
}

struct Line {
  LD a, f, b, e2, ep2, n;
  LD sbet1, cbet1, salp1, calp1, salp0, calp0, k2, sig1, omg1, lon1;
  Line(LD a_, LD f_, LD lat1, LD lon1_, LD azi1) : a(a_), f(f_), lon1(lon1_) {
    b = a * (1 - f); e2 = f * (2 - f); ep2 = e2 / (1 - e2); n = f / (2 - f);
    LD phi = lat1 * DEG, alp = azi1 * DEG;
    LD sphi = sinl(phi), cphi = cosl(phi); if (fabsl(lat1) == 90) { cphi = 0; sphi = lat1 > 0 ? 1 : -1; }
    salp1 = sinl(alp); calp1 = cosl(alp); if (fabsl(azi1) == 180 || azi1 == 0) salp1 = 0; if (fabsl(azi1) == 90) calp1 = 0;
    sbet1 = (1 - f) * sphi; cbet1 = cphi; LD r = hypotl(sbet1, cbet1); sbet1 /= r; cbet1 /= r;
    if (cbet1 < 1e-30L) cbet1 = 1e-30L;   // start at a pole: the azimuth selects the meridian (same convention as the library)
    salp0 = salp1 * cbet1; calp0 = hypotl(calp1, salp1 * sbet1);
    k2 = ep2 * calp0 * calp0;
    // sig1 = atan2(sbet1, calp1 cbet1), omg1 = atan2(salp0 sbet1, calp1 cbet1)
    sig1 = (sbet1 == 0 && calp1 * cbet1 == 0) ? 0 : atan2l(sbet1, calp1 * cbet1);
    omg1 = (salp0 * sbet1 == 0 && calp1 * cbet1 == 0) ? 0 : atan2l(salp0 * sbet1, calp1 * cbet1);
  }
  LD dn(LD sig) const { LD s = sinl(sig); return sqrtl(1 + k2 * s * s); }
  // the integrands have branch points at distance ~ asinh(1/|k|) (oblate) / acosh(1/sqrt(-k2)) (prolate) from the real axis: refine the panels accordingly
  LD refine() const { LD r = 2; if (k2 > 1) r = 2 * sqrtl(k2); if (k2 < -0.5L) r = 2 / sqrtl(1 + k2); LD r2 = ep2 > 1 ? 2 * sqrtl(ep2) : (ep2 < -0.5L ? 2 / sqrtl(1 + ep2) : 2); return r > r2 ? r : r2; }
  LD I1(LD s1, LD s2) const { return integrate([&](LD x) { return dn(x); }, s1, s2, refine()); }
  LD I2(LD s1, LD s2) const { return integrate([&](LD x) { return 1 / dn(x); }, s1, s2, refine()); }
  LD I3(LD s1, LD s2) const { return integrate([&](LD x) { return (2 - f) / (1 + (1 - f) * dn(x)); }, s1, s2, refine()); }
  // area integrand: S12 = c2*alp12 + e2 a^2 calp0 salp0 * int ( t(ep2) - t(k2 sin^2) )/(ep2 - k2 sin^2) * sin/2
  static LD tfun(LD x) { // t(x) = x + sqrt(1/x + 1) asinh(sqrt x), with the limit 1 at 0
    if (fabsl(x) < 1e-6L) return 1 + x * (1 + 1 / 3.0L) - x * x * (2.0L / 15) ; // series: t = 1 + 4x/3 - 2x^2/15 + ...   (only used as a smooth fallback)
    if (x > 0) return x + sqrtl(1 / x + 1) * asinhl(sqrtl(x));
    LD y = -x; return x + sqrtl(1 / y - 1) * asinl(sqrtl(y)); }
  LD I4(LD s1, LD s2) const {
    return integrate([&](LD sg) { LD s = sinl(sg), x = k2 * s * s; LD d = ep2 - x;
      LD q = fabsl(d) > 1e-7L * (fabsl(ep2) + 1e-30L) ? (tfun(ep2) - tfun(x)) / d : dt(ep2);
      return -q * s / 2; }, s1, s2, refine()); }
  static LD dt(LD x) { LD h = 1e-5L * (fabsl(x) + 1e-3L); return (tfun(x + h) - tfun(x - h)) / (2 * h); }
  struct Pos { LD lat2, lon12, azi2, s12, a12, m12, M12, M21, S12, sig2, lam12; };
  LD c2() const { // authalic radius squared
    if (e2 == 0) return a * a; if (e2 > 0) { LD e = sqrtl(e2); return (a * a + b * b * atanhl(e) / e) / 2; } LD e = sqrtl(-e2); return (a * a + b * b * atanl(e) / e) / 2; }
  Pos position(bool arcmode, LD len) const {
    LD sig12;
    if (arcmode) sig12 = len * DEG;
    else { // Newton on s/b = I1(sig1, sig1+sig12)
      LD target = len / b; sig12 = target / sqrtl(1 + k2 / 2 > 0.01L ? 1 + k2 / 2 : 0.01L);
      for (int it = 0; it < 60; ++it) { LD err = I1(sig1, sig1 + sig12) - target; LD d = dn(sig1 + sig12); LD step = err / d; sig12 -= step; if (fabsl(step) < 1e-19L * (1 + fabsl(sig12))) break; } }
    LD sig2 = sig1 + sig12; Pos p; p.sig2 = sig2; p.a12 = sig12 / DEG;
    // work with the components of sig1 (exact at the poles, where cos(sig1) would otherwise be a rounding residue)
    LD ssig1 = sbet1, csig1 = calp1 * cbet1; { LD r = hypotl(ssig1, csig1); if (r == 0) { ssig1 = 0; csig1 = 1; } else { ssig1 /= r; csig1 /= r; } }
    LD s12_ = sinl(sig12), c12_ = cosl(sig12);
    LD ssig2 = ssig1 * c12_ + csig1 * s12_, csig2 = csig1 * c12_ - ssig1 * s12_;
    LD sbet2 = calp0 * ssig2, cbet2 = hypotl(salp0, calp0 * csig2);
    p.lat2 = atan2l(sbet2, (1 - f) * cbet2) / DEG;
    p.azi2 = atan2l(salp0, calp0 * csig2) / DEG;
    p.s12 = arcmode ? b * I1(sig1, sig2) : len;
    // omega(sigma) - E sigma is periodic with values in (-pi/2, pi/2): omg12 = E (sig12 + delta2 - delta1)
    LD E = (salp0 < 0 || (salp0 == 0 && std::signbit((double)salp0))) ? -1 : 1;
    auto delta = [&](LD ss, LD cs) { LD d = atan2l(E * salp0 * ss, cs) - atan2l(ss, cs); while (d > PI) d -= 2 * PI; while (d <= -PI) d += 2 * PI; return d; };
    LD omg12 = E * (sig12 + delta(ssig2, csig2) - delta(ssig1, csig1));
    p.lam12 = omg12 - f * salp0 * I3(sig1, sig2); p.lon12 = p.lam12 / DEG;
    LD J = I1(sig1, sig2) - I2(sig1, sig2), dn1 = sqrtl(1 + k2 * ssig1 * ssig1), dn2 = sqrtl(1 + k2 * ssig2 * ssig2);
    p.m12 = b * (dn2 * csig1 * ssig2 - dn1 * ssig1 * csig2 - csig1 * csig2 * J);
    p.M12 = csig1 * csig2 + dn2 / dn1 * ssig1 * ssig2 - ssig1 * csig2 * J / dn1;
    p.M21 = csig1 * csig2 + dn1 / dn2 * ssig1 * ssig2 + ssig2 * csig1 * J / dn2;
    LD alp12 = atan2l(salp0, calp0 * csig2) - atan2l(salp0, calp0 * csig1);   // alp2 - alp1 for the same hemisphere branch
    // continuous branch of alp2 - alp1 along the line: alp = atan2(salp0, calp0 cos sig)
    // (for S12 the library uses the principal value of alp2-alp1 consistent with |sig12| < 2pi pieces; compare modulo the ellipsoid area)
    p.S12 = c2() * alp12 + e2 * a * a * calp0 * salp0 * I4(sig1, sig2);
    return p;
  }
};
// distance on the ground between two positions given in degrees (small separations)
inline LD ground(LD a, LD lat1, LD lon1, LD lat2, LD lon2) {
  LD c1 = cosl(lat1 * DEG), c2 = cosl(lat2 * DEG);
  LD X1 = c1 * cosl(lon1 * DEG), Y1 = c1 * sinl(lon1 * DEG), Z1 = sinl(lat1 * DEG), X2 = c2 * cosl(lon2 * DEG), Y2 = c2 * sinl(lon2 * DEG), Z2 = sinl(lat2 * DEG);
  return a * hypotl(hypotl(X1 - X2, Y1 - Y2), Z1 - Z2);
}
} // namespace oracle
