// shared by the C01/C02/C03 harnesses
#pragma once
#include "common.hpp"
#include "geodoracle.hpp"
#include <GeographicLib/Geodesic.hpp>
#include <GeographicLib/GeodesicLine.hpp>
#include <GeographicLib/GeodesicExact.hpp>
#include <GeographicLib/GeodesicLineExact.hpp>
#include <GeographicLib/Math.hpp>
namespace gd {
using namespace GeographicLib; typedef long double LD;

// documented accuracy of the series solver as a function of f (metres): 15 nm for |f| <= 1/250, the table of
// GeodesicLine.cpp beyond (26 nm at 1/100, 31 nm at 1/50); of the exact solver from the table in GeodesicExact.hpp
inline double acc_series(double f) { double x = std::fabs(f); return x <= 1 / 250.0 ? 15e-9 : x <= 1 / 100.0 + 1e-12 ? 26e-9 : x <= 1 / 50.0 + 1e-12 ? 31e-9 : NAN; }
inline double acc_exact(double f) { double r = 1 - f; if (r > 1) r = 1 / r * (r > 1 ? 1 : 1); double q = (1 - f) >= 1 ? (1 - f) : 1 / (1 - f);  // q = max(b/a, a/b)
  (void)r; return q <= 2.001 ? 40e-9 : q <= 4.001 ? 2 * 96e-9 : q <= 8.001 ? 2 * 318e-9 : NAN; }   // the table gives 'approximate maximum' errors: factor 2 beyond b/a = 2
// scale with the length of the path in half-circuits and with the size of the ellipsoid
inline double tol_pos(double acc, double a, double a12deg) { return 4 * acc * (a / 6378137.0) * std::fmax(1.0, std::fabs(a12deg) / 180); }

struct Res { double lat2, lon2, azi2, s12, a12, m12, M12, M21, S12; };
inline void unit_tangent(LD lat, LD lon, LD azi, LD t[3]) {
  using namespace oracle; LD sp = sinl(lat * DEG), cp = cosl(lat * DEG), sl = sinl(lon * DEG), cl = cosl(lon * DEG), sa = sinl(azi * DEG), ca = cosl(azi * DEG);
  LD nx = -sp * cl, ny = -sp * sl, nz = cp, ex = -sl, ey = cl, ez = 0;
  t[0] = ca * nx + sa * ex; t[1] = ca * ny + sa * ey; t[2] = ca * nz + sa * ez;
}
inline LD dir_angle(LD lat1, LD lon1, LD azi1, LD lat2, LD lon2, LD azi2) { LD u[3], v[3]; unit_tangent(lat1, lon1, azi1, u); unit_tangent(lat2, lon2, azi2, v);
  LD c0 = u[1] * v[2] - u[2] * v[1], c1 = u[2] * v[0] - u[0] * v[2], c2 = u[0] * v[1] - u[1] * v[0]; return atan2l(hypotl(hypotl(c0, c1), c2), u[0] * v[0] + u[1] * v[1] + u[2] * v[2]); }
inline bool oracle_ok(double f) { double q = (1 - f) >= 1 ? (1 - f) : 1 / (1 - f); return q <= 4.001; }
} // namespace gd
