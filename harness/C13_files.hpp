// C13: data files -- Geoid (PGM), MagneticModel (.wmm/.wmm.cof), GravityModel (.egm/.egm.cof): well-formed synthetic files
// (their numeric entry points join the special-value sweep) and truncated / corrupted variants (constructor must
// throw GeographicErr or give a usable object; never crash, hang or throw something else).
#pragma once
#include "C13_entries.hpp"
#include <GeographicLib/Geoid.hpp>
#include <GeographicLib/MagneticModel.hpp>
#include <GeographicLib/MagneticCircle.hpp>
#include <GeographicLib/GravityModel.hpp>
#include <GeographicLib/GravityCircle.hpp>
#include <fstream>
#include <memory>
namespace c13 {
using namespace gv;

inline std::string tmpdir() { static std::string d; if (d.empty()) { char t[] = "/tmp/gvc13XXXXXX"; d = mkdtemp(t); } return d; }
inline void put(const std::string& path, const std::string& s) { std::ofstream f(path, std::ios::binary); f.write(s.data(), std::streamsize(s.size())); }
inline std::string pname(const char* stem) { return std::string(stem) + std::to_string(getpid()); }

inline std::string pgm(int w, int h, uint64_t seed, const std::string& hdr = "") {
  std::string s = hdr.empty() ? "P5\n# Description synthetic\n# Offset -108\n# Scale 0.003\n# MaxBilinearError 0.1\n" + std::to_string(w) + " " + std::to_string(h) + "\n65535\n" : hdr;
  Rng r(seed); for (long i = 0; i < long(w) * h; ++i) { unsigned p = unsigned(30000 + r.irange(0, 9000)); s += char(p >> 8); s += char(p & 0xff); }
  return s;
}
inline std::string wmm_meta() {
  return "WMMF-1\n# synthetic\nName tst\nDescription test model\nReleaseDate 2020-01-01\nRadius 6371200\nType Linear\nEpoch 2020\nDeltaEpoch 5\nNumModels 1\nNumConstants 0\n"
         "MinTime 2020\nMaxTime 2025\nMinHeight -1000\nMaxHeight 850000\nNormalization Schmidt\nByteOrder little\nID TSTMODEL\n";
}
inline void cof_block(std::string& s, int N, int M, double c0, double scale) {
  int nm[2] = {N, M}; s.append(reinterpret_cast<char*>(nm), 8);
  if (N < 0) return;
  int cs = (M + 1) * (2 * N - M + 2) / 2, ss = cs - (N + 1);
  for (int i = 0; i < cs; ++i) { double v = i == 0 ? c0 : scale / (i + 1); s.append(reinterpret_cast<char*>(&v), 8); }
  for (int i = 0; i < ss; ++i) { double v = 0.5 * scale / (i + 1); s.append(reinterpret_cast<char*>(&v), 8); }
}
inline std::string wmm_cof(int N, int M) { std::string s = "TSTMODEL"; cof_block(s, N, M, 0, 1000); cof_block(s, N, M, 0, 10); return s; }
inline std::string egm_meta() {
  return "EGMF-1\n# synthetic\nName tst\nDescription test gravity\nReleaseDate 2020-01-01\nModelRadius 6378136.3\nModelMass 3986004.415e8\nAngularVelocity 7292115e-11\n"
         "ReferenceRadius 6378137\nReferenceMass 3986004.418e8\nFlattening 1/298.257223563\nHeightOffset -0.41\nNormalization full\nByteOrder little\nID TSTGRAVI\n";
}
inline std::string egm_cof(int N, int M) {
  std::string s = "TSTGRAVI";
  // gravitational part: C00 must be 0 in the file, C20 realistic, the rest small
  int nm[2] = {N, M}; s.append(reinterpret_cast<char*>(nm), 8);
  int cs = (M + 1) * (2 * N - M + 2) / 2, ss = cs - (N + 1);
  for (int i = 0; i < cs; ++i) { double v = i == 0 ? 0 : i == 2 ? -4.84165e-4 : 1e-7 / (i + 1); s.append(reinterpret_cast<char*>(&v), 8); }
  for (int i = 0; i < ss; ++i) { double v = 1e-7 / (i + 2); s.append(reinterpret_cast<char*>(&v), 8); }
  cof_block(s, 2, 2, 0, 1e-3);
  return s;
}

// ---- well-formed objects for the sweep --------------------------------------------------------------------------
inline const Geoid& GEOID(bool cubic) {
  static std::unique_ptr<Geoid> g[2];
  if (!g[cubic]) { std::string n = pname("sweepgeoid"); put(tmpdir() + "/" + n + ".pgm", pgm(16, 9, 7)); g[cubic].reset(new Geoid(n, tmpdir(), cubic, true)); }
  return *g[cubic];
}
inline const MagneticModel& MAG() {
  static std::unique_ptr<MagneticModel> m;
  if (!m) { std::string n = pname("sweepmag"); put(tmpdir() + "/" + n + ".wmm", wmm_meta()); put(tmpdir() + "/" + n + ".wmm.cof", wmm_cof(4, 4)); m.reset(new MagneticModel(n, tmpdir())); }
  return *m;
}
inline const GravityModel& GRAV() {
  static std::unique_ptr<GravityModel> m;
  if (!m) { std::string n = pname("sweepgrav"); put(tmpdir() + "/" + n + ".egm", egm_meta()); put(tmpdir() + "/" + n + ".egm.cof", egm_cof(4, 4)); m.reset(new GravityModel(n, tmpdir())); }
  return *m;
}
inline void register_file_entries() {
  add("Geoid.height", {40, 10}, 1, [](X x, O o) { o[0] = GEOID(false)(x[0], x[1]); });
  add("Geoid.heightCubic", {40, 10}, 1, [](X x, O o) { o[0] = GEOID(true)(x[0], x[1]); });
  add("Geoid.ConvertHeight", {40, 10, 100}, 1, [](X x, O o) { o[0] = GEOID(true).ConvertHeight(x[0], x[1], x[2], Geoid::GEOIDTOELLIPSOID); });
  add("Geoid.CacheArea", {30, 5, 50, 25}, 1, [](X x, O o) { std::string n = pname("sweepgeoid"); (void)GEOID(false); Geoid g(n, tmpdir(), true, false); g.CacheArea(x[0], x[1], x[2], x[3]); o[0] = g(40, 10); });
  add("MagneticModel.Field", {2021, 40, 10, 1000}, 6, [](X x, O o) { MAG()(x[0], x[1], x[2], x[3], o[0], o[1], o[2], o[3], o[4], o[5]); });
  add("MagneticModel.FieldGeocentric", {2021, 4e6, 1e6, 4.5e6}, 6, [](X x, O o) { MAG().FieldGeocentric(x[0], x[1], x[2], x[3], o[0], o[1], o[2], o[3], o[4], o[5]); });
  add("MagneticModel.Circle", {2021, 40, 1000, 10}, 6, [](X x, O o) { MagneticCircle c = MAG().Circle(x[0], x[1], x[2]); c(x[3], o[0], o[1], o[2], o[3], o[4], o[5]); });
  add("MagneticModel.FieldComponents", {2e4, 1e3, -4e4, 10, 20, 30}, 8, [](X x, O o) { MagneticModel::FieldComponents(x[0], x[1], x[2], x[3], x[4], x[5], o[0], o[1], o[2], o[3], o[4], o[5], o[6], o[7]); });
  add("GravityModel.Gravity", {40, 10, 1000}, 4, [](X x, O o) { o[3] = GRAV().Gravity(x[0], x[1], x[2], o[0], o[1], o[2]); });
  add("GravityModel.Disturbance", {40, 10, 1000}, 4, [](X x, O o) { o[3] = GRAV().Disturbance(x[0], x[1], x[2], o[0], o[1], o[2]); });
  add("GravityModel.GeoidHeight", {40, 10}, 1, [](X x, O o) { o[0] = GRAV().GeoidHeight(x[0], x[1]); });
  add("GravityModel.SphericalAnomaly", {40, 10, 1000}, 3, [](X x, O o) { GRAV().SphericalAnomaly(x[0], x[1], x[2], o[0], o[1], o[2]); });
  add("GravityModel.W", {4e6, 1e6, 4.5e6}, 4, [](X x, O o) { o[3] = GRAV().W(x[0], x[1], x[2], o[0], o[1], o[2]); });
  add("GravityModel.V", {4e6, 1e6, 4.5e6}, 4, [](X x, O o) { o[3] = GRAV().V(x[0], x[1], x[2], o[0], o[1], o[2]); });
  add("GravityModel.T", {4e6, 1e6, 4.5e6}, 4, [](X x, O o) { o[3] = GRAV().T(x[0], x[1], x[2], o[0], o[1], o[2]); });
  add("GravityModel.U", {4e6, 1e6, 4.5e6}, 4, [](X x, O o) { o[3] = GRAV().U(x[0], x[1], x[2], o[0], o[1], o[2]); });
  add("GravityModel.Circle", {40, 1000, 10}, 4, [](X x, O o) { GravityCircle c = GRAV().Circle(x[0], x[1]); o[3] = c.Gravity(x[2], o[0], o[1], o[2]); });
  add("GravityModel.CircleGeoid", {40, 10}, 1, [](X x, O o) { GravityCircle c = GRAV().Circle(x[0], 0.0); o[0] = c.GeoidHeight(x[1]); });
}

// ---- corrupted files -----------------------------------------------------------------------------------------------------
static Reg r_geoidfile("c13_geoidfile", [](const Args& a) {
  std::string bytes = unhs(a[0]); bool cubic = a[1] == "1";
  std::string n = pname("fz"); put(tmpdir() + "/" + n + ".pgm", bytes);
  arm(60);
  std::string acc = "0", e2;
  std::string e = guarded([&] {
    Geoid g(n, tmpdir(), cubic, false); acc = "1";
    e2 = guarded([&] { double s = 0; for (double lat : {-90.0, -45.5, 0.0, 37.3, 90.0, std::nan("")}) for (double lon : {-180.0, -0.1, 0.0, 123.4, 359.9, 1e17}) s += g(lat, lon);
                       g.CacheArea(-10, -20, 30, 40); s += g(5, 5); g.CacheAll(); s += g(-80, 170); g.CacheClear(); (void)s; });
  });
  arm(0);
  emit((e.empty() ? "-" : e) + " " + acc);
  if (!e.empty() && e != "!E" && e != "!A") bad("foreign-exception", "Geoid constructor threw " + e);
  if (!e2.empty() && e2 != "!E" && e2 != "!A") bad("foreign-exception", "Geoid query on an accepted file threw " + e2);
});
static Reg r_magfile("c13_magfile", [](const Args& a) {
  std::string n = pname("fzm"); put(tmpdir() + "/" + n + ".wmm", unhs(a[0])); put(tmpdir() + "/" + n + ".wmm.cof", unhs(a[1]));
  int Nmax = a.size() > 2 ? std::atoi(a[2].c_str()) : -1, Mmax = a.size() > 3 ? std::atoi(a[3].c_str()) : -1;
  arm(60);
  std::string acc = "0", e2;
  std::string e = guarded([&] {
    MagneticModel m(n, tmpdir(), Geocentric::WGS84(), Nmax, Mmax); acc = "1";
    e2 = guarded([&] { double bx, by, bz, tx, ty, tz; m(2021, 10, 20, 1000, bx, by, bz); m(2021, std::nan(""), 20, 1000, bx, by, bz, tx, ty, tz); MagneticCircle c = m.Circle(2022, -30, 5000); c(77, bx, by, bz); });
  });
  arm(0);
  emit((e.empty() ? "-" : e) + " " + acc);
  if (!e.empty() && e != "!E" && e != "!A") bad("foreign-exception", "MagneticModel constructor threw " + e);
  if (!e2.empty()) bad(e2 == "!E" ? "field-evaluation-throws" : "foreign-exception", "MagneticModel evaluation on an accepted model threw " + e2);
});
static Reg r_gravfile("c13_gravfile", [](const Args& a) {
  std::string n = pname("fzg"); put(tmpdir() + "/" + n + ".egm", unhs(a[0])); put(tmpdir() + "/" + n + ".egm.cof", unhs(a[1]));
  int Nmax = a.size() > 2 ? std::atoi(a[2].c_str()) : -1, Mmax = a.size() > 3 ? std::atoi(a[3].c_str()) : -1;
  arm(60);
  std::string acc = "0", e2;
  std::string e = guarded([&] {
    GravityModel m(n, tmpdir(), Nmax, Mmax); acc = "1";
    e2 = guarded([&] { double gx, gy, gz; (void)m.Gravity(10, 20, 1000, gx, gy, gz); (void)m.GeoidHeight(10, 20); (void)m.Gravity(std::nan(""), 20, 1000, gx, gy, gz); GravityCircle c = m.Circle(-30, 5000); (void)c.Gravity(77, gx, gy, gz); });
  });
  arm(0);
  emit((e.empty() ? "-" : e) + " " + acc);
  if (!e.empty() && e != "!E" && e != "!A") bad("foreign-exception", "GravityModel constructor threw " + e);
  if (!e2.empty()) bad(e2 == "!E" ? "field-evaluation-throws" : "foreign-exception", "GravityModel evaluation on an accepted model threw " + e2);
});

inline void mutate_bytes(Rng& r, std::string& s, bool text) {
  int nm = r.irange(1, 2);
  for (int k = 0; k < nm; ++k) {
    if (s.empty()) return;
    switch (r.irange(0, 5)) {
    case 0: s[size_t(r.irange(0, int(s.size()) - 1))] = char(r.next()); break;
    case 1: s.resize(size_t(r.irange(0, int(s.size())))); break;
    case 2: s[size_t(r.irange(0, int(s.size()) - 1))] ^= char(1 << r.irange(0, 7)); break;
    case 3: if (text) { static const char* ins[] = {"-1", "99999999999", "nan", "inf", "0", "1e308", "", "2147483647", "-2147483648", "\n", " ", "#", "1/0", "65536", "65535"}; s.insert(size_t(r.irange(0, int(s.size()))), ins[r.irange(0, 14)]); }
            else { s.append(size_t(r.irange(1, 9)), char(r.next())); } break;
    case 4: if (text) { // replace the value of one "Key value" line
              std::vector<size_t> nl; for (size_t i = 0; i < s.size(); ++i) if (s[i] == '\n') nl.push_back(i);
              if (nl.size() > 2) { size_t li = size_t(r.irange(0, int(nl.size()) - 2)); size_t b = nl[li] + 1, e = nl[li + 1]; size_t sp = s.find(' ', b);
                if (sp != std::string::npos && sp < e) { static const char* vals[] = {"-1", "0", "nan", "inf", "-inf", "1e308", "2147483647", "-2147483648", "99999999999", "", "x", "1/0", "0/0", "1e-320", "big", "Big"}; s.replace(sp + 1, e - sp - 1, vals[r.irange(0, 15)]); } } }
            else s.erase(size_t(r.irange(0, int(s.size()) - 1)), size_t(r.irange(1, 8))); break;
    default: if (!text && s.size() >= 16) { // degree/order words: negative, inconsistent, just above the int-overflow bound; never a huge *legal* size
              static const int v[] = {-1, -2, 0x7fffffff, int(0x80000000), 46340, 46341, 65536, 92682, 3, 2, 0, 1000000, 46339 * 4};
              int x = v[r.irange(0, 12)]; int which = r.irange(0, 1); std::memcpy(&s[8 + 4 * size_t(which)], &x, 4);
              if (which == 0 && x > 100 && x <= 46339 * 4) { int m0 = r.coin() ? x + 1 : -1; std::memcpy(&s[12], &m0, 4); } }   // keep N0 >= M0 >= 0 false for big N0
            break;
    }
  }
}

inline void gen_files(Rng& r, bool thorough) {
  // sanity: the well-formed synthetic files load and evaluate
  stratum("file-valid"); runx("c13_geoidfile", {hs(pgm(8, 5, 1)), "0"}); runx("c13_geoidfile", {hs(pgm(8, 5, 1)), "1"});
  stratum("file-valid"); runx("c13_magfile", {hs(wmm_meta()), hs(wmm_cof(4, 4))}); runx("c13_magfile", {hs(wmm_meta()), hs(wmm_cof(4, 2)), "3", "1"});
  stratum("file-valid"); runx("c13_gravfile", {hs(egm_meta()), hs(egm_cof(4, 4))}); runx("c13_gravfile", {hs(egm_meta()), hs(egm_cof(4, 3)), "2", "2"});
  // F13 witnesses: huge degree words
  for (int N0 : {0x7fffffff, 46340, 46341, 65536, 92682}) { std::string c = wmm_cof(2, 2); std::memcpy(&c[8], &N0, 4); int m0 = r.coin() ? 0 : N0; std::memcpy(&c[12], &m0, 4);
    stratum("file-huge-degree"); runx("c13_magfile", {hs(wmm_meta()), hs(c)}); std::string g = egm_cof(2, 2); std::memcpy(&g[8], &N0, 4); std::memcpy(&g[12], &m0, 4); runx("c13_gravfile", {hs(egm_meta()), hs(g)}); }
  int n = thorough ? 1200 : 120;
  for (int it = 0; it < n; ++it) {
    int w = 2 * r.irange(1, 6), h = 2 * r.irange(1, 4) + 1;
    std::string f = pgm(w, h, r.next());
    int kind = r.irange(0, 3);
    if (kind == 0) { // structured header damage
      std::string hdr = r.pick(std::vector<std::string>{"P5\n", "P2\n", "P6\n", "", "P5 ", "P5\n#\n"}) + (r.irange(0, 3) ? "# Offset " + r.pick(std::vector<std::string>{"-108", "nan", "inf", "", "x", "1e999"}) + "\n" : "") +
        (r.irange(0, 3) ? "# Scale " + r.pick(std::vector<std::string>{"0.003", "0", "-1", "nan", "inf", "", "1e-400"}) + "\n" : "") +
        r.pick(std::vector<std::string>{std::to_string(w), "0", "-2", "3", "99999999999", "2147483646", "x", ""}) + " " + r.pick(std::vector<std::string>{std::to_string(h), "0", "-1", "4", "2147483647", "1", ""}) + "\n" +
        r.pick(std::vector<std::string>{"65535", "255", "65536", "0", "-1", ""}) + "\n";
      f = pgm(w, h, r.next(), hdr); stratum("geoid-header");
    } else if (kind == 1) { size_t hl = f.size() - size_t(2 * w * h); std::string hd = f.substr(0, hl); mutate_bytes(r, hd, true); f = hd + f.substr(hl); stratum("geoid-header-mutated"); }
    else { mutate_bytes(r, f, false); stratum("geoid-bytes"); }
    runx("c13_geoidfile", {hs(f), r.coin() ? "1" : "0"});
  }
  for (int it = 0; it < n; ++it) {
    std::string m = wmm_meta(), c = wmm_cof(r.irange(1, 5), r.irange(0, 1)); int which = r.irange(0, 2);
    if (which != 1) mutate_bytes(r, m, true);
    if (which != 0) mutate_bytes(r, c, false);
    stratum(which == 0 ? "magnetic-metadata" : which == 1 ? "magnetic-coefficients" : "magnetic-both");
    Args a{hs(m), hs(c)}; if (!r.irange(0, 3)) { a.push_back(std::to_string(r.pick(std::vector<int>{-1, 0, 1, 3, 100, INT_MAX}))); a.push_back(std::to_string(r.pick(std::vector<int>{-1, 0, 1, 3, 100, INT_MAX}))); }
    // corrupted Epoch / DeltaEpoch / NumModels reach the open findings F24 / F29 (UBSan aborts): always in a child
    run_isolated("c13_magfile", a);
  }
  for (int it = 0; it < n; ++it) {
    std::string m = egm_meta(), c = egm_cof(r.irange(2, 5), r.irange(0, 2)); int which = r.irange(0, 2);
    if (which != 1) mutate_bytes(r, m, true);
    if (which != 0) mutate_bytes(r, c, false);
    stratum(which == 0 ? "gravity-metadata" : which == 1 ? "gravity-coefficients" : "gravity-both");
    Args a{hs(m), hs(c)}; if (!r.irange(0, 3)) { a.push_back(std::to_string(r.pick(std::vector<int>{-1, 0, 1, 3, 100, INT_MAX}))); a.push_back(std::to_string(r.pick(std::vector<int>{-1, 0, 1, 3, 100, INT_MAX}))); }
    runx("c13_gravfile", a);
  }
}
} // namespace c13
