// C13: NearestNeighbor::Node::Check on crafted node records and NearestNeighbor::Load on crafted / corrupted trees.
#pragma once
#include "common.hpp"
#include "C13_iso.hpp"
#include <GeographicLib/NearestNeighbor.hpp>
#include <sstream>
namespace c13 {
using namespace gv;
typedef std::pair<double, double> Pt;
struct Euclid { mutable long calls = 0; double operator()(const Pt& a, const Pt& b) const { ++calls; return std::hypot(a.first - b.first, a.second - b.second); } };
typedef GeographicLib::NearestNeighbor<double, Pt, Euclid> NN;
static const int MAXB = NN::maxbucket;

struct Rec { int index; int child[2]; double lower[2], upper[2]; std::vector<int> leaves; };   // leaves: MAXB entries
inline std::string enc(const Rec& n) {
  std::string s = "N:" + std::to_string(n.index) + ":" + hx(n.lower[0]) + ":" + hx(n.upper[0]) + ":" + std::to_string(n.child[0]) + ":" + hx(n.lower[1]) + ":" + hx(n.upper[1]) + ":" + std::to_string(n.child[1]);
  for (int l : n.leaves) s += ":" + std::to_string(l);
  return s;
}
inline std::vector<std::string> splitcol(const std::string& s) { std::vector<std::string> r; std::string t; std::istringstream is(s); while (std::getline(is, t, ':')) r.push_back(t); return r; }
inline Rec dec(const std::string& s) {
  auto t = splitcol(s); Rec n;
  n.index = std::atoi(t[1].c_str()); n.lower[0] = unhx(t[2]); n.upper[0] = unhx(t[3]); n.child[0] = std::atoi(t[4].c_str());
  n.lower[1] = unhx(t[5]); n.upper[1] = unhx(t[6]); n.child[1] = std::atoi(t[7].c_str());
  for (size_t i = 8; i < t.size(); ++i) n.leaves.push_back(std::atoi(t[i].c_str()));
  n.leaves.resize(MAXB, 0);
  return n;
}
inline std::string d17(double v) { char b[64]; std::snprintf(b, sizeof b, "%.17g", v); return b; }
// the on-disk form of a tree (what Save writes), from records; which half of a record is stored depends on the sign of index
inline std::string serialise(bool bin, int version, int realspec, int bucket, int numpoints, int treesize, int cost, const std::vector<Rec>& nodes) {
  std::string s;
  if (bin) {
    s = "NearestNeighbor_"; int buf[6] = {version, realspec, bucket, numpoints, treesize, cost}; s.append(reinterpret_cast<const char*>(buf), sizeof buf);
    for (auto& n : nodes) {
      s.append(reinterpret_cast<const char*>(&n.index), 4);
      if (n.index >= 0) { s.append(reinterpret_cast<const char*>(n.lower), 16); s.append(reinterpret_cast<const char*>(n.upper), 16); s.append(reinterpret_cast<const char*>(n.child), 8); }
      else for (int l = 0; l < bucket && l < MAXB; ++l) s.append(reinterpret_cast<const char*>(&n.leaves[l]), 4);
    }
  } else {
    s = std::to_string(version) + " " + std::to_string(realspec) + " " + std::to_string(bucket) + " " + std::to_string(numpoints) + " " + std::to_string(treesize) + " " + std::to_string(cost);
    for (auto& n : nodes) {
      s += "\n" + std::to_string(n.index);
      if (n.index >= 0) for (int l = 0; l < 2; ++l) s += " " + d17(n.lower[l]) + " " + d17(n.upper[l]) + " " + std::to_string(n.child[l]);
      else for (int l = 0; l < bucket && l < MAXB; ++l) s += " " + std::to_string(n.leaves[l]);
    }
  }
  return s;
}
inline std::vector<Pt> points(int n, uint64_t seed) { Rng r(seed); std::vector<Pt> p; p.reserve(size_t(n)); for (int i = 0; i < n; ++i) p.push_back(Pt(r.range(-10, 10), r.range(-10, 10))); p.shrink_to_fit(); return p; }
inline std::vector<Rec> records(const NN& nn) {
  std::vector<Rec> v;
  for (auto& nd : nn._tree) {
    Rec n; n.index = nd.index; n.leaves.assign(MAXB, 0);
    if (nd.index >= 0) { for (int l = 0; l < 2; ++l) { n.lower[l] = nd.data.lower[l]; n.upper[l] = nd.data.upper[l]; n.child[l] = nd.data.child[l]; } }
    else { for (int l = 0; l < 2; ++l) { n.lower[l] = 0; n.upper[l] = 0; n.child[l] = -1; } for (int l = 0; l < MAXB; ++l) n.leaves[l] = nd.leaves[l]; }
    v.push_back(n);
  }
  return v;
}
// after a successful Load: the tree must be searchable without leaving pts[], without hanging, and return legal indices
inline void search_loaded(NN& nn, uint64_t seed) {
  int np = nn._numpoints;
  if (np < 0 || np > 2000000) return;
  std::vector<Pt> pts = points(np, seed);
  Euclid d; Rng r(seed ^ 0x5555);
  for (int q = 0; q < 6; ++q) {
    std::vector<int> ind; Pt query(r.range(-12, 12), r.range(-12, 12));
    std::string e = guarded([&] { nn.Search(pts, d, query, ind, q < 3 ? 1 : 4, std::numeric_limits<double>::max(), -1.0, q % 2 == 0, 0.0); });
    if (!e.empty() && e != "!E") bad("foreign-exception", "NearestNeighbor::Search threw " + e);
    for (int i : ind) if (i < 0 || i >= np) { bad("nn-index-out-of-range", "Search on a loaded tree returned index " + std::to_string(i) + " with " + std::to_string(np) + " points"); break; }
  }
}

static Reg r_nncheck("c13_nncheck", [](const Args& a) {
  int numpoints = std::atoi(a[0].c_str()), treesize = std::atoi(a[1].c_str()), bucket = std::atoi(a[2].c_str());
  Rec n = dec(a[3]);
  NN::Node nd; nd.index = n.index;
  if (n.index >= 0) { for (int l = 0; l < 2; ++l) { nd.data.lower[l] = n.lower[l]; nd.data.upper[l] = n.upper[l]; nd.data.child[l] = n.child[l]; } }
  else for (int l = 0; l < MAXB; ++l) nd.leaves[l] = n.leaves[l];
  std::string e = guarded([&] { nd.Check(numpoints, treesize, bucket); });
  emit(e.empty() ? "1" : e == "!E" ? "0" : e);
  if (!e.empty() && e != "!E") bad("foreign-exception", "Node::Check threw " + e);
});

static Reg r_nnload("c13_nnload", [](const Args& a) {
  bool bin = a[0] == "1";
  int version = std::atoi(a[1].c_str()), realspec = std::atoi(a[2].c_str()), bucket = std::atoi(a[3].c_str()), numpoints = std::atoi(a[4].c_str()), treesize = std::atoi(a[5].c_str()), cost = std::atoi(a[6].c_str());
  uint64_t seed = std::strtoull(a[7].c_str(), nullptr, 10);
  std::vector<Rec> nodes; for (size_t i = 8; i < a.size(); ++i) nodes.push_back(dec(a[i]));
  std::string file = serialise(bin, version, realspec, bucket, numpoints, treesize, cost, nodes);
  // an object with a known previous state: Load must leave it alone when it throws
  std::vector<Pt> p0 = points(7, 99); Euclid d; NN nn(p0, d, 2);
  int np0 = nn._numpoints; size_t ts0 = nn._tree.size();
  std::istringstream is(file, bin ? std::ios::binary : std::ios::in);
  arm(60);
  std::string e = guarded([&] { nn.Load(is, bin); });
  emit(e.empty() ? "1" : e == "!E" ? "0" : e);
  if (!e.empty() && e != "!E" && e != "!A") bad("foreign-exception", "NearestNeighbor::Load threw " + e);
  if (!e.empty() && (nn._numpoints != np0 || nn._tree.size() != ts0)) bad("output-modified-on-throw", "Load threw but changed the object");
  if (e.empty()) search_loaded(nn, seed);
  arm(0);
});

// arbitrary bytes (mutated genuine images, truncations): no model, only "GeographicErr or a usable tree"
static Reg r_nnfile("c13_nnfile", [](const Args& a) {
  bool bin = a[0] == "1"; std::string file = unhs(a[1]); uint64_t seed = std::strtoull(a[2].c_str(), nullptr, 10);
  std::vector<Pt> p0 = points(7, 99); Euclid d; NN nn(p0, d, 2);
  std::istringstream is(file, bin ? std::ios::binary : std::ios::in);
  arm(60);
  std::string e = guarded([&] { nn.Load(is, bin); });
  emit(e.empty() ? "1" : e == "!E" ? "0" : e);
  if (!e.empty() && e != "!E" && e != "!A") bad("foreign-exception", "NearestNeighbor::Load threw " + e);
  if (e.empty()) search_loaded(nn, seed);
  arm(0);
});

inline void gen_nn(Rng& r, bool thorough) {
  // 1. Node::Check on crafted records: every field at / one beyond / far beyond each bound
  int ncheck = thorough ? 4000 : 600;
  for (int it = 0; it < ncheck; ++it) {
    int numpoints = r.pick(std::vector<int>{0, 1, 2, 3, 7, 50, 1000}), treesize = r.irange(0, std::max(1, numpoints)), bucket = r.irange(0, MAXB);
    Rec n; bool leaf = r.coin();
    auto edge = [&](int lo, int hi) { int k = r.irange(0, 9); return k == 0 ? lo - 1 : k == 1 ? hi : k == 2 ? hi + 1 : k == 3 ? lo : k == 4 ? hi - 1 : k == 5 ? r.pick(std::vector<int>{-2, 1000000, 2147483647, -2147483647 - 1}) : (hi > lo ? r.irange(lo, hi - 1) : lo); };
    n.index = leaf ? (r.irange(0, 5) ? -1 : edge(-1, 0)) : (r.irange(0, 3) ? (numpoints > 0 ? r.irange(0, numpoints - 1) : 0) : edge(-1, numpoints));
    for (int l = 0; l < 2; ++l) n.child[l] = r.irange(0, 2) ? (treesize > 0 && r.coin() ? r.irange(0, treesize - 1) : -1) : edge(-1, treesize);
    double b[4] = {r.range(0, 1), r.range(1, 2), r.range(2, 3), r.range(3, 4)};
    if (!r.irange(0, 2)) { int k = r.irange(0, 5); static const double ev[] = {-1e-300, std::nan(""), INFINITY, -1, 0, -0.0}; b[r.irange(0, 3)] = ev[k]; }
    if (!r.irange(0, 4)) std::swap(b[r.irange(0, 3)], b[r.irange(0, 3)]);
    if (!r.irange(0, 6)) b[1] = b[0];
    if (!r.irange(0, 6)) b[2] = b[1];
    n.lower[0] = b[0]; n.upper[0] = b[1]; n.lower[1] = b[2]; n.upper[1] = b[3];
    n.leaves.assign(MAXB, 0);
    int nl = bucket > 0 ? r.irange(1, bucket) : 0;
    for (int l = 0; l < bucket; ++l) n.leaves[l] = l < nl ? (numpoints > 0 ? r.irange(0, numpoints - 1) : 0) : -1;
    if (bucket > 0 && !r.irange(0, 1)) n.leaves[r.irange(0, bucket - 1)] = edge(-1, numpoints);   // one slot at / beyond the bounds (incl. == numpoints)
    if (!r.irange(0, 9)) n.leaves[r.irange(0, MAXB - 1)] = r.irange(-1, 2);                        // also beyond `bucket` (must be 0 there)
    stratum(leaf ? "nncheck-leaf" : "nncheck-inner");
    runx("c13_nncheck", {std::to_string(numpoints), std::to_string(treesize), std::to_string(bucket), enc(n)});
  }
  // 2. Load on genuine trees with one mutated field (text and binary), then Search
  int nload = thorough ? 1500 : 220;
  for (int it = 0; it < nload; ++it) {
    int np = r.pick(std::vector<int>{1, 2, 3, 5, 9, 26, 60}), bucket = r.irange(0, std::min(MAXB, 6));
    uint64_t pseed = r.next() % 1000000;
    std::vector<Pt> pts = points(np, pseed); Euclid d; NN nn(pts, d, bucket);
    std::vector<Rec> nodes = records(nn);
    int version = NN::version, realspec = 53, numpoints = np, treesize = int(nodes.size()), cost = nn._cost;
    int what = r.irange(0, 11);
    std::string st = "nnload-genuine";
    if (what >= 2 && !nodes.empty()) {
      Rec& n = nodes[r.irange(0, int(nodes.size()) - 1)]; int me = int(&n - &nodes[0]);
      switch (what) {
      case 2: case 3: { // a leaf slot at exactly numpoints / numpoints+1 / -2 (C13A's class) -- pick a leaf node if there is one
        for (auto& m : nodes) if (m.index < 0 && bucket > 0) { int slot = r.irange(0, bucket - 1); int v = r.pick(std::vector<int>{np, np, np + 1, -2, 1000, np - 1, -1}); m.leaves[slot] = v; break; }
        st = "nnload-leaf-index"; break; }
      case 4: n.index = r.pick(std::vector<int>{np, np + 1, -2, np - 1, -1, 0}); st = "nnload-node-index"; break;
      case 5: case 6: n.child[r.irange(0, 1)] = r.pick(std::vector<int>{me, me + 1, treesize - 1, treesize, -2, me - 1, -1}); st = "nnload-child"; break;   // self / forward pointers = cycles (F12)
      case 7: { double* f[4] = {&n.lower[0], &n.upper[0], &n.lower[1], &n.upper[1]}; *f[r.irange(0, 3)] = r.pick(std::vector<double>{-1.0, std::nan(""), INFINITY, 0.0, 1e300, -0.0}); st = "nnload-bounds"; break; }
      case 8: bucket = r.pick(std::vector<int>{-1, MAXB, MAXB + 1, 0, bucket + 1}); st = "nnload-header"; break;
      case 9: { int k = r.irange(0, 3); if (k == 0) version = r.pick(std::vector<int>{0, 2, -1}); else if (k == 1) realspec = r.pick(std::vector<int>{24, -53, 64, 0}); else if (k == 2) cost = r.pick(std::vector<int>{-1, 0, 2147483647}); else numpoints = r.pick(std::vector<int>{treesize - 1, treesize, np + 1, -1, 0}); st = "nnload-header"; break; }
      default: treesize = r.pick(std::vector<int>{-1, 0, treesize - 1}); if (treesize >= 0 && treesize < int(nodes.size())) nodes.resize(size_t(treesize)); st = "nnload-header"; break;
      }
    }
    if (bucket < 0 || bucket > MAXB) for (auto& m : nodes) (void)m;
    Args a{r.coin() ? "1" : "0", std::to_string(version), std::to_string(realspec), std::to_string(bucket), std::to_string(numpoints), std::to_string(treesize), std::to_string(cost), std::to_string(pseed)};
    if (int(nodes.size()) > treesize && treesize >= 0) nodes.resize(size_t(treesize));
    for (auto& n : nodes) a.push_back(enc(n));
    stratum(st);
    runx("c13_nnload", a);
  }
  // 3. byte-level corruption of genuine images (both formats): truncation, bit flips, overwritten words
  int nfile = thorough ? 3000 : 300;
  for (int it = 0; it < nfile; ++it) {
    int np = r.pick(std::vector<int>{2, 5, 9, 26, 40}), bucket = r.irange(0, 5); uint64_t pseed = r.next() % 1000000;
    std::vector<Pt> pts = points(np, pseed); Euclid d; NN nn(pts, d, bucket);
    bool bin = r.coin(); std::ostringstream os; nn.Save(os, bin); std::string f = os.str();
    int nm = r.irange(1, 3);
    for (int k = 0; k < nm && !f.empty(); ++k) {
      switch (r.irange(0, 5)) {
      case 0: f.resize(size_t(r.irange(0, int(f.size())))); break;
      case 1: f[size_t(r.irange(0, int(f.size()) - 1))] ^= char(1 << r.irange(0, 7)); break;
      case 2: if (bin && f.size() >= 44) { int v = r.pick(std::vector<int>{-1, -2, np, np + 1, 0, 1, 1000}); size_t p = 40 + 4 * size_t(r.irange(0, int(f.size() - 44) / 4)); std::memcpy(&f[p], &v, 4); } break;
      case 3: if (!bin) { static const char* ins[] = {"-1 ", "99999999999 ", "nan ", "inf ", "-2 ", "1e999 ", "x", "2147483648 "}; f.insert(size_t(r.irange(0, int(f.size()))), ins[r.irange(0, 7)]); } break;
      case 4: if (bin && f.size() >= 40) { int v = r.pick(std::vector<int>{-1, 0, 11, np - 1, 3, 100000}); std::memcpy(&f[16 + 4 * size_t(r.irange(0, 5))], &v, 4); } break;   // header words (kept small: see report)
      default: f[size_t(r.irange(0, int(f.size()) - 1))] = char(r.next()); break;
      }
    }
    // F32 (open): binary Load never tests the stream, a header cut short leaves numpoints / treesize / cost uninitialised
    // (hang or huge allocation, depending on stack garbage): two such images per process, in a child with a short limit
    if (bin && f.size() < 40) {
      static int ntrunc = 0;
      if (ntrunc++ < 2) { stratum("nnfile-binary-truncated-header"); run_isolated("c13_nnfile", {"1", hs(f), std::to_string(pseed)}, 4); }
      continue;
    }
    stratum(bin ? "nnfile-binary" : "nnfile-text");
    runx("c13_nnfile", {bin ? "1" : "0", hs(f), std::to_string(pseed)});
  }
}
} // namespace c13
