-- probe: truncated series CAS in core Lean, checked with decide +kernel
structure Fr where
  n : Int
  d : Nat
deriving Repr

namespace Fr
def add (a b : Fr) : Fr := ⟨a.n * b.d + b.n * a.d, a.d * b.d⟩
def mul (a b : Fr) : Fr := ⟨a.n * b.n, a.d * b.d⟩
def neg (a : Fr) : Fr := ⟨-a.n, a.d⟩
def eqv (a b : Fr) : Bool := a.n * b.d == b.n * a.d
def ofInt (i : Int) : Fr := ⟨i, 1⟩
def zero : Fr := ⟨0,1⟩
def one : Fr := ⟨1,1⟩
-- reduce to keep numbers small
def red (a : Fr) : Fr := let g := Nat.gcd a.n.natAbs a.d; if g == 0 then a else ⟨a.n / g, a.d / g⟩
end Fr

-- series = list of coefficients c0, c1, ... truncated at length N
abbrev Ser := List Fr
def Ser.coeff (s : Ser) (i : Nat) : Fr := s.getD i Fr.zero
def Ser.mulTrunc (N : Nat) (a b : Ser) : Ser :=
  (List.range N).map fun k =>
    ((List.range (k+1)).foldl (fun acc i => Fr.add acc (Fr.mul (a.coeff i) (b.coeff (k - i)))) Fr.zero).red

-- binomial(1/2, j) * (-1)^j : b0 = 1, b_{j+1} = b_j * (j - 1/2)/(j+1)   [since binom(a,j+1) = binom(a,j)(a-j)/(j+1), times -1]
def bhalf : Nat → Fr
  | 0 => Fr.one
  | j+1 => (Fr.mul (bhalf j) ⟨2 * (j:Int) - 1, 2 * (j+1)⟩).red

-- mean term: sum_j b_j^2 eps^(2j), as series in eps up to order N
def meanSer (N : Nat) : Ser := (List.range N).map fun k => if k % 2 == 0 then (Fr.mul (bhalf (k/2)) (bhalf (k/2))).red else Fr.zero
-- l-th harmonic: (1/l) sum_j b_j b_{j+l} eps^(2j+l)
def harmSer (N l : Nat) : Ser := (List.range N).map fun k =>
  if k ≥ l ∧ (k - l) % 2 == 0 then (Fr.mul (Fr.mul (bhalf ((k-l)/2)) (bhalf ((k-l)/2 + l))) ⟨1, l⟩).red else Fr.zero

-- table C1[l] from source: polynomial in eps2 (highest power first) then divisor, times eps^l
def tableSer (N l : Nat) (poly : List Int) (div : Nat) : Ser :=
  let m := poly.length - 1
  (List.range N).map fun k =>
    if k ≥ l ∧ (k - l) % 2 == 0 ∧ (k-l)/2 ≤ m then ⟨poly.getD (m - (k-l)/2) 0, div⟩ else Fr.zero

def serEq (N : Nat) (a b : Ser) : Bool := (List.range N).all fun k => Fr.eqv (a.coeff k) (b.coeff k)

-- check: C1[l] * mean = harm  (mod eps^7)
def checkC1 (l : Nat) (poly : List Int) (div : Nat) : Bool :=
  serEq 7 (Ser.mulTrunc 7 (tableSer 7 l poly div) (meanSer 7)) (harmSer 7 l)

#eval meanSer 7
#eval checkC1 1 [-1, 6, -16] 32
#eval checkC1 2 [-9, 64, -128] 2048
#eval checkC1 2 [-9, 64, -127] 2048
theorem c1_1 : checkC1 1 [-1, 6, -16] 32 = true := by decide +kernel
theorem c1_2 : checkC1 2 [-9, 64, -128] 2048 = true := by decide +kernel
theorem c1_3 : checkC1 3 [9, -16] 768 = true := by decide +kernel
theorem c1_6 : checkC1 6 [-7] 2048 = true := by decide +kernel
#print axioms c1_2
