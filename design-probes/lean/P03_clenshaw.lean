import Mathlib.Analysis.SpecialFunctions.Trigonometric.Basic
import Mathlib.Tactic.Ring
import Mathlib.Tactic.Linarith

open Real

/-- backward Clenshaw recurrence: returns (b_k, b_{k+1}) for coefficient list [c_k, c_{k+1}, ...] -/
def clen (ar : ℝ) : List ℝ → ℝ × ℝ
  | [] => (0, 0)
  | c :: cs => let p := clen ar cs; (c + ar * p.1 - p.2, p.1)

/-- direct sum  Σ_j cs[j] * sin(2*(k+j)*x) -/
noncomputable def dsum (x : ℝ) : ℕ → List ℝ → ℝ
  | _, [] => 0
  | k, c :: cs => c * sin (2 * (k:ℝ) * x) + dsum x (k+1) cs

theorem sin_rec (x : ℝ) (k : ℕ) :
    sin (2 * ((k+1:ℕ):ℝ) * x) = 2 * cos (2*x) * sin (2 * (k:ℝ) * x) - sin (2 * ((k:ℝ) - 1) * x) := by
  have h1 : 2 * ((k+1:ℕ):ℝ) * x = 2 * (k:ℝ) * x + 2 * x := by push_cast; ring
  have h2 : 2 * ((k:ℝ) - 1) * x = 2 * (k:ℝ) * x - 2 * x := by ring
  rw [h1, h2, sin_add, sin_sub]; ring

theorem clenshaw (x : ℝ) (cs : List ℝ) (k : ℕ) :
    dsum x k cs = (clen (2 * cos (2*x)) cs).1 * sin (2 * (k:ℝ) * x)
                 - (clen (2 * cos (2*x)) cs).2 * sin (2 * ((k:ℝ) - 1) * x) := by
  induction cs generalizing k with
  | nil => simp [dsum, clen]
  | cons c cs ih =>
    simp only [dsum, clen]
    rw [ih (k+1), sin_rec x k]
    have : 2 * (((k+1:ℕ):ℝ) - 1) * x = 2 * (k:ℝ) * x := by push_cast; ring
    rw [this]; ring

/-- SinCosSeries(sinp=true) shape: 2 sinx cosx * y0  with ar = 2(cosx - sinx)(cosx+sinx) -/
theorem sincosseries_sin (x : ℝ) (cs : List ℝ) :
    dsum x 1 cs = 2 * sin x * cos x * (clen (2 * (cos x - sin x) * (cos x + sin x)) cs).1 := by
  have har : 2 * (cos x - sin x) * (cos x + sin x) = 2 * cos (2*x) := by
    rw [cos_two_mul, ← sin_sq_add_cos_sq x]; ring
  rw [har, clenshaw x cs 1]
  have : sin (2 * (((1:ℕ):ℝ) - 1) * x) = 0 := by simp
  rw [this]; simp [sin_two_mul]; ring
#print axioms sincosseries_sin
