import Gv
def lcg (s : UInt64) : UInt64 := s * 6364136223846793005 + 1442695040888963407
def mix (s : UInt64) : UInt64 :=
  let z := s + 0x9e3779b97f4a7c15
  let z := (z ^^^ (z >>> 30)) * 0xbf58476d1ce4e5b9
  let z := (z ^^^ (z >>> 27)) * 0x94d049bb133111eb
  z ^^^ (z >>> 31)
def main : IO Unit := do
  let mut s : UInt64 := 12345
  let mut bad := 0
  let mut n := 0
  let t0 ← IO.monoMsNow
  for _ in [0:300000] do
    s := lcg s
    let a := mix s
    s := lcg s
    let b0 := mix s
    -- bias exponents to moderate range to avoid overflow
    let ea : UInt64 := ((a >>> 52) &&& 0x3ff) + 312
    let eb : UInt64 := ea + ((b0 >>> 52) &&& 0x7f) - 64
    let a : UInt64 := (a &&& (0x800fffffffffffff : UInt64)) ||| (ea <<< 52)
    let b : UInt64 := (b0 &&& (0x800fffffffffffff : UInt64)) ||| (eb <<< 52)
    match ofBits a, ofBits b with
    | some x, some y =>
      let fa := Float.ofBits a; let fb := Float.ofBits b
      let pm := toBits (Dy.round53 (Dy.mul x y)); let pa := toBits (Dy.round53 (Dy.add x y)); let pd := toBits (Dy.divTo 53 (-1074) x y)
      n := n + 1
      if pm != (fa*fb).toBits || pa != (fa+fb).toBits || pd != (fa/fb).toBits then
        bad := bad + 1
        if bad < 5 then IO.println s!"mismatch a={a} b={b}: mul {pm} vs {(fa*fb).toBits}; add {pa} vs {(fa+fb).toBits}; div {pd} vs {(fa/fb).toBits}"
    | _, _ => pure ()
  let t1 ← IO.monoMsNow
  IO.println s!"n={n} bad={bad} time={t1-t0}ms"
