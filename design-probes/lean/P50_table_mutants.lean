import GeoVerif.Series.GeodTrig
/-!
# Probe: every single-entry change of the C1′, C1, A3, C3, C4 tables is rejected by the certificates

Not part of the build.  Run from `lean/`:  `lake build GeoVerif.Series.GeodTrig && lake env lean ../design-probes/lean/P50_table_mutants.lean`
(interpreter, ≈ 5 s).  Expected output: `(true, true, true)`, then five empty lists and a triple of empty lists (no undetected ±1 / +2 change of any
entry), then the sign flips that go undetected: only entries that are 0 (`−0 = 0`, the same table): index 10 of C3coeff.
The same `check…Of` functions, applied to the tables of the current source, are the kernel-checked theorems
`c1p_reverts_c1`, `a3_table`, `c3_table`, `a3_c3_relation` (Props/C01) and `c4_table`, `c4_relation` (Props/C03).
-/
open GeoVerif.Series GeoVerif.Series.Geod GeoVerif.Gen.GeodSeries

def undetected (chk : List Rat → Bool) (t : List Rat) : List (Nat × Rat) :=
  ([1, -1, 2] : List Rat).flatMap fun d =>
    ((List.range t.length).filter fun i => chk (t.set i (t.getD i 0 + d))).map fun i => (i, d)

def undetectedFlip (chk : List Rat → Bool) (t : List Rat) : List Nat :=
  (List.range t.length).filter fun i => chk (t.set i (-(t.getD i 0)))

#eval (checkC1p, checkA3C3, checkC4)
#eval undetected (fun t => checkC1pOf C1f t) C1pf
#eval undetected (fun t => checkC1pOf t C1pf) C1f
#eval undetected (fun t => checkA3C3Of t C3coeff) A3coeff
#eval undetected (fun t => checkA3C3Of A3coeff t) C3coeff
#eval undetected checkC4Of C4coeff
-- the explicit-expansion forms (a3_table, c3_table, c4_table)
#eval (undetected checkA3Of A3coeff, undetected (fun t => checkC3Of A3coeff t) C3coeff, undetected checkC4ExpansionOf C4coeff)
#eval (undetectedFlip (fun t => checkC1pOf C1f t) C1pf, undetectedFlip (fun t => checkA3C3Of t C3coeff) A3coeff,
       undetectedFlip (fun t => checkA3C3Of A3coeff t) C3coeff, undetectedFlip checkC4Of C4coeff)
