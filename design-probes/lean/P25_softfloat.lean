/-! prototype: exact dyadics, round-to-nearest-even to p bits (with IEEE double exponent range), softfloat mul/add/div -/
structure Dy where
  m : Int
  e : Int
deriving Repr, BEq

namespace Dy
def zero : Dy := ⟨0, 0⟩
def neg (x : Dy) : Dy := ⟨-x.m, x.e⟩
def mul (x y : Dy) : Dy := ⟨x.m * y.m, x.e + y.e⟩
def add (x y : Dy) : Dy :=
  if x.e ≤ y.e then ⟨x.m + y.m * (2 : Int) ^ (y.e - x.e).toNat, x.e⟩
  else ⟨x.m * (2 : Int) ^ (x.e - y.e).toNat + y.m, y.e⟩
def sub (x y : Dy) : Dy := add x (neg y)
/-- bit length of |m| -/
def blen (n : Nat) : Nat := if n = 0 then 0 else Nat.log2 n + 1
/-- round integer m * 2^e to at most p significant bits, exponent of result ≥ emin; ties to even -/
def roundTo (p : Nat) (emin : Int) (x : Dy) : Dy :=
  let a := x.m.natAbs
  if a = 0 then ⟨0, 0⟩ else
  let L : Int := blen a
  -- target exponent of the lsb
  let t : Int := max (x.e + L - p) emin
  if t ≤ x.e then x else
  let sh := (t - x.e).toNat
  let q := a >>> sh
  let r := a - (q <<< sh)
  let half := (1 : Nat) <<< (sh - 1)
  let q' := if r > half ∨ (r = half ∧ q % 2 = 1) then q + 1 else q
  ⟨(if x.m < 0 then -(q' : Int) else (q' : Int)), t⟩
def round53 : Dy → Dy := roundTo 53 (-1074)
/-- floor division based quotient rounded to p bits: compute with extra bits + sticky -/
def divTo (p : Nat) (emin : Int) (x y : Dy) : Dy :=
  -- x/y = (mx/my) 2^(ex-ey); scale numerator by 2^k so quotient has ≥ p+2 bits, add sticky bit
  let a := x.m.natAbs; let b := y.m.natAbs
  if a = 0 then ⟨0,0⟩ else
  let k : Nat := (p + 3 + blen b) - min (p + 3 + blen b) (blen a) + 1
  let num := a <<< k
  let q := num / b
  let r := num % b
  let q2 := 2 * q + (if r = 0 then 0 else 1)   -- sticky
  let s : Int := if (x.m < 0) != (y.m < 0) then -1 else 1
  roundTo p emin ⟨s * (q2 : Int), x.e - y.e - k - 1⟩
end Dy

/-- decode a double's bits to Dy (finite only) -/
def ofBits (b : UInt64) : Option Dy :=
  let s := b >>> 63
  let ex := ((b >>> 52) &&& 0x7ff).toNat
  let fr := (b &&& 0xfffffffffffff).toNat
  if ex = 2047 then none else
  let (m, e) : Nat × Int := if ex = 0 then (fr, -1074) else (fr + 2^52, (ex : Int) - 1075)
  some ⟨if s = 1 then -(m : Int) else m, e⟩

def toBits (x : Dy) : UInt64 :=
  -- assumes x already rounded to 53 bits / emin -1074 and no overflow
  let a := x.m.natAbs
  let s : UInt64 := if x.m < 0 then 1 else 0
  if a = 0 then (s <<< 63) else
  -- normalize so that a has exactly 53 bits or exponent = -1074
  let L := Dy.blen a
  let (a, e) : Nat × Int :=
    if L < 53 then
      let sh := min (53 - L) ((x.e + 1074).toNat)
      (a <<< sh, x.e - sh)
    else if L > 53 then (a >>> (L - 53), x.e + (L - 53)) else (a, x.e)
  if a < 2^52 then (s <<< 63) ||| a.toUInt64   -- subnormal (e must be -1074)
  else (s <<< 63) ||| (((e + 1075).toNat.toUInt64) <<< 52) ||| (a - 2^52).toUInt64
