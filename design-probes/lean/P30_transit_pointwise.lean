import Mathlib.Algebra.Order.Floor.Ring
import Mathlib.Algebra.Order.Floor.Semiring
import Mathlib.Data.Rat.Floor
import Mathlib.Tactic.Linarith
import Mathlib.Tactic.Ring
import Mathlib.Tactic.NormNum
import Mathlib.Tactic.Positivity

/-- the repaired `PolygonAreaT::transit`, on normalised longitudes n1 n2 and signed difference d -/
def transit (d n1 n2 : ℚ) : ℤ :=
  if 0 < d ∧ ((n1 < 0 ∧ 0 ≤ n2) ∨ (0 < n1 ∧ n2 = 0)) then 1
  else if d < 0 ∧ 0 ≤ n1 ∧ (n2 < 0 ∨ n2 = 180) then -1 else 0

/-- what AngNormalize / AngDiff guarantee -/
structure Edge (d n1 n2 : ℚ) (k : ℤ) : Prop where
  hd  : -180 ≤ d ∧ d ≤ 180
  hn1 : -180 ≤ n1 ∧ n1 ≤ 180
  hn2 : -180 ≤ n2 ∧ n2 ≤ 180
  hk  : n1 + d = n2 + 360 * (k : ℚ)

theorem floor_div_360_of_mem {x : ℚ} (h : -180 ≤ x ∧ x ≤ 180) :
    ⌊x / 360⌋ = if x < 0 then -1 else 0 := by
  split_ifs with hx
  · rw [Int.floor_eq_iff]; constructor <;> push_cast <;> [linarith; linarith]
  · push Not at hx
    rw [Int.floor_eq_iff]; constructor <;> push_cast <;> [positivity; linarith]

/-- pointwise: transit = ⌊(n1+d)/360⌋ − ⌊n1/360⌋ -/
theorem transit_eq_floor {d n1 n2 : ℚ} {k : ℤ} (e : Edge d n1 n2 k) :
    transit d n1 n2 = ⌊(n1 + d) / 360⌋ - ⌊n1 / 360⌋ := by
  obtain ⟨⟨hd1, hd2⟩, ⟨h11, h12⟩, ⟨h21, h22⟩, hk⟩ := e
  -- floor of (n2 + 360k)/360 = floor(n2/360) + k
  have hfl : ⌊(n1 + d) / 360⌋ = ⌊n2 / 360⌋ + k := by
    rw [hk]
    have : (n2 + 360 * (k:ℚ)) / 360 = n2 / 360 + (k:ℚ) := by ring
    rw [this, Int.floor_add_intCast]
  rw [hfl, floor_div_360_of_mem ⟨h11, h12⟩, floor_div_360_of_mem ⟨h21, h22⟩]
  -- bound k: n2 + 360k = n1 + d ∈ [-360, 360]
  have hk1 : (-540:ℚ) ≤ 360 * (k:ℚ) := by linarith
  have hk2 : 360 * (k:ℚ) ≤ 540 := by linarith
  have hkl : (-2:ℚ) < (k:ℚ) := by linarith
  have hku : (k:ℚ) < 2 := by linarith
  have hk' : k = -1 ∨ k = 0 ∨ k = 1 := by
    have h1 : (-2:ℤ) < k := by exact_mod_cast hkl
    have h2 : k < 2 := by exact_mod_cast hku
    omega
  have hkc : (k:ℚ) = -1 ∨ (k:ℚ) = 0 ∨ (k:ℚ) = 1 := by
    rcases hk' with h | h | h <;> simp [h]
  unfold transit
  by_cases hn1 : n1 < 0 <;> by_cases hn2 : n2 < 0 <;> simp only [hn1, hn2, if_true, if_false]
  all_goals
    split_ifs with c1 c2
  all_goals
    rcases hk' with rfl | rfl | rfl
  all_goals
    push_cast at hk
  all_goals
    try simp only [true_and, false_or, false_and, or_false, and_true, not_and, not_or, not_lt, not_le] at c1
  all_goals
    try simp only [true_and, false_or, false_and, or_false, and_true, not_and, not_or, not_lt, not_le] at c2
  all_goals
    first
    | rfl
    | (exfalso; rcases c1 with ⟨_, ⟨_, _⟩ | ⟨_, _⟩⟩ <;> linarith)
    | (exfalso; rcases c2 with ⟨_, _, _ | _⟩ <;> linarith)
    | (exfalso; linarith)
    | (exfalso; exact (c2 (by linarith) (by linarith)).1 trivial)
    | (exfalso; exact (c2 (by linarith) (by linarith)) (by linarith))
    | (exfalso; exact (c1 (by linarith) (by linarith)) (by linarith))
    | (exfalso; exact (c1 (by linarith)) (by linarith))
    | (exfalso; exact (c2 (by linarith) (by linarith)).2 (by linarith))
    | (exfalso; rcases c1 with ⟨_, _ | ⟨_, _⟩⟩ <;> linarith)
    | (exfalso; rcases c1 with ⟨_, _⟩ ; linarith)
    | (exfalso; rcases c2 with ⟨_, _, _⟩ ; linarith)
    | (exfalso; rcases c2 with ⟨_, _⟩ ; linarith)
    | (exfalso; apply c1; constructor <;> [linarith; (first | (left; constructor <;> linarith) | (right; constructor <;> linarith))])
    | (exfalso; apply c2; refine ⟨by linarith, by linarith, ?_⟩; first | (left; linarith) | (right; linarith))
    | (exfalso; first | (have := c1 (by linarith); linarith) | (have := c1 (by linarith) ; rcases this with ⟨_,_⟩; linarith) | (have := c2 (by linarith) (by linarith); linarith) | (have := c2 (by linarith) (by linarith); rcases this with ⟨_,_⟩ ; linarith))
    | skip
#print axioms transit_eq_floor
