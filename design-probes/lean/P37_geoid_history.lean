/-! Prototype (core Lean only): Geoid history independence, bilinear, with cell cache and area cache. -/

structure Hdr where
  w : Int
  h : Int

/-- longitude wrap and pole reflection exactly as `Geoid::rawval` does when reading the file -/
def fileIdx (H : Hdr) (ix iy : Int) : Int × Int :=
  let ix := if ix < 0 then ix + H.w else if ix ≥ H.w then ix - H.w else ix
  if iy < 0 ∨ iy ≥ H.h then
    let iy' := if iy < 0 then -iy else 2 * (H.h - 1) - iy
    let ix' := ix + (if ix < H.w / 2 then 1 else -1) * (H.w / 2)
    (ix', iy')
  else (ix, iy)

abbrev Pix := Int → Int → Nat          -- file contents, indexed by file position

def rawSpec (H : Hdr) (pix : Pix) (ix iy : Int) : Nat :=
  let p := fileIdx H ix iy; pix p.1 p.2

structure St where
  cache : Bool
  xoff : Int
  yoff : Int
  xsize : Int
  ysize : Int
  data : Int → Int → Nat       -- data (iy - yoff) (column)
  cix : Int
  ciy : Int
  cv : List Nat                 -- cached stencil values
  threadsafe : Bool

/-- `Geoid::rawval` -/
def rawval (H : Hdr) (pix : Pix) (s : St) (ix0 iy : Int) : Nat :=
  let ix := if ix0 < 0 then ix0 + H.w else if ix0 ≥ H.w then ix0 - H.w else ix0
  if s.cache ∧ iy ≥ s.yoff ∧ iy < s.yoff + s.ysize ∧
      ((ix ≥ s.xoff ∧ ix < s.xoff + s.xsize) ∨ (ix + H.w ≥ s.xoff ∧ ix + H.w < s.xoff + s.xsize)) then
    s.data (iy - s.yoff) (if ix ≥ s.xoff then ix - s.xoff else ix + H.w - s.xoff)
  else rawSpec H pix ix iy

def gather (rv : Int → Int → Nat) (ix iy : Int) : List Nat :=
  [rv ix iy, rv (ix+1) iy, rv ix (iy+1), rv (ix+1) (iy+1)]

/-- the area-cache invariant: every cached entry equals what the file would give -/
def AreaInv (H : Hdr) (pix : Pix) (s : St) : Prop :=
  s.cache = true → ∀ iy ix : Int, -H.w ≤ ix → ix < 2 * H.w → s.yoff ≤ iy → iy < s.yoff + s.ysize →
    ∀ ixn, (ixn = (if ix < 0 then ix + H.w else if ix ≥ H.w then ix - H.w else ix)) →
      ((ixn ≥ s.xoff ∧ ixn < s.xoff + s.xsize) ∨ (ixn + H.w ≥ s.xoff ∧ ixn + H.w < s.xoff + s.xsize)) →
      s.data (iy - s.yoff) (if ixn ≥ s.xoff then ixn - s.xoff else ixn + H.w - s.xoff) = rawSpec H pix ixn iy

/-- the cell-cache invariant -/
def CellInv (H : Hdr) (pix : Pix) (s : St) : Prop :=
  s.cix = H.w ∨ s.cv = gather (rawSpec H pix) s.cix s.ciy

def GInv (H : Hdr) (pix : Pix) (s : St) : Prop := AreaInv H pix s ∧ CellInv H pix s

/-- rawSpec is idempotent w.r.t. the wrap that rawval performs first -/
theorem rawSpec_wrap (H : Hdr) (pix : Pix) (hw : 0 < H.w) (ix iy : Int) (h1 : -H.w ≤ ix) (h2 : ix < 2 * H.w) :
    rawSpec H pix (if ix < 0 then ix + H.w else if ix ≥ H.w then ix - H.w else ix) iy = rawSpec H pix ix iy := by
  unfold rawSpec fileIdx
  by_cases a : ix < 0
  · have : ¬ (ix + H.w < 0) := by omega
    have : ¬ (ix + H.w ≥ H.w) := by omega
    simp [*]
  · by_cases b : ix ≥ H.w
    · have : ¬ (ix - H.w < 0) := by omega
      have : ¬ (ix - H.w ≥ H.w) := by omega
      simp [*]
    · simp [*]

theorem rawval_eq (H : Hdr) (pix : Pix) (s : St) (hw : 0 < H.w) (hA : AreaInv H pix s) (ix iy : Int)
    (h1 : -H.w ≤ ix) (h2 : ix < 2 * H.w) :
    rawval H pix s ix iy = rawSpec H pix ix iy := by
  unfold rawval
  simp only []
  generalize hn : (if ix < 0 then ix + H.w else if ix ≥ H.w then ix - H.w else ix) = ixn
  by_cases hc : s.cache = true ∧ iy ≥ s.yoff ∧ iy < s.yoff + s.ysize ∧
      ((ixn ≥ s.xoff ∧ ixn < s.xoff + s.xsize) ∨ (ixn + H.w ≥ s.xoff ∧ ixn + H.w < s.xoff + s.xsize))
  · rw [if_pos hc]
    obtain ⟨hc1, hc2, hc3, hc4⟩ := hc
    rw [hA hc1 iy ix h1 h2 hc2 hc3 ixn hn.symm hc4, ← hn]
    exact rawSpec_wrap H pix hw ix iy h1 h2
  · rw [if_neg hc, ← hn]
    exact rawSpec_wrap H pix hw ix iy h1 h2

inductive Op (F : Type) where
  | height (lat lon : F)
  | cacheSet (xoff yoff xsize ysize : Int)      -- CacheArea / CacheAll after computing the window
  | cacheClear

variable {F : Type}

structure Env (F : Type) where
  H : Hdr
  pix : Pix
  loc : F → F → Int × Int × F × F          -- (ix, iy, fx, fy): pure function of the position
  interp : F → F → List Nat → F             -- bilinear formula + offset/scale: pure
  locRange : ∀ lat lon, 0 ≤ (loc lat lon).1 ∧ (loc lat lon).1 < H.w
  wpos : 0 < H.w

def heightSpec (E : Env F) (lat lon : F) : F :=
  let (ix, iy, fx, fy) := E.loc lat lon
  E.interp fx fy (gather (rawSpec E.H E.pix) ix iy)

/-- filling the cache reads the file with the same wrap/reflection (`CacheArea`'s loops) -/
def fill (E : Env F) (xoff yoff : Int) : Int → Int → Nat :=
  fun j k => rawSpec E.H E.pix (let c := xoff + k; if c ≥ E.H.w then c - E.H.w else c) (yoff + j)

def step (E : Env F) (s : St) : Op F → St × Option F
  | .height lat lon =>
    let (ix, iy, fx, fy) := E.loc lat lon
    let v := if s.threadsafe ∨ ¬ (ix = s.cix ∧ iy = s.ciy) then gather (rawval E.H E.pix s) ix iy else s.cv
    let r := E.interp fx fy v
    (if s.threadsafe then s else { s with cix := ix, ciy := iy, cv := v }, some r)
  | .cacheSet xo yo xs ys =>
    if s.threadsafe then (s, none) else
    ({ s with cache := true, xoff := xo, yoff := yo, xsize := xs, ysize := ys, data := fill E xo yo }, none)
  | .cacheClear => (if s.threadsafe then s else { s with cache := false }, none)

theorem gather_rawval (E : Env F) (s : St) (hA : AreaInv E.H E.pix s) (ix iy : Int)
    (h0 : 0 ≤ ix) (h1 : ix < E.H.w) :
    gather (rawval E.H E.pix s) ix iy = gather (rawSpec E.H E.pix) ix iy := by
  have hw := E.wpos
  simp only [gather]
  rw [rawval_eq E.H E.pix s hw hA ix iy (by omega) (by omega),
      rawval_eq E.H E.pix s hw hA (ix+1) iy (by omega) (by omega),
      rawval_eq E.H E.pix s hw hA ix (iy+1) (by omega) (by omega),
      rawval_eq E.H E.pix s hw hA (ix+1) (iy+1) (by omega) (by omega)]

/-- one step: the output is the state-free specification and the invariant is kept
    (window hypotheses on `cacheSet` as established by `CacheArea`: 0 ≤ xoff < w, 0 < xsize ≤ w) -/
theorem step_ok (E : Env F) (s : St) (hI : GInv E.H E.pix s) (op : Op F)
    (hwin : ∀ xo yo xs ys, op = .cacheSet xo yo xs ys → 0 ≤ xo ∧ xo < E.H.w ∧ 0 < xs ∧ xs ≤ E.H.w) :
    GInv E.H E.pix (step E s op).1 ∧
    (∀ lat lon, op = .height lat lon → (step E s op).2 = some (heightSpec E lat lon)) := by
  obtain ⟨hA, hC⟩ := hI
  cases op with
  | height lat lon =>
    have hr := E.locRange lat lon
    constructor
    · -- invariant
      simp only [step]
      split
      · exact ⟨hA, hC⟩
      · refine ⟨?_, ?_⟩
        · exact hA
        · right
          simp only []
          split
          · exact gather_rawval E s hA _ _ hr.1 hr.2
          · rename_i hnot
            have : (E.loc lat lon).1 = s.cix ∧ (E.loc lat lon).2.1 = s.ciy :=
              Decidable.byContradiction fun h => hnot (Or.inr h)
            rcases hC with hC | hC
            · exfalso; omega
            · rw [hC, this.1, this.2]
    · intro lat' lon' heq
      cases heq
      simp only [step, heightSpec]
      congr 2
      split
      · exact gather_rawval E s hA _ _ hr.1 hr.2
      · rename_i hnot
        have : (E.loc lat lon).1 = s.cix ∧ (E.loc lat lon).2.1 = s.ciy :=
          Decidable.byContradiction fun h => hnot (Or.inr h)
        rcases hC with hC | hC
        · exfalso; omega
        · rw [hC, this.1, this.2]
  | cacheSet xo yo xs ys =>
    constructor
    · simp only [step]
      split
      · exact ⟨hA, hC⟩
      · obtain ⟨w0, w1, w2, w3⟩ := hwin xo yo xs ys rfl
        refine ⟨?_, hC⟩
        intro _ iy ix hb1 hb2 hy1 hy2 ixn hixn hx
        dsimp only at hy1 hy2 hx ⊢
        simp only [fill]
        have e1 : yo + (iy - yo) = iy := by omega
        rw [e1]
        congr 1
        rcases hx with hx | hx
        · have : ixn ≥ xo := hx.1
          simp only [this, if_true]
          have : ¬ (xo + (ixn - xo) ≥ E.H.w) := by
            have : ixn < E.H.w := by
              subst hixn; split <;> (try split) <;> omega
            omega
          rw [if_neg this]; congr 1; omega
        · have hlt : ¬ (ixn ≥ xo) := by
            have : ixn < E.H.w := by
              subst hixn; split <;> (try split) <;> omega
            omega
          simp only [hlt, if_false]
          have : xo + (ixn + E.H.w - xo) ≥ E.H.w := by
            have : 0 ≤ ixn := by
              subst hixn; split <;> (try split) <;> omega
            omega
          simp only [this, if_true]
          omega
    · intro lat lon h; cases h
  | cacheClear =>
    constructor
    · simp only [step]
      split
      · exact ⟨hA, hC⟩
      · exact ⟨(by intro h; cases h), hC⟩
    · intro lat lon h; cases h
#print axioms step_ok
