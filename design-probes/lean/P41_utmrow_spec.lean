/-! Prototype: MGRS::UTMRow as an Int function; spec = unique row ≡ irow (mod 20) in the allowed set -/
-- safe bounds from the source comment (index iband+10)
def minrowT : List Int := [-90,-80,-71,-63,-54,-45,-36,-27,-18,-9, 0,8,17,26,35,44,53,62,71,80]
def maxrowT : List Int := [-81,-72,-63,-54,-45,-36,-27,-18,-9,-1, 8,17,26,35,44,53,62,70,79,94]

def utmRow (iband icol irow : Int) : Int :=
  let minrow := minrowT.getD (iband + 10).toNat 0
  let maxrow := maxrowT.getD (iband + 10).toNat 0
  let baserow := (minrow + maxrow) / 2 - 10          -- C++ truncating division: see note
  let irow := (irow - baserow + 100) % 20 + baserow
  if minrow ≤ irow ∧ irow ≤ maxrow then irow else
    let sband := if iband ≥ 0 then iband else -iband - 1
    let srow := if irow ≥ 0 then irow else -irow - 1
    let scol := if icol < 4 then icol else -icol + 7
    if (srow = 70 ∧ sband = 8 ∧ scol ≥ 2) ∨ (srow = 71 ∧ sband = 7 ∧ scol ≤ 2) ∨
       (srow = 79 ∧ sband = 9 ∧ scol ≥ 1) ∨ (srow = 80 ∧ sband = 8 ∧ scol ≤ 1) then irow else 100

/-- allowed rows of a band/column: safe range widened by the four exceptions -/
def allowed (iband icol r : Int) : Bool :=
  let minrow := minrowT.getD (iband + 10).toNat 0
  let maxrow := maxrowT.getD (iband + 10).toNat 0
  let sband := if iband ≥ 0 then iband else -iband - 1
  let srow := if r ≥ 0 then r else -r - 1
  let scol := if icol < 4 then icol else -icol + 7
  (minrow ≤ r ∧ r ≤ maxrow) ||
  (decide ((r ≥ 0) ↔ (iband ≥ 0))) && ((srow = 70 ∧ sband = 8 ∧ scol ≥ 2) || (srow = 71 ∧ sband = 7 ∧ scol ≤ 2) ||
   (srow = 79 ∧ sband = 9 ∧ scol ≥ 1) || (srow = 80 ∧ sband = 8 ∧ scol ≤ 1))

def rows : List Int := (List.range 185).map fun (k : Nat) => (k : Int) - 90     -- [-90, 94]
def bands : List Int := (List.range 20).map fun (k : Nat) => (k : Int) - 10
def cols : List Int := (List.range 8).map fun (k : Nat) => (k : Int)
def irows : List Int := (List.range 20).map fun (k : Nat) => (k : Int)

/-- spec: the result is the unique allowed row congruent to irow mod 20, or 100 if none -/
def specOK (iband icol irow : Int) : Bool :=
  let cands := rows.filter fun r => allowed iband icol r && ((r - irow) % 20 == 0)
  match cands with
  | [] => utmRow iband icol irow == 100
  | [r] => utmRow iband icol irow == r
  | _ => false            -- uniqueness

theorem utmRow_spec : (bands.all fun b => cols.all fun c => irows.all fun i => specOK b c i) = true := by
  decide +kernel
#print axioms utmRow_spec
-- how many (band,col,row letter) combinations are rejected
#eval (bands.map fun b => (cols.map fun c => (irows.filter fun i => utmRow b c i == 100).length).foldl (·+·) 0)
