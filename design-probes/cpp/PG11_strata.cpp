// G11 probe: behaviour of PS / LCC / Albers over the whole quantifier (a, f < 1, k0 > 0)
// g++ -std=c++17 -O1 -fno-access-control -I/repo/include -I_cache/inc -Iharness PG11_strata.cpp /repo/src/{Math,PolarStereographic,LambertConformalConic,AlbersEqualArea}.cpp -lquadmath
#include "C11_oracle.hpp"
#include <GeographicLib/PolarStereographic.hpp>
#include <GeographicLib/LambertConformalConic.hpp>
#include <GeographicLib/AlbersEqualArea.hpp>
#include <cstdio>
#include <vector>
#include <cmath>
using namespace GeographicLib; using c11::Q;
int main(int argc, char** argv) {
  std::vector<double> fs = {1/298.257223563, 0, 0.1, -0.1, 0.5, -0.5, 1 - std::sqrt(0.5), 1 - std::sqrt(2.0), -1, std::nextafter(-1.0, 0.0), std::nextafter(-1.0, -2.0), -2, -5, 0.9, 0.99, 1 - std::sqrt(0.25), 1-std::sqrt(9.0)};
  std::vector<std::pair<double,double>> pars = {{20,50},{-20,-50},{40,40.000001},{10,80},{-30,60},{30,-60},{0,45},{5,-5.001},{60,89},{1,2},{45,45},{0,0},{90,90},{-90,-90},{89.9,89.99}};
  double a = 1;
  for (double f : fs) for (int cls = 1; cls <= 2; ++cls) {
    double worstk = 0, worstcl = 0, worstcf = 0, worstlat0 = 0; std::pair<double,double> wk, wc, wf, wl; int nanc = 0, exc = 0;
    for (auto p : pars) {
      try {
        if (cls == 1 && (std::fabs(p.first) == 90) != (std::fabs(p.second) == 90)) continue;
        c11::Proj P(cls, a, f); P.kap = 1; P.init_conic(c11::sc_deg(p.first), c11::sc_deg(p.second));
        double x, y, g, k, la, lo;
        auto fwd = [&](double lat, double lon, double& x, double& y, double& g, double& k) { if (cls == 1) { LambertConformalConic L(a, f, p.first, p.second, 1); L.Forward(0, lat, lon, x, y, g, k);} else { AlbersEqualArea L(a, f, p.first, p.second, 1); L.Forward(0, lat, lon, x, y, g, k);} };
        auto rev = [&](double x, double y, double& lat, double& lon) { double g, k; if (cls == 1) { LambertConformalConic L(a, f, p.first, p.second, 1); L.Reverse(0, x, y, lat, lon, g, k);} else { AlbersEqualArea L(a, f, p.first, p.second, 1); L.Reverse(0, x, y, lat, lon, g, k);} };
        for (double l : {p.first, p.second}) if (std::fabs(l) < 89.95) { fwd(l, 0, x, y, g, k); double e = std::fabs(k - 1); if (std::isnan(k)) ++nanc; if (e > worstk) { worstk = e; wk = p; } }
        double lat0 = cls == 1 ? LambertConformalConic(a, f, p.first, p.second, 1).OriginLatitude() : AlbersEqualArea(a, f, p.first, p.second, 1).OriginLatitude();
        double ol = c11::dbl(atan2q(P.p0.s, P.p0.c) * 180 / c11::PIq); if (!P.cyl && !P.polar) { double e = std::fabs(lat0 - ol); if (e > worstlat0) { worstlat0 = e; wl = p; } }
        for (double lat : {-80.0, -45.0, -10.0, 0.0, 7.0, 33.0, 60.0, 85.0}) for (double lon : {0.0, 25.0, -100.0}) {
          fwd(lat, lon, x, y, g, k); if (std::isnan(x) || std::isnan(y)) { ++nanc; continue; }
          c11::Out w = P.fwd(true, 0, lat, lon);
          if (w.ok && c11::fin(w.x) && std::fabs(g) < 170) { double d = std::hypot(c11::dbl(Q(x) - w.x), c11::dbl(Q(y) - w.y)) / (1 + std::hypot(x, y)); if (d > worstcf) { worstcf = d; wf = p; } }
          if (std::fabs(g) < 170 && std::hypot(x, y) < 1e6) { rev(x, y, la, lo); double d = std::hypot((la - lat), (lo - lon) * std::cos(lat * M_PI / 180)) * M_PI / 180; if (std::isnan(d)) ++nanc; else if (d > worstcl) { worstcl = d; wc = p; } }
        }
      } catch (const std::exception& e) { ++exc; printf("  exc f=%g cls=%d (%g,%g): %s\n", f, cls, p.first, p.second, e.what()); }
    }
    printf("f=%-22.17g e2=%-9.4g %s  k-1: %.2e (%g,%g)  lat0: %.2e deg (%g,%g)  closed-form rel: %.2e (%g,%g)  closure rad: %.2e (%g,%g)  nan=%d exc=%d\n", f, f*(2-f), cls == 1 ? "LCC" : "ALB", worstk, wk.first, wk.second, worstlat0, wl.first, wl.second, worstcf, wf.first, wf.second, worstcl, wc.first, wc.second, nanc, exc);
  }
  // PS
  for (double f : fs) {
    PolarStereographic ps(a, f, 1); c11::Proj P(0, a, f); P.kap = 1; P.n = 1; double wcf = 0, wcl = 0, wk = 0; int nanc = 0, exc = 0;
    for (double lat : {-89.0, -45.0, -1.0, 0.0, 1e-8, 30.0, 60.0, 89.0, 89.999999, 90.0}) for (double lon : {0.0, 33.0, -170.0}) {
      try { double x, y, g, k, la, lo; ps.Forward(true, lat, lon, x, y, g, k); c11::Out w = P.fwd(true, 0, lat, lon);
        double d = std::hypot(c11::dbl(Q(x) - w.x), c11::dbl(Q(y) - w.y)) / (1e-300 + std::hypot(x, y)); if (lat < 90 && d > wcf) wcf = d;
        if (w.kok) { double e = std::fabs(c11::dbl(Q(k) - w.k)) / c11::dbl(w.k); if (e > wk) wk = e; }
        ps.Reverse(true, x, y, la, lo, g, k); d = std::hypot(la - lat, (lo - lon) * std::cos(lat * M_PI / 180)) * M_PI / 180; if (std::isnan(d)) ++nanc; else if (d > wcl) wcl = d; } catch (const std::exception& e) { ++exc; printf("  exc PS f=%g lat=%g: %s\n", f, lat, e.what()); }
    }
    printf("f=%-22.17g PS   closed-form rel %.2e  k rel %.2e  closure rad %.2e nan=%d exc=%d\n", f, wcf, wk, wcl, nanc, exc);
  }
}
