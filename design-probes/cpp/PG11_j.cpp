// sensitivity of the oracle's latitude of origin to one-ulp changes of the inputs (f, sines, cosines)
#include "C11_oracle.hpp"
#include <GeographicLib/LambertConformalConic.hpp>
#include <cstdio>
#include <cmath>
#include <cstring>
#include <cstdint>
using namespace GeographicLib; using c11::Q;
static double unhx(const char* s) { uint64_t b = strtoull(s, 0, 16); double x; memcpy(&x, &b, 8); return x; }
static Q lat0(int cls, double f, double s1, double c1, double s2, double c2) { c11::Proj P(cls, 1, f); P.init_conic(c11::sc_norm(s1, c1), c11::sc_norm(s2, c2)); return atan2q(P.p0.s, P.p0.c) * 180 / c11::PIq; }
int main(int argc, char** argv) {
  int cls = atoi(argv[1]); double f = unhx(argv[2]), s1 = unhx(argv[3]), c1 = unhx(argv[4]), s2 = unhx(argv[5]), c2 = unhx(argv[6]);
  Q l = lat0(cls, f, s1, c1, s2, c2);
  printf("f=%g (s1,c1)=(%.17g,%.17g) (s2,c2)=(%.17g,%.17g) lat0=%s\n", f, s1, c1, s2, c2, c11::qstr(l).c_str());
  double up = INFINITY;
  printf(" d/ulp f: %.3g deg\n", c11::dbl(lat0(cls, std::nextafter(f, up), s1, c1, s2, c2) - l));
  printf(" d/ulp s1: %.3g  c1: %.3g  s2: %.3g  c2: %.3g\n", c11::dbl(lat0(cls, f, std::nextafter(s1, up), c1, s2, c2) - l), c11::dbl(lat0(cls, f, s1, std::nextafter(c1, up), s2, c2) - l), c11::dbl(lat0(cls, f, s1, c1, std::nextafter(s2, up), c2) - l), c11::dbl(lat0(cls, f, s1, c1, s2, std::nextafter(c2, up)) - l));
  if (cls == 1) { LambertConformalConic L(1, f, s1, c1, s2, c2, 1); printf(" impl lat0=%.17g  err=%.3g deg\n", L.OriginLatitude(), c11::dbl(Q(L.OriginLatitude()) - l)); }
}
