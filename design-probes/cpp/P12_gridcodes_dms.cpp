#include <GeographicLib/Geohash.hpp>
#include <GeographicLib/GARS.hpp>
#include <GeographicLib/Georef.hpp>
#include <GeographicLib/OSGB.hpp>
#include <GeographicLib/DMS.hpp>
#include <GeographicLib/Math.hpp>
#include <cstdio>
#include <random>
#include <string>
#include <cmath>
using namespace GeographicLib;
int main(){
  std::mt19937_64 rng(11); auto U=[&](){ return std::ldexp((double)(rng()>>11),-53); };
  long bad[6]={0}, n=0;
  for (int it=0; it<1000000; ++it){
    double lat = -90+180*U(), lon = -540+1080*U();
    if (rng()%8==0) lat = (rng()%2)?90:-90; if (rng()%8==0) lon = 180.0*(double)((long)(rng()%7)-3);
    if (rng()%4==0) lat = std::round(lat*12)/12; if (rng()%4==0) lon = std::round(lon*12)/12;
    ++n;
    { int p = rng()%19; std::string s, s18; Geohash::Forward(lat,lon,p,s); Geohash::Forward(lat,lon,18,s18); if (s18.substr(0,p)!=s) ++bad[0];
      double la,lo; int len; Geohash::Reverse(s,la,lo,len,true); std::string s2; Geohash::Forward(la,lo,p,s2); if (s2!=s||len!=p) {if(bad[0]<5)printf("GH %s %s lat=%.17g lon=%.17g\n",s.c_str(),s2.c_str(),lat,lon); ++bad[0];}
      std::string up=s; for(auto&c:up)c=toupper(c); double la2,lo2; Geohash::Reverse(up,la2,lo2,len,true); if(la2!=la||lo2!=lo)++bad[0]; }
    { int p = rng()%3; std::string s, s2; GARS::Forward(lat,lon,p,s); GARS::Forward(lat,lon,2,s2); if (s2.substr(0,5+p)!=s) ++bad[1];
      double la,lo; int pr; GARS::Reverse(s,la,lo,pr,true); std::string s3; GARS::Forward(la,lo,p,s3); if (s3!=s||pr!=p){ if(bad[1]<5)printf("GARS %s %s\n",s.c_str(),s3.c_str()); ++bad[1];} }
    { int p = (int)(rng()%13)-1; std::string s, s2; Georef::Forward(lat,lon,p,s); Georef::Forward(lat,lon,11,s2); int pe = p==1?2:p; 
      if (pe>=0){ if (s2.substr(0,4)!=s.substr(0,4)) ++bad[2]; if (pe>0 && (s2.substr(4,pe)!=s.substr(4,pe) || s2.substr(4+11,pe)!=s.substr(4+pe,pe))) ++bad[2]; } else if (s2.substr(0,2)!=s) ++bad[2];
      double la,lo; int pr; Georef::Reverse(s,la,lo,pr,true); std::string s3; Georef::Forward(la,lo,pe,s3); if (s3!=s||pr!=pe){ if(bad[2]<5)printf("GEOREF %s %s p=%d pr=%d lat=%.17g lon=%.17g\n",s.c_str(),s3.c_str(),p,pr,lat,lon); ++bad[2];} }
    { double x = -1e6 + 25e5*U(), y = -5e5+20e5*U(); if(rng()%4==0) x=std::floor(x/1e5)*1e5; int p = rng()%12; std::string s,s2; try{ OSGB::GridReference(x,y,p,s); OSGB::GridReference(x,y,11,s2);}catch(const GeographicErr&){ ++bad[4]; continue;}
      if (s2.substr(0,2+p)!=s.substr(0,2+p) || s2.substr(2+11,p)!=s.substr(2+p,p)) { if(bad[3]<5)printf("OSGB prefix %s %s x=%.17g y=%.17g\n",s.c_str(),s2.c_str(),x,y); ++bad[3]; }
      double xx,yy; int pr; OSGB::GridReference(s,xx,yy,pr,true); std::string s3; OSGB::GridReference(xx,yy,p,s3); if(s3!=s||pr!=p){ if(bad[3]<5)printf("OSGB %s %s x=%.17g y=%.17g\n",s.c_str(),s3.c_str(),x,y); ++bad[3];} }
    { // DMS
      double a = (rng()%2? lat: lon); if (rng()%16==0) a = std::round(a*60)/60; if(rng()%16==0) a= std::round(a*3600)/3600; int tr = rng()%3; unsigned prec = rng()%14; int indi = rng()%4; DMS::flag ind = DMS::flag(indi);
      if (ind==DMS::LATITUDE) a = lat; 
      std::string s = DMS::Encode(a, DMS::component(tr), prec, ind, (rng()%2)?':':'\0');
      DMS::flag f2; double v; try { v = DMS::Decode(s,f2);} catch(const GeographicErr&e){ if(bad[5]<5)printf("DMS THROW %s : %s\n",s.c_str(),e.what()); ++bad[5]; continue; }
      double want = a; if (ind==DMS::AZIMUTH){ want = Math::AngNormalize(a); if(want<0) want+=360; }
      double scale = tr==0?1:(tr==1?60:3600); unsigned pe = std::min(15u-2*tr,prec); double tol = 0.5*std::pow(10.0,-(double)pe)/scale*1.0000001 + 4e-14;
      if (!(std::fabs(v-want)<=tol) || (ind!=DMS::NONE && ind!=DMS::AZIMUTH && f2!=ind) ) { if(bad[5]<8)printf("DMS a=%.17g s=%s v=%.17g tol=%g f2=%d\n",a,s.c_str(),v,tol,(int)f2); ++bad[5]; }
      // normalisation: no "60" fields
      if (s.find("60'")!=std::string::npos || s.find("60\"")!=std::string::npos || s.find(":60")!=std::string::npos) { if(bad[5]<8)printf("DMS60 %s\n",s.c_str()); ++bad[5]; }
    }
  }
  printf("n=%ld geohash=%ld gars=%ld georef=%ld osgb=%ld osgbthrow=%ld dms=%ld\n",n,bad[0],bad[1],bad[2],bad[3],bad[4],bad[5]);
}
