#include <GeographicLib/LambertConformalConic.hpp>
#include <GeographicLib/AlbersEqualArea.hpp>
#include <cstdio>
#include <cmath>
using namespace GeographicLib;
int main(){ double NaN=std::nan(""); double la,lo,g,k;
  LambertConformalConic::Mercator().Reverse(3,1e5,NaN,la,lo,g,k); printf("Mercator Reverse(y=nan): lat=%g lon=%g gamma=%g k=%g\n",la,lo,g,k);
  LambertConformalConic l(6378137,1/298.25,30,50,1); l.Reverse(3,1e5,NaN,la,lo,g,k); printf("LCC(30,50) Reverse(y=nan): lat=%g lon=%g gamma=%g k=%g\n",la,lo,g,k);
  l.Reverse(3,NaN,1e5,la,lo,g,k); printf("LCC(30,50) Reverse(x=nan): lat=%g lon=%g gamma=%g k=%g\n",la,lo,g,k);
  AlbersEqualArea a(6378137,1/298.25,30,50,1); a.Reverse(3,1e5,NaN,la,lo,g,k); printf("Albers(30,50) Reverse(y=nan): lat=%g lon=%g gamma=%g k=%g\n",la,lo,g,k);
  AlbersEqualArea::CylindricalEqualArea().Reverse(3,1e5,NaN,la,lo,g,k); printf("CylEA Reverse(y=nan): lat=%g lon=%g gamma=%g k=%g\n",la,lo,g,k);
  double x,y; LambertConformalConic::Mercator().Forward(3,NaN,5,x,y,g,k); printf("Mercator Forward(lat=nan): x=%g y=%g gamma=%g k=%g\n",x,y,g,k);
  l.Forward(3,NaN,5,x,y,g,k); printf("LCC Forward(lat=nan): x=%g y=%g gamma=%g k=%g\n",x,y,g,k);
}
