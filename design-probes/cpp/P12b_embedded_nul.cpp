#include <GeographicLib/MGRS.hpp>
#include <GeographicLib/Geohash.hpp>
#include <GeographicLib/GARS.hpp>
#include <GeographicLib/Georef.hpp>
#include <GeographicLib/OSGB.hpp>
#include <GeographicLib/DMS.hpp>
#include <GeographicLib/Utility.hpp>
#include <cstdio>
#include <string>
using namespace GeographicLib;
template<class F> void tryit(const char* name, F f){ try { f(); } catch (const GeographicErr& e) { printf("%s: GeographicErr %s\n", name, e.what()); } catch (const std::exception& e) { printf("%s: OTHER EXCEPTION %s\n", name, e.what()); } }
int main(){
  using std::string;
  tryit("mgrs", []{ int z,p; bool n; double x,y; MGRS::Reverse(string("38SMB1\0",7),z,n,x,y,p,false); printf("mgrs accepted: zone=%d x=%.1f y=%.1f prec=%d (38SMB10 -> ", z,x,y,p); MGRS::Reverse("38SMB10",z,n,x,y,p,false); printf("x=%.1f y=%.1f)\n",x,y); });
  tryit("mgrs-zone", []{ int z,p; bool n; double x,y; MGRS::Reverse(string("1\0SMB",5),z,n,x,y,p,false); printf("mgrs zone accepted: zone=%d x=%.1f y=%.1f prec=%d\n", z,x,y,p); });
  tryit("geohash", []{ double la,lo; int len; Geohash::Reverse(string("u4pru\0",6),la,lo,len,false); printf("geohash accepted: %.6f %.6f len=%d\n",la,lo,len); });
  tryit("gars", []{ double la,lo; int p; GARS::Reverse(string("00\0AA",5),la,lo,p,false); printf("gars accepted: %.6f %.6f p=%d\n",la,lo,p); });
  tryit("gars2", []{ double la,lo; int p; GARS::Reverse(string("001A\0",5),la,lo,p,false); printf("gars2 accepted: %.6f %.6f p=%d\n",la,lo,p); });
  tryit("georef", []{ double la,lo; int p; Georef::Reverse(string("\0GAL",4),la,lo,p,false); printf("georef accepted: %.6f %.6f p=%d\n",la,lo,p); });
  tryit("osgb", []{ double x,y; int p; OSGB::GridReference(string("S\0",2),x,y,p,false); printf("osgb accepted: %.1f %.1f p=%d\n",x,y,p); });
  tryit("dms", []{ DMS::flag f; double v = DMS::Decode(string("1\0" "2",3), f); printf("dms accepted: %.6f\n", v); });
  tryit("dms2", []{ DMS::flag f; double v = DMS::Decode(string("12\0",3), f); printf("dms2 accepted: %.6f flag=%d\n", v,(int)f); });
  tryit("dms3", []{ DMS::flag f; double v = DMS::Decode(string("\0" "12",3), f); printf("dms3 accepted: %.6f flag=%d\n", v,(int)f); });
}
