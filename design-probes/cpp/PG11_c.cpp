#include <GeographicLib/AlbersEqualArea.hpp>
#include <GeographicLib/LambertConformalConic.hpp>
#include <cstdio>
#include <vector>
#include <cmath>
using namespace GeographicLib;
int main() {
  for (double f : {-2.0, -5.0, -1.0, -1.5})
  for (auto p : std::vector<std::pair<double,double>>{{20,50},{-20,-50},{40,40.000001},{10,80},{-30,60},{30,-60},{0,45},{5,-5.001},{60,89},{1,2},{45,45},{0,0},{90,90},{-90,-90},{89.9,89.99}}) {
    AlbersEqualArea L(1, f, p.first, p.second, 1);
    for (double lat : {-80.0, -45.0, -10.0, 0.0, 7.0, 33.0, 60.0, 85.0}) { double x, y, g, k, la, lo; L.Forward(0, lat, 25, x, y, g, k); L.Reverse(0, x, y, la, lo, g, k);
      if (std::isnan(x) || std::isnan(la)) printf("f=%g (%g,%g) lat=%g: x=%g y=%g la=%g lo=%g  [n0=%g lat0=%g k0=%g txi0=%g]\n", f, p.first, p.second, lat, x, y, la, lo, L._n0, L._lat0, L._k0, L._txi0); }
  }
}
