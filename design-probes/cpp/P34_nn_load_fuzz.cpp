#include <GeographicLib/NearestNeighbor.hpp>
#include <cstdio>
#include <vector>
#include <random>
#include <sstream>
#include <cmath>
using namespace GeographicLib;
struct P { double x,y; };
struct D1 { double operator()(const P&a,const P&b) const { return std::hypot(a.x-b.x,a.y-b.y);} };
int main(){ std::mt19937_64 rng(5); auto U=[&](){ return std::ldexp((double)(rng()>>11),-53); };
  long loaded=0, rejected=0, other=0, searched=0;
  for (int it=0; it<40000; ++it){ int n=1+rng()%40; std::vector<P> pts(n); for(auto&p:pts){p.x=U();p.y=U();} D1 d; NearestNeighbor<double,P,D1> nn(pts,d,rng()%5);
    bool bin = rng()%2; std::stringstream ss; nn.Save(ss,bin); std::string s=ss.str();
    int nm = 1+rng()%3; for(int k=0;k<nm;++k){ switch(rng()%4){ case 0: if(!s.empty()) s[rng()%s.size()] = char(rng()); break; case 1: s.resize(rng()%(s.size()+1)); break; case 2: if(!s.empty()) s[rng()%s.size()] ^= char(1<<(rng()%8)); break; default: if(!bin && !s.empty()){ size_t p=rng()%s.size(); s.insert(p, std::to_string((long)(rng()%2000)-1000)); } else if(!s.empty()) { size_t p=rng()%s.size(); int v=(int)(rng()%2000)-1000; if(p+4<=s.size()) memcpy(&s[p],&v,4);} } }
    std::stringstream in(s); NearestNeighbor<double,P,D1> nn2; { FILE* fp=fopen("/tmp/scratch/p2/last.bin","wb"); fwrite(s.data(),1,s.size(),fp); fclose(fp); fp=fopen("/tmp/scratch/p2/last.txt","w"); fprintf(fp,"it=%d bin=%d n=%d size=%zu\n",it,(int)bin,n,s.size()); for(auto&p:pts) fprintf(fp,"%.17g %.17g\n",p.x,p.y); fclose(fp);} 
    try { nn2.Load(in,bin); ++loaded; std::vector<int> ind; P q{U(),U()}; int kk=1+rng()%4; { FILE* fp=fopen("/tmp/scratch/p2/lastq.txt","w"); fprintf(fp,"%.17g %.17g %d\n",q.x,q.y,kk); fclose(fp);} try { nn2.Search(pts,d,q,ind,kk); ++searched; } catch(const GeographicErr&){ } }
    catch(const GeographicErr&){ ++rejected; } catch(const std::exception& e){ if(other<5) printf("OTHER exception: %s\n", e.what()); ++other; }
  }
  printf("loaded=%ld searched=%ld rejected=%ld other=%ld\n",loaded,searched,rejected,other);
}
