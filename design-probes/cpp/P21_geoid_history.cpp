#include <GeographicLib/Geoid.hpp>
#include <cstdio>
#include <fstream>
#include <random>
#include <cmath>
#include <cstring>
#include <memory>
using namespace GeographicLib;
static bool same(double a,double b){ return std::memcmp(&a,&b,8)==0 || (std::isnan(a)&&std::isnan(b)); }
int main(){
  std::mt19937_64 rng(4); auto U=[&](){ return std::ldexp((double)(rng()>>11),-53); };
  long bad=0,n=0, node=0;
  for (int file=0; file<60; ++file){
    int w = 2*(1+rng()%12), h = 3+2*(rng()%6);
    { std::ofstream f("/tmp/scratch/p2/g.pgm", std::ios::binary); f << "P5\n# Offset -108\n# Scale 0.003\n# Description test\n" << w << " " << h << "\n65535\n"; for(int i=0;i<w*h;++i){ unsigned v=rng()%65536; f.put(char(v>>8)); f.put(char(v&255)); } }
    for (int cubic=0;cubic<2;++cubic){
      Geoid hist("g","/tmp/scratch/p2",cubic,false);
      Geoid ts("g","/tmp/scratch/p2",cubic,true);
      double plat=0,plon=0;
      for (int op=0; op<400; ++op){
        int r = rng()%20;
        if (r==0) hist.CacheAll(); else if (r==1) hist.CacheClear(); else if (r<5){ double s=-90+180*U(), nn=s+ (U()*60), ww=-360+720*U(), e=ww+U()*400; try{hist.CacheArea(s,ww,nn,e);}catch(const GeographicErr&e){ printf("cachearea throw %s\n",e.what()); } }
        else {
          double lat,lon; switch(rng()%6){ case 0: lat=plat; lon=plon; break; case 1: lat = -90 + 180.0*(rng()%(h))/(h-1); lon = 360.0*(rng()%(2*w))/w - 360; break; case 2: lat=(rng()%2)?90:-90; lon=-180+360*U(); break; case 3: lat=-90+180*U(); lon = 180.0*(double)((long)(rng()%7)-3); break; case 4: lat = plat + (U()-0.5)*1e-3; lon = plon+(U()-0.5)*1e-3; if(std::fabs(lat)>90) lat=plat; break; default: lat=-90+180*U(); lon=-540+1080*U(); }
          plat=lat; plon=lon;
          double a = hist(lat,lon); Geoid fresh("g","/tmp/scratch/p2",cubic,false); double b = fresh(lat,lon); double c = ts(lat,lon); double d = hist(lat,lon+360);
          ++n; if(!same(a,b)||!same(a,c)) { if(bad<10) printf("HIST w=%d h=%d cubic=%d lat=%.17g lon=%.17g hist=%.17g fresh=%.17g ts=%.17g\n",w,h,cubic,lat,lon,a,b,c); ++bad; }
          if (std::fabs(a-d)>1e-9) { if(bad<10) printf("PERIOD lat=%.17g lon=%.17g %.17g %.17g\n",lat,lon,a,d); ++bad; }
        }
      }
    }
  }
  printf("n=%ld bad=%ld\n",n,bad);
}
