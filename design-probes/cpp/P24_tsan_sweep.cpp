#include <GeographicLib/Geodesic.hpp>
#include <GeographicLib/GeodesicExact.hpp>
#include <GeographicLib/GeodesicLine.hpp>
#include <GeographicLib/GeodesicLineExact.hpp>
#include <GeographicLib/Rhumb.hpp>
#include <GeographicLib/TransverseMercator.hpp>
#include <GeographicLib/TransverseMercatorExact.hpp>
#include <GeographicLib/PolarStereographic.hpp>
#include <GeographicLib/LambertConformalConic.hpp>
#include <GeographicLib/AlbersEqualArea.hpp>
#include <GeographicLib/Geocentric.hpp>
#include <GeographicLib/LocalCartesian.hpp>
#include <GeographicLib/Ellipsoid.hpp>
#include <GeographicLib/AuxLatitude.hpp>
#include <GeographicLib/EllipticFunction.hpp>
#include <GeographicLib/NormalGravity.hpp>
#include <GeographicLib/UTMUPS.hpp>
#include <GeographicLib/MGRS.hpp>
#include <GeographicLib/DMS.hpp>
#include <GeographicLib/Geohash.hpp>
#include <GeographicLib/GARS.hpp>
#include <GeographicLib/Georef.hpp>
#include <GeographicLib/OSGB.hpp>
#include <GeographicLib/SphericalHarmonic.hpp>
#include <GeographicLib/AzimuthalEquidistant.hpp>
#include <GeographicLib/Gnomonic.hpp>
#include <GeographicLib/CassiniSoldner.hpp>
#include <GeographicLib/PolygonArea.hpp>
#include <thread>
#include <vector>
#include <cstdio>
using namespace GeographicLib;
int main(int argc, char** argv){
  int which = argc>1? atoi(argv[1]) : -1;
  std::vector<double> C(66,0.1), S(55,0.2); SphericalHarmonic sh(C,S,10,6378137.0);
  GeodesicExact gex(6378137,0.1); Rhumb rhx(6378137,1/298.25,true); AuxLatitude aux(6378137,1/298.25); EllipticFunction ell(0.3,0.2);
  GeodesicLine line = Geodesic::WGS84().Line(10,20,30); GeodesicLineExact linex = GeodesicExact::WGS84().Line(10,20,30);
  CassiniSoldner cs(10,20,Geodesic::WGS84());
  auto work=[&](int t){ double a,b,c,d,e,f,g,h; std::string s; int z; bool n;
    for(int i=0;i<50;++i){ double lat=10+t+i*0.1, lon=20+i;
      if(which<0||which==0){ Geodesic::WGS84().Inverse(lat,lon,30,40,a,b,c,d,e,f,g); Geodesic::WGS84().Direct(lat,lon,30,1e6,a,b,c); }
      if(which<0||which==1){ GeodesicExact::WGS84().Inverse(lat,lon,30,40,a,b,c,d,e,f,g); gex.Inverse(lat,lon,-30,170,a,b,c,d,e,f,g); }
      if(which<0||which==2){ line.Position(1e6*i,a,b,c,d,e,f,g); linex.Position(1e6*i,a,b,c,d,e,f,g); }
      if(which<0||which==3){ TransverseMercator::UTM().Forward(3,lat,lon-17,a,b,c,d); TransverseMercatorExact::UTM().Forward(3,lat,lon-17,a,b,c,d); PolarStereographic::UPS().Forward(true,80,lon,a,b,c,d); }
      if(which<0||which==4){ LambertConformalConic::Mercator().Forward(0,lat,lon,a,b,c,d); AlbersEqualArea::CylindricalEqualArea().Forward(0,lat,lon,a,b,c,d); AlbersEqualArea::AzimuthalEqualAreaNorth().Forward(0,lat,lon,a,b,c,d);}
      if(which<0||which==5){ Geocentric::WGS84().Reverse(1e6*t,2e6,3e6+i,a,b,c); LocalCartesian lc(lat,lon,0); lc.Forward(lat+1,lon,10,a,b,c); Ellipsoid::WGS84().RectifyingLatitude(lat); Ellipsoid::WGS84().MeridianDistance(lat); }
      if(which<0||which==6){ UTMUPS::Forward(lat,lon,z,n,a,b); MGRS::Forward(z,n,a,b,5,s); MGRS::Reverse(s,z,n,a,b,i,true); DMS::Encode(lat,5,DMS::LATITUDE); DMS::flag fl; DMS::Decode("10d20'30\"N",fl); Geohash::Forward(lat,lon,10,s); GARS::Forward(lat,lon,2,s); Georef::Forward(lat,lon,4,s); OSGB::Forward(52+0.01*i,-1,a,b); OSGB::GridReference(a,b,4,s); }
      if(which<0||which==7){ sh(1e7,2e6*t,3e6+i); sh.Circle(1e7,3e6,true)(lon); }
      if(which<0||which==8){ rhx.Inverse(lat,lon,30,40,a,b,c); rhx.Direct(lat,lon,30,1e6,a,b,c); aux.Convert(0,3,lat,true); ell.E(0.1*i); ell.Pi(0.1*i); double sn,cn,dn; ell.sncndn(0.1*i,sn,cn,dn); NormalGravity::WGS84().Gravity(lat,100,a,b); }
      if(which<0||which==9){ AzimuthalEquidistant az(Geodesic::WGS84()); az.Forward(10,20,lat,lon,a,b); Gnomonic gn(Geodesic::WGS84()); gn.Forward(10,20,lat,lon,a,b); cs.Forward(lat,lon,a,b); }
      if(which==10){ Rhumb::WGS84().Inverse(lat,lon,30,40,a,b,c); }
      if(which==11){ aux.Convert(0,3,lat,false); }
    } };
  std::vector<std::thread> th; for(int t=0;t<4;++t) th.emplace_back(work,t); for(auto&x:th) x.join(); printf("done %d\n",which);
}
