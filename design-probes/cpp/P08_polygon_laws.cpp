#include <GeographicLib/PolygonArea.hpp>
#include <GeographicLib/Geodesic.hpp>
#include <GeographicLib/Rhumb.hpp>
#include <cstdio>
#include <vector>
#include <random>
#include <cmath>
using namespace GeographicLib;
int main(){
  std::mt19937_64 rng(17); auto U=[&](){ return std::ldexp((double)(rng()>>11),-53); };
  const Geodesic& g = Geodesic::WGS84(); double A = g.EllipsoidArea();
  long bad[6]={0}; long n=0;
  auto modA=[&](double d){ d = std::remainder(d, A); return std::fabs(d); };
  for (int it=0; it<200000; ++it){
    int L = 3 + rng()%5; std::vector<double> lat(L), lon(L);
    bool special = rng()%2;
    for (int i=0;i<L;++i){ lat[i] = -89+178*U(); lon[i] = special ? 90.0*(double)((long)(rng()%17)-8) : -400+800*U(); if (rng()%10==0) lat[i] = (rng()%2)?90:-90; }
    bool rev=rng()%2, sign=rng()%2; { bool amb=false; for(int i=0;i<L;++i){ int j=(i+1)%L; if (lat[i]==-lat[j] && (std::fabs(lat[i])==90 || std::fabs(std::remainder(lon[i]-lon[j],360.0))==180)) amb=true; } if(amb) continue; }
    auto area=[&](const std::vector<double>& la,const std::vector<double>& lo, bool r, bool s, double& per){ PolygonArea p(g); for(size_t i=0;i<la.size();++i) p.AddPoint(la[i],lo[i]); double a; p.Compute(r,s,per,a); return a; };
    double per0; double a0 = area(lat,lon,rev,sign,per0); ++n;
    double tolA = 50; // m^2, generous (accumulated roundoff ~ 1e-3)
    // rotation
    { std::vector<double> la(lat), lo(lon); std::rotate(la.begin(),la.begin()+1,la.end()); std::rotate(lo.begin(),lo.begin()+1,lo.end()); double per; double a = area(la,lo,rev,sign,per); if (modA(a-a0)>tolA || std::fabs(per-per0)>1e-6) { if(bad[0]<5){ printf("ROT a0=%.3f a=%.3f :",a0,a); for(int i=0;i<L;++i) printf(" (%.6f,%.6f)",lat[i],lon[i]); printf("\n"); } ++bad[0]; } }
    // 360 shifts of single vertex
    { std::vector<double> lo(lon); int i=rng()%L; lo[i] += 360.0*(double)((long)(rng()%5)-2); double per; double a = area(lat,lo,rev,sign,per); if (modA(a-a0)>tolA) { if(bad[1]<5){ printf("SHIFT360 i=%d a0=%.3f a=%.3f :",i,a0,a); for(int k=0;k<L;++k) printf(" (%.6f,%.17g->%.17g)",lat[k],lon[k],lo[k]); printf("\n"); } ++bad[1]; } }
    // constant shift (exactly representable shift to avoid changing geometry): shift by 90
    if (special) { std::vector<double> lo(lon); for(auto&x:lo) x+=90; double per; double a = area(lat,lo,rev,sign,per); if (modA(a-a0)>tolA) { if(bad[2]<5){ printf("SHIFT90 a0=%.3f a=%.3f :",a0,a); for(int k=0;k<L;++k) printf(" (%.6f,%g)",lat[k],lon[k]); printf("\n"); } ++bad[2]; } }
    // reverse traversal order => with sign: negated ; without sign: A - a
    { std::vector<double> la(lat.rbegin(),lat.rend()), lo(lon.rbegin(),lon.rend()); double per; double a = area(la,lo,rev,sign,per); double want = sign? -a0 : A-a0; if (modA(a-want)>tolA) { if(bad[3]<5) printf("REVORDER a0=%.3f a=%.3f\n",a0,a); ++bad[3]; } }
    // TestPoint == AddPoint+Compute ; state unchanged
    { PolygonArea p(g); for(int i=0;i<L-1;++i) p.AddPoint(lat[i],lon[i]); double per1,a1; p.TestPoint(lat[L-1],lon[L-1],rev,sign,per1,a1); double per2,a2; p.Compute(rev,sign,per2,a2); p.AddPoint(lat[L-1],lon[L-1]); double per3,a3; p.Compute(rev,sign,per3,a3); if (modA(a1-a3)>tolA || std::fabs(per1-per3)>1e-6) { if(bad[4]<5) printf("TESTPOINT a1=%.3f a3=%.3f\n",a1,a3); ++bad[4]; } }
    // AddEdge/TestEdge consistency: build polygon by edges from inverse
    { PolygonArea p(g), q(g); p.AddPoint(lat[0],lon[0]); q.AddPoint(lat[0],lon[0]); double clat=lat[0], clon=lon[0];
      for(int i=1;i<L;++i){ double s,a1,a2; g.Inverse(clat,clon,lat[i],lon[i],s,a1,a2); if(i==L-1){ double pe,ar; p.TestEdge(a1,s,rev,sign,pe,ar); p.AddEdge(a1,s); double pe2,ar2; p.Compute(rev,sign,pe2,ar2); if (modA(ar-ar2)>tolA||std::fabs(pe-pe2)>1e-6){ if(bad[5]<5) printf("TESTEDGE %.3f %.3f\n",ar,ar2); ++bad[5]; } } else p.AddEdge(a1,s); p.CurrentPoint(clat,clon); }
      double pe,ar; p.Compute(rev,sign,pe,ar); if (modA(ar-a0)>tolA+1) { if(bad[5]<5){ printf("EDGEPOLY a0=%.3f ar=%.3f :",a0,ar); for(int k=0;k<L;++k) printf(" (%.6f,%g)",lat[k],lon[k]); printf("\n"); } ++bad[5]; } }
  }
  printf("n=%ld rot=%ld shift360=%ld shift90=%ld revorder=%ld testpoint=%ld edge=%ld\n",n,bad[0],bad[1],bad[2],bad[3],bad[4],bad[5]);
}
