#include <GeographicLib/Math.hpp>
#include <cstdio>
#include <vector>
#include <random>
#include <cmath>
using namespace GeographicLib;
static int transit_orig(double lon1, double lon2){
  double lon12 = Math::AngDiff(lon1, lon2);
  lon1 = Math::AngNormalize(lon1); lon2 = Math::AngNormalize(lon2);
  return lon12 > 0 && ((lon1 < 0 && lon2 >= 0) || (lon1 > 0 && lon2 == 0)) ? 1 :
    (lon12 < 0 && lon1 >= 0 && lon2 < 0 ? -1 : 0);
}
static int transit_fix(double lon1, double lon2){
  double lon12 = Math::AngDiff(lon1, lon2);
  lon1 = Math::AngNormalize(lon1); lon2 = Math::AngNormalize(lon2);
  return lon12 > 0 && ((lon1 < 0 && lon2 >= 0) || (lon1 > 0 && lon2 == 0)) ? 1 :
    (lon12 < 0 && lon1 >= 0 && (lon2 < 0 || lon2 == 180) ? -1 : 0);
}
int main(){
  std::mt19937_64 rng(7);
  std::vector<double> pool = {0.0,-0.0,180,-180,360,-360,540,-540,90,-90,270,-270,720,1e-300,-1e-300,179.99999999999997,-179.99999999999997, 180.00000000000003, 359.99999999999994, 45, -135, 0.5, -0.5};
  for (int variant=0; variant<2; ++variant){
  long bad=0, n=0;
  for (int it=0; it<3000000; ++it){
    int L = 2 + rng()%5;
    std::vector<double> lon(L);
    for (auto& x: lon) { x = (rng()%4)? pool[rng()%pool.size()] : (std::ldexp((double)(rng()>>11),-53)*1440-720); }
    long tr=0; long double s=0;
    for (int i=0;i<L;++i){ double a=lon[i], b=lon[(i+1)%L]; tr += variant? transit_fix(a,b): transit_orig(a,b); double e; double d=Math::AngDiff(a,b,e); s += (long double)d + (long double)e; }
    long double w = s/360; ++n;
    if (fabsl(w - roundl(w))>1e-9 || (long)roundl(w)!=tr) { if(bad<6){ printf("v%d L=%d tr=%ld w=%Lg :",variant,L,tr,w); for(double x:lon) printf(" %.17g",x); printf("\n"); } ++bad; }
  }
  printf("variant %d n=%ld bad=%ld\n",variant,n,bad);
  }
}
