#include <GeographicLib/Intersect.hpp>
#include <GeographicLib/Geodesic.hpp>
#include <cstdio>
#include <random>
#include <cmath>
#include <vector>
#include <algorithm>
using namespace GeographicLib;
std::mt19937_64 rng(91); double U(){ return std::ldexp((double)(rng()>>11),-53); }
double pick(std::initializer_list<double> l){ auto it=l.begin(); std::advance(it, rng()%l.size()); return *it; }
int main(){
  for (double f : {1/298.257223563, 0.0, 0.015, -0.015}) { Geodesic g(6378137,f); Intersect in(g); double C = 2*Math::pi()*6378137;
    long bad[5]={0}, n=0;
    for (int it=0; it<1500; ++it){ double latX=-89+178*U(), lonX=(U()-0.5)*360, aziX=(U()-0.5)*360, latY=-89+178*U(), lonY=(U()-0.5)*360, aziY=(U()-0.5)*360;
      if (rng()%5==0){ latY=latX; lonY=lonX; } // intersect at origin
      if (rng()%7==0){ aziY = aziX + pick({0.0,180.0,1e-9,90.0}); latY=latX; lonY=lonX; } // coincident / near-parallel
      if (rng()%9==0){ latX=0; aziX=90; } // equatorial
      double D1 = C*(0.05+U()*1.2), D2 = D1*(1+U());
      GeodesicLine lx=g.Line(latX,lonX,aziX,Intersect::LineCaps), ly=g.Line(latY,lonY,aziY,Intersect::LineCaps);
      std::vector<int> c1,c2; auto v1=in.All(lx,ly,D1,c1), v2=in.All(lx,ly,D2,c2); ++n;
      // on both lines
      for (auto& p: v2){ double la,lo,la2,lo2,s; lx.Position(p.first,la,lo); ly.Position(p.second,la2,lo2); g.Inverse(la,lo,la2,lo2,s); if (s>1e-5){ if(bad[0]<5) printf("f=%g NOTON x=%.3f y=%.3f sep=%g (lines %.6f %.6f %.6f / %.6f %.6f %.6f)\n",f,p.first,p.second,s,latX,lonX,aziX,latY,lonY,aziY); ++bad[0]; } }
      // sorted
      for (size_t i=1;i<v2.size();++i) if (std::fabs(v2[i].first)+std::fabs(v2[i].second) < std::fabs(v2[i-1].first)+std::fabs(v2[i-1].second) - 1e-6) ++bad[1];
      // subset consistency
      std::vector<Intersect::Point> w; for (auto&p: v2) if (std::fabs(p.first)+std::fabs(p.second) <= D1) w.push_back(p);
      bool coincident = false; for(int c: c2) if(c) coincident=true;
      if (!coincident){
        // compare sets with tolerance 1e-3 m, ignoring points within 1 m of the D1 boundary
        auto near=[&](const Intersect::Point&a,const Intersect::Point&b){ return std::fabs(a.first-b.first)+std::fabs(a.second-b.second) < 1e-3; };
        for (auto& p: w){ double d=std::fabs(p.first)+std::fabs(p.second); if (D1-d<1) continue; bool found=false; for(auto&q:v1) if(near(p,q)) found=true; if(!found){ if(bad[2]<8) printf("f=%g MISSING in All(D1=%.0f): x=%.3f y=%.3f d=%.3f present in All(D2=%.0f) (lines %.10g %.10g %.10g / %.10g %.10g %.10g)\n",f,D1,p.first,p.second,d,D2,latX,lonX,aziX,latY,lonY,aziY); ++bad[2]; } }
        for (auto& q: v1){ bool found=false; for(auto&p:v2) if(near(p,q)) found=true; if(!found){ if(bad[3]<5) printf("f=%g EXTRA in All(D1): x=%.3f y=%.3f\n",f,q.first,q.second); ++bad[3]; } }
        // Closest == first of All
        auto pc = in.Closest(lx,ly); if (!v2.empty()){ double dc=std::fabs(pc.first)+std::fabs(pc.second), d0=std::fabs(v2[0].first)+std::fabs(v2[0].second); if (dc > d0 + 1e-3) { if(bad[4]<5) printf("f=%g CLOSEST not minimal: closest d=%.3f (%.3f,%.3f) all[0] d=%.3f (%.3f,%.3f) lines %.10g %.10g %.10g / %.10g %.10g %.10g\n",f,dc,pc.first,pc.second,d0,v2[0].first,v2[0].second,latX,lonX,aziX,latY,lonY,aziY); ++bad[4]; } }
      }
    }
    printf("f=%g n=%ld noton=%ld unsorted=%ld missing=%ld extra=%ld closest=%ld\n",f,n,bad[0],bad[1],bad[2],bad[3],bad[4]);
  }
}
