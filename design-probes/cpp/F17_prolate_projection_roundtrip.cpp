#include <GeographicLib/TransverseMercator.hpp>
#include <GeographicLib/PolarStereographic.hpp>
#include <GeographicLib/LambertConformalConic.hpp>
#include <cstdio>
#include <cmath>
using namespace GeographicLib;
int main(){ double a=6378137;
  for (double f : {-1/298.257223563, -0.01, -0.1, 0.01}) { TransverseMercator tm(a,f,1); PolarStereographic ps(a,f,1); LambertConformalConic lcc(a,f,40,1);
    for (double lat : {0.5, 10.0, 45.0, 80.0}) { double x,y,g,k,la,lo; tm.Forward(0,lat,3,x,y,g,k); tm.Reverse(0,x,y,la,lo,g,k); double e1=(la-lat); ps.Forward(true,lat,30,x,y,g,k); ps.Reverse(true,x,y,la,lo,g,k); double e2=la-lat; lcc.Forward(0,lat,30,x,y,g,k); lcc.Reverse(0,x,y,la,lo,g,k); double e3=la-lat;
      printf("f=%9.6f lat=%5.1f: TM roundtrip dlat=%.3e deg (%.3g m)  PS dlat=%.3e  LCC dlat=%.3e\n",f,lat,e1,e1*111e3,e2,e3); } }
}
