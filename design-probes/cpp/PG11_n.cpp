#include "C11_oracle.hpp"
#include <GeographicLib/AlbersEqualArea.hpp>
#include <cstdio>
#include <cmath>
#include <cstring>
#include <cstdint>
using namespace GeographicLib; using c11::Q;
static double unhx(const char* s) { uint64_t b = strtoull(s, 0, 16); double x; memcpy(&x, &b, 8); return x; }
int main() {
  double s = unhx("3feffffffd50ce23"), c = unhx("3f1a36e2eb1c432d"), k1 = 1.25, sslat = unhx("4032c877e952fb30"), ssk = 0.001, lon0 = unhx("40530d6676c3b9f8"), lat = unhx("40567fffffffe483"), lon = unhx("40565575e04624dc");
  for (double f : {1/298.257223563, 0.0, 0.1, -0.1, 1/150.0, 0.25, -0.25}) for (double kk : {0.001, 1.0}) {
    AlbersEqualArea A(6378137, f, s, c, s, c, k1); A.SetScale(sslat, kk);
    c11::Proj P(2, 6378137, f); P.kap = k1; P.init_conic(c11::sc_norm(s, c), c11::sc_norm(s, c)); { c11::SC p = c11::sc_deg(sslat); P.kap = Q(kk) / P.unit_scale(p); }
    double x, y, g, k; A.Forward(lon0, lat, lon, x, y, g, k); c11::Out w = P.fwd(true, lon0, lat, lon);
    printf("f=%-8.4g ssk=%g k0=%.6g: y=%.17g oracle %s diff %.3g (rel %.2g) klocal=%g\n", f, kk, A.CentralScale(), y, c11::qstr(w.y).c_str(), c11::dbl(Q(y) - w.y), c11::dbl((Q(y) - w.y) / w.y), k);
  }
}
