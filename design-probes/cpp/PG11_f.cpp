#include "C11_oracle.hpp"
#include <GeographicLib/AlbersEqualArea.hpp>
#include <cstdio>
#include <cmath>
using namespace GeographicLib; using c11::Q;
int main(int argc, char** argv) {
  double f = argc > 1 ? atof(argv[1]) : 0.95, l1 = argc > 2 ? atof(argv[2]) : 84.2192, l2 = argc > 3 ? atof(argv[3]) : -68.1623;
  AlbersEqualArea L(1, f, l1, l2, 1);
  c11::Proj P(2, 1, f); P.init_conic(c11::sc_deg(l1), c11::sc_deg(l2));
  printf("n0=%.17g lat0=%.17g k0=%.17g | oracle lat0=%s n=%s\n", L._n0, L._lat0, L._k0, c11::qstr(atan2q(P.p0.s, P.p0.c) * 180 / c11::PIq).c_str(), c11::qstr(P.n).c_str());
  // replicate Init's Newton with trace
  double sphi1, cphi1, sphi2, cphi2; Math::sincosd(l1, sphi1, cphi1); Math::sincosd(l2, sphi2, cphi2);
  double sign = sphi1 + sphi2 >= 0 ? 1 : -1; sphi1 *= sign; sphi2 *= sign; if (sphi1 > sphi2) { std::swap(sphi1, sphi2); std::swap(cphi1, cphi2); }
  double tphi1 = sphi1 / cphi1, tphi2 = sphi2 / cphi2;
  printf("tphi1=%g tphi2=%g start=%g  DDatanhee=%.17g (DD0 %.17g)\n", tphi1, tphi2, (tphi1 + tphi2) / 2, L.DDatanhee(sphi1, sphi2), L.DDatanhee0(sphi1, sphi2));
  // g(phi) of the oracle along the interval, to see the root structure
  for (double ph = l1 < l2 ? l1 : l2; ph <= (l1 < l2 ? l2 : l1); ph += 8) { c11::SC p = c11::sc_deg(ph); Q mm = P.E.m(p); Q g = p.s * (P.C - P.n * P.E.q(p)) - P.n * mm * mm; printf("  phi=%g g=%s  kscale=%s\n", ph, c11::qstr(g).c_str(), c11::qstr(P.unit_scale(p)).c_str()); }
  double x, y, g, k; for (double l : {l1, l2}) { L.Forward(0, l, 0, x, y, g, k); printf("k(%g)=%.17g\n", l, k); }
}
