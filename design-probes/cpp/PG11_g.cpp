// where does the Newton iteration of AlbersEqualArea::Init converge to a wrong root?
#include "C11_oracle.hpp"
#include <GeographicLib/AlbersEqualArea.hpp>
#include <cstdio>
#include <cmath>
#include <random>
using namespace GeographicLib; using c11::Q;
int main(int argc, char** argv) {
  std::mt19937_64 rng(7); std::uniform_real_distribution<double> U(0, 1);
  for (double f : {0.0, 0.1, 0.5, 0.75, 0.8, 0.85, 0.9, 0.95, 0.99, 0.999, -0.5, -1.0, -3.0}) {
    int bad = 0, n = 0; double minabs = 1e9, worst = 0; char ex[200] = "";
    for (int it = 0; it < 20000; ++it) {
      double l1 = -89.9 + 179.8 * U(rng), l2 = -89.9 + 179.8 * U(rng); if (std::fabs(l1 - l2) < 1e-3) continue;
      AlbersEqualArea L(1, f, l1, l2, 1); ++n;
      c11::Proj P(2, 1, f); P.init_conic(c11::sc_deg(l1), c11::sc_deg(l2)); if (P.cyl) continue;
      double ol = c11::dbl(atan2q(P.p0.s, P.p0.c) * 180 / c11::PIq), e = std::fabs(L._lat0 - ol);
      if (!(e < 1e-6)) { ++bad; double dl = std::fabs(l1 - l2); if (dl < minabs) { minabs = dl; snprintf(ex, 200, "(%.5f,%.5f): lat0 %.6f vs %.6f", l1, l2, L._lat0, ol); } }
    }
    printf("f=%g: wrong root in %d of %d; smallest |lat1-lat2| among them %g  %s\n", f, bad, n, minabs, ex);
  }
}
