#include <GeographicLib/AlbersEqualArea.hpp>
#include <cstdio>
#include <cmath>
using namespace GeographicLib;
int main() {
  for (double f : {-2.0, -1.0, -1.2, -1.3, -1.5}) {
  AlbersEqualArea L(1, f, 45, 1);
  double s1 = std::sin(1*M_PI/180), s2 = std::sin(2*M_PI/180);
  printf("f=%g e2=%g e=%g e2m=%g qZ=%g qx=%g\n", f, L._e2, L._e, L._e2m, L._qZ, L._qx);
  printf("  DDatanhee(s1,s2)=%.17g  DD0=%.17g DD1=%.17g DD2=%.17g\n", L.DDatanhee(s1, s2), L.DDatanhee0(s1, s2), L.DDatanhee1(s1,s2), L.DDatanhee2(s1, s2));
  double t1 = std::tan(1*M_PI/180), t2 = std::tan(2*M_PI/180);
  printf("  txif(t1)=%.17g txif(t2)=%.17g Datanhee=%.17g\n", L.txif(t1), L.txif(t2), L.Datanhee(s2, s1));
  AlbersEqualArea M(1, f, 1, 2, 1); printf("  n0=%g lat0=%g k0=%g\n", M._n0, M._lat0, M._k0);
  }
}
