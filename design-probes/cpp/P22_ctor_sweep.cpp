#include <GeographicLib/Geodesic.hpp>
#include <GeographicLib/GeodesicExact.hpp>
#include <GeographicLib/TransverseMercator.hpp>
#include <GeographicLib/TransverseMercatorExact.hpp>
#include <GeographicLib/PolarStereographic.hpp>
#include <GeographicLib/LambertConformalConic.hpp>
#include <GeographicLib/AlbersEqualArea.hpp>
#include <GeographicLib/Geocentric.hpp>
#include <GeographicLib/Ellipsoid.hpp>
#include <GeographicLib/Rhumb.hpp>
#include <GeographicLib/AuxLatitude.hpp>
#include <GeographicLib/NormalGravity.hpp>
#include <GeographicLib/EllipticFunction.hpp>
#include <GeographicLib/Intersect.hpp>
#include <cstdio>
#include <cmath>
#include <limits>
#include <string>
using namespace GeographicLib;
template<class F> std::string tryc(F f){ try { f(); return "ok"; } catch(const GeographicErr& e){ return "GErr"; } catch(const std::exception& e){ return std::string("OTHER:")+e.what(); } }
int main(){ double inf=std::numeric_limits<double>::infinity(), nan=std::nan("");
  double as[]={6378137,0,-1,inf,nan,1e-300,1e300}; double fs[]={1/298.25,0,1,1.5,-1,0.99,-99,inf,-inf,nan,2};
  printf("%-10s %-10s | Geod GeodEx Geodx=t TM TMEx PS Geoc Ellip Rhumb RhumbEx AuxLat LCC1 Alb1 Intersect\n","a","f");
  for(double a:as) for(double f:fs){ if(a!=6378137 && f!=1/298.25) continue; printf("%-10g %-10g |",a,f);
    printf(" %s",tryc([&]{Geodesic g(a,f);}).c_str()); printf(" %s",tryc([&]{GeodesicExact g(a,f);}).c_str()); printf(" %s",tryc([&]{Geodesic g(a,f,true);}).c_str());
    printf(" %s",tryc([&]{TransverseMercator g(a,f,1);}).c_str()); printf(" %s",tryc([&]{TransverseMercatorExact g(a,f,1);}).c_str()); printf(" %s",tryc([&]{PolarStereographic g(a,f,1);}).c_str());
    printf(" %s",tryc([&]{Geocentric g(a,f);}).c_str()); printf(" %s",tryc([&]{Ellipsoid g(a,f);}).c_str()); printf(" %s",tryc([&]{Rhumb g(a,f,false);}).c_str()); printf(" %s",tryc([&]{Rhumb g(a,f,true);}).c_str()); printf(" %s",tryc([&]{AuxLatitude g(a,f);}).c_str());
    printf(" %s",tryc([&]{LambertConformalConic g(a,f,40,1);}).c_str()); printf(" %s",tryc([&]{AlbersEqualArea g(a,f,40,1);}).c_str()); printf(" %s",tryc([&]{Geodesic gg(a,f); Intersect g(gg);}).c_str());
    printf("\n"); }
  printf("k0 sweep (TM, TMEx, PS, LCC, Albers): "); for(double k:{0.0,-1.0,inf,nan}) { printf("[k=%g: %s %s %s %s %s] ",k,tryc([&]{TransverseMercator g(6378137,0.003,k);}).c_str(),tryc([&]{TransverseMercatorExact g(6378137,0.003,k);}).c_str(),tryc([&]{PolarStereographic g(6378137,0.003,k);}).c_str(),tryc([&]{LambertConformalConic g(6378137,0.003,40,k);}).c_str(),tryc([&]{AlbersEqualArea g(6378137,0.003,40,k);}).c_str()); } printf("\n");
  printf("stdlat sweep LCC1/Alb1: "); for(double l:{91.0,-91.0,nan,inf,90.0,-90.0}) printf("[lat=%g: %s %s] ",l,tryc([&]{LambertConformalConic g(6378137,0.003,l,1);}).c_str(),tryc([&]{AlbersEqualArea g(6378137,0.003,l,1);}).c_str()); printf("\n");
  printf("NormalGravity: "); for(double gm:{3.986e14,0.0,-1.0,nan,inf}) printf("[GM=%g %s] ",gm,tryc([&]{NormalGravity g(6378137,gm,7.29e-5,1/298.25,true);}).c_str()); for(double om:{nan,inf}) printf("[omega=%g %s] ",om,tryc([&]{NormalGravity g(6378137,3.986e14,om,1/298.25,true);}).c_str()); printf("\n");
  printf("EllipticFunction: "); for(double k2:{0.5,1.0,1.0000001,-5.0,nan,inf,-inf}) printf("[k2=%g %s] ",k2,tryc([&]{EllipticFunction e(k2,0.3);}).c_str()); printf("\n");
}
