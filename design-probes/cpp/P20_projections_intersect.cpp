#include <GeographicLib/AzimuthalEquidistant.hpp>
#include <GeographicLib/Gnomonic.hpp>
#include <GeographicLib/CassiniSoldner.hpp>
#include <GeographicLib/Intersect.hpp>
#include <GeographicLib/Geodesic.hpp>
#include <cstdio>
#include <random>
#include <cmath>
using namespace GeographicLib;
std::mt19937_64 rng(61); double U(){ return std::ldexp((double)(rng()>>11),-53); }
double pick(std::initializer_list<double> l){ auto it=l.begin(); std::advance(it, rng()%l.size()); return *it; }
double rlat(){ switch(rng()%5){ case 0: return pick({90,-90,0,1e-10,-1e-10,89.9999999999,45,-45}); default: return -90+180*U(); } }
static double dist(const Geodesic&g,double la,double lo,double la2,double lo2){ double s; g.Inverse(la,lo,la2,lo2,s); return s; }
int main(){ const Geodesic& g=Geodesic::WGS84(); AzimuthalEquidistant az(g); Gnomonic gn(g); double a=g.EquatorialRadius();
  double m1=0,m2=0,m3=0,m1d=0; long gnan=0;
  for(int it=0;it<200000;++it){ double lat0=rlat(), lon0=(U()-0.5)*360, lat=rlat(), lon=(U()-0.5)*360;
    double x,y,azi,rk; az.Forward(lat0,lon0,lat,lon,x,y,azi,rk); double s,a1,a2; g.Inverse(lat0,lon0,lat,lon,s,a1,a2); m1d=std::max(m1d,std::fabs(std::hypot(x,y)-s)); double la,lo; az.Reverse(lat0,lon0,x,y,la,lo,azi,rk); m1=std::max(m1,dist(g,lat,lon,la,lo));
    gn.Forward(lat0,lon0,lat,lon,x,y,azi,rk); if(std::isnan(x)){ ++gnan; } else if (std::hypot(x,y)<5*a) { gn.Reverse(lat0,lon0,x,y,la,lo,azi,rk); double d=dist(g,lat,lon,la,lo); if(!(d<1e-3)) { static int sh=0; if(sh++<5) printf("GNOM lat0=%.10g lon0=%.10g lat=%.10g lon=%.10g x=%.6g y=%.6g -> %.10g %.10g d=%g\n",lat0,lon0,lat,lon,x,y,la,lo,d);} m2=std::max(m2,d); }
    CassiniSoldner cs(lat0,lon0,g); cs.Forward(lat,lon,x,y); cs.Reverse(x,y,la,lo); double d=dist(g,lat,lon,la,lo); if(d>1e-3){ static int sh=0; if(sh++<5) printf("CASS lat0=%.10g lon0=%.10g lat=%.10g lon=%.10g x=%.9g y=%.9g -> %.10g %.10g d=%g\n",lat0,lon0,lat,lon,x,y,la,lo,d);} m3=std::max(m3,d);
  }
  printf("azeq |r-s12| %.3g m, closure %.3g m ; gnomonic closure %.3g m (nan %ld) ; cassini closure %.3g m\n",m1d,m1,m2,gnan,m3);
  // Intersect closest: on both lines
  Intersect inter(g); double mi=0; long nbad=0;
  for(int it=0;it<20000;++it){ double latX=rlat(), lonX=(U()-0.5)*360, aziX=(U()-0.5)*360, latY=rlat(), lonY=(U()-0.5)*360, aziY=(U()-0.5)*360; if(std::fabs(latX)==90||std::fabs(latY)==90) continue;
    auto p = inter.Closest(latX,lonX,aziX,latY,lonY,aziY); double la1,lo1,la2,lo2; g.Direct(latX,lonX,aziX,p.first,la1,lo1); g.Direct(latY,lonY,aziY,p.second,la2,lo2); double d=dist(g,la1,lo1,la2,lo2); mi=std::max(mi,d); if(d>1e-6) ++nbad;
    // brute force: any intersection with smaller L1 found by scanning? check Next consistency skip
  }
  printf("intersect closest: max mismatch between lines %.3g m (bad>1um: %ld)\n",mi,nbad);
}
