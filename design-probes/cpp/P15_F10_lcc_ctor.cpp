#include <GeographicLib/LambertConformalConic.hpp>
#include <cstdio>
using namespace GeographicLib;
int main(){ double a=6378137,f=1/298.257223563;
  for (auto cfg : {std::pair<double,double>{90,-24.5744636462}, {-24.5744636462,90}, {90, 30}, {89.9999999999,-24.5744636462}, {-90, 24.57}, {90,-90}, {90,0}}) {
  try { LambertConformalConic lcc(a,f,cfg.first,cfg.second,1.0); double x,y,g,k,la,lo; lcc.Forward(0,73.7792379588,156.219,x,y,g,k); lcc.Reverse(0,x,y,la,lo,g,k);
  printf("[%g,%g] x=%.3f y=%.3f -> lat=%.9f lon=%.6f  OriginLatitude=%.6f CentralScale=%.6g\n",cfg.first,cfg.second,x,y,la,lo,lcc.OriginLatitude(),lcc.CentralScale()); } catch(const std::exception&e){ printf("[%g,%g] throws %s\n",cfg.first,cfg.second,e.what()); } }
}
