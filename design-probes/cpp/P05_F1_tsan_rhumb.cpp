#include <GeographicLib/Rhumb.hpp>
#include <thread>
#include <cstdio>
using namespace GeographicLib;
int main(){
  Rhumb rh(6378137, 1/298.257223563);
  double r[2];
  auto f=[&](int i){ double s,a; rh.Inverse(10+i, 20, 30, 40+i, s, a); r[i]=s; };
  std::thread t1(f,0), t2(f,1); t1.join(); t2.join();
  printf("%.6f %.6f\n", r[0], r[1]);
}
