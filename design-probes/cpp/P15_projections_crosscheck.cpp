#include <GeographicLib/TransverseMercator.hpp>
#include <GeographicLib/TransverseMercatorExact.hpp>
#include <GeographicLib/Geocentric.hpp>
#include <GeographicLib/LocalCartesian.hpp>
#include <GeographicLib/Rhumb.hpp>
#include <GeographicLib/PolarStereographic.hpp>
#include <GeographicLib/LambertConformalConic.hpp>
#include <GeographicLib/AlbersEqualArea.hpp>
#include <GeographicLib/AuxLatitude.hpp>
#include <cstdio>
#include <random>
#include <cmath>
#include <algorithm>
using namespace GeographicLib;
std::mt19937_64 rng(41); double U(){ return std::ldexp((double)(rng()>>11),-53); }
double pick(std::initializer_list<double> l){ auto it=l.begin(); std::advance(it, rng()%l.size()); return *it; }
double rlat(){ switch(rng()%5){ case 0: return pick({90,-90,0,1e-10,-1e-10,89.9999999999,-89.9999999999,45,-45}); default: return -90+180*U(); } }
int main(){
  double a=6378137;
  // TM
  for (double f : {1/298.257223563, 0.01, -0.01, 1/150.0}) if (f>0) {
    TransverseMercator tm(a,f,0.9996); TransverseMercatorExact te(a,f,0.9996);
    double m35=0,m60=0,rt=0,rte=0,gk=0;
    for (int it=0; it<200000; ++it){ double lat=rlat(), dl = (rng()%3==0)? pick({0,1e-10,3,35,60,-35,-3}) : (U()-0.5)*120, lon0=(U()-0.5)*360, lon=lon0+dl;
      double x,y,g,k,x2,y2,g2,k2; tm.Forward(lon0,lat,lon,x,y,g,k); te.Forward(lon0,lat,lon,x2,y2,g2,k2); double d=std::hypot(x-x2,y-y2); if (std::fabs(dl)<=35) m35=std::max(m35,d); else m60=std::max(m60,d);
      double la,lo,gg,kk; tm.Reverse(lon0,x,y,la,lo,gg,kk); double e = std::hypot(la-lat, Math::AngDiff(lo,lon)*std::cos(lat*Math::degree()))*Math::degree()*a; if (std::fabs(lat)==90) e=std::fabs(la-lat)*Math::degree()*a; if(std::fabs(dl)<=35) rt=std::max(rt,e);
      te.Reverse(lon0,x2,y2,la,lo,gg,kk); e = std::hypot(la-lat, Math::AngDiff(lo,lon)*std::cos(lat*Math::degree()))*Math::degree()*a; if (std::fabs(lat)==90) e=std::fabs(la-lat)*Math::degree()*a; rte=std::max(rte,e);
      if (std::fabs(dl)<=35 && std::fabs(lat)<89.9) gk=std::max(gk, std::max(std::fabs(Math::AngDiff(g,g2))*3600, std::fabs(k-k2)*1e9)); }
    printf("TM f=%.5f series-vs-exact within35 %.2f nm, 35-60deg %.2f nm, roundtrip series %.2f nm exact %.2f nm, gamma(arcsec)/k(1e-9) diff %.3g\n",f,m35*1e9,m60*1e9,rt*1e9,rte*1e9,gk);
  }
  // Geocentric
  for (double f : {1/298.257223563, 0.0, 0.5, -0.5, 0.99, 0.1}) { Geocentric gc(a,f); double mx=0, mxfar=0, worst[3]={0};
    for (int it=0; it<300000; ++it){ double lat=rlat(), lon=(U()-0.5)*720, h; switch(rng()%4){case 0: h=(U()-0.5)*1e7; break; case 1: h=std::pow(10.0, U()*20)*((rng()%2)?1:1); break; case 2: h=-a*(1-f)*U()*0.99; break; default: h=(U()-0.5)*1e4;} 
      double X,Y,Z; gc.Forward(lat,lon,h,X,Y,Z); double la,lo,hh; gc.Reverse(X,Y,Z,la,lo,hh); double X2,Y2,Z2; gc.Forward(la,lo,hh,X2,Y2,Z2); double e=std::sqrt((X-X2)*(X-X2)+(Y-Y2)*(Y-Y2)+(Z-Z2)*(Z-Z2)); double r=std::sqrt(X*X+Y*Y+Z*Z); double rel=e/std::max(r,a); if (std::fabs(h)<5e6){ if(e>mx){mx=e;worst[0]=lat;worst[1]=lon;worst[2]=h;} } else mxfar=std::max(mxfar,rel); }
    printf("Geocentric f=%.4f closure |h|<5000km max %.3g nm (lat=%.10g lon=%.6g h=%.6g); far rel %.3g\n",f,mx*1e9,worst[0],worst[1],worst[2],mxfar);
  }
  // Rhumb
  for (double f : {1/298.257223563, 0.01, -0.01}) { Rhumb rs(a,f,false), rx(a,f,true); double ms=0, mc=0, mS=0;
    for (int it=0; it<200000; ++it){ double lat1=rlat(), lon1=(U()-0.5)*360, lat2=rlat(), lon2=(rng()%4==0)? lon1+pick({0,1e-10,180-1e-9,90}) : (U()-0.5)*360; if (rng()%5==0) { lat2 = lat1 + (U()-0.5)*pick({1e-3,1e-6,1e-9,0}); if(std::fabs(lat2)>90) lat2=lat1; }
      double s,az,S,s2,az2,S2; rs.Inverse(lat1,lon1,lat2,lon2,s,az,S); rx.Inverse(lat1,lon1,lat2,lon2,s2,az2,S2); if (std::fabs(lat1)<90&&std::fabs(lat2)<90){ ms=std::max(ms,std::fabs(s-s2)); mS=std::max(mS,std::fabs(S-S2)/std::max(1.0,std::fabs(S2))); }
      double la,lo; rx.Direct(lat1,lon1,az2,s2,la,lo); if (std::fabs(lat1)<89.999&&std::fabs(lat2)<89.999){ double e=std::hypot(la-lat2, Math::AngDiff(lo,lon2)*std::cos(lat2*Math::degree()))*Math::degree()*a; mc=std::max(mc,e);} }
    printf("Rhumb f=%.5f series-vs-exact |ds| %.2f nm, relS %.3g, exact closure %.2f nm\n",f,ms*1e9,mS,mc*1e9);
  }
  // PS, LCC, Albers
  { double f=1/298.257223563; PolarStereographic ps(a,f,0.994); double m=0; for(int it=0;it<200000;++it){ double lat=rlat(), lon=(U()-0.5)*360; bool np=rng()%2; double x,y,g,k; ps.Forward(np,lat,lon,x,y,g,k); if(!std::isfinite(x)) continue; double la,lo; ps.Reverse(np,x,y,la,lo,g,k); double e=std::hypot(la-lat, Math::AngDiff(lo,lon)*std::cos(lat*Math::degree()))*Math::degree()*a; if(std::fabs(lat)==90) e=std::fabs(la-lat)*Math::degree()*a; if ((np?lat:-lat)>-89) m=std::max(m,e);} printf("PS closure %.2f nm\n",m*1e9);
    double mm=0, ma=0; for(int it=0;it<3000;++it){ double l1=rlat(), l2=(rng()%3==0)? l1+pick({0,1e-10,1e-5,1}) : rlat(); if(std::fabs(l2)>90) l2=l1; try{ LambertConformalConic lcc(a,f,l1,l2,1.0); AlbersEqualArea alb(a,f,l1,l2,1.0); for(int j=0;j<60;++j){ double lat=rlat(), lon=(U()-0.5)*360,x,y,g,k,la,lo; lcc.Forward(0,lat,lon,x,y,g,k); if(std::isfinite(x)&&std::isfinite(y)&& std::hypot(x,y)<1e9){ lcc.Reverse(0,x,y,la,lo,g,k); double e=std::hypot(la-lat, Math::AngDiff(lo,lon)*std::cos(lat*Math::degree()))*Math::degree()*a; if(std::fabs(lat)<90) mm=std::max(mm,e);} alb.Forward(0,lat,lon,x,y,g,k); if(std::isfinite(x)&&std::isfinite(y)){ alb.Reverse(0,x,y,la,lo,g,k); double e=std::hypot(la-lat, Math::AngDiff(lo,lon)*std::cos(lat*Math::degree()))*Math::degree()*a; if(std::fabs(lat)<89.9) ma=std::max(ma,e);} } } catch(const GeographicErr&){ } }
    printf("LCC closure %.2f nm, Albers closure %.2f nm\n",mm*1e9,ma*1e9); }
  // AuxLatitude series vs exact
  for (double f : {1/298.257223563, 1/150.0, -1/150.0}) { AuxLatitude aux(a,f); double m=0; for(int it=0;it<100000;++it){ double lat=-90+180*U(); int i=rng()%6,j=rng()%6; double x=aux.Convert(i,j,lat,false), y=aux.Convert(i,j,lat,true); m=std::max(m,std::fabs(x-y)); } printf("AuxLat f=%.5f series-vs-exact max %.3g deg (%.2f nm)\n",f,m,m*Math::degree()*a*1e9); }
}
