#include "C11_oracle.hpp"
#include <GeographicLib/AlbersEqualArea.hpp>
#include <cstdio>
#include <cmath>
#include <cstring>
#include <cstdint>
using namespace GeographicLib; using c11::Q;
static double unhx(const char* s) { uint64_t b = strtoull(s, 0, 16); double x; memcpy(&x, &b, 8); return x; }
int main() {
  double l1 = unhx("404cc1b270ff1537"), l2 = unhx("c04cc1b270ff14aa"), lon0 = unhx("c06347bc3dc4767e"), lat = unhx("400278a2a9e085a0"), lon = unhx("401b53e2320092c0");
  printf("l1=%.17g l2=%.17g lon0=%.17g lat=%.17g lon=%.17g\n", l1, l2, lon0, lat, lon);
  for (double k1 : {1.0, 2.0, 40.0}) {
    AlbersEqualArea A(6378137, 0, l1, l2, k1); c11::Proj P(2, 6378137, 0); P.kap = k1; P.init_conic(c11::sc_deg(l1), c11::sc_deg(l2));
    double x, y, g, k; A.Forward(lon0, lat, lon, x, y, g, k); c11::Out w = P.fwd(true, lon0, lat, lon);
    printf("k1=%g: n0=%.17g lat0=%.17g k0=%.17g | oracle n=%s lat0=%s cyl=%d\n  x=%.17g y=%.17g | %s %s  theta=%g\n", k1, A._n0, A._lat0, A._k0, c11::qstr(P.n).c_str(), c11::qstr(atan2q(P.p0.s, P.p0.c) * 180 / c11::PIq).c_str(), P.cyl, x, y, c11::qstr(w.x).c_str(), c11::qstr(w.y).c_str(), g);
  }
}
