#include <GeographicLib/DMS.hpp>
#include <GeographicLib/Math.hpp>
#include <cstdio>
#include <random>
#include <string>
#include <cmath>
#include <cstdlib>
using namespace GeographicLib;
int main(){
  std::mt19937_64 rng(21); auto U=[&](){ return std::ldexp((double)(rng()>>11),-53); };
  long bad=0,n=0;
  for (int it=0; it<3000000; ++it){
    double a;
    switch(rng()%6){ case 0: a=(U()-0.5)*180; break; case 1: a=(U()-0.5)*720; break; case 2: { long k=(long)(rng()%(360*3600))-180*3600; a = (double)k/3600.0; int j=rng()%5-2; for(int i=0;i<std::abs(j);++i) a=std::nextafter(a,j<0?-1e9:1e9); break; }
      case 3: { long k=(long)(rng()%(360*60))-180*60; a=(double)k/60.0 - ((rng()%2)? 1e-9*U():0); break; } case 4: a = (double)((long)(rng()%721)-360) - ((rng()%2)?std::ldexp(1.0,-(int)(rng()%50)):0); break; default: a=(U()-0.5)*1e-6; }
    int tr = rng()%3; unsigned prec = rng()%18; DMS::flag ind = DMS::flag(rng()%4); char sep = (rng()%2)?':':'\0';
    if (ind==DMS::LATITUDE && std::fabs(a)>90) a = std::fmod(a,90);
    std::string s = DMS::Encode(a, DMS::component(tr), prec, ind, sep); ++n;
    // parse fields
    std::string t=s; char hemi=0; if(!t.empty() && std::isalpha((unsigned char)t.back())) { hemi=t.back(); t.pop_back(); }
    bool neg=false; if(!t.empty()&&t[0]=='-'){neg=true;t=t.substr(1);} 
    double f[3]={0,0,0}; int nf=0; size_t p=0; bool ok=true;
    while(p<t.size() && nf<3){ size_t q=t.find_first_of("d'\":",p); std::string num=t.substr(p,q==std::string::npos?std::string::npos:q-p); if(num.empty()){ok=false;break;} f[nf++]=atof(num.c_str()); if(q==std::string::npos) break; p=q+1; }
    if (nf!=tr+1) ok=false;
    if (tr>=1 && !(f[1]<60)) ok=false; if (tr>=2 && !(f[2]<60)) ok=false; if(tr>=1 && f[tr]!=f[tr] ) ok=false;
    if (tr>=1 && f[0]!=std::floor(f[0])) ok=false; if (tr>=2 && f[1]!=std::floor(f[1])) ok=false;
    if (ind==DMS::AZIMUTH && (neg || !(f[0]<360 || (tr==0 && f[0]<=360)))) ok=false;
    if (ind==DMS::AZIMUTH && tr==0 && f[0]>=360) ok=false;
    double want=a; if(ind==DMS::AZIMUTH){ want=Math::AngNormalize(a); if(want<0) want+=360; }
    DMS::flag f2; double v=0; try{ v=DMS::Decode(s,f2);}catch(const GeographicErr&e){ ok=false; }
    unsigned pe = std::min(15u-2*tr,prec); double scale= tr==0?1:(tr==1?60:3600);
    double tol = 0.5*std::pow(10.0,-(double)pe)/scale*(1+1e-9) + 4*std::ldexp(std::max(std::fabs(want),1.0),-52);
    if (!(std::fabs(v-want)<=tol)) ok=false;
    if (ind==DMS::AZIMUTH && std::fabs(v-want)>tol && std::fabs(std::fabs(v-want)-360)<=tol) ok=true; // wrap 360->0 acceptable? record
    if (std::signbit(v)!=std::signbit(want) && v!=0 && want!=0 && ind!=DMS::AZIMUTH) ok=false;
    if (!ok){ if(bad<12) printf("BAD a=%.17g tr=%d prec=%u ind=%d s=%s v=%.17g want=%.17g tol=%g\n",a,tr,prec,(int)ind,s.c_str(),v,want,tol); ++bad; }
  }
  printf("n=%ld bad=%ld\n",n,bad);
}
