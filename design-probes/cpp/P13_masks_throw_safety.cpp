#include <GeographicLib/Geodesic.hpp>
#include <GeographicLib/GeodesicExact.hpp>
#include <GeographicLib/GeodesicLine.hpp>
#include <GeographicLib/GeodesicLineExact.hpp>
#include <GeographicLib/Rhumb.hpp>
#include <GeographicLib/UTMUPS.hpp>
#include <cstdio>
#include <random>
#include <cmath>
#include <cstring>
using namespace GeographicLib;
static bool same(double a,double b){ return std::memcmp(&a,&b,8)==0; }
template<class G, class L> void lineTest(const char* name, const G& g, std::mt19937_64& rng){
  auto U=[&](){ return std::ldexp((double)(rng()>>11),-53); };
  const double S = -7.25e33; long badw=0, badv=0, n=0;
  unsigned bits[] = {G::LATITUDE,G::LONGITUDE,G::AZIMUTH,G::DISTANCE,G::REDUCEDLENGTH,G::GEODESICSCALE,G::AREA};
  for (int it=0; it<40; ++it){
    double lat1=-90+180*U(), lon1=-180+360*U(), azi1=-180+360*U(), s12 = (U()-0.3)*3e7, a12 = (U()-0.3)*400;
    for (unsigned capsel=0; capsel<256; ++capsel){
      unsigned caps=0; for(int b=0;b<7;++b) if(capsel&(1u<<b)) caps|=bits[b]; if (capsel&128u) caps |= G::DISTANCE_IN;
      L line = g.Line(lat1,lon1,azi1,caps);
      L lineall = g.Line(lat1,lon1,azi1,G::ALL);
      for (int arc=0; arc<2; ++arc){
        double ref[8]; lineall.GenPosition(arc, arc?a12:s12, G::ALL, ref[0],ref[1],ref[2],ref[3],ref[4],ref[5],ref[6],ref[7]);
        double refu[8]; lineall.GenPosition(arc, arc?a12:s12, G::ALL|G::LONG_UNROLL, refu[0],refu[1],refu[2],refu[3],refu[4],refu[5],refu[6],refu[7]);
        for (unsigned m=0; m<256; ++m){
          unsigned mask=0; for(int b=0;b<7;++b) if(m&(1u<<b)) mask|=bits[b]; bool unroll = m&128u; if(unroll) mask|=G::LONG_UNROLL;
          double o[8]; for(auto&v:o) v=S;
          double r = line.GenPosition(arc, arc?a12:s12, mask, o[0],o[1],o[2],o[3],o[4],o[5],o[6],o[7]);
          bool can = arc || ((caps & G::DISTANCE_IN & G::OUT_MASK)!=0);
          unsigned eff = mask & (caps|G::LATITUDE|G::AZIMUTH|G::LONG_UNROLL) & G::OUT_MASK;
          bool want[8] = { (eff&G::LATITUDE&G::OUT_MASK)!=0, (eff&G::LONGITUDE&G::OUT_MASK)!=0, (eff&G::AZIMUTH&G::OUT_MASK)!=0, (eff&G::DISTANCE&G::OUT_MASK)!=0, (eff&G::REDUCEDLENGTH&G::OUT_MASK)!=0, (eff&G::GEODESICSCALE&G::OUT_MASK)!=0,(eff&G::GEODESICSCALE&G::OUT_MASK)!=0,(eff&G::AREA&G::OUT_MASK)!=0};
          ++n;
          for(int k=0;k<8;++k){ bool written = !same(o[k],S); bool w = can && want[k];
            // capability requirement: output needs its CAP bits in caps
            if (written != w) { if(badw<6) printf("%s WRITTEN k=%d caps=%x mask=%x arc=%d can=%d written=%d\n",name,k,caps,mask,arc,can,written); ++badw; }
            else if (written){ const double* rr = (unroll? refu: ref); if(!same(o[k],rr[k])) { if(badv<6) printf("%s VALUE k=%d caps=%x mask=%x arc=%d %.17g vs %.17g\n",name,k,caps,mask,arc,o[k],rr[k]); ++badv; } }
          }
          if (!can && !std::isnan(r)) ++badw;
        }
      }
    }
  }
  printf("%s n=%ld badwritten=%ld badvalue=%ld\n",name,n,badw,badv);
}
int main(){
  std::mt19937_64 rng(9);
  Geodesic g(6378137,1/298.257223563); GeodesicExact ge(6378137,1/298.257223563); Geodesic gx(6378137,1/298.257223563,true); Geodesic g2(6.4e6, 0.015);
  lineTest<Geodesic,GeodesicLine>("series",g,rng);
  lineTest<Geodesic,GeodesicLine>("series f=.015",g2,rng);
  lineTest<GeodesicExact,GeodesicLineExact>("exact",ge,rng);
  lineTest<Geodesic,GeodesicLine>("exact=true",gx,rng);
  // UTMUPS throw safety
  long bad=0,thr=0; auto U=[&](){ return std::ldexp((double)(rng()>>11),-53); };
  for (int it=0; it<300000; ++it){
    double lat = -100+200*U(), lon=-400+800*U(); int setzone = (int)(rng()%70)-6; int zone=-77; bool northp=true; double x=-1.5,y=-2.5,gam=-3.5,k=-4.5;
    try { UTMUPS::Forward(lat,lon,zone,northp,x,y,gam,k,setzone,rng()%2); } catch(const GeographicErr&){ ++thr; if(zone!=-77||x!=-1.5||y!=-2.5||gam!=-3.5||k!=-4.5||!northp) ++bad; } catch(...){ ++bad; }
    double la=-1.5,lo=-2.5; gam=-3.5;k=-4.5; int z=(int)(rng()%66)-3; double xx = -5e5+4e6*U(), yy=-1e7+3e7*U();
    try { UTMUPS::Reverse(z,rng()%2,xx,yy,la,lo,gam,k,rng()%2);} catch(const GeographicErr&){ ++thr; if(la!=-1.5||lo!=-2.5||gam!=-3.5||k!=-4.5) ++bad; } catch(...){ ++bad; }
  }
  printf("utmups throws=%ld bad=%ld\n",thr,bad);
}
