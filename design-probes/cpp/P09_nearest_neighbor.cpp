#include <GeographicLib/NearestNeighbor.hpp>
#include <cstdio>
#include <vector>
#include <random>
#include <algorithm>
#include <cmath>
#include <sstream>
using namespace GeographicLib;
struct P { double x,y; };
struct D1 { double operator()(const P&a,const P&b) const { return std::hypot(a.x-b.x,a.y-b.y);} };
struct DI { int operator()(const P&a,const P&b) const { return (int)(std::fabs(a.x-b.x)+std::fabs(a.y-b.y));} }; // integer L1 metric (many ties)
template<class dist_t, class DF> long test(int seed, bool grid){
  std::mt19937_64 rng(seed); long bad=0;
  for (int it=0; it<3000; ++it){
    int n = rng()%60; std::vector<P> pts(n);
    for (auto&p:pts){ if(grid){p.x=rng()%6;p.y=rng()%6;} else {p.x=std::ldexp((double)(rng()>>11),-53);p.y=std::ldexp((double)(rng()>>11),-53);} }
    DF df; int bucket = rng()%5; // 0..4
    NearestNeighbor<dist_t,P,DF> nn(pts, df, bucket);
    // save/load roundtrip
    if (it%3==0){ std::stringstream ss; bool bin = it%2; nn.Save(ss, bin); NearestNeighbor<dist_t,P,DF> nn2; nn2.Load(ss, bin); nn.swap(nn2);} 
    for (int qi=0; qi<20; ++qi){
      P q; if(grid){q.x=rng()%7;q.y=rng()%7;} else {q.x=std::ldexp((double)(rng()>>11),-53);q.y=std::ldexp((double)(rng()>>11),-53);} 
      int k = 1 + rng()%5; dist_t maxd = (rng()%3==0)? std::numeric_limits<dist_t>::max() : (dist_t)(grid? rng()%8 : std::ldexp((double)(rng()>>11),-53)); dist_t mind = (rng()%2)? (dist_t)-1 : (dist_t)(grid? rng()%3 : 0.2*std::ldexp((double)(rng()>>11),-53));
      std::vector<int> ind; dist_t d = nn.Search(pts, df, q, ind, k, maxd, mind, true, 0);
      std::vector<dist_t> got; for(int i:ind) got.push_back(df(pts[i],q));
      std::vector<dist_t> all; for(auto&p:pts){ dist_t x=df(p,q); if (x>mind && x<=maxd) all.push_back(x);} std::sort(all.begin(),all.end()); if((int)all.size()>k) all.resize(k);
      if (!(maxd>mind)) all.clear();
      bool ok = got==all && (ind.empty()? d==-1 : d==got[0]);
      // distinct indices
      std::vector<int> s=ind; std::sort(s.begin(),s.end()); if (std::unique(s.begin(),s.end())!=s.end()) ok=false;
      if(!ok){ if(bad<5){printf("BAD n=%d k=%d bucket=%d maxd=%g mind=%g got:",n,k,bucket,(double)maxd,(double)mind); for(auto x:got)printf(" %g",(double)x); printf(" | want:"); for(auto x:all)printf(" %g",(double)x); printf("\n");} ++bad; }
    }
  }
  return bad;
}
int main(){ printf("double random bad=%ld\n", test<double,D1>(1,false)); printf("double grid bad=%ld\n", test<double,D1>(2,true)); printf("int grid bad=%ld\n", test<int,DI>(3,true)); }
