#include <GeographicLib/MGRS.hpp>
#include <GeographicLib/UTMUPS.hpp>
#include <cstdio>
#include <string>
#include <cmath>
#include <algorithm>
using namespace GeographicLib;
int main(){
  const char* bands="CDEFGHJKLMNPQRSTUVWX"; const char* rows="ABCDEFGHJKLMNPQRSTUV"; const char* colsets[3]={"ABCDEFGH","JKLMNPQR","STUVWXYZ"};
  long mism=0, total=0;
  for (int zone : {1,2,3,31,32}) for (int ib=0; ib<20; ++ib) for (int ic=0; ic<8; ++ic) for (int ir=0; ir<20; ++ir){
    char buf[8]; snprintf(buf,8,"%02d%c%c%c",zone,bands[ib],colsets[(zone-1)%3][ic],rows[ir]); std::string s(buf);
    int z,p; bool np; double x,y; bool acc=true; try { MGRS::Reverse(s,z,np,x,y,p,false);} catch(const GeographicErr&){ acc=false; }
    // geography: candidate true rows r ≡ ir' (mod 20) where ir' accounts for even-zone shift; find any block [x0,x0+100km]x[y0,y0+100km] with that row letter that intersects band ib within the UTM northing limits
    int shift = ((zone-1)&1)? 5:0; int irow0 = (ir + 20 - shift)%20; bool geo=false; bool northband = ib>=10;
    for (int r = irow0 - 100; r < 100; r += 20){ // true row index relative to equator, r in [-100, 95)
      if (northband ? !(r>=0 && r<95) : !(r>=-90 && r<0)) continue;
      double x0=(ic+1)*1e5, y0 = r*1e5; // northern-hemisphere style northing (can be negative)
      // sample boundary + interior grid 21x21 (band edges are smooth curves)
      double latmin=1e9, latmax=-1e9;
      for(int i=0;i<=40;++i) for(int j=0;j<=40;++j){ double xx=x0+i*2500.0, yy=y0+j*2500.0; if(i==40) xx=std::nextafter(xx,0.0); if(j==40) yy=std::nextafter(yy,-1e9); double lat,lon; bool nn = yy>=0; try{ UTMUPS::Reverse(zone, nn, xx, nn? yy : yy+1e7, lat, lon);}catch(...){continue;} latmin=std::min(latmin,lat); latmax=std::max(latmax,lat);} 
      double blo = -80 + 8*ib, bhi = (ib==19)? 84 : blo+8; if (ib==0) blo=-90; if(ib==19) bhi=90; // C and X extend to the UTM northing limits
      if (latmax >= blo && latmin < bhi) geo=true;
    }
    ++total; if (acc!=geo){ if(mism<25) printf("MISMATCH %s accepted=%d geography=%d\n",s.c_str(),acc,geo); ++mism; }
  }
  printf("total=%ld mismatches=%ld\n",total,mism);
}
