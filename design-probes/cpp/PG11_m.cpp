// u(tphi0) of the Newton iteration in AlbersEqualArea::Init along [tphi1, tphi2]
#include <GeographicLib/AlbersEqualArea.hpp>
#include <cstdio>
#include <cmath>
#include <cstdlib>
using namespace GeographicLib;
struct A2 : AlbersEqualArea { using AlbersEqualArea::AlbersEqualArea; };
int main(int argc, char** argv) {
  double f = atof(argv[1]), l1 = atof(argv[2]), l2 = atof(argv[3]);
  AlbersEqualArea A(1, f, 10, 1);
  double sphi1, cphi1, sphi2, cphi2; Math::sincosd(l1, sphi1, cphi1); Math::sincosd(l2, sphi2, cphi2);
  double sign = sphi1 + sphi2 >= 0 ? 1 : -1; sphi1 *= sign; sphi2 *= sign; if (sphi1 > sphi2) { std::swap(sphi1, sphi2); std::swap(cphi1, cphi2); }
  double tphi1 = sphi1 / cphi1, tphi2 = sphi2 / cphi2, _fm = 1 - f, _e2 = A._e2, _e2m = A._e2m, _qZ = A._qZ, _qx = A._qx;
  auto sq = [](double x) { return x * x; }; auto hyp = [](double x) { return std::hypot(1.0, x); };
  double tbet1 = _fm * tphi1, scbet12 = 1 + sq(tbet1), tbet2 = _fm * tphi2, scbet22 = 1 + sq(tbet2), txi1 = A.txif(tphi1), cxi1 = 1 / hyp(txi1), sxi1 = txi1 * cxi1, txi2 = A.txif(tphi2), cxi2 = 1 / hyp(txi2), sxi2 = txi2 * cxi2,
    dtbet2 = _fm * (tbet1 + tbet2), es1 = 1 - _e2 * sq(sphi1), es2 = 1 - _e2 * sq(sphi2),
    dsxi = ((1 + _e2 * sphi1 * sphi2) / (es2 * es1) + A.Datanhee(sphi2, sphi1)) * A.Dsn(tphi2, tphi1, sphi2, sphi1) / (2 * _qx),
    den = (sxi2 + sxi1) * dtbet2 + (scbet22 + scbet12) * dsxi, s = 2 * dtbet2 / den;
  double sm1 = 1 - s;   // exact enough for the picture
  printf("tphi1=%g tphi2=%g s=%.15g\n", tphi1, tphi2, s);
  auto U = [&](double tphi0, double& du) {
    double scphi02 = 1 + sq(tphi0), scphi0 = sqrt(scphi02), sphi0 = tphi0 / scphi0, sphi0m = 1 / (scphi0 * (tphi0 + scphi0)), g = (1 + sq(_fm * tphi0)) * sphi0, dg = _e2m * scphi02 * (1 + 2 * sq(tphi0)) + _e2,
      D = sphi0m * (1 - _e2 * (1 + 2 * sphi0 * (1 + sphi0))) / (_e2m * (1 + sphi0)), dD = -2 * (1 - _e2 * sq(sphi0) * (2 * sphi0 + 3)) / (_e2m * sq(1 + sphi0)),
      Aa = -_e2 * sq(sphi0m) * (2 + (1 + _e2) * sphi0) / (_e2m * (1 - _e2 * sq(sphi0))), B = (sphi0m * _e2m / (1 - _e2 * sphi0) * (A.atanhxm1(_e2 * sq(sphi0m / (1 - _e2 * sphi0))) - _e2 * sphi0m / _e2m)),
      dAB = (2 * _e2 * (2 - _e2 * (1 + sq(sphi0))) / (_e2m * sq(1 - _e2 * sq(sphi0)) * scphi02)), u = sm1 * g - s / _qZ * (D - g * (Aa + B)); du = sm1 * dg - s / _qZ * (dD - dg * (Aa + B) - g * dAB); du = du / (scphi0 * scphi02); return u; };
  for (int i = 0; i <= 40; ++i) { double lat = std::atan(tphi1) + (std::atan(tphi2) - std::atan(tphi1)) * i / 40, t = std::tan(lat), du, u = U(t, du); printf(" lat %8.3f tphi %12.5g u %14.6g du/dtphi %12.4g newton dt %12.4g\n", lat * 180 / M_PI, t, u, du, -u / du); }
  double t = (tphi1 + tphi2) / 2; printf("Newton from the midpoint of the tangents %g:\n", t);
  for (int i = 0; i < 12; ++i) { double du, u = U(t, du), dt = -u / du; printf("  t=%.10g (lat %.5f) u=%.4g dt=%.4g\n", t, std::atan(t) * 180 / M_PI, u, dt); t += dt; }
}
