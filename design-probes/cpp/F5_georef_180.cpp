#include <GeographicLib/Georef.hpp>
#include <cstdio>
#include <string>
using namespace GeographicLib;
int main(){
  for (double lon : {180.0, -180.0, 540.0, 179.99999999999997, -540.0}) {
    std::string s; Georef::Forward(10, lon, 2, s);
    printf("lon=%.17g len=%zu bytes:", lon, s.size()); for (unsigned char c: s) printf(" %02x", c); printf("  \"%s\"\n", s.c_str());
    try { double la, lo; int p; Georef::Reverse(s, la, lo, p); printf("   reverse -> %.10f %.10f\n", la, lo);} catch (const std::exception& e) { printf("   reverse throws: %s\n", e.what()); }
  }
}
