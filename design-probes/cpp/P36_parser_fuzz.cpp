#include <GeographicLib/DMS.hpp>
#include <GeographicLib/GeoCoords.hpp>
#include <GeographicLib/MGRS.hpp>
#include <GeographicLib/UTMUPS.hpp>
#include <GeographicLib/Utility.hpp>
#include <GeographicLib/Geohash.hpp>
#include <GeographicLib/GARS.hpp>
#include <GeographicLib/Georef.hpp>
#include <GeographicLib/OSGB.hpp>
#include <cstdio>
#include <random>
#include <string>
using namespace GeographicLib;
std::mt19937_64 rng(13);
static std::string rnd(){ static const char* alpha="0123456789 .+-:'\"dDnNsSeEwW*abcXYZijklmvINVAF/,\t"; int mode=rng()%4; int len=rng()%14; std::string s; for(int i=0;i<len;++i){ if(mode==0) s+=char(rng()); else if(mode==1) s+=alpha[rng()%48]; else { const char* seeds[]={"33d10'20.5\"N","-33:10:20","38SMB4484","31n 500000 4000000","u4pruydqqvj","006AG39","GJPJ3217","SU387148","nan","inf","1/3","5e3","044d30E","12.5S"}; if(s.empty()) s=seeds[rng()%14]; else { size_t p=rng()%(s.size()+1); if(rng()%2 && !s.empty()) s.erase(rng()%s.size(),1); else s.insert(p,1,alpha[rng()%48]); } } } if(mode==3 && !s.empty() && rng()%3==0) s[rng()%s.size()]=char(0x80+rng()%128); return s; }
template<class F> static int run(F f){ try{ f(); return 0;} catch(const GeographicErr&){ return 1;} catch(const std::exception& e){ static int n=0; if(n++<10) fprintf(stderr,"OTHER EXC: %s\n",e.what()); return 2; } }
int main(){ long cnt[3]={0};
  for(long it=0; it<1500000; ++it){ std::string s=rnd(), t=rnd(); int r;
    r=run([&]{ DMS::flag f; DMS::Decode(s,f); }); cnt[r]++;
    r=run([&]{ double a,b; DMS::DecodeLatLon(s,t,a,b); }); cnt[r]++;
    r=run([&]{ DMS::DecodeAngle(s); DMS::DecodeAzimuth(t); }); cnt[r]++;
    r=run([&]{ GeoCoords g(s+" "+t); g.MGRSRepresentation(3); g.DMSRepresentation(2); g.UTMUPSRepresentation(1); }); cnt[r]++;
    r=run([&]{ GeoCoords g(s); g.GeoRepresentation(3); g.AltMGRSRepresentation(-1); }); cnt[r]++;
    r=run([&]{ int z,p; bool n; double x,y; MGRS::Reverse(s,z,n,x,y,p,rng()%2); std::string a,b,c,d; MGRS::Decode(s,a,b,c,d); }); cnt[r]++;
    r=run([&]{ int z; bool n; UTMUPS::DecodeZone(s,z,n); }); cnt[r]++;
    r=run([&]{ Utility::val<double>(s); Utility::fract<double>(t); Utility::val<int>(s); }); cnt[r]++;
    r=run([&]{ double a,b; int l; Geohash::Reverse(s,a,b,l); GARS::Reverse(s,a,b,l); }); cnt[r]++;
    r=run([&]{ double a,b; int l; Georef::Reverse(s,a,b,l); }); cnt[r]++;
    r=run([&]{ double a,b; int l; OSGB::GridReference(s,a,b,l); }); cnt[r]++;
    r=run([&]{ double fy = Utility::fractionalyear<double>(s); int y,m,d; Utility::date(t,y,m,d); (void)fy; }); cnt[r]++;
  }
  printf("ok=%ld GeographicErr=%ld other=%ld\n",cnt[0],cnt[1],cnt[2]);
}
