#include <GeographicLib/MGRS.hpp>
#include <GeographicLib/UTMUPS.hpp>
#include <GeographicLib/Math.hpp>
#include <cstdio>
#include <random>
#include <string>
#include <cmath>
using namespace GeographicLib;
static int specZone(double lat, double lon){
  if (!(lat >= -80 && lat < 84)) return 0;
  double L = Math::AngNormalize(lon); if (L == 180) L = -180;
  int il = (int)std::floor(L);
  int z = (il + 186)/6;
  if (lat >= 56 && lat < 64 && z == 31 && il >= 3) z = 32;
  else if (lat >= 72 && il >= 0 && il < 42) z = (il < 9) ? 31 : (il < 21 ? 33 : (il < 33 ? 35 : 37));
  return z;
}
int main(){
  std::mt19937_64 rng(5); long badz=0, n=0;
  auto U=[&](){ return std::ldexp((double)(rng()>>11),-53); };
  for (int it=0; it<3000000; ++it){
    double lat, lon;
    switch (rng()%4){ case 0: lat = -90+180*U(); lon = -720+1440*U(); break;
      case 1: { double e[]={-80,84,56,64,72,-90,90,0}; lat = e[rng()%8]; int k=rng()%5-2; for(int i=0;i<std::abs(k);++i) lat=std::nextafter(lat,k<0?-100:100); if(std::fabs(lat)>90) lat=90; lon = -720+1440*U(); break; }
      case 2: { lat = -90+180*U(); lon = 6*(double)((long)(rng()%240)-120) + ((rng()%2)? 3*(double)(rng()%2):0); int k=rng()%5-2; for(int i=0;i<std::abs(k);++i) lon=std::nextafter(lon,k<0?-1e9:1e9); break; }
      default: { double e[]={56,64,72,84,-80}; lat=e[rng()%5]+ (rng()%3-1)*1e-9; double m[]={0,3,6,9,12,21,33,42,180,-180,360,540}; lon=m[rng()%12]; int k=rng()%5-2; for(int i=0;i<std::abs(k);++i) lon=std::nextafter(lon,k<0?-1e9:1e9); }
    }
    int z = UTMUPS::StandardZone(lat, lon); ++n;
    if (z != specZone(lat,lon)) { if(badz<10) printf("ZONE lat=%.17g lon=%.17g got %d want %d\n",lat,lon,z,specZone(lat,lon)); ++badz; }
  }
  printf("zone n=%ld bad=%ld\n",n,badz);
  // MGRS roundtrip
  long bad=0; n=0; long thrown=0;
  for (int it=0; it<2000000; ++it){
    int zone = rng()%61; bool northp = rng()%2; double x,y;
    if (zone){ x = 1e5 + 8e5*U(); y = northp? 95e5*U() : 10e5 + 90e5*U(); } else { double lo = northp?13e5:8e5, hi = northp?27e5:32e5; x = lo + (hi-lo)*U(); y = lo+(hi-lo)*U(); }
    if (rng()%4==0){ x = std::floor(x/1e5)*1e5; if(rng()%2) x = std::nextafter(x, (rng()%2)?-1:1e9);} 
    if (rng()%4==0){ y = std::floor(y/1e5)*1e5; if(rng()%2) y = std::nextafter(y, (rng()%2)?-1:1e9);} 
    int prec = (int)(rng()%13)-1; std::string s, s11;
    try { MGRS::Forward(zone,northp,x,y,prec,s); MGRS::Forward(zone,northp,x,y,11,s11);} catch(const GeographicErr&e){ ++thrown; continue; }
    ++n;
    int z2,p2; bool n2; double x2,y2;
    try { MGRS::Reverse(s,z2,n2,x2,y2,p2,true);} catch(const GeographicErr&e){ if(bad<10)printf("REV THROW %s zone=%d n=%d x=%.17g y=%.17g prec=%d: %s\n",s.c_str(),zone,northp,x,y,prec,e.what()); ++bad; continue; }
    bool ok = z2==zone && p2==prec;
    if (prec>=0){ double u = std::pow(10.0,5-prec); ok = ok && std::fabs(x2 - (std::floor(x/u)+0.5)*u) <= 1e-6*u+2e-9 ; 
      // prefix law: letters+digits
      int base = (zone?2:0)+3; std::string a = s.substr(0,base), b=s11.substr(0,base); if (a!=b) ok=false; if (s.substr(base,prec)!=s11.substr(base,prec) || s.substr(base+prec,prec)!=s11.substr(base+11,prec)) ok=false;
      // re-encode
      std::string s3; try{ MGRS::Forward(z2,n2,x2,y2,prec,s3);}catch(...){ s3="THROW"; }
      if (s3.size()!=s.size()) ok=false; else { for(size_t i=0;i<s.size();++i) if (s3[i]!=s[i] && !(zone && i==2)) ok=false; }
      if(!ok && bad<10) printf("BAD zone=%d n=%d x=%.17g y=%.17g prec=%d s=%s s11=%s rev=(%d,%d,%.9f,%.9f,%d) re=%s\n",zone,northp,x,y,prec,s.c_str(),s11.c_str(),z2,n2,x2,y2,p2,s3.c_str());
    }
    if(!ok) ++bad;
  }
  printf("mgrs n=%ld thrown=%ld bad=%ld\n",n,thrown,bad);
}
