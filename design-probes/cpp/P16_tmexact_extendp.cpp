#include <GeographicLib/TransverseMercatorExact.hpp>
#include <GeographicLib/TransverseMercator.hpp>
#include <cstdio>
using namespace GeographicLib;
int main(){ double a=6378137,f=1/298.257223563;
  for (int ext=0; ext<2; ++ext){ TransverseMercatorExact te(a,f,0.9996,ext); TransverseMercator ts(a,f,0.9996);
    printf("extendp=%d\n",ext);
    double cases[][2]={{-66.518959201490659,89.99999},{66.518959201490659,89.99999},{-66.5,89.9},{-66.5,90},{66.5,90},{-66.5,90.0001},{66.5,90.0001},{-78.89,90},{78.89,90},{-10,85},{10,85},{-50.5,-86.18},{50.5,-86.18},{-50.5,86.18},{-9.2,180},{9.2,180},{72.7,179},{-72.7,179},{3.9,120},{-3.9,120}};
    for (auto& c: cases){ double x,y,g,k,xs,ys,gs,ks; te.Forward(0,c[0],c[1],x,y,g,k); ts.Forward(0,c[0],c[1],xs,ys,gs,ks); double la,lo,g2,k2; te.Reverse(0,x,y,la,lo,g2,k2); printf("  lat=%9.4f dl=%9.5f: exact x=%.6g y=%.6g gamma=%.6f k=%.6g | series x=%.6g y=%.6g | exact reverse -> %.6f %.6f\n",c[0],c[1],x,y,g,k,xs,ys,la,lo); }
  }
}
