#include <GeographicLib/DMS.hpp>
#include <cstdio>
using namespace GeographicLib;
int main(int argc,char**argv){ const char* tests[]={"1:2:3:4:5","1:2:3:4","1d2'3\":4","1:2:3:","1\"2:3","1\"2'","1\":2d3","1:2\"3:4"};
  int i=atoi(argv[1]); DMS::flag f; try{ double v=DMS::Decode(tests[i],f); printf("%s -> %g\n",tests[i],v);}catch(const std::exception&e){ printf("%s -> throws %s\n",tests[i],e.what()); } }
