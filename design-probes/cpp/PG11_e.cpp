// sweep: error of the round-off-level relations as a function of f, random configurations inside the documented domain
#include "C11_oracle.hpp"
#include <GeographicLib/PolarStereographic.hpp>
#include <GeographicLib/LambertConformalConic.hpp>
#include <GeographicLib/AlbersEqualArea.hpp>
#include <cstdio>
#include <vector>
#include <cmath>
#include <random>
#include <memory>
using namespace GeographicLib; using c11::Q;
int main(int argc, char** argv) {
  std::mt19937_64 rng(argc > 1 ? atoi(argv[1]) : 1); std::uniform_real_distribution<double> U(0, 1);
  std::vector<double> fs = {1/298.257223563, 0.1, 0.5, 0.75, 0.9, 0.95, 0.99, 0.999, -0.1, -0.4, -0.5, -1, -1.3, -2, -5, -20};
  for (double f : fs) for (int cls = 1; cls <= 2; ++cls) {
    double wk = 0, wcl = 0, wcf = 0, wl0 = 0; int nan = 0, exc = 0, n = 0; char wkc[200] = "", wclc[200] = "", wcfc[200] = "", wl0c[200]="";
    for (int it = 0; it < 3000; ++it) {
      double l1 = -85 + 170 * U(rng), l2 = it % 3 == 0 ? l1 + (U(rng) - 0.5) * 20 : -85 + 170 * U(rng); if (std::fabs(l2) > 89) l2 = 89 * (l2 > 0 ? 1 : -1);
      if (it % 7 == 0) l2 = l1; if (it % 11 == 0) { l1 = std::round(l1); l2 = std::round(l2); }
      if (std::fabs(l1 - l2) > 160) continue;
      if (getenv("SAMEHEMI") && l1 * l2 < 0) l2 = -l2;
      try {
        c11::Proj P(cls, 1, f); P.kap = 1; P.init_conic(c11::sc_deg(l1), c11::sc_deg(l2)); if (P.cyl) continue;
        std::unique_ptr<LambertConformalConic> L; std::unique_ptr<AlbersEqualArea> A;
        if (cls == 1) L.reset(new LambertConformalConic(1, f, l1, l2, 1)); else A.reset(new AlbersEqualArea(1, f, l1, l2, 1));
        ++n; double x, y, g, k, la, lo;
        for (double l : {l1, l2}) { if (cls == 1) L->Forward(0, l, 0, x, y, g, k); else A->Forward(0, l, 0, x, y, g, k); if (std::isnan(k)) { ++nan; continue; } double e = std::fabs(k - 1); if (e > wk) { wk = e; snprintf(wkc, 200, "(%.6g,%.6g)", l1, l2); } }
        double lat0 = cls == 1 ? L->OriginLatitude() : A->OriginLatitude(); double ol = c11::dbl(atan2q(P.p0.s, P.p0.c) * 180 / c11::PIq); { double e = std::fabs(lat0 - ol); if (e > wl0) { wl0 = e; snprintf(wl0c, 200, "(%.6g,%.6g)", l1, l2); } }
        for (int j = 0; j < 4; ++j) { double lat = -89 + 178 * U(rng), lon = -60 + 120 * U(rng);
          if (cls == 1) L->Forward(0, lat, lon, x, y, g, k); else A->Forward(0, lat, lon, x, y, g, k); if (std::isnan(x) || std::isnan(y)) { ++nan; continue; }
          if (std::fabs(g) > 170) continue;
          c11::Out w = P.fwd(true, 0, lat, lon); if (w.ok && c11::fin(w.x)) { double d = std::hypot(c11::dbl(Q(x) - w.x), c11::dbl(Q(y) - w.y)) / (1 + std::hypot(x, y)); if (d > wcf) { wcf = d; snprintf(wcfc, 200, "(%.6g,%.6g) lat %.6g", l1, l2, lat); } }
          if (std::hypot(x, y) < 1e3) { if (cls == 1) L->Reverse(0, x, y, la, lo, g, k); else A->Reverse(0, x, y, la, lo, g, k); 
            // ground distance / a
            Q e2 = Q(f) * (2 - Q(f)), s = sinq(Q(lat) * c11::PIq / 180), ww = 1 - e2 * s * s; double M = c11::dbl((1 - e2) / (ww * sqrtq(ww))), N = c11::dbl(cosq(Q(lat) * c11::PIq / 180) / sqrtq(ww));
            double d = std::hypot((la - lat) * M, (lo - lon) * N) * M_PI / 180; if (std::isnan(d)) ++nan; else if (d > wcl) { wcl = d; snprintf(wclc, 200, "(%.6g,%.6g) lat %.6g", l1, l2, lat); } }
        }
      } catch (const std::exception& e) { ++exc; }
    }
    printf("f=%-8.4g %s n=%d  k-1 %.1e %-22s lat0 %.1e %-22s cf %.1e %-30s cl %.1e %-30s nan=%d exc=%d\n", f, cls == 1 ? "LCC" : "ALB", n, wk, wkc, wl0, wl0c, wcf, wcfc, wcl, wclc, nan, exc);
  }
}
