#include <GeographicLib/PolygonArea.hpp>
#include <GeographicLib/Geodesic.hpp>
#include <GeographicLib/Rhumb.hpp>
#include <cstdio>
#include <vector>
using namespace GeographicLib;
template<class P, class G> void run(const G& g, std::vector<std::pair<double,double>> v){
  P p(g);
  for (auto& q: v) p.AddPoint(q.first, q.second);
  double per, area; p.Compute(false, true, per, area);
  printf("per=%.6f area=%.3f  :", per, area); for(auto&q:v) printf(" (%g,%g)", q.first,q.second); printf("\n");
}
int main(){
  auto& g = Geodesic::WGS84();
  run<PolygonArea>(g,{{10,360},{20,180},{15,90}});
  run<PolygonArea>(g,{{10,0},{20,-180},{15,90}});
  run<PolygonArea>(g,{{10,0},{20,180},{15,90}});
  run<PolygonArea>(g,{{10,720},{20,-180},{15,90}});
  run<PolygonArea>(g,{{10,-360},{20,-180},{15,90}});
  run<PolygonArea>(g,{{10,-360},{20,180},{15,90}});
  run<PolygonArea>(g,{{10,360},{20,540},{15,90}});
  run<PolygonArea>(g,{{10,360},{20,-540},{15,90}});
  printf("rhumb\n");
  auto& r = Rhumb::WGS84();
  run<PolygonAreaRhumb>(r,{{10,360},{20,180},{15,90}});
  run<PolygonAreaRhumb>(r,{{10,0},{20,-180},{15,90}});
  run<PolygonAreaRhumb>(r,{{10,0},{20,180},{15,90}});
  run<PolygonAreaRhumb>(r,{{10,360},{20,-540},{15,90}});
}
