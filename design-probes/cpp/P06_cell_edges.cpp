#include <GeographicLib/GARS.hpp>
#include <GeographicLib/Geohash.hpp>
#include <GeographicLib/Georef.hpp>
#include <cmath>
#include <cstdio>
#include <string>
#include <random>
using namespace GeographicLib;
int main(){
  std::mt19937_64 rng(1);
  long bad=0, n=0;
  // GARS: 5' cells = 1/12 deg. try lat just below k/12
  for (int k=-1079;k<1080;++k){
    long double edge = (long double)k/12;
    double e = (double)edge; // nearest double to edge
    for (int d=-3; d<=3; ++d){
      double lat = e; for(int i=0;i<std::abs(d);++i) lat = std::nextafter(lat, d<0?-1e9:1e9);
      if (std::fabs(lat)>90) continue;
      std::string s; GARS::Forward(lat, 0.5, 2, s);
      double lat2, lon2; int prec; GARS::Reverse(s, lat2, lon2, prec, false);
      // exact containment: lat2 <= lat < lat2+1/12 in exact arithmetic: use long double (64-bit mantissa) 
      long double lo = lat2, hi = (long double)lat2 + (long double)1/12;
      // lat2 itself is rounded; recompute cell index exactly
      long double kk = floorl((long double)lat*12);
      // exact: is (long double)lat*12 exact? lat has 53 bits,*12 needs 4 more bits: fits in 64
      long double cellk = roundl((long double)lat2*12);
      ++n;
      if (kk != cellk) { if(bad<10) printf("GARS lat=%.17g k=%d d=%d exactcell=%Lg codecell=%Lg %s\n", lat,k,d,kk,cellk,s.c_str()); ++bad; }
    }
  }
  printf("GARS n=%ld bad=%ld\n", n, bad);
  bad=0;n=0;
  // Geohash precision 12 -> 30 bits each; test lon just below representable edges and random
  for (int it=0; it<2000000; ++it){
    double lon = std::ldexp((double)(rng()>>11), -53)*360-180;
    double lat = std::ldexp((double)(rng()>>11), -53)*180-90;
    std::string s; Geohash::Forward(lat, lon, 18, s);
    double lat2, lon2; int len; Geohash::Reverse(s, lat2, lon2, len, false);
    // cell size
    long double dlon = 360.0L/ (1ULL<<45), dlat = 180.0L/(1ULL<<45);
    ++n;
    if (!( (long double)lon2 <= lon && lon < (long double)lon2 + dlon && (long double)lat2 <= lat && lat < (long double)lat2+dlat)) { if(bad<10) printf("GH lat=%.17g lon=%.17g -> %.17g %.17g\n", lat, lon, lat2, lon2); ++bad;}
  }
  printf("Geohash n=%ld bad=%ld\n", n, bad);
}
