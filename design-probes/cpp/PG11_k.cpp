#include <GeographicLib/AlbersEqualArea.hpp>
#include <cstdio>
#include <cmath>
#include <cstring>
#include <cstdint>
using namespace GeographicLib;
static double unhx(const char* s) { uint64_t b = strtoull(s, 0, 16); double x; memcpy(&x, &b, 8); return x; }
int main() {
  AlbersEqualArea A(6378137, -2, 0, 0, unhx("3fefced916872b02")); A.SetScale(unhx("c05085ff9fee45ba"), unhx("3f50624dd2f1a9fc"));
  printf("k0=%.17g n0=%g nrho0=%g txi0=%g qZ=%g\n", A._k0, A._n0, A._nrho0, A._txi0, A._qZ);
  double lon0 = unhx("4051d46f6a178b00");
  double x2 = 3002.9018411605248, y2 = -777.25, la, lo, g, k; A.Reverse(lon0, x2, y2, la, lo, g, k);
  double x3, y3; A.Forward(lon0, la, lo, x3, y3, g, k);
  printf("Reverse -> lat=%.17g lon=%.17g ; Forward -> %.17g %.17g (k=%g)\n", la, lo, x3, y3, k);
  for (double y : {-777.25, -100.0, -10.0, 10.0, 777.25, 5000.0}) { A.Reverse(0, 0, y, la, lo, g, k); A.Forward(0, la, lo, x3, y3, g, k); printf(" y=%g -> lat %.17g -> y %.17g   tphif(txif)=%g\n", y, la, y3, A.tphif(A.txif(std::tan(la*M_PI/180)))/std::tan(la*M_PI/180)-1); }
}
