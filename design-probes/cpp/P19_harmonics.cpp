#include <GeographicLib/SphericalHarmonic.hpp>
#include <GeographicLib/SphericalHarmonic1.hpp>
#include <GeographicLib/CircularEngine.hpp>
#include <GeographicLib/NormalGravity.hpp>
#include <GeographicLib/Constants.hpp>
#include <cstdio>
#include <vector>
#include <random>
#include <cmath>
using namespace GeographicLib;
typedef long double LD;
std::mt19937_64 rng(51); double U(){ return std::ldexp((double)(rng()>>11),-53); }
// direct sum with fully normalized / schmidt Legendre via standard recurrences in long double
LD direct(int N,int M,const std::vector<double>&C,const std::vector<double>&S,bool full,double x,double y,double z,double a){
  LD p=hypotl(x,y), r=hypotl(z,p), t=z/r, u=p/r, lam=atan2l((LD)y,(LD)x); LD q=a/r; 
  // Pnm normalized: compute P[n][m]
  std::vector<std::vector<LD>> P(N+2,std::vector<LD>(N+2,0)); P[0][0]=1;
  for(int m=1;m<=N;++m) P[m][m] = full ? P[m-1][m-1]*u*sqrtl((m==1?3.0L:(2.0L*m+1)/(2.0L*m))) : P[m-1][m-1]*u*sqrtl((m==1?1.0L:(2.0L*m-1)/(2.0L*m)));
  for(int m=0;m<=N;++m) for(int n=m+1;n<=N;++n){ if(full){ LD a1=sqrtl((4.0L*n*n-1)/((LD)n*n-(LD)m*m)); LD b1=sqrtl(((2.0L*n+1)*((n-1.0L)*(n-1.0L)-(LD)m*m))/((2.0L*n-3)*((LD)n*n-(LD)m*m))); P[n][m]=a1*t*P[n-1][m]-(n>=m+2? b1*P[n-2][m]:0);} else { LD d=sqrtl((LD)n*n-(LD)m*m); LD b1=sqrtl((n-1.0L)*(n-1.0L)-(LD)m*m); P[n][m]=((2*n-1)*t*P[n-1][m]-(n>=m+2? b1*P[n-2][m]:0))/d; } }
  LD v=0; 
  auto idx=[&](int n,int m){ return m*N - m*(m-1)/2 + n; };
  for(int n=0;n<=N;++n){ LD qn=powl(q,n+1); for(int m=0;m<=std::min(n,M);++m){ LD c=C[idx(n,m)], s= m? S[idx(n,m)-(N+1)]:0; v+= qn*P[n][m]*(c*cosl(m*lam)+s*sinl(m*lam)); } }
  return v;
}
int main(){
  double worst=0, worstc=0, worstg=0;
  for(int it=0;it<400;++it){ int N=rng()%25, M=N; bool full=rng()%2; int nC=(N+1)*(N+2)/2, nS=nC-(N+1); std::vector<double> C(nC),S(nS); double scale=0; for(auto&c:C){c=(U()-0.5); } for(auto&s:S){s=(U()-0.5);} 
    double a=6378137; SphericalHarmonic h(C,S,N,a, full?SphericalHarmonic::FULL:SphericalHarmonic::SCHMIDT);
    for(int j=0;j<20;++j){ double r=a*(0.7+U()*2), lat=(rng()%5==0)? ((rng()%2)?90:-90) : -90+180*U(), lon=360*U(); double x=r*cos(lat*Math::degree())*cos(lon*Math::degree()), y=r*cos(lat*Math::degree())*sin(lon*Math::degree()), z=r*sin(lat*Math::degree()); if(std::fabs(lat)==90){x=y=0;}
      double v=h(x,y,z); LD d=direct(N,M,C,S,full,x,y,z,a); double mag=0; for(int n=0;n<=N;++n) mag+= std::pow(a/r,n+1)*(n+1)*std::sqrt(2.0*n+1); double rel=std::fabs((double)(v-d))/mag; if(rel>worst) worst=rel;
      double gx,gy,gz; double v2=h(x,y,z,gx,gy,gz); if(v2!=v) worstg=1e9; double hh=r*1e-6; LD dx=(direct(N,M,C,S,full,x+hh,y,z,a)-direct(N,M,C,S,full,x-hh,y,z,a))/(2*hh); double eg=std::fabs((double)(gx-dx))/(mag/r); if(eg>worstg&&hypot(x,y)>1) worstg=eg;
      CircularEngine c=h.Circle(hypot(x,y),z,false); double vc=c(lon); if(hypot(x,y)>0){ double rc=std::fabs(vc-v)/mag; if(rc>worstc) worstc=rc; }
    } }
  printf("harmonic value rel err max %.3g ; circle vs point %.3g ; gradx vs FD %.3g\n",worst,worstc,worstg);
  // Normal gravity: U constant on ellipsoid
  NormalGravity ng(Constants::WGS84_a(),Constants::WGS84_GM(),Constants::WGS84_omega(),Constants::WGS84_f(),true); double U0=ng.SurfacePotential(); double m=0;
  for(int i=0;i<=180;++i){ double lat=-90+i, X,Y,Z; double sphi=sin(lat*Math::degree()),cphi=cos(lat*Math::degree()); double e2=ng.Flattening()*(2-ng.Flattening()); double n=ng.EquatorialRadius()/sqrt(1-e2*sphi*sphi); X=n*cphi; Y=0; Z=(1-e2)*n*sphi; double gX,gY,gZ; double Uv=ng.U(X,Y,Z,gX,gY,gZ); m=std::max(m,std::fabs(Uv-U0)/U0); }
  printf("normal gravity U on ellipsoid rel dev %.3g\n",m);
}
