#include <GeographicLib/Geodesic.hpp>
#include <GeographicLib/GeodesicExact.hpp>
#include <GeographicLib/GeodesicLine.hpp>
#include <GeographicLib/LocalCartesian.hpp>
#include <GeographicLib/Geocentric.hpp>
#include <GeographicLib/Accumulator.hpp>
#include <cstdio>
#include <random>
#include <cmath>
#include <vector>
using namespace GeographicLib;
std::mt19937_64 rng(101); double U(){ return std::ldexp((double)(rng()>>11),-53); }
int main(){
  for (double f: {1/298.257223563, 0.02, -0.02}) { Geodesic g(6378137,f); double mm=0,mM=0,mS=0;
    for(int it=0;it<100000;++it){ double lat1=-90+180*U(), lon1=(U()-0.5)*360, azi1=(U()-0.5)*360, s12=(U()-0.2)*2e7, s23=(U()-0.2)*2e7;
      GeodesicLine l=g.Line(lat1,lon1,azi1); double la2,lo2,az2,m12,M12,M21,S12, la3,lo3,az3,m13,M13,M31,S13; l.Position(s12,la2,lo2,az2,m12,M12,M21,S12); l.Position(s12+s23,la3,lo3,az3,m13,M13,M31,S13);
      double la,lo,az,m23,M23,M32,S23; g.Direct(la2,lo2,az2,s23,la,lo,az,m23,M23,M32,S23);
      if (std::fabs(la2)>89.999||std::fabs(lat1)>89.999) continue;
      double em = std::fabs(m13 - (m12*M23 + m23*M21)); double eM = std::fabs(M13 - (M12*M23 - (1-M12*M21)*m23/m12)); if (std::fabs(m12)<1e3) eM=0; double eM2=std::fabs(M31-(M32*M21-(1-M23*M32)*m12/m23)); if(std::fabs(m23)<1e3) eM2=0;
      double eS = std::fabs(std::remainder(S13-(S12+S23), g.EllipsoidArea()));
      if(em>mm) mm=em; if(std::max(eM,eM2)>mM) mM=std::max(eM,eM2); if(eS>mS && std::fabs(la3)<89.999) mS=eS; }
    printf("f=%g addition: m13 err %.3g m, M13 err %.3g, S13 err %.3g m^2\n",f,mm,mM,mS); }
  // LocalCartesian
  { double mo=0, md=0, mr=0; for(int it=0;it<100000;++it){ double lat0=-90+180*U(), lon0=(U()-0.5)*360, h0=(U()-0.5)*1e4; LocalCartesian lc(lat0,lon0,h0); double x,y,z; lc.Forward(lat0,lon0,h0,x,y,z); mo=std::max(mo,std::sqrt(x*x+y*y+z*z));
      double la=-90+180*U(), lo=(U()-0.5)*360, h=(U()-0.5)*1e6, la2=-90+180*U(), lo2=(U()-0.5)*360, h2=(U()-0.5)*1e6; double x1,y1,z1,x2,y2,z2,X1,Y1,Z1,X2,Y2,Z2; std::vector<double> M(9); lc.Forward(la,lo,h,x1,y1,z1,M); lc.Forward(la2,lo2,h2,x2,y2,z2); Geocentric::WGS84().Forward(la,lo,h,X1,Y1,Z1); Geocentric::WGS84().Forward(la2,lo2,h2,X2,Y2,Z2);
      double d1=std::sqrt((x1-x2)*(x1-x2)+(y1-y2)*(y1-y2)+(z1-z2)*(z1-z2)), d2=std::sqrt((X1-X2)*(X1-X2)+(Y1-Y2)*(Y1-Y2)+(Z1-Z2)*(Z1-Z2)); md=std::max(md,std::fabs(d1-d2));
      // M orthonormal
      for(int i=0;i<3;++i) for(int j=0;j<3;++j){ double s=0; for(int k=0;k<3;++k) s+=M[3*k+i]*M[3*k+j]; mr=std::max(mr,std::fabs(s-(i==j))); }
      double rla,rlo,rh; lc.Reverse(x1,y1,z1,rla,rlo,rh); if(std::fabs(la)<89.9999) md=std::max(md, std::fabs(rh-h)); }
    printf("LocalCartesian origin %.3g m, distance preservation/height %.3g m, M orthonormality %.3g\n",mo,md,mr); }
  // Accumulator vs long double / Kahan-ish exact using __float128
  { double worst=0; for(int it=0;it<2000;++it){ Accumulator<> acc; __float128 ex=0; __float128 sabs=0; int n=1+rng()%2000; for(int i=0;i<n;++i){ double x=std::ldexp(U()-0.5,(int)(rng()%60)-30); if(rng()%50==0){ acc*= -1; ex=-ex; } acc+=x; ex+=x; sabs+= (x<0?-x:x); } double err = (double)((__float128)acc() - ex); double rel=std::fabs(err)/ (double)sabs; if(rel>worst) worst=rel; } printf("Accumulator: max |err|/sum|x| = %.3g (double eps 1.1e-16)\n",worst); }
}
