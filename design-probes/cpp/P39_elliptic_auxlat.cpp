#include <GeographicLib/EllipticFunction.hpp>
#include <GeographicLib/AuxLatitude.hpp>
#include <GeographicLib/Ellipsoid.hpp>
#include <cstdio>
#include <random>
#include <cmath>
using namespace GeographicLib;
std::mt19937_64 rng(83); double U(){ return std::ldexp((double)(rng()>>11),-53); }
int main(){
  for(int it=0;it<1500;++it){ double k2, al2; switch(rng()%5){ case 0: k2=U()*0.99; break; case 1: k2=1-std::pow(10.0,-1-10*U()); break; case 2: k2=-std::pow(10.0,-3+7*U()); break; case 3: k2 = U()*0.01; break; default: k2=-U(); }
    switch(rng()%4){ case 0: al2=U()*0.99; break; case 1: al2=-std::pow(10.0,-3+4*U()); break; case 2: al2=1-std::pow(10.0,-1-6*U()); break; default: al2=k2; }
    double phi = (rng()%3==0)? (U()-0.5)*30 : (U()-0.5)*3.1;
    EllipticFunction e(k2,al2); double x=(U()-0.5)*8, sn,cn,dn; e.sncndn(x,sn,cn,dn);
    printf("E %.17g %.17g %.17g %.17g %.17g %.17g %.17g %.17g %.17g %.17g %.17g %.17g %.17g %.17g %.17g %.17g %.17g\n",k2,al2,phi,e.F(phi),e.E(phi),e.D(phi),e.Pi(phi),e.K(),e.E(),e.Pi(),x,sn,cn,dn,e.Einv(e.E(phi)),e.am(x), e.Ed(phi/Math::degree()));
  }
  for (double f : {1/298.257223563, 0.1, -0.1, 0.5, -1.0, 0.99}) { double a=6378137; AuxLatitude aux(a,f); Ellipsoid el(a,f);
    for(int it=0;it<200;++it){ double lat = (rng()%4==0)? ((rng()%2)?1:-1)*std::pow(10.0,-12*U())*((rng()%2)?1:90) : -90+180*U(); if(std::fabs(lat)>90) lat=90;
      printf("A %.17g %.17g %.17g %.17g %.17g %.17g %.17g %.17g %.17g %.17g %.17g\n",f,lat,aux.Convert(0,1,lat,true),aux.Convert(0,2,lat,true),aux.Convert(0,3,lat,true),aux.Convert(0,4,lat,true),aux.Convert(0,5,lat,true), el.QuarterMeridian(), el.Area(), el.MeridianDistance(lat), el.IsometricLatitude(lat)); } }
}
