#include <GeographicLib/UTMUPS.hpp>
#include <GeographicLib/MGRS.hpp>
#include <GeographicLib/Rhumb.hpp>
#include <GeographicLib/Math.hpp>
#include <GeographicLib/GeoCoords.hpp>
#include <GeographicLib/Gnomonic.hpp>
#include <GeographicLib/Geodesic.hpp>
#include <cstdio>
#include <random>
#include <cmath>
#include <string>
using namespace GeographicLib;
std::mt19937_64 rng(111); double U(){ return std::ldexp((double)(rng()>>11),-53); }
int main(){
  // zone strings & EPSG
  { long bad=0; for(int z=-4; z<=60; ++z) for(int n=0;n<2;++n) for(int ab=0;ab<2;++ab){ if(z<0&&z!=-4) continue; try{ std::string s=UTMUPS::EncodeZone(z,n,ab); int z2; bool n2; UTMUPS::DecodeZone(s,z2,n2); if(z2!=z || (z!=-4 && n2!=(bool)n)) { printf("ZONE %d %d %d -> %s -> %d %d\n",z,n,ab,s.c_str(),z2,(int)n2); ++bad; } }catch(const GeographicErr&e){ printf("ZONE throw %d %d: %s\n",z,n,e.what()); ++bad; } }
    for(int z=0;z<=60;++z) for(int n=0;n<2;++n){ int e=UTMUPS::EncodeEPSG(z,n); int z2; bool n2; UTMUPS::DecodeEPSG(e,z2,n2); if(z2!=z||n2!=(bool)n) { printf("EPSG %d %d -> %d -> %d %d\n",z,n,e,z2,(int)n2); ++bad; } }
    for(int e=32500;e<32800;++e){ int z; bool n; UTMUPS::DecodeEPSG(e,z,n); if(z!=UTMUPS::INVALID && UTMUPS::EncodeEPSG(z,n)!=e){ printf("EPSG2 %d\n",e); ++bad; } }
    const char* rej[]={"0n","61n","+5n","5","5x","005n","-5n"," 5n","5 n","n5","123","","northx","3north3"}; for(auto s: rej){ try{ int z; bool n; UTMUPS::DecodeZone(s,z,n); printf("ZONE accepted '%s' -> %d %d\n",s,z,(int)n); ++bad; }catch(const GeographicErr&){} }
    printf("zone/epsg bad=%ld\n",bad); }
  // Transfer vs via geographic
  { double mx=0; long n=0; for(int it=0;it<200000;++it){ double lat=-79+162*U(), lon=(U()-0.5)*360; int z; bool np; double x,y; UTMUPS::Forward(lat,lon,z,np,x,y); int zout = z + (int)(rng()%3)-1; if(zout<1||zout>60) continue; bool npo=rng()%2; double xo,yo; int zz; try{ UTMUPS::Transfer(z,np,x,y,zout,npo,xo,yo,zz);}catch(const GeographicErr&){ continue; } int z3; bool n3; double x3,y3; UTMUPS::Forward(lat,lon,z3,n3,x3,y3,zout); if(n3!=npo) y3 += (npo?-1:1)*1e7; mx=std::max(mx,std::hypot(xo-x3,yo-y3)); ++n; } printf("Transfer vs direct max %.3g m (n=%ld)\n",mx,n); }
  // grid-zone-only MGRS
  { long bad=0; const char* bands="CDEFGHJKLMNPQRSTUVWX"; for(int z=1;z<=60;++z) for(int b=0;b<20;++b){ char buf[8]; snprintf(buf,8,"%d%c",z,bands[b]); int zz,p; bool n; double x,y; try{ MGRS::Reverse(buf,zz,n,x,y,p); double la,lo; UTMUPS::Reverse(zz,n,x,y,la,lo); int sz=UTMUPS::StandardZone(la,lo); int band = std::max(-10,std::min(9,(int)std::floor(la)/8*1)); int lb = (int)std::floor((la+80)/8); if(lb>19) lb=19; if(lb<0) lb=0; bool skip = (b==19 && (z==32||z==34||z==36)) || (b==17&&z==32&&false); if(!(zz==z && p==-1 && lb==b && (sz==z||skip))){ printf("GZD %s -> lat=%.4f lon=%.4f stdzone=%d band=%d\n",buf,la,lo,sz,lb); ++bad; } }catch(const GeographicErr&e){ printf("GZD %s throws %s\n",buf,e.what()); ++bad; } }
    for (const char* s : {"A","B","Y","Z"}){ int zz,p; bool n; double x,y; MGRS::Reverse(s,zz,n,x,y,p); double la,lo; UTMUPS::Reverse(zz,n,x,y,la,lo); printf("UPS %s -> lat=%.3f lon=%.3f\n",s,la,lo);} printf("gzd bad=%ld\n",bad); }
  // tand/atand, taupf/tauf, AngRound
  { double m1=0,m2=0; for(int it=0;it<2000000;++it){ double tau = std::ldexp(U()-0.5,(int)(rng()%120)-60); double es = (rng()%2? 1:-1)*U()*0.999; double tp=Math::taupf(tau,es); double t2=Math::tauf(tp,es); double r=std::fabs(t2-tau)/std::fabs(tau); if(r>m1) m1=r; double x=(U()-0.5)*180; double a=Math::atand(Math::tand(x)); if(std::fabs(x)<89.999){ double e=std::fabs(a-x); if(e>m2) m2=e; } } printf("tauf(taupf) rel err max %.3g ; atand(tand) abs err max %.3g deg\n",m1,m2); }
  // Rhumb direct over the pole & consistency inverse/direct
  { const Rhumb& r=Rhumb::WGS84(); double la,lo,S; r.Direct(80,10,0,2e6,la,lo,S); printf("rhumb over pole: lat=%.6f lon=%f S=%f\n",la,lo,S); r.Direct(80,10,10,3e7,la,lo,S); printf("rhumb far: lat=%.6f lon=%f S=%f\n",la,lo,S); }
  // Gnomonic beyond horizon
  { Gnomonic g(Geodesic::WGS84()); double x,y; g.Forward(0,0,0,89,x,y); printf("gnomonic 89deg: %g %g\n",x,y); g.Forward(0,0,0,91,x,y); printf("gnomonic 91deg: %g %g\n",x,y); }
  // GeoCoords round trips
  { long bad=0; for(int it=0;it<100000;++it){ double lat=-89.9+179.8*U(), lon=(U()-0.5)*360; GeoCoords c(lat,lon); for(int rep=0;rep<3;++rep){ std::string s = rep==0? c.GeoRepresentation(6): rep==1? c.DMSRepresentation(5): c.UTMUPSRepresentation(5); try{ GeoCoords d(s); double e=std::hypot(d.Latitude()-lat, Math::AngDiff(d.Longitude(),lon)*std::cos(lat*Math::degree())); if(e>1e-9){ if(bad<5) printf("GeoCoords %s -> %.12f %.12f vs %.12f %.12f\n",s.c_str(),d.Latitude(),d.Longitude(),lat,lon); ++bad; } }catch(const GeographicErr&e){ if(bad<5) printf("GeoCoords reject %s: %s\n",s.c_str(),e.what()); ++bad; } }
      std::string m=c.MGRSRepresentation(6); try{ GeoCoords d(m); double e=std::hypot(d.Latitude()-lat, Math::AngDiff(d.Longitude(),lon)*std::cos(lat*Math::degree())); if(e>1e-9+1e-11*1e6/1.1e5){ if(bad<5) printf("GeoCoords MGRS %s\n",m.c_str()); ++bad; } }catch(const GeographicErr&e){ if(bad<5) printf("GeoCoords MGRS reject %s: %s\n",m.c_str(),e.what()); ++bad; } }
    printf("GeoCoords bad=%ld\n",bad); }
}
