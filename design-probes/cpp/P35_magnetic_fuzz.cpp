#include <GeographicLib/MagneticModel.hpp>
#include <GeographicLib/GravityModel.hpp>
#include <cstdio>
#include <fstream>
#include <random>
#include <string>
#include <vector>
#include <cstring>
#include <unistd.h>
#include <sys/wait.h>
using namespace GeographicLib;
std::mt19937_64 rng(7); 
static std::string meta(){ return "WMMF-1\n# test\nName tst\nDescription test model\nReleaseDate 2020-01-01\nRadius 6371200\nType Linear\nEpoch 2020\nDeltaEpoch 5\nNumModels 1\nNumConstants 0\nMinTime 2020\nMaxTime 2025\nMinHeight -1000\nMaxHeight 850000\nNormalization Schmidt\nByteOrder little\nID TSTMODEL\n"; }
static std::string cof(int N,int M){ std::string s="TSTMODEL"; for(int rep=0;rep<2;++rep){ int nm[2]={N,M}; s.append((char*)nm,8); int cs=(M+1)*(2*N-M+2)/2, ss=cs-(N+1); for(int i=0;i<cs;++i){ double v = i==0?0.0:1000.0/(i+1); s.append((char*)&v,8);} for(int i=0;i<ss;++i){ double v=500.0/(i+1); s.append((char*)&v,8);} } return s; }
static void put(const char* fn,const std::string& s){ std::ofstream f(fn,std::ios::binary); f<<s; }
static void mutate(std::string& s, bool text){ int nm=1+rng()%2; for(int k=0;k<nm;++k){ if(s.empty()) return; switch(rng()%5){ case 0: s[rng()%s.size()]=char(rng()); break; case 1: s.resize(rng()%(s.size()+1)); break; case 2: s[rng()%s.size()]^=char(1<<(rng()%8)); break; case 3: { size_t p=rng()%s.size(); if(text){ const char* ins[]={"-1","99999999999","nan","inf","0","1e308","","2147483647","-2147483648"}; s.insert(p,ins[rng()%9]); } else { int v[]={-1,0x7fffffff,(int)0x80000000,1000000,65536,-2,46341,92682}; int x=v[rng()%8]; if(p+4<=s.size()) memcpy(&s[p],&x,4);} break; } default: { size_t p= 8+ (text?0: (rng()%2)*0); if(!text && s.size()>=16){ int v[]={-1,0x7fffffff,(int)0x80000000,1000000,65536,-2,46341,92682,3,2}; int x=v[rng()%10]; memcpy(&s[8+4*(rng()%2)],&x,4);} } } } }
int main(){ long ok=0,gerr=0,other=0,crash=0;
  put("mag/tst.wmm",meta()); put("mag/tst.wmm.cof",cof(4,4)); { MagneticModel m("tst","/tmp/scratch/p2/mag"); double bx,by,bz; m(2021,10,20,1000,bx,by,bz); printf("valid model field: %g %g %g\n",bx,by,bz); }
  for(int it=0; it<3000; ++it){ std::string m=meta(), c=cof(1+rng()%5,1+rng()%2); int which=rng()%3; if(which!=1) mutate(m,true); if(which!=0) mutate(c,false); put("mag/tst.wmm",m); put("mag/tst.wmm.cof",c);
    pid_t pid=fork(); if(pid==0){ alarm(5); int code=0; try{ MagneticModel mm("tst","/tmp/scratch/p2/mag"); double bx,by,bz; mm(2021,10,20,1000,bx,by,bz); code=0; } catch(const GeographicErr&){ code=1; } catch(const std::bad_alloc&){ code=3; } catch(const std::exception& e){ fprintf(stderr,"OTHER: %s\n",e.what()); code=2; } _exit(code); }
    int st; waitpid(pid,&st,0); if(WIFEXITED(st)){ int c=WEXITSTATUS(st); if(c==0)++ok; else if(c==1)++gerr; else if(c==3) ++other; else { ++other; if(c!=2){ ++crash; if(crash<6){ printf("CRASH/SANITIZER exit=%d it=%d\n",c,it); system("cp mag/tst.wmm mag/crash.wmm; cp mag/tst.wmm.cof mag/crash.cof"); } } } } else { ++crash; if(crash<6){ printf("SIGNAL %d it=%d\n",WTERMSIG(st),it); system("cp mag/tst.wmm mag/crash.wmm; cp mag/tst.wmm.cof mag/crash.cof"); } }
  }
  printf("ok=%ld GErr=%ld other_exc=%ld crash_or_sanitizer=%ld\n",ok,gerr,other,crash);
}
