#include <GeographicLib/Geodesic.hpp>
#include <GeographicLib/GeodesicExact.hpp>
#include <GeographicLib/GeodesicLine.hpp>
#include <GeographicLib/TransverseMercator.hpp>
#include <GeographicLib/TransverseMercatorExact.hpp>
#include <GeographicLib/Geocentric.hpp>
#include <GeographicLib/LocalCartesian.hpp>
#include <GeographicLib/Rhumb.hpp>
#include <GeographicLib/PolarStereographic.hpp>
#include <GeographicLib/LambertConformalConic.hpp>
#include <GeographicLib/AlbersEqualArea.hpp>
#include <cstdio>
#include <random>
#include <cmath>
#include <algorithm>
using namespace GeographicLib;
std::mt19937_64 rng(31); double U(){ return std::ldexp((double)(rng()>>11),-53); }
double pick(std::initializer_list<double> l){ auto it=l.begin(); std::advance(it, rng()%l.size()); return *it; }
double rlat(){ switch(rng()%5){ case 0: return pick({90,-90,0,1e-10,-1e-10,89.9999999999,-89.9999999999,45,-45}); default: return -90+180*U(); } }
double razi(){ switch(rng()%5){ case 0: return pick({0,90,-90,180,-180,1e-10,-1e-10,179.9999999999,90.0000000001}); default: return -180+360*U(); } }
int main(){
  double a = 6378137;
  for (double f : {1/298.257223563, 0.0, 0.001, -0.001, 1/150.0, 0.01, -0.01, 0.02, -0.02}){
    Geodesic g(a,f), gx(a,f,true); GeodesicExact ge(a,f);
    double maxd=0, maxi=0, maxc=0, maxline=0, maxm=0, maxS=0; double wd[4]={0};
    for (int it=0; it<40000; ++it){
      double lat1=rlat(), lon1=-180+360*U(), azi1=razi(), s12 = (rng()%4==0)? pick({0.0,1e-9,-1e-9,1.0,2e7,-2e7,4.1e7}) : (U()-0.3)*8e7;
      double la,lo,az,m,M1,M2,S, la2,lo2,az2,m2,M12,M22,S2;
      g.Direct(lat1,lon1,azi1,s12,la,lo,az,m,M1,M2,S); ge.Direct(lat1,lon1,azi1,s12,la2,lo2,az2,m2,M12,M22,S2);
      double dd = std::hypot((la-la2), Math::AngDiff(lo,lo2)*std::cos(la*Math::degree()))*Math::degree()*a;
      if (dd>maxd){maxd=dd; wd[0]=lat1;wd[1]=azi1;wd[2]=s12;}
      maxm = std::max(maxm, std::fabs(m-m2)); maxS=std::max(maxS, std::fabs(std::remainder(S-S2, g.EllipsoidArea())));
      double la3,lo3,az3; g.Line(lat1,lon1,azi1).Position(s12,la3,lo3,az3); if (la3!=la||lo3!=lo||az3!=az) maxline=1;
      double la4,lo4,az4; gx.Direct(lat1,lon1,azi1,s12,la4,lo4,az4); if (la4!=la2||lo4!=lo2||az4!=az2) maxline+=2;
      // inverse closure
      double lat2=rlat(), lon2 = (rng()%4==0)? lon1+pick({0,180,-180,179.9999999,1e-10,360}) : -180+360*U();
      if (rng()%6==0){ lat2=-lat1+ (U()-0.5)*pick({0,1e-3,1e-6,1e-9}); lon2 = lon1+180-(U())*pick({0,1e-3,1e-6,1e-9,1}); }
      double s,a1,a2; double a12 = g.Inverse(lat1,lon1,lat2,lon2,s,a1,a2); double se,a1e,a2e; ge.Inverse(lat1,lon1,lat2,lon2,se,a1e,a2e);
      maxi = std::max(maxi, std::fabs(s-se));
      double lb,lob,azb; ge.Direct(lat1,lon1,a1,s,lb,lob,azb); double dc = std::hypot((lb-lat2), Math::AngDiff(lob,lon2)*std::cos(lat2*Math::degree()))*Math::degree()*a; if (std::fabs(lat2)==90) dc = std::fabs(lb-lat2)*Math::degree()*a;
      if (dc>maxc){maxc=dc; }
      if (!(a12>=0&&a12<=180)) printf("a12 out of range %.17g\n",a12);
    }
    printf("f=%9.6f direct series-vs-exact max %.1f nm (lat1=%.10g azi1=%.10g s12=%.10g) | inverse |ds| max %.1f nm | closure max %.1f nm | line/exact=true mismatch flag %g | m12 diff %.2e S12 diff %.3g\n", f, maxd*1e9, wd[0],wd[1],wd[2], maxi*1e9, maxc*1e9, maxline, maxm, maxS);
  }
}
