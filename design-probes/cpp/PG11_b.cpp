#include "C11_oracle.hpp"
#include <GeographicLib/PolarStereographic.hpp>
#include <GeographicLib/LambertConformalConic.hpp>
#include <GeographicLib/AlbersEqualArea.hpp>
#include <cstdio>
#include <vector>
#include <cmath>
using namespace GeographicLib; using c11::Q;
int main() {
  double a = 1;
  for (double f : {-1.0, -2.0, -5.0, -0.5}) {
    printf("== f=%g\n", f);
    for (auto p : std::vector<std::pair<double,double>>{{20,50},{-30,60},{30,-60},{0,45},{5,-5.001},{10,80},{45,45},{0,0},{-10,30},{-20,30},{-25,30}}) {
      try {
      LambertConformalConic L(a, f, p.first, p.second, 1);
      printf(" LCC (%g,%g): n=%.17g nc=%.17g lat0=%.17g k0=%.17g scale=%g drhomax=%g\n", p.first, p.second, L._n, L._nc, L._lat0, L._k0, L._scale, L._drhomax);
      c11::Proj P(1, a, f); P.init_conic(c11::sc_deg(p.first), c11::sc_deg(p.second)); printf("      oracle n=%s lat0=%s\n", c11::qstr(P.n).c_str(), c11::qstr(atan2q(P.p0.s, P.p0.c) * 180 / c11::PIq).c_str());
      for (double lat : {-80.0, -45.0, 0.0, 33.0, 85.0}) { double x, y, g, k, la, lo; L.Forward(0, lat, 25, x, y, g, k); L.Reverse(0, x, y, la, lo, g, k); c11::Out w = P.fwd(true, 0, lat, 25); printf("      lat %g: x=%.15g y=%.15g (oracle %s %s) back lat=%.15g lon=%.15g\n", lat, x, y, c11::qstr(w.x).c_str(), c11::qstr(w.y).c_str(), la, lo); }
      } catch (const std::exception& e) { printf(" exc %s\n", e.what()); }
    }
    for (auto p : std::vector<std::pair<double,double>>{{20,50},{-30,60},{0,45},{90,90},{-90,-90}}) {
      AlbersEqualArea L(a, f, p.first, p.second, 1);
      printf(" ALB (%g,%g): n0=%.17g lat0=%.17g k0=%.17g\n", p.first, p.second, L._n0, L._lat0, L._k0);
      for (double lat : {-80.0, -45.0, 0.0, 33.0, 85.0}) { double x, y, g, k, la, lo; L.Forward(0, lat, 25, x, y, g, k); L.Reverse(0, x, y, la, lo, g, k); printf("      lat %g: x=%.15g y=%.15g k=%g back lat=%.15g lon=%.15g\n", lat, x, y, k, la, lo); }
    }
  }
}
