// convergence of the fixed-count Newton inversions Math::tauf (numit 5) and AlbersEqualArea::tphif (numit_ 5) as a function of f
#include <GeographicLib/AlbersEqualArea.hpp>
#include <GeographicLib/Math.hpp>
#include <cstdio>
#include <cmath>
using namespace GeographicLib;
int main() {
  for (double f : {0.0033528, 0.1, 0.5, 0.75, 0.9, 0.95, 0.97, 0.98, 0.99, 0.995, 0.999, -0.1, -0.5, -1.0, -1.5, -2.0, -3.0, -5.0, -10.0}) {
    double e2 = f * (2 - f), es = (f < 0 ? -1 : 1) * std::sqrt(std::fabs(e2)); AlbersEqualArea A(1, f, 0, 1);
    double wt = 0, wtt = 0, wp = 0, wpt = 0;
    for (int i = -3000; i <= 3000; ++i) { double t = std::pow(10.0, i / 500.0);   // 1e-6 .. 1e6
      for (double sg : {1.0, -1.0}) {
      double b = Math::tauf(Math::taupf(sg * t, es), es), e = std::fabs(b / (sg * t) - 1); if (e > wt) { wt = e; wtt = sg * t; }
      double c = A.tphif(A.txif(sg * t)); e = std::fabs(c / (sg * t) - 1); if (e > wp) { wp = e; wpt = sg * t; } }
    }
    printf("f=%-9g  tauf: worst rel %.2e at tau=%-10.4g (lat %.3f)   tphif: worst rel %.2e at tphi=%-10.4g (lat %.3f)\n", f, wt, wtt, std::atan(wtt) * 180 / M_PI, wp, wpt, std::atan(wpt) * 180 / M_PI);
  }
}
