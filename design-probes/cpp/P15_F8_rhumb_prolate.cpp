#include <GeographicLib/Rhumb.hpp>
#include <GeographicLib/DAuxLatitude.hpp>
#include <cstdio>
#include <cmath>
using namespace GeographicLib;
int main(){ double a=6378137;
  for (double f : {-0.01, -0.001, -0.1, 0.01}) { Rhumb rs(a,f,false), rx(a,f,true); DAuxLatitude aux(a,f);
    printf("f=%g\n",f);
    for (double l1 : {0.0, 1e-12,1e-10, 1e-8, 1e-6, 1e-4, 1e-2, 1.0, 30.0}) for (double d : {0.0, 1e-10, -1e-10, 1e-7, 1e-3}) {
      double lat1=l1, lat2=l1+d; double s,az,s2,az2; rs.Inverse(lat1,0,lat2,100,s,az); rx.Inverse(lat1,0,lat2,100,s2,az2);
      AuxAngle p1(AuxAngle::degrees(lat1)), p2(AuxAngle::degrees(lat2));
      double dr = aux.DRectifying(p1,p2), di = aux.DIsometric(p1,p2), dp = aux.DParametric(p1,p2);
      if (std::fabs(s-s2) > 1e-6*std::fabs(s)) printf("  lat1=%g lat2-lat1=%g: series s=%.4f exact s=%.4f rel diff %.3g | DRect=%.12g DIso=%.12g DPar=%.12g\n",lat1,d,s,s2,(s2-s)/s,dr,di,dp);
    }
  }
}
