#include <GeographicLib/Math.hpp>
#include <cstdio>
#include <random>
#include <cmath>
using namespace GeographicLib;
std::mt19937_64 rng(111); double U(){ return std::ldexp((double)(rng()>>11),-53); }
int main(){ int shown=0; double worst_obl=0, worst_pro=0;
  for(int it=0;it<4000000;++it){ double tau = std::ldexp(U()-0.5,(int)(rng()%120)-60); double es = (rng()%2? 1:-1)*U()*0.999; double tp=Math::taupf(tau,es); double t2=Math::tauf(tp,es); double r=std::fabs(t2-tau)/std::fabs(tau);
    if (es>0) worst_obl=std::max(worst_obl,r); else worst_pro=std::max(worst_pro,r);
    if(r>1e-10 && shown<10){ printf("tau=%.17g es=%.17g taup=%.17g tauf=%.17g rel=%g\n",tau,es,tp,t2,r); ++shown; } }
  printf("worst oblate %.3g prolate %.3g\n",worst_obl,worst_pro);
}
