#include <GeographicLib/Geoid.hpp>
#include <cstdio>
#include <fstream>
#include <string>
#include <vector>
using namespace GeographicLib;
static void writef(const std::string& hdr, int npix, int extra=0){ std::ofstream f("/tmp/scratch/p2/m.pgm", std::ios::binary); f<<hdr; for(int i=0;i<npix+extra;++i){ f.put(char(1)); f.put(char(2)); } }
static void tryit(const char* what){ for(int ts=0; ts<2; ++ts){ try { Geoid g("m","/tmp/scratch/p2",true,ts); double h=g(10,20); printf("  %-44s ts=%d ACCEPTED h=%g\n",what,ts,h);} catch(const GeographicErr&e){ printf("  %-44s ts=%d GErr: %s\n",what,ts,e.what()); } catch(const std::exception&e){ printf("  %-44s ts=%d OTHER: %s\n",what,ts,e.what()); } } }
int main(){
  std::string ok="P5\n# Offset -108\n# Scale 0.003\n4 3\n65535\n";
  writef(ok,12); tryit("valid 4x3");
  writef("P6\n# Offset -108\n# Scale 0.003\n4 3\n65535\n",12); tryit("P6 magic");
  writef("P5\n# Scale 0.003\n4 3\n65535\n",12); tryit("no offset");
  writef("P5\n# Offset -108\n4 3\n65535\n",12); tryit("no scale");
  writef("P5\n# Offset -108\n# Scale -1\n4 3\n65535\n",12); tryit("negative scale");
  writef("P5\n# Offset -108\n# Scale 0.003\n3 3\n65535\n",9); tryit("odd width");
  writef("P5\n# Offset -108\n# Scale 0.003\n4 4\n65535\n",16); tryit("even height");
  writef("P5\n# Offset -108\n# Scale 0.003\n4 1\n65535\n",4); tryit("height 1");
  writef("P5\n# Offset -108\n# Scale 0.003\n4 3\n255\n",12); tryit("maxval 255");
  writef(ok,11); tryit("one pixel short");
  writef(ok,12,1); tryit("one pixel long");
  writef("P5\n# Offset -108\n# Scale 0.003\n4 -3\n65535\n",12); tryit("negative height");
  writef("P5\n# Offset -108\n# Scale 0.003\n2000000000 3\n65535\n",12); tryit("huge width");
  writef("P5\n# Offset -108\n# Scale 0.003\n0 3\n65535\n",0); tryit("zero width");
  writef("P5\n# Offset nan\n# Scale 0.003\n4 3\n65535\n",12); tryit("offset nan");
  writef("P5\n# Offset -108\n# Scale inf\n4 3\n65535\n",12); tryit("scale inf");
  writef("P5\n# Offset -108\n# Scale 0.003\n4 3\n",0); tryit("truncated before maxval");
  writef("P5\n",0); tryit("only magic");
  writef("",0); tryit("empty file");
  writef("P5\n# Offset -108\n# Scale 0.003\n4 3 65535\n",12); tryit("maxval on same line");
  writef("P5\n# Offset -108\n# Scale 0.003\n4 3\n65535\r\n",12); tryit("CRLF after maxval");
  writef("P5\n# Offset -108\n# Scale 0.003\n2 3\n65535\n",6); tryit("width 2");
}
