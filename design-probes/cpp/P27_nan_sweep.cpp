#include <GeographicLib/Geodesic.hpp>
#include <GeographicLib/GeodesicExact.hpp>
#include <GeographicLib/Rhumb.hpp>
#include <GeographicLib/TransverseMercator.hpp>
#include <GeographicLib/TransverseMercatorExact.hpp>
#include <GeographicLib/PolarStereographic.hpp>
#include <GeographicLib/LambertConformalConic.hpp>
#include <GeographicLib/AlbersEqualArea.hpp>
#include <GeographicLib/Geocentric.hpp>
#include <GeographicLib/LocalCartesian.hpp>
#include <GeographicLib/UTMUPS.hpp>
#include <GeographicLib/MGRS.hpp>
#include <GeographicLib/Geohash.hpp>
#include <GeographicLib/GARS.hpp>
#include <GeographicLib/Georef.hpp>
#include <GeographicLib/OSGB.hpp>
#include <GeographicLib/AzimuthalEquidistant.hpp>
#include <GeographicLib/Gnomonic.hpp>
#include <GeographicLib/CassiniSoldner.hpp>
#include <GeographicLib/Ellipsoid.hpp>
#include <GeographicLib/PolygonArea.hpp>
#include <GeographicLib/Intersect.hpp>
#include <GeographicLib/DMS.hpp>
#include <cstdio>
#include <cmath>
#include <string>
#include <functional>
#include <vector>
using namespace GeographicLib;
const double NaN = std::nan(""), INF = INFINITY;
struct Case { const char* name; int nin; std::function<std::vector<double>(const double*)> f; std::vector<double> base; };
int main(){
  const Geodesic& g=Geodesic::WGS84(); const GeodesicExact& ge=GeodesicExact::WGS84(); const Rhumb& rh=Rhumb::WGS84(); Rhumb rhx(6378137,1/298.25,true);
  std::vector<Case> cs = {
   {"Geodesic::Direct",4,[&](const double*a){ double o[7]; g.Direct(a[0],a[1],a[2],a[3],o[0],o[1],o[2],o[3],o[4],o[5],o[6]); return std::vector<double>(o,o+7);},{10,20,30,1e6}},
   {"Geodesic::Inverse",4,[&](const double*a){ double o[7]; g.Inverse(a[0],a[1],a[2],a[3],o[0],o[1],o[2],o[3],o[4],o[5],o[6]); return std::vector<double>(o,o+7);},{10,20,30,40}},
   {"GeodesicExact::Direct",4,[&](const double*a){ double o[7]; ge.Direct(a[0],a[1],a[2],a[3],o[0],o[1],o[2],o[3],o[4],o[5],o[6]); return std::vector<double>(o,o+7);},{10,20,30,1e6}},
   {"GeodesicExact::Inverse",4,[&](const double*a){ double o[7]; ge.Inverse(a[0],a[1],a[2],a[3],o[0],o[1],o[2],o[3],o[4],o[5],o[6]); return std::vector<double>(o,o+7);},{10,20,30,40}},
   {"Rhumb::Direct",4,[&](const double*a){ double o[3]; rh.Direct(a[0],a[1],a[2],a[3],o[0],o[1],o[2]); return std::vector<double>(o,o+3);},{10,20,30,1e6}},
   {"Rhumb::Inverse",4,[&](const double*a){ double o[3]; rh.Inverse(a[0],a[1],a[2],a[3],o[0],o[1],o[2]); return std::vector<double>(o,o+3);},{10,20,30,40}},
   {"RhumbExact::Direct",4,[&](const double*a){ double o[3]; rhx.Direct(a[0],a[1],a[2],a[3],o[0],o[1],o[2]); return std::vector<double>(o,o+3);},{10,20,30,1e6}},
   {"RhumbExact::Inverse",4,[&](const double*a){ double o[3]; rhx.Inverse(a[0],a[1],a[2],a[3],o[0],o[1],o[2]); return std::vector<double>(o,o+3);},{10,20,30,40}},
   {"TM::Forward",3,[&](const double*a){ double o[4]; TransverseMercator::UTM().Forward(a[0],a[1],a[2],o[0],o[1],o[2],o[3]); return std::vector<double>(o,o+4);},{3,10,5}},
   {"TM::Reverse",3,[&](const double*a){ double o[4]; TransverseMercator::UTM().Reverse(a[0],a[1],a[2],o[0],o[1],o[2],o[3]); return std::vector<double>(o,o+4);},{3,1e5,2e6}},
   {"TMExact::Forward",3,[&](const double*a){ double o[4]; TransverseMercatorExact::UTM().Forward(a[0],a[1],a[2],o[0],o[1],o[2],o[3]); return std::vector<double>(o,o+4);},{3,10,5}},
   {"TMExact::Reverse",3,[&](const double*a){ double o[4]; TransverseMercatorExact::UTM().Reverse(a[0],a[1],a[2],o[0],o[1],o[2],o[3]); return std::vector<double>(o,o+4);},{3,1e5,2e6}},
   {"PS::Forward",2,[&](const double*a){ double o[4]; PolarStereographic::UPS().Forward(true,a[0],a[1],o[0],o[1],o[2],o[3]); return std::vector<double>(o,o+4);},{80,5}},
   {"PS::Reverse",2,[&](const double*a){ double o[4]; PolarStereographic::UPS().Reverse(true,a[0],a[1],o[0],o[1],o[2],o[3]); return std::vector<double>(o,o+4);},{1e5,2e5}},
   {"LCC::Forward",3,[&](const double*a){ double o[4]; LambertConformalConic::Mercator().Forward(a[0],a[1],a[2],o[0],o[1],o[2],o[3]); return std::vector<double>(o,o+4);},{3,10,5}},
   {"LCC::Reverse",3,[&](const double*a){ double o[4]; LambertConformalConic::Mercator().Reverse(a[0],a[1],a[2],o[0],o[1],o[2],o[3]); return std::vector<double>(o,o+4);},{3,1e5,2e6}},
   {"Albers::Forward",3,[&](const double*a){ double o[4]; AlbersEqualArea::CylindricalEqualArea().Forward(a[0],a[1],a[2],o[0],o[1],o[2],o[3]); return std::vector<double>(o,o+4);},{3,10,5}},
   {"Albers::Reverse",3,[&](const double*a){ double o[4]; AlbersEqualArea::CylindricalEqualArea().Reverse(a[0],a[1],a[2],o[0],o[1],o[2],o[3]); return std::vector<double>(o,o+4);},{3,1e5,2e6}},
   {"Geocentric::Forward",3,[&](const double*a){ double o[3]; Geocentric::WGS84().Forward(a[0],a[1],a[2],o[0],o[1],o[2]); return std::vector<double>(o,o+3);},{10,20,100}},
   {"Geocentric::Reverse",3,[&](const double*a){ double o[3]; Geocentric::WGS84().Reverse(a[0],a[1],a[2],o[0],o[1],o[2]); return std::vector<double>(o,o+3);},{1e6,2e6,3e6}},
   {"UTMUPS::Forward",2,[&](const double*a){ int z; bool n; double o[4]; UTMUPS::Forward(a[0],a[1],z,n,o[0],o[1],o[2],o[3]); std::vector<double> v(o,o+4); v.push_back(z==UTMUPS::INVALID?NaN:z); return v;},{10,20}},
   {"UTMUPS::Reverse",2,[&](const double*a){ double o[4]; UTMUPS::Reverse(31,true,a[0],a[1],o[0],o[1],o[2],o[3]); return std::vector<double>(o,o+4);},{5e5,2e6}},
   {"AzEq::Forward",4,[&](const double*a){ double o[4]; AzimuthalEquidistant(g).Forward(a[0],a[1],a[2],a[3],o[0],o[1],o[2],o[3]); return std::vector<double>(o,o+4);},{10,20,30,40}},
   {"Gnomonic::Forward",4,[&](const double*a){ double o[4]; Gnomonic(g).Forward(a[0],a[1],a[2],a[3],o[0],o[1],o[2],o[3]); return std::vector<double>(o,o+4);},{10,20,12,22}},
   {"Gnomonic::Reverse",4,[&](const double*a){ double o[4]; Gnomonic(g).Reverse(a[0],a[1],a[2],a[3],o[0],o[1],o[2],o[3]); return std::vector<double>(o,o+4);},{10,20,1e5,2e5}},
   {"Cassini::Forward",2,[&](const double*a){ double o[4]; CassiniSoldner(10,20,g).Forward(a[0],a[1],o[0],o[1],o[2],o[3]); return std::vector<double>(o,o+4);},{12,22}},
   {"Cassini::Reverse",2,[&](const double*a){ double o[4]; CassiniSoldner(10,20,g).Reverse(a[0],a[1],o[0],o[1],o[2],o[3]); return std::vector<double>(o,o+4);},{1e5,2e5}},
   {"Ellipsoid::MeridianDistance",1,[&](const double*a){ return std::vector<double>{Ellipsoid::WGS84().MeridianDistance(a[0]), Ellipsoid::WGS84().RectifyingLatitude(a[0]), Ellipsoid::WGS84().ConformalLatitude(a[0]), Ellipsoid::WGS84().AuthalicLatitude(a[0]), Ellipsoid::WGS84().IsometricLatitude(a[0])};},{10}},
   {"Intersect::Closest",6,[&](const double*a){ Intersect in(g); auto p=in.Closest(a[0],a[1],a[2],a[3],a[4],a[5]); return std::vector<double>{p.first,p.second};},{0,0,45,1,2,-45}},
  };
  for (auto& c: cs){ std::string res; bool flagged=false;
    for (int pos=0; pos<c.nin; ++pos) for (double sv : {NaN, INF, -INF}){ std::vector<double> in=c.base; in[pos]=sv; 
      try { auto out=c.f(in.data()); if (std::isnan(sv)) { bool anyfinite=false; std::string which; for(size_t k=0;k<out.size();++k) if(!std::isnan(out[k])){ anyfinite=true; which+=std::to_string(k)+","; } if(anyfinite){ res += " [arg"+std::to_string(pos)+"=nan: outputs "+which+" not nan]"; } } }
      catch(const GeographicErr& e){ res += " [arg"+std::to_string(pos)+"="+(std::isnan(sv)?"nan":(sv>0?"inf":"-inf"))+": GErr]"; if(std::isnan(sv)) flagged=true; }
      catch(const std::exception& e){ res += " [arg"+std::to_string(pos)+": OTHER "+e.what()+"]"; flagged=true; } }
    printf("%s%-28s%s\n", flagged?"!! ":"   ", c.name, res.c_str()); }
}
