#include <GeographicLib/Geodesic.hpp>
#include <GeographicLib/GeodesicExact.hpp>
#include <GeographicLib/TransverseMercator.hpp>
#include <GeographicLib/TransverseMercatorExact.hpp>
#include <GeographicLib/Rhumb.hpp>
#include <cstdio>
#include <random>
#include <cmath>
#include <cstring>
using namespace GeographicLib;
std::mt19937_64 rng(71); double U(){ return std::ldexp((double)(rng()>>11),-53); }
double pick(std::initializer_list<double> l){ auto it=l.begin(); std::advance(it, rng()%l.size()); return *it; }
double rlat(){ switch(rng()%5){ case 0: return pick({90,-90,0,1e-10,-1e-10,89.9999999999,-89.9999999999,45,-45}); default: return -90+180*U(); } }
static bool same(double a,double b){ return std::memcmp(&a,&b,8)==0 || (a==b) ; }
template<class G> void inv(const char* name, const G& g){
  long bad[6]={0}, n=0; double A=g.EllipsoidArea();
  for(int it=0;it<300000;++it){ double lat1=rlat(), lon1=(rng()%4==0)? pick({0,180,-180,90,360}) : (U()-0.5)*720, lat2=rlat(), lon2=(rng()%4==0)? lon1+pick({0,180,-180,179.9999999,1e-10,360,90}) : (U()-0.5)*720;
    if (rng()%6==0){ lat2=-lat1+(U()-0.5)*pick({0,1e-3,1e-6,1e-9}); if(std::fabs(lat2)>90) lat2=-lat1; lon2=lon1+180-U()*pick({0,1e-3,1e-6,1e-9,1}); }
    double s,a1,a2,m,M1,M2,S; double a12=g.Inverse(lat1,lon1,lat2,lon2,s,a1,a2,m,M1,M2,S); ++n;
    bool tie = std::fabs(std::remainder(lon2-lon1,360.0))==180 || (lat1==-lat2 ) || std::fabs(lat1)==90 || std::fabs(lat2)==90 || s==0;
    // swap
    { double s2,b1,b2,m2,N1,N2,S2; g.Inverse(lat2,lon2,lat1,lon1,s2,b1,b2,m2,N1,N2,S2); bool ok = same(s,s2)&&same(m,m2)&&same(M1,N2)&&same(M2,N1)&&same(S,-S2); if(!tie){ ok = ok && std::fabs(Math::AngDiff(b1,a2+180))<1e-9 && std::fabs(Math::AngDiff(b2,a1+180))<1e-9; } if(!ok){ if(bad[0]<5) printf("%s SWAP (%.17g,%.17g)-(%.17g,%.17g): s %.17g/%.17g m %.9g/%.9g M12 %.17g/%.17g S %.6f/%.6f azi %.12g %.12g / %.12g %.12g\n",name,lat1,lon1,lat2,lon2,s,s2,m,m2,M1,N2,S,S2,a1,a2,b1,b2); ++bad[0]; } }
    // reflect equator
    { double s2,b1,b2,m2,N1,N2,S2; g.Inverse(-lat1,lon1,-lat2,lon2,s2,b1,b2,m2,N1,N2,S2); bool ok = same(s,s2)&&same(m,m2)&&same(M1,N1)&&same(M2,N2)&&same(S,-S2); if(!tie) ok = ok && std::fabs(Math::AngDiff(b1,180-a1))<1e-9 && std::fabs(Math::AngDiff(b2,180-a2))<1e-9; if(!ok){ if(bad[1]<5) printf("%s REFL-EQ (%.17g,%.17g)-(%.17g,%.17g): s %.17g/%.17g S %.6f/%.6f azi %.12g %.12g / %.12g %.12g\n",name,lat1,lon1,lat2,lon2,s,s2,S,S2,a1,a2,b1,b2); ++bad[1]; } }
    // reflect meridian
    { double s2,b1,b2,m2,N1,N2,S2; g.Inverse(lat1,-lon1,lat2,-lon2,s2,b1,b2,m2,N1,N2,S2); bool ok = same(s,s2)&&same(m,m2)&&same(M1,N1)&&same(S,-S2); if(!tie) ok = ok && std::fabs(Math::AngDiff(b1,-a1))<1e-9 && std::fabs(Math::AngDiff(b2,-a2))<1e-9; if(!ok){ if(bad[2]<5) printf("%s REFL-MER (%.17g,%.17g)-(%.17g,%.17g): s %.17g/%.17g S %.6f/%.6f azi %.12g %.12g / %.12g %.12g\n",name,lat1,lon1,lat2,lon2,s,s2,S,S2,a1,a2,b1,b2); ++bad[2]; } }
    // 360 shift
    { double s2,b1,b2,m2,N1,N2,S2; g.Inverse(lat1,lon1+360,lat2,lon2-720,s2,b1,b2,m2,N1,N2,S2); bool exact = (lon1+360)-360==lon1 && (lon2-720)+720==lon2; bool ok = !exact || (same(s,s2)&&same(m,m2)&& (tie || (same(S,S2)&&same(a1,b1)&&same(a2,b2)))); if(!ok){ if(bad[3]<5) printf("%s SHIFT360 (%.17g,%.17g)-(%.17g,%.17g): s %.17g/%.17g S %.6f/%.6f azi %.12g %.12g / %.12g %.12g\n",name,lat1,lon1,lat2,lon2,s,s2,S,S2,a1,a2,b1,b2); ++bad[3]; } }
    if(!(a12>=0&&a12<=180)&&!std::isnan(a12)) ++bad[4];
    // mask independence for inverse (values within tiny tol)
    { double s3; g.Inverse(lat1,lon1,lat2,lon2,s3); double m3,t; g.GenInverse(lat1,lon1,lat2,lon2,G::REDUCEDLENGTH,t,t,t,m3,t,t,t); double Ma,Mb; g.GenInverse(lat1,lon1,lat2,lon2,G::GEODESICSCALE,t,t,t,t,Ma,Mb,t); if(!same(s,s3) || std::fabs(m-m3)>1e-8*(1+std::fabs(m)) *1e-6 +1e-9 || std::fabs(Ma-M1)>1e-14||std::fabs(Mb-M2)>1e-14){ if(bad[5]<5) printf("%s MASK s %.17g/%.17g m %.17g/%.17g M %.17g/%.17g\n",name,s,s3,m,m3,M1,Ma); ++bad[5]; } }
  }
  printf("%s n=%ld swap=%ld refl_eq=%ld refl_mer=%ld shift360=%ld a12range=%ld mask=%ld\n",name,n,bad[0],bad[1],bad[2],bad[3],bad[4],bad[5]);
}
int main(){ Geodesic g(6378137,1/298.257223563); GeodesicExact ge(6378137,1/298.257223563); Geodesic gp(6.4e6,-0.01); inv("series",g); inv("exact",ge); inv("prolate",gp);
  // TM parity
  TransverseMercator tm(6378137,1/298.257223563,0.9996); TransverseMercatorExact te(6378137,1/298.257223563,0.9996,true); long bad=0,n=0;
  for(int it=0;it<300000;++it){ double lat=rlat(), lon0=(U()-0.5)*360, dl=(rng()%3==0)? pick({0,1e-10,3,35,60,90,89.99999,120,179,180}) : (U()-0.5)*200; 
    for(int ex=0;ex<2;++ex){ double x,y,g1,k,x2,y2,g2,k2,x3,y3,g3,k3; if(!ex){ tm.Forward(lon0,lat,lon0+dl,x,y,g1,k); tm.Forward(lon0,-lat,lon0+dl,x2,y2,g2,k2); tm.Forward(lon0,lat,lon0-dl,x3,y3,g3,k3);} else { te.Forward(lon0,lat,lon0+dl,x,y,g1,k); te.Forward(lon0,-lat,lon0+dl,x2,y2,g2,k2); te.Forward(lon0,lat,lon0-dl,x3,y3,g3,k3);} ++n;
      bool exactdl = ((lon0+dl)-lon0==dl) && ((lon0-dl)-lon0==-dl); if(!exactdl) continue; bool edge = std::fabs(dl)==180 || lat==0 || dl==0 || std::fabs(dl)==90;
      bool ok = same(x,x2)&&same(y,-y2)&&same(k,k2) && same(x,-x3)&&same(y,y3)&&same(k,k3); if(!edge) ok = ok && same(g1,-g2)&&same(g1,-g3);
      if(!ok){ if(bad<8) printf("TM%s PARITY lat=%.17g lon0=%.17g dl=%.17g: x %.17g %.17g %.17g y %.17g %.17g %.17g g %.12g %.12g %.12g\n",ex?"exact":"",lat,lon0,dl,x,x2,x3,y,y2,y3,g1,g2,g3); ++bad; } } }
  printf("TM parity n=%ld bad=%ld\n",n,bad);
}
