#include "C11_oracle.hpp"
#include <GeographicLib/LambertConformalConic.hpp>
#include <cstdio>
#include <cmath>
#include <cstring>
#include <cstdint>
using namespace GeographicLib; using c11::Q;
static double unhx(const char* s) { uint64_t b = strtoull(s, 0, 16); double x; memcpy(&x, &b, 8); return x; }
int main() {
  double l = unhx("c055a3515e73ffcc"), a = 6378137;
  for (double f : {-5.0, -3.0, -1.0, 0.1}) {
  LambertConformalConic L(a, f, l, l, 1); c11::Proj P(1, a, f); P.init_conic(c11::sc_deg(l), c11::sc_deg(l));
  printf("f=%g lat=%.17g: n=%.17g (oracle %s) nc=%.17g k0=%.17g lat0=%.17g psi0=%.17g tchi0=%.17g nrho0=%.17g (oracle r0*n %s) scale=%.17g t0nm1=%.17g\n", f, l, L._n, c11::qstr(P.n).c_str(), L._nc, L._k0, L._lat0, L._psi0, L._tchi0, L._nrho0, c11::qstr(P.r0 * P.n).c_str(), L._scale, L._t0nm1);
  for (double lat : {l, l + 1e-9, l - 1e-6, l + 0.5, -87.434090552648339}) { double x, y, g, k; L.Forward(0, lat, 0, x, y, g, k); c11::Out w = P.fwd(true, 0, lat, 0); printf("   lat=%.17g y=%.17g oracle %s  diff %.3g  k=%.17g (%s)\n", lat, y, c11::qstr(w.y).c_str(), c11::dbl(Q(y) - w.y), k, c11::qstr(w.k).c_str()); }
  }
}
// appended: where does the constant offset come from
struct X { X() {
  double l = unhx("c055a3515e73ffcc"), a = 6378137, f = -5; LambertConformalConic L(a, f, l, l, 1);
  double sphi, cphi; Math::sincosd(-l, sphi, cphi); double tphi = sphi / cphi, scphi = 1 / cphi, shxi = sinh(Math::eatanhe(sphi, L._es)), tchi = hypot(1.0, shxi) * tphi - shxi * scphi;
  printf("\nForward-way tchi=%.17g  Init tchi0=%.17g  rel diff %.3g; psi fwd %.17g  psi0 %.17g\n", tchi, L._tchi0, tchi / L._tchi0 - 1, asinh(tchi), L._psi0);
  Q s = sinq(Q(-l) * c11::PIq / 180), c = cosq(Q(-l) * c11::PIq / 180), es = sqrtq(Q(35)), xi = -es * atanq(es * s), sh = sinhq(xi), tq = sqrtq(1 + sh * sh) * s / c - sh / c;
  printf("quad tchi=%s  (es=%.17g lib _es=%.17g)\n", c11::qstr(tq).c_str(), (double)es, L._es);
  double dpsi = L.Dasinh(tchi, L._tchi0, hypot(1.0, tchi), L._scchi0) * (tchi - L._tchi0); printf("dpsi at the origin = %.3g  -> rho0*n*dpsi = %.3g\n", dpsi, L._nrho0 * dpsi);
  // a nearby point
  double lat = l + 1e-9; Math::sincosd(-lat, sphi, cphi); tphi = sphi / cphi; scphi = 1 / cphi; shxi = sinh(Math::eatanhe(sphi, L._es)); tchi = hypot(1.0, shxi) * tphi - shxi * scphi;
  s = sinq(Q(-lat) * c11::PIq / 180); c = cosq(Q(-lat) * c11::PIq / 180); xi = -es * atanq(es * s); sh = sinhq(xi); tq = sqrtq(1 + sh * sh) * s / c - sh / c;
  printf("nearby: tchi=%.17g quad %s rel %.3g\n", tchi, c11::qstr(tq).c_str(), (double)(Q(tchi) / tq - 1));
} } xx;
