# prototype of the spec oracle: direct geodesic from defining integrals by periodic trapezoid Fourier quadrature
from mpmath import mp, mpf, sin, cos, atan2, sqrt, pi, hypot, radians, degrees, fsum
import subprocess, sys
mp.prec = 160
def fourier_cos_coeffs(g, N):
    # g even, pi-periodic in sigma: g(s) = a0 + sum a_l cos(2 l s); returns a_0..a_{N/2-1} via trapezoid with N pts on [0,pi)
    vals = [g(pi*j/N) for j in range(N)]
    a = []
    for l in range(N//2):
        c = fsum(vals[j]*cos(2*l*pi*j/N) for j in range(N))/N
        a.append(c if l==0 else 2*c)
    return a
def integ(a, s):  # int_0^s of series
    return a[0]*s + fsum(a[l]*sin(2*l*s)/(2*l) for l in range(1,len(a)))
def direct(a_, f, lat1, lon1, azi1, s12, N=64):
    b = a_*(1-f); e2 = f*(2-f); ep2 = e2/(1-f)**2
    phi=radians(mpf(lat1)); al1=radians(mpf(azi1))
    sbet1=(1-f)*sin(phi); cbet1=cos(phi); h=hypot(sbet1,cbet1); sbet1/=h; cbet1/=h
    salp1=sin(al1); calp1=cos(al1)
    salp0=salp1*cbet1; calp0=hypot(calp1,salp1*sbet1)
    sig1=atan2(sbet1, calp1*cbet1); omg1=atan2(salp0*sbet1, calp1*cbet1)
    k2=calp0**2*ep2
    I1c=fourier_cos_coeffs(lambda s: sqrt(1+k2*sin(s)**2), N)
    I3c=fourier_cos_coeffs(lambda s: (2-f)/(1+(1-f)*sqrt(1+k2*sin(s)**2)), N)
    # solve s/b = I1(sig2)-I1(sig1)
    target = mpf(s12)/b + integ(I1c,sig1)
    sig2 = sig1 + mpf(s12)/(b*I1c[0])
    for _ in range(60):
        d = (integ(I1c,sig2)-target)/sqrt(1+k2*sin(sig2)**2)
        sig2 -= d
        if abs(d) < mpf(10)**-40: break
    ssig2=sin(sig2); csig2=cos(sig2)
    sbet2=calp0*ssig2; cbet2=hypot(salp0, calp0*csig2)
    # omg2 continuous with sig2
    E = 1 if salp0>=0 else -1
    omg2 = E*(sig2 - (atan2(ssig2,csig2)-atan2(E*salp0*ssig2, csig2)))
    omg1c = E*(sig1 - (atan2(sin(sig1),cos(sig1))-atan2(E*salp0*sin(sig1), cos(sig1))))
    lam12 = (omg2-omg1c) - f*salp0*(integ(I3c,sig2)-integ(I3c,sig1))
    lat2 = degrees(atan2(sbet2, (1-f)*cbet2)); lon2 = mpf(lon1)+degrees(lam12); azi2=degrees(atan2(salp0, calp0*csig2))
    return lat2, lon2, azi2, I1c
import random
random.seed(3)
worst=0
for (a_,f) in [(6378137, 1/298.257223563),(6.4e6,0.02),(6.4e6,-0.02),(6.4e6,0.01)]:
  for it in range(12):
    lat1=random.uniform(-89,89); azi1=random.uniform(-180,180); s12=random.uniform(-3e7,6e7)
    out = subprocess.run(["/repo/_build/tools/GeodSolve","-e",repr(a_),repr(f),"-u","-p","12"],input=f"{lat1!r} 0 {azi1!r} {s12!r}\n",capture_output=True,text=True).stdout.split()
    l2,o2,z2,_=direct(mpf(a_),mpf(f),lat1,0,azi1,s12)
    dlat=abs(mpf(out[0])-l2); dlon=abs(mpf(out[1])-o2)*abs(cos(radians(l2))); daz=abs(mpf(out[2])-z2)
    err_m = float(max(dlat,dlon)*pi/180*a_)
    worst=max(worst,err_m)
    print(f"f={f:.5f} lat1={lat1:.3f} azi1={azi1:.3f} s12={s12:.0f}: pos err {err_m*1e9:.2f} nm  azi err {float(daz)*3600e6:.3f} uas")
print("worst pos err nm", worst*1e9)
# convergence of Fourier coefficients
_,_,_,c = direct(mpf(6.4e6),mpf(0.02),30,0,40,1e7,N=64); print("I1 coeff decay:", [float(abs(x)) for x in c[:12]])
