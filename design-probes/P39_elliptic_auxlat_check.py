from mpmath import mp, mpf, ellipf, ellipe, ellippi, ellipk, ellipfun, sin, cos, tan, atan, atanh, asinh, sinh, sqrt, pi, radians, degrees, quad, findroot, floor, log, atan2
mp.dps=40
W={}
def upd(key,got,ref,scale=None,info=None):
    if not (abs(ref)<mpf(10)**300): return
    s = max(abs(ref), mpf(10)**-300) if scale is None else scale
    u=float(abs(got-ref)/s/mpf(2)**-52)
    if u>W.get(key,(0,))[0]: W[key]=(u,info)
for line in open('el2.txt'):
    t=line.split(); tag=t[0]; v=[mpf(x) for x in t[1:]]
    if tag=='E':
        k2,al2,phi,F,E,D,Pi,K,Ec,Pic,x,sn,cn,dn,Einv,am,Ed=v
        info=(float(k2),float(al2),float(phi))
        upd('F',F,ellipf(phi,k2),info=info); upd('E',E,ellipe(phi,k2),info=info)
        if k2!=0: upd('D',D,(ellipf(phi,k2)-ellipe(phi,k2))/k2, scale=max(abs((ellipf(phi,k2)-ellipe(phi,k2))/k2),abs(ellipf(phi,k2)/k2)*mpf(2)**-3), info=info)
        upd('Pi',Pi,ellippi(al2,phi,k2),info=info)
        upd('K',K,ellipk(k2),info=info); upd('Ec',Ec,ellipe(k2),info=info); upd('Pic',Pic,ellippi(al2,k2),info=info)
        upd('sn',sn,ellipfun('sn',x,m=k2),scale=1,info=(float(k2),float(x))); upd('cn',cn,ellipfun('cn',x,m=k2),scale=1,info=(float(k2),float(x))); upd('dn',dn,ellipfun('dn',x,m=k2),scale=max(1,abs(ellipfun('dn',x,m=k2))),info=(float(k2),float(x)))
        upd('Einv',Einv,phi,scale=max(1,abs(phi)),info=info)
        upd('Ed',Ed,E,info=info)
    else:
        f,lat,beta,theta,mu,chi,xi,Q,A,M,psi=v
        a=mpf(6378137); b=a*(1-f); e2=f*(2-f); phi=radians(lat); info=(float(f),float(lat))
        if abs(lat)==90: continue
        def tanrel(got,reftan,key):
            g=tan(radians(got)); upd(key,g,reftan,info=info)
        tanrel(beta,(1-f)*tan(phi),'beta'); tanrel(theta,(1-f)**2*tan(phi),'theta')
        es = sqrt(abs(e2)); sp=sin(phi)
        eat = es*atanh(es*sp) if f>0 else (-es*atan(es*sp) if f<0 else 0)
        tanrel(chi, sinh(asinh(tan(phi))-eat),'chi')
        upd('psi',psi, degrees(asinh(tan(phi))-eat), info=info)
        # authalic
        def q(s):
            if f==0: return 2*s
            return (1-e2)*( s/(1-e2*s*s) + (atanh(es*s)/es if f>0 else atan(es*s)/es) )
        sxi = q(sp)/q(mpf(1)); tanrel(xi, sxi/sqrt(1-sxi*sxi),'xi')
        # rectifying
        md = quad(lambda t: a*(1-e2)/(1-e2*sin(t)**2)**mpf(1.5), [0,phi]); qm = quad(lambda t: a*(1-e2)/(1-e2*sin(t)**2)**mpf(1.5), [0,pi/2])
        upd('merid',M,md,scale=max(abs(md),mpf(1e-300)),info=info); upd('quarter',Q,qm,info=info)
        tanrel(mu, tan(md/qm*pi/2),'mu')
        area = 2*pi*a*a*q(mpf(1)) if True else 0
        upd('area',A,area,info=info)
for k,v in sorted(W.items()): print("%-8s worst %.1f ulp at %s"%(k,v[0],v[1]))
