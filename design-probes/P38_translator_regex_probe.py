import re, subprocess, sys
def pre(path):
    return subprocess.run(["g++","-E","-P","-I/repo/include","-I/repo/_build/include",path],capture_output=True,text=True).stdout
def arrays_in_function(text, funcname):
    # find 'funcname(' definition then first 'static const real NAME[] = { ... };' blocks inside its body
    m = re.search(r'\b'+re.escape(funcname)+r'\s*\([^)]*\)\s*(const\s*)?\{', text)
    if not m: return None
    i = m.end(); depth=1; j=i
    while depth and j < len(text):
        if text[j]=='{': depth+=1
        elif text[j]=='}': depth-=1
        j+=1
    body=text[i:j]
    out={}
    for a in re.finditer(r'static\s+const\s+(?:real|int|short)\s+(\w+)\s*\[\s*\]\s*=\s*\{([^}]*)\}', body):
        vals=[v.strip() for v in a.group(2).split(',') if v.strip()]
        out[a.group(1)]=vals
    return out
g=pre("/repo/src/Geodesic.cpp")
for fn in ["Geodesic::A1m1f","Geodesic::C1f","Geodesic::C1pf","Geodesic::A2m1f","Geodesic::C2f","Geodesic::A3coeff","Geodesic::C3coeff","Geodesic::C4coeff"]:
    r=arrays_in_function(g,fn); print(fn, {k:(len(v), v[:6]) for k,v in (r or {}).items()})
t=pre("/repo/src/TransverseMercator.cpp")
r=arrays_in_function(t,"TransverseMercator::TransverseMercator"); print("TM ctor", {k:(len(v), v[:5]) for k,v in (r or {}).items()})
a=pre("/repo/src/AuxLatitude.cpp")
r=arrays_in_function(a,"AuxLatitude::fillcoeff"); print("AuxLat fillcoeff", {k:(len(v), v[:8]) for k,v in (r or {}).items()})
rh=pre("/repo/src/Rhumb.cpp"); r=arrays_in_function(rh,"Rhumb::AreaCoeffs"); print("Rhumb", {k:(len(v), v[:6]) for k,v in (r or {}).items()})
gx=pre("/repo/src/GeodesicExact.cpp"); r=arrays_in_function(gx,"GeodesicExact::GeodesicExact"); print("GeodesicExact ctor", {k:(len(v), v[:6]) for k,v in (r or {}).items()})
ge=pre("/repo/src/Geoid.cpp")
for name in ["c0_","c0n_","c0s_"]:
    m=re.search(r'const\s+int\s+Geoid::'+name+r'\s*=\s*(\d+)',ge); print(name, m.group(1) if m else None)
for name in ["c3_","c3n_","c3s_"]:
    m=re.search(r'const\s+int\s+Geoid::'+name+r'\s*\[[^\]]*\]\s*=\s*\{([^}]*)\}',ge); print(name, len([v for v in m.group(1).split(',') if v.strip()]) if m else None)
mg=pre("/repo/src/MGRS.cpp")
for name in ["utmcols_","utmrow_","upscols_","upsrows_","latband_","upsband_","digits_","alpha_"]:
    m=re.search(r'MGRS::'+name+r'(?:\s*\[\s*\])?\s*=\s*([^;]*);',mg); print(name, m.group(1).strip()[:70] if m else None)
hp=open("/repo/include/GeographicLib/MGRS.hpp").read()
print({m.group(1):m.group(2).strip() for m in re.finditer(r'static\s+constexpr\s+int\s+(\w+)\s*=\s*([^;]+);',hp)})
gh=open("/repo/include/GeographicLib/Geodesic.hpp").read()
print(re.findall(r'(\w+)\s*=\s*(1U<<\d+(?:\s*\|\s*\w+)*|0x[0-9A-Fa-f]+U|0U),', gh)[:24])
d=pre("/repo/src/DMS.cpp"); print(len(re.findall(r'replace\(dmsa,\s*"((?:[^"\\]|\\.)*)",\s*(\'(?:[^\'\\]|\\.)\')\s*\)', d)), "DMS replace calls")
