import sympy as sp
k2=sp.symbols('k2')
s1,c1,d1,s2,c2,d2,s3,c3,d3,J12,J23=sp.symbols('s1 c1 d1 s2 c2 d2 s3 c3 d3 J12 J23')
def m(sa,ca,da,sb,cb,db,J): return (db*(ca*sb)-da*(sa*cb))-ca*cb*J
def t(sa,da,sb,db): return k2*(sb-sa)*(sb+sa)/(da+db)
def M12(sa,ca,da,sb,cb,db,J): return (ca*cb+sa*sb)+(t(sa,da,sb,db)*sb-cb*J)*sa/da
def M21(sa,ca,da,sb,cb,db,J): return (ca*cb+sa*sb)-(t(sa,da,sb,db)*sa-ca*J)*sb/db
import random
def check(expr):
    # numeric check on the variety
    worst=0
    for _ in range(20):
        sg=[random.uniform(-3,3) for _ in range(3)]; kk=random.uniform(-0.9,5)
        sub={k2:kk,J12:random.uniform(-1,1),J23:random.uniform(-1,1)}
        for (s,c,d,x) in ((s1,c1,d1,sg[0]),(s2,c2,d2,sg[1]),(s3,c3,d3,sg[2])):
            sub[s]=sp.sin(x); sub[c]=sp.cos(x); sub[d]=sp.sqrt(1+kk*sp.sin(x)**2)
        worst=max(worst,abs(sp.N(expr.subs(sub))))
    return worst
m12=m(s1,c1,d1,s2,c2,d2,J12); m23=m(s2,c2,d2,s3,c3,d3,J23); m13=m(s1,c1,d1,s3,c3,d3,J12+J23)
A=M12(s1,c1,d1,s2,c2,d2,J12); B=M21(s1,c1,d1,s2,c2,d2,J12); C=M12(s2,c2,d2,s3,c3,d3,J23); D=M21(s2,c2,d2,s3,c3,d3,J23)
A13=M12(s1,c1,d1,s3,c3,d3,J12+J23); B13=M21(s1,c1,d1,s3,c3,d3,J12+J23)
print('m add:',check(m13-(m12*C+m23*B)))
print('M12 add:',check((A13-(A*C-(1-A*B)*m23/m12))))
print('M21 add:',check((B13-(B*D-(1-C*D)*m12/m23))))
print('rev:',check(M12(s1,c1,d1,s2,c2,d2,J12)-M21(s2,c2,d2,s1,c1,d1,-J12)), check(m(s1,c1,d1,s2,c2,d2,J12)+m(s2,c2,d2,s1,c1,d1,-J12)))
N=(d2*s1*c2-d1*c1*s2+s1*s2*J12)/(d1*d2)
print('wr:',check(1-A*B - m12*(-N)), check(1-A*B-m12*N))
