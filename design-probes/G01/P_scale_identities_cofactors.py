import sympy as sp
s1,c1,d1,s2,c2,d2,s3,c3,d3,J12,J23=sp.symbols('s1 c1 d1 s2 c2 d2 s3 c3 d3 J12 J23')
def m(sa,ca,da,sb,cb,db,J): return (db*(ca*sb)-da*(sa*cb))-ca*cb*J
def M12(sa,ca,da,sb,cb,db,J): return (ca*cb+sa*sb)+((db-da)*sb-cb*J)*sa/da
def M21(sa,ca,da,sb,cb,db,J): return (ca*cb+sa*sb)-((db-da)*sa-ca*J)*sb/db
u1=s1**2+c1**2-1;u2=s2**2+c2**2-1;u3=s3**2+c3**2-1
rels=[u1,u2,u3]
vars_=[c1,c2,c3,s1,s2,s3,d1,d2,d3,J12,J23]
def go(name,expr):
    n,d=sp.fraction(sp.together(expr)); n=sp.expand(n)
    q,r=sp.reduced(n,rels,*vars_,order='lex')
    print(name,'rem=',r,' denom=',sp.factor(d))
    for qi,nm in zip(q,['u1','u2','u3']): print('   ',nm,':',sp.factor(qi))
m12=m(s1,c1,d1,s2,c2,d2,J12); m23=m(s2,c2,d2,s3,c3,d3,J23); m13=m(s1,c1,d1,s3,c3,d3,J12+J23)
A=M12(s1,c1,d1,s2,c2,d2,J12); B=M21(s1,c1,d1,s2,c2,d2,J12); C=M12(s2,c2,d2,s3,c3,d3,J23); D=M21(s2,c2,d2,s3,c3,d3,J23)
A13=M12(s1,c1,d1,s3,c3,d3,J12+J23)
go('madd',m13-(m12*C+m23*B))
go('Madd',(A13*m12-(A*C*m12-(1-A*B)*m23)))
N=(d2*s1*c2-d1*c1*s2+s1*s2*J12)/(d1*d2)
go('wr',1-A*B+m12*N)
