#include "geodcommon.hpp"
#include "C01_routes.hpp"
#include <chrono>
using namespace gd; using namespace gv; using namespace routes;
int main(){
  Rng r(11);
  double bas[] = {0.01,0.05,0.25,0.5,0.9966,1.02,2,4,20,100};
  for(double ba: bas){
    double f = 1-ba, a=6.4e6; double big=std::fmax(a,a*ba);
    double w[8]={0}; int n=30; double tq=0,to=0; int nc=0;
    for(int i=0;i<n;i++){
      double lat1=r.range(-90,90), azi1=r.range(-180,180), lon1=r.range(-180,180);
      bool arc=i%2; double len = arc? r.range(-800,800): r.range(-12,12)*big;
      if (ba<0.1||ba>10) len/=4;
      auto t0=std::chrono::steady_clock::now();
      QLine Q(a,f,lat1,lon1,azi1); auto q=Q.position(arc,len);
      auto t1=std::chrono::steady_clock::now();
      oracle::Line L(a,f,lat1,lon1,azi1); auto p=L.position(arc,len);
      auto t2=std::chrono::steady_clock::now();
      tq+=std::chrono::duration<double,std::milli>(t1-t0).count(); to+=std::chrono::duration<double,std::milli>(t2-t1).count();
      if(!std::isfinite((double)q.a12)){nc++;continue;}
      auto rel=[&](long double x,long double y,long double sc){return (double)(fabsl(x-y)/sc);};
      w[0]=std::fmax(w[0],rel(q.a12,p.a12,1+fabsl(p.a12))); w[1]=std::fmax(w[1],rel(q.lat2,p.lat2,90)); w[2]=std::fmax(w[2],rel(q.lon12,p.lon12,1+fabsl(p.lon12)));
      w[3]=std::fmax(w[3],rel(q.s12,p.s12,big)); w[4]=std::fmax(w[4],rel(q.m12,p.m12,big)); w[5]=std::fmax(w[5],rel(q.M12,p.M12,1+fabsl(p.M12))); w[6]=std::fmax(w[6],rel(q.M21,p.M21,1+fabsl(p.M21)));
      w[7]=std::fmax(w[7],rel(q.S12,p.S12,a*big));
    }
    printf("b/a=%g a12 %.1e lat %.1e lon %.1e s %.1e m %.1e M12 %.1e M21 %.1e S %.1e | noconv %d | ms Q %.2f  old %.2f\n",ba,w[0],w[1],w[2],w[3],w[4],w[5],w[6],w[7],nc,tq/n,to/n);
  }
}
