#include "geodcommon.hpp"
#include <chrono>
using namespace gd; using namespace gv;
typedef long double LD;
static void xyz(LD a, LD f, LD lat, LD lon, LD p[3]){ using namespace oracle; LD e2=f*(2-f); LD sp=sinl(lat*DEG), cp=cosl(lat*DEG); LD N=a/sqrtl(1-e2*sp*sp); p[0]=N*cp*cosl(lon*DEG); p[1]=N*cp*sinl(lon*DEG); p[2]=N*(1-e2)*sp; }
static LD chord(LD a, LD f, LD lat1, LD lon1, LD lat2, LD lon2){ LD p[3],q[3]; xyz(a,f,lat1,lon1,p); xyz(a,f,lat2,lon2,q); return hypotl(hypotl(p[0]-q[0],p[1]-q[1]),p[2]-q[2]); }
static double tab(double ba){ // doc table, log-interpolated between rows by taking the next-more-extreme row
  static const double q[]={1,2,4,8,16,32,64,128}; static const double ob[]={15,36,69,115,210,269,345,387}, pr[]={15,25,96,318,985,2352,6008,19024};
  double x = ba<1? 1/ba: ba; for(int i=0;i<8;i++) if(x<=q[i]*1.0005) return (ba<1?ob:pr)[i]*1e-9; return NAN; }
int main(){
  Rng r(7);
  double bas[] = {0.01,0.02,0.05,0.1,0.25,0.5,2,4,10,20,50,100};
  for(double ba: bas){
    double f = 1-ba, a=6.4e6; GeodesicExact E(a,f);
    oracle::Line M(a,f,0,0,0); double Q=double(M.b*M.I1(0,oracle::PI/2));
    double worst=0, worsta=0; int n=60;
    for(int i=0;i<n;i++){
      double lat1=r.range(-90,90), azi1=r.range(-180,180), lon1=r.range(-180,180);
      bool arc=i%2; double len = arc? r.range(-400,400): r.range(-2,2)*std::fmax(a,a*ba)*3;
      oracle::Line L(a,f,lat1,lon1,azi1); auto p=L.position(arc,len);
      double lat2,lon2,azi2,s12,m12,M12,M21,S12; double a12=E.GenDirect(lat1,lon1,azi1,arc,len,GeodesicExact::ALL|GeodesicExact::LONG_UNROLL,lat2,lon2,azi2,s12,m12,M12,M21,S12);
      double tol = 4*tab(ba)*Q/1e7*std::fmax(1.0,std::fabs((double)p.a12)/180);
      double d=(double)chord(a,f,lat2,lon2,p.lat2,lon1+p.lon12);
      worst=std::fmax(worst,d/tol);
      double da = arc? std::fabs(s12-(double)p.s12) : std::fabs(a12-(double)p.a12)*M_PI/180*double(L.b*L.dn(p.sig2));
      worsta=std::fmax(worsta,da/tol);
    }
    printf("b/a=%g  pos/tol %.3g  len/tol %.3g   Q=%.4g tol1=%.3g\n",ba,worst,worsta,Q,4*tab(ba)*Q/1e7);
  }
}
