import GeoVerif.Series.TMSeries
open GeoVerif.Series GeoVerif.Series.TMS GeoVerif
theorem t1 : checkRevertGF = true := by decide +kernel
