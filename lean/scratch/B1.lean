import GeoVerif.Proofs.ConicInit
namespace GeoVerif.Proofs.ConicInit
open GeoVerif GeoVerif.Conic GeoVerif.Proofs.Conic GeoVerif.Proofs.ConicDD

/-- `sec φ = 1/cos φ` from a sine/cosine pair -/
theorem hyp_tan (s c : ℝ) (hc : 0 < c) (hsc : s ^ 2 + c ^ 2 = 1) : hyp (s / c) = 1 / c := by
  rw [hyp_real]
  have : 1 + (s / c) ^ 2 = (1 / c) ^ 2 := by field_simp; linarith
  rw [this, Real.sqrt_sq (by positivity)]

theorem albRatio_eq (sphi cphi sxi cxi : ℝ) (hc : 0 < cphi) (hsc : sphi ^ 2 + cphi ^ 2 = 1) (hx : sxi ^ 2 + cxi ^ 2 = 1) (hcx : 0 < cxi) :
    albRatio sphi cphi sxi cxi = (1 - sxi) / (1 - sphi) := by
  have h1 : sphi < 1 := by nlinarith
  have h1' : -1 < sphi := by nlinarith
  have h2 : sxi < 1 := by nlinarith
  have h2' : -1 < sxi := by nlinarith
  unfold albRatio
  simp only [leb_real, zero_real, one_real, sq_real]
  by_cases h : sphi ≤ 0
  · simp only [h, decide_true, if_true]
  · simp only [h, decide_false, Bool.false_eq_true, if_false]
    have e1 : (1 : ℝ) - sphi ≠ 0 := by linarith
    have e2 : (1 : ℝ) + sxi ≠ 0 := by linarith
    rw [div_eq_div_iff e2 e1]
    have hcx2 : cxi ^ 2 = (1 - sxi) * (1 + sxi) := by linear_combination hx
    have hc2 : cphi ^ 2 = (1 - sphi) * (1 + sphi) := by linear_combination hsc
    rw [div_pow, hcx2, hc2]
    have e3 : (1 : ℝ) + sphi ≠ 0 := by linarith
    field_simp

theorem albOneMinus_eq (sphi cphi : ℝ) (hsc : sphi ^ 2 + cphi ^ 2 = 1) (hc : 0 < cphi) : albOneMinus sphi cphi = 1 - sphi := by
  have h1' : -1 < sphi := by nlinarith
  unfold albOneMinus
  simp only [leb_real, zero_real, one_real, sq_real]
  by_cases h : sphi ≤ 0
  · simp only [h, decide_true, if_true]
  · simp only [h, decide_false, Bool.false_eq_true, if_false]
    have e3 : (1 : ℝ) + sphi ≠ 0 := by linarith
    rw [div_eq_iff e3]
    linear_combination hsc
end GeoVerif.Proofs.ConicInit
