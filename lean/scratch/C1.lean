import GeoVerif.Proofs.ConicInit
namespace GeoVerif.Proofs.ConicInit
open GeoVerif GeoVerif.Conic GeoVerif.Proofs.Conic GeoVerif.Proofs.ConicDD

/-- `Datanhee` on a prolate ellipsoid (`f < 0`, `e = √(−e²) > 0`) is the divided difference of `atanhee x = atan(e x)/e` for *every*
    pair `x ≠ y` (the `x·y < 0` guard of the code takes care of the branch of the arctangent) -/
theorem Datanhee_dd_prolate (f e x y : ℝ) (hf : f < 0) (he : 0 < e) (hxy : x ≠ y) :
    Datanhee f (-(e ^ 2)) e x y = (atanhee f e x - atanhee f e y) / (x - y) := by
  have h2 : x - y ≠ 0 := sub_ne_zero.mpr hxy
  have hnf : ¬ (0 < f) := not_lt.mpr hf.le
  unfold Datanhee atanhee
  simp only [eqb_real, ltb_real, zero_real, one_real, atan_real, hf, hnf, h2, decide_true, decide_false, if_true, Bool.false_eq_true, if_false]
  by_cases hneg : x * y < 0
  · simp only [hneg, decide_true, if_true]
  · simp only [hneg, decide_false, Bool.false_eq_true, if_false]
    have hnn : 0 ≤ x * y := not_lt.mp hneg
    have hadd : Real.arctan (e * x) - Real.arctan (e * y) = Real.arctan ((e * x - e * y) / (1 + e * x * (e * y))) := by
      have hlt : e * x * -(e * y) < 1 := by
        have : e * x * -(e * y) = -(e ^ 2 * (x * y)) := by ring
        rw [this]; have : 0 ≤ e ^ 2 * (x * y) := by positivity
        linarith
      have h := Real.arctan_add (x := e * x) (y := -(e * y)) hlt
      rw [Real.arctan_neg] at h
      have e' : (e * x + -(e * y)) / (1 - e * x * -(e * y)) = (e * x - e * y) / (1 + e * x * (e * y)) := by
        congr 1 <;> ring
      rw [e'] at h
      linarith
    have earg : e * ((x - y) / (1 - -(e ^ 2) * x * y)) = (e * x - e * y) / (1 + e * x * (e * y)) := by
      have : 1 - -(e ^ 2) * x * y = 1 + e * x * (e * y) := by ring
      rw [this]; ring
    rw [earg, ← hadd]
    have hene : e ≠ 0 := he.ne'
    field_simp

/-- on a sphere (`f = 0`, `e² = 0`) `atanhee` is the identity and `Datanhee` is 1 -/
theorem Datanhee_dd_sphere (e x y : ℝ) (hxy : x ≠ y) :
    Datanhee 0 0 e x y = (atanhee 0 e x - atanhee 0 e y) / (x - y) := by
  have h2 : x - y ≠ 0 := sub_ne_zero.mpr hxy
  unfold Datanhee atanhee
  simp only [eqb_real, ltb_real, zero_real, one_real, h2, lt_irrefl, decide_false, Bool.false_eq_true, if_false]
  by_cases hneg : x * y < 0
  · simp only [hneg, decide_true, if_true]
  · simp only [hneg, decide_false, Bool.false_eq_true, if_false]
    field_simp
    ring

/-- **`txif` is the authalic tangent for any ellipsoid on which `Datanhee(1, ±sin φ)` are divided differences of an odd `atanhee`**:
    `Q/√(QZ² − Q²)` with `Q(s) = s/(1 − e² s²) + atanhee(s)`, `QZ = 1/(1 − e²) + atanhee(1)` -/
theorem txif_of_dd (E : Ell ℝ) (tphi : ℝ) (hem : E.e2m ≠ 0) (hw : 1 - E.e2 * (tphi / hyp tphi) ^ 2 ≠ 0)
    (hD1 : E.Datanhee 1 (tphi / hyp tphi) = (E.atanhee 1 - E.atanhee (tphi / hyp tphi)) / (1 - tphi / hyp tphi))
    (hD2 : E.Datanhee 1 (-(tphi / hyp tphi)) = (E.atanhee 1 + E.atanhee (tphi / hyp tphi)) / (1 + tphi / hyp tphi))
    (hQ : (tphi / hyp tphi / (1 - E.e2 * (tphi / hyp tphi) ^ 2) + E.atanhee (tphi / hyp tphi)) ^ 2 <
          (1 / E.e2m + E.atanhee 1) ^ 2) :
    txif E tphi =
      (tphi / hyp tphi / (1 - E.e2 * (tphi / hyp tphi) ^ 2) + E.atanhee (tphi / hyp tphi)) /
        Real.sqrt ((1 / E.e2m + E.atanhee 1) ^ 2 -
          (tphi / hyp tphi / (1 - E.e2 * (tphi / hyp tphi) ^ 2) + E.atanhee (tphi / hyp tphi)) ^ 2) := by
  have hh := hyp_sq tphi; have hp := hyp_pos tphi; have hlt := abs_lt_hyp tphi
  set s := tphi / hyp tphi with hs
  clear_value s
  have hem' : E.e2m = 1 - E.e2 := by unfold Ell.e2m; simp only [one_real]
  have hsabs : |s| < 1 := by
    rw [hs, abs_div, abs_of_pos hp]; exact (div_lt_one hp).mpr hlt
  obtain ⟨hs1, hs2⟩ := abs_lt.mp hsabs
  have hc : (1 : ℝ) / Real.sqrt (1 + tphi ^ 2) = 1 / hyp tphi := by rw [hyp_real]
  have hcs : s ^ 2 + (1 / hyp tphi) ^ 2 = 1 := by
    rw [hs]; field_simp; linarith
  set Q := s / (1 - E.e2 * s ^ 2) + E.atanhee s with hQdef
  set QZ := 1 / E.e2m + E.atanhee 1 with hQZdef
  clear_value Q QZ
  have hpos : 0 < QZ ^ 2 - Q ^ 2 := by linarith
  unfold txif
  simp only [one_real, sq_real, sqrt_real]
  rw [hc]
  have hsp : tphi * (1 / hyp tphi) = s := by rw [hs]; ring
  rw [hsp, hD1, hD2]
  have hw' : 1 - E.e2 * s * s ≠ 0 := by
    have : 1 - E.e2 * s * s = 1 - E.e2 * s ^ 2 := by ring
    rw [this]; exact hw
  have hA : (1 + E.e2 * s) / (E.e2m * (1 - E.e2 * s * s)) + (E.atanhee 1 - E.atanhee s) / (1 - s) = (QZ - Q) / (1 - s) := by
    rw [hQdef, hQZdef]
    have h1s : (1 : ℝ) - s ≠ 0 := by linarith
    field_simp
    rw [hem']
    ring
  have hB : (1 - E.e2 * s) / (E.e2m * (1 - E.e2 * s * s)) + (E.atanhee 1 + E.atanhee s) / (1 + s) = (QZ + Q) / (1 + s) := by
    rw [hQdef, hQZdef]
    have h1s : (1 : ℝ) + s ≠ 0 := by linarith
    field_simp
    rw [hem']
    ring
  rw [hA, hB]
  have hN : tphi / (1 - E.e2 * s * s) + E.atanhee s / (1 / hyp tphi) = Q * hyp tphi := by
    rw [hQdef, hs]
    rw [hs] at hw hw'
    field_simp
  rw [hN]
  have hprod : (QZ - Q) / (1 - s) * ((QZ + Q) / (1 + s)) = (QZ ^ 2 - Q ^ 2) * hyp tphi ^ 2 := by
    have h1 : (1 : ℝ) - s ≠ 0 := by linarith
    have h2 : (1 : ℝ) + s ≠ 0 := by linarith
    have hc2 : (1 - s) * (1 + s) = (1 / hyp tphi) ^ 2 := by linear_combination -hcs
    rw [div_mul_div_comm, hc2]
    field_simp
    ring
  rw [hprod, Real.sqrt_mul hpos.le, Real.sqrt_sq hp.le]
  have hsq : Real.sqrt (QZ ^ 2 - Q ^ 2) ≠ 0 := (Real.sqrt_pos.mpr hpos).ne'
  field_simp
end GeoVerif.Proofs.ConicInit
