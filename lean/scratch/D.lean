import GeoVerif.Props.C19
import GeoVerif.Proofs.HarmonicGlue
namespace Scratch
open GeoVerif GeoVerif.Harmonic GeoVerif.Proofs.Harmonic GeoVerif.Props.C19

/-- the second coefficient set of `_disturbing`: `SphericalHarmonic1(_cCx, _sSx, N, nmx, mmx, _zonal, _zonal, nmx1, nmx1, 0, …)`, `nmx1 = |_zonal| − 1` -/
def zonalSet (Z : List ℝ) : Coeff ℝ := ⟨(Z.length : Int) - 1, (Z.length : Int) - 1, 0, Z, Z⟩

theorem disturbing_coeff (c0 : Coeff ℝ) (Z : List ℝ) (sc : ℝ) (n m : ℕ) :
    combC 0 [(c0, 1), (zonalSet Z, -1)] sc n m = (c0.cv0 0 (index c0.N n m) - (if m = 0 ∧ n < Z.length then Z.getD n 0 else 0)) * sc ∧
    (1 ≤ m → combS 0 [(c0, 1), (zonalSet Z, -1)] sc n m = c0.sv0 0 (index c0.N n m) * sc) := by
  constructor
  · rw [combC_two]
    by_cases h : m = 0 ∧ n < Z.length
    · obtain ⟨hm, hn⟩ := h
      subst hm
      have h1 : ((n : Int) ≤ (zonalSet Z).nmx ∧ ((0 : ℕ) : Int) ≤ (zonalSet Z).mmx) := ⟨by simp only [zonalSet]; omega, by simp [zonalSet]⟩
      have h2 : ¬ ((n : Int) < 0) := by omega
      rw [if_pos h1, if_pos ⟨rfl, hn⟩]
      simp [Coeff.cv0, index, getI, zonalSet, h2, sub_eq_add_neg]
    · have h1 : ¬ ((n : Int) ≤ (zonalSet Z).nmx ∧ (m : Int) ≤ (zonalSet Z).mmx) := by
        simp only [zonalSet]
        intro ⟨ha, hb⟩; apply h; constructor <;> omega
      rw [if_neg h1, if_neg h]
      ring
  · intro hm
    have hgt : (m : Int) > (zonalSet Z).mmx := by simp only [zonalSet]; omega
    simp [combS, Coeff.sv, hgt]

theorem valuePt_sub (full : Bool) (P : Pt ℝ) (N M : ℕ) (cC cZ cS : ℕ → ℕ → ℝ) (sc : ℝ) :
    valuePt full P N M (fun n m => cC n m - cZ n m) cS sc = valuePt full P N M cC cS sc - valuePt full P N M cZ (fun _ _ => 0) sc := by
  simp only [value_is_series_alg]
  rw [← mul_sub, ← Finset.sum_sub_distrib]
  congr 1
  apply Finset.sum_congr rfl
  intro m _
  rw [← Finset.sum_sub_distrib]
  apply Finset.sum_congr rfl
  intro l _
  ring

theorem normalU_eq_V0_add_Phi (GM omega a b E u sbet cbet X Y : ℝ) (hp : X ^ 2 + Y ^ 2 = (u ^ 2 + E ^ 2) * cbet ^ 2) :
    normalU GM omega a b E u sbet cbet = normalV0 GM omega a b E u sbet + phiRot omega X Y := by
  unfold normalU normalV0 phiRot
  simp only [sq_real, lit_real]
  push_cast
  linear_combination (-(omega ^ 2 / 2)) * hp

theorem j2_fixed_point_inverts_prolate (a GM omega J2 e2 : ℝ) (h1 : e2 < 1) (hres : j2ResidualProlate a GM omega J2 e2 = 0) :
    flatteningToJ2Prolate a GM omega (j2Flattening e2) = J2 := by
  obtain ⟨hf1, hf2⟩ := j2Flattening_spec e2 h1
  have hs2 : Real.sqrt (1 - e2) ^ 2 = 1 - e2 := Real.sq_sqrt (by linarith)
  unfold flatteningToJ2Prolate
  unfold j2ResidualProlate at hres
  simp only [sq_real, lit_real, sqrt_real] at hres ⊢
  push_cast at hres ⊢
  rw [hf1, hf2, hs2]
  linear_combination (1 / 3 : ℝ) * hres

instance : Fintype GcMember := ⟨{.gravity, .w, .v, .disturbance, .tGrad, .t, .sphericalAnomaly, .geoidHeight}, by intro x; cases x <;> simp⟩

theorem caps_enabled_reads_built : ∀ caps < 64, ∀ hz : Bool, ∀ m : GcMember,
    gcEnabled capTableDoc (gcEffCaps capTableDoc caps hz) m = true → gcReads m (gcBuilt capTableDoc (gcEffCaps capTableDoc caps hz)) = true := by
  decide +kernel

end Scratch
