import GeoVerif.Props.C19
namespace Scratch
open GeoVerif GeoVerif.Harmonic
theorem readDims_spec (truncate : Bool) (Nreq Mreq N0 M0 N M : Int) (h : readDims truncate Nreq Mreq N0 M0 = some (N, M)) :
    validNM N0 M0 = true ∧ (truncate = false → N = N0 ∧ M = M0) ∧ (truncate = true → validNM Nreq Mreq = true ∧ N = min Nreq N0 ∧ M = min Mreq M0) := by
  unfold readDims at h
  cases truncate <;> simp at h ⊢ <;> (obtain ⟨h1, h2⟩ := h; simp_all)

example : readDims true 2 1 3 2 = some (2, 1) ∧ readSelC 3 2 1 = [0, 1, 2, 4, 5] ∧ readSelS 3 2 1 = [0, 1] := by decide
end Scratch
