import GeoVerif.Model.HarmonicGlue
import GeoVerif.Spec.RealInst
import GeoVerif.Proofs.HarmonicGlue
import Mathlib.Tactic.Ring
import Mathlib.Tactic.Linarith
import Mathlib.Tactic.LinearCombination
import Mathlib.Tactic.FieldSimp
import Mathlib.Tactic.NormNum
import Mathlib.Tactic.Positivity
import Mathlib.Analysis.SpecialFunctions.Sqrt
import Mathlib.Analysis.SpecialFunctions.Trigonometric.ArctanDeriv
namespace Scratch
open GeoVerif GeoVerif.Harmonic

theorem degree_real : (degree : ℝ) = Real.pi / 180 := by
  simp only [degree, lit_real]; push_cast; rfl
theorem degree_pos : (0 : ℝ) < degree := by rw [degree_real]; positivity

theorem hypot_path_hasDerivAt (x y xt yt : ℝ) (h : x ^ 2 + y ^ 2 ≠ 0) :
    HasDerivAt (fun s : ℝ => Real.sqrt ((x + s * xt) ^ 2 + (y + s * yt) ^ 2)) ((x * xt + y * yt) / Real.sqrt (x ^ 2 + y ^ 2)) 0 := by
  have h1 : HasDerivAt (fun s : ℝ => (x + s * xt) ^ 2 + (y + s * yt) ^ 2) (2 * (x * xt + y * yt)) 0 := by
    have hx : HasDerivAt (fun s : ℝ => x + s * xt) xt 0 := by simpa using ((hasDerivAt_id (0 : ℝ)).mul_const xt).const_add x
    have hy : HasDerivAt (fun s : ℝ => y + s * yt) yt 0 := by simpa using ((hasDerivAt_id (0 : ℝ)).mul_const yt).const_add y
    exact ((hx.fun_pow 2).fun_add (hy.fun_pow 2)).congr_deriv (by simp; ring)
  have h2 := h1.sqrt (by simpa using h)
  refine h2.congr_deriv ?_
  simp only [zero_mul, add_zero]
  field_simp

theorem comps_Ht_is_derivative (Bx By Bz Bxt Byt Bzt : ℝ) (h : Bx ^ 2 + By ^ 2 ≠ 0) :
    HasDerivAt (fun s : ℝ => (fieldComponents (Bx + s * Bxt) (By + s * Byt) (Bz + s * Bzt) Bxt Byt Bzt).H)
      (fieldComponents Bx By Bz Bxt Byt Bzt).Ht 0 := by
  have hH : Real.sqrt (Bx ^ 2 + By ^ 2) ≠ 0 := by rw [Real.sqrt_ne_zero']; positivity
  have := hypot_path_hasDerivAt Bx By Bxt Byt h
  simpa [fieldComponents, hH] using this

end Scratch
