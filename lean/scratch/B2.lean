import Mathlib.Tactic.Ring
import Mathlib.Tactic.LinearCombination
import Mathlib.Tactic.FieldSimp
import Mathlib.Tactic.Positivity
import Mathlib.Tactic.Linarith
import Mathlib.Data.Real.Basic

/-- algebraic core of `s`, `1 − s`, `C` of `AlbersEqualArea::Init` -/
theorem alb_core_algebra (e2 fm t1 t2 s1 s2 sx1 sx2 dA dsn dd A1 A2 AZ QZ : ℝ)
    (hfm2 : fm ^ 2 = 1 - e2) (he2m : 1 - e2 ≠ 0) (hQZ : QZ ≠ 0) (hQZd : QZ = 1 / (1 - e2) + AZ)
    (hΔ : t2 - t1 ≠ 0) (hs12 : s2 - s1 ≠ 0)
    (hw1 : 1 - e2 * s1 ^ 2 ≠ 0) (hw2 : 1 - e2 * s2 ^ 2 ≠ 0)
    (hp1 : 1 + s1 ≠ 0) (hp2 : 1 + s2 ≠ 0) (hm1 : 1 - s1 ≠ 0) (hm2 : 1 - s2 ≠ 0)
    (hscb1 : (1 + (fm * t1) ^ 2) * (1 - s1 ^ 2) = 1 - e2 * s1 ^ 2) (hscb2 : (1 + (fm * t2) ^ 2) * (1 - s2 ^ 2) = 1 - e2 * s2 ^ 2)
    (hdsn : dsn * (t2 - t1) = s2 - s1) (hDA : dA * (s2 - s1) = A2 - A1)
    (hsx1 : sx1 * QZ = s1 / (1 - e2 * s1 ^ 2) + A1) (hsx2 : sx2 * QZ = s2 / (1 - e2 * s2 ^ 2) + A2)
    (hdd : dd * (s2 - s1) = (AZ - A2) / (1 - s2) - (AZ - A1) / (1 - s1)) :
    let scb12 := 1 + (fm * t1) ^ 2
    let scb22 := 1 + (fm * t2) ^ 2
    let dtbet2 := fm * (fm * t1 + fm * t2)
    let es1 := 1 - e2 * s1 ^ 2
    let es2 := 1 - e2 * s2 ^ 2
    let dsxi := ((1 + e2 * s1 * s2) / (es2 * es1) + dA) * dsn / (2 * (QZ / 2))
    let den := (sx2 + sx1) * dtbet2 + (scb22 + scb12) * dsxi
    let s := 2 * dtbet2 / den
    let sm1 := -dsn *
      (-((1 - sx2) / (1 - s2) + (1 - sx1) / (1 - s1)) * (1 + e2 * (s1 + s2 + s1 * s2)) / (1 + (s1 + s2 + s1 * s2))
        + (scb22 * (1 - s2) + scb12 * (1 - s1)) *
          (e2 * (1 + s1 + s2 + e2 * s1 * s2) / (es1 * es2) + (1 - e2) * dd) / ((1 - e2) * QZ)) / den
    dsxi * (t2 - t1) = sx2 - sx1 ∧ den * (t2 - t1) = 2 * (scb22 * sx2 - scb12 * sx1) ∧
      (scb22 * sx2 - scb12 * sx1 ≠ 0 → s = ((fm * t2) ^ 2 - (fm * t1) ^ 2) / (scb22 * sx2 - scb12 * sx1) ∧ sm1 = 1 - s) := by
  intro scb12 scb22 dtbet2 es1 es2 dsxi den s sm1
  have hdsxi : dsxi * (t2 - t1) = sx2 - sx1 := by
    have h1 : ((1 + e2 * s1 * s2) / (es2 * es1) + dA) * (s2 - s1) = (sx2 - sx1) * QZ := by
      have : (1 + e2 * s1 * s2) / (es2 * es1) * (s2 - s1) = s2 / es2 - s1 / es1 := by
        simp only [es1, es2]; field_simp; ring
      calc _ = (1 + e2 * s1 * s2) / (es2 * es1) * (s2 - s1) + dA * (s2 - s1) := by ring
        _ = _ := by rw [this, hDA]; simp only [es1, es2]; linear_combination hsx1 - hsx2
    calc dsxi * (t2 - t1) = ((1 + e2 * s1 * s2) / (es2 * es1) + dA) * (dsn * (t2 - t1)) / QZ := by
          simp only [dsxi]; field_simp
      _ = _ := by rw [hdsn, h1]; field_simp
  have hdt : dtbet2 * (t2 - t1) = scb22 - scb12 := by simp only [dtbet2, scb22, scb12]; ring
  have hden : den * (t2 - t1) = 2 * (scb22 * sx2 - scb12 * sx1) := by
    calc den * (t2 - t1) = (sx2 + sx1) * (dtbet2 * (t2 - t1)) + (scb22 + scb12) * (dsxi * (t2 - t1)) := by simp only [den]; ring
      _ = _ := by rw [hdt, hdsxi]; ring
  refine ⟨hdsxi, hden, fun hne => ?_⟩
  have hden0 : den ≠ 0 := by
    intro h; rw [h, zero_mul] at hden
    apply hne; linarith
  have hs : s = ((fm * t2) ^ 2 - (fm * t1) ^ 2) / (scb22 * sx2 - scb12 * sx1) := by
    simp only [s]
    rw [div_eq_div_iff hden0 hne]
    have : 2 * dtbet2 * (scb22 * sx2 - scb12 * sx1) * (t2 - t1) = ((fm * t2) ^ 2 - (fm * t1) ^ 2) * den * (t2 - t1) := by
      calc _ = 2 * (dtbet2 * (t2 - t1)) * (scb22 * sx2 - scb12 * sx1) := by ring
        _ = ((fm * t2) ^ 2 - (fm * t1) ^ 2) * (den * (t2 - t1)) := by rw [hdt, hden]; simp only [scb22, scb12]; ring
        _ = _ := by ring
    exact mul_right_cancel₀ hΔ this
  refine ⟨hs, ?_⟩
  -- the two factors F = scbet²(1 − sphi), R = (1 − sxi)/(1 − sphi) and their divided differences
  set σ := s1 + s2 + s1 * s2 with hσ
  have h1σ : 1 + σ = (1 + s1) * (1 + s2) := by rw [hσ]; ring
  have h1σ0 : 1 + σ ≠ 0 := by rw [h1σ]; exact mul_ne_zero hp1 hp2
  have hF1 : scb12 * (1 - s1) = es1 / (1 + s1) := by
    rw [eq_div_iff hp1]; simp only [scb12, es1]; linear_combination hscb1
  have hF2 : scb22 * (1 - s2) = es2 / (1 + s2) := by
    rw [eq_div_iff hp2]; simp only [scb22, es2]; linear_combination hscb2
  have hDF : scb22 * (1 - s2) - scb12 * (1 - s1) = -(1 + e2 * σ) / (1 + σ) * (s2 - s1) := by
    rw [hF1, hF2, h1σ, hσ]; simp only [es1, es2]; field_simp; ring
  have hR : ∀ (sx s A : ℝ), sx * QZ = s / (1 - e2 * s ^ 2) + A → 1 - e2 * s ^ 2 ≠ 0 → 1 - s ≠ 0 →
      (1 - sx) / (1 - s) * QZ = (1 + e2 * s) / ((1 - e2) * (1 - e2 * s ^ 2)) + (AZ - A) / (1 - s) := by
    intro sx s A hsx hw hm
    have : (1 - sx) * QZ = 1 / (1 - e2) + AZ - (s / (1 - e2 * s ^ 2) + A) := by rw [← hsx, ← hQZd]; ring
    calc (1 - sx) / (1 - s) * QZ = ((1 - sx) * QZ) / (1 - s) := by ring
      _ = _ := by rw [this]; field_simp; ring
  have hR1 := hR sx1 s1 A1 hsx1 hw1 hm1
  have hR2 := hR sx2 s2 A2 hsx2 hw2 hm2
  set R1 := (1 - sx1) / (1 - s1) with hR1d
  set R2 := (1 - sx2) / (1 - s2) with hR2d
  set DR := (e2 * (1 + s1 + s2 + e2 * s1 * s2) / (es1 * es2) + (1 - e2) * dd) / ((1 - e2) * QZ) with hDRd
  have hDR : R2 - R1 = DR * (s2 - s1) := by
    have e : (R2 - R1) * QZ = DR * (s2 - s1) * QZ := by
      have : DR * (s2 - s1) * QZ = e2 * (1 + s1 + s2 + e2 * s1 * s2) / (es1 * es2) * (s2 - s1) / (1 - e2) + dd * (s2 - s1) := by
        rw [hDRd]; field_simp
      rw [this, hdd]
      calc (R2 - R1) * QZ = R2 * QZ - R1 * QZ := by ring
        _ = _ := by rw [hR1, hR2]; simp only [es1, es2]; field_simp; ring
    exact mul_right_cancel₀ hQZ e
  have hFR1 : scb12 * (1 - s1) * R1 = scb12 * (1 - sx1) := by rw [hR1d]; field_simp
  have hFR2 : scb22 * (1 - s2) * R2 = scb22 * (1 - sx2) := by rw [hR2d]; field_simp
  -- sm1·den·Δ = (1 − s)·den·Δ
  have hdenΔ : den * (t2 - t1) ≠ 0 := mul_ne_zero hden0 hΔ
  have hA : sm1 * (den * (t2 - t1)) = -2 * (scb22 * (1 - sx2) - scb12 * (1 - sx1)) := by
    have e : sm1 * den = -dsn * (-(R2 + R1) * (1 + e2 * σ) / (1 + σ) + (scb22 * (1 - s2) + scb12 * (1 - s1)) * DR) := by
      simp only [sm1]
      rw [div_mul_cancel₀ _ hden0, hR1d, hR2d, hDRd, hσ]
      ring
    calc sm1 * (den * (t2 - t1)) = sm1 * den * (t2 - t1) := by ring
      _ = -(dsn * (t2 - t1)) * (-(R2 + R1) * (1 + e2 * σ) / (1 + σ) + (scb22 * (1 - s2) + scb12 * (1 - s1)) * DR) := by rw [e]; ring
      _ = -((R2 + R1) * (-(1 + e2 * σ) / (1 + σ) * (s2 - s1)) + (scb22 * (1 - s2) + scb12 * (1 - s1)) * (DR * (s2 - s1))) := by rw [hdsn]; ring
      _ = -((R2 + R1) * (scb22 * (1 - s2) - scb12 * (1 - s1)) + (scb22 * (1 - s2) + scb12 * (1 - s1)) * (R2 - R1)) := by rw [← hDF, ← hDR]
      _ = -2 * (scb22 * (1 - s2) * R2 - scb12 * (1 - s1) * R1) := by ring
      _ = _ := by rw [hFR1, hFR2]
  have hB : (1 - s) * (den * (t2 - t1)) = -2 * (scb22 * (1 - sx2) - scb12 * (1 - sx1)) := by
    have e : s * den = 2 * dtbet2 := by simp only [s]; field_simp
    calc (1 - s) * (den * (t2 - t1)) = den * (t2 - t1) - s * den * (t2 - t1) := by ring
      _ = 2 * (scb22 * sx2 - scb12 * sx1) - 2 * (dtbet2 * (t2 - t1)) := by rw [hden, e]; ring
      _ = _ := by rw [hdt]; ring
  exact mul_right_cancel₀ hdenΔ (hA.trans hB.symm)
