import GeoVerif.Proofs.ConicInit
namespace GeoVerif.Proofs.ConicInit
open GeoVerif GeoVerif.Conic GeoVerif.Proofs.Conic GeoVerif.Proofs.ConicDD

/-- Snyder's (15-8) for any ellipsoid on which `Deatanhe(sphi2, sphi1)` is a divided difference -/
theorem lcc_n_snyder_gen (E : Ell ℝ) (t1 t2 x1 x2 : ℝ) (h12 : t1 ≠ t2)
    (hDe : Deatanhe E.e2 E.es (t2 / hyp t2) (t1 / hyp t1) * (t2 / hyp t2 - t1 / hyp t1) = x2 - x1)
    (hψ : Real.arsinh t2 - x2 ≠ Real.arsinh t1 - x1) :
    (lccNraw E (t1 / hyp t1) t1 (hyp t1) (E.fm * t1) (hyp (E.fm * t1)) (t2 / hyp t2) t2 (hyp t2) (E.fm * t2) (hyp (E.fm * t2))).1 =
      (Real.log (hyp (E.fm * t2)) - Real.log (hyp (E.fm * t1))) / ((Real.arsinh t2 - x2) - (Real.arsinh t1 - x1)) := by
  obtain ⟨hden, hn⟩ := lccNraw_closed E t1 t2 x1 x2 h12 hDe
  have hΔ : t2 - t1 ≠ 0 := sub_ne_zero.mpr (Ne.symm h12)
  have hd : (Real.arsinh t2 - x2) - (Real.arsinh t1 - x1) ≠ 0 := sub_ne_zero.mpr hψ
  set nd := lccNraw E (t1 / hyp t1) t1 (hyp t1) (E.fm * t1) (hyp (E.fm * t1)) (t2 / hyp t2) t2 (hyp t2) (E.fm * t2) (hyp (E.fm * t2))
  have hden0 : nd.2 ≠ 0 := by
    intro h; rw [h, zero_mul] at hden; exact hd hden.symm
  rw [eq_div_iff hd, ← hden, ← hn hden0]; ring

theorem ell_e_sq_prolate (E : Ell ℝ) (he2 : E.e2 < 0) : 0 < E.e ∧ E.e2 = -(E.e ^ 2) := by
  constructor
  · unfold Ell.e; simp only [sqrt_real, abs_real]; exact Real.sqrt_pos.mpr (abs_pos.mpr he2.ne)
  · unfold Ell.e; simp only [sqrt_real, abs_real]
    rw [Real.sq_sqrt (abs_nonneg _), abs_of_neg he2]; ring

/-- **`txif` is the authalic tangent on a prolate ellipsoid** (`f < 0`, `e² < 0`) -/
theorem txif_prolate (E : Ell ℝ) (tphi : ℝ) (hf : E.f < 0) (he2 : E.e2 < 0)
    (hQ : (tphi / hyp tphi / (1 - E.e2 * (tphi / hyp tphi) ^ 2) + E.atanhee (tphi / hyp tphi)) ^ 2 < (1 / E.e2m + E.atanhee 1) ^ 2) :
    txif E tphi =
      (tphi / hyp tphi / (1 - E.e2 * (tphi / hyp tphi) ^ 2) + E.atanhee (tphi / hyp tphi)) /
        Real.sqrt ((1 / E.e2m + E.atanhee 1) ^ 2 -
          (tphi / hyp tphi / (1 - E.e2 * (tphi / hyp tphi) ^ 2) + E.atanhee (tphi / hyp tphi)) ^ 2) := by
  obtain ⟨hepos, hesq⟩ := ell_e_sq_prolate E he2
  have hp := hyp_pos tphi; have hlt := abs_lt_hyp tphi
  have hsabs : |tphi / hyp tphi| < 1 := by rw [abs_div, abs_of_pos hp]; exact (div_lt_one hp).mpr hlt
  obtain ⟨hs1, hs2⟩ := abs_lt.mp hsabs
  have hem : E.e2m ≠ 0 := by
    have : E.e2m = 1 - E.e2 := by unfold Ell.e2m; simp only [one_real]
    rw [this]; linarith
  have hw : 1 - E.e2 * (tphi / hyp tphi) ^ 2 ≠ 0 := by
    have : 0 ≤ -E.e2 * (tphi / hyp tphi) ^ 2 := by have := sq_nonneg (tphi / hyp tphi); nlinarith
    linarith
  have hodd : E.atanhee (-(tphi / hyp tphi)) = -E.atanhee (tphi / hyp tphi) := by
    have hnf : ¬ (0 < E.f) := not_lt.mpr hf.le
    unfold Ell.atanhee atanhee
    simp only [ltb_real, zero_real, hnf, hf, decide_false, decide_true, Bool.false_eq_true, if_false, if_true, atan_real]
    rw [mul_neg, Real.arctan_neg]; ring
  have hD1 : E.Datanhee 1 (tphi / hyp tphi) = (E.atanhee 1 - E.atanhee (tphi / hyp tphi)) / (1 - tphi / hyp tphi) := by
    unfold Ell.Datanhee Ell.atanhee
    rw [hesq]
    exact Datanhee_dd_prolate E.f E.e 1 _ hf hepos (by linarith)
  have hD2 : E.Datanhee 1 (-(tphi / hyp tphi)) = (E.atanhee 1 + E.atanhee (tphi / hyp tphi)) / (1 + tphi / hyp tphi) := by
    have : E.Datanhee 1 (-(tphi / hyp tphi)) = (E.atanhee 1 - E.atanhee (-(tphi / hyp tphi))) / (1 - -(tphi / hyp tphi)) := by
      unfold Ell.Datanhee Ell.atanhee
      rw [hesq]
      exact Datanhee_dd_prolate E.f E.e 1 _ hf hepos (by linarith)
    rw [this, hodd]; congr 1 <;> ring
  exact txif_of_dd E tphi hem hw hD1 hD2 hQ

/-- on a sphere the authalic latitude is the geographic latitude: `txif = id` -/
theorem txif_sphere (a tphi : ℝ) : txif (⟨a, 0⟩ : Ell ℝ) tphi = tphi := by
  have he2 : (⟨a, 0⟩ : Ell ℝ).e2 = 0 := by simp [Ell.e2]
  have hem : (⟨a, 0⟩ : Ell ℝ).e2m = 1 := by simp [Ell.e2m, he2, one_real]
  have hat : ∀ x : ℝ, (⟨a, 0⟩ : Ell ℝ).atanhee x = x := by
    intro x; simp [Ell.atanhee, atanhee, ltb_real, zero_real]
  have hp := hyp_pos tphi; have hlt := abs_lt_hyp tphi; have hh := hyp_sq tphi
  have hsabs : |tphi / hyp tphi| < 1 := by rw [abs_div, abs_of_pos hp]; exact (div_lt_one hp).mpr hlt
  obtain ⟨hs1, hs2⟩ := abs_lt.mp hsabs
  have hDs : ∀ y : ℝ, y ≠ 1 → (⟨a, 0⟩ : Ell ℝ).Datanhee 1 y = ((⟨a, 0⟩ : Ell ℝ).atanhee 1 - (⟨a, 0⟩ : Ell ℝ).atanhee y) / (1 - y) := by
    intro y hy
    unfold Ell.Datanhee Ell.atanhee
    rw [he2]
    exact Datanhee_dd_sphere _ 1 y (Ne.symm hy)
  have h := txif_of_dd (⟨a, 0⟩ : Ell ℝ) tphi (by rw [hem]; norm_num) (by rw [he2]; norm_num) (hDs _ (by linarith))
    (by rw [hDs _ (by linarith), hat, hat, hat]; congr 1 <;> ring)
    (by rw [he2, hem, hat, hat]
        have : (tphi / hyp tphi / (1 - 0 * (tphi / hyp tphi) ^ 2) + tphi / hyp tphi) ^ 2 = 4 * (tphi / hyp tphi) ^ 2 := by ring
        rw [this]
        have : (tphi / hyp tphi) ^ 2 < 1 := by nlinarith
        nlinarith)
  rw [h, he2, hem, hat, hat]
  have e1 : tphi / hyp tphi / (1 - 0 * (tphi / hyp tphi) ^ 2) + tphi / hyp tphi = 2 * (tphi / hyp tphi) := by ring
  rw [e1]
  have e2 : ((1 : ℝ) / 1 + 1) ^ 2 - (2 * (tphi / hyp tphi)) ^ 2 = (2 / hyp tphi) ^ 2 := by
    field_simp; linear_combination 4 * hh
  rw [e2, Real.sqrt_sq (by positivity)]
  field_simp
end GeoVerif.Proofs.ConicInit
