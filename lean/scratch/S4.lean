import GeoVerif.Props.C08
import GeoVerif.Props.C16
namespace GeoVerif.Props.C08
open GeoVerif GeoVerif.Polygon GeoVerif.Accum

/-! ### (d) `AreaReduce` on the two-word accumulator: the four (reverse, sign) outputs -/

theorem F64.neg_neg' (x : F64) : F64.neg (F64.neg x) = x := by cases x <;> simp [F64.neg]

theorem negate_negate (a : Acc) : negate (negate a) = a := by
  cases a; simp [negate, F64.neg_neg']

/-- the three stages (as for the exact-arithmetic `areaReduce`: `areaReduce_stages`) -/
theorem areaReduceAcc_stages (a : Acc) (A : F64) (c : ℤ) (rv sg : Bool) :
    areaReduceAcc a A c rv sg = windowAcc A sg (orientAcc rv (adjAcc a A c)) := rfl

/-- flipping `reverse` negates the oriented, reduced sum *exactly* (both words) -/
theorem orientAcc_flip (rv : Bool) (a : Acc) : orientAcc (!rv) a = negate (orientAcc rv a) := by
  cases rv <;> simp [orientAcc, negate_negate]

/-- the result is the oriented reduced sum, or that sum with `A` added or subtracted by one `Accumulator::Add` -/
theorem areaReduceAcc_cases (a : Acc) (A : F64) (c : ℤ) (rv sg : Bool) :
    areaReduceAcc a A c rv sg = orientAcc rv (adjAcc a A c) ∨
    areaReduceAcc a A c rv sg = Accum.sub (orientAcc rv (adjAcc a A c)) A ∨
    areaReduceAcc a A c rv sg = Accum.add (orientAcc rv (adjAcc a A c)) A := by
  rw [areaReduceAcc_stages]; unfold windowAcc
  split_ifs <;> simp

/-- the signed window leaves `x` alone: `¬ x > A/2` and `¬ x ≤ −A/2`, as the code tests them -/
def InSigned (A x : F64) : Prop := F64.gt x (A / 2) = false ∧ F64.le x (F64.neg A / 2) = false
/-- the unsigned window leaves `x` alone: `¬ x ≥ A` and `¬ x < 0` -/
def InUnsigned (A x : F64) : Prop := F64.ge x A = false ∧ F64.lt x 0 = false

/-- **`A(reverse, signed) = − A(not reverse, signed)` exactly, on both words**, whenever the reduced sum is strictly inside
    `(−A/2, A/2)` (at `±A/2` both results are `+A/2`: `areaReduce_flip`) -/
theorem areaReduceAcc_signed_flip (a : Acc) (A : F64) (c : ℤ) (rv : Bool)
    (h1 : InSigned A (adjAcc a A c).s) (h2 : InSigned A (F64.neg (adjAcc a A c).s)) :
    areaReduceAcc a A c (!rv) true = negate (areaReduceAcc a A c rv true) := by
  have hw : ∀ o : Acc, InSigned A o.s → windowAcc A true o = o := by
    intro o h; unfold windowAcc; simp [h.1, h.2]
  have hs : ∀ rv, InSigned A (orientAcc rv (adjAcc a A c)).s := by
    intro rv; cases rv
    · simpa [orientAcc, negate] using h2
    · simpa [orientAcc] using h1
  rw [areaReduceAcc_stages, areaReduceAcc_stages, hw _ (hs _), hw _ (hs _), orientAcc_flip]

/-- **unsigned = signed** when the oriented reduced sum is non-negative: the same accumulator, word for word -/
theorem areaReduceAcc_unsigned_eq_signed (a : Acc) (A : F64) (c : ℤ) (rv : Bool)
    (h1 : InSigned A (orientAcc rv (adjAcc a A c)).s) (h2 : InUnsigned A (orientAcc rv (adjAcc a A c)).s) :
    areaReduceAcc a A c rv false = areaReduceAcc a A c rv true := by
  rw [areaReduceAcc_stages, areaReduceAcc_stages]; unfold windowAcc
  simp [h1.1, h1.2, h2.1, h2.2]

/-- **`A(reverse, unsigned) = A0 − A(not reverse, unsigned)` on the accumulator level**: when the oriented reduced sum is
    negative, the unsigned result is *the accumulator* obtained by negating the other orientation's result (exactly) and
    adding `A0` to it with one `Accumulator::Add` -/
theorem areaReduceAcc_unsigned_complement (a : Acc) (A : F64) (c : ℤ) (rv : Bool)
    (hneg : F64.lt (orientAcc rv (adjAcc a A c)).s 0 = true) (hlt : F64.ge (orientAcc rv (adjAcc a A c)).s A = false)
    (h' : InUnsigned A (orientAcc (!rv) (adjAcc a A c)).s) :
    areaReduceAcc a A c rv false = Accum.add (negate (areaReduceAcc a A c (!rv) false)) A := by
  have e1 : areaReduceAcc a A c (!rv) false = orientAcc (!rv) (adjAcc a A c) := by
    rw [areaReduceAcc_stages]; unfold windowAcc; simp [h'.1, h'.2]
  have e2 : areaReduceAcc a A c rv false = Accum.add (orientAcc rv (adjAcc a A c)) A := by
    rw [areaReduceAcc_stages]; unfold windowAcc; simp [hneg, hlt]
  rw [e1, e2, orientAcc_flip, negate_negate]

/-- non-vacuity (`A0 = 16`, the sum `(3, 0)`, no crossings): the signed results are `(−3, −0)` and `(3, 0)`; the unsigned
    result for `reverse = false` is the accumulator `(13, 0) = 16 + (−3)`, the one for `reverse = true` is `(3, 0)` -/
example : InSigned (F64.ofInt 16) (adjAcc ⟨F64.ofInt 3, 0⟩ (F64.ofInt 16) 0).s ∧
    InSigned (F64.ofInt 16) (F64.neg (adjAcc ⟨F64.ofInt 3, 0⟩ (F64.ofInt 16) 0).s) ∧
    F64.lt (orientAcc false (adjAcc ⟨F64.ofInt 3, 0⟩ (F64.ofInt 16) 0)).s 0 = true ∧
    F64.ge (orientAcc false (adjAcc ⟨F64.ofInt 3, 0⟩ (F64.ofInt 16) 0)).s (F64.ofInt 16) = false ∧
    InUnsigned (F64.ofInt 16) (orientAcc true (adjAcc ⟨F64.ofInt 3, 0⟩ (F64.ofInt 16) 0)).s ∧
    F64.same (areaReduceAcc ⟨F64.ofInt 3, 0⟩ (F64.ofInt 16) 0 false false).s (F64.ofInt 13) = true := by
  unfold InSigned InUnsigned; decide +kernel

theorem val_neg_all (x : F64) : (F64.neg x).val = -x.val := by
  cases x with
  | nan => simp [F64.neg, F64.val, F64.toDy, Dy.val]
  | inf s => simp [F64.neg, F64.val, F64.toDy, Dy.val]
  | fin s m e => exact F64.neg_fin_val s m e

/-- the value held by an accumulator -/
def held (a : Acc) : ℚ := a.s.val + a.t.val

theorem held_negate (a : Acc) : held (negate a) = - held a := by
  simp only [held, negate, val_neg_all]; ring

/-- **… and in value**: under the hypotheses of `areaReduceAcc_unsigned_complement`, with representable words of magnitude
    `≤ 2^1016`, the unsigned results for the two orientations add up to `A0` up to the single rounding of that one
    `Accumulator::Add` (C16 `accum_add_step`: at most `2^-53` of its low-order part) -/
theorem areaReduceAcc_unsigned_complement_held (a : Acc) (A : F64) (c : ℤ) (rv : Bool)
    (hneg : F64.lt (orientAcc rv (adjAcc a A c)).s 0 = true) (hlt : F64.ge (orientAcc rv (adjAcc a A c)).s A = false)
    (h' : InUnsigned A (orientAcc (!rv) (adjAcc a A c)).s)
    (hs : F64.IsRep (orientAcc rv (adjAcc a A c)).s) (ht : F64.IsRep (orientAcc rv (adjAcc a A c)).t) (hA : F64.IsRep A)
    (bs : |(orientAcc rv (adjAcc a A c)).s.val| ≤ (2:ℚ) ^ (1016:ℤ)) (bt : |(orientAcc rv (adjAcc a A c)).t.val| ≤ (2:ℚ) ^ (1016:ℤ))
    (bA : |A.val| ≤ (2:ℚ) ^ (1016:ℤ)) :
    let o := orientAcc rv (adjAcc a A c)
    let p := MathF.sum A o.t
    let q := MathF.sum p.1 o.s
    |held (areaReduceAcc a A c rv false) + held (areaReduceAcc a A c (!rv) false) - A.val|
      ≤ max (|q.2.val + p.2.val| * (2:ℚ) ^ (-(53:ℤ))) ((2:ℚ) ^ (-(1075:ℤ))) := by
  intro o p q
  have e1 : areaReduceAcc a A c (!rv) false = negate o := by
    rw [areaReduceAcc_stages]; unfold windowAcc; simp [h'.1, h'.2]; exact orientAcc_flip rv _
  have e2 : areaReduceAcc a A c rv false = Accum.add o A := by
    rw [areaReduceAcc_stages]; unfold windowAcc; simp [hneg, hlt]; rfl
  have key := (GeoVerif.Props.C16.accum_add_step o A hs ht hA bs bt bA).2.2.2.2
  rw [e1, e2, held_negate]
  have : held (Accum.add o A) + -held o - A.val = (Accum.add o A).s.val + (Accum.add o A).t.val - (o.s.val + o.t.val + A.val) := by
    simp only [held]; ring
  rw [this]; exact key

end GeoVerif.Props.C08
