import GeoVerif.Model.TM
import GeoVerif.Spec.RealInst
import Mathlib.Tactic.Ring
import Mathlib.Tactic.LinearCombination
namespace GeoVerif.Props.C06
open GeoVerif GeoVerif.TM

/-- a pair read as a complex number -/
noncomputable def toC (z : Cx ℝ) : ℂ := ⟨z.re, z.im⟩

theorem toC_mul (a b : Cx ℝ) : toC (Cx.mul a b) = toC a * toC b := by
  apply Complex.ext <;> simp [toC, Cx.mul]
theorem toC_sub (a b : Cx ℝ) : toC (Cx.sub a b) = toC a - toC b := by
  apply Complex.ext <;> simp [toC, Cx.sub]
theorem toC_add (a b : Cx ℝ) : toC (Cx.add a b) = toC a + toC b := by
  apply Complex.ext <;> simp [toC, Cx.add]
theorem toC_addR (a : Cx ℝ) (c : ℝ) : toC (Cx.addR a c) = toC a + (c : ℂ) := by
  apply Complex.ext <;> simp [toC, Cx.addR]
theorem toC_zero : toC (Cx.zero : Cx ℝ) = 0 := by
  apply Complex.ext <;> simp [toC, Cx.zero, ofNat_real]

/-- the recurrence over any commutative ring -/
def clenR {R : Type} [CommRing R] (a : R) : List R → R × R
  | [] => (0, 0)
  | c :: cs => (a * (clenR a cs).1 - (clenR a cs).2 + c, (clenR a cs).1)

theorem clenC_toC (a : Cx ℝ) (cs : List ℝ) :
    (toC (clenC a cs).1, toC (clenC a cs).2) = clenR (toC a) (cs.map Complex.ofReal) := by
  induction cs with
  | nil => simp [clenC, clenR, toC_zero]
  | cons c cs ih =>
    have h1 : toC (clenC a cs).1 = (clenR (toC a) (cs.map Complex.ofReal)).1 := congrArg Prod.fst ih
    have h2 : toC (clenC a cs).2 = (clenR (toC a) (cs.map Complex.ofReal)).2 := congrArg Prod.snd ih
    simp only [clenC, clenR, List.map_cons, toC_addR, toC_sub, toC_mul, h1, h2]

/-- `Σ_j cs[j] · T(k+1+j)` -/
def wsum {R : Type} [CommRing R] (T : ℕ → R) : ℕ → List R → R
  | _, [] => 0
  | k, c :: cs => c * T (k + 1) + wsum T (k + 1) cs

/-- Clenshaw summation over a commutative ring for any sequence with `T (n+2) = a·T (n+1) − T n` -/
theorem clenshaw_ring {R : Type} [CommRing R] (a : R) (T : ℕ → R) (hT : ∀ n, T (n + 2) = a * T (n + 1) - T n) (cs : List R) (k : ℕ) :
    wsum T k cs = (clenR a cs).1 * T (k + 1) - (clenR a cs).2 * T k := by
  induction cs generalizing k with
  | nil => simp [wsum, clenR]
  | cons c cs ih =>
    simp only [wsum, clenR]
    rw [ih (k + 1), hT k]
    ring

theorem sin_rec (z : ℂ) (n : ℕ) : Complex.sin (2 * ((n + 2 : ℕ) : ℂ) * z) = 2 * Complex.cos (2 * z) * Complex.sin (2 * ((n + 1 : ℕ) : ℂ) * z) - Complex.sin (2 * (n : ℂ) * z) := by
  have h1 : 2 * ((n + 2 : ℕ) : ℂ) * z = 2 * ((n + 1 : ℕ) : ℂ) * z + 2 * z := by push_cast; ring
  have h2 : 2 * (n : ℂ) * z = 2 * ((n + 1 : ℕ) : ℂ) * z - 2 * z := by push_cast; ring
  rw [h1, h2, Complex.sin_add, Complex.sin_sub]; ring

theorem cos_rec (z : ℂ) (n : ℕ) : Complex.cos (2 * ((n + 2 : ℕ) : ℂ) * z) = 2 * Complex.cos (2 * z) * Complex.cos (2 * ((n + 1 : ℕ) : ℂ) * z) - Complex.cos (2 * (n : ℂ) * z) := by
  have h1 : 2 * ((n + 2 : ℕ) : ℂ) * z = 2 * ((n + 1 : ℕ) : ℂ) * z + 2 * z := by push_cast; ring
  have h2 : 2 * (n : ℂ) * z = 2 * ((n + 1 : ℕ) : ℂ) * z - 2 * z := by push_cast; ring
  rw [h1, h2, Complex.cos_add, Complex.cos_sub]; ring

theorem cosh_real (x : ℝ) : TM.cosh x = Real.cosh x := by
  unfold TM.cosh
  rw [Real.cosh_eq]
  show (Real.exp x + Real.exp (-x)) / ((2 : ℕ) : ℝ) = _
  push_cast; ring

theorem cos2z (ξ η : ℝ) : (⟨Real.cos (2 * ξ) * Real.cosh (2 * η), -(Real.sin (2 * ξ) * Real.sinh (2 * η))⟩ : ℂ) = Complex.cos (2 * (⟨ξ, η⟩ : ℂ)) := by
  have : (2 * (⟨ξ, η⟩ : ℂ)) = ((2 * ξ : ℝ) : ℂ) + ((2 * η : ℝ) : ℂ) * Complex.I := by
    apply Complex.ext <;> simp
  rw [this, Complex.cos_add_mul_I]
  apply Complex.ext <;> simp [← Complex.ofReal_cos, ← Complex.ofReal_sin, ← Complex.ofReal_cosh, ← Complex.ofReal_sinh, -Complex.ofReal_mul]

theorem sin2z (ξ η : ℝ) : (⟨Real.sin (2 * ξ) * Real.cosh (2 * η), Real.cos (2 * ξ) * Real.sinh (2 * η)⟩ : ℂ) = Complex.sin (2 * (⟨ξ, η⟩ : ℂ)) := by
  have : (2 * (⟨ξ, η⟩ : ℂ)) = ((2 * ξ : ℝ) : ℂ) + ((2 * η : ℝ) : ℂ) * Complex.I := by
    apply Complex.ext <;> simp
  rw [this, Complex.sin_add_mul_I]
  apply Complex.ext <;> simp [← Complex.ofReal_cos, ← Complex.ofReal_sin, ← Complex.ofReal_cosh, ← Complex.ofReal_sinh, -Complex.ofReal_mul]

/-- `Σ_j cs[j] · sin(2 (k+1+j) ζ)` -/
noncomputable def sinSum (ζ : ℂ) : ℕ → List ℝ → ℂ
  | _, [] => 0
  | k, c :: cs => (c : ℂ) * Complex.sin (2 * ((k + 1 : ℕ) : ℂ) * ζ) + sinSum ζ (k + 1) cs

/-- `Σ_j 2 (k+1+j) · cs[j] · cos(2 (k+1+j) ζ)` -/
noncomputable def dcosSum (ζ : ℂ) : ℕ → List ℝ → ℂ
  | _, [] => 0
  | k, c :: cs => 2 * ((k + 1 : ℕ) : ℂ) * (c : ℂ) * Complex.cos (2 * ((k + 1 : ℕ) : ℂ) * ζ) + dcosSum ζ (k + 1) cs

theorem sinSum_wsum (ζ : ℂ) (k : ℕ) (cs : List ℝ) :
    sinSum ζ k cs = wsum (fun n => Complex.sin (2 * (n : ℂ) * ζ)) k (cs.map Complex.ofReal) := by
  induction cs generalizing k with
  | nil => rfl
  | cons c cs ih => simp only [sinSum, List.map_cons, wsum, ih]

theorem dcosSum_wsum (ζ : ℂ) (k : ℕ) (cs : List ℝ) :
    dcosSum ζ k cs = wsum (fun n => Complex.cos (2 * (n : ℂ) * ζ)) k ((dcoeffs (k + 1) cs).map Complex.ofReal) := by
  induction cs generalizing k with
  | nil => rfl
  | cons c cs ih =>
    simp only [dcosSum, dcoeffs, List.map_cons, wsum, ih]
    congr 1
    simp [ofNat_real]

theorem sinh_real (x : ℝ) : RealLike.sinh x = Real.sinh x := rfl

/-- **complex Clenshaw summation of the Krüger series** (`Forward`: `cs = alp`, `Reverse`: `cs = −bet`): for every coefficient vector and every
    `ζ = ξ + iη` the paired real recurrences of the code return `ζ + Σ_j c_j sin 2jζ` and its derivative `1 + Σ_j 2j c_j cos 2jζ` -/
theorem clenshaw_complex (cs : List ℝ) (ξ η : ℝ) :
    toC (kr cs ξ η).1 = (⟨ξ, η⟩ : ℂ) + sinSum ⟨ξ, η⟩ 0 cs ∧
    toC (kr cs ξ η).2 = 1 + dcosSum ⟨ξ, η⟩ 0 cs := by
  set ζ : ℂ := ⟨ξ, η⟩ with hζ
  have hA : toC (⟨(2 : ℝ) * Real.cos (2 * ξ) * Real.cosh (2 * η), -((2 : ℝ) * Real.sin (2 * ξ) * Real.sinh (2 * η))⟩ : Cx ℝ) = 2 * Complex.cos (2 * ζ) := by
    rw [← cos2z]; apply Complex.ext <;> simp [toC] <;> ring
  have hS := clenshaw_ring (2 * Complex.cos (2 * ζ)) (fun n => Complex.sin (2 * (n : ℂ) * ζ)) (fun n => sin_rec ζ n)
  have hC := clenshaw_ring (2 * Complex.cos (2 * ζ)) (fun n => Complex.cos (2 * (n : ℂ) * ζ)) (fun n => cos_rec ζ n)
  have hs : toC (⟨Real.sin (2 * ξ) * Real.cosh (2 * η), Real.cos (2 * ξ) * Real.sinh (2 * η)⟩ : Cx ℝ) = Complex.sin (2 * ζ) := by
    rw [← sin2z]; rfl
  have hc : toC (⟨Real.cos (2 * ξ) * Real.cosh (2 * η), -(Real.sin (2 * ξ) * Real.sinh (2 * η))⟩ : Cx ℝ) = Complex.cos (2 * ζ) := by
    rw [← cos2z]; rfl
  have hz : toC (⟨ξ, η⟩ : Cx ℝ) = ζ := rfl
  have h10 : toC (⟨(1 : ℝ), (0 : ℝ)⟩ : Cx ℝ) = 1 := by apply Complex.ext <;> simp [toC]
  constructor
  · have h := clenC_toC (⟨(2 : ℝ) * Real.cos (2 * ξ) * Real.cosh (2 * η), -((2 : ℝ) * Real.sin (2 * ξ) * Real.sinh (2 * η))⟩ : Cx ℝ) cs
    rw [hA] at h
    have h1 := congrArg Prod.fst h
    simp only at h1
    rw [sinSum_wsum, hS _ 0, ← h1]
    simp only [kr, lit_real, cos_real, sin_real, cosh_real, sinh_real, toC_add, toC_mul]
    push_cast
    rw [hs, hz]
    simp
    ring
  · have h := clenC_toC (⟨(2 : ℝ) * Real.cos (2 * ξ) * Real.cosh (2 * η), -((2 : ℝ) * Real.sin (2 * ξ) * Real.sinh (2 * η))⟩ : Cx ℝ) (dcoeffs 1 cs)
    rw [hA] at h
    have h1 := congrArg Prod.fst h
    have h2 := congrArg Prod.snd h
    simp only at h1 h2
    rw [dcosSum_wsum, hC _ 0, ← h1, ← h2]
    simp only [kr, lit_real, cos_real, sin_real, cosh_real, sinh_real, ofNat_real, toC_add, toC_sub, toC_mul]
    push_cast
    rw [hc, h10]
    simp
    ring
end GeoVerif.Props.C06
