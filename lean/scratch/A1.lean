import Mathlib.Tactic.Ring
import Mathlib.Tactic.LinearCombination
import Mathlib.Tactic.FieldSimp
import Mathlib.Tactic.Positivity
import Mathlib.Tactic.Linarith
import Mathlib.Data.Real.Basic

/-- the algebraic core of the careful `1 − n`: with `T = ch t − sh sc`, `S = ch sc − sh t`, `E = T + S` -/
theorem lcc_core_algebra (fm t1 t2 sc1 sc2 sh1 sh2 ch1 ch2 sb1 sb2 shZ chZ : ℝ)
    (hfm : 0 < fm) (hΔ : t2 - t1 ≠ 0)
    (hsc1 : sc1 ^ 2 = 1 + t1 ^ 2) (hsc2 : sc2 ^ 2 = 1 + t2 ^ 2)
    (hch1 : ch1 ^ 2 = 1 + sh1 ^ 2) (hch2 : ch2 ^ 2 = 1 + sh2 ^ 2)
    (hsb1 : sb1 ^ 2 = 1 + (fm * t1) ^ 2) (hsb2 : sb2 ^ 2 = 1 + (fm * t2) ^ 2)
    (psc1 : 0 < sc1) (psc2 : 0 < sc2) (psb1 : 0 < sb1) (psb2 : 0 < sb2)
    (pS1 : 0 < ch1 * sc1 - sh1 * t1) (pS2 : 0 < ch2 * sc2 - sh2 * t2)
    (pE1 : 0 < (ch1 * t1 - sh1 * sc1) + (ch1 * sc1 - sh1 * t1)) (pE2 : 0 < (ch2 * t2 - sh2 * sc2) + (ch2 * sc2 - sh2 * t2)) :
    let T1 := ch1 * t1 - sh1 * sc1
    let T2 := ch2 * t2 - sh2 * sc2
    let S1 := ch1 * sc1 - sh1 * t1
    let S2 := ch2 * sc2 - sh2 * t2
    let E1 := T1 + S1
    let E2 := T2 + S2
    let dtchi := (T2 - T1) / (t2 - t1)
    let dbet := (sb2 + sb1) / fm - (sc2 + sc1)
    let amu12 := -(sc1 * (chZ - ch1)) + t1 * (shZ - sh1) - sc2 * (chZ - ch2) + t2 * (shZ - sh2)
    let dnu12 := ((sc2 * (shZ - sh2) - t2 * (chZ - ch2)) - (sc1 * (shZ - sh1) - t1 * (chZ - ch1))) / (t2 - t1)
    let dchia := amu12 - dnu12 * (sc2 + sc1)
    let tam := (dchia - dtchi * dbet) / (S1 + S2)
    let tbm := 1 - (fm * t2 + fm * t1) / (sb2 + sb1)
    ((E2 + E1) / (4 * sb1 * sb2) * fm) * (tbm - tam) = (E2 / (2 * sb2) - E1 / (2 * sb1)) / (t2 - t1) := by
  intro T1 T2 S1 S2 E1 E2 dtchi dbet amu12 dnu12 dchia tam tbm
  have hS : S1 + S2 ≠ 0 := by positivity
  have hE : E1 + E2 ≠ 0 := by positivity
  have hsb : sb2 + sb1 ≠ 0 := by positivity
  -- S² − T² = 1
  have hST1 : S1 ^ 2 - T1 ^ 2 = 1 := by
    simp only [S1, T1]; linear_combination (sc1 ^ 2 - t1 ^ 2) * hch1 + hsc1
  have hST2 : S2 ^ 2 - T2 ^ 2 = 1 := by
    simp only [S2, T2]; linear_combination (sc2 ^ 2 - t2 ^ 2) * hch2 + hsc2
  -- step A
  have hA : dchia = (S1 + S2) - dtchi * (sc2 + sc1) := by
    simp only [dchia, amu12, dnu12, dtchi, S1, S2, T1, T2]
    field_simp
    linear_combination shZ * hsc1 - shZ * hsc2
  have hfm0 : fm ≠ 0 := hfm.ne'
  have hB : tam = 1 - dtchi * (sb2 + sb1) / (fm * (S1 + S2)) := by
    simp only [tam]
    rw [hA]
    simp only [dbet]
    field_simp
    ring
  have hkey : (T2 - T1) * (E1 + E2) = (E2 - E1) * (S1 + S2) := by
    simp only [E1, E2]
    linear_combination hST1 - hST2
  have h1 : dtchi * (sb2 + sb1) / (fm * (S1 + S2)) = (E2 - E1) * (sb1 + sb2) / (fm * (t2 - t1) * (E1 + E2)) := by
    have hd : dtchi * (t2 - t1) = T2 - T1 := by simp only [dtchi]; field_simp
    have hne : fm * (t2 - t1) * (E1 + E2) ≠ 0 := mul_ne_zero (mul_ne_zero hfm0 hΔ) hE
    rw [div_eq_div_iff (by positivity) hne]
    linear_combination (fm * (sb1 + sb2) * (E1 + E2)) * hd + (fm * (sb1 + sb2)) * hkey
  have h2 : (fm * t2 + fm * t1) / (sb2 + sb1) = (sb2 - sb1) / (fm * (t2 - t1)) := by
    rw [div_eq_div_iff hsb (mul_ne_zero hfm0 hΔ)]
    linear_combination hsb1 - hsb2
  have hC : tbm - tam = ((E2 - E1) * (sb1 + sb2) / (E1 + E2) - (sb2 - sb1)) / (fm * (t2 - t1)) := by
    simp only [tbm]
    rw [hB, h1, h2]
    field_simp
    ring
  rw [hC]
  field_simp
  ring
