import GeoVerif.Proofs.ConicInit
namespace GeoVerif.Proofs.ConicInit
open GeoVerif GeoVerif.Conic GeoVerif.Proofs.Conic GeoVerif.Proofs.ConicDD

theorem Deatanhe_mul_oblate (es x y : ℝ) (hes : 0 < es) (hx : |es * x| < 1) (hy : |es * y| < 1) :
    Deatanhe (es ^ 2) es x y * (x - y) = eatanhe x es - eatanhe y es := by
  by_cases h : x = y
  · rw [h]; simp
  · rw [Deatanhe_dd_oblate es x y hes hx hy h]
    have : x - y ≠ 0 := sub_ne_zero.mpr h
    field_simp

theorem Deatanhe_mul_prolate (es x y : ℝ) (hes : es ≤ 0) (hprod : -1 < es * x * (es * y)) :
    Deatanhe (-(es ^ 2)) es x y * (x - y) = eatanhe x es - eatanhe y es := by
  by_cases h : x = y
  · rw [h]; simp
  · rw [Deatanhe_dd_prolate es x y hes hprod h]
    have : x - y ≠ 0 := sub_ne_zero.mpr h
    field_simp

theorem abs_es_sn_lt (es t : ℝ) (h0 : 0 ≤ es) (h1 : es < 1) : |es * (t / hyp t)| < 1 := by
  have ht := abs_lt_hyp t
  have hp := hyp_pos t
  rw [abs_mul, abs_of_nonneg h0, abs_div, abs_of_pos hp]
  have : |t| / hyp t < 1 := (div_lt_one hp).mpr ht
  have h0' : 0 ≤ |t| / hyp t := by positivity
  nlinarith

/-- the careful `nc` on an oblate ellipsoid (`0 < es < 1`, `e² = es²`) -/
theorem lccNcCareful_oblate (E : Ell ℝ) (t1 t2 : ℝ) (hfm : 0 < E.fm) (h12 : t1 ≠ t2) (hes : 0 < E.es) (hes1 : E.es < 1) (he2 : E.e2 = E.es ^ 2)
    (hψ : Real.arsinh t2 - eatanhe (t2 / hyp t2) E.es ≠ Real.arsinh t1 - eatanhe (t1 / hyp t1) E.es) :
    let x1 := eatanhe (t1 / hyp t1) E.es
    let x2 := eatanhe (t2 / hyp t2) E.es
    let nd := lccNraw E (t1 / hyp t1) t1 (hyp t1) (E.fm * t1) (hyp (E.fm * t1)) (t2 / hyp t2) t2 (hyp t2) (E.fm * t2) (hyp (E.fm * t2))
    lccNcCareful E nd.1 nd.2
        (t1 / hyp t1) t1 (hyp t1) (Real.sinh x1) (hyp (Real.sinh x1)) x1 (tchiR t1 x1) (hyp (tchiR t1 x1)) (E.fm * t1) (hyp (E.fm * t1))
        (t2 / hyp t2) t2 (hyp t2) (Real.sinh x2) (hyp (Real.sinh x2)) x2 (tchiR t2 x2) (hyp (tchiR t2 x2)) (E.fm * t2) (hyp (E.fm * t2))
      = Real.sqrt (max 0 (1 - nd.1) * (1 + nd.1)) := by
  intro x1 x2 nd
  have a1 := abs_es_sn_lt E.es t1 hes.le hes1
  have a2 := abs_es_sn_lt E.es t2 hes.le hes1
  have a0 : |E.es * 1| < 1 := by rw [mul_one, abs_of_pos hes]; exact hes1
  exact lccNcCareful_eq E t1 t2 x1 x2 hfm h12
    (by rw [he2]; exact Deatanhe_mul_oblate E.es 1 _ hes a0 a1)
    (by rw [he2]; exact Deatanhe_mul_oblate E.es 1 _ hes a0 a2)
    (by rw [he2]; exact Deatanhe_mul_oblate E.es _ _ hes a1 a2)
    (by rw [he2]; exact Deatanhe_mul_oblate E.es _ _ hes a2 a1) hψ

/-- the careful `nc` on a prolate ellipsoid (`es ≤ 0`, `e² = −es²`) outside the class of finding F80: the three products
    `e²·x·y` of the pairs `(1, sphi1)`, `(1, sphi2)`, `(sphi1, sphi2)` stay above `−1` -/
theorem lccNcCareful_prolate (E : Ell ℝ) (t1 t2 : ℝ) (hfm : 0 < E.fm) (h12 : t1 ≠ t2) (hes : E.es ≤ 0) (he2 : E.e2 = -(E.es ^ 2))
    (hp1 : -1 < E.es * 1 * (E.es * (t1 / hyp t1))) (hp2 : -1 < E.es * 1 * (E.es * (t2 / hyp t2)))
    (hp12 : -1 < E.es * (t1 / hyp t1) * (E.es * (t2 / hyp t2)))
    (hψ : Real.arsinh t2 - eatanhe (t2 / hyp t2) E.es ≠ Real.arsinh t1 - eatanhe (t1 / hyp t1) E.es) :
    let x1 := eatanhe (t1 / hyp t1) E.es
    let x2 := eatanhe (t2 / hyp t2) E.es
    let nd := lccNraw E (t1 / hyp t1) t1 (hyp t1) (E.fm * t1) (hyp (E.fm * t1)) (t2 / hyp t2) t2 (hyp t2) (E.fm * t2) (hyp (E.fm * t2))
    lccNcCareful E nd.1 nd.2
        (t1 / hyp t1) t1 (hyp t1) (Real.sinh x1) (hyp (Real.sinh x1)) x1 (tchiR t1 x1) (hyp (tchiR t1 x1)) (E.fm * t1) (hyp (E.fm * t1))
        (t2 / hyp t2) t2 (hyp t2) (Real.sinh x2) (hyp (Real.sinh x2)) x2 (tchiR t2 x2) (hyp (tchiR t2 x2)) (E.fm * t2) (hyp (E.fm * t2))
      = Real.sqrt (max 0 (1 - nd.1) * (1 + nd.1)) := by
  intro x1 x2 nd
  have hp21 : -1 < E.es * (t2 / hyp t2) * (E.es * (t1 / hyp t1)) := by linarith [mul_comm (E.es * (t1 / hyp t1)) (E.es * (t2 / hyp t2))]
  exact lccNcCareful_eq E t1 t2 x1 x2 hfm h12
    (by rw [he2]; exact Deatanhe_mul_prolate E.es 1 _ hes hp1)
    (by rw [he2]; exact Deatanhe_mul_prolate E.es 1 _ hes hp2)
    (by rw [he2]; exact Deatanhe_mul_prolate E.es _ _ hes hp12)
    (by rw [he2]; exact Deatanhe_mul_prolate E.es _ _ hes hp21) hψ
end GeoVerif.Proofs.ConicInit
