import GeoVerif.Props.C05
import Mathlib.Tactic.SplitIfs
namespace GeoVerif.Props.C05
open GeoVerif GeoVerif.MGRS GeoVerif.Grid GeoVerif.Digits Gen.UTM

/-! ### the letter tables have the documented contents -/

/-- the alphabet without I and O, and the UPS column alphabet: additionally without D, E, M, N, V, W -/
def A24 : List Char := "ABCDEFGHJKLMNPQRSTUVWXYZ".toList
def U18 : List Char := "ABCFGHJKLPQRSTUXYZ".toList

theorem letter_tables_documented :
    A24 = ("ABCDEFGHIJKLMNOPQRSTUVWXYZ".toList.filter fun c => c ≠ 'I' ∧ c ≠ 'O') ∧
    U18 = (A24.filter fun c => c ∉ "DEMNVW".toList) ∧
    utmcols = [A24.take 8, (A24.drop 8).take 8, A24.drop 16] ∧
    utmrow = A24.take 20 ∧
    latband = (A24.drop 2).take 20 ∧
    upsband = ['A', 'B', 'Y', 'Z'] ∧
    upscols = [U18.drop 6, U18.take 12, U18.drop 11, U18.take 7] ∧
    upsrows = [A24, A24.take 14] ∧
    hemispheres = ['S', 'N'] ∧
    digits = "0123456789".toList ∧
    alpha = A24 ++ A24.map Char.toLower := by decide

theorem scale_constants_documented :
    mgrs_base = 10 ∧ mgrs_tilelevel = 5 ∧ mgrs_tile = mgrs_base ^ mgrs_tilelevel.toNat ∧ mgrs_maxprec = mgrs_tilelevel + 6 ∧
    mgrs_mult * mgrs_tile = mgrs_base ^ mgrs_maxprec.toNat ∧ mgrs_utmrowperiod = 20 ∧ mgrs_utmevenrowshift = 5 ∧
    mgrs_maxutmSrow = 5 * mgrs_utmrowperiod := by decide


/-! ### `MGRS::Decode` splits exactly as the documented grammar says -/

/-- a digit is not a letter, a letter is not a digit, and neither "INV" nor a NUL byte can start a well-formed reference -/
theorem digit_not_alpha (c : Nat) (h : inSet digits c = true) : inSet alpha c = false := by
  have hm : c ∈ digits.map Char.toNat := by
    unfold inSet at h
    rw [List.any_eq_true] at h
    obtain ⟨ch, hch, he⟩ := h
    rw [List.mem_map]; exact ⟨ch, hch, by simpa using he⟩
  have : ∀ c ∈ digits.map Char.toNat, inSet alpha c = false := by decide
  exact this c hm

theorem takeWhile_all {α} (p : α → Bool) (l : List α) : (l.takeWhile p).all p = true := by
  induction l with
  | nil => rfl
  | cons a t ih => by_cases h : p a = true <;> simp [List.takeWhile, h, ih]

/-- the head of what `dropWhile` leaves fails the test -/
theorem dropWhile_head {α} (p : α → Bool) (l : List α) (a : α) (r : List α) (h : l.dropWhile p = a :: r) : p a = false := by
  induction l with
  | nil => simp at h
  | cons b t ih =>
    by_cases hb : p b = true
    · simp [List.dropWhile, hb] at h; exact ih h
    · simp [List.dropWhile, hb] at h
      obtain ⟨rfl, _⟩ := h
      simpa using hb

/-- **`decode_splits`**: an accepted reference that is not "INV…" is the concatenation of its four parts; the grid zone is 0–2 digits followed
    by one letter; the block is empty or two letters; easting and northing are digit strings of equal length, empty when the block is; and the
    parts are maximal (the byte after the leading digits is a letter, the one after the letters is not) -/
theorem decode_splits (s : List Nat) (p : Parts) (h : decode s = .ok p)
    (hinv : (decide (s.length ≥ 3) && (s.take 3).map upper == [73, 78, 86]) = false) :
    s = p.gridzone ++ p.block ++ p.easting ++ p.northing ∧
    (∃ d a, p.gridzone = d ++ [a] ∧ d.length ≤ 2 ∧ d.all (inSet digits) = true ∧ inSet alpha a = true) ∧
    (p.block.length = 0 ∨ p.block.length = 2) ∧ p.block.all (inSet alpha) = true ∧
    p.easting.length = p.northing.length ∧ p.easting.all (inSet digits) = true ∧ p.northing.all (inSet digits) = true ∧
    (p.block = [] → p.easting = [] ∧ p.northing = []) := by
  unfold decode at h
  rw [hinv] at h
  simp only [Bool.false_eq_true, if_false] at h
  have hsplit := List.takeWhile_append_dropWhile (p := inSet digits) (l := s)
  cases hr : s.dropWhile (inSet digits) with
  | nil => rw [hr] at h; cases h
  | cons a r =>
    rw [hr] at h hsplit
    simp only at h
    split_ifs at h with c1 c2 c3 c4 c5 c6
    cases h
    have hr2 := List.takeWhile_append_dropWhile (p := inSet alpha) (l := r)
    have hal : (r.takeWhile (inSet alpha)).all (inSet alpha) = true := takeWhile_all _ _
    generalize r.takeWhile (inSet alpha) = al at *
    generalize r.dropWhile (inSet alpha) = t at *
    dsimp only
    have tall : t.all (inSet digits) = true := by simpa using c5
    have teven : t.length % 2 = 0 := by omega
    have tsplit : t = t.take (t.length / 2) ++ t.drop (t.length / 2) := (List.take_append_drop _ _).symm
    refine ⟨?_, ⟨_, a, rfl, by simpa using c1, takeWhile_all _ _, by simpa using c2⟩, (by by_cases hh : (al.length = 0 ∨ al.length = 2); exact hh; exact absurd (by simp only [hh, decide_false, Bool.not_false]) c3), hal, ?_, ?_, ?_, ?_⟩
    · calc s = s.takeWhile (inSet digits) ++ a :: r := hsplit.symm
        _ = s.takeWhile (inSet digits) ++ a :: (al ++ t) := by rw [hr2]
        _ = _ := by simp only [List.append_assoc, List.cons_append, List.nil_append, List.take_append_drop]
    · simp only [List.length_take, List.length_drop]; omega
    · rw [List.all_eq_true] at tall ⊢; intro x hx; exact tall x (List.mem_of_mem_take hx)
    · rw [List.all_eq_true] at tall ⊢; intro x hx; exact tall x (List.mem_of_mem_drop hx)
    · intro hb
      have : al.length = 0 := by rw [hb]; rfl
      have ht0 : t = [] := by
        cases t with
        | nil => rfl
        | cons x xs => exact absurd ⟨this, by simp⟩ c4
      rw [ht0]; simp


theorem alpha_not_digit (c : Nat) (h : inSet alpha c = true) : inSet digits c = false := by
  cases hd : inSet digits c with
  | false => rfl
  | true => rw [digit_not_alpha c hd] at h; cases h

/-- `takeWhile` / `dropWhile` cut a list exactly where a run of passing elements is followed by nothing or by a failing one -/
theorem takeWhile_dropWhile_append {α} (p : α → Bool) (l r : List α) (hl : l.all p = true) (hr : ∀ x ∈ r.head?, p x = false) :
    (l ++ r).takeWhile p = l ∧ (l ++ r).dropWhile p = r := by
  induction l with
  | nil =>
    cases r with
    | nil => exact ⟨rfl, rfl⟩
    | cons x xs =>
      have hx : p x = false := hr x (by simp)
      simp [hx]
  | cons b t ih =>
    simp only [List.all_cons, Bool.and_eq_true] at hl
    obtain ⟨h1, h2⟩ := ih hl.2
    simp [hl.1, h1, h2]

/-- **`decode_complete`**: every byte string of the documented shape — 0–2 digits, a letter, nothing or two more letters and then two digit
    strings of equal length — is accepted and split into exactly those parts (I and O are not letters; a string beginning "INV" is the
    invalid marker instead) -/
theorem decode_complete (d : List Nat) (a : Nat) (blk e n : List Nat)
    (hd : d.length ≤ 2) (hda : d.all (inSet digits) = true) (ha : inSet alpha a = true)
    (hb : blk.length = 0 ∨ blk.length = 2) (hba : blk.all (inSet alpha) = true)
    (hen : e.length = n.length) (he : e.all (inSet digits) = true) (hn : n.all (inSet digits) = true)
    (hbe : blk = [] → e = [] ∧ n = [])
    (hinv : (decide ((d ++ [a] ++ blk ++ e ++ n).length ≥ 3) && ((d ++ [a] ++ blk ++ e ++ n).take 3).map upper == [73, 78, 86]) = false) :
    decode (d ++ [a] ++ blk ++ e ++ n) = .ok ⟨d ++ [a], blk, e, n⟩ := by
  unfold decode
  rw [hinv]
  simp only [Bool.false_eq_true, if_false]
  have e1 : d ++ [a] ++ blk ++ e ++ n = d ++ (a :: (blk ++ (e ++ n))) := by simp [List.append_assoc]
  rw [e1]
  obtain ⟨t1, t2⟩ := takeWhile_dropWhile_append (inSet digits) d (a :: (blk ++ (e ++ n))) hda
    (by intro x hx; simp at hx; subst hx; exact alpha_not_digit _ ha)
  rw [t1, t2]
  have hen' : ∀ x ∈ (e ++ n).head?, inSet alpha x = false := by
    intro x hx
    have hall : (e ++ n).all (inSet digits) = true := by rw [List.all_append, he, hn]; rfl
    have hm : x ∈ e ++ n := List.mem_of_mem_head? hx
    rw [List.all_eq_true] at hall
    exact digit_not_alpha x (hall x hm)
  obtain ⟨u1, u2⟩ := takeWhile_dropWhile_append (inSet alpha) blk (e ++ n) hba hen'
  simp only
  rw [u1, u2]
  have c1 : (!decide (d.length ≤ 2)) = false := by simp [hd]
  have c2 : (!inSet alpha a) = false := by simp [ha]
  have c3 : (!decide (blk.length = 0 ∨ blk.length = 2)) = false := by simp only [hb, decide_true, Bool.not_true]
  have c4 : ¬ (blk.length = 0 ∧ e ++ n ≠ []) := by
    rintro ⟨h0, hne⟩
    have : blk = [] := List.eq_nil_of_length_eq_zero h0
    obtain ⟨h1, h2⟩ := hbe this
    rw [h1, h2] at hne; exact hne rfl
  have c5 : (!(e ++ n).all (inSet digits)) = false := by rw [List.all_append, he, hn]; rfl
  have c6 : ¬ ((e ++ n).length % 2 = 1) := by rw [List.length_append]; omega
  have half : (e ++ n).length / 2 = e.length := by rw [List.length_append]; omega
  rw [c1, c2, c3, c5]
  simp only [Bool.false_eq_true, if_false, c4, c6, half]
  rw [List.take_left' rfl, List.drop_left' rfl]


/-! ### `Decode` on what `Forward` writes: grid zone = zone digits + band letter, block = column and row letters, then the two digit groups -/

theorem digit_inSet : ∀ k < 10, inSet digits (chr digits k).toNat = true := by decide
theorem latband_alpha : ∀ k < 20, inSet alpha (chr latband k).toNat = true := by decide
theorem utmcols_alpha : ∀ k < 3, ∀ i < 8, inSet alpha (chr (utmcols.getD k []) i).toNat = true := by decide
theorem utmrow_alpha : ∀ i < 20, inSet alpha (chr utmrow i).toNat = true := by decide
theorem upsband_alpha : ∀ k < 4, inSet alpha (chr upsband k).toNat = true := by decide
theorem upscols_alpha : ∀ k < 4, ∀ i < (upscols.getD k []).length, inSet alpha (chr (upscols.getD k []) i).toNat = true := by decide
theorem upsrows_alpha : ∀ k < 2, ∀ i < (upsrows.getD k []).length, inSet alpha (chr (upsrows.getD k []) i).toNat = true := by decide

theorem digitsW_inSet (w n : Nat) : (toBytes (digitsW digits 10 w n)).all (inSet digits) = true := by
  rw [List.all_eq_true]
  intro c hc
  unfold toBytes at hc
  rw [List.mem_map] at hc
  obtain ⟨ch, hch, rfl⟩ := hc
  obtain ⟨k, hk, rfl⟩ := digitsW_mem digits 10 (by decide) w n ch hch
  exact digit_inSet k hk

/-- **UTM**: `Decode` of the string `Forward` writes returns zone digits + band letter, the two block letters and the digit groups -/
theorem decode_forward_utm (zone : Int) (hz : 1 ≤ zone ∧ zone ≤ 60) (ix iy : Int) (hiy : 0 ≤ iy) (iband : Int) (hib : -10 ≤ iband ∧ iband < 10)
    (prec : Nat) (hxh : 1 ≤ ix / 100000000000 ∧ ix / 100000000000 ≤ 8) :
    decode (toBytes (utmString zone ix iy iband prec)) =
      .ok ⟨toBytes ((utmString zone ix iy iband prec).take 3), toBytes (((utmString zone ix iy iband prec).drop 3).take 2),
           toBytes (digitsW digits 10 prec ((ix - 100000000000 * (ix / 100000000000)) / 10 ^ (11 - prec)).toNat),
           toBytes (digitsW digits 10 prec ((iy - 100000000000 * (iy / 100000000000)) / 10 ^ (11 - prec)).toNat)⟩ := by
  obtain ⟨k1, k2, kcol, _, _, _⟩ := zone_facts zone hz
  obtain ⟨kbd, _, _⟩ := band_facts iband hib
  obtain ⟨kc8, _⟩ := col_facts (ix / 100000000000) hxh
  have yh0 : 0 ≤ iy / 100000000000 := Int.ediv_nonneg hiy (by omega)
  obtain ⟨kr20, _⟩ := row_facts (iy / 100000000000) zone yh0
  generalize hdx : (digitsW digits 10 prec ((ix - 100000000000 * (ix / 100000000000)) / 10 ^ (11 - prec)).toNat) = dx
  generalize hdy : (digitsW digits 10 prec ((iy - 100000000000 * (iy / 100000000000)) / 10 ^ (11 - prec)).toNat) = dy
  have hdxs : (toBytes dx).all (inSet digits) = true := by rw [← hdx]; exact digitsW_inSet _ _
  have hdys : (toBytes dy).all (inSet digits) = true := by rw [← hdy]; exact digitsW_inSet _ _
  have lx : (toBytes dx).length = prec := by rw [← hdx]; simp [toBytes, digitsW_length]
  have ly : (toBytes dy).length = prec := by rw [← hdy]; simp [toBytes, digitsW_length]
  have hS : toBytes (utmString zone ix iy iband prec) =
      [(chr digits (zone / 10).toNat).toNat, (chr digits (zone % 10).toNat).toNat] ++ [(chr latband (10 + iband).toNat).toNat] ++
      [(chr (utmcols.getD ((zone - 1) % 3).toNat []) (ix / 100000000000 - 1).toNat).toNat,
       (chr utmrow ((iy / 100000000000 + (if (zone - 1) % 2 = 1 then 5 else 0)) % 20).toNat).toNat] ++ toBytes dx ++ toBytes dy := by
    simp only [utmString, toBytes, List.map_append, List.map_cons, List.cons_append, List.nil_append, hdx, hdy]
  have h3 : toBytes ((utmString zone ix iy iband prec).take 3) =
      [(chr digits (zone / 10).toNat).toNat, (chr digits (zone % 10).toNat).toNat] ++ [(chr latband (10 + iband).toNat).toNat] := by
    simp [utmString, toBytes]
  have h2 : toBytes (((utmString zone ix iy iband prec).drop 3).take 2) =
      [(chr (utmcols.getD ((zone - 1) % 3).toNat []) (ix / 100000000000 - 1).toNat).toNat,
       (chr utmrow ((iy / 100000000000 + (if (zone - 1) % 2 = 1 then 5 else 0)) % 20).toNat).toNat] := by
    simp [utmString, toBytes]
  rw [hS, h3, h2]
  refine decode_complete _ _ _ _ _ (by simp) ?_ (latband_alpha _ kbd) (Or.inr rfl) ?_ (by rw [lx, ly]) hdxs hdys (by intro h; cases h) ?_
  · show (inSet digits _ && (inSet digits _ && true)) = true
    rw [digit_inSet _ k1, digit_inSet _ k2]; rfl
  · show (inSet alpha _ && (inSet alpha _ && true)) = true
    rw [utmcols_alpha _ kcol _ kc8, utmrow_alpha _ kr20]; rfl
  · have := digit_not_I _ k1
    simp [this]

/-- **UPS** likewise: the grid zone is the single letter A, B, Y or Z -/
theorem decode_forward_ups (northp : Bool) (ix iy : Int) (prec : Nat)
    (hN : northp = true → (13 ≤ ix / 100000000000 ∧ ix / 100000000000 < 27) ∧ (13 ≤ iy / 100000000000 ∧ iy / 100000000000 < 27))
    (hS : northp = false → (8 ≤ ix / 100000000000 ∧ ix / 100000000000 < 32) ∧ (8 ≤ iy / 100000000000 ∧ iy / 100000000000 < 32)) :
    decode (toBytes (upsString northp ix iy prec)) =
      .ok ⟨toBytes ((upsString northp ix iy prec).take 1), toBytes (((upsString northp ix iy prec).drop 1).take 2),
           toBytes (digitsW digits 10 prec ((ix - 100000000000 * (ix / 100000000000)) / 10 ^ (11 - prec)).toNat),
           toBytes (digitsW digits 10 prec ((iy - 100000000000 * (iy / 100000000000)) / 10 ^ (11 - prec)).toNat)⟩ := by
  generalize hdx : (digitsW digits 10 prec ((ix - 100000000000 * (ix / 100000000000)) / 10 ^ (11 - prec)).toNat) = dx
  generalize hdy : (digitsW digits 10 prec ((iy - 100000000000 * (iy / 100000000000)) / 10 ^ (11 - prec)).toNat) = dy
  have hdxs : (toBytes dx).all (inSet digits) = true := by rw [← hdx]; exact digitsW_inSet _ _
  have hdys : (toBytes dy).all (inSet digits) = true := by rw [← hdy]; exact digitsW_inSet _ _
  have lx : (toBytes dx).length = prec := by rw [← hdx]; simp [toBytes, digitsW_length]
  have ly : (toBytes dy).length = prec := by rw [← hdy]; simp [toBytes, digitsW_length]
  obtain ⟨s0, s1, s2, s3, s4, s5⟩ := ups_table_sizes
  obtain ⟨xh, hxh⟩ : ∃ xh, xh = ix / 100000000000 := ⟨_, rfl⟩
  obtain ⟨yh, hyh⟩ : ∃ yh, yh = iy / 100000000000 := ⟨_, rfl⟩
  rw [← hxh] at hdx
  rw [← hyh] at hdy
  have main : ∀ (ib : Nat) (hib : ib < 4) (cx cy : Int) (rr : Nat) (hrr : rr < 2)
      (hcx : (xh - cx).toNat < (upscols.getD ib []).length) (hcy : (yh - cy).toNat < (upsrows.getD rr []).length),
      decode ([(chr upsband ib).toNat] ++ [(chr (upscols.getD ib []) (xh - cx).toNat).toNat, (chr (upsrows.getD rr []) (yh - cy).toNat).toNat] ++
          toBytes dx ++ toBytes dy) =
        .ok ⟨[(chr upsband ib).toNat], [(chr (upscols.getD ib []) (xh - cx).toNat).toNat, (chr (upsrows.getD rr []) (yh - cy).toNat).toNat],
          toBytes dx, toBytes dy⟩ := by
    intro ib hib cx cy rr hrr hcx hcy
    have := decode_complete [] (chr upsband ib).toNat
      [(chr (upscols.getD ib []) (xh - cx).toNat).toNat, (chr (upsrows.getD rr []) (yh - cy).toNat).toNat] (toBytes dx) (toBytes dy)
      (by simp) (by simp) (upsband_alpha _ hib) (Or.inr rfl) (by show (inSet alpha _ && (inSet alpha _ && true)) = true; rw [upscols_alpha _ hib _ hcx, upsrows_alpha _ hrr _ hcy]; rfl)
      (by rw [lx, ly]) hdxs hdys (by intro h; cases h)
      (by have := upsband_not_I _ hib; simp [this])
    simpa using this
  unfold upsString
  simp only [← hxh, ← hyh, hdx, hdy]
  cases northp
  · obtain ⟨⟨x1, x2⟩, y1, y2⟩ := hS rfl
    by_cases he : xh ≥ 20
    · simp only [he, decide_true, Bool.false_eq_true, if_false, if_true, Nat.zero_add]
      have := main 1 (by omega) 20 8 0 (by omega) (by rw [s1]; omega) (by rw [s4]; omega)
      simpa [toBytes, hdx, hdy] using this
    · simp only [he, decide_false, Bool.false_eq_true, if_false, Nat.add_zero]
      have := main 0 (by omega) 8 8 0 (by omega) (by rw [s0]; omega) (by rw [s4]; omega)
      simpa [toBytes, hdx, hdy] using this
  · obtain ⟨⟨x1, x2⟩, y1, y2⟩ := hN rfl
    by_cases he : xh ≥ 20
    · simp only [he, decide_true, if_true, Nat.reduceAdd]
      have := main 3 (by omega) 20 13 1 (by omega) (by rw [s3]; omega) (by rw [s5]; omega)
      simpa [toBytes, hdx, hdy] using this
    · simp only [he, decide_false, Bool.false_eq_true, if_false, if_true, Nat.add_zero]
      have := main 2 (by omega) 13 13 1 (by omega) (by rw [s2]; omega) (by rw [s5]; omega)
      simpa [toBytes, hdx, hdy] using this

end GeoVerif.Props.C05
