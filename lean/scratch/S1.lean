import GeoVerif.Props.C08
namespace GeoVerif.Props.C08
open GeoVerif GeoVerif.Polygon

/-- one edge as the bookkeeping sees it: length, area term, crossing count -/
structure EdgeRec where
  s : ℚ
  S : ℚ
  cross : ℤ

/-- the edges laid down by the `Add*` operations of a history (no `Clear`), `cur` = the current vertex if there is one:
    a point after the first one is joined to its predecessor by the solver's inverse problem (crossings by `transit`), an
    edge goes where the solver's direct problem says (crossings by `transitdirect`), an edge before the first point is
    ignored -/
def edgesOf (B : Polygon.Backend) : Option Vertex → List Op → List EdgeRec
  | _, [] => []
  | none, .addPoint lat lon :: r => edgesOf B (some (lat, lon)) r
  | some p, .addPoint lat lon :: r =>
      ⟨toRat (B.inverse p.1 p.2 lat lon).1, toRat (B.inverse p.1 p.2 lat lon).2, transit p.2 lon⟩ :: edgesOf B (some (lat, lon)) r
  | none, .addEdge _ _ :: r => edgesOf B none r
  | some p, .addEdge azi s :: r =>
      ⟨toRat s, toRat (B.direct p.1 p.2 azi s).2.2, transitdirect p.2 (B.direct p.1 p.2 azi s).2.1⟩ ::
        edgesOf B (some ((B.direct p.1 p.2 azi s).1, (B.direct p.1 p.2 azi s).2.1)) r
  | c, .clear :: r => edgesOf B c r
  | c, .compute .. :: r => edgesOf B c r
  | c, .testPoint .. :: r => edgesOf B c r
  | c, .testEdge .. :: r => edgesOf B c r

/-- the current vertex of a state -/
def curOf (st : State) : Option Vertex := if st.num = 0 then none else some (st.lat1, st.lon1)

theorem run_cons (B : Polygon.Backend) (A : ℚ) (st : State) (op : Op) (r : List Op) :
    run B A st (op :: r) = run B A (exec B A st op).1 r := rfl

/-- **closed form of an arbitrary history** -/
theorem run_closed_form (B : Polygon.Backend) (A : ℚ) (ops : List Op) (hc : ∀ op ∈ ops, op.isClear = false) (st : State) :
    (run B A st ops).perimsum = st.perimsum + ((edgesOf B (curOf st) ops).map (·.s)).sum ∧
    (run B A st ops).areasum = st.areasum + (if st.polyline then 0 else ((edgesOf B (curOf st) ops).map (·.S)).sum) ∧
    (run B A st ops).crossings = st.crossings + (if st.polyline then 0 else ((edgesOf B (curOf st) ops).map (·.cross)).sum) ∧
    (run B A st ops).polyline = st.polyline := by
  induction ops generalizing st with
  | nil => simp [run, edgesOf]
  | cons op r ih =>
    have hr := fun st => ih (fun o ho => hc o (List.mem_cons_of_mem _ ho)) st
    have hop := hc op (by simp)
    rw [run_cons]
    obtain ⟨h1, h2, h3, h4⟩ := hr (exec B A st op).1
    rw [h1, h2, h3, h4]
    cases op with
    | clear => simp [Op.isClear] at hop
    | compute rv sg => simp only [exec, edgesOf]; exact ⟨trivial, rfl, rfl, trivial⟩
    | testPoint lat lon rv sg => simp only [exec, edgesOf]; exact ⟨trivial, rfl, rfl, trivial⟩
    | testEdge azi s rv sg => simp only [exec, edgesOf]; exact ⟨trivial, rfl, rfl, trivial⟩
    | addPoint lat lon =>
      by_cases h0 : st.num = 0
      · simp [exec, addPoint, h0, curOf, edgesOf]
      · cases hp : st.polyline <;> simp [exec, addPoint, h0, curOf, edgesOf, hp] <;> (try ring_nf) <;> (try simp)
    | addEdge azi s =>
      by_cases h0 : st.num = 0
      · simp [exec, addEdge, h0, curOf, edgesOf]
      · cases hp : st.polyline <;> simp [exec, addEdge, h0, curOf, edgesOf, hp] <;> (try ring_nf) <;> (try simp)

theorem effective_isAdd (ops : List Op) : ∀ op ∈ effective ops, op.isAdd = true := by
  unfold effective
  have key : ∀ (ops acc : List Op), (∀ op ∈ acc, op.isAdd = true) →
      ∀ op ∈ ops.foldl (fun acc op => if op.isClear then [] else if op.isAdd then acc ++ [op] else acc) acc, op.isAdd = true := by
    intro ops
    induction ops with
    | nil => intro acc h; simpa using h
    | cons o r ih =>
      intro acc h
      simp only [List.foldl_cons]
      apply ih
      split_ifs with h1 h2
      · simp
      · intro op hop
        rcases List.mem_append.mp hop with h' | h'
        · exact h op h'
        · simp at h'; subst h'; exact h2
      · exact h
  exact key ops [] (by simp)

theorem effective_no_clear_mem (ops : List Op) : ∀ op ∈ effective ops, op.isClear = false := by
  intro op h
  have := effective_isAdd ops op h
  cases op <;> simp_all [Op.isAdd, Op.isClear]

/-- an object with fewer than two vertices has accumulated nothing -/
def Fresh (st : State) : Prop := st.num < 2 → st.perimsum = 0 ∧ st.areasum = 0 ∧ st.crossings = 0

theorem fresh_exec (B : Polygon.Backend) (A : ℚ) (st : State) (op : Op) (h : Fresh st) : Fresh (exec B A st op).1 := by
  cases op with
  | clear => intro _; simp [exec, clear, init]
  | compute rv sg => exact h
  | testPoint lat lon rv sg => exact h
  | testEdge azi s rv sg => exact h
  | addPoint lat lon =>
    by_cases h0 : st.num = 0
    · intro _; have := h (by omega); simpa [exec, addPoint, h0] using this
    · intro hlt; simp [exec, addPoint, h0] at hlt; omega
  | addEdge azi s =>
    by_cases h0 : st.num = 0
    · intro _; have := h (by omega); simpa [exec, addEdge, h0] using this
    · intro hlt; simp [exec, addEdge, h0] at hlt; omega

theorem fresh_run (B : Polygon.Backend) (A : ℚ) (ops : List Op) (st : State) (h : Fresh st) : Fresh (run B A st ops) := by
  induction ops generalizing st with
  | nil => exact h
  | cons op r ih => rw [run_cons]; exact ih _ (fresh_exec B A st op h)

theorem fresh_init (pl : Bool) : Fresh (init pl) := fun _ => ⟨rfl, rfl, rfl⟩

/-- the edges of the polygon a history describes -/
def historyEdges (B : Polygon.Backend) (ops : List Op) : List EdgeRec := edgesOf B none (effective ops)

/-- sums of an arbitrary history (polygon mode): length, area term and crossing count of every edge laid down since the
    last `Clear`, whatever was queried in between -/
theorem sums_of_history (B : Polygon.Backend) (A : ℚ) (pl : Bool) (ops : List Op) :
    (run B A (init pl) ops).perimsum = ((historyEdges B ops).map (·.s)).sum ∧
    (run B A (init pl) ops).areasum = (if pl then 0 else ((historyEdges B ops).map (·.S)).sum) ∧
    (run B A (init pl) ops).crossings = (if pl then 0 else ((historyEdges B ops).map (·.cross)).sum) ∧
    (run B A (init pl) ops).polyline = pl ∧
    (run B A (init pl) ops).num = countV ops 0 := by
  have hc := run_closed_form B A (effective ops) (effective_no_clear_mem ops) (init pl)
  rw [← history_independent] at hc
  obtain ⟨h1, h2, h3, h4⟩ := hc
  refine ⟨?_, ?_, ?_, h4, num_eq_count B A (init pl) ops⟩
  · rw [h1]; simp [init, curOf, historyEdges]
  · rw [h2]; simp [init, curOf, historyEdges]
  · rw [h3]; simp [init, curOf, historyEdges]

/-- **(a) polyline mode, state**: whatever the history, a polyline never touches the area sum or the crossing counter -/
theorem polyline_never_touches_area (B : Polygon.Backend) (A : ℚ) (ops : List Op) :
    (run B A (init true) ops).areasum = 0 ∧ (run B A (init true) ops).crossings = 0 := by
  obtain ⟨_, h2, h3, _, _⟩ := sums_of_history B A true ops
  exact ⟨by simpa using h2, by simpa using h3⟩

/-- **(a) polyline mode, `Compute`**: after any history `Compute` returns the number of vertices and the sum of the lengths
    of the edges laid down since the last `Clear` (the path is not closed) and does not write the area -/
theorem polyline_compute (B : Polygon.Backend) (A : ℚ) (ops : List Op) (rv sg : Bool) :
    (exec B A (run B A (init true) ops) (.compute rv sg)).2 =
      some ⟨countV ops 0, some ((historyEdges B ops).map (·.s)).sum, none⟩ := by
  obtain ⟨h1, _, _, h4, h5⟩ := sums_of_history B A true ops
  have hf := fresh_run B A ops (init true) (fresh_init true)
  simp only [exec, compute, h4, if_true]
  split_ifs with hlt
  · have := (hf hlt).1
    rw [← h1, this, h5]
  · rw [h1, h5]

/-- **(a) polygon mode for comparison, `Compute`**: the perimeter is the sum of the edge lengths plus the closing edge, the
    area is `AreaReduce` of the sum of the area terms plus the closing edge's, with all the crossings -/
theorem polygon_compute (B : Polygon.Backend) (A : ℚ) (ops : List Op) (rv sg : Bool) (h2 : 2 ≤ countV ops 0) :
    let st := run B A (init false) ops
    let k := B.inverse st.lat1 st.lon1 st.lat0 st.lon0
    (exec B A st (.compute rv sg)).2 =
      some ⟨countV ops 0, some (((historyEdges B ops).map (·.s)).sum + toRat k.1),
        some (some (areaReduce (((historyEdges B ops).map (·.S)).sum + toRat k.2) A
          (((historyEdges B ops).map (·.cross)).sum + transit st.lon1 st.lon0) rv sg))⟩ := by
  intro st k
  obtain ⟨h1, h2', h3, h4, h5⟩ := sums_of_history B A false ops
  have hn : ¬ st.num < 2 := by show ¬ (run B A (init false) ops).num < 2; rw [h5]; omega
  simp only [exec, compute, hn, if_false]
  have hp : st.polyline = false := h4
  simp only [hp, Bool.false_eq_true, if_false]
  show some (Result.mk (run B A (init false) ops).num _ _) = _
  rw [h5, h1, h2', h3]; simp only [Bool.false_eq_true, if_false]; rfl

/-- **(a) dataflow**: in polyline mode nothing that is returned or stored depends on the solver's area output `S12` (nor on
    the second inverse problem of `TestPoint`): two solvers that agree on distances and positions give identical traces -/
theorem polyline_S12_irrelevant (B B' : Polygon.Backend) (A : ℚ)
    (hinv : ∀ a b c d, (B.inverse a b c d).1 = (B'.inverse a b c d).1)
    (hdir : ∀ a b c d, (B.direct a b c d).1 = (B'.direct a b c d).1 ∧ (B.direct a b c d).2.1 = (B'.direct a b c d).2.1)
    (ops : List Op) (st : State) (hp : st.polyline = true) :
    trace B A st ops = trace B' A st ops := by
  induction ops generalizing st with
  | nil => rfl
  | cons op r ih =>
    have he : exec B A st op = exec B' A st op := by
      cases op with
      | clear => rfl
      | addPoint lat lon => simp [exec, addPoint, hp, hinv]
      | addEdge azi s => simp [exec, addEdge, hp, (hdir _ _ _ _).1, (hdir _ _ _ _).2]
      | compute rv sg => simp [exec, compute, hp]
      | testPoint lat lon rv sg => simp [exec, testPoint, hp, hinv]
      | testEdge azi s rv sg => simp [exec, testEdge, hp]
    simp only [trace, he]
    rw [ih _ (by rw [exec_polyline]; exact hp)]

/-- every query on a polyline leaves the area reference unwritten -/
theorem polyline_results (B : Polygon.Backend) (A : ℚ) (pre : List Op) (q : Op) (res : Result)
    (h : (exec B A (run B A (init true) pre) q).2 = some res) : res.area = none := by
  have hp : (run B A (init true) pre).polyline = true := (sums_of_history B A true pre).2.2.2.1
  generalize run B A (init true) pre = st at h hp
  cases q with
  | clear => simp [exec] at h
  | addPoint => simp [exec] at h
  | addEdge => simp [exec] at h
  | compute rv sg => simp only [exec, Option.some.injEq] at h; subst h; simp [compute, hp]; split_ifs <;> rfl
  | testPoint lat lon rv sg => simp only [exec, Option.some.injEq] at h; subst h; simp [testPoint, hp]; split_ifs <;> rfl
  | testEdge azi s rv sg => simp only [exec, Option.some.injEq] at h; subst h; simp [testEdge, hp]; split_ifs <;> rfl

end GeoVerif.Props.C08
