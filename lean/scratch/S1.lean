import GeoVerif.Model.TM
namespace GeoVerif.Props.C06
open GeoVerif GeoVerif.TM

theorem neg_neg (x : F64) : F64.neg (F64.neg x) = x := by cases x <;> simp [F64.neg]

/-- `|x|` as the wrapper forms it: multiply by the sign flag -/
def fabsS (x : F64) : F64 := mulSign (sgn x.signbit) x

theorem fabsS_neg (x : F64) : fabsS (F64.neg x) = fabsS x := by
  cases x with
  | nan => rfl
  | inf s => cases s <;> simp [fabsS, mulSign, sgn, F64.neg, F64.signbit]
  | fin s m e => cases s <;> simp [fabsS, mulSign, sgn, F64.neg, F64.signbit]

theorem sgn_neg (x : F64) (h : x.isNaN = false) : sgn (F64.neg x).signbit = - sgn x.signbit := by
  cases x with
  | nan => simp [F64.isNaN] at h
  | inf s => cases s <;> simp [sgn, F64.neg, F64.signbit]
  | fin s m e => cases s <;> simp [sgn, F64.neg, F64.signbit]

theorem mulSign_neg (s : Int) (hs : s = 1 ∨ s = -1) (x : F64) : mulSign (-s) x = F64.neg (mulSign s x) := by
  rcases hs with rfl | rfl <;> simp [mulSign, neg_neg]

theorem sgn_sign (b : Bool) : sgn b = 1 ∨ sgn b = -1 := by cases b <;> simp [sgn]

theorem forward_lat_parity (c : Cfg) (hc : c.ext = false) (K : F64 → F64 → KOut) (lat d : F64)
    (hn : lat.isNaN = false)
    (hb : ((fwdFoldD false lat d).back && F64.eq (fwdFoldD false lat d).p 0) = false) :
    let r := forwardD c K lat d
    let r' := forwardD c K (F64.neg lat) d
    r'.u = r.u ∧ r'.v = F64.neg r.v ∧ r'.graw = F64.neg r.graw ∧ r'.k = r.k := by
  have h1 := fabsS_neg lat
  have h2 := sgn_neg lat hn
  unfold fabsS at h1
  simp only [forwardD, fwdFoldD, fwdUnfold, gammaRaw, hc, Bool.not_false, Bool.true_and] at hb ⊢
  rw [h1, h2]
  simp only [hb]
  rcases sgn_sign lat.signbit with h | h <;> rcases sgn_sign d.signbit with h' | h' <;> simp [h, h', mulSign, neg_neg]
end GeoVerif.Props.C06
