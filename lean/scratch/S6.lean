import GeoVerif.Props.C08
namespace GeoVerif.Props.C08
open GeoVerif GeoVerif.Polygon

/-- **(a) for the concrete record**: whatever the history, both words of `_areasum` of a polyline stay `+0` and
    `_crossings` stays 0 -/
theorem polyline_never_touches_area_record (B : Polygon.Backend) (A : F64) (ops : List Op) :
    (PolygonF.run B A (PolygonF.init true) ops).areasum = Accum.set 0 ∧
    (PolygonF.run B A (PolygonF.init true) ops).crossings = 0 ∧
    (PolygonF.run B A (PolygonF.init true) ops).polyline = true := by
  have key : ∀ (ops : List Op) (st : PolygonF.StateF), st.areasum = Accum.set 0 → st.crossings = 0 → st.polyline = true →
      (PolygonF.run B A st ops).areasum = Accum.set 0 ∧ (PolygonF.run B A st ops).crossings = 0 ∧
      (PolygonF.run B A st ops).polyline = true := by
    intro ops
    induction ops with
    | nil => intro st h1 h2 h3; exact ⟨h1, h2, h3⟩
    | cons op r ih =>
      intro st h1 h2 h3
      have hr : PolygonF.run B A st (op :: r) = PolygonF.run B A (PolygonF.exec B A st op).1 r := rfl
      rw [hr]
      apply ih
      · cases op <;> simp only [PolygonF.exec, PolygonF.clear, PolygonF.init, PolygonF.addPoint, PolygonF.addEdge] <;>
          (try split_ifs) <;> simp_all
      · cases op <;> simp only [PolygonF.exec, PolygonF.clear, PolygonF.init, PolygonF.addPoint, PolygonF.addEdge] <;>
          (try split_ifs) <;> simp_all
      · rw [execF_polyline]; exact h3
  exact key ops _ rfl rfl rfl

/-- the discrete part of the record — count, crossing counter, the four coordinates, the mode — is the same in the
    bit-level record and in the exact-sum model, for every history and every solver (the two differ only in how the
    sums are held) -/
structure SameDiscrete (st : State) (sf : PolygonF.StateF) : Prop where
  num : st.num = sf.num
  cross : st.crossings = sf.crossings
  lat0 : st.lat0 = sf.lat0
  lon0 : st.lon0 = sf.lon0
  lat1 : st.lat1 = sf.lat1
  lon1 : st.lon1 = sf.lon1
  poly : st.polyline = sf.polyline

theorem record_discrete_agrees (B : Polygon.Backend) (A : ℚ) (AF : F64) (ops : List Op) (st : State) (sf : PolygonF.StateF)
    (h : SameDiscrete st sf) : SameDiscrete (run B A st ops) (PolygonF.run B AF sf ops) := by
  induction ops generalizing st sf with
  | nil => exact h
  | cons op r ih =>
    have hr : PolygonF.run B AF sf (op :: r) = PolygonF.run B AF (PolygonF.exec B AF sf op).1 r := rfl
    rw [run_cons, hr]
    apply ih
    obtain ⟨h1, h2, h3, h4, h5, h6, h7⟩ := h
    cases op with
    | clear => simp only [exec, PolygonF.exec, clear, PolygonF.clear, h7]; exact ⟨rfl, rfl, rfl, rfl, rfl, rfl, rfl⟩
    | compute rv sg => exact ⟨h1, h2, h3, h4, h5, h6, h7⟩
    | testPoint lat lon rv sg => exact ⟨h1, h2, h3, h4, h5, h6, h7⟩
    | testEdge azi s rv sg => exact ⟨h1, h2, h3, h4, h5, h6, h7⟩
    | addPoint lat lon =>
      by_cases h0 : sf.num = 0
      · simp only [exec, PolygonF.exec, addPoint, PolygonF.addPoint, h1, h0, if_true]
        exact ⟨rfl, h2, rfl, rfl, rfl, rfl, h7⟩
      · simp only [exec, PolygonF.exec, addPoint, PolygonF.addPoint, h1, h0, if_false, h2, h6, h7]
        exact ⟨rfl, rfl, h3, h4, rfl, rfl, rfl⟩
    | addEdge azi s =>
      by_cases h0 : sf.num = 0
      · simp only [exec, PolygonF.exec, addEdge, PolygonF.addEdge, h1, h0, if_true]
        exact ⟨h1, h2, h3, h4, h5, h6, h7⟩
      · simp only [exec, PolygonF.exec, addEdge, PolygonF.addEdge, h1, h0, if_false, h2, h5, h6, h7]
        exact ⟨rfl, rfl, h3, h4, rfl, rfl, rfl⟩

end GeoVerif.Props.C08
