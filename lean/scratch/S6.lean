import GeoVerif.Series.TMSeries
open GeoVerif.Series GeoVerif.Series.TMS GeoVerif
def badAlp : List Rat := (315564 : Rat) :: Gen.TMSeries.alpcoeff.drop 1
def alpBad : Trig := Trig.ofSin ((List.range TM.N).map fun i => coeffPoly badAlp (i + 1))
#eval Trig.isZero NP H (Trig.sub NP H alpBad (Trig.shift NP H TM.N betS alpBad))
#eval (Trig.sub NP H alpBad (Trig.shift NP H TM.N betS alpBad)).gs 1
-- a wrong highest-order entry of the last block
def badBet : List Rat := Gen.TMSeries.betcoeff.take 25 ++ [(20648694 : Rat), 638668800]
def betBad : Trig := Trig.ofSin ((List.range TM.N).map fun i => coeffPoly badBet (i + 1))
#eval Trig.isZero NP H (Trig.sub NP H alpS (Trig.shift NP H TM.N betBad alpS))
set_option maxRecDepth 100000 in
theorem t1 : checkRevertGF = true := by decide +kernel
set_option maxRecDepth 100000 in
theorem t2 : checkRevertFG = true := by decide +kernel
theorem t3 : checkB1 = true := by decide +kernel
theorem t4 : checkShape = true := by decide +kernel
#print axioms t1
