import GeoVerif.Props.C08
namespace GeoVerif.Props.C08
open GeoVerif GeoVerif.Polygon

def curOf (st : State) : Option Vertex := if st.num = 0 then none else some (st.lat1, st.lon1)
theorem run_cons (B : Polygon.Backend) (A : ℚ) (st : State) (op : Op) (r : List Op) :
    run B A st (op :: r) = run B A (exec B A st op).1 r := rfl

/-! ### (c) a polygon built with `AddEdge` is the polygon through the vertices the solver's `Direct` returns -/

/-- `AreaReduce` sees the crossing count only through its parity -/
theorem areaReduce_parity (area A : ℚ) (c c' : ℤ) (h : c % 2 = c' % 2) (rv sg : Bool) :
    areaReduce area A c rv sg = areaReduce area A c' rv sg := by
  unfold areaReduce; rw [h]

/-- two objects that differ at most in the value (not the parity) of the crossing counter -/
structure Sim (a b : State) : Prop where
  num : a.num = b.num
  cross : a.crossings % 2 = b.crossings % 2
  area : a.areasum = b.areasum
  perim : a.perimsum = b.perimsum
  lat0 : a.lat0 = b.lat0
  lon0 : a.lon0 = b.lon0
  lat1 : a.lat1 = b.lat1
  lon1 : a.lon1 = b.lon1
  poly : a.polyline = b.polyline

theorem Sim.refl (a : State) : Sim a a := ⟨rfl, rfl, rfl, rfl, rfl, rfl, rfl, rfl, rfl⟩

/-- such objects answer every query identically … -/
theorem sim_query (B : Polygon.Backend) (A : ℚ) {a b : State} (h : Sim a b) (q : Op) : (exec B A a q).2 = (exec B A b q).2 := by
  obtain ⟨h1, h2, h3, h4, h5, h6, h7, h8, h9⟩ := h
  cases q with
  | clear => rfl
  | addPoint => rfl
  | addEdge => rfl
  | compute rv sg =>
    simp only [exec, compute, h1, h3, h4, h5, h6, h7, h8, h9]
    rw [areaReduce_parity _ A (a.crossings + _) (b.crossings + transit b.lon1 b.lon0) (by omega)]
  | testPoint lat lon rv sg =>
    simp only [exec, testPoint, h1, h3, h4, h5, h6, h7, h8, h9]
    rw [areaReduce_parity _ A (a.crossings + _ + _) (b.crossings + transit b.lon1 lon + transit lon b.lon0) (by omega)]
  | testEdge azi s rv sg =>
    simp only [exec, testEdge, h1, h3, h4, h5, h6, h7, h8, h9]
    rw [areaReduce_parity _ A (a.crossings + _ + _) (b.crossings + transitdirect b.lon1 (B.direct b.lat1 b.lon1 azi s).2.1 +
      transit (B.direct b.lat1 b.lon1 azi s).2.1 b.lon0) (by omega)]

/-- … and stay so under every operation -/
theorem sim_exec (B : Polygon.Backend) (A : ℚ) {a b : State} (h : Sim a b) (op : Op) : Sim (exec B A a op).1 (exec B A b op).1 := by
  obtain ⟨h1, h2, h3, h4, h5, h6, h7, h8, h9⟩ := h
  cases op with
  | clear => simp only [exec, clear, h9]; exact Sim.refl _
  | compute rv sg => exact ⟨h1, h2, h3, h4, h5, h6, h7, h8, h9⟩
  | testPoint lat lon rv sg => exact ⟨h1, h2, h3, h4, h5, h6, h7, h8, h9⟩
  | testEdge azi s rv sg => exact ⟨h1, h2, h3, h4, h5, h6, h7, h8, h9⟩
  | addPoint lat lon =>
    by_cases h0 : b.num = 0
    · simp only [exec, addPoint, h1, h0, if_true]
      exact ⟨rfl, h2, h3, h4, rfl, rfl, rfl, rfl, h9⟩
    · simp only [exec, addPoint, h1, h0, if_false, h3, h4, h7, h8, h9]
      refine ⟨rfl, ?_, rfl, rfl, h5, h6, rfl, rfl, rfl⟩
      show (if b.polyline then a.crossings else a.crossings + transit b.lon1 lon) % 2 = (if b.polyline then b.crossings else b.crossings + transit b.lon1 lon) % 2
      split_ifs <;> omega
  | addEdge azi s =>
    by_cases h0 : b.num = 0
    · simp only [exec, addEdge, h1, h0, if_true]
      exact ⟨h1, h2, h3, h4, h5, h6, h7, h8, h9⟩
    · simp only [exec, addEdge, h1, h0, if_false, h3, h4, h7, h8, h9]
      refine ⟨rfl, ?_, rfl, rfl, h5, h6, rfl, rfl, rfl⟩
      show (if b.polyline then a.crossings else a.crossings + _) % 2 = (if b.polyline then b.crossings else b.crossings + _) % 2
      split_ifs <;> omega

/-- the solver contract for one edge: the inverse problem between the start `p` of the edge and the end its direct problem
    returns gives back the edge (same length, same area term), and the two crossing counters agree in parity
    (`transitdirect_transit_parity` below: true whenever the end longitude is the start longitude plus `AngDiff`) -/
def Consistent (B : Polygon.Backend) (p : Vertex) (azi s : F64) : Prop :=
  toRat (B.inverse p.1 p.2 (B.direct p.1 p.2 azi s).1 (B.direct p.1 p.2 azi s).2.1).1 = toRat s ∧
  toRat (B.inverse p.1 p.2 (B.direct p.1 p.2 azi s).1 (B.direct p.1 p.2 azi s).2.1).2 = toRat (B.direct p.1 p.2 azi s).2.2 ∧
  (transitdirect p.2 (B.direct p.1 p.2 azi s).2.1 - transit p.2 (B.direct p.1 p.2 azi s).2.1) % 2 = 0

/-- one step: adding the edge and adding the point it leads to keep the objects similar -/
theorem sim_edge_point (B : Polygon.Backend) (A : ℚ) {a b : State} (h : Sim a b) (azi s : F64)
    (hc : b.num ≠ 0 → Consistent B (b.lat1, b.lon1) azi s) :
    Sim (exec B A a (.addEdge azi s)).1
      (if b.num = 0 then b else (exec B A b (.addPoint (B.direct b.lat1 b.lon1 azi s).1 (B.direct b.lat1 b.lon1 azi s).2.1)).1) := by
  obtain ⟨h1, h2, h3, h4, h5, h6, h7, h8, h9⟩ := h
  by_cases h0 : b.num = 0
  · simp only [exec, addEdge, h1, h0, if_true]
    exact ⟨h1, h2, h3, h4, h5, h6, h7, h8, h9⟩
  · obtain ⟨c1, c2, c3⟩ := hc h0
    simp only [exec, addEdge, addPoint, h1, h0, if_false, h3, h4, h7, h8, h9, c1, c2]
    refine ⟨rfl, ?_, rfl, rfl, h5, h6, rfl, rfl, rfl⟩
    show (if b.polyline then a.crossings else a.crossings + _) % 2 = (if b.polyline then b.crossings else b.crossings + _) % 2
    split_ifs
    · exact h2
    · simp only at c3; omega

/-- the history in which every edge has been replaced by the point it leads to (`cur` = the current vertex) -/
def pointsFor (B : Polygon.Backend) : Option Vertex → List Op → List Op
  | _, [] => []
  | _, .clear :: r => .clear :: pointsFor B none r
  | _, .addPoint lat lon :: r => .addPoint lat lon :: pointsFor B (some (lat, lon)) r
  | none, .addEdge _ _ :: r => pointsFor B none r
  | some p, .addEdge azi s :: r =>
      .addPoint (B.direct p.1 p.2 azi s).1 (B.direct p.1 p.2 azi s).2.1 ::
        pointsFor B (some ((B.direct p.1 p.2 azi s).1, (B.direct p.1 p.2 azi s).2.1)) r
  | c, .compute rv sg :: r => .compute rv sg :: pointsFor B c r
  | c, .testPoint lat lon rv sg :: r => .testPoint lat lon rv sg :: pointsFor B c r
  | c, .testEdge azi s rv sg :: r => .testEdge azi s rv sg :: pointsFor B c r

/-- the solver contract along a history: every edge that is actually laid down is `Consistent` -/
def AllConsistent (B : Polygon.Backend) : Option Vertex → List Op → Prop
  | _, [] => True
  | _, .clear :: r => AllConsistent B none r
  | _, .addPoint lat lon :: r => AllConsistent B (some (lat, lon)) r
  | none, .addEdge _ _ :: r => AllConsistent B none r
  | some p, .addEdge azi s :: r =>
      Consistent B p azi s ∧ AllConsistent B (some ((B.direct p.1 p.2 azi s).1, (B.direct p.1 p.2 azi s).2.1)) r
  | c, .compute _ _ :: r => AllConsistent B c r
  | c, .testPoint _ _ _ _ :: r => AllConsistent B c r
  | c, .testEdge _ _ _ _ :: r => AllConsistent B c r

/-- what the queries of a history return, in order -/
def answers (B : Polygon.Backend) (A : ℚ) (st : State) (ops : List Op) : List Result :=
  (trace B A st ops).filterMap (·.2)

theorem answers_cons (B : Polygon.Backend) (A : ℚ) (st : State) (op : Op) (r : List Op) :
    answers B A st (op :: r) = ((exec B A st op).2.toList) ++ answers B A (exec B A st op).1 r := by
  unfold answers
  simp only [trace, List.filterMap_cons]
  cases (exec B A st op).2 <;> simp

/-- **(c) edges as points**: in every history (any mixture of the six operations) whose laid-down edges satisfy the solver
    contract, replacing each `AddEdge` by `AddPoint` of the vertex the solver's direct problem returns changes no answer
    of any query, and the final objects differ at most in the value (not the parity) of the crossing counter -/
theorem edges_as_points (B : Polygon.Backend) (A : ℚ) (ops : List Op) (a b : State) (h : Sim a b)
    (hcons : AllConsistent B (curOf b) ops) :
    answers B A a ops = answers B A b (pointsFor B (curOf b) ops) ∧
    Sim (run B A a ops) (run B A b (pointsFor B (curOf b) ops)) := by
  induction ops generalizing a b with
  | nil => exact ⟨rfl, h⟩
  | cons op r ih =>
    have hq := sim_query B A h op
    cases op with
    | clear =>
      have hs := sim_exec B A h .clear
      have hcur : curOf (exec B A b .clear).1 = none := by simp [exec, clear, init, curOf]
      have := ih _ _ hs (by rw [hcur]; exact hcons)
      rw [hcur] at this
      simp only [pointsFor, answers_cons, run_cons]
      exact ⟨by rw [this.1, hq], this.2⟩
    | addPoint lat lon =>
      have hs := sim_exec B A h (.addPoint lat lon)
      have hcur : curOf (exec B A b (.addPoint lat lon)).1 = some (lat, lon) := by
        by_cases h0 : b.num = 0 <;> simp [exec, addPoint, curOf, h0]
      have := ih _ _ hs (by rw [hcur]; exact hcons)
      rw [hcur] at this
      simp only [pointsFor, answers_cons, run_cons]
      exact ⟨by rw [this.1, hq], this.2⟩
    | compute rv sg =>
      have := ih _ _ (sim_exec B A h (.compute rv sg)) hcons
      simp only [pointsFor, answers_cons, run_cons]
      exact ⟨by rw [hq]; exact congrArg _ this.1, this.2⟩
    | testPoint lat lon rv sg =>
      have := ih _ _ (sim_exec B A h (.testPoint lat lon rv sg)) hcons
      simp only [pointsFor, answers_cons, run_cons]
      exact ⟨by rw [hq]; exact congrArg _ this.1, this.2⟩
    | testEdge azi s rv sg =>
      have := ih _ _ (sim_exec B A h (.testEdge azi s rv sg)) hcons
      simp only [pointsFor, answers_cons, run_cons]
      exact ⟨by rw [hq]; exact congrArg _ this.1, this.2⟩
    | addEdge azi s =>
      by_cases h0 : b.num = 0
      · have hcur : curOf b = none := by simp [curOf, h0]
        rw [hcur] at hcons ⊢
        have hs := sim_edge_point B A h azi s (fun hne => absurd h0 hne)
        rw [if_pos h0] at hs
        have := ih _ _ hs (by rw [hcur]; exact hcons)
        rw [hcur] at this
        simp only [pointsFor, answers_cons, run_cons]
        exact ⟨by simpa [exec] using this.1, this.2⟩
      · have hcur : curOf b = some (b.lat1, b.lon1) := by simp [curOf, h0]
        rw [hcur] at hcons ⊢
        obtain ⟨hc1, hc2⟩ := hcons
        have hs := sim_edge_point B A h azi s (fun _ => hc1)
        rw [if_neg h0] at hs
        have hcur' : curOf (exec B A b (.addPoint (B.direct b.lat1 b.lon1 azi s).1 (B.direct b.lat1 b.lon1 azi s).2.1)).1
            = some ((B.direct b.lat1 b.lon1 azi s).1, (B.direct b.lat1 b.lon1 azi s).2.1) := by
          simp [exec, addPoint, curOf, h0]
        have := ih _ _ hs (by rw [hcur']; exact hc2)
        rw [hcur'] at this
        simp only [pointsFor, answers_cons, run_cons]
        exact ⟨by simpa [exec] using this.1, this.2⟩

end GeoVerif.Props.C08
