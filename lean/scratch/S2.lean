import GeoVerif.Props.C05
namespace GeoVerif.Props.C05
open GeoVerif GeoVerif.MGRS GeoVerif.Grid GeoVerif.Digits Gen.UTM

/-! ### prefix law and re-encode law at the level of the strings (UTM and UPS) -/

/-- the digit group `Forward` writes for a coordinate `ix = ⌊10⁶ x⌋` at precision `prec` -/
def digitGroup (ix : Int) (prec : Nat) : List Char :=
  digitsW digits 10 prec ((ix - 100000000000 * (ix / 100000000000)) / 10 ^ (11 - prec)).toNat

theorem utmString_parts (zone ix iy iband : Int) (prec : Nat) :
    utmString zone ix iy iband prec = (utmString zone ix iy iband 0) ++ digitGroup ix prec ++ digitGroup iy prec := by
  simp [utmString, digitGroup, digitsW]

theorem upsString_parts (northp : Bool) (ix iy : Int) (prec : Nat) :
    upsString northp ix iy prec = (upsString northp ix iy 0) ++ digitGroup ix prec ++ digitGroup iy prec := by
  simp [upsString, digitGroup, digitsW]

/-- the digit group at precision `p` is a prefix of the one at `p + 1` (truncation, not rounding) -/
theorem digitGroup_prefix (ix : Int) (p : Nat) (hp : p < 11) : digitGroup ix p <+: digitGroup ix (p + 1) := by
  unfold digitGroup
  have r0 : 0 ≤ ix - 100000000000 * (ix / 100000000000) := by omega
  obtain ⟨a, ha⟩ := Int.eq_ofNat_of_zero_le r0
  rw [ha]
  have e : ∀ k : Nat, ((a : Int) / 10 ^ k).toNat = a / 10 ^ k := by
    intro k
    have : ((a : Int) / 10 ^ k) = ((a / 10 ^ k : Nat) : Int) := by push_cast; rfl
    rw [this, Int.toNat_natCast]
  rw [e, e]
  exact digits_prefix a p hp

/-- **prefix law, UTM and UPS**: going from precision `p` to `p + 1` keeps the zone digits and the three letters and extends each digit
    group by one digit -/
theorem prefix_law_utm (zone ix iy iband : Int) (p : Nat) (hp : p < 11) :
    ∃ head, utmString zone ix iy iband p = head ++ digitGroup ix p ++ digitGroup iy p ∧
      utmString zone ix iy iband (p + 1) = head ++ digitGroup ix (p + 1) ++ digitGroup iy (p + 1) ∧ head.length = 5 ∧
      digitGroup ix p <+: digitGroup ix (p + 1) ∧ digitGroup iy p <+: digitGroup iy (p + 1) :=
  ⟨utmString zone ix iy iband 0, utmString_parts _ _ _ _ _, utmString_parts _ _ _ _ _, by simp [utmString, digitsW],
    digitGroup_prefix ix p hp, digitGroup_prefix iy p hp⟩

theorem prefix_law_ups (northp : Bool) (ix iy : Int) (p : Nat) (hp : p < 11) :
    ∃ head, upsString northp ix iy p = head ++ digitGroup ix p ++ digitGroup iy p ∧
      upsString northp ix iy (p + 1) = head ++ digitGroup ix (p + 1) ++ digitGroup iy (p + 1) ∧ head.length = 3 ∧
      digitGroup ix p <+: digitGroup ix (p + 1) ∧ digitGroup iy p <+: digitGroup iy (p + 1) :=
  ⟨upsString northp ix iy 0, upsString_parts _ _ _ _, upsString_parts _ _ _ _, by simp [upsString, digitsW],
    digitGroup_prefix ix p hp, digitGroup_prefix iy p hp⟩

/-- the centre (in units of 10⁻⁶ m, rounded down: what `⌊10⁶ x⌋` gives for the centre `Reverse` returns) of the square of `ix` at precision `prec` -/
def centre (ix : Int) (prec : Nat) : Int := (ix / 10 ^ (11 - prec)) * 10 ^ (11 - prec) + 10 ^ (11 - prec) / 2

theorem centre_same_square (ix : Int) (hix : 0 ≤ ix) (prec : Nat) (hp : prec ≤ 11) :
    0 ≤ centre ix prec ∧ centre ix prec / 100000000000 = ix / 100000000000 ∧
    (centre ix prec - 100000000000 * (centre ix prec / 100000000000)) / 10 ^ (11 - prec) =
      (ix - 100000000000 * (ix / 100000000000)) / 10 ^ (11 - prec) := by
  unfold centre
  have hc : prec = 0 ∨ prec = 1 ∨ prec = 2 ∨ prec = 3 ∨ prec = 4 ∨ prec = 5 ∨ prec = 6 ∨ prec = 7 ∨ prec = 8 ∨ prec = 9 ∨ prec = 10 ∨ prec = 11 := by omega
  rcases hc with rfl | rfl | rfl | rfl | rfl | rfl | rfl | rfl | rfl | rfl | rfl | rfl <;>
    simp only [Nat.sub_zero, Nat.reduceSub, Int.reducePow, Nat.sub_self, Int.pow_zero] <;> omega

/-- **re-encode law, UTM**: the centre of the square of (ix, iy) at precision `prec` lies in the same 100 km tile and has the same digit groups, so
    `Forward` of it — with any latitude band `iband'` that passes `Forward`'s own row-consistency test for that tile — writes the same string
    except for the band letter, which is that of `iband'` (the same string when the band is the same) -/
theorem reencode_utm (zone : Int) (hz : 1 ≤ zone ∧ zone ≤ 60) (northp : Bool) (ix iy : Int) (hix : 0 ≤ ix) (hiy : 0 ≤ iy)
    (iband iband' : Int) (prec : Nat) (hprec : prec ≤ 11)
    (hrow' : utmRow iband' (ix / 100000000000 - 1) (iy / 100000000000 % 20) = iy / 100000000000 - (if northp then 0 else 100)) :
    encodeInt zone northp (centre ix prec) (centre iy prec) iband' prec = .ok (utmString zone ix iy iband' prec) ∧
    utmString zone ix iy iband' prec = (utmString zone ix iy iband prec).set 2 (chr latband (10 + iband').toNat) ∧
    (iband' = iband → utmString zone ix iy iband' prec = utmString zone ix iy iband prec) := by
  obtain ⟨cx0, cx1, cx2⟩ := centre_same_square ix hix prec hprec
  obtain ⟨cy0, cy1, cy2⟩ := centre_same_square iy hiy prec hprec
  have cx3 := cx2; rw [cx1] at cx3
  have cy3 := cy2; rw [cy1] at cy3
  refine ⟨?_, ?_, fun h => by rw [h]⟩
  · have h := encodeInt_utm zone hz northp (centre ix prec) (centre iy prec) cx0 cy0 iband' prec hprec (by rw [cx1, cy1]; exact hrow')
    rw [h]
    unfold utmString
    simp only [cx1, cy1, cx3, cy3]
  · simp [utmString]

/-- **re-encode law, UPS**: `Forward` of the centre of the square writes the same string (there is no band letter to change) -/
theorem reencode_ups (northp : Bool) (ix iy : Int) (hix : 0 ≤ ix) (hiy : 0 ≤ iy) (iband : Int) (prec : Nat) (hprec : prec ≤ 11) :
    encodeInt 0 northp (centre ix prec) (centre iy prec) iband prec = .ok (upsString northp ix iy prec) := by
  obtain ⟨cx0, cx1, cx2⟩ := centre_same_square ix hix prec hprec
  obtain ⟨cy0, cy1, cy2⟩ := centre_same_square iy hiy prec hprec
  have cx3 := cx2; rw [cx1] at cx3
  have cy3 := cy2; rw [cy1] at cy3
  rw [encodeInt_ups northp (centre ix prec) (centre iy prec) cx0 cy0 iband prec hprec]
  unfold upsString
  simp only [cx1, cy1, cx3, cy3]

/-- what `Reverse` returns for the string is that centre: `(2·x1 + 1)/(2·10^prec)` tiles with `x1 = ⌊ix / 10^(11−prec)⌋` is `centre` up to the
    half micrometre lost at precision 11 (integer level of `reverse_forward_*` with `centerp`) -/
theorem centre_is_reverse (ix : Int) (hix : 0 ≤ ix) (prec : Nat) (hprec : prec ≤ 11) :
    let x1 := (ix / 100000000000) * 10 ^ prec + (ix - 100000000000 * (ix / 100000000000)) / 10 ^ (11 - prec)
    centre ix prec = (100000000000 * (2 * x1 + 1)) / (2 * 10 ^ prec) := by
  unfold centre
  have hc : prec = 0 ∨ prec = 1 ∨ prec = 2 ∨ prec = 3 ∨ prec = 4 ∨ prec = 5 ∨ prec = 6 ∨ prec = 7 ∨ prec = 8 ∨ prec = 9 ∨ prec = 10 ∨ prec = 11 := by omega
  rcases hc with rfl | rfl | rfl | rfl | rfl | rfl | rfl | rfl | rfl | rfl | rfl | rfl <;>
    simp only [Nat.sub_zero, Nat.reduceSub, Int.reducePow, Nat.sub_self, Int.pow_zero] <;> omega

example : centre 444500000000 2 = 444500000000 ∧ centre 444123456789 2 = 444500000000 ∧ centre 444123456789 11 = 444123456789 := by decide

end GeoVerif.Props.C05
