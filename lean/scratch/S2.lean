import GeoVerif.Model.TM
namespace GeoVerif.Props.C06
open GeoVerif GeoVerif.TM

theorem neg_neg (x : F64) : F64.neg (F64.neg x) = x := by cases x <;> simp [F64.neg]
def fabsS (x : F64) : F64 := mulSign (sgn x.signbit) x
theorem fabsS_neg (x : F64) : fabsS (F64.neg x) = fabsS x := by
  cases x with
  | nan => rfl
  | inf s => cases s <;> simp [fabsS, mulSign, sgn, F64.neg, F64.signbit]
  | fin s m e => cases s <;> simp [fabsS, mulSign, sgn, F64.neg, F64.signbit]
theorem sgn_neg (x : F64) (h : x.isNaN = false) : sgn (F64.neg x).signbit = - sgn x.signbit := by
  cases x with
  | nan => simp [F64.isNaN] at h
  | inf s => cases s <;> simp [sgn, F64.neg, F64.signbit]
  | fin s m e => cases s <;> simp [sgn, F64.neg, F64.signbit]
theorem sgn_sign (b : Bool) : sgn b = 1 ∨ sgn b = -1 := by cases b <;> simp [sgn]

theorem forward_lon_parity (c : Cfg) (hc : c.ext = false) (K : F64 → F64 → KOut) (lat d : F64) (hn : d.isNaN = false) :
    let r := forwardD c K lat d
    let r' := forwardD c K lat (F64.neg d)
    r'.u = F64.neg r.u ∧ r'.v = r.v ∧ r'.graw = F64.neg r.graw ∧ r'.k = r.k := by
  have h1 := fabsS_neg d
  have h2 := sgn_neg d hn
  unfold fabsS at h1
  simp only [forwardD, fwdFoldD, fwdUnfold, gammaRaw, hc, Bool.not_false, Bool.true_and]
  rw [h1, h2]
  rcases sgn_sign lat.signbit with h | h <;> rcases sgn_sign d.signbit with h' | h' <;>
    simp [h, h', mulSign, neg_neg] <;> (split <;> simp [neg_neg])

theorem forward_canonical (c : Cfg) (K : F64 → F64 → KOut) (lat d : F64)
    (h1 : lat.signbit = false) (h2 : d.signbit = false) (h3 : F64.gt d MathF.qd = false) :
    forwardD c K lat d =
      ⟨c.scale (K lat d).q, c.scale (K lat d).p, (K lat d).gamma,
       if c.series then MathF.angNormalize (K lat d).gamma else (K lat d).gamma, (K lat d).k * c.k0, c.scale (K lat d).p⟩ := by
  simp [forwardD, fwdFoldD, fwdUnfold, gammaRaw, h1, h2, h3, mulSign, sgn]

theorem forward_far_side (c : Cfg) (hc : c.ext = false) (K : F64 → F64 → KOut) (lat d : F64)
    (hfar : F64.gt (fabsS d) MathF.qd = true) :
    let fo := fwdFoldD c.ext lat d
    let r := K fo.p fo.q
    fo.back = true ∧ fo.q = MathF.hd - fabsS d ∧
    (forwardD c K lat d).u = mulSign fo.s2 (c.scale r.q) ∧
    (forwardD c K lat d).v = mulSign fo.s1 (c.scale (c.top - r.p)) ∧
    (forwardD c K lat d).graw = mulSign (fo.s1 * fo.s2) (MathF.hd - r.gamma) := by
  unfold fabsS at hfar
  simp [forwardD, fwdFoldD, fwdUnfold, gammaRaw, hc, hfar, fabsS]

theorem reverse_xi_parity (c : Cfg) (hc : c.ext = false) (K : F64 → F64 → KOut) (lon0 xi eta : F64) (hn : xi.isNaN = false) :
    let r := reverseZ c K lon0 xi eta
    let r' := reverseZ c K lon0 (F64.neg xi) eta
    r'.u = F64.neg r.u ∧ r'.v = r.v ∧ r'.vraw = r.vraw ∧ r'.graw = F64.neg r.graw ∧ r'.k = r.k := by
  have h1 := fabsS_neg xi
  have h2 := sgn_neg xi hn
  unfold fabsS at h1
  simp only [reverseZ, revFoldZ, revUnfold, gammaRaw, hc, Bool.not_false, Bool.true_and]
  rw [h1, h2]
  rcases sgn_sign xi.signbit with h | h <;> rcases sgn_sign eta.signbit with h' | h' <;> simp [h, h', mulSign, neg_neg]

theorem reverse_eta_parity (c : Cfg) (hc : c.ext = false) (K : F64 → F64 → KOut) (lon0 xi eta : F64) (hn : eta.isNaN = false) :
    let r := reverseZ c K lon0 xi eta
    let r' := reverseZ c K lon0 xi (F64.neg eta)
    r'.u = r.u ∧ r'.vraw = F64.neg r.vraw ∧ r'.graw = F64.neg r.graw ∧ r'.k = r.k := by
  have h1 := fabsS_neg eta
  have h2 := sgn_neg eta hn
  unfold fabsS at h1
  simp only [reverseZ, revFoldZ, revUnfold, gammaRaw, hc, Bool.not_false, Bool.true_and]
  rw [h1, h2]
  rcases sgn_sign xi.signbit with h | h <;> rcases sgn_sign eta.signbit with h' | h' <;>
    simp [h, h', mulSign, neg_neg] <;> (split <;> simp [neg_neg])

theorem reverse_canonical (c : Cfg) (K : F64 → F64 → KOut) (lon0 xi eta : F64)
    (h1 : xi.signbit = false) (h2 : eta.signbit = false) (h3 : F64.gt xi c.half = false) :
    (reverseZ c K lon0 xi eta).u = (K xi eta).p ∧ (reverseZ c K lon0 xi eta).vraw = (K xi eta).q ∧
    (reverseZ c K lon0 xi eta).graw = (K xi eta).gamma ∧ (reverseZ c K lon0 xi eta).k = (K xi eta).k * c.k0 := by
  simp [reverseZ, revFoldZ, revUnfold, gammaRaw, h1, h2, h3, mulSign, sgn]

/-- the kernel is only ever called on the first quadrant: non-negative (sign bit clear) arguments, longitude offset not beyond 90 -/
theorem fold_first_quadrant (lat d : F64) (hl : lat.isNaN = false) (hd : d.isNaN = false) :
    let fo := fwdFoldD false lat d
    fo.p.signbit = false ∧ (fo.back = false → fo.q.signbit = false ∧ F64.gt fo.q MathF.qd = false) := by
  cases lat with
  | nan => simp [F64.isNaN] at hl
  | inf s => cases d with
    | nan => simp [F64.isNaN] at hd
    | inf t => cases s <;> cases t <;> simp [fwdFoldD, mulSign, sgn, F64.neg, F64.signbit] <;> (intro h; exact h)
    | fin t m e => cases s <;> cases t <;> simp [fwdFoldD, mulSign, sgn, F64.neg, F64.signbit] <;> (intro h; exact h)
  | fin s m e => cases d with
    | nan => simp [F64.isNaN] at hd
    | inf t => cases s <;> cases t <;> simp [fwdFoldD, mulSign, sgn, F64.neg, F64.signbit] <;> (intro h; exact h)
    | fin t m e => cases s <;> cases t <;> simp [fwdFoldD, mulSign, sgn, F64.neg, F64.signbit] <;> (intro h; exact h)
end GeoVerif.Props.C06
