import GeoVerif.Props.C19
import GeoVerif.Proofs.HarmonicGlue
namespace Scratch
open GeoVerif GeoVerif.Harmonic GeoVerif.Proofs.Harmonic GeoVerif.Props.C19

/-! zonal table -/

/-- the normal zonal coefficient of degree `n` in the model's normalisation and units: `−(GMref/GMmodel)·(aref/amodel)^n·J_n/√(2n+1)` (fully normalised) or
    without the root (Schmidt); `amult = (aref/amodel)²`, `n = 2j` -/
noncomputable def zonalCoef (full : Bool) (mult amult : ℝ) (Jn : ℕ → ℝ) (j : ℕ) : ℝ :=
  -(mult * amult ^ j * Jn (2 * j)) / (if full then Real.sqrt (2 * (2 * j : ℕ) + 1) else 1)

theorem zonalTail_entries (full : Bool) (amult : ℝ) (Jn cC : ℕ → ℝ) (nmx : ℕ) :
    ∀ (fuel j : ℕ) (mult0 : ℝ) (i : ℕ), 2 * i + 1 < (zonalTail full amult Jn cC nmx fuel (2 * j) (mult0 * amult ^ (j - 1))).length → 1 ≤ j →
      (zonalTail full amult Jn cC nmx fuel (2 * j) (mult0 * amult ^ (j - 1))).getD (2 * i) 7 = 0 ∧
      (zonalTail full amult Jn cC nmx fuel (2 * j) (mult0 * amult ^ (j - 1))).getD (2 * i + 1) 7 = zonalCoef full mult0 amult Jn (j + i) := by
  intro fuel
  induction fuel with
  | zero => intro j mult0 i h; simp [zonalTail] at h
  | succ fuel ih =>
    intro j mult0 i h hj
    simp only [zonalTail] at h ⊢
    by_cases h1 : 2 * j > nmx
    · simp [h1] at h
    · simp only [h1, if_false] at h ⊢
      by_cases h2 : RealLike.eqb (cC (2 * j) - -(mult0 * amult ^ (j - 1) * amult * Jn (2 * j)) / zonalNorm full (2 * j)) (cC (2 * j)) = true
      · simp [h2] at h
      · simp only [h2, Bool.false_eq_true, if_false] at h ⊢
        have hm : mult0 * amult ^ (j - 1) * amult = mult0 * amult ^ (j + 1 - 1) := by
          have : j + 1 - 1 = (j - 1) + 1 := by omega
          rw [this, pow_succ]; ring
        cases i with
        | zero =>
          refine ⟨by simp [ofNat_real], ?_⟩
          simp only [List.getD_cons_succ, List.getD_cons_zero, Nat.mul_zero, Nat.zero_add, Nat.add_zero, zonalCoef, zonalNorm, sqrt_real, ofNat_real]
          have : mult0 * amult ^ (j - 1) * amult = mult0 * amult ^ j := by
            have : j = (j - 1) + 1 := by omega
            conv_rhs => rw [this, pow_succ]
            ring
          rw [this]
          cases full <;> simp <;> push_cast <;> ring_nf
        | succ i =>
          have e1 : 2 * (i + 1) = (2 * i) + 1 + 1 := by ring
          rw [e1]
          simp only [List.getD_cons_succ]
          rw [hm]
          have e3 : 2 * j + 2 = 2 * (j + 1) := by ring
          rw [e3]
          have hl : 2 * i + 1 < (zonalTail full amult Jn cC nmx fuel (2 * (j + 1)) (mult0 * amult ^ (j + 1 - 1))).length := by
            rw [hm, e3] at h
            simp only [List.length_cons] at h
            omega
          have := ih (j + 1) mult0 i hl (by omega)
          rw [show j + 1 + i = j + (i + 1) by ring] at this
          exact this

end Scratch
